(* DocDeterminismProofs.v — C14 on the real writer models: Xmi.save_xmi and Json.save_json over Reach.find_all_fs.
   Part 1 (traversal): a traversal whose reachable structures all carry ids changes nothing; a traversal repeated on a
   heap that carries at least the ids of the first run's final heap repeats that run (generalises ReachSpec.run_sim: the
   XMI writer gives ids to sofa data arrays AFTER the traversal).  Part 2: XMI.  Part 3: JSON. *)
From Cassis Require Import Base Heap Schema Canon Lex Reach ReachProofs ReachSpec.
From Cassis Require Import DocDeterminism.
From Coq Require Import ZifyBool.
Open Scope Z_scope.

(* ================================================================================================ generic list facts *)

Ltac leb_cases f :=
  repeat (match goal with |- context [Z.leb ?a ?b] => destruct (Z.leb_spec a b) end; cbn [f]).
Lemma zinsert_comm x y l : zinsert x (zinsert y l) = zinsert y (zinsert x l).
Proof.
  induction l as [|z r IH]; cbn [zinsert]; leb_cases zinsert; try reflexivity; try lia;
    try (rewrite IH; reflexivity); try (assert (x = y) by lia; subst; reflexivity).
Qed.
Lemma zsort_perm_eq l l' : Permutation l l' -> zsort l = zsort l'.
Proof.
  induction 1 as [|x l l' _ IH|x y l|l l' l'' _ IH1 _ IH2]; cbn [zsort fold_right] in *.
  - reflexivity.
  - f_equal. exact IH.
  - apply zinsert_comm.
  - congruence.
Qed.

Lemma insert_id_comm x y l : fst x <> fst y -> insert_id x (insert_id y l) = insert_id y (insert_id x l).
Proof.
  intros Hne. induction l as [|z r IH]; cbn [insert_id]; leb_cases insert_id; try reflexivity; try lia;
    try (rewrite IH; reflexivity).
Qed.
(* sorted(..., key=xmiID) of the same structures found in another order: the same list, because ids are distinct *)
Lemma sort_ids_perm_eq l l' : Permutation l l' -> NoDup (map fst l) -> sort_ids l = sort_ids l'.
Proof.
  induction 1 as [|x l l' _ IH|x y l|l l' l'' H1 IH1 H2 IH2]; intros Hnd; cbn [sort_ids fold_right map] in *.
  - reflexivity.
  - inversion Hnd; subst. f_equal. apply IH. assumption.
  - apply insert_id_comm. inversion Hnd as [|? ? Hni _]; subst. intros E. apply Hni. left. symmetry. exact E.
  - rewrite IH1 by exact Hnd. apply IH2. eapply Permutation_NoDup; [apply Permutation_map; exact H1|exact Hnd].
Qed.

Lemma memN_perm o l l' : Permutation l l' -> memN o l = memN o l'.
Proof.
  intros P. destruct (memN o l) eqn:A; symmetry.
  - apply memN_In. eapply Permutation_in; [exact P|]. apply memN_In. exact A.
  - apply memN_notIn. intros Hin. apply memN_notIn in A. apply A. eapply Permutation_in; [apply Permutation_sym; exact P|exact Hin].
Qed.
Lemma forallb_perm_eq {A} (p : A -> bool) l l' : Permutation l l' -> forallb p l = forallb p l'.
Proof.
  induction 1 as [|x l l' _ IH|x y l|l l' l'' _ IH1 _ IH2]; cbn [forallb]; try congruence.
  destruct (p x), (p y); reflexivity.
Qed.
Lemma flat_map_perm2 {A B} (f g : A -> list B) l l' :
  Forall2 (fun a b => Permutation (f a) (g b)) l l' -> Permutation (flat_map f l) (flat_map g l').
Proof. induction 1; cbn [flat_map]; [constructor|apply Permutation_app; assumption]. Qed.

(* ================================================================================================ part 1: the traversal *)

Lemma pop_queued_mono inl s w w' : pop inl s w = Ok w' -> incl (w_queued w) (w_queued w') /\
  forall o, In o (w_open w') -> In o (w_open w) \/ In o (w_queued w').
Proof.
  intros H. destruct (w_open w) as [|o rest] eqn:Ho.
  - unfold pop in H. rewrite Ho in H. inversion H; subst w'. split; [apply incl_refl|]. intros x Hx. left. rewrite <- Ho. exact Hx.
  - destruct (pop_cases _ _ _ _ _ _ Ho H) as (f & Eg & [[_ ->]|(_ & i & f' & hp & nx & all' & l & add & _ & _ & _ & -> & _)]);
      cbn [w_queued w_open].
    + split; [apply incl_refl|]. intros x Hx. left. right. exact Hx.
    + split; [apply incl_appl; apply incl_refl|]. intros x Hx. apply in_app_or in Hx. destruct Hx as [Hx|Hx].
      * left. right. exact Hx.
      * right. apply in_or_app. right. exact Hx.
Qed.
Lemma run_queued_mono inl s : forall k w w', run k inl s w = Ok w' -> incl (w_queued w) (w_queued w').
Proof.
  induction k as [|k IH]; intros w w' H; cbn [run] in H.
  - destruct (w_open w); [|discriminate]. inversion H. apply incl_refl.
  - destruct (w_open w) eqn:Ho; [inversion H; apply incl_refl|].
    destruct (pop inl s w) as [w1| |] eqn:Ep; cbn [bind] in H; try discriminate.
    eapply incl_tran; [exact (proj1 (pop_queued_mono _ _ _ _ Ep))|exact (IH _ _ H)].
Qed.

(* popping a structure that has an id assigns nothing *)
Lemma pop_noassign inl s w o rest w' : w_open w = o :: rest -> pop inl s w = Ok w' -> has_some_id (w_heap w) o ->
  w_heap w' = w_heap w /\ w_next w' = w_next w.
Proof.
  intros Ho H (f0 & i0 & Eg0 & Ei0).
  destruct (pop_cases _ _ _ _ _ _ Ho H) as (f & Eg & [[_ ->]|(_ & i & f' & hp & nx & all' & l & add & Hid & _ & _ & -> & _)]);
    cbn [w_heap w_next]; [split; reflexivity|].
  destruct Hid as [(_ & _ & -> & ->)|(Ei & _)]; [split; reflexivity|]. rewrite Eg in Eg0. inversion Eg0; subst f0. congruence.
Qed.
Lemma run_noassign inl s : forall k w w', run k inl s w = Ok w' ->
  (forall o, In o (w_open w) \/ In o (w_queued w') -> has_some_id (w_heap w) o) ->
  w_heap w' = w_heap w /\ w_next w' = w_next w.
Proof.
  induction k as [|k IH]; intros w w' H Hids; cbn [run] in H.
  - destruct (w_open w); [|discriminate]. inversion H. split; reflexivity.
  - destruct (w_open w) as [|o rest] eqn:Ho; [inversion H; split; reflexivity|].
    destruct (pop inl s w) as [w1| |] eqn:Ep; cbn [bind] in H; try discriminate.
    destruct (pop_noassign _ _ _ _ _ _ Ho Ep (Hids o (or_introl (or_introl eq_refl)))) as [Eh En].
    destruct (pop_queued_mono _ _ _ _ Ep) as [_ Hop].
    destruct (IH w1 w' H) as [Eh' En'].
    + intros x [Hx|Hx]; rewrite Eh.
      * destruct (Hop x Hx) as [Hx'|Hx']; [apply Hids; left; rewrite <- Ho; exact Hx'|].
        apply Hids. right. exact (run_queued_mono _ _ _ _ _ H x Hx').
      * apply Hids. right. exact Hx.
    + split; congruence.
Qed.

(* C14 premise => the traversal is the identity on the CAS *)
Theorem find_all_noassign inl s c seeds w : find_all_from inl s c seeds = Ok w ->
  (forall o, reach inl s (c_heap c) seeds o -> has_some_id (c_heap c) o) ->
  w_heap w = c_heap c /\ w_next w = c_next_id c.
Proof.
  intros H Hids. destruct (find_all_inv _ _ _ _ _ H) as (popped & I & _ & _).
  unfold find_all_from, start in H.
  destruct (enqueue (mkW (c_heap c) (c_next_id c) [] [] []) (map VRef seeds)) as [w0| |] eqn:E0; cbn [bind] in H; try discriminate.
  destruct (enqueue_spec _ _ _ E0) as (add & Hext & _). unfold extends in Hext. cbn [w_heap w_next w_all w_queued w_open app] in Hext.
  destruct (run_noassign _ _ _ _ _ H) as [Eh En].
  - intros o Ho. rewrite Hext. cbn [w_heap]. apply Hids. apply (i_reach _ _ _ _ _ _ _ I).
    destruct Ho as [Ho|Ho]; [|exact Ho]. apply (run_queued_mono _ _ _ _ _ H). rewrite Hext in *. cbn [w_open w_queued] in *. exact Ho.
  - rewrite Eh, En, Hext. split; reflexivity.
Qed.

(* conversely: if the generator was not consulted, everything reached had an id *)
Theorem find_all_next_ids inl s c seeds w : find_all_from inl s c seeds = Ok w -> w_next w = c_next_id c ->
  forall o, reach inl s (c_heap c) seeds o -> has_some_id (c_heap c) o.
Proof.
  intros H Hn o Hr.
  destruct (ids_assigned _ _ _ _ _ H) as (A1 & _ & A3 & _).
  destruct (find_all_shape _ _ _ _ _ H) as [Hs _].
  assert (Hret : ~ null_in (c_heap c) o -> has_some_id (c_heap c) o).
  { intros Hnn. assert (Ho : In o (returned w)) by (apply (find_all_exact _ _ _ _ _ H); split; assumption).
    apply returned_In in Ho. destruct Ho as (i & Hi). destruct (A1 _ _ Hi) as (f & Eg & Ei).
    destruct (shape_some _ _ _ _ Hs Eg) as (f0 & Eg0 & _).
    destruct (o_id f0) as [j|] eqn:Ej; [exists f0, j; split; assumption|].
    pose proof (A3 _ _ _ Hi Eg0 Ej). lia. }
  destruct (hget (c_heap c) o) as [f0|] eqn:Eg0.
  - destruct (is_null_id f0) eqn:En.
    + unfold is_null_id in En. destruct (o_id f0) as [j|] eqn:Ej; [|discriminate]. exists f0, j. split; assumption.
    + apply Hret. intros (g & Eg & Hg). congruence.
  - apply Hret. intros (g & Eg & _). congruence.
Qed.

Lemma reach_seeds_ext inl s h seeds seeds' o : (forall x, In x seeds -> In x seeds') -> reach inl s h seeds o -> reach inl s h seeds' o.
Proof. intros Hi R. induction R as [o Ho|o x _ IH Hn Hx]; [apply reach_seed; auto|eapply reach_succ; eassumption]. Qed.

(* ---- lockstep over a heap with more ids --------------------------------------------------------------------------- *)
Lemma run_sim_le inl s : forall k w1 wf h2 n2, run k inl s w1 = Ok wf -> 0 < w_next w1 -> ids_le (w_heap wf) h2 ->
  run k inl s (mkW h2 n2 (w_all w1) (w_queued w1) (w_open w1)) = Ok (mkW h2 n2 (w_all wf) (w_queued wf) (w_open wf)).
Proof.
  induction k as [|k IH]; intros w1 wf h2 n2 H Hpos L2.
  - cbn [run] in *. cbn [w_open]. destruct (w_open w1) eqn:Ho1; [|discriminate]. inversion H; subst wf. rewrite Ho1. reflexivity.
  - cbn [run] in *. cbn [w_open]. destruct (w_open w1) as [|o rest] eqn:Ho1.
    + inversion H; subst wf. rewrite Ho1. reflexivity.
    + destruct (pop inl s w1) as [w1'| |] eqn:Ep; cbn [bind] in H; try discriminate.
      pose proof (run_mono _ _ _ _ _ H) as [L1' _]. destruct (pop_mono _ _ _ _ Ep) as [L1 Hnx].
      pose proof (ids_le_trans _ _ _ L1' L2) as L12'. pose proof (ids_le_trans _ _ _ L1 L12') as L12.
      destruct (pop_cases_enq _ _ _ _ _ _ Ho1 Ep) as (f1 & Eg1 & C).
      assert (Ef2 : exists f2, hget h2 o = Some f2 /\ shape f2 = shape f1).
      { apply (shape_some (w_heap w1) h2 o f1); [symmetry; exact (proj1 L12)|exact Eg1]. }
      destruct Ef2 as (f2 & Eg2 & Hs2).
      assert (Hpop2 : pop inl s (mkW h2 n2 (w_all w1) (w_queued w1) (o :: rest))
                      = Ok (mkW h2 n2 (w_all w1') (w_queued w1') (w_open w1'))).
      { unfold pop. cbn [w_heap w_next w_all w_queued w_open]. rewrite Eg2.
        destruct C as [[En ->]|(En & i & f1' & hp & nx & all' & l & Hid & Hrec & Hc & He)].
        - assert (H0 : o_id f1 = Some 0) by (unfold is_null_id in En; destruct (o_id f1) as [[| |]|]; try discriminate; reflexivity).
          destruct (proj2 L12 _ _ _ Eg1 H0) as (g & Eg & Hg0). rewrite Eg2 in Eg. inversion Eg; subst g.
          unfold is_null_id. rewrite Hg0. reflexivity.
        - assert (Hw1' : w_heap w1' = hp /\ w_next w1' = nx /\ w_all w1' = all').
          { destruct (enqueue_spec _ _ _ He) as (add & Hext & _). unfold extends in Hext. rewrite Hext. cbn. repeat split. }
          destruct Hw1' as (Hhp & Hnx' & Hall').
          assert (Hi2 : o_id f2 = Some i /\ i <> 0 /\ shape f2 = shape f1').
          { destruct Hid as [(Ei & -> & _ & _)|(Ei & -> & -> & Ehp & _)].
            - destruct (proj2 L12 _ _ _ Eg1 Ei) as (g & Eg & Hgi). rewrite Eg2 in Eg. inversion Eg; subst g.
              split; [exact Hgi|]. split; [|exact Hs2]. intros ->. unfold is_null_id in En. rewrite Ei in En. discriminate.
            - assert (Eghp : hget (w_heap w1') o = Some (set_id f1 (w_next w1))).
              { rewrite Hhp, Ehp. eapply hget_hset_same. exact Eg1. }
              destruct (proj2 L12' _ _ _ Eghp eq_refl) as (g & Eg & Hgi). rewrite Eg2 in Eg. inversion Eg; subst g.
              split; [exact Hgi|]. split; [lia|exact Hs2]. }
          destruct Hi2 as (Hi2 & Hi0 & Hs2').
          assert (Hnn : is_null_id f2 = false).
          { unfold is_null_id. rewrite Hi2. destruct i; [contradiction|reflexivity|reflexivity]. }
          rewrite Hnn. unfold assign_id. rewrite Hi2.
          assert (Hrec2 : record_fs i o (mkW h2 n2 (w_all w1) (w_queued w1) rest) = Ok (mkW h2 n2 all' (w_queued w1) rest)).
          { unfold record_fs in *. cbn [w_heap w_next w_all w_queued w_open] in *.
            destruct (zfind i (w_all w1)) as [o'|]; [destruct (N.eqb o o'); [|discriminate]|]; inversion Hrec; reflexivity. }
          rewrite Hrec2. cbn [bind].
          assert (Hc2 : obj_cands inl s h2 f2 = Ok l).
          { rewrite <- Hc. apply obj_cands_shape; [rewrite <- Hhp; exact (proj1 L12')|symmetry; exact Hs2']. }
          pose proof (enqueue_rel l (mkW hp nx all' (w_queued w1) rest) (mkW h2 n2 all' (w_queued w1) rest) w1' eq_refl eq_refl He) as He2.
          cbn [w_heap w_next w_all] in He2.
          rewrite (scan_of_cands inl s f2 (mkW h2 n2 all' (w_queued w1) rest) l _ Hc2 He2). rewrite Hall'. reflexivity. }
      rewrite Hpop2. cbn [bind]. apply (IH w1' wf h2 n2 H); [lia|exact L2].
Qed.

(* a traversal repeated on a CAS that carries at least the ids the first one left behind finds the same structures under
   the same ids, in the same order, and assigns nothing *)
Theorem find_all_again inl s c seeds w c2 : 0 < c_next_id c -> find_all_from inl s c seeds = Ok w ->
  ids_le (w_heap w) (c_heap c2) ->
  find_all_from inl s c2 seeds = Ok (mkW (c_heap c2) (c_next_id c2) (w_all w) (w_queued w) (w_open w)).
Proof.
  intros Hpos H L. pose proof (find_all_shape _ _ _ _ _ H) as [Hs _].
  unfold find_all_from, start in *. unfold fuel_bound in *.
  destruct (enqueue (mkW (c_heap c) (c_next_id c) [] [] []) (map VRef seeds)) as [w0| |] eqn:E0; cbn [bind] in H; try discriminate.
  rewrite (enqueue_rel (map VRef seeds) (mkW (c_heap c) (c_next_id c) [] [] []) (mkW (c_heap c2) (c_next_id c2) [] [] []) w0 eq_refl eq_refl E0).
  cbn [bind w_heap w_next w_all].
  assert (El : List.length (c_heap c2) = List.length (c_heap c)).
  { apply shape_length. rewrite (proj1 L). exact Hs. }
  rewrite El.
  destruct (enqueue_spec _ _ _ E0) as (add & Hext & _). unfold extends in Hext. cbn [w_heap w_next w_all w_queued w_open app] in Hext.
  assert (Ea : w_all w0 = []) by (rewrite Hext; reflexivity). rewrite <- Ea.
  apply (run_sim_le inl s _ w0 w _ _ H); [rewrite Hext; exact Hpos|exact L].
Qed.

(* ================================================================================================ part 2: the XMI writer *)
From Cassis Require Import XmiDoc Xmi XmiProofs XmiWf XmiDocOk.

(* ---- variants: seeds, premises ---- *)
Lemma variant_seeds c1 c2 : member_order_variant c1 c2 -> Permutation (member_seeds c1) (member_seeds c2).
Proof.
  intros (_ & _ & Hv). unfold member_seeds. apply flat_map_perm2. apply (Forall2_impl_in _ _ _ _ Hv). intros a b _ [_ P]. exact P.
Qed.
Lemma variant_sofas c1 c2 : member_order_variant c1 c2 -> map v_sofa (c_views c1) = map v_sofa (c_views c2).
Proof. intros (_ & _ & Hv). induction Hv as [|a b l l' [E _] _ IH]; cbn [map]; [reflexivity|]. rewrite E, IH. reflexivity. Qed.
Lemma variant_sym c1 c2 : member_order_variant c1 c2 -> member_order_variant c2 c1.
Proof.
  intros (A & B & Hv). split; [auto|]. split; [auto|]. clear A B.
  induction Hv as [|a b l l' [E P] _ IH]; constructor; [split; [auto|apply Permutation_sym; exact P]|exact IH].
Qed.
Lemma sofas_in (vs1 vs2 : list cview) : map v_sofa vs1 = map v_sofa vs2 -> forall v, In v vs2 -> exists v', In v' vs1 /\ v_sofa v' = v_sofa v.
Proof.
  revert vs2. induction vs1 as [|a r IH]; intros [|b r2] E v Hv; cbn [map] in E; try discriminate; [destruct Hv|].
  injection E as E1 E2. destruct Hv as [<-|Hv]; [exists a; split; [left; reflexivity|exact E1]|].
  destruct (IH r2 E2 v Hv) as (v' & Hin & Ev). exists v'. split; [right; exact Hin|exact Ev].
Qed.
(* the premise of C14 does not depend on the member order *)
Theorem settled_variant inl s c1 c2 : member_order_variant c1 c2 -> settled inl s c1 -> settled inl s c2.
Proof.
  intros V [R A]. pose proof (variant_seeds _ _ V) as P. pose proof (variant_sofas _ _ V) as S. destruct V as (Eh & _ & _).
  split.
  - intros o Ho. rewrite <- Eh in *. apply R. eapply reach_seeds_ext; [|exact Ho].
    intros x Hx. eapply Permutation_in; [apply Permutation_sym; exact P|exact Hx].
  - intros v o Hv Ho. rewrite <- Eh. destruct (sofas_in _ _ S v Hv) as (v' & Hin & Ev). apply (A v' o Hin). rewrite Ev. exact Ho.
Qed.
Lemma arrays_have_idsb_spec c : arrays_have_idsb c = true <-> arrays_have_ids c.
Proof.
  unfold arrays_have_idsb, arrays_have_ids. rewrite forallb_forall. split.
  - intros H v o Hv Ho. specialize (H v Hv). rewrite Ho in H. destruct (hget (c_heap c) o) as [f|] eqn:Eg; [|discriminate].
    destruct (o_id f) as [i|] eqn:Ei; [|discriminate]. exists f, i. split; [exact Eg|exact Ei].
  - intros H v Hv. destruct (s_arr (v_sofa v)) as [o|] eqn:Ho; [|reflexivity].
    destruct (H v o Hv Ho) as (f & i & -> & ->). reflexivity.
Qed.
(* boolean and declarative form of the premise agree (whenever the traversal succeeds) *)
Theorem settledb_spec inl s c w : find_all_fs inl s c = Ok w -> (settledb inl s c = true <-> settled inl s c).
Proof.
  intros H. unfold settledb, settled. rewrite H, andb_true_iff, arrays_have_idsb_spec. rewrite find_all_fs_from in H. split.
  - intros [A N]. split; [|exact A]. intros o Ho. apply Z.eqb_eq in N. exact (find_all_next_ids _ _ _ _ _ H N o Ho).
  - intros [R A]. split; [exact A|]. apply Z.eqb_eq. exact (proj2 (find_all_noassign _ _ _ _ _ H R)).
Qed.

(* ---- sofa data arrays ---- *)
Lemma ids_le_hset h o f n : hget h o = Some f -> o_id f = None -> ids_le h (hset h o (set_id f n)).
Proof.
  intros Eg Ei. split; [apply shape_hset; exact Eg|].
  intros o' g j Hg Hj. destruct (N.eq_dec o' o) as [->|Hne].
  - rewrite Eg in Hg. inversion Hg; subst g. congruence.
  - exists g. split; [rewrite hget_hset_other; assumption|exact Hj].
Qed.
Lemma asa_ids_le : forall vs h n all h' n' all', add_sofa_arrays vs h n all = Ok (h', n', all') -> ids_le h h' /\ n <= n' /\ incl all all'.
Proof.
  induction vs as [|v r IH]; intros h n all h' n' all' H; cbn [add_sofa_arrays] in H.
  - inversion H; subst. split; [apply ids_le_refl|]. split; [lia|apply incl_refl].
  - destruct (s_arr (v_sofa v)) as [a|]; [|exact (IH _ _ _ _ _ _ H)].
    destruct (memN a (map snd all)); [exact (IH _ _ _ _ _ _ H)|].
    destruct (hget h a) as [f|] eqn:Eg; [|discriminate].
    destruct (o_id f) as [j|] eqn:Ej.
    + destruct (IH _ _ _ _ _ _ H) as (L & N & I). split; [exact L|]. split; [exact N|]. eapply incl_tran; [apply incl_appl; apply incl_refl|exact I].
    + destruct (IH _ _ _ _ _ _ H) as (L & N & I). split; [eapply ids_le_trans; [apply ids_le_hset; eassumption|exact L]|].
      split; [lia|]. eapply incl_tran; [apply incl_appl; apply incl_refl|exact I].
Qed.
(* with every array carrying an id nothing is assigned; the appended entries do not depend on the order of `all` *)
Lemma asa_settled_perm : forall vs1 vs2 h n all1 all2 h' n' all1',
  map v_sofa vs1 = map v_sofa vs2 -> Permutation all1 all2 ->
  (forall v o, In v vs1 -> s_arr (v_sofa v) = Some o -> has_some_id h o) ->
  add_sofa_arrays vs1 h n all1 = Ok (h', n', all1') ->
  h' = h /\ n' = n /\ exists all2', add_sofa_arrays vs2 h n all2 = Ok (h, n, all2') /\ Permutation all1' all2'.
Proof.
  induction vs1 as [|v r IH]; intros [|v2 r2] h n all1 all2 h' n' all1' E P Hid H; cbn [map] in E; try discriminate.
  - cbn [add_sofa_arrays] in *. inversion H; subst. split; [reflexivity|]. split; [reflexivity|]. exists all2. split; [reflexivity|exact P].
  - injection E as E1 E2. cbn [add_sofa_arrays] in *. rewrite <- E1.
    assert (Hid' : forall v0 o, In v0 r -> s_arr (v_sofa v0) = Some o -> has_some_id h o) by (intros v0 o Hv; apply Hid; right; exact Hv).
    destruct (s_arr (v_sofa v)) as [a|] eqn:Ea; [|exact (IH r2 _ _ _ _ _ _ _ E2 P Hid' H)].
    rewrite <- (memN_perm a _ _ (Permutation_map snd P)).
    destruct (memN a (map snd all1)); [exact (IH r2 _ _ _ _ _ _ _ E2 P Hid' H)|].
    destruct (Hid v a (or_introl eq_refl) Ea) as (f & i & Eg & Ei). rewrite Eg, Ei in *.
    exact (IH r2 _ _ _ _ _ _ _ E2 (Permutation_app_tail _ P) Hid' H).
Qed.
(* run again on a heap that carries at least the ids of the first run's result: same entries, nothing assigned *)
Lemma asa_again : forall vs h n all h' n' all', add_sofa_arrays vs h n all = Ok (h', n', all') ->
  forall h2 n2, ids_le h' h2 -> add_sofa_arrays vs h2 n2 all = Ok (h2, n2, all').
Proof.
  induction vs as [|v r IH]; intros h n all h' n' all' H h2 n2 L; cbn [add_sofa_arrays] in *.
  - inversion H; subst. reflexivity.
  - destruct (s_arr (v_sofa v)) as [a|]; [|exact (IH _ _ _ _ _ _ H h2 n2 L)].
    destruct (memN a (map snd all)); [exact (IH _ _ _ _ _ _ H h2 n2 L)|].
    destruct (hget h a) as [f|] eqn:Eg; [|discriminate].
    destruct (o_id f) as [j|] eqn:Ej.
    + destruct (asa_ids_le _ _ _ _ _ _ _ H) as (L1 & _ & _).
      destruct (proj2 (ids_le_trans _ _ _ L1 L) _ _ _ Eg Ej) as (f2 & Eg2 & Ej2). rewrite Eg2, Ej2. exact (IH _ _ _ _ _ _ H h2 n2 L).
    + destruct (asa_ids_le _ _ _ _ _ _ _ H) as (L1 & _ & _).
      assert (Eg1 : hget (hset h a (set_id f n)) a = Some (set_id f n)) by (eapply hget_hset_same; exact Eg).
      destruct (proj2 (ids_le_trans _ _ _ L1 L) _ _ _ Eg1 eq_refl) as (f2 & Eg2 & Ej2). rewrite Eg2, Ej2. exact (IH _ _ _ _ _ _ H h2 n2 L).
Qed.
(* an id that appears is fresh and listed *)
Lemma asa_new : forall vs h n all h' n' all', add_sofa_arrays vs h n all = Ok (h', n', all') ->
  forall o f f' i, hget h o = Some f -> o_id f = None -> hget h' o = Some f' -> o_id f' = Some i -> n <= i < n' /\ In (i, o) all'.
Proof.
  induction vs as [|v r IH]; intros h n all h' n' all' H o f f' i Eg Ei Eg' Ei'; cbn [add_sofa_arrays] in H.
  - inversion H; subst. congruence.
  - destruct (s_arr (v_sofa v)) as [a|]; [|exact (IH _ _ _ _ _ _ H o f f' i Eg Ei Eg' Ei')].
    destruct (memN a (map snd all)); [exact (IH _ _ _ _ _ _ H o f f' i Eg Ei Eg' Ei')|].
    destruct (hget h a) as [fa|] eqn:Ega; [|discriminate].
    destruct (o_id fa) as [j|] eqn:Ej; [exact (IH _ _ _ _ _ _ H o f f' i Eg Ei Eg' Ei')|].
    destruct (asa_ids_le _ _ _ _ _ _ _ H) as (L1 & N1 & I1).
    destruct (N.eq_dec o a) as [->|Hne].
    + assert (Eg1 : hget (hset h a (set_id fa n)) a = Some (set_id fa n)) by (eapply hget_hset_same; exact Ega).
      destruct (proj2 L1 _ _ _ Eg1 eq_refl) as (g & Eg2 & Ej2). rewrite Eg' in Eg2. inversion Eg2; subst g.
      assert (i = n) by congruence. subst i. split; [lia|]. apply I1. apply in_or_app. right. left. reflexivity.
    + assert (Eg1 : hget (hset h a (set_id fa n)) o = Some f) by (rewrite hget_hset_other; assumption).
      destruct (IH _ _ _ _ _ _ H o f f' i Eg1 Ei Eg' Ei') as [B I]. split; [lia|exact I].
Qed.

(* ---- the encoders read the views only through the sofas ---- *)
Lemma views_find_sofa_ext (p : sofa -> bool) : forall vs1 vs2 : list cview, map v_sofa vs1 = map v_sofa vs2 ->
  option_map v_sofa (find (fun v => p (v_sofa v)) vs1) = option_map v_sofa (find (fun v => p (v_sofa v)) vs2).
Proof.
  induction vs1 as [|a r IH]; intros [|b r2] E; cbn [map] in E; try discriminate; [reflexivity|].
  injection E as E1 E2. cbn [find]. rewrite <- E1. destruct (p (v_sofa a)); [cbn [option_map]; rewrite E1; reflexivity|exact (IH r2 E2)].
Qed.
Definition same_sofas (c1 c2 : cas) : Prop := c_heap c1 = c_heap c2 /\ map v_sofa (c_views c1) = map v_sofa (c_views c2).
Lemma sofa_of_view_ext c1 c2 n : same_sofas c1 c2 -> sofa_of_view c1 n = sofa_of_view c2 n.
Proof. intros [_ E]. unfold sofa_of_view. exact (views_find_sofa_ext (fun so => String.eqb (s_name so) n) _ _ E). Qed.

Section EncExt.
Variable fmt_flt : flt -> string.
Variables (s : schema) (c1 c2 : cas).
Hypothesis SS : same_sofas c1 c2.
Lemma enc_value_ext n r k v : enc_value fmt_flt s c1 n r k v = enc_value fmt_flt s c2 n r k v.
Proof.
  unfold enc_value. rewrite (proj1 SS). destruct k; try reflexivity.
  destruct v; try reflexivity. rewrite (sofa_of_view_ext c1 c2 n0 SS). reflexivity.
Qed.
Lemma conv_out_ext tn f n v0 : conv_out s c1 tn f n v0 = conv_out s c2 tn f n v0.
Proof.
  unfold conv_out. destruct (isa s tn T_ANNOTATION && _); [|reflexivity].
  destruct (slot f "sofa"); try reflexivity. rewrite (sofa_of_view_ext c1 c2 n0 SS). reflexivity.
Qed.
Lemma enc_feature_ext tn f fd : enc_feature fmt_flt s c1 tn f fd = enc_feature fmt_flt s c2 tn f fd.
Proof.
  unfold enc_feature. destruct (memb (fd_name fd) ["xmiID"; "type"]); [reflexivity|].
  destruct (slot f (fd_name fd)); try reflexivity; rewrite conv_out_ext;
    (destruct (conv_out s c2 tn f (fd_xname fd) _); cbn [bind]; [apply enc_value_ext|reflexivity|reflexivity]).
Qed.
Lemma enc_fs_ext ns i f : enc_fs fmt_flt s c1 ns i f = enc_fs fmt_flt s c2 ns i f.
Proof.
  unfold enc_fs. rewrite (proj1 SS). destruct (is_prim_array_name (o_type f) || String.eqb (o_type f) T_FS_ARRAY); [reflexivity|].
  destruct (sch_find s (o_type f)) as [ti|]; [|reflexivity].
  rewrite (mapM_ext_in (enc_feature fmt_flt s c1 (o_type f) f) (enc_feature fmt_flt s c2 (o_type f) f)); [reflexivity|].
  intros fd _. apply enc_feature_ext.
Qed.
Lemma enc_all_ext : forall l st, enc_all fmt_flt s c1 st l = enc_all fmt_flt s c2 st l.
Proof.
  induction l as [|[i o] r IH]; intros st; cbn [enc_all]; [reflexivity|]. rewrite (proj1 SS).
  destruct (hget (c_heap c2) o) as [f|]; [|reflexivity].
  destruct (alloc_ns st (o_type f)) as [ns_st| |]; cbn [bind]; try reflexivity.
  rewrite enc_fs_ext. destruct (enc_fs fmt_flt s c2 (fst ns_st) i f); cbn [bind]; try reflexivity. rewrite IH. reflexivity.
Qed.
End EncExt.

Lemma mapM_perm {A B} (f : A -> res B) l l' : Permutation l l' -> forall ys, mapM f l = Ok ys ->
  exists ys', mapM f l' = Ok ys' /\ Permutation ys ys'.
Proof.
  induction 1 as [|x l l' _ IH|x y l|l l' l'' _ IH1 _ IH2]; intros ys H.
  - exists ys. split; [exact H|apply Permutation_refl].
  - cbn [mapM] in *. destruct (f x) as [b| |]; cbn [bind] in *; try discriminate.
    destruct (mapM f l) as [bs| |]; cbn [bind] in *; try discriminate. inversion H; subst ys.
    destruct (IH bs eq_refl) as (bs' & -> & P). cbn [bind]. exists (b :: bs'). split; [reflexivity|constructor; exact P].
  - cbn [mapM] in *. destruct (f y) as [b| |]; cbn [bind] in *; try discriminate.
    destruct (f x) as [a| |]; cbn [bind] in *; try discriminate.
    destruct (mapM f l) as [bs| |]; cbn [bind] in *; try discriminate. inversion H; subst ys.
    exists (a :: b :: bs). split; [reflexivity|constructor].
  - destruct (IH1 ys H) as (ys1 & H1 & P1). destruct (IH2 ys1 H1) as (ys2 & H2 & P2). exists ys2. split; [exact H2|].
    eapply Permutation_trans; eassumption.
Qed.
(* the members attribute: sorted(int(x.xmiID)) does not depend on the order the view lists its members *)
Lemma enc_view_perm h v1 v2 e : view_perm v1 v2 -> enc_view h v1 = Ok e -> enc_view h v2 = Ok e.
Proof.
  intros [Es P]. unfold enc_view.
  destruct (mapM (member_id h) (v_members v1)) as [ms| |] eqn:E1; cbn [bind]; try discriminate.
  destruct (mapM_perm _ _ _ P ms E1) as (ms' & -> & Pm). cbn [bind]. rewrite <- Es, (zsort_perm_eq _ _ Pm). auto.
Qed.
Lemma mapM_Forall2_imp {A A' B} (f : A -> res B) (g : A' -> res B) (R : A -> A' -> Prop) :
  (forall a a' b, R a a' -> f a = Ok b -> g a' = Ok b) ->
  forall l l', Forall2 R l l' -> forall ys, mapM f l = Ok ys -> mapM g l' = Ok ys.
Proof.
  intros Hfg. induction 1 as [|a a' l l' Ha _ IH]; intros ys H; cbn [mapM] in *; [exact H|].
  destruct (f a) as [b| |] eqn:Ea; cbn [bind] in *; try discriminate. rewrite (Hfg _ _ _ Ha Ea). cbn [bind].
  destruct (mapM f l) as [bs| |]; cbn [bind] in *; try discriminate. rewrite (IH bs eq_refl). exact H.
Qed.

(* ---- "only ids were added": composition, and the two steps of a save ---- *)
Lemma only_ids_weaken c c1 (W W' : xid -> oid -> Prop) : (forall i o, W i o -> W' i o) -> only_ids_added c c1 W -> only_ids_added c c1 W'.
Proof. intros HW (A & B & C & D & E). repeat split; try assumption; destruct (E o f f1 i H H0 H1 H2) as [X Y]; [lia|lia|auto]. Qed.
Lemma only_ids_trans a b c (W1 W2 : xid -> oid -> Prop) : only_ids_added a b W1 -> only_ids_added b c W2 ->
  only_ids_added a c (fun i o => W1 i o \/ W2 i o).
Proof.
  intros (A1 & B1 & C1 & D1 & E1) (A2 & B2 & C2 & D2 & E2).
  split; [congruence|]. split; [congruence|]. split; [lia|]. split.
  - intros o f i Eg Ei. destruct (D1 _ _ _ Eg Ei) as (f1 & Eg1 & Ei1). exact (D2 _ _ _ Eg1 Ei1).
  - intros o f f2 i Eg Ei Eg2 Ei2.
    destruct (shape_some _ _ o f (eq_sym B1) Eg) as (fb & Egb & _).
    destruct (o_id fb) as [j|] eqn:Ej.
    + destruct (D2 _ _ _ Egb Ej) as (g & Egg & Ejg). rewrite Eg2 in Egg. inversion Egg; subst g. assert (i = j) by congruence. subst j.
      destruct (E1 _ _ _ _ Eg Ei Egb Ej) as [X Y]. split; [lia|left; exact Y].
    + destruct (E2 _ _ _ _ Egb Ej Eg2 Ei2) as [X Y]. split; [lia|right; exact Y].
Qed.
(* the traversal *)
Lemma find_all_only_ids inl s c seeds w : find_all_from inl s c seeds = Ok w -> only_ids_added c (cas_after c w) (listed (w_all w)).
Proof.
  intros E1. destruct (find_all_inv _ _ _ _ _ E1) as (popped & Iv & Hop & _).
  destruct (ids_assigned _ _ _ _ _ E1) as (_ & K2 & _ & N0).
  unfold only_ids_added, cas_after. cbn [c_views c_heap c_next_id].
  split; [reflexivity|]. split; [exact (i_shape _ _ _ _ _ _ _ Iv)|]. split; [exact N0|]. split; [exact K2|].
  intros o f f1 i Eg Ei Eg1 Ei1.
  assert (Hp : In o popped).
  { destruct (in_dec N.eq_dec o popped) as [Hin|Hni]; [exact Hin|]. rewrite (i_unpopped _ _ _ _ _ _ _ Iv o Hni) in Eg1. congruence. }
  destruct (i_popped _ _ _ _ _ _ _ Iv o Hp) as [(g & Egn & Hn)|[(i' & Hi') _]].
  - rewrite Eg in Egn. inversion Egn; subst g. unfold is_null_id in Hn. rewrite Ei in Hn. discriminate.
  - destruct (i_all _ _ _ _ _ _ _ Iv _ _ Hi') as (_ & _ & g & Egg & Eig). rewrite Eg1 in Egg. inversion Egg; subst g.
    assert (i' = i) by congruence. subst i'. pose proof (i_fresh _ _ _ _ _ _ _ Iv _ _ _ Hi' Eg Ei). split; [lia|exact Hi'].
Qed.
(* the sofa data arrays of the XMI writer *)
Lemma asa_only_ids vs views h n all h' n' all' : add_sofa_arrays vs h n all = Ok (h', n', all') ->
  only_ids_added (mkCas views h n) (mkCas views h' n') (listed all').
Proof.
  intros A1. destruct (asa_ids_le _ _ _ _ _ _ _ A1) as (L & N & I). unfold only_ids_added. cbn [c_views c_heap c_next_id].
  split; [reflexivity|]. split; [exact (proj1 L)|]. split; [exact N|]. split; [exact (proj2 L)|].
  intros o f f1 i Eg Ei Eg1 Ei1. exact (asa_new _ _ _ _ _ _ _ A1 o f f1 i Eg Ei Eg1 Ei1).
Qed.

Section XmiSave.
Variable fmt_flt : flt -> string.

Lemma save_xmi_unsplit s c d c' all : written s c = Ok (c', all) -> write_doc fmt_flt s c' all = Ok d -> save_xmi fmt_flt s c = Ok (d, c').
Proof.
  unfold save_xmi, write_doc. intros -> H. cbn [bind fst snd].
  destruct (enc_all fmt_flt s c' ns_init (sort_ids all)) as [fss| |]; cbn [bind] in *; try discriminate.
  destruct (mapM (fun v => enc_sofa (c_heap c') (v_sofa v)) (c_views c')) as [ses| |]; cbn [bind] in *; try discriminate.
  destruct (mapM (enc_view (c_heap c')) (c_views c')) as [ves| |]; cbn [bind] in *; try discriminate.
  inversion H. reflexivity.
Qed.

(* the document depends on the views only through the sofas and the member multisets, and on `all` only as a set *)
Lemma write_doc_variant s c1 c2 all1 all2 d : member_order_variant c1 c2 -> sort_ids all1 = sort_ids all2 ->
  write_doc fmt_flt s c1 all1 = Ok d -> write_doc fmt_flt s c2 all2 = Ok d.
Proof.
  intros V Es H. pose proof (variant_sofas _ _ V) as S. destruct V as (Eh & _ & Hv). unfold write_doc in *.
  rewrite <- Es, <- (enc_all_ext fmt_flt s c1 c2 (conj Eh S)).
  destruct (enc_all fmt_flt s c1 ns_init (sort_ids all1)) as [fss| |]; cbn [bind] in *; try discriminate.
  destruct (mapM (fun v => enc_sofa (c_heap c1) (v_sofa v)) (c_views c1)) as [ses| |] eqn:E2; cbn [bind] in *; try discriminate.
  assert (E2' : mapM (fun v => enc_sofa (c_heap c2) (v_sofa v)) (c_views c2) = Ok ses).
  { apply (mapM_Forall2_imp (fun v => enc_sofa (c_heap c1) (v_sofa v)) (fun v => enc_sofa (c_heap c2) (v_sofa v)) view_perm)
      with (l := c_views c1); [|exact Hv|exact E2]. intros a a' b [Ea _]. rewrite <- Eh, Ea. auto. }
  rewrite E2'. cbn [bind].
  destruct (mapM (enc_view (c_heap c1)) (c_views c1)) as [ves| |] eqn:E3; cbn [bind] in *; try discriminate.
  assert (E3' : mapM (enc_view (c_heap c2)) (c_views c2) = Ok ves).
  { apply (mapM_Forall2_imp (enc_view (c_heap c1)) (enc_view (c_heap c2)) view_perm) with (l := c_views c1); [|exact Hv|exact E3].
    intros a a' b Ha. rewrite <- Eh. apply enc_view_perm. exact Ha. }
  rewrite E3'. exact H.
Qed.

(* C14 (XMI), independence of the select_all order *)
Theorem xmi_save_member_order_independent s c1 c2 d c1' :
  wf_casb s c1 = true -> settledb false s c1 = true -> member_order_variant c1 c2 ->
  save_xmi fmt_flt s c1 = Ok (d, c1') -> c1' = c1 /\ save_xmi fmt_flt s c2 = Ok (d, c2).
Proof.
  intros WF SB V HS.
  destruct (save_xmi_split fmt_flt s c1 d c1' HS) as (all1 & HW & HD).
  destruct (written_facts_hold s c1 c1' all1 WF HW) as [_ _ _ _ Fni _ _ _ _ _].
  destruct (wf_casb_parts s c1 WF) as (Hpos & Pwf & Psl & Pids & _).
  unfold written in HW.
  destruct (find_all_fs false s c1) as [w1| |] eqn:E1; cbn [bind] in HW; try discriminate.
  destruct (add_sofa_arrays (c_views c1) (w_heap w1) (w_next w1) (w_all w1)) as [[[h1 n1] a1]| |] eqn:A1; cbn [bind fst snd] in HW; try discriminate.
  inversion HW; subst c1' all1. clear HW.
  destruct (proj1 (settledb_spec false s c1 w1 E1) SB) as [R1 Ar1].
  pose proof (settled_variant false s c1 c2 V (conj R1 Ar1)) as [R2 Ar2].
  pose proof (variant_seeds _ _ V) as PS. pose proof (variant_sofas _ _ V) as SS. pose proof V as (Eh & En & Hv).
  rewrite find_all_fs_from in E1.
  destruct (find_all_noassign _ _ _ _ _ E1 R1) as [Eh1 En1].
  (* the traversal of the variant *)
  destruct (find_all_ok false s c2 (member_seeds c2)) as (w2 & E2).
  { rewrite <- Eh. exact Pwf. }
  { rewrite <- Eh. unfold seeds_liveb. rewrite <- (forallb_perm_eq _ _ _ PS). exact Psl. }
  { rewrite <- Eh, <- En. exact Pids. }
  destruct (find_all_noassign _ _ _ _ _ E2 R2) as [Eh2 En2].
  (* the same structures under the same ids *)
  assert (Pall : Permutation (w_all w1) (w_all w2)).
  { destruct (find_all_each_once _ _ _ _ _ E1) as [_ N1]. destruct (find_all_each_once _ _ _ _ _ E2) as [_ N2].
    destruct (ids_assigned _ _ _ _ _ E1) as (I1 & _). destruct (ids_assigned _ _ _ _ _ E2) as (I2 & _).
    assert (Half : forall ca cb wa wb, c_heap ca = c_heap cb -> Permutation (member_seeds ca) (member_seeds cb) ->
              find_all_from false s ca (member_seeds ca) = Ok wa -> find_all_from false s cb (member_seeds cb) = Ok wb ->
              w_heap wa = c_heap ca -> w_heap wb = c_heap cb ->
              (forall i o, In (i, o) (w_all wa) -> exists f, hget (w_heap wa) o = Some f /\ o_id f = Some i) ->
              (forall i o, In (i, o) (w_all wb) -> exists f, hget (w_heap wb) o = Some f /\ o_id f = Some i) ->
              forall x, In x (w_all wa) -> In x (w_all wb)).
    { intros ca cb wa wb Ehh PP Ea Eb Ha Hb Ia Ib [i o] Hio.
      assert (Ho : In o (returned wb)).
      { apply (find_all_exact _ _ _ _ _ Eb). rewrite <- Ehh.
        destruct (proj1 (find_all_exact _ _ _ _ _ Ea o)) as [Rr Nn]; [apply returned_In; exists i; exact Hio|].
        split; [|exact Nn]. eapply reach_seeds_ext; [|exact Rr]. intros x Hx. eapply Permutation_in; [exact PP|exact Hx]. }
      apply returned_In in Ho. destruct Ho as (j & Hj).
      destruct (Ia _ _ Hio) as (f & Eg & Ei). destruct (Ib _ _ Hj) as (g & Eg' & Ej).
      rewrite Ha in Eg. rewrite Hb, <- Ehh in Eg'. assert (i = j) by congruence. subst j. exact Hj. }
    apply NoDup_Permutation.
    - eapply NoDup_map_inv. exact N1.
    - eapply NoDup_map_inv. exact N2.
    - intros x. split.
      + apply (Half c1 c2 w1 w2 Eh PS E1 E2 Eh1 Eh2 I1 I2).
      + apply (Half c2 c1 w2 w1 (eq_sym Eh) (Permutation_sym PS) E2 E1 Eh2 Eh1 I2 I1). }
  (* the sofa data arrays *)
  rewrite Eh1, En1 in A1.
  destruct (asa_settled_perm _ _ _ _ _ _ _ _ _ SS Pall Ar1 A1) as (-> & -> & a2 & A2 & Pa).
  assert (Ec1 : mkCas (c_views c1) (c_heap c1) (c_next_id c1) = c1) by (destruct c1; reflexivity).
  rewrite Ec1 in *. split; [reflexivity|].
  assert (HW2 : written s c2 = Ok (c2, a2)).
  { unfold written. rewrite find_all_fs_from, E2. cbn [bind]. rewrite Eh2, En2, <- Eh, <- En, A2. cbn [bind fst snd].
    rewrite Eh, En. destruct c2; reflexivity. }
  apply (save_xmi_unsplit s c2 d c2 a2 HW2).
  apply (write_doc_variant s c1 c2 a1 a2 d V); [|exact HD].
  apply sort_ids_perm_eq; [exact Pa|exact Fni].
Qed.

(* the same for any CAS with the same objects, sofas and per view the same SET of members, each indexed once *)
Lemma set_variant_order c1 c2 : member_set_variant c1 c2 -> members_nodup c1 -> members_nodup c2 -> member_order_variant c1 c2.
Proof.
  intros (Eh & En & Hv) N1 N2. split; [exact Eh|]. split; [exact En|]. unfold members_nodup in *.
  revert N1 N2. induction Hv as [|a b l l' [Es Hs] _ IH]; intros N1 N2; constructor.
  - inversion N1; inversion N2; subst. split; [exact Es|]. apply NoDup_Permutation; assumption.
  - inversion N1; inversion N2; subst. apply IH; assumption.
Qed.
Corollary xmi_save_member_set_independent s c1 c2 d c1' :
  wf_casb s c1 = true -> settledb false s c1 = true -> member_set_variant c1 c2 -> members_nodup c1 -> members_nodup c2 ->
  save_xmi fmt_flt s c1 = Ok (d, c1') -> c1' = c1 /\ save_xmi fmt_flt s c2 = Ok (d, c2).
Proof. intros WF SB V N1 N2. apply xmi_save_member_order_independent; [exact WF|exact SB|apply set_variant_order; assumption]. Qed.

(* C14 (XMI): saving again writes the same document and changes nothing *)
Lemma written_again s c c1 all : 0 < c_next_id c -> written s c = Ok (c1, all) -> written s c1 = Ok (c1, all).
Proof.
  intros Hpos HW. unfold written in *.
  destruct (find_all_fs false s c) as [w| |] eqn:E1; cbn [bind] in HW; try discriminate.
  destruct (add_sofa_arrays (c_views c) (w_heap w) (w_next w) (w_all w)) as [[[h1 n1] a1]| |] eqn:A1; cbn [bind fst snd] in HW; try discriminate.
  inversion HW; subst c1 all. clear HW. rewrite find_all_fs_from in *.
  destruct (asa_ids_le _ _ _ _ _ _ _ A1) as (L & _ & _).
  pose proof (find_all_again false s c (member_seeds c) w (mkCas (c_views c) h1 n1) Hpos E1 L) as E2.
  change (member_seeds (mkCas (c_views c) h1 n1)) with (member_seeds c). rewrite E2. cbn [bind c_views c_heap c_next_id w_heap w_next w_all].
  rewrite (asa_again _ _ _ _ _ _ _ A1 h1 n1 (ids_le_refl _)). reflexivity.
Qed.
Theorem xmi_save_idempotent s c d c1 : 0 < c_next_id c -> save_xmi fmt_flt s c = Ok (d, c1) -> save_xmi fmt_flt s c1 = Ok (d, c1).
Proof.
  intros Hpos HS. destruct (save_xmi_split fmt_flt s c d c1 HS) as (all & HW & HD).
  exact (save_xmi_unsplit s c1 d c1 all (written_again s c c1 all Hpos HW) HD).
Qed.

(* C14 (XMI): a save only gives ids to id-less structures that it writes, fresh from the generator *)
Lemma written_only_ids s c c1 all : written s c = Ok (c1, all) -> only_ids_added c c1 (listed all).
Proof.
  intros HW. unfold written in HW.
  destruct (find_all_fs false s c) as [w| |] eqn:E1; cbn [bind] in HW; try discriminate.
  destruct (add_sofa_arrays (c_views c) (w_heap w) (w_next w) (w_all w)) as [[[h1 n1] a1]| |] eqn:A1; cbn [bind fst snd] in HW; try discriminate.
  inversion HW; subst c1 all. clear HW. rewrite find_all_fs_from in E1.
  eapply only_ids_weaken; [|eapply only_ids_trans; [exact (find_all_only_ids _ _ _ _ _ E1)|exact (asa_only_ids _ _ _ _ _ _ _ _ A1)]].
  destruct (asa_ids_le _ _ _ _ _ _ _ A1) as (_ & _ & I). intros i o [H|H]; [apply I; exact H|exact H].
Qed.
Theorem xmi_save_preserves_content s c d c1 : save_xmi fmt_flt s c = Ok (d, c1) ->
  exists all, written s c = Ok (c1, all) /\ only_ids_added c c1 (listed all).
Proof.
  intros HS. destruct (save_xmi_split fmt_flt s c d c1 HS) as (all & HW & _). exists all. split; [exact HW|exact (written_only_ids s c c1 all HW)].
Qed.
End XmiSave.

(* ================================================================================================ part 3: the JSON writer *)
From Cassis Require Import JsonDoc Json JsonProofs.
Open Scope list_scope.
Open Scope Z_scope.

Lemma jmapM_ext_in {A B} (f g : A -> res B) l : (forall x, In x l -> f x = g x) -> mapM f l = mapM g l.
Proof.
  induction l as [|x r IH]; intros H; [reflexivity|]. cbn [mapM]. rewrite (H x (or_introl eq_refl)).
  rewrite IH by (intros y Hy; apply H; right; exact Hy). reflexivity.
Qed.
Lemma jmapM_perm {A B} (f : A -> res B) l l' : Permutation l l' -> forall ys, mapM f l = Ok ys ->
  exists ys', mapM f l' = Ok ys' /\ Permutation ys ys'.
Proof.
  induction 1 as [|x l l' _ IH|x y l|l l' l'' _ IH1 _ IH2]; intros ys H.
  - exists ys. split; [exact H|apply Permutation_refl].
  - cbn [mapM] in *. destruct (f x) as [b| |]; cbn [bind] in *; try discriminate.
    destruct (mapM f l) as [bs| |]; cbn [bind] in *; try discriminate. inversion H; subst ys.
    destruct (IH bs eq_refl) as (bs' & -> & P). cbn [bind]. exists (b :: bs'). split; [reflexivity|constructor; exact P].
  - cbn [mapM] in *. destruct (f y) as [b| |]; cbn [bind] in *; try discriminate.
    destruct (f x) as [a| |]; cbn [bind] in *; try discriminate.
    destruct (mapM f l) as [bs| |]; cbn [bind] in *; try discriminate. inversion H; subst ys.
    exists (a :: b :: bs). split; [reflexivity|constructor].
  - destruct (IH1 ys H) as (ys1 & H1 & P1). destruct (IH2 ys1 H1) as (ys2 & H2 & P2). exists ys2. split; [exact H2|].
    eapply Permutation_trans; eassumption.
Qed.
Lemma jmapM_Forall2_imp {A A' B} (f : A -> res B) (g : A' -> res B) (R : A -> A' -> Prop) :
  (forall a a' b, R a a' -> f a = Ok b -> g a' = Ok b) ->
  forall l l', Forall2 R l l' -> forall ys, mapM f l = Ok ys -> mapM g l' = Ok ys.
Proof.
  intros Hfg. induction 1 as [|a a' l l' Ha _ IH]; intros ys H; cbn [mapM] in *; [exact H|].
  destruct (f a) as [b| |] eqn:Ea; cbn [bind] in *; try discriminate. rewrite (Hfg _ _ _ Ha Ea). cbn [bind].
  destruct (mapM f l) as [bs| |]; cbn [bind] in *; try discriminate. rewrite (IH bs eq_refl). exact H.
Qed.

(* ---- the encoders read the views only through the sofas ---- *)
Lemma jfind_sofa_ext c1 c2 n : same_sofas c1 c2 -> find_sofa c1 n = find_sofa c2 n.
Proof. intros [_ E]. unfold find_sofa. exact (views_find_sofa_ext (fun so => String.eqb (s_name so) n) _ _ E). Qed.
Section JEncExt.
Variables (L : lex) (s : schema) (c1 c2 : cas).
Hypothesis SS : same_sofas c1 c2.
Lemma jref_id_ext v : ref_id c1 v = ref_id c2 v.
Proof. destruct v; cbn [ref_id]; try reflexivity; [rewrite (proj1 SS); reflexivity|rewrite (jfind_sofa_ext c1 c2 n SS); reflexivity]. Qed.
Lemma jref_json_ext v : ref_json c1 v = ref_json c2 v.
Proof. unfold ref_json. rewrite jref_id_ext. reflexivity. Qed.
Lemma jdoc_val_ext t f fd v : doc_val c1 s t f fd v = doc_val c2 s t f fd v.
Proof.
  unfold doc_val. destruct (isa s t T_ANNOTATION && is_offset_name (fd_xname fd)); [|reflexivity].
  destruct (slot f "sofa"); try reflexivity. rewrite (jfind_sofa_ext c1 c2 n SS). reflexivity.
Qed.
Lemma jenc_value_ext fd v : Json.enc_value c1 s fd v = Json.enc_value c2 s fd v.
Proof. unfold Json.enc_value. rewrite jref_json_ext. reflexivity. Qed.
Lemma jenc_feature_ext t f fd : Json.enc_feature c1 s t f fd = Json.enc_feature c2 s t f fd.
Proof.
  unfold Json.enc_feature. destruct (is_vnone (slot f (fd_name fd))); [reflexivity|]. rewrite jdoc_val_ext.
  destruct (doc_val c2 s t f fd (slot f (fd_name fd))); cbn [bind]; try reflexivity. apply jenc_value_ext.
Qed.
Lemma jenc_elements_ext t l : enc_elements L c1 t l = enc_elements L c2 t l.
Proof.
  unfold enc_elements. destruct (String.eqb t T_BYTE_ARRAY); [reflexivity|].
  destruct (String.eqb t T_DOUBLE_ARRAY || String.eqb t T_FLOAT_ARRAY); [reflexivity|].
  destruct (String.eqb t T_FS_ARRAY); [|reflexivity].
  rewrite (jmapM_ext_in (ref_json c1) (ref_json c2)); [reflexivity|]. intros x _. apply jref_json_ext.
Qed.
Lemma jenc_fs_ext f : Json.enc_fs L s c1 f = Json.enc_fs L s c2 f.
Proof.
  unfold Json.enc_fs. destruct (is_array_name (o_type f)).
  - destruct (nonempty_list (slot f "elements")); [|reflexivity]. rewrite jenc_elements_ext. reflexivity.
  - destruct (sch_find s (o_type f)) as [ti|]; [|reflexivity].
    rewrite (jmapM_ext_in (Json.enc_feature c1 s (o_type f) f) (Json.enc_feature c2 s (o_type f) f)); [reflexivity|].
    intros fd _. apply jenc_feature_ext.
Qed.
Lemma jenc_sofa_ext sf : Json.enc_sofa L c1 sf = Json.enc_sofa L c2 sf.
Proof. unfold Json.enc_sofa. destruct (s_arr sf); [rewrite jref_json_ext|]; reflexivity. Qed.
Lemma jfs_at_ext io : fs_at c1 io = fs_at c2 io.
Proof. unfold fs_at. rewrite (proj1 SS). reflexivity. Qed.
End JEncExt.

Lemma jenc_view_perm h v1 v2 e : view_perm v1 v2 -> Json.enc_view h v1 = Ok e -> Json.enc_view h v2 = Ok e.
Proof.
  intros [Es P]. unfold Json.enc_view, member_ids.
  destruct (mapM _ (v_members v1)) as [ms| |] eqn:E1; cbn [bind]; try discriminate.
  destruct (jmapM_perm _ _ _ P ms E1) as (ms' & -> & Pm). cbn [bind]. rewrite <- Es, (zsort_perm_eq _ _ Pm). auto.
Qed.

(* ---- the views loop when every sofa data array has an id: nothing is assigned ---- *)
Lemma step_view_settled L s c fss views wr v :
  (forall o, s_arr (v_sofa v) = Some o -> has_some_id (c_heap c) o) ->
  step_view L s (Ok (c, fss, views, wr)) v
  = do out <- view_out L s c (wr, v) ;; Ok (c, fss ++ fst out, views ++ [snd out], wr ++ arr_of (wr, v)).
Proof.
  intros Hid. unfold step_view, view_out, arr_out, arr_of. cbn [bind fst snd].
  destruct (Json.enc_view (c_heap c) v) as [jv| |]; cbn [bind]; try reflexivity.
  destruct (s_arr (v_sofa v)) as [o|] eqn:Ea; [destruct (omem o wr)|].
  - cbn [bind]. destruct (Json.enc_sofa L c (v_sofa v)) as [ms| |]; cbn [bind]; [rewrite app_nil_r|..]; reflexivity.
  - destruct (Hid o eq_refl) as (f & i & Eg & Ei). rewrite Eg, Ei.
    destruct (Json.enc_fs L s c f) as [m| |]; cbn [bind]; try reflexivity.
    destruct (Json.enc_sofa L c (v_sofa v)) as [ms| |]; cbn [bind]; reflexivity.
  - cbn [bind]. destruct (Json.enc_sofa L c (v_sofa v)) as [ms| |]; cbn [bind]; [rewrite app_nil_r|..]; reflexivity.
Qed.
Lemma loop_settled L s : forall vs c fss views wr,
  (forall v o, In v vs -> s_arr (v_sofa v) = Some o -> has_some_id (c_heap c) o) ->
  fold_left (step_view L s) vs (Ok (c, fss, views, wr))
  = do outs <- mapM (view_out L s c) (tag_views wr vs) ;;
    Ok (c, fss ++ List.concat (map fst outs), views ++ map snd outs, wr ++ flat_map arr_of (tag_views wr vs)).
Proof.
  induction vs as [|v r IH]; intros c fss views wr Hid.
  - cbn [fold_left tag_views mapM bind map List.concat flat_map]. rewrite !app_nil_r. reflexivity.
  - cbn [fold_left tag_views mapM flat_map]. rewrite step_view_settled by (intros o Ho; apply (Hid v o); [left; reflexivity|exact Ho]).
    destruct (view_out L s c (wr, v)) as [out| |]; cbn [bind]; [|apply fold_step_err|apply fold_step_oof].
    rewrite IH by (intros v' o Hv; apply Hid; right; exact Hv).
    destruct (mapM (view_out L s c) (tag_views (wr ++ arr_of (wr, v)) r)) as [outs| |]; cbn [bind map List.concat]; try reflexivity.
    rewrite <- !app_assoc. reflexivity.
Qed.
Lemma view_out_variant L s c1 c2 wr v1 v2 out : same_sofas c1 c2 -> view_perm v1 v2 ->
  view_out L s c1 (wr, v1) = Ok out -> view_out L s c2 (wr, v2) = Ok out.
Proof.
  intros SS VP. pose proof VP as [Es _]. unfold view_out, arr_out. cbn [fst snd]. rewrite <- Es, <- (proj1 SS).
  destruct (Json.enc_view (c_heap c1) v1) as [jv| |] eqn:Ev; cbn [bind]; try discriminate.
  rewrite (jenc_view_perm _ _ _ _ VP Ev). cbn [bind].
  rewrite <- (jenc_sofa_ext L c1 c2 SS).
  destruct (s_arr (v_sofa v1)); [|auto]. destruct (omem o wr); [auto|]. destruct (hget (c_heap c1) o); [|auto]. rewrite <- (jenc_fs_ext L s c1 c2 SS). auto.
Qed.
(* views that differ in the order of their members only are tagged alike *)
Lemma tag_views_variant : forall vs1 vs2 wr, Forall2 view_perm vs1 vs2 ->
  Forall2 (fun p p' => fst p = fst p' /\ view_perm (snd p) (snd p')) (tag_views wr vs1) (tag_views wr vs2) /\
  flat_map arr_of (tag_views wr vs1) = flat_map arr_of (tag_views wr vs2).
Proof.
  induction vs1 as [|v r IH]; intros vs2 wr H; inversion H as [|? v' ? r' Hv Hr]; subst; cbn [tag_views flat_map]; [split; [constructor|reflexivity]|].
  assert (Ea : arr_of (wr, v) = arr_of (wr, v')) by (unfold arr_of; cbn [fst snd]; rewrite (proj1 Hv); reflexivity).
  rewrite <- Ea. destruct (IH r' (wr ++ arr_of (wr, v)) Hr) as [A B]. split; [constructor; [split; [reflexivity|exact Hv]|exact A]|rewrite B; reflexivity].
Qed.

Section JsonSave.
Variables (L : lex) (s : schema) (mode : tsmode).

(* the document as a function of the loop's outputs, the byte arrays the loop wrote and the traversal's result *)
Definition json_doc (c2 : cas) (outs : list (list json * (string * json))) (wr : list oid) (w : wstate) : res json :=
  let found := sort_ids (w_all w) in
  do fss <- mapM (fun io => do f <- fs_at c2 io ;; do m <- Json.enc_fs L s c2 f ;; Ok (JObj m)) (unwritten wr found) ;;
  do used <- mapM (fun io => do f <- fs_at c2 io ;; Ok (o_type f)) found ;;
  do types <- ser_types s mode used ;;
  Ok (JObj (types ++ [(K_FS, JArr (List.concat (map fst outs) ++ fss)); (K_VIEWS, JObj (map snd outs))])).
Lemma save_json_unfold c c1 outs wr w :
  save_found_wr L s c = Ok (c1, List.concat (map fst outs), map snd outs, wr, w) ->
  save_json L s mode c = do d <- json_doc (cas_after c1 w) outs wr w ;; Ok (d, cas_after c1 w).
Proof.
  intros E. unfold save_json, json_doc. rewrite E. cbn [bind].
  destruct (mapM _ (unwritten wr (sort_ids (w_all w)))) as [fss| |]; cbn [bind]; try reflexivity.
  destruct (mapM _ (sort_ids (w_all w))) as [used| |]; cbn [bind]; try reflexivity.
  destruct (ser_types s mode used); reflexivity.
Qed.
Lemma json_doc_variant c1 c2 outs wr w1 w2 : same_sofas c1 c2 -> sort_ids (w_all w1) = sort_ids (w_all w2) ->
  json_doc c1 outs wr w1 = json_doc c2 outs wr w2.
Proof.
  intros SS Es. unfold json_doc. rewrite <- Es.
  rewrite (jmapM_ext_in (fun io => do f <- fs_at c1 io ;; do m <- Json.enc_fs L s c1 f ;; Ok (JObj m))
                        (fun io => do f <- fs_at c2 io ;; do m <- Json.enc_fs L s c2 f ;; Ok (JObj m))).
  2:{ intros io _. rewrite (jfs_at_ext c1 c2 SS). destruct (fs_at c2 io); cbn [bind]; try reflexivity. rewrite (jenc_fs_ext L s c1 c2 SS). reflexivity. }
  rewrite (jmapM_ext_in (fun io => do f <- fs_at c1 io ;; Ok (o_type f)) (fun io => do f <- fs_at c2 io ;; Ok (o_type f))).
  2:{ intros io _. rewrite (jfs_at_ext c1 c2 SS). reflexivity. }
  reflexivity.
Qed.

Lemma reach_inb_parts inl c : reach_inb inl s c = true ->
  wf_heapb inl s (c_heap c) = true /\ seeds_liveb (c_heap c) (member_seeds c) = true /\ ids_okb (c_heap c) (c_next_id c) = true.
Proof. unfold reach_inb. rewrite !andb_true_iff. tauto. Qed.

(* the traversal of a member-order variant of a settled CAS: nothing assigned, the same structures under the same ids *)
Lemma find_all_variant inl c1 c2 w1 : reach_inb inl s c1 = true -> settled inl s c1 -> member_order_variant c1 c2 ->
  find_all_fs inl s c1 = Ok w1 ->
  w_heap w1 = c_heap c1 /\ w_next w1 = c_next_id c1 /\
  exists w2, find_all_fs inl s c2 = Ok w2 /\ w_heap w2 = c_heap c2 /\ w_next w2 = c_next_id c2 /\ Permutation (w_all w1) (w_all w2).
Proof.
  intros RI [R1 Ar1] V E1. destruct (reach_inb_parts _ _ RI) as (Pwf & Psl & Pids).
  pose proof (settled_variant inl s c1 c2 V (conj R1 Ar1)) as [R2 Ar2].
  pose proof (variant_seeds _ _ V) as PS. pose proof V as (Eh & En & Hv).
  rewrite find_all_fs_from in E1.
  destruct (find_all_noassign _ _ _ _ _ E1 R1) as [Eh1 En1]. split; [exact Eh1|]. split; [exact En1|].
  destruct (find_all_ok inl s c2 (member_seeds c2)) as (w2 & E2).
  { rewrite <- Eh. exact Pwf. }
  { rewrite <- Eh. unfold seeds_liveb. rewrite <- (forallb_perm_eq _ _ _ PS). exact Psl. }
  { rewrite <- Eh, <- En. exact Pids. }
  destruct (find_all_noassign _ _ _ _ _ E2 R2) as [Eh2 En2].
  exists w2. rewrite find_all_fs_from. split; [exact E2|]. split; [exact Eh2|]. split; [exact En2|].
  destruct (find_all_each_once _ _ _ _ _ E1) as [_ N1]. destruct (find_all_each_once _ _ _ _ _ E2) as [_ N2].
  destruct (ids_assigned _ _ _ _ _ E1) as (I1 & _). destruct (ids_assigned _ _ _ _ _ E2) as (I2 & _).
  assert (Half : forall ca cb wa wb, c_heap ca = c_heap cb -> Permutation (member_seeds ca) (member_seeds cb) ->
            find_all_from inl s ca (member_seeds ca) = Ok wa -> find_all_from inl s cb (member_seeds cb) = Ok wb ->
            w_heap wa = c_heap ca -> w_heap wb = c_heap cb ->
            (forall i o, In (i, o) (w_all wa) -> exists f, hget (w_heap wa) o = Some f /\ o_id f = Some i) ->
            (forall i o, In (i, o) (w_all wb) -> exists f, hget (w_heap wb) o = Some f /\ o_id f = Some i) ->
            forall x, In x (w_all wa) -> In x (w_all wb)).
  { intros ca cb wa wb Ehh PP Ea Eb Ha Hb Ia Ib [i o] Hio.
    assert (Ho : In o (returned wb)).
    { apply (find_all_exact _ _ _ _ _ Eb). rewrite <- Ehh.
      destruct (proj1 (find_all_exact _ _ _ _ _ Ea o)) as [Rr Nn]; [apply returned_In; exists i; exact Hio|].
      split; [|exact Nn]. eapply reach_seeds_ext; [|exact Rr]. intros x Hx. eapply Permutation_in; [exact PP|exact Hx]. }
    apply returned_In in Ho. destruct Ho as (j & Hj).
    destruct (Ia _ _ Hio) as (f & Eg & Ei). destruct (Ib _ _ Hj) as (g & Eg' & Ej).
    rewrite Ha in Eg. rewrite Hb, <- Ehh in Eg'. assert (i = j) by congruence. subst j. exact Hj. }
  apply NoDup_Permutation.
  - eapply NoDup_map_inv. exact N1.
  - eapply NoDup_map_inv. exact N2.
  - intros x. split.
    + apply (Half c1 c2 w1 w2 Eh PS E1 E2 Eh1 Eh2 I1 I2).
    + apply (Half c2 c1 w2 w1 (eq_sym Eh) (Permutation_sym PS) E2 E1 Eh2 Eh1 I2 I1).
Qed.

Lemma cas_eta c : mkCas (c_views c) (c_heap c) (c_next_id c) = c.
Proof. destruct c; reflexivity. Qed.

(* C14 (JSON), independence of the select_all order *)
Theorem json_save_member_order_independent c1 c2 d c1' :
  reach_inb true s c1 = true -> settledb true s c1 = true -> member_order_variant c1 c2 ->
  save_json L s mode c1 = Ok (d, c1') -> c1' = c1 /\ save_json L s mode c2 = Ok (d, c2).
Proof.
  intros RI SB V HS.
  assert (Ew : exists w1, find_all_fs true s c1 = Ok w1).
  { unfold settledb in SB. destruct (find_all_fs true s c1) as [w1| |]; [eauto| |]; rewrite andb_false_r in SB; discriminate. }
  destruct Ew as (w1 & E1).
  pose proof (proj1 (settledb_spec true s c1 w1 E1) SB) as ST. pose proof ST as [R1 Ar1].
  pose proof (settled_variant true s c1 c2 V ST) as [R2 Ar2].
  pose proof (variant_sofas _ _ V) as SS. pose proof V as (Eh & En & Hv).
  (* the loops *)
  pose proof (loop_settled L s (c_views c1) c1 [] [] [] Ar1) as Lp1. cbn [app] in Lp1.
  pose proof (loop_settled L s (c_views c2) c2 [] [] [] Ar2) as Lp2. cbn [app] in Lp2.
  destruct (tag_views_variant (c_views c1) (c_views c2) [] Hv) as [TV TW].
  unfold save_json in HS. unfold save_found_wr in HS. rewrite Lp1 in HS.
  destruct (mapM (view_out L s c1) (tag_views [] (c_views c1))) as [outs| |] eqn:Eo; cbn [bind] in HS; try discriminate.
  rewrite E1 in HS. cbn [bind] in HS.
  destruct (find_all_variant true c1 c2 w1 RI ST V E1) as (Eh1 & En1 & w2 & E2 & Eh2 & En2 & Pall).
  assert (Ec1 : cas_after c1 w1 = c1) by (unfold cas_after; rewrite Eh1, En1; apply cas_eta).
  assert (Ec2 : cas_after c2 w2 = c2) by (unfold cas_after; rewrite Eh2, En2; apply cas_eta).
  rewrite Ec1 in HS.
  assert (Eo2 : mapM (view_out L s c2) (tag_views [] (c_views c2)) = Ok outs).
  { apply (jmapM_Forall2_imp (view_out L s c1) (view_out L s c2) (fun p p' => fst p = fst p' /\ view_perm (snd p) (snd p')))
      with (l := tag_views [] (c_views c1)); [|exact TV|exact Eo].
    intros [wa a] [wa' a'] b [Hw Ha]. cbn [fst snd] in Hw, Ha. subst wa'. apply view_out_variant; [split; assumption|exact Ha]. }
  set (wr := flat_map arr_of (tag_views [] (c_views c1))) in *.
  assert (SF1 : save_found_wr L s c1 = Ok (c1, List.concat (map fst outs), map snd outs, wr, w1)).
  { unfold save_found_wr. rewrite Lp1. cbn [bind]. rewrite E1. reflexivity. }
  assert (SF2 : save_found_wr L s c2 = Ok (c2, List.concat (map fst outs), map snd outs, wr, w2)).
  { unfold save_found_wr. rewrite Lp2, Eo2. cbn [bind]. rewrite E2, <- TW. reflexivity. }
  assert (HS' : save_json L s mode c1 = Ok (d, c1')).
  { unfold save_json. rewrite SF1. cbn [bind]. rewrite Ec1. exact HS. }
  rewrite (save_json_unfold c1 c1 outs wr w1 SF1), Ec1 in HS'.
  rewrite (save_json_unfold c2 c2 outs wr w2 SF2), Ec2.
  rewrite <- (json_doc_variant c1 c2 outs wr w1 w2 (conj Eh SS)).
  2:{ apply sort_ids_perm_eq; [exact Pall|]. exact (proj1 (find_all_each_once _ _ _ _ _ E1)). }
  destruct (json_doc c1 outs wr w1) as [d'| |]; cbn [bind] in *; try discriminate. inversion HS'; subst. split; reflexivity.
Qed.
Corollary json_save_member_set_independent c1 c2 d c1' :
  reach_inb true s c1 = true -> settledb true s c1 = true -> member_set_variant c1 c2 -> members_nodup c1 -> members_nodup c2 ->
  save_json L s mode c1 = Ok (d, c1') -> c1' = c1 /\ save_json L s mode c2 = Ok (d, c2).
Proof. intros RI SB V N1 N2. apply json_save_member_order_independent; [exact RI|exact SB|apply set_variant_order; assumption]. Qed.

(* C14 (JSON): saving again writes the same document and changes nothing *)
Lemma arrays_bytes_of c cF : sofa_arrays_bytesb c = true -> ext c cF -> arrays_bytes cF (c_views c).
Proof.
  intros SB E v o f Hv Ho Hg. unfold sofa_arrays_bytesb in SB. rewrite forallb_forall in SB. specialize (SB v Hv). rewrite Ho in SB.
  destruct (hget (c_heap c) o) as [f0|] eqn:Eg0; [|discriminate]. apply String.eqb_eq in SB.
  destruct (proj2 E o f0 Eg0) as (f' & Eg' & T & _). rewrite Hg in Eg'. inversion Eg'; subst f'. rewrite T. exact SB.
Qed.
Theorem json_save_idempotent c d c2 : 0 < c_next_id c -> sofa_arrays_bytesb c = true ->
  save_json L s mode c = Ok (d, c2) -> save_json L s mode c2 = Ok (d, c2).
Proof.
  intros Hpos SB HS. pose proof HS as HS0. unfold save_json in HS.
  destruct (save_found_wr L s c) as [[[[[c1 sofa_fs] views] wr] w]| |] eqn:Esf; cbn [bind] in HS; try discriminate.
  destruct (save_found_stable L s c c1 sofa_fs views wr w Hpos Esf) as (Efold & Ew & Ew').
  destruct (loop_spec L s _ _ _ _ _ _ _ _ _ (fun o (H : In o []) => match H with end) Efold) as (X1 & Hwr & Hwids & Hloop).
  pose proof (find_all_ext s c1 w Ew) as X2.
  assert (Ec2 : c2 = cas_after c1 w).
  { destruct (mapM _ (unwritten wr (sort_ids (w_all w)))) as [fss| |] in HS; cbn [bind] in HS; try discriminate.
    destruct (mapM _ (sort_ids (w_all w))) as [used| |] in HS; cbn [bind] in HS; try discriminate.
    destruct (ser_types s mode used) in HS; cbn [bind] in HS; try discriminate. inversion HS; reflexivity. }
  clear HS.
  assert (X12 : ext c (cas_after c1 w)) by (eapply ext_trans; eassumption).
  destruct (Hloop (cas_after c1 w) X2 (arrays_bytes_of c _ SB X12)) as (outs & Houts & Hsfs & Hvws). cbn [app] in Hsfs, Hvws, Hwr. subst sofa_fs views.
  rewrite (save_json_unfold c c1 outs wr w Esf) in HS0.
  (* the second save: every sofa data array has its id, so the loop changes nothing; the traversal is stable *)
  assert (Hv2 : c_views (cas_after c1 w) = c_views c) by (rewrite (proj1 X12); reflexivity).
  assert (Ar2 : forall v o, In v (c_views (cas_after c1 w)) -> s_arr (v_sofa v) = Some o -> has_some_id (c_heap (cas_after c1 w)) o).
  { intros v o Hv Ho. rewrite Hv2 in Hv.
    (* the loop of the first save wrote it: it handed it an id, or it had one *)
    assert (Hin : In o wr).
    { apply omem_In. rewrite Hwr. change (omem o ([] ++ flat_map arr_of (tag_views [] (c_views c))) = true). rewrite tag_arrays, omem_odedup.
      cbn [omem existsb orb]. apply omem_In. apply in_flat_map. exists v. split; [exact Hv|]. rewrite Ho. left. reflexivity. }
    exact (wr_ids_ext c1 (cas_after c1 w) wr X2 Hwids o Hin). }
  pose proof (loop_settled L s (c_views (cas_after c1 w)) (cas_after c1 w) [] [] [] Ar2) as Lp2. cbn [app] in Lp2. rewrite Hv2 in Lp2.
  assert (SF2 : save_found_wr L s (cas_after c1 w) = Ok (cas_after c1 w, List.concat (map fst outs), map snd outs, wr, w)).
  { unfold save_found_wr. rewrite Hv2, Lp2, Houts. cbn [bind]. rewrite Ew', <- Hwr. reflexivity. }
  assert (Eaa : cas_after (cas_after c1 w) w = cas_after c1 w) by reflexivity.
  rewrite Ec2. rewrite (save_json_unfold _ _ outs wr w SF2), Eaa.
  destruct (json_doc (cas_after c1 w) outs wr w) as [d'| |]; cbn [bind] in *; try discriminate. inversion HS0; subst. reflexivity.
Qed.

(* C14 (JSON): a save only gives ids to id-less structures that it writes *)
Lemma step_view_only_ids c fss views wr v c1 fss1 views1 wr1 :
  step_view L s (Ok (c, fss, views, wr)) v = Ok (c1, fss1, views1, wr1) ->
  only_ids_added c c1 (fun _ o => s_arr (v_sofa v) = Some o).
Proof.
  unfold step_view. cbn [bind].
  assert (Hrefl : forall W, only_ids_added c c W).
  { intros W. split; [reflexivity|]. split; [reflexivity|]. split; [lia|]. split; [eauto|]. intros; congruence. }
  destruct (Json.enc_view (c_heap c) v) as [jv| |]; cbn [bind]; try discriminate.
  destruct (s_arr (v_sofa v)) as [o|] eqn:Ea; [destruct (omem o wr)|].
  - cbn [bind]. destruct (Json.enc_sofa L c (v_sofa v)); cbn [bind]; try discriminate. intros [= <- _ _ _]. apply Hrefl.
  - destruct (hget (c_heap c) o) as [f|] eqn:Ef; cbn [bind]; [|discriminate].
    destruct (o_id f) as [i0|] eqn:Ei0.
    + destruct (Json.enc_fs L s c f); cbn [bind]; try discriminate. destruct (Json.enc_sofa L c (v_sofa v)); cbn [bind]; try discriminate.
      intros [= <- _ _ _]. apply Hrefl.
    + destruct (Json.enc_fs L s _ _); cbn [bind]; try discriminate. destruct (Json.enc_sofa L _ (v_sofa v)); cbn [bind]; try discriminate.
      intros [= <- _ _ _]. pose proof (ids_le_hset _ _ _ (c_next_id c) Ef Ei0) as Lh.
      unfold only_ids_added. cbn [c_views c_heap c_next_id]. split; [reflexivity|]. split; [exact (proj1 Lh)|]. split; [lia|]. split; [exact (proj2 Lh)|].
      intros o' g g1 i Eg Ei Eg1 Ei1. destruct (N.eq_dec o' o) as [->|Hne].
      * rewrite (hget_hset_same _ _ _ _ Ef) in Eg1. inversion Eg1; subst g1. cbn [set_id o_id] in Ei1. inversion Ei1; subst i. split; [lia|reflexivity].
      * rewrite (hget_hset_other _ _ _ _ Hne) in Eg1. congruence.
  - cbn [bind]. destruct (Json.enc_sofa L c (v_sofa v)); cbn [bind]; try discriminate. intros [= <- _ _ _]. apply Hrefl.
Qed.
Lemma loop_only_ids : forall vs c fss views wr cN fssN viewsN wrN,
  fold_left (step_view L s) vs (Ok (c, fss, views, wr)) = Ok (cN, fssN, viewsN, wrN) ->
  only_ids_added c cN (fun _ o => exists v, In v vs /\ s_arr (v_sofa v) = Some o).
Proof.
  induction vs as [|v r IH]; intros c fss views wr cN fssN viewsN wrN H.
  - cbn [fold_left] in H. inversion H; subst. split; [reflexivity|]. split; [reflexivity|]. split; [lia|]. split; [eauto|]. intros; congruence.
  - cbn [fold_left] in H. destruct (step_view L s (Ok (c, fss, views, wr)) v) as [[[[c1 fss1] views1] wr1]|e|] eqn:E1;
      [|rewrite fold_step_err in H; discriminate|rewrite fold_step_oof in H; discriminate].
    eapply only_ids_weaken; [|eapply only_ids_trans; [exact (step_view_only_ids _ _ _ _ _ _ _ _ _ E1)|exact (IH _ _ _ _ _ _ _ _ H)]].
    intros i o [Ho|(v' & Hv' & Ho)]; [exists v; split; [left; reflexivity|exact Ho]|exists v'; split; [right; exact Hv'|exact Ho]].
Qed.
Theorem json_save_preserves_content c d c2 : save_json L s mode c = Ok (d, c2) ->
  exists c1 sofa_fs views w, save_found L s c = Ok (c1, sofa_fs, views, w) /\ c2 = cas_after c1 w /\
    only_ids_added c c2 (fun i o => In o (sofa_arrays c) \/ In (i, o) (w_all w)).
Proof.
  intros HS. unfold save_json in HS.
  destruct (save_found_wr L s c) as [[[[[c1 sofa_fs] views] wr] w]| |] eqn:Esf; cbn [bind] in HS; try discriminate.
  assert (Ec2 : c2 = cas_after c1 w).
  { destruct (mapM _ (unwritten wr (sort_ids (w_all w)))) as [fss| |] in HS; cbn [bind] in HS; try discriminate.
    destruct (mapM _ (sort_ids (w_all w))) as [used| |] in HS; cbn [bind] in HS; try discriminate.
    destruct (ser_types s mode used) in HS; cbn [bind] in HS; try discriminate. inversion HS; reflexivity. }
  exists c1, sofa_fs, views, w. split; [unfold save_found; rewrite Esf; reflexivity|]. split; [exact Ec2|]. subst c2.
  unfold save_found_wr in Esf.
  destruct (fold_left (step_view L s) (c_views c) (Ok (c, [], [], []))) as [[[[c1' sfs] vws] wr']| |] eqn:Efold; cbn [bind] in Esf; try discriminate.
  destruct (find_all_fs true s c1') as [w0| |] eqn:Ew; cbn [bind] in Esf; try discriminate. inversion Esf; subst c1' sfs vws wr' w0.
  rewrite find_all_fs_from in Ew.
  eapply only_ids_weaken; [|eapply only_ids_trans; [exact (loop_only_ids _ _ _ _ _ _ _ _ _ Efold)|exact (find_all_only_ids _ _ _ _ _ Ew)]].
  intros i o [(v & Hv & Ho)|H]; [left|right; exact H].
  unfold sofa_arrays. apply in_flat_map. exists v. split; [exact Hv|]. rewrite Ho. left. reflexivity.
Qed.
End JsonSave.
