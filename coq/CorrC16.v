(* CorrC16.v — correspondence harness for C16.  A case carries both conversion chains as the implementation ran them:
     A:  XMI document a_xmi -> CAS A1 -> JSON document a_doc -> CAS A2
     B:  JSON document b_doc -> CAS B1 -> XMI document b_xmi -> CAS B2
   with the canonical content of every CAS observed in both views (JSON view: collections are structures; XMI view:
   inlinable collections by content).  check_case evaluates the models on the implementation's documents and CASes:
   each document denotes (denote_xmi / denote_json) the content of the CAS written to it and loaded from it; the reader
   model load_json yields the loaded content; and on each of the four CASes the XMI view is inline_of of the JSON view —
   so that "XMI view of the final CAS = XMI view of the first-loaded CAS" is what the composition says. *)
From Cassis Require Import Base Heap Schema Canon Lex JsonDoc Json JsonWf CorrC02 Convert ConvertWf.
From Cassis Require XmiDoc Xmi XmiRt XmiRtTotal.
Open Scope Z_scope.

(* chain N: an XMI document that does not mention _InitialView -> CAS N1 -> JSON document n_doc -> CAS N2 *)
Record chain_n := mkChainN { n_doc : json; n1_json : ccas; n1_xmi : ccas; n2_json : ccas; n2_xmi : ccas }.

Record case := mkCase {
  k_user : schema;
  k_ftab : list (string * flt);
  k_cas : cas;                      (* the scenario CAS both chains start from (every structure has an explicit id) *)
  a_xmi : XmiDoc.xdoc; a1_json : ccas; a1_xmi : ccas; a_doc : json; a2_json : ccas; a2_xmi : ccas;
  b_doc : json; b1_json : ccas; b1_xmi : ccas; b_xmi : XmiDoc.xdoc; b2_json : ccas; b2_xmi : ccas;
  k_n : option chain_n }.

Definition tab_parse (t : list (string * flt)) (a : string) : option flt := alookup a t.
Definition xmi_denotes (c : case) (s : schema) (d : XmiDoc.xdoc) (x : ccas) : bool :=
  match XmiDoc.denote_xmi (tab_parse (k_ftab c)) s d with
  | Ok y => ccas_eqb y (XmiDoc.norm_xmi s x)
  | _ => false
  end.
Definition json_denotes (s : schema) (d : json) (x : ccas) : bool :=
  doc_ok_json std_lex s d && res_ccas_eqb (denote_json std_lex s d) x.

(* premises of the theorems in Props/C16.v, evaluated on the scenario CAS (the CAS loaded first in either chain has its
   content): wf_convb (C16_inline_outline, C16_xmi_json_xmi, C16_json_xmi_json), typed_jsonb (C16_xmi_json_xmi_total) and wf_rt_totalb (the XMI reader leg with reader totality, C01) *)
Definition premises (c : case) : bool :=
  let s := full_schema (k_user c) in
  wf_convb s (k_cas c) && typed_jsonb s (k_cas c) && XmiRtTotal.wf_rt_totalb s (k_cas c).
(* the theorem C16_inline_outline on the scenario CAS, in model terms: both canonical views exist and are related, and they
   are the views observed of the CAS loaded first in chain B (which keeps the ids of the scenario) *)
Definition model_views (c : case) : bool :=
  let s := full_schema (k_user c) in
  match canon_json s (k_cas c), Xmi.canon_xmi s (k_cas c) with
  | Ok j, Ok x => inline_outlineb s j x && ccas_eqb j (b1_json c) && ccas_eqb x (b1_xmi c)
  | _, _ => false
  end.

Definition checks (c : case) : list bool :=
  let s := full_schema (k_user c) in
  [ (* chain A *)
    xmi_denotes c s (a_xmi c) (a1_xmi c);                 (* the start document describes the first-loaded CAS *)
    inline_outlineb s (a1_json c) (a1_xmi c);
    json_denotes s (a_doc c) (a1_json c);                 (* the JSON written from it describes it *)
    res_ccas_eqb (load_json std_lex s (a_doc c)) (a2_json c);
    inline_outlineb s (a2_json c) (a2_xmi c);
    (* the statement, in model terms: the XMI view of what the JSON document says is the first-loaded content *)
    match denote_json std_lex s (a_doc c) with Ok j => inline_outlineb s j (a1_xmi c) | _ => false end;
    (* chain B *)
    json_denotes s (b_doc c) (b1_json c);
    res_ccas_eqb (load_json std_lex s (b_doc c)) (b1_json c);
    inline_outlineb s (b1_json c) (b1_xmi c);
    xmi_denotes c s (b_xmi c) (b1_xmi c);                 (* the XMI written from it describes its XMI view *)
    xmi_denotes c s (b_xmi c) (b2_xmi c);                 (* and is what the final CAS holds *)
    inline_outlineb s (b2_json c) (b2_xmi c);
    (* the models on the scenario CAS *)
    negb (premises c) || model_views c;
    (* chain N: the JSON leg behind an XMI document without _InitialView *)
    match k_n c with
    | None => true
    | Some n =>
      json_denotes s (n_doc n) (n1_json n)
      && res_ccas_eqb (load_json std_lex s (n_doc n)) (n2_json n)
      && inline_outlineb s (n1_json n) (n1_xmi n) && inline_outlineb s (n2_json n) (n2_xmi n)
    end ].
Definition check_case (c : case) : bool := forallb (fun b => b) (checks c).
