(* CorrC20.v — correspondence harness for C20.  A case carries the schema of the types involved, Python's repr of the
   floats and of the non-plain strings that occur in the scenario (computed by the harness with repr(), not taken from
   the output under test), and one or two CASes (the base CAS and a constructed variant), each with the rows the
   implementation produced (text parsed back with the csv module) per option set.  check_case evaluates the model
   (traversal of Reach.v, then Comparable.v) with: hash := len(elements) for arrays and 0 otherwise (it never decides under the premise), sort := insertion sort. *)
From Cassis Require Import Base Heap Schema Reach Comparable.
Open Scope Z_scope.

Record run := mkRun { r_cas : cas; r_obs : list (opts * list row) }.
Record case := mkCase {
  k_sch : schema;
  k_floats : list (string * string);     (* float token -> repr(float) *)
  k_reprs : list (string * string);      (* string -> repr(str), for strings not rendered as 'text' *)
  k_runs : list run }.

Definition fmt_float_c (tbl : list (string * string)) (x : flt) : string :=
  match alookup x tbl with Some r => r | None => x end.
Definition repr_str_c (tbl : list (string * string)) (s : string) : string :=
  match alookup s tbl with Some r => r | None => "'" +++ s +++ "'" end.
(* _feature_structure_hash of an array is len(elements); of anything else it involves Python's hash and is never needed
   under the premise *)
Definition hash0 (t : tname) (f : fsobj) : Z :=
  if is_array_name (o_type f) then match slot f "elements" with VList l => Z.of_nat (List.length l) | _ => 0 end else 0.

Definition model_rows (c : case) (o : opts) (cs : cas) : res (list row) :=
  comparable_rows hash0 isort (fmt_float_c (k_floats c)) (repr_str_c (k_reprs c)) o (k_sch c) cs.

Definition row_eqb (a b : row) : bool := list_eqb String.eqb a b.
Definition run_ok (c : case) (r : run) : bool :=
  forallb (fun ob => match model_rows c (fst ob) (r_cas r) with
                     | Ok rows => list_eqb row_eqb rows (snd ob)
                     | _ => false end) (r_obs r).
Definition check_case (c : case) : bool := forallb (run_ok c) (k_runs c).

(* premise of the theorems of Props/C20.v, on what the traversal finds *)
Definition run_premise (c : case) (r : run) : bool :=
  match find_all_fs false (k_sch c) (r_cas r) with
  | Ok w => unique_offsets_per_type (w_heap w) (map snd (w_all w))
  | _ => false
  end.
Definition premises (c : case) : bool := forallb (run_premise c) (k_runs c).
