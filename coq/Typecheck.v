(* Typecheck.v — model of TypeSystem.typecheck (cassis/typesystem.py:1186-1214, after fix e4ae3d0) and of Cas.typecheck
   (cassis/cas.py:704-717), which runs it over everything Cas._find_all_fs() returns (ids are assigned by that traversal).
   For every effective feature of range uima.cas.FSArray: value None or falsy `elements` -> nothing; every non-null
   element whose type is not subsumed by the declared element type (uima.cas.TOP when none is declared) yields one error
   carrying the owner's xmi:id.  Definitions only; proofs in TypecheckProofs.v. *)
From Cassis Require Import Base Heap Schema Reach.
Open Scope Z_scope.

(* `element_type = f.elementType or self.get_type(TOP_TYPE_NAME)` *)
Definition elem_type (fd : fdecl) : tname := match fd_elem fd with Some t => t | None => T_TOP end.

(* TypeSystem.subsumes(parent : Type, child : name): get_type(child) first (raises when unknown), then
   Type.subsumes: parent is TOP, or parent's name is met on child's supertype chain *)
Definition subsumes (s : schema) (parent child : tname) : res bool :=
  match sch_find s child with
  | None => Err ETypeNotFound
  | Some _ => Ok (String.eqb parent T_TOP || isa s child parent)
  end.

(* one element of the array: Ok true = unsound *)
Definition elem_violates (s : schema) (h : heap) (et : tname) (v : val) : res bool :=
  match v with
  | VNone => Ok false                                  (* `if e is None: continue` *)
  | VRef e => match hget h e with
              | Some ef => do b <- subsumes s et (o_type ef) ;; Ok (negb b)
              | None => Err EAttribute
              end
  | _ => Err EAttribute                                (* `e.type` of something that is not a feature structure *)
  end.

(* body of `for f in t.all_features`; every error carries fs.xmiID *)
Definition check_feature (s : schema) (h : heap) (f : fsobj) (fd : fdecl) : res (list (option xid)) :=
  if String.eqb (fd_range fd) T_FS_ARRAY then
    match slot f (fd_name fd) with
    | VNone => Ok []                                   (* `if feature_value is None ...: continue` *)
    | v => do l <- elements_of s h v ;;                (* `... or not feature_value.elements: continue` *)
           fold_left (fun acc e => do a <- acc ;; do b <- elem_violates s h (elem_type fd) e ;;
                                   Ok (if b then a ++ [o_id f] else a)) l (Ok [])
    end
  else Ok [].

Definition typecheck_fs (s : schema) (h : heap) (f : fsobj) : res (list (option xid)) :=
  match sch_find s (o_type f) with
  | None => Err ETypeNotFound
  | Some t => fold_left (fun acc fd => do a <- acc ;; do b <- check_feature s h f fd ;; Ok (a ++ b)) (ti_feats t) (Ok [])
  end.

(* Cas.typecheck: `for fs in self._find_all_fs(): all_errors.extend(self.typesystem.typecheck(fs))` *)
Definition typecheck_all (s : schema) (h : heap) (l : list (xid * oid)) : res (list (option xid)) :=
  fold_left (fun acc p => do a <- acc ;;
                          match hget h (snd p) with
                          | Some f => do b <- typecheck_fs s h f ;; Ok (a ++ b)
                          | None => Err EAttribute
                          end) l (Ok []).
Definition typecheck_cas (s : schema) (c : cas) : res (list (option xid)) :=
  do w <- find_all_fs false s c ;; typecheck_all s (w_heap w) (w_all w).

(* ---- the specification, stated without the loops ---------------------------------------------------------------------
   viol s h f: the elements of f's FSArray-valued features that are feature structures whose type is neither the
   feature's element type (TOP when none is declared) nor a subtype of it, feature by feature, in element order *)
Definition violating (s : schema) (h : heap) (et : tname) (v : val) : bool :=
  match v with
  | VRef e => match hget h e with Some ef => negb (String.eqb et T_TOP || isa s (o_type ef) et) | None => false end
  | _ => false
  end.
Definition arr_elems (h : heap) (v : val) : list val :=
  match v with
  | VRef a => match hget h a with Some af => match slot af "elements" with VList l => l | _ => [] end | None => [] end
  | _ => []
  end.
Definition viol (s : schema) (h : heap) (f : fsobj) : list val :=
  flat_map (fun fd => if String.eqb (fd_range fd) T_FS_ARRAY
                      then filter (violating s h (elem_type fd)) (arr_elems h (slot f (fd_name fd))) else [])
           (sch_feats s (o_type f)).
Definition viol_of (s : schema) (h : heap) (o : oid) : list val :=
  match hget h o with Some f => viol s h f | None => [] end.
(* one error per violating element, carrying the id under which the owner was returned *)
Definition expected_errors (s : schema) (h : heap) (l : list (xid * oid)) : list (option xid) :=
  flat_map (fun p => map (fun _ => Some (fst p)) (viol_of s h (snd p))) l.

(* ---- premises (booleans): every FSArray-valued feature of every object holds None or a live array whose `elements` is
   falsy or a list of None / live feature structures of known types *)
Definition tc_elem_okb (s : schema) (h : heap) (v : val) : bool :=
  match v with
  | VNone => true
  | VRef e => match hget h e with
              | Some ef => match sch_find s (o_type ef) with Some _ => true | None => false end
              | None => false end
  | _ => false
  end.
Definition tc_feat_okb (s : schema) (h : heap) (f : fsobj) (fd : fdecl) : bool :=
  if String.eqb (fd_range fd) T_FS_ARRAY then
    match slot f (fd_name fd) with
    | VNone => true
    | v => match elements_of s h v with Ok l => forallb (tc_elem_okb s h) l | _ => false end
    end
  else true.
Definition tc_objb (s : schema) (h : heap) (f : fsobj) : bool :=
  match sch_find s (o_type f) with Some t => forallb (tc_feat_okb s h f) (ti_feats t) | None => false end.
Definition tc_heapb (s : schema) (h : heap) : bool := forallb (fun p => tc_objb s h (snd p)) h.
