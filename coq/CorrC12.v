(* CorrC12.v — correspondence harness for C12.  Two kinds of case:
   CaseTable : the built-in table of Descr.v against a fresh TypeSystem() and the probed final types;
   CaseTS    : (a) a type system built through the API (its content `s`, from the scenario) and the abstract
               descriptor `emitted` lifted from the bytes of to_xml() with the standard library parser;
               (b) runs: a descriptor = a selection / permutation of a pool of declarations written by the harness's
               own XML writer (or, r_src = true, of `emitted` itself = the round trip); per run the creation order the
               implementation used, the dump of the loaded type system (or the kind of exception) and the
               descriptor lifted from re-emitting it.
   check_case evaluates the model; premises are the boolean premises of the theorems of Props/C12.v.
   Every load that succeeds is also replayed in the hierarchy model TS.v (DescrTS.tsys_of_content: create_type in creation
   order, then create_feature) and the user types read back from THAT type system (name, description, supertype, own
   features) must be the implementation's dump as well: both models describe the loaded type system. *)
From Cassis Require Import Base TS Descr.
From Cassis Require DescrTS.

(* short constructors for the generated files *)
Definition F := mkF.  Definition T := mkT.  Definition SF := mkSF.  Definition ST := mkST.
Definition N := @None string.  Definition S' (s : string) := Some s.
Definition NB := @None bool.  Definition BT := Some true.  Definition BF := Some false.
Definition uTOP := "uima.cas.TOP".           Definition uStr := "uima.cas.String".
Definition uInt := "uima.cas.Integer".       Definition uFlt := "uima.cas.Float".
Definition uBool := "uima.cas.Boolean".      Definition uByte := "uima.cas.Byte".
Definition uShort := "uima.cas.Short".       Definition uLong := "uima.cas.Long".
Definition uDbl := "uima.cas.Double".        Definition uAnn := "uima.tcas.Annotation".
Definition uAB := "uima.cas.AnnotationBase". Definition uFSA := "uima.cas.FSArray".
Definition uFSL := "uima.cas.FSList".        Definition uStrA := "uima.cas.StringArray".
Definition uIntA := "uima.cas.IntegerArray". Definition uStrL := "uima.cas.StringList".
Definition uIntL := "uima.cas.IntegerList".  Definition uFltL := "uima.cas.FloatList".
Definition uDA := DOCANN.                    Definition uSofa := "uima.cas.Sofa".

Record run := mkRun { r_src : bool;              (* true: select from the emitted descriptor, false: from the pool *)
                      r_sel : list nat;          (* indices, in document order *)
                      r_order : list tname;      (* creation order (observed, or the harness's own when the load raised) *)
                      r_dump : nat;              (* index into c_dumps *)
                      r_emit : nat }.            (* index into c_emits; unused when the load raised *)
Inductive case :=
| CaseTable (tbl : descr) (finals : list tname)
| CaseTS (s : tsys) (emitted : descr) (pool : descr) (runs : list run) (dumps : list (res tsys)) (emits : list descr).

Definition descr_eqb (a b : descr) : bool := list_eqb tdecl_eqb a b.
(* loaded type system: types in dict order, _predefined_types as a sorted list *)
Definition obs_eqb (m o : res tsys) : bool :=
  match m, o with
  | Ok x, Ok y => list_eqb stype_eqb (s_types x) (s_types y)
                  && list_eqb String.eqb (sort_names (s_redecl x)) (sort_names (s_redecl y))
  | Err e, Err f => err_eqb e f
  | _, _ => false
  end.
Definition select (pool : descr) (sel : list nat) : descr :=
  flat_map (fun i => match nth_error pool i with Some t => [t] | None => [] end) sel.

Definition run_descr (emitted pool : descr) (r : run) : descr :=
  select (if r_src r then emitted else pool) (r_sel r).
(* TypeSystem(add_document_annotation_type=False) of TS.v, computed once (the cases replay only the loader's calls) *)
Definition init_nodoc_nf : TS.tsys := Eval vm_compute in TS.init_ts_nodoc.
Lemma init_nodoc_nf_eq : init_nodoc_nf = TS.init_ts_nodoc.
Proof. vm_compute. reflexivity. Qed.
(* a loaded content (as dumped from the implementation; check_run compares it with the descriptor-level model's, creation
   order included) embedded into TS.v (DescrTS.tsys_of_content = tsys_of_content_from init_ts_nodoc) and read back:
   evaluated once per distinct dump of a case *)
Definition embed_eqb (o : res tsys) : bool :=
  match o with
  | Ok y => match DescrTS.tsys_of_content_from init_nodoc_nf (s_types y) with
            | Ok ts => list_eqb stype_eqb (DescrTS.user_view ts) (s_types y)
            | _ => false
            end
  | _ => true
  end.
Definition check_run (emitted pool : descr) (dumps : list (res tsys)) (emits : list descr) (r : run) : bool :=
  let d := run_descr emitted pool r in
  let m := ts_of_descr (r_order r) d in
  match nth_error dumps (r_dump r) with
  | None => false
  | Some o =>
    obs_eqb m o &&
    match m with
    | Ok s => match nth_error emits (r_emit r) with Some e => descr_eqb (descr_of_ts s) e | None => false end
    | _ => true
    end
  end.

Definition check_case (c : case) : bool :=
  match c with
  | CaseTable tbl finals => descr_eqb builtins tbl && list_eqb String.eqb final_types (sort_names finals)
  | CaseTS s emitted pool runs dumps emits =>
    descr_eqb (descr_of_ts s) emitted && forallb (check_run emitted pool dumps emits) runs && forallb embed_eqb dumps
  end.

(* premises of the theorems: well-formed type system; well-formed descriptor and admissible order in every run
   (runs that redeclare a built-in differently are outside them on purpose) *)
Definition premises (c : case) : bool :=
  match c with
  | CaseTable _ _ => true
  | CaseTS s emitted pool runs _ _ =>
    wf_tsb s && forallb (fun r => let d := run_descr emitted pool r in wf_descrb d && named_descrb d && order_okb (r_order r) d) runs
  end.
