(* CorrC07.v — correspondence harness for C07: a case carries the adds of one view (type, begin, end,
   label), the iteration set of type names, the query span and the labels the implementation returned
   for select_covered and select_covering (sorted by label).  check_case evaluates the model.
   Type names are arbitrary strings (full names; equal short names are distinct types).  For a CAS that was read by
   a loader the adds are the members of the queried view with their in-memory offsets, in xmi:id order. *)
From Cassis Require Import Base Index.
Open Scope Z_scope.

Record case := mkCase {
  c_adds : list ann; c_types : list tname; c_b : Z; c_e : Z;
  c_covered : list Z; c_covering : list Z }.

Definition model_covered (c : case) : list Z :=
  zsort (map ko (select_covered_view (c_types c) (build (c_adds c)) (c_b c) (c_e c))).
Definition model_covering (c : case) : list Z :=
  zsort (map ko (select_covering_view (c_types c) (build (c_adds c)) (c_b c) (c_e c))).
Definition check_case (c : case) : bool :=
  list_eqb Z.eqb (model_covered c) (c_covered c) && list_eqb Z.eqb (model_covering c) (c_covering c).
(* premises of the theorems in Props/C07.v *)
Fixpoint nodupb (l : list string) : bool :=
  match l with [] => true | x :: r => negb (memb x r) && nodupb r end.
Definition premises (c : case) : bool :=
  nodupb (c_types c) && forallb (fun a => wfb (a_key a)) (c_adds c) && (c_b c <=? c_e c).
