(* IndexProofs.v — the window + filter of select_covered returns exactly the covered keys of a sorted
   per-type list; SortedKeyList insertion keeps each per-type list sorted and a permutation of what
   was added; lifted to the view and to a set of type names. *)
From Cassis Require Import Base Index.
From Coq Require Import ZifyBool.
Open Scope Z_scope.

Lemma filter_none {A} (f : A -> bool) l : (forall x, In x l -> f x = false) -> filter f l = [].
Proof.
  induction l as [|a r IH]; simpl; intros H; [reflexivity|].
  rewrite (H a (or_introl eq_refl)). apply IH. intros x Hx. apply H. right. exact Hx.
Qed.

Lemma filter_skip_prefix {A} (f p : A -> bool) l :
  (forall k, In k l -> p k = true -> f k = false) ->
  filter f (skipn (count_while p l) l) = filter f l.
Proof.
  induction l as [|k r IH]; simpl; intros H; [reflexivity|].
  destruct (p k) eqn:E; simpl.
  - rewrite (H k (or_introl eq_refl) E). apply IH. intros x Hx. apply H. right. exact Hx.
  - reflexivity.
Qed.

Lemma filter_firstn_cut {A} (f : A -> bool) l n :
  (forall k, In k (skipn n l) -> f k = false) -> filter f (firstn n l) = filter f l.
Proof.
  revert n. induction l as [|a r IH]; intros n H; [destruct n; reflexivity|].
  destruct n as [|n]; simpl in *.
  - symmetry. rewrite (H a (or_introl eq_refl)). apply filter_none. intros x Hx. apply H. right. exact Hx.
  - destruct (f a); [f_equal|]; apply IH; exact H.
Qed.

Lemma skipn_skipn' {A} (l : list A) i j : skipn j (skipn i l) = skipn (i + j) l.
Proof.
  revert l. induction i as [|i IH]; intros l; simpl; [reflexivity|].
  destruct l as [|a r]; [destruct j; reflexivity|]. apply IH.
Qed.

Lemma after_probe1 l x : sorted l -> forall k, In k (skipn (count_while (lt_probe1 x) l) l) -> x <= kb k.
Proof.
  induction 1 as [|a r Hs IH Hall]; simpl; intros k Hin; [contradiction|].
  unfold lt_probe1 at 1 in Hin. destruct (kb a <? x) eqn:E.
  - apply IH. exact Hin.
  - destruct Hin as [<-|Hin]; [lia|].
    rewrite Forall_forall in Hall. specialize (Hall _ Hin). unfold key_le in Hall. lia.
Qed.

Lemma count_le l b e : b <= e ->
  (count_while (lt_probe2 b b) l <= count_while (lt_probe1 (e + 1)) l)%nat.
Proof.
  intros Hbe. induction l as [|k r IH]; simpl; [lia|].
  destruct (lt_probe2 b b k) eqn:E1; destruct (lt_probe1 (e + 1) k) eqn:E2; try lia.
  unfold lt_probe2 in E1. unfold lt_probe1 in E2. lia.
Qed.

Lemma In_skipn_In {A} (l : list A) n x : In x (skipn n l) -> In x l.
Proof.
  revert n. induction l as [|a r IH]; intros [|n] H; simpl in *; auto.
  right. eapply IH. exact H.
Qed.

Theorem select_covered_spec l b e :
  sorted l -> Forall wf l -> b <= e -> select_covered l b e = filter (covered b e) l.
Proof.
  intros Hs Hwf Hbe. unfold select_covered, window, slice.
  set (i := count_while (lt_probe2 b b) l). set (j := count_while (lt_probe1 (e + 1)) l).
  assert (Hij : (i <= j)%nat) by (apply count_le; exact Hbe).
  rewrite Forall_forall in Hwf.
  rewrite filter_firstn_cut.
  - apply filter_skip_prefix. intros k Hk Hp.
    specialize (Hwf _ Hk). unfold wf in Hwf. unfold covered. unfold lt_probe2 in Hp.
    destruct (b <=? kb k) eqn:E; simpl; [|reflexivity]. lia.
  - intros k Hk. rewrite skipn_skipn' in Hk. replace (i + (j - i))%nat with j in Hk by lia.
    pose proof (after_probe1 l (e + 1) Hs k Hk) as Hge.
    pose proof (Hwf _ (In_skipn_In _ _ _ Hk)) as Hw. unfold wf in Hw. unfold covered.
    destruct (ke k <=? e) eqn:E; [|apply andb_false_r]. lia.
Qed.

(* ---- insertion ---- *)

Lemma key_le_trans a b c : key_le a b -> key_le b c -> key_le a c.
Proof. unfold key_le. lia. Qed.

Lemma key_ltb_le a b : key_ltb a b = true -> key_le a b.
Proof. unfold key_ltb, key_le. lia. Qed.

Lemma key_ltb_false_le a b : key_ltb a b = false -> key_le b a.
Proof. unfold key_ltb, key_le. lia. Qed.

Lemma insert_perm k l : Permutation (insert k l) (k :: l).
Proof.
  induction l as [|x r IH]; cbn [insert]; [reflexivity|].
  destruct (key_ltb k x); [reflexivity|].
  rewrite IH. apply perm_swap.
Qed.

Lemma insert_sorted k l : sorted l -> sorted (insert k l).
Proof.
  unfold sorted. induction 1 as [|x r Hs IH Hall]; cbn [insert].
  - constructor; constructor.
  - destruct (key_ltb k x) eqn:E.
    + constructor; [constructor; assumption|].
      constructor; [apply key_ltb_le; exact E|].
      rewrite Forall_forall in *. intros y Hy. eapply key_le_trans; [apply key_ltb_le; exact E|]. apply Hall. exact Hy.
    + constructor; [exact IH|].
      rewrite Forall_forall in *. intros y Hy.
      apply (Permutation_in _ (insert_perm k r)) in Hy. destruct Hy as [<-|Hy].
      * apply key_ltb_false_le. exact E.
      * apply Hall. exact Hy.
Qed.

(* ---- the index as a dict ---- *)

Lemma alookup_aset {V} k k' (v : V) l :
  alookup k (aset k' v l) = if String.eqb k k' then Some v else alookup k l.
Proof.
  induction l as [|[k0 v0] r IH]; cbn [aset alookup].
  - destruct (String.eqb k k'); reflexivity.
  - destruct (String.eqb k' k0) eqn:E0; cbn [alookup].
    + apply String.eqb_eq in E0. subst k0. destruct (String.eqb k k'); reflexivity.
    + rewrite IH. destruct (String.eqb k k0) eqn:E1; [|reflexivity].
      apply String.eqb_eq in E1. subst k0. rewrite String.eqb_sym, E0. reflexivity.
Qed.

Lemma idx_get_add t t' k idx :
  idx_get t (idx_add t' k idx) = if String.eqb t t' then insert k (idx_get t' idx) else idx_get t idx.
Proof.
  unfold idx_get at 1, idx_add. rewrite alookup_aset. destruct (String.eqb t t'); reflexivity.
Qed.

Definition of_type (t : tname) (a : ann) : bool := String.eqb (a_type a) t.

Definition Inv (idx : index) (adds : list ann) : Prop :=
  forall t, sorted (idx_get t idx) /\ Permutation (idx_get t idx) (map a_key (filter (of_type t) adds)).

Lemma Inv_step idx adds a : Inv idx adds -> Inv (idx_add (a_type a) (a_key a) idx) (adds ++ [a]).
Proof.
  intros H t. destruct (H t) as [Hs Hp]. rewrite idx_get_add.
  rewrite filter_app, map_app. cbn [filter]. unfold of_type at 2. rewrite (String.eqb_sym (a_type a) t).
  destruct (String.eqb t (a_type a)) eqn:E.
  - apply String.eqb_eq in E. subst t. split; [apply insert_sorted; exact Hs|].
    rewrite insert_perm. cbn [map]. rewrite Hp. apply Permutation_cons_append.
  - cbn [map]. rewrite app_nil_r. split; assumption.
Qed.

Lemma Inv_fold rest : forall idx done, Inv idx done ->
  Inv (fold_left (fun idx a => idx_add (a_type a) (a_key a) idx) rest idx) (done ++ rest).
Proof.
  induction rest as [|a rest IH]; intros idx done H; cbn [fold_left].
  - rewrite app_nil_r. exact H.
  - replace (done ++ a :: rest) with ((done ++ [a]) ++ rest) by (rewrite <- app_assoc; reflexivity).
    apply IH. apply Inv_step. exact H.
Qed.

Lemma Inv_build adds : Inv (build adds) adds.
Proof.
  unfold build. apply (Inv_fold adds [] []). intros t. unfold idx_get. cbn. split; constructor.
Qed.

(* every history of adds leaves every per-type list sorted *)
Theorem build_sorted adds t : sorted (idx_get t (build adds)).
Proof. apply Inv_build. Qed.

Theorem build_perm adds t : Permutation (idx_get t (build adds)) (map a_key (filter (of_type t) adds)).
Proof. apply Inv_build. Qed.

(* ---- from per-type to a set of type names ---- *)

Lemma filter_disjoint_or {A} (p q : A -> bool) l :
  (forall x, In x l -> p x = true -> q x = false) ->
  Permutation (filter (fun x => p x || q x) l) (filter p l ++ filter q l).
Proof.
  induction l as [|a r IH]; intros H; cbn [filter]; [reflexivity|].
  assert (IH' := IH (fun x Hx => H x (or_intror Hx))).
  destruct (p a) eqn:Ep; cbn [orb].
  - rewrite (H a (or_introl eq_refl) Ep). cbn [app]. constructor. exact IH'.
  - destruct (q a); [|exact IH'].
    rewrite IH'. apply Permutation_middle.
Qed.

Lemma flat_map_types (types : list tname) (adds : list ann) :
  NoDup types ->
  Permutation (flat_map (fun t => filter (of_type t) adds) types) (filter (fun a => memb (a_type a) types) adds).
Proof.
  induction 1 as [|t ts Hnin Hnd IH]; cbn [flat_map memb].
  - rewrite filter_none; [reflexivity|]. intros; reflexivity.
  - rewrite IH. symmetry.
    apply (filter_disjoint_or (of_type t) (fun a => memb (a_type a) ts)).
    intros a _ Ht. unfold of_type in Ht. apply String.eqb_eq in Ht.
    destruct (memb (a_type a) ts) eqn:E; [|reflexivity].
    apply memb_In in E. rewrite Ht in E. contradiction.
Qed.

Lemma flat_map_perm {A B} (f g : A -> list B) l :
  (forall x, In x l -> Permutation (f x) (g x)) -> Permutation (flat_map f l) (flat_map g l).
Proof.
  induction l as [|a r IH]; intros H; cbn [flat_map]; [reflexivity|].
  apply Permutation_app; [apply H; left; reflexivity|apply IH; intros x Hx; apply H; right; exact Hx].
Qed.

Lemma filter_perm {A} (f : A -> bool) l l' : Permutation l l' -> Permutation (filter f l) (filter f l').
Proof.
  induction 1; cbn [filter]; try reflexivity.
  - destruct (f x); [constructor|]; assumption.
  - destruct (f x), (f y); try reflexivity; try (constructor; reflexivity).
  - etransitivity; eassumption.
Qed.

Lemma filter_map_key (f : key -> bool) (l : list ann) :
  filter f (map a_key l) = map a_key (filter (fun a => f (a_key a)) l).
Proof.
  induction l as [|a r IH]; cbn [map filter]; [reflexivity|].
  destruct (f (a_key a)); cbn [map]; rewrite IH; reflexivity.
Qed.

Lemma filter_filter {A} (f g : A -> bool) l : filter f (filter g l) = filter (fun x => g x && f x) l.
Proof.
  induction l as [|a r IH]; cbn [filter]; [reflexivity|].
  destruct (g a); cbn [filter andb]; [destruct (f a)|]; rewrite IH; reflexivity.
Qed.

Lemma Forall_wf_perm l l' : Permutation l l' -> Forall wf l -> Forall wf l'.
Proof. intros Hp H. rewrite Forall_forall in *. intros x Hx. apply H. eapply Permutation_in; [symmetry; exact Hp|exact Hx]. Qed.

Lemma wf_of_adds adds t : Forall (fun a => wf (a_key a)) adds -> Forall wf (idx_get t (build adds)).
Proof.
  intros H. eapply Forall_wf_perm; [symmetry; apply build_perm|].
  rewrite Forall_forall in *. intros k Hk. apply in_map_iff in Hk. destruct Hk as [a [<- Ha]].
  apply filter_In in Ha. apply H. tauto.
Qed.

Lemma per_type_filter (f : key -> bool) adds (types : list tname) :
  NoDup types ->
  Permutation (flat_map (fun t => filter f (idx_get t (build adds))) types)
              (map a_key (filter (fun a => memb (a_type a) types && f (a_key a)) adds)).
Proof.
  intros Hnd.
  rewrite (flat_map_perm _ (fun t => map a_key (filter (fun a => f (a_key a)) (filter (of_type t) adds)))).
  2:{ intros t _. rewrite <- filter_map_key. apply filter_perm. apply build_perm. }
  rewrite <- filter_filter.
  assert (E : forall l : list tname,
    flat_map (fun t => map a_key (filter (fun a => f (a_key a)) (filter (of_type t) adds))) l
    = map a_key (filter (fun a => f (a_key a)) (flat_map (fun t => filter (of_type t) adds) l))).
  { induction l as [|t l IHl]; cbn [flat_map]; [reflexivity|]. rewrite filter_app, map_app, IHl. reflexivity. }
  rewrite E. apply Permutation_map. apply filter_perm. apply flat_map_types. exact Hnd.
Qed.

(* select_covered on a view, over all histories of adds, for any set of type names *)
Theorem select_covered_view_spec adds types b e :
  NoDup types -> Forall (fun a => wf (a_key a)) adds -> b <= e ->
  Permutation (select_covered_view types (build adds) b e)
              (map a_key (filter (fun a => memb (a_type a) types && covered b e (a_key a)) adds)).
Proof.
  intros Hnd Hwf Hbe. unfold select_covered_view.
  rewrite (flat_map_perm _ (fun t => filter (covered b e) (idx_get t (build adds)))).
  - apply per_type_filter. exact Hnd.
  - intros t _. rewrite select_covered_spec; [reflexivity|apply build_sorted|apply wf_of_adds; exact Hwf|exact Hbe].
Qed.

Theorem select_covering_view_spec adds types b e :
  NoDup types ->
  Permutation (select_covering_view types (build adds) b e)
              (map a_key (filter (fun a => memb (a_type a) types && covering b e (a_key a)) adds)).
Proof. intros Hnd. unfold select_covering_view, select_covering. apply per_type_filter. exact Hnd. Qed.

(* within one type the result keeps index order: non-decreasing (begin, end) *)
Lemma filter_sorted f l : sorted l -> sorted (filter f l).
Proof.
  unfold sorted. induction 1 as [|x r Hs IH Hall]; cbn [filter]; [constructor|].
  destruct (f x); [|exact IH]. constructor; [exact IH|].
  rewrite Forall_forall in *. intros y Hy. apply Hall. apply filter_In in Hy. tauto.
Qed.

Theorem select_covered_sorted adds t b e :
  Forall (fun a => wf (a_key a)) adds -> b <= e -> sorted (select_covered (idx_get t (build adds)) b e).
Proof.
  intros Hwf Hbe. rewrite select_covered_spec; [|apply build_sorted|apply wf_of_adds; exact Hwf|exact Hbe].
  apply filter_sorted. apply build_sorted.
Qed.
