(* DescrTS.v — the tie between the descriptor-level content of a loaded type system (Descr.v, C12) and the hierarchy
   model (TS.v, C10/C11): the embedding replays what TypeSystemDeserializer.deserialize does on a fresh
   TypeSystem(add_document_annotation_type=False): create_type for every created type in creation order, then
   create_feature type by type, feature by feature.  Definitions only; proofs in DescrTSProofs.v.
   TS is imported last: an unqualified t_name, t_super, f_name, tsys, final_types ... is TS's; Descr's are qualified. *)
From Cassis Require Import Base Descr TS.

(* the name a feature has in the XML / is given to create_feature (which appends the underscore again) *)
Definition xml_name (f : sfeat) : fname := if sf_res f then drop_last (sf_name f) else sf_name f.
Definition type_op (t : stype) : tsop := OCreateType (st_name t) (st_super t) (st_descr t).
Definition feat_op (dom : tname) (f : sfeat) : tsop :=
  OCreateFeature dom (xml_name f) (sf_range f) (sf_elem f) (sf_multi f) (sf_descr f).
Definition feat_ops (t : stype) : list tsop := map (feat_op (st_name t)) (st_feats t).
(* "for type_name in toposort_flatten(...): ts.create_type(...)", then "for t in created_types: for f in features[t.name]:
   ts.create_feature(...)";  l = the created types in creation order (s_types of a loaded Descr.tsys) *)
Definition ops_of_types (l : list stype) : list tsop := map type_op l ++ flat_map feat_ops l.

Fixpoint first_err (l : list opres) : res unit :=
  match l with
  | [] => Ok tt
  | ROk :: r => first_err r
  | RErr e :: _ => Err e
  | RFuel :: _ => OutOfFuel
  end.
(* the TS.v type system of a loaded content; an exception of any replayed call is the result *)
Definition tsys_of_content_from (ts0 : TS.tsys) (l : list stype) : res TS.tsys :=
  let r := run_ts (ops_of_types l) ts0 in
  do _ <- first_err (snd r) ;; Ok (fst r).
Definition tsys_of_content (l : list stype) : res TS.tsys := tsys_of_content_from init_ts_nodoc l.

(* reading a TS.v type system back at the level of Descr.v *)
Definition feat_of_sfeat (dom : tname) (f : sfeat) : feat :=
  mkFeat (sf_name f) (sf_res f) dom (sf_range f) (sf_elem f) (sf_multi f) (sf_descr f).
Definition sfeat_of_feat (f : feat) : sfeat :=
  mkSF (TS.f_name f) (f_reserved f) (f_desc f) (TS.f_range f) (TS.f_elem f) (TS.f_multi f).
Definition stype_of_ty (t : ty) : stype :=
  mkST (TS.t_name t) (t_desc t) (match TS.t_super t with Some s => s | None => "" end) (map sfeat_of_feat (t_own t)).
(* the user types (not predefined) in registration order: name, description, supertype, own features *)
Definition user_view (ts : TS.tsys) : list stype :=
  map stype_of_ty (filter (fun t => negb (is_builtin (TS.t_name t))) ts).
(* the predefined types: name, supertype, own features *)
Definition builtin_view (ts : TS.tsys) : list (tname * option tname * list feat) :=
  map (fun t => (TS.t_name t, TS.t_super t, t_own t)) (filter (fun t => is_builtin (TS.t_name t)) ts).

(* creation order on contents: every type is new and its supertype is a built-in or comes before *)
Fixpoint chain_stb (seen : list tname) (l : list stype) : bool :=
  match l with
  | [] => true
  | t :: r => negb (memb (st_name t) seen) && (is_builtin (st_super t) || memb (st_super t) seen) && chain_stb (st_name t :: seen) r
  end.
(* a well-formed content listed parents first: the premise of the embedding theorem (everything but the redeclared set
   and the DocumentAnnotation clause of wf_tsb) *)
Definition wf_contentb (l : list stype) : bool :=
  Descr.nodupb (map st_name l) && forallb (wf_stypeb l) l && noclashb l && chain_stb [] l.
