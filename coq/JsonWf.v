(* JsonWf.v — further boolean well-formedness of a CAS in the JSON view (definitions only; evaluated per case by
   CorrC02.premises on the CAS the writer model leaves behind).
     typed_jsonb s c     what `doc_ok_json (save c)` needs beyond wf_jsonb / ids_distinctb / refs_wfb:
        - every id the document will carry (sofas, structures found, sofa byte arrays) is positive;
        - the sofaNums are pairwise distinct;
        - a view indexes a structure once, and a member that has a feature `sofa` holds the Sofa of that very view
          (View.add re-points the feature otherwise, so the reading would depend on the order of %VIEWS);
        - every structure found and every sofa byte array is typed: a feature with a primitive range holds None or a value of
          the kind of the primitive ancestor of the range (ints for Byte/Short/Integer/Long, floats for Float/Double,
          bools, strings), a uima.cas.Sofa-ranged feature holds None or the Sofa of a view of this CAS, any other feature
          holds None or a live feature structure; FSArray elements are None or live feature structures, elements of the
          primitive arrays are None or of the element kind.
   canon_json_total (JsonDocOk.v): wf_jsonb + typed_jsonb make canon_json total. *)
From Cassis Require Import Base Heap Schema Canon Reach JsonDoc Json.
Open Scope Z_scope.

Definition val_kind_okb (p : tname) (v : val) : bool :=
  match v with
  | VNone => true
  | VInt _ => memb p int_prims
  | VFlt _ => String.eqb p T_FLOAT || String.eqb p T_DOUBLE
  | VBool _ => String.eqb p "uima.cas.Boolean"
  | VStr _ => String.eqb p T_STRING
  | _ => false
  end.
Definition view_named (c : cas) (n : string) : bool := existsb (fun v => String.eqb (s_name (v_sofa v)) n) (c_views c).
Definition ref_live_okb (c : cas) (v : val) : bool :=
  match v with VNone => true | VRef o => live (c_heap c) o | _ => false end.
Definition slot_typed_okb (s : schema) (c : cas) (fd : fdecl) (v : val) : bool :=
  if is_primitive s (fd_range fd) then match prim_of s (fd_range fd) with Some p => val_kind_okb p v | None => false end
  else if String.eqb (fd_range fd) T_SOFA then match v with VNone => true | VSofa n => view_named c n | _ => false end
  else ref_live_okb c v.
Definition obj_typed_okb (s : schema) (c : cas) (f : fsobj) : bool :=
  let t := o_type f in
  match sch_find s t with
  | None => false
  | Some ti =>
    if is_array_name t then
      match slot f "elements" with
      | VList l => if String.eqb t T_FS_ARRAY then forallb (ref_live_okb c) l
                   else forallb (val_kind_okb (element_type_name_for t)) l
      | _ => false end
    else forallb (fun fd => slot_typed_okb s c fd (slot f (fd_name fd))) (ti_feats ti)
  end.
(* a member of the view v that has a feature `sofa` holds the Sofa of v *)
Definition member_sofa_inb (s : schema) (c : cas) (v : cview) (o : oid) : bool :=
  match hget (c_heap c) o with
  | None => false
  | Some f =>
    if is_array_name (o_type f) then true else
    match sch_find s (o_type f) with
    | None => false
    | Some ti => match xfind (ti_feats ti) "sofa" with
                 | None => true
                 | Some fd => match slot f (fd_name fd) with VSofa n => String.eqb n (s_name (v_sofa v)) | _ => false end
                 end
    end
  end.
Definition heap_typedb (s : schema) (c : cas) (o : oid) : bool :=
  match hget (c_heap c) o with Some f => obj_typed_okb s c f | None => false end.
(* the ids the document carries: the list ids_distinctb speaks about *)
Definition doc_ids (c : cas) (w : wstate) : list Z :=
  map s_xid (map v_sofa (c_views c)) ++ map fst (w_all w)
  ++ flat_map (fun o => match hget (c_heap c) o with
                        | Some f => match o_id f with Some i => [i] | None => [] end
                        | None => [] end) (sofa_arrays c).
Definition typed_jsonb (s : schema) (c : cas) : bool :=
  match find_all_fs true s c with
  | Ok w =>
    forallb (fun i => 0 <? i) (doc_ids c w)
    && znodup (map s_num (map v_sofa (c_views c)))
    && forallb (fun v => nodupN (v_members v) && forallb (member_sofa_inb s c v) (v_members v)) (c_views c)
    && forallb (fun io => heap_typedb s c (snd io)) (w_all w)
    && forallb (heap_typedb s c) (sofa_arrays c)
  | _ => false
  end.
