(* MergeProofs3.v — third part of the proofs about the model of merge_typesystems (Merge.v): what a merge does as a
   function of the SET of declarations.
   Part 1: static vocabulary on a list of declarations (user_edge, settled, the property's side condition side_cond,
           mergeable_h: declared supertypes comparable / no type above its own declared supertype / every declaration
           eventually ready) and its invariance under `same_static` (same declared edges, same declared features - in
           particular a permutation of the inputs).
   Part 2: necessity.  A successful merge has exactly the hierarchy of the declared edges (below = dreach), the
           declarations are mergeable_h and agree (AG).  Hence two successful merges of the same declarations are
           equivalent (describes / describes_equiv) - without any side condition.
   Part 3: sufficiency.  Under the side condition every supertype comparison of the hierarchy-only run is decided by the
           declarations alone (static_below), so mergeable_h declarations merge; with MergeProofs2 (agreeing features
           add no failure): merge_succeeds.  Order independence of success, failure and result: merge_order_independent.
   Part 4: the replay theorem (merging one well-formed type system that embeds TypeSystem() reproduces it), idempotence,
           neutrality of the empty type system. *)
From Cassis Require Import Base TS TSProofs Merge MergeProofs MergeProofs2.
From Coq Require Import Arith.
(* TypeSystem() is a closed term of some size: no tactic may unfold it *)
Local Opaque init_ts.

(* ================================================================================================ Part 1: static vocabulary *)
(* x is declared directly below s by some input *)
Definition user_edge (L : list decl) (x s : tname) : Prop := exists d, In d L /\ dname d = x /\ t_super (d_ty d) = Some s.
Lemma declared_edge_cases L x s : declared_edge L x s <->
  (exists t0, find_ty init_ts x = Some t0 /\ t_super t0 = Some s) \/ user_edge L x s.
Proof. reflexivity. Qed.

(* all declarations of a (the built-in one included) name the same supertype *)
Definition settled (L : list decl) (a : tname) : Prop := forall s1 s2, declared_edge L a s1 -> declared_edge L a s2 -> s1 = s2.
Definition chain_settled (L : list decl) (s : tname) : Prop := forall a, dreach L a s -> settled L a.
(* THE SIDE CONDITION of the property: whenever a type is declared with two different supertypes, these two - and every
   type above them in the union of all declared edges - are declared with one supertype only *)
Definition side_cond (L : list decl) : Prop :=
  forall x s1 s2, declared_edge L x s1 -> declared_edge L x s2 -> s1 <> s2 -> chain_settled L s1.
(* a name whose declarations the readiness loop gets to *)
Inductive proc (L : list decl) : tname -> Prop :=
| proc_predef n : is_predef n = true -> proc L n
| proc_decl x s : user_edge L x s -> proc L s -> proc L x.
(* the merge rules for supertypes, on the declarations alone *)
Record mergeable_h (L : list decl) : Prop := {
  mh_comparable : forall x s1 s2, declared_edge L x s1 -> declared_edge L x s2 -> dreach L s1 s2 \/ dreach L s2 s1;
  mh_acyclic : forall x s, declared_edge L x s -> ~ dreach L x s;
  mh_proc : forall x s, user_edge L x s -> proc L s }.
Definition nofinal (L : list decl) : Prop := forall x s, user_edge L x s -> memb s final_types = false.

(* two lists of declarations with the same declared edges / and the same declared features *)
Definition same_edges (L L' : list decl) : Prop := forall x s, user_edge L x s <-> user_edge L' x s.
Definition same_static (L L' : list decl) : Prop :=
  same_edges L L' /\ (forall A f, declared_feat L A f <-> declared_feat L' A f).
Lemma same_edges_sym L L' : same_edges L L' -> same_edges L' L.
Proof. intros H x s. symmetry. apply H. Qed.
Lemma same_static_sym L L' : same_static L L' -> same_static L' L.
Proof. intros [H1 H2]. split; [apply same_edges_sym; exact H1|intros; symmetry; apply H2]. Qed.
Lemma same_static_refl L : same_static L L.
Proof. split; [intros x s; reflexivity|intros; reflexivity]. Qed.

Section Transfer.
  Variables L L' : list decl.
  Hypothesis HE : same_edges L L'.
  Lemma ss_edge x s : declared_edge L x s -> declared_edge L' x s.
  Proof. intros [H|H]; [left; exact H|right; apply HE; exact H]. Qed.
  Lemma ss_dreach a d : dreach L a d -> dreach L' a d.
  Proof. intros H. induction H as [|d s He Hr IH]; [apply dr_refl|]. eapply dr_step; [apply ss_edge; exact He|exact IH]. Qed.
  Lemma ss_proc n : proc L n -> proc L' n.
  Proof. intros H. induction H as [n Hp|x s He Hp IH]; [apply proc_predef; exact Hp|]. eapply proc_decl; [apply HE; exact He|exact IH]. Qed.
End Transfer.
Section Transfer2.
  Variables L L' : list decl.
  Hypothesis HE : same_edges L L'.
  Let HE' := same_edges_sym L L' HE.
  Lemma ss_settled a : settled L a -> settled L' a.
  Proof. intros H s1 s2 H1 H2. apply H; apply (ss_edge L' L HE'); assumption. Qed.
  Lemma ss_chain_settled s : chain_settled L s -> chain_settled L' s.
  Proof. intros H a Ha. apply ss_settled. apply H. apply (ss_dreach L' L HE'). exact Ha. Qed.
  Lemma ss_side_cond : side_cond L -> side_cond L'.
  Proof. intros H x s1 s2 H1 H2 Hn. apply ss_chain_settled. apply (H x s1 s2); auto; apply (ss_edge L' L HE'); assumption. Qed.
  Lemma ss_mergeable : mergeable_h L -> mergeable_h L'.
  Proof.
    intros [C A P]. constructor.
    - intros x s1 s2 H1 H2. destruct (C x s1 s2 (ss_edge L' L HE' _ _ H1) (ss_edge L' L HE' _ _ H2)) as [H|H]; [left|right]; apply (ss_dreach L L' HE); exact H.
    - intros x s H1 H2. apply (A x s (ss_edge L' L HE' _ _ H1)). apply (ss_dreach L' L HE'). exact H2.
    - intros x s H1. apply (ss_proc L L' HE). apply (P x s). apply HE'. exact H1.
  Qed.
  Lemma ss_nofinal : nofinal L -> nofinal L'.
  Proof. intros H x s He. apply (H x s). apply HE'. exact He. Qed.
End Transfer2.
Lemma ss_AG L L' : same_static L L' -> AG L -> AG L'.
Proof.
  intros HS H A1 A2 f1 f2 D1 D2 Hn Hr. destruct (same_static_sym _ _ HS) as [HE' HF'].
  apply (H A1 A2 f1 f2); [apply HF'; exact D1|apply HF'; exact D2|exact Hn|apply (ss_dreach L' L HE'); exact Hr].
Qed.

(* the same declarations (MergeProofs.same_decls: the same Type records, whatever input they come from) *)
Lemma same_decls_static L L' : same_decls L L' -> same_static L L'.
Proof.
  intros H. split.
  - intros x s. split; intros (d & Hd & Hn & Hs).
    + destruct (same_decls_In _ _ d H Hd) as (d' & Hd' & E). exists d'. unfold dname in *. rewrite E. auto.
    + destruct (same_decls_In _ _ d (same_decls_sym _ _ H) Hd) as (d' & Hd' & E). exists d'. unfold dname in *. rewrite E. auto.
  - intros A f. split; (intros [H0|(d & Hd & Hn & Hf)]; [left; exact H0|right]).
    + destruct (same_decls_In _ _ d H Hd) as (d' & Hd' & E). exists d'. unfold dname in *. rewrite E. auto.
    + destruct (same_decls_In _ _ d (same_decls_sym _ _ H) Hd) as (d' & Hd' & E). exists d'. unfold dname in *. rewrite E. auto.
Qed.
(* erasing the features keeps the edges *)
Lemma user_edge_erase L : same_edges (map erase_d L) L.
Proof.
  intros x s.
  split.
  - intros (d' & Hd' & Hn & Hs). apply in_map_iff in Hd'. destruct Hd' as (d & <- & Hd). exists d. auto.
  - intros (d & Hd & Hn & Hs). exists (erase_d d). split; [apply in_map; exact Hd|auto].
Qed.

(* ================================================================================================ Part 2: necessity *)
(* the built-in hierarchy only deepens *)
Lemma merge_hgrows_init inputs ts : all_WFh inputs -> merge inputs = Ok ts -> hgrows init_ts ts.
Proof.
  intros HW H. destruct (merge_inv inputs ts HW H) as (st & Er & <- & _ & _ & _). set (L := type_list inputs) in *.
  destruct (rounds_inv fn_form L (fun s => Inv L s /\ hgrows init_ts (m_ts s)) (fun _ _ => True)) with (fuel := S (List.length L)) (l := L) (st := st0) (st' := st)
    as ((_ & G) & _ & _).
  - intros s d s1 [HI0 G0] Hd (sup & Hs & Hr) Hm. destruct (merge_decl_Inv L s d s1 HI0 (type_list_ok inputs HW d Hd) Hm) as (HI1 & _ & _).
    destruct (merge_decl_spec L s d s1 sup HI0 Hs Hr Hm) as (G1 & _).
    split; [split; [exact HI1|apply (hgrows_trans _ _ _ G0 G1)]|]. split; [exact I|auto].
  - apply incl_refl.
  - split; [apply Inv_st0|exact (hgrows_refl init_ts)].
  - exact Er.
  - exact G.
Qed.
(* every declared supertype of x (the built-in one included) is the final supertype of x or above it *)
Lemma edge_above_final inputs ts x s' : all_WFh inputs -> merge inputs = Ok ts -> declared_edge (type_list inputs) x s' ->
  exists t s, find_ty ts x = Some t /\ t_super t = Some s /\ below ts s' s.
Proof.
  intros HW H [(t0 & Ht0 & Hs0)|(d & Hd & Hn & Hs)].
  - destruct (merge_hgrows_init inputs ts HW H) as [_ S]. destruct (S x t0 Ht0) as (t' & Ht' & M). rewrite Hs0 in M.
    destruct (t_super t') as [s|] eqn:Es; [|contradiction]. exists t', s. auto.
  - destruct (merge_inv2 inputs ts HW H) as (_ & HR). destruct (HR d Hd) as (t & s & sup & Ht & Hts & Hsup & Hb).
    rewrite Hs in Hsup. inversion Hsup; subst sup. rewrite Hn in Ht. exists t, s. auto.
Qed.
(* the hierarchy of a successful merge is the reachability relation of the declared edges *)
Theorem merge_below_iff_dreach inputs ts : all_WFh inputs -> merge inputs = Ok ts ->
  forall a d, below ts a d <-> dreach (type_list inputs) a d.
Proof.
  intros HW H a d. split.
  - apply below_dreach. apply (proj1 (merge_inv2 inputs ts HW H)).
  - intros Hr. induction Hr as [|d s He Hr IH]; [apply below_refl|].
    destruct (edge_above_final inputs ts d s HW H He) as (t & s0 & Ht & Hs & Hb).
    eapply below_step; [exact Ht|exact Hs|]. eapply below_trans; eassumption.
Qed.

(* every declared feature (the built-in ones included) is exposed by the type of that name *)
Lemma merge_has_declared inputs ts A f : all_WFh inputs -> merge inputs = Ok ts -> declared_feat (type_list inputs) A f -> has_feat ts A f.
Proof.
  intros HW H [(t0 & Ht0 & Hf0)|(d & Hd & Hn & Hf)].
  - destruct (merge_grows_init inputs ts HW H A t0 Ht0) as (t' & Ht' & Ho & _). exists t', f. split; [exact Ht'|].
    split; [apply in_or_app; left; apply Ho; exact Hf0|apply feat_eqb_refl].
  - rewrite <- Hn. apply (merge_contains_all_features inputs ts HW H d f Hd Hf).
Qed.
(* two features exposed on one chain of a well-formed type system under one name are equal *)
Lemma chain_feats_agree ts A1 A2 f1 f2 : WFh ts -> WFf ts -> has_feat ts A1 f1 -> has_feat ts A2 f2 -> below ts A1 A2 ->
  f_name f1 = f_name f2 -> feat_eqb f1 f2 = true.
Proof.
  intros W F (t1 & g1 & Ht1 & Hg1 & He1) (t2 & g2 & Ht2 & Hg2 & He2) Hb Hn.
  destruct (sees ts A1 A2 t1 t2 g1 W F Ht1 Ht2 Hb Hg1) as (g' & Hg' & Heg'). destruct (find_ty_In _ _ _ Ht2) as [Hin2 _].
  assert (Hng : f_name g' = f_name g2) by (rewrite (feat_eqb_name _ _ Heg'), (feat_eqb_name _ _ He1), (feat_eqb_name _ _ He2); exact Hn).
  pose proof (wf_one_def _ F t2 g' g2 Hin2 Hg' Hg2 Hng) as E.
  eapply feat_eqb_trans; [apply feat_eqb_sym; exact He1|]. eapply feat_eqb_trans; [apply feat_eqb_sym; exact Heg'|].
  eapply feat_eqb_trans; eassumption.
Qed.
(* NECESSITY: the declarations of a successful merge agree ... *)
Theorem merge_AG inputs ts : all_WFh inputs -> merge inputs = Ok ts -> AG (type_list inputs).
Proof.
  intros HW H A1 A2 f1 f2 D1 D2 Hn Hr. destruct (merge_WF inputs ts HW H) as [W F].
  apply (chain_feats_agree ts A1 A2 f1 f2 W F (merge_has_declared _ _ _ _ HW H D1) (merge_has_declared _ _ _ _ HW H D2)); [|exact Hn].
  apply (merge_below_iff_dreach inputs ts HW H). exact Hr.
Qed.
(* ... and are mergeable *)
Lemma user_edge_of_decl L d s : In d L -> t_super (d_ty d) = Some s -> user_edge L (dname d) s.
Proof. intros Hd Hs. exists d. auto. Qed.
Lemma merge_done_proc inputs ts : all_WFh inputs -> merge inputs = Ok ts ->
  forall x s, user_edge (type_list inputs) x s -> proc (type_list inputs) s.
Proof.
  intros HW H. destruct (merge_inv inputs ts HW H) as (st & Er & <- & _ & _ & _). set (L := type_list inputs) in *.
  destruct (rounds_inv fn_form L (fun s => Inv L s /\ forall n, In n (m_done s) -> proc L n)
              (fun d _ => forall s, t_super (d_ty d) = Some s -> proc L s)) with (fuel := S (List.length L)) (l := L) (st := st0) (st' := st)
    as (_ & HR & _).
  - intros s d s1 [HI0 P0] Hd (sup & Hs & Hr) Hm. destruct (merge_decl_Inv L s d s1 HI0 (type_list_ok inputs HW d Hd) Hm) as (HI1 & _ & _).
    destruct (merge_decl_grows L s d s1 HI0 (type_list_ok inputs HW d Hd) Hm) as (_ & _ & _ & _ & Hdone).
    assert (Psup : proc L sup).
    { apply orb_true_iff in Hr. destruct Hr as [Hr|Hr]; [apply proc_predef; exact Hr|apply P0; apply memb_In; exact Hr]. }
    split; [split; [exact HI1|]|split].
    + rewrite Hdone. intros n [<-|Hn]; [|apply P0; exact Hn]. eapply proc_decl; [apply (user_edge_of_decl L d sup Hd Hs)|exact Psup].
    + intros s0 Hs0. rewrite Hs in Hs0. inversion Hs0; subst s0. exact Psup.
    + auto.
  - apply incl_refl.
  - split; [apply Inv_st0|intros n []].
  - exact Er.
  - intros x s (d & Hd & _ & Hs). apply (HR d Hd s Hs).
Qed.
Theorem merge_mergeable_h inputs ts : all_WFh inputs -> merge inputs = Ok ts -> mergeable_h (type_list inputs).
Proof.
  intros HW H. pose proof (merge_WFh inputs ts HW H) as W. constructor.
  - intros x s1 s2 H1 H2. destruct (edge_above_final inputs ts x s1 HW H H1) as (t & s & Ht & Hs & Hb1).
    destruct (edge_above_final inputs ts x s2 HW H H2) as (t' & s' & Ht' & Hs' & Hb2). rewrite Ht in Ht'. inversion Ht'; subst t'.
    rewrite Hs in Hs'. inversion Hs'; subst s'.
    destruct (chain_linear ts s1 s2 s Hb1 Hb2) as [B|B]; [left|right]; apply (merge_below_iff_dreach inputs ts HW H); exact B.
  - intros x s He Hr. destruct (edge_above_final inputs ts x s HW H He) as (t & s0 & Ht & Hs & Hb).
    apply (merge_below_iff_dreach inputs ts HW H) in Hr.
    apply (sbelow_neq ts x x W); [|reflexivity]. exists t, s0. repeat split; auto. eapply below_trans; eassumption.
  - apply (merge_done_proc inputs ts HW H).
Qed.

(* ---- a type system that is what the declarations say ---- *)
Record describes (L : list decl) (ts : tsys) : Prop := {
  ds_WFh : WFh ts;
  ds_WFf : WFf ts;
  ds_names : forall n, registered ts n = true <-> nm_ok L n;
  ds_below : forall a d, below ts a d <-> dreach L a d;
  ds_has : forall A f, declared_feat L A f -> has_feat ts A f;
  ds_own : forall t g, In t ts -> In g (t_own t) -> declared_feat L (t_name t) g }.

Theorem merge_describes inputs ts : all_WFh inputs -> merge inputs = Ok ts -> describes (type_list inputs) ts.
Proof.
  intros HW H. destruct (merge_WF inputs ts HW H) as [W F]. constructor; auto.
  - intros n. split.
    + intros Hr. apply registered_iff in Hr. destruct Hr as (t & Ht). destruct (find_ty_In _ _ _ Ht) as [Hin Hn].
      rewrite <- Hn. apply (proj1 (merge_origin inputs ts HW H t Hin)).
    + destruct (merge_inv inputs ts HW H) as (st & _ & <- & HI & HR & _). intros [Hn|Hn]; [apply (inv_init _ _ HI n Hn)|].
      unfold dnames in Hn. apply in_map_iff in Hn. destruct Hn as (d & <- & Hd). apply (HR d Hd).
  - apply (merge_below_iff_dreach inputs ts HW H).
  - intros A f. apply (merge_has_declared inputs ts A f HW H).
  - intros t g Hin Hg. apply (proj2 (merge_origin inputs ts HW H t Hin) g Hg).
Qed.

Lemma nm_ok_static L L' n : same_static L L' -> (forall d, In d L -> exists s, t_super (d_ty d) = Some s) -> nm_ok L n -> nm_ok L' n.
Proof.
  intros HS Hsup [H|H]; [left; exact H|right]. unfold dnames in *. apply in_map_iff in H. destruct H as (d & Hn & Hd).
  destruct (Hsup d Hd) as (s & Hs). destruct (proj1 (proj1 HS (dname d) s) (user_edge_of_decl L d s Hd Hs)) as (d' & Hd' & Hn' & _).
  apply in_map_iff. exists d'. split; [congruence|exact Hd'].
Qed.
Definition has_supers (L : list decl) : Prop := forall d, In d L -> exists s, t_super (d_ty d) = Some s.

Section DescribesEquiv.
  Variables (L L' : list decl) (a b : tsys).
  Hypothesis HS : same_static L L'.
  Hypothesis HL : has_supers L.
  Hypothesis Da : describes L a.
  Hypothesis Db : describes L' b.

  Lemma de_below p q : below a p q -> below b p q.
  Proof. intros H. apply (ds_below _ _ Db). apply (ss_dreach L L' (proj1 HS)). apply (ds_below _ _ Da). exact H. Qed.
  Lemma de_below_back p q : below b p q -> below a p q.
  Proof. intros H. apply (ds_below _ _ Da). apply (ss_dreach L' L (proj1 (same_static_sym _ _ HS))). apply (ds_below _ _ Db). exact H. Qed.
  Lemma de_tree m tm : find_ty a m = Some tm -> exists um, find_ty b m = Some um /\ t_super um = t_super tm.
  Proof.
    intros Hm. pose proof (ds_WFh _ _ Da) as Wa. pose proof (ds_WFh _ _ Db) as Wb.
    assert (Hr : registered b m = true).
    { apply (ds_names _ _ Db). apply (nm_ok_static L L' m HS HL). apply (ds_names _ _ Da). apply registered_iff. eauto. }
    apply registered_iff in Hr. destruct Hr as (um & Hum). exists um. split; [exact Hum|].
    destruct (find_ty_In _ _ _ Hm) as [Hmin Hmn]. destruct (find_ty_In _ _ _ Hum) as [Huin Hun].
    destruct (t_super tm) as [s|] eqn:Es; destruct (t_super um) as [s'|] eqn:Es'; auto.
    - (* both supertypes are ancestors of m in both trees, hence each is below the other *)
      assert (B1 : below b s m) by (apply de_below; eapply below_step; [exact Hm|exact Es|apply below_refl]).
      assert (B2 : below a s' m) by (apply de_below_back; eapply below_step; [exact Hum|exact Es'|apply below_refl]).
      assert (N1 : s <> m).
      { intros ->. apply (sbelow_neq a m m Wa); [|reflexivity]. exists tm, m. repeat split; auto. apply below_refl. }
      assert (N2 : s' <> m).
      { intros ->. apply (sbelow_neq b m m Wb); [|reflexivity]. exists um, m. repeat split; auto. apply below_refl. }
      destruct (below_cases _ _ _ B1) as [E|(um' & s2 & Hum' & Hs2 & Hb2)]; [contradiction|]. rewrite Hum in Hum'. inversion Hum'; subst um'.
      rewrite Es' in Hs2. inversion Hs2; subst s2.
      destruct (below_cases _ _ _ B2) as [E|(tm' & s3 & Htm' & Hs3 & Hb3)]; [contradiction|]. rewrite Hm in Htm'. inversion Htm'; subst tm'.
      rewrite Es in Hs3. inversion Hs3; subst s3.
      (* below b s s' and below a s' s *)
      apply de_below_back in Hb2.
      destruct (below_cases _ _ _ Hb2) as [E|S1]; [congruence|]. exfalso.
      apply (sbelow_neq a s s Wa); [|reflexivity]. destruct S1 as (ts' & s4 & Hf4 & Hs4 & Hb4). 
      destruct (below_cases _ _ _ Hb3) as [E|(ts0 & s5 & Hf5 & Hs5 & Hb5)]; [exfalso|].
      + subst s'. apply (sbelow_neq a s s Wa); [|reflexivity]. exists ts', s4. auto.
      + exists ts0, s5. repeat split; auto. eapply below_trans; [|exact Hb5]. eapply below_step; eassumption.
    - exfalso. pose proof (wf_root _ Wb um Huin Es') as Htop. rewrite Hun in Htop.
      destruct (wf_top _ Wa) as (t' & Ht' & Hn'). rewrite <- Htop, Hm in Ht'. inversion Ht' as [Htt]. rewrite <- Htt in Hn'. congruence.
    - exfalso. pose proof (wf_root _ Wa tm Hmin Es) as Htop. rewrite Hmn in Htop.
      destruct (wf_top _ Wb) as (t' & Ht' & Hn'). rewrite <- Htop, Hum in Ht'. inversion Ht' as [Htt]. rewrite <- Htt in Hn'. congruence.
  Qed.
  Lemma de_features n t u : find_ty a n = Some t -> find_ty b n = Some u ->
    forall f, In f (all_features t) -> exists y, In y (all_features u) /\ feat_eqb y f = true.
  Proof.
    intros Ht Hu f Hf. pose proof (ds_WFh _ _ Da) as Wa. pose proof (ds_WFf _ _ Da) as Fa.
    pose proof (ds_WFh _ _ Db) as Wb. pose proof (ds_WFf _ _ Db) as Fb. destruct (find_ty_In _ _ _ Ht) as [Htin Htn].
    assert (Hown : exists A tA, below a A n /\ find_ty a A = Some tA /\ In f (t_own tA)).
    { apply all_features_In in Hf. apply in_app_or in Hf. destruct Hf as [Hf|Hf].
      - exists n, t. split; [apply below_refl|auto].
      - destruct (wf_inh_sound _ Fa t f Htin Hf) as (A & tA & Hs & HA & Ho). rewrite Htn in Hs. exists A, tA. split; [apply sbelow_below; exact Hs|auto]. }
    destruct Hown as (A & tA & HbA & HA & Ho). destruct (find_ty_In _ _ _ HA) as [HAin HAn].
    pose proof (ds_own _ _ Da tA f HAin Ho) as HD. rewrite HAn in HD. apply (proj2 HS) in HD.
    destruct (ds_has _ _ Db A f HD) as (tB & g & HB & Hg & Heg).
    destruct (sees b A n tB u g Wb Fb HB Hu (de_below _ _ HbA) Hg) as (g' & Hg' & Heg').
    destruct (all_features_complete u g' Hg') as (y & Hy & Hey). exists y. split; [exact Hy|].
    eapply feat_eqb_trans; [exact Hey|]. eapply feat_eqb_trans; eassumption.
  Qed.
End DescribesEquiv.

Lemma describes_sub L L' a b : same_static L L' -> has_supers L -> has_supers L' -> describes L a -> describes L' b -> sub_tsys a b = true.
Proof.
  intros HS HL HL' Da Db. unfold sub_tsys. apply forallb_forall. intros t Hin.
  pose proof (In_find_ty _ _ (wf_nodup _ (ds_WFh _ _ Da)) Hin) as Ht.
  destruct (de_tree L L' a b HS HL Da Db (t_name t) t Ht) as (u & Hu & Hs). rewrite Hu.
  destruct (find_ty_In _ _ _ Hu) as [_ Hun]. unfold ty_equiv. rewrite Hun, String.eqb_refl, Hs.
  assert (Ho : ostr_eqb (t_super t) (t_super t) = true) by (apply ostr_eqb_eq; reflexivity). rewrite Ho. cbn [andb].
  apply andb_true_iff. split.
  - unfold incl_keys, eff_keys. apply forallb_forall. intros k Hk. apply in_map_iff in Hk. destruct Hk as (f & <- & Hf).
    destruct (de_features L L' a b HS Da Db (t_name t) t u Ht Hu f Hf) as (y & Hy & Hey).
    apply existsb_exists. exists (feat_key y). split; [apply in_map; exact Hy|apply feat_eqb_feat_key; exact Hey].
  - unfold incl_keys, eff_keys. apply forallb_forall. intros k Hk. apply in_map_iff in Hk. destruct Hk as (f & <- & Hf).
    destruct (de_features L' L b a (same_static_sym _ _ HS) Db Da (t_name t) u t Hu Ht f Hf) as (y & Hy & Hey).
    apply existsb_exists. exists (feat_key y). split; [apply in_map; exact Hy|apply feat_eqb_feat_key; exact Hey].
Qed.
Theorem describes_equiv L L' a b : same_static L L' -> has_supers L -> has_supers L' -> describes L a -> describes L' b -> ts_equiv a b = true.
Proof.
  intros HS HL HL' Da Db. unfold ts_equiv. rewrite (describes_sub L L' a b HS HL HL' Da Db).
  rewrite (describes_sub L' L b a (same_static_sym _ _ HS) HL' HL Db Da). reflexivity.
Qed.
Lemma type_list_has_supers inputs : all_WFh inputs -> has_supers (type_list inputs).
Proof. intros HW d Hd. destruct (type_list_ok inputs HW d Hd) as (_ & (s & Hs & _) & _). eauto. Qed.

(* ORDER INDEPENDENCE OF THE RESULT, without side condition: two tuples with the same declared edges and features (a
   permutation of the arguments in particular) whose merges both succeed give the same types, supertypes and effective
   features *)
Theorem merge_results_equiv inputs inputs' a b : all_WFh inputs -> all_WFh inputs' ->
  same_static (type_list inputs) (type_list inputs') -> merge inputs = Ok a -> merge inputs' = Ok b -> ts_equiv a b = true.
Proof.
  intros HW HW' HS Ha Hb.
  apply (describes_equiv (type_list inputs) (type_list inputs') a b HS (type_list_has_supers _ HW) (type_list_has_supers _ HW')
           (merge_describes _ _ HW Ha) (merge_describes _ _ HW' Hb)).
Qed.

(* ================================================================================================ Part 3: sufficiency *)
Definition no_predef_decl (L : list decl) : Prop := forall d, In d L -> is_predef (dname d) = false.
Lemma no_edge_from_TOP L s : no_predef_decl L -> declared_edge L TOP s -> False.
Proof.
  intros Hnp [(t0 & Ht0 & Hs0)|(d & Hd & Hn & _)].
  - destruct (wf_top _ init_WFh) as (t & Ht & Hnone). rewrite Ht in Ht0. inversion Ht0; subst t0. congruence.
  - specialize (Hnp d Hd). rewrite Hn in Hnp. vm_compute in Hnp. discriminate.
Qed.
(* above a registered type whose whole declared chain is settled, the current hierarchy IS the declared one *)
Lemma static_below L ts : HI ts -> sup_sound L ts -> no_predef_decl L ->
  forall a s, dreach L a s -> registered ts s = true -> chain_settled L s -> below ts a s.
Proof.
  intros W HS Hnp a s H. induction H as [|d s0 He Hr IH]; intros Hreg Hcs; [apply below_refl|].
  apply registered_iff in Hreg. destruct Hreg as (td & Htd). destruct (find_ty_In _ _ _ Htd) as [Hin Hn].
  destruct (t_super td) as [s'|] eqn:Es.
  - assert (E : s' = s0) by (apply (Hcs d (dr_refl L d)); [apply (HS d td s' Htd Es)|exact He]). subst s'.
    destruct (HI_wf_super ts W td s0 Hin Es) as (p & Hp & _). eapply below_step; [exact Htd|exact Es|].
    apply IH; [apply registered_iff; eauto|]. intros a' Ha'. apply Hcs. eapply dr_step; eassumption.
  - exfalso. pose proof (wf_root _ W (strip_ty td) (in_map strip_ty _ _ Hin) Es) as Ht. cbn [strip_ty t_name] in Ht.
    rewrite Hn in Ht. rewrite Ht in He. apply (no_edge_from_TOP L s0 Hnp He).
Qed.

Lemma sk_state_strip s : SK s = s -> strip (m_ts s) = m_ts s.
Proof. intros E. change (m_ts (SK s) = m_ts s). rewrite E. reflexivity. Qed.
Lemma sk_state_nofeat s t : SK s = s -> In t (m_ts s) -> all_features t = [].
Proof.
  intros E Hin. rewrite <- (sk_state_strip s E) in Hin. unfold strip in Hin. apply in_map_iff in Hin. destruct Hin as (t0 & <- & _). reflexivity.
Qed.

(* one step of the hierarchy-only run cannot fail when the declarations are mergeable and the side condition holds *)
Lemma sk_step_ok L s d : Inv2 L s -> SK s = s -> In d L -> decl_ok L d -> t_own (d_ty d) = [] -> ready s d ->
  no_predef_decl L -> side_cond L -> mergeable_h L -> nofinal L -> exists s1, merge_decl fn_form s d = Ok s1.
Proof.
  intros [HI HS] Hsk Hd Hok Hnf (sup & Hs & Hr) Hnp SC MH NF. destruct (ready_registered L s d sup HI Hs Hr) as (tsup & Hfsup & _ & _).
  pose proof (inv_HI _ _ HI) as W. destruct (find_ty_In _ _ _ Hfsup) as [Hsupin Hsn].
  pose proof (user_edge_of_decl L d sup Hd Hs) as Hue.
  assert (Hfeat : forall ts1 tags, merge_features fn_form (d_in d) (dname d) (t_own (d_ty d)) ts1 tags = Ok (ts1, tags)) by (intros; rewrite Hnf; reflexivity).
  unfold merge_decl. rewrite Hs. fold (dname d).
  destruct (registered (m_ts s) (dname d)) eqn:Er.
  - assert (E : exists ts1, merge_super fn_form (m_ts s) (dname d) sup = Ok ts1).
    { apply registered_iff in Er. destruct Er as (ex & Hfx). destruct (find_ty_In _ _ _ Hfx) as [Hexin Hexn].
      unfold merge_super. rewrite (get_type_full _ _ _ Hfx). cbn [bind].
      destruct (t_super ex) as [exsup|] eqn:Es.
      2:{ exfalso. pose proof (wf_root _ W (strip_ty ex) (in_map strip_ty _ _ Hexin) Es) as Hn. cbn [strip_ty t_name] in Hn.
          rewrite Hexn in Hn. pose proof (proj1 Hok) as Hp. rewrite Hn in Hp. vm_compute in Hp. discriminate. }
      destruct (String.eqb sup exsup) eqn:Ee; [eauto|]. apply String.eqb_neq in Ee.
      assert (He1 : declared_edge L (dname d) sup) by (right; exact Hue).
      assert (He2 : declared_edge L (dname d) exsup) by (apply (HS _ ex exsup Hfx Es)).
      pose proof (SC _ _ _ He1 He2 Ee) as CS1. pose proof (SC _ _ _ He2 He1 (fun E => Ee (eq_sym E))) as CS2.
      assert (Hfx' : find_ty (m_ts s) (t_name ex) = Some ex) by (rewrite Hexn; exact Hfx).
      destruct (HI_subsumes_gen _ (t_name ex) sup ex tsup W (get_type_full _ _ _ Hfx') (get_type_full _ _ _ Hfsup)) as (b1 & Hb1 & Hiff1).
      rewrite Hb1. cbn [bind]. rewrite Hexn, Hsn in Hiff1.
      destruct b1.
      { exfalso. apply (mh_acyclic _ MH _ _ He1). apply (below_dreach L _ _ _ HS). apply Hiff1. reflexivity. }
      destruct (HI_super _ ex exsup W Hexin Es) as (tp & Hfp & Hchild). destruct (find_ty_In _ _ _ Hfp) as [_ Hpn].
      destruct (HI_subsumes_gen _ exsup sup tp tsup W (get_type_full _ _ _ Hfp) (get_type_full _ _ _ Hfsup)) as (b2 & Hb2 & Hiff2).
      rewrite Hb2. cbn [bind]. rewrite Hpn, Hsn in Hiff2.
      destruct b2.
      - unfold reparent. rewrite (get_type_full _ _ _ Hfsup), Hfp. cbn [bind]. apply memb_In in Hchild. rewrite Hchild. cbn [negb].
        rewrite Hsn, relink_find', Hfsup. cbn [option_map].
        assert (Haf : all_features (relink_ty (m_ts s) (t_name ex) exsup sup (S (t_rank tsup)) tsup) = []).
        { unfold all_features. rewrite relink_own, relink_inh. apply (sk_state_nofeat s tsup Hsk Hsupin). }
        rewrite Haf. cbn [inherit_list]. eauto.
      - destruct (HI_subsumes_gen _ sup exsup tsup tp W (get_type_full _ _ _ Hfsup) (get_type_full _ _ _ Hfp)) as (b3 & Hb3 & Hiff3).
        rewrite Hb3. cbn [bind]. rewrite Hpn, Hsn in Hiff3. destruct b3; [eauto|]. exfalso.
        destruct (mh_comparable _ MH _ _ _ He1 He2) as [D|D].
        + assert (B : below (m_ts s) sup exsup) by (apply (static_below L _ W HS Hnp sup exsup D); [apply registered_iff; eauto|exact CS2]).
          apply Hiff3 in B. discriminate.
        + assert (B : below (m_ts s) exsup sup) by (apply (static_below L _ W HS Hnp exsup sup D); [apply registered_iff; eauto|exact CS1]).
          apply Hiff2 in B. discriminate. }
    destruct E as (ts1 & E). rewrite E. cbn [bind]. rewrite Hfeat. cbn [bind]. eauto.
  - assert (E : exists ts1, create_type (m_ts s) (dname d) sup (t_desc (d_ty d)) = Ok ts1).
    { unfold create_type. rewrite Er, (get_type_full _ _ _ Hfsup). cbn [bind]. rewrite Hsn, (NF _ _ Hue).
      destruct (String.eqb (dname d) TOP); [eauto|]. rewrite (sk_state_nofeat s tsup Hsk Hsupin). cbn [inherit_all bind]. eauto. }
    destruct E as (ts1 & E). rewrite E. cbn [bind]. rewrite Hfeat. cbn [bind]. eauto.
Qed.

Section LoopOk.
  Variable L : list decl.
  Variable I : mst -> Prop.
  Hypothesis step_ok : forall st d, I st -> In d L -> ready st d ->
    exists st1, merge_decl fn_form st d = Ok st1 /\ I st1 /\ m_done st1 = dname d :: m_done st.
  Hypothesis sups : has_supers L.
  Hypothesis procs : forall d s, In d L -> t_super (d_ty d) = Some s -> proc L s.

  Definition tracked (l : list decl) (st : mst) : Prop := forall d, In d L -> In d l \/ In (dname d) (m_done st).

  Lemma pass_ok : forall l st, incl l L -> I st ->
    exists st' rest, pass fn_form l st = Ok (st', rest) /\ I st' /\ incl (m_done st) (m_done st') /\
      (forall d, In d l -> In d rest \/ In (dname d) (m_done st')) /\
      (List.length rest = List.length l -> st' = st /\ forall d, In d l -> ~ ready st d).
  Proof.
    induction l as [|d r IH]; intros st Hl HI; cbn [pass].
    - exists st, []. split; [reflexivity|]. split; [exact HI|]. split; [apply incl_refl|]. split; [intros d []|]. intros _. split; [reflexivity|intros d []].
    - assert (Hd : In d L) by (apply Hl; left; reflexivity).
      assert (Hr : incl r L) by (intros y Hy; apply Hl; right; exact Hy).
      destruct (sups d Hd) as (s & Es). rewrite Es. destruct (is_predef s || memb s (m_done st)) eqn:Erdy.
      + destruct (step_ok st d HI Hd (ex_intro _ s (conj Es Erdy))) as (st1 & E1 & HI1 & Hdone). rewrite E1. cbn [bind].
        destruct (IH st1 Hr HI1) as (st' & rest & Ep & HI' & Hinc & Hall & _). exists st', rest. split; [exact Ep|]. split; [exact HI'|].
        assert (Hinc' : incl (m_done st) (m_done st')) by (intros n Hn; apply Hinc; rewrite Hdone; right; exact Hn).
        split; [exact Hinc'|]. split.
        * intros y [<-|Hy]; [right; apply Hinc; rewrite Hdone; left; reflexivity|apply Hall; exact Hy].
        * intros Hlen. exfalso. destruct (pass_shape _ _ _ _ _ Ep) as [_ Hle]. cbn [List.length] in Hlen. lia.
      + destruct (IH st Hr HI) as (st' & rest & Ep & HI' & Hinc & Hall & Hstuck). rewrite Ep. cbn [bind fst snd].
        exists st', (d :: rest). split; [reflexivity|]. split; [exact HI'|]. split; [exact Hinc|]. split.
        * intros y [<-|Hy]; [left; left; reflexivity|]. destruct (Hall y Hy) as [H1|H1]; [left; right; exact H1|right; exact H1].
        * intros Hlen. cbn [List.length] in Hlen. destruct (Hstuck ltac:(lia)) as [-> Hnr]. split; [reflexivity|].
          intros y [<-|Hy]; [|apply Hnr; exact Hy]. intros (s' & Es' & Er'). rewrite Es in Es'. inversion Es'; subst s'. congruence.
  Qed.
  Lemma proc_stuck n : proc L n -> forall l st, tracked l st -> (forall d, In d l -> ~ ready st d) ->
    is_predef n = false -> ~ In n (m_done st) -> False.
  Proof.
    intros H. induction H as [n Hp|x s (d & Hd & Hn & Hs) Hp IH]; intros l st Htr Hnr Hnp Hnd; [congruence|].
    destruct (Htr d Hd) as [Hin|Hin]; [|rewrite Hn in Hin; contradiction].
    destruct (is_predef s || memb s (m_done st)) eqn:E.
    - apply (Hnr d Hin). exists s. auto.
    - apply orb_false_iff in E. destruct E as [E1 E2]. apply (IH l st Htr Hnr E1). intros Hs'. apply memb_In in Hs'. congruence.
  Qed.
  Lemma rounds_ok : forall fuel l st, incl l L -> I st -> tracked l st -> List.length l < fuel ->
    exists st', rounds fn_form fuel l st = Ok st' /\ I st'.
  Proof.
    induction fuel as [|k IH]; intros l st Hl HI Htr Hlt; [lia|]. cbn [rounds].
    destruct (pass_ok l st Hl HI) as (st1 & rest & Ep & HI1 & Hinc & Hall & Hstuck). rewrite Ep. cbn [bind fst snd].
    destruct (pass_shape _ _ _ _ _ Ep) as [Hincl Hle].
    destruct rest as [|d0 rest0]; [eauto|].
    destruct (Nat.eqb (List.length l) (List.length (d0 :: rest0))) eqn:E.
    - exfalso. apply Nat.eqb_eq in E. destruct (Hstuck (eq_sym E)) as [-> Hnr].
      assert (Hd0 : In d0 l) by (apply Hincl; left; reflexivity). assert (Hd0L : In d0 L) by (apply Hl; exact Hd0).
      destruct (sups d0 Hd0L) as (s0 & Es0).
      destruct (is_predef s0 || memb s0 (m_done st)) eqn:Er; [apply (Hnr d0 Hd0); exists s0; auto|].
      apply orb_false_iff in Er. destruct Er as [E1 E2].
      apply (proc_stuck s0 (procs d0 s0 Hd0L Es0) l st Htr Hnr E1). intros Hs'. apply memb_In in Hs'. congruence.
    - apply Nat.eqb_neq in E. apply IH; [intros y Hy; apply Hl, Hincl, Hy|exact HI1| |lia].
      intros d Hd. destruct (Htr d Hd) as [H1|H1]; [apply Hall; exact H1|right; apply Hinc; exact H1].
  Qed.
End LoopOk.

Lemma erase_d_idem d : erase_d (erase_d d) = erase_d d.
Proof. reflexivity. Qed.
Lemma strip_strip ts : strip (strip ts) = strip ts.
Proof. unfold strip. rewrite map_map. apply map_ext. reflexivity. Qed.
Lemma strip_all_feats P ts : all_feats P (strip ts).
Proof. intros t f Hin Hf. unfold strip in Hin. apply in_map_iff in Hin. destruct Hin as (t0 & <- & _). destruct Hf. Qed.
Lemma strip_own_dom ts : own_dom (strip ts).
Proof. intros t f Hin Hf. unfold strip in Hin. apply in_map_iff in Hin. destruct Hin as (t0 & <- & _). destruct Hf. Qed.
Lemma strip_sup_sound L ts : sup_sound L ts -> sup_sound L (strip ts).
Proof.
  intros HS n t s Hf Hs. rewrite strip_find in Hf. destruct (find_ty ts n) as [t0|] eqn:E0; [|discriminate].
  inversion Hf; subst t. apply (HS n t0 s E0 Hs).
Qed.
Lemma SK_idem s : SK (SK s) = SK s.
Proof. unfold SK. cbn [m_ts m_done]. rewrite strip_strip. reflexivity. Qed.
Lemma dnames_erase L : dnames (map erase_d L) = dnames L.
Proof. unfold dnames. rewrite map_map. apply map_ext. reflexivity. Qed.
Lemma decl_ok_erase L d : decl_ok L d -> decl_ok (map erase_d L) (erase_d d).
Proof.
  intros (Hp & (s & Hs & Hn) & _). split; [exact Hp|]. split.
  - exists s. split; [exact Hs|]. destruct Hn as [Hn|Hn]; [left; exact Hn|right; rewrite dnames_erase; exact Hn].
  - intros f [].
Qed.

(* the hierarchy-only run succeeds on mergeable declarations that meet the side condition *)
Theorem merge_sk_succeeds inputs : all_WFh inputs -> nofinal (type_list inputs) -> side_cond (type_list inputs) ->
  mergeable_h (type_list inputs) -> exists s, merge_sk inputs = Ok s.
Proof.
  intros HW NF SC MH. set (L := type_list inputs) in *. set (Le := map erase_d L).
  pose proof (user_edge_erase L) as HE. pose proof (same_edges_sym _ _ HE) as HE'.
  assert (Hin : forall d', In d' Le -> exists d, In d L /\ d' = erase_d d) by (intros d' H; apply in_map_iff in H; destruct H as (d & <- & Hd); eauto).
  assert (Hok : forall d', In d' Le -> decl_ok Le d') by (intros d' H; destruct (Hin d' H) as (d & Hd & ->); apply decl_ok_erase, (type_list_ok inputs HW d Hd)).
  assert (Hnp : no_predef_decl Le) by (intros d' H; apply (proj1 (Hok d' H))).
  unfold merge_sk. fold L. fold Le.
  destruct (rounds_ok Le (fun s => Inv2 Le s /\ SK s = s)) with (fuel := S (List.length L)) (l := Le) (st := SK st0) as (s & Hs & _).
  - intros st d' [HI Hsk] Hd' Hrdy. destruct (Hin d' Hd') as (d & Hd & ->).
    destruct (sk_step_ok Le st (erase_d d) HI Hsk Hd' (Hok _ Hd') eq_refl Hrdy Hnp (ss_side_cond L Le HE' SC) (ss_mergeable L Le HE' MH) (ss_nofinal L Le HE' NF))
      as (s1 & E1).
    exists s1. split; [exact E1|]. destruct (merge_decl_Inv2 Le st (erase_d d) s1 HI Hd' (Hok _ Hd') Hrdy E1) as (HI1 & _ & _).
    split; [split; [exact HI1|]|].
    + pose proof (merge_decl_sk _ _ _ E1) as E2. rewrite Hsk, erase_d_idem, E1 in E2. inversion E2. congruence.
    + apply (merge_decl_grows Le st (erase_d d) s1 (proj1 HI) (Hok _ Hd') E1).
  - intros d' Hd'. destruct (Hok d' Hd') as (_ & (s & Hs & _) & _). eauto.
  - intros d' s Hd' Hs. apply (ss_proc L Le HE'). apply (mh_proc _ MH (dname d') s). apply HE. exists d'. auto.
  - apply incl_refl.
  - split; [|apply SK_idem]. split.
    + constructor; cbn [SK st0 m_ts m_done].
      * unfold HI. rewrite strip_strip. exact init_HI.
      * intros n [].
      * intros n Hn. rewrite strip_registered. exact Hn.
      * apply strip_all_feats.
      * apply strip_own_dom.
    + cbn [SK st0 m_ts]. apply strip_sup_sound. apply init_sup_sound.
  - intros d' Hd'. left. exact Hd'.
  - unfold Le. rewrite map_length. apply Nat.lt_succ_diag_r.
  - eauto.
Qed.

(* SUFFICIENCY: under the side condition, mergeable and agreeing declarations merge *)
Theorem merge_succeeds inputs : all_WFh inputs -> nofinal (type_list inputs) -> side_cond (type_list inputs) ->
  mergeable_h (type_list inputs) -> AG (type_list inputs) -> exists ts, merge inputs = Ok ts.
Proof.
  intros HW NF SC MH HA. destruct (merge_sk_succeeds inputs HW NF SC MH) as (s & Hs).
  destruct (merge_of_sk inputs s HW HA Hs) as (ts & Ht & _). eauto.
Qed.
(* whether a merge succeeds is, under the side condition, a property of the set of declarations *)
Theorem merge_success_iff inputs : all_WFh inputs -> nofinal (type_list inputs) -> side_cond (type_list inputs) ->
  ((exists ts, merge inputs = Ok ts) <-> mergeable_h (type_list inputs) /\ AG (type_list inputs)).
Proof.
  intros HW NF SC. split.
  - intros (ts & H). split; [apply (merge_mergeable_h inputs ts HW H)|apply (merge_AG inputs ts HW H)].
  - intros [MH HA]. apply (merge_succeeds inputs HW NF SC MH HA).
Qed.

(* ORDER INDEPENDENCE (the property's statement for permutations, and more generally for any two tuples with the same
   declared edges and features): under the side condition, success / failure (ValueError) and the resulting types,
   supertypes and effective features do not depend on the order of the inputs *)
Definition same_outcome (r r' : res tsys) : Prop :=
  match r, r' with
  | Ok a, Ok b => ts_equiv a b = true
  | Err e, Err e' => e = EValue /\ e' = EValue
  | _, _ => False
  end.
Theorem merge_order_independent inputs inputs' : all_WFh inputs -> all_WFh inputs' -> nofinal (type_list inputs) ->
  same_static (type_list inputs) (type_list inputs') -> side_cond (type_list inputs) ->
  same_outcome (merge inputs) (merge inputs').
Proof.
  intros HW HW' NF HS SC. set (L := type_list inputs) in *. set (L' := type_list inputs') in *.
  pose proof (ss_nofinal L L' (proj1 HS) NF) as NF'. pose proof (ss_side_cond L L' (proj1 HS) SC) as SC'.
  unfold same_outcome. destruct (merge inputs) as [a|e|] eqn:Ea; destruct (merge inputs') as [b|e'|] eqn:Eb.
  - apply (merge_results_equiv inputs inputs' a b HW HW' HS Ea Eb).
  - destruct (proj1 (merge_success_iff inputs HW NF SC) (ex_intro _ a Ea)) as [MH HA].
    destruct (merge_succeeds inputs' HW' NF' SC' (ss_mergeable L L' (proj1 HS) MH) (ss_AG L L' HS HA)) as (b & Hb). congruence.
  - apply (merge_terminates inputs' HW' Eb).
  - destruct (proj1 (merge_success_iff inputs' HW' NF' SC') (ex_intro _ b Eb)) as [MH HA]. pose proof (same_static_sym _ _ HS) as HS'.
    destruct (merge_succeeds inputs HW NF SC (ss_mergeable L' L (proj1 HS') MH) (ss_AG L' L HS' HA)) as (a & Ha). congruence.
  - split; [apply (merge_error_is_value inputs e HW Ea)|apply (merge_error_is_value inputs' e' HW' Eb)].
  - apply (merge_terminates inputs' HW' Eb).
  - apply (merge_terminates inputs HW Ea).
  - apply (merge_terminates inputs HW Ea).
  - apply (merge_terminates inputs HW Ea).
Qed.

Definition all_nofinal (inputs : list tsys) : Prop := forall ts, In ts inputs -> no_final_parent ts.
Lemma type_list_nofinal inputs : all_nofinal inputs -> nofinal (type_list inputs).
Proof.
  intros H x s (d & Hd & _ & Hs). destruct (type_list_from_In _ _ _ Hd) as (ts & Hts & Hu). unfold user_types in Hu. apply filter_In in Hu.
  apply (H ts Hts (d_ty d) s (proj1 Hu) Hs).
Qed.
Theorem merge_permutation inputs inputs' : all_WFh inputs -> all_nofinal inputs -> Permutation inputs inputs' ->
  side_cond (type_list inputs) -> same_outcome (merge inputs) (merge inputs').
Proof.
  intros HW NF HP SC. apply (merge_order_independent inputs inputs' HW); auto.
  - intros ts Hts. apply HW. apply (Permutation_in _ (Permutation_sym HP)). exact Hts.
  - apply type_list_nofinal. exact NF.
  - apply same_decls_static. apply permutation_same_decls. exact HP.
Qed.

(* ================================================================================================ Part 4: replay *)
(* t contains TypeSystem(): every built-in type (DocumentAnnotation included) with its supertype and, up to __eq__, its
   features; and the predefined types of t declare nothing else *)
Definition embedded (i0 t : tsys) : Prop :=
  (forall t0, In t0 i0 -> exists t', find_ty t (t_name t0) = Some t' /\ t_super t' = t_super t0 /\
      forall f, In f (t_own t0) -> exists g, In g (t_own t' ++ t_inh t') /\ feat_eqb g f = true) /\
  (forall t', In t' t -> is_predef (t_name t') = true -> forall g, In g (t_own t') ->
      exists t0, find_ty i0 (t_name t') = Some t0 /\ In g (t_own t0)).
Definition embeddedb (i0 t : tsys) : bool :=
  forallb (fun t0 => match find_ty t (t_name t0) with
                     | Some t' => ostr_eqb (t_super t') (t_super t0)
                                  && forallb (fun f => existsb (fun g => feat_eqb g f) (t_own t' ++ t_inh t')) (t_own t0)
                     | None => false end) i0
  && forallb (fun t' => negb (is_predef (t_name t'))
                        || match find_ty i0 (t_name t') with
                           | Some t0 => forallb (fun g => existsb (feat_same g) (t_own t0)) (t_own t')
                           | None => false end) t.
Lemma embeddedb_sound i0 t : embeddedb i0 t = true -> embedded i0 t.
Proof.
  unfold embeddedb. rewrite andb_true_iff, !forallb_forall. intros [H1 H2]. split.
  - intros t0 Hin. specialize (H1 t0 Hin). cbv beta in H1. destruct (find_ty t (t_name t0)) as [t'|]; [|discriminate]. apply andb_true_iff in H1. destruct H1 as [Hs Hf].
    exists t'. split; [reflexivity|]. split; [apply ostr_eqb_eq; exact Hs|]. rewrite forallb_forall in Hf. intros f Hfin.
    specialize (Hf f Hfin). apply existsb_exists in Hf. exact Hf.
  - intros t' Hin Hp g Hg. specialize (H2 t' Hin). cbv beta in H2. rewrite Hp in H2. cbn [negb orb] in H2.
    destruct (find_ty i0 (t_name t')) as [t0|]; [|discriminate]. exists t0. split; [reflexivity|].
    rewrite forallb_forall in H2. specialize (H2 g Hg). apply existsb_exists in H2. destruct H2 as (g0 & Hg0 & E). apply feat_same_eq in E. subst g0. exact Hg0.
Qed.
Definition init_embedded (t : tsys) : Prop := embedded init_ts t.
Definition init_embeddedb (t : tsys) : bool := embeddedb init_ts t.
Lemma init_embeddedb_sound t : init_embeddedb t = true -> init_embedded t.
Proof. apply embeddedb_sound. Qed.

Lemma type_list_single_In t tn : In tn (user_types t) -> In (mkDecl 1 tn) (type_list [t]).
Proof. intros H. unfold type_list. cbn [type_list_from]. apply in_or_app. left. apply in_map. exact H. Qed.
Lemma type_list_single_inv t d : In d (type_list [t]) -> In (d_ty d) (user_types t).
Proof. intros H. destruct (type_list_from_In _ _ _ H) as (ts & [<-|[]] & Hu). exact Hu. Qed.
Lemma user_types_In t tn : In tn (user_types t) <-> In tn t /\ is_predef (t_name tn) = false.
Proof. unfold user_types. rewrite filter_In, negb_true_iff. reflexivity. Qed.

Section Replay.
  Variable t : tsys.
  Hypothesis Wt : WFh t.
  Hypothesis Ft : WFf t.
  Hypothesis Et : init_embedded t.
  Let L := type_list [t].

  (* the declared edges are exactly the edges of t *)
  Lemma rp_edge x s : declared_edge L x s <-> exists tx, find_ty t x = Some tx /\ t_super tx = Some s.
  Proof.
    split.
    - intros [(t0 & Ht0 & Hs0)|(d & Hd & Hn & Hs)].
      + destruct (find_ty_In _ _ _ Ht0) as [Hin0 Hn0]. destruct (proj1 Et t0 Hin0) as (t' & Ht' & Hs' & _). rewrite Hn0 in Ht'.
        exists t'. split; [exact Ht'|rewrite Hs'; exact Hs0].
      + apply type_list_single_inv in Hd. apply user_types_In in Hd. destruct Hd as [Hin _]. exists (d_ty d). split; [|exact Hs].
        rewrite <- Hn. apply (In_find_ty _ _ (wf_nodup _ Wt) Hin).
    - intros (tx & Hx & Hs). destruct (find_ty_In _ _ _ Hx) as [Hin Hn]. destruct (is_predef x) eqn:Ep.
      + left. pose proof (predef_in_init x Ep) as Hr. apply registered_iff in Hr. destruct Hr as (t0 & Ht0). exists t0. split; [exact Ht0|].
        destruct (find_ty_In _ _ _ Ht0) as [Hin0 Hn0]. destruct (proj1 Et t0 Hin0) as (t' & Ht' & Hs' & _). rewrite Hn0, Hx in Ht'. inversion Ht'; subst t'. rewrite <- Hs'. exact Hs.
      + right. exists (mkDecl 1 tx). split; [apply type_list_single_In, user_types_In; rewrite Hn; auto|]. split; [exact Hn|exact Hs].
  Qed.
  Lemma rp_below a d : below t a d <-> dreach L a d.
  Proof.
    split.
    - intros H. induction H as [|d td s Hf Hs Hb IH]; [apply dr_refl|]. eapply dr_step; [|exact IH]. apply rp_edge. eauto.
    - intros H. induction H as [|d s He Hr IH]; [apply below_refl|]. apply rp_edge in He. destruct He as (tx & Hx & Hs). eapply below_step; eassumption.
  Qed.
  Lemma rp_describes : describes L t.
  Proof.
    constructor; auto.
    - intros n. split.
      + intros Hr. destruct (is_predef n) eqn:Ep; [left; apply predef_in_init; exact Ep|]. right.
        apply registered_iff in Hr. destruct Hr as (tn & Hn). destruct (find_ty_In _ _ _ Hn) as [Hin Hnn].
        unfold dnames. apply in_map_iff. exists (mkDecl 1 tn). split; [exact Hnn|]. apply type_list_single_In, user_types_In. rewrite Hnn. auto.
      + intros [Hr|Hr].
        * apply registered_iff in Hr. destruct Hr as (t0 & Ht0). destruct (find_ty_In _ _ _ Ht0) as [Hin0 Hn0].
          destruct (proj1 Et t0 Hin0) as (t' & Ht' & _). rewrite Hn0 in Ht'. apply registered_iff. exists t'. exact Ht'.
        * unfold dnames in Hr. apply in_map_iff in Hr. destruct Hr as (d & <- & Hd). apply type_list_single_inv, user_types_In in Hd.
          apply registered_iff. exists (d_ty d). apply (In_find_ty _ _ (wf_nodup _ Wt) (proj1 Hd)).
    - apply rp_below.
    - intros A f [(t0 & Ht0 & Hf0)|(d & Hd & Hn & Hf)].
      + destruct (find_ty_In _ _ _ Ht0) as [Hin0 Hn0]. destruct (proj1 Et t0 Hin0) as (t' & Ht' & _ & Hfs). rewrite Hn0 in Ht'.
        destruct (Hfs f Hf0) as (g & Hg & He). exists t', g. split; [exact Ht'|]. split; [exact Hg|exact He].
      + apply type_list_single_inv, user_types_In in Hd. exists (d_ty d), f. rewrite <- Hn.
        split; [apply (In_find_ty _ _ (wf_nodup _ Wt) (proj1 Hd))|]. split; [apply in_or_app; left; exact Hf|apply feat_eqb_refl].
    - intros t' g Hin Hg. destruct (is_predef (t_name t')) eqn:Ep.
      + left. apply (proj2 Et t' Hin Ep g Hg).
      + right. exists (mkDecl 1 t'). split; [apply type_list_single_In, user_types_In; auto|]. split; [reflexivity|exact Hg].
  Qed.
  Lemma rp_settled x : settled L x.
  Proof.
    intros s1 s2 H1 H2. apply rp_edge in H1. apply rp_edge in H2. destruct H1 as (t1 & Hx1 & Hs1). destruct H2 as (t2 & Hx2 & Hs2).
    rewrite Hx1 in Hx2. inversion Hx2; subst t2. rewrite Hs1 in Hs2. inversion Hs2. reflexivity.
  Qed.
  Lemma rp_side_cond : side_cond L.
  Proof. intros x s1 s2 H1 H2 Hn. exfalso. apply Hn. apply (rp_settled x s1 s2 H1 H2). Qed.
  Lemma rp_proc : forall k tn, In tn t -> t_rank tn < k -> proc L (t_name tn).
  Proof.
    induction k as [|k IH]; intros tn Hin Hlt; [lia|]. destruct (is_predef (t_name tn)) eqn:Ep; [apply proc_predef; exact Ep|].
    destruct (t_super tn) as [s|] eqn:Es.
    - destruct (wf_super _ Wt tn s Hin Es) as (p & Hp & Hr). destruct (find_ty_In _ _ _ Hp) as [Hpin Hpn].
      eapply proc_decl with (s := s).
      + exists (mkDecl 1 tn). split; [apply type_list_single_In, user_types_In; auto|]. split; [reflexivity|exact Es].
      + rewrite <- Hpn. apply IH; [exact Hpin|lia].
    - pose proof (wf_root _ Wt tn Hin Es) as Hn. rewrite Hn in Ep. vm_compute in Ep. discriminate.
  Qed.
  Lemma rp_mergeable : mergeable_h L.
  Proof.
    constructor.
    - intros x s1 s2 H1 H2. rewrite (rp_settled x s1 s2 H1 H2). left. apply dr_refl.
    - intros x s He Hr. apply rp_edge in He. destruct He as (tx & Hx & Hs). apply rp_below in Hr.
      apply (sbelow_neq t x x Wt); [|reflexivity]. exists tx, s. auto.
    - intros x s (d & Hd & Hn & Hs). apply type_list_single_inv, user_types_In in Hd. destruct Hd as [Hin _].
      destruct (wf_super _ Wt (d_ty d) s Hin Hs) as (p & Hp & _). destruct (find_ty_In _ _ _ Hp) as [Hpin Hpn]. rewrite <- Hpn.
      apply (rp_proc (S (t_rank p)) p Hpin). lia.
  Qed.
  Lemma rp_AG : AG L.
  Proof.
    intros A1 A2 f1 f2 D1 D2 Hn Hr. pose proof rp_describes as D.
    apply (chain_feats_agree t A1 A2 f1 f2 Wt Ft (ds_has _ _ D _ _ D1) (ds_has _ _ D _ _ D2)); [|exact Hn]. apply rp_below. exact Hr.
  Qed.
  Lemma rp_nofinal : no_final_parent t -> nofinal L.
  Proof. intros H. apply type_list_nofinal. intros ts [<-|[]]. exact H. Qed.
End Replay.

Lemma describes_static L L' ts : same_static L L' -> has_supers L -> has_supers L' -> describes L ts -> describes L' ts.
Proof.
  intros HS HL HL' [W F N B H O]. pose proof (same_static_sym _ _ HS) as HS'. constructor; auto.
  - intros n. rewrite N. split; [apply (nm_ok_static L L' n HS HL)|apply (nm_ok_static L' L n HS' HL')].
  - intros a d. rewrite B. split; [apply (ss_dreach L L' (proj1 HS))|apply (ss_dreach L' L (proj1 HS'))].
  - intros A f D. apply H. apply (proj2 HS'). exact D.
  - intros t g Hin Hg. apply (proj2 HS). apply (O t g Hin Hg).
Qed.

(* what "reproduces it" means beyond ts_equiv: the same names, the same supertypes, the same children (as sets) *)
Definition same_tree (a b : tsys) : Prop :=
  (forall n, registered a n = registered b n) /\
  forall n ta tb, find_ty a n = Some ta -> find_ty b n = Some tb ->
    t_super ta = t_super tb /\ forall c, In c (t_children ta) <-> In c (t_children tb).
Lemma describes_same_tree L L' a b : same_static L L' -> has_supers L -> has_supers L' -> describes L a -> describes L' b -> same_tree a b.
Proof.
  intros HS HL HL' Da Db. pose proof (same_static_sym _ _ HS) as HS'. split.
  - intros n. destruct (registered a n) eqn:Ea; destruct (registered b n) eqn:Eb; auto.
    + apply registered_iff in Ea. destruct Ea as (ta & Hta). destruct (de_tree L L' a b HS HL Da Db n ta Hta) as (tb & Htb & _).
      assert (registered b n = true) by (apply registered_iff; eauto). congruence.
    + apply registered_iff in Eb. destruct Eb as (tb & Htb). destruct (de_tree L' L b a HS' HL' Db Da n tb Htb) as (ta & Hta & _).
      assert (registered a n = true) by (apply registered_iff; eauto). congruence.
  - intros n ta tb Hta Htb. destruct (de_tree L L' a b HS HL Da Db n ta Hta) as (tb' & Htb' & Hs). rewrite Htb in Htb'. inversion Htb'; subst tb'.
    split; [symmetry; exact Hs|]. intros c. destruct (find_ty_In _ _ _ Hta) as [Hain Han]. destruct (find_ty_In _ _ _ Htb) as [Hbin Hbn].
    rewrite (wf_children _ (ds_WFh _ _ Da) ta c Hain), (wf_children _ (ds_WFh _ _ Db) tb c Hbin), Han, Hbn. split.
    + intros (tc & Hc & Hsc). destruct (de_tree L L' a b HS HL Da Db c tc Hc) as (uc & Huc & Hsu). exists uc. split; [exact Huc|congruence].
    + intros (tc & Hc & Hsc). destruct (de_tree L' L b a HS' HL' Db Da c tc Hc) as (uc & Huc & Hsu). exists uc. split; [exact Huc|congruence].
Qed.

(* THE REPLAY THEOREM, for any tuple of inputs that declares what t declares: the merge raises nowhere and reproduces t:
   same types, supertypes and effective features (ts_equiv), same children as sets (same_tree), and every own feature
   of the result is an own feature of the type of that name in t (or in TypeSystem() for the built-in types) *)
Theorem merge_replay_gen t inputs : WF t -> init_embedded t -> no_final_parent t -> all_WFh inputs ->
  same_static (type_list [t]) (type_list inputs) ->
  exists r, merge inputs = Ok r /\ ts_equiv r t = true /\ same_tree r t /\
    forall n tr g, find_ty r n = Some tr -> In g (t_own tr) ->
      (exists tt, find_ty t n = Some tt /\ In g (t_own tt)) \/ (exists t0, find_ty init_ts n = Some t0 /\ In g (t_own t0)).
Proof.
  intros [Wt Ft] Et NFt HW HS. set (L := type_list [t]) in *. set (L' := type_list inputs) in *.
  assert (HWt : all_WFh [t]) by (intros ts [<-|[]]; exact Wt).
  pose proof (type_list_has_supers _ HWt) as HL. pose proof (type_list_has_supers _ HW) as HL'.
  destruct (merge_succeeds inputs HW (ss_nofinal L L' (proj1 HS) (rp_nofinal t NFt)) (ss_side_cond L L' (proj1 HS) (rp_side_cond t Wt Et))
              (ss_mergeable L L' (proj1 HS) (rp_mergeable t Wt Et)) (ss_AG L L' HS (rp_AG t Wt Ft Et))) as (r & Hr).
  pose proof (merge_describes inputs r HW Hr) as Dr. pose proof (rp_describes t Wt Ft Et) as Dt. pose proof (same_static_sym _ _ HS) as HS'.
  exists r. split; [exact Hr|]. split; [apply (describes_equiv L' L r t HS' HL' HL Dr Dt)|]. split; [apply (describes_same_tree L' L r t HS' HL' HL Dr Dt)|].
  intros n tr g Hn Hg. destruct (find_ty_In _ _ _ Hn) as [Hin Hnn]. pose proof (ds_own _ _ Dr tr g Hin Hg) as D. rewrite Hnn in D.
  apply (proj2 HS') in D. destruct D as [D|(d & Hd & Hdn & Hf)]; [right; exact D|left].
  apply type_list_single_inv, user_types_In in Hd. exists (d_ty d). rewrite <- Hdn. split; [apply (In_find_ty _ _ (wf_nodup _ Wt) (proj1 Hd))|exact Hf].
Qed.

Definition replays (t : tsys) (inputs : list tsys) : Prop :=
  exists r, merge inputs = Ok r /\ ts_equiv r t = true /\ same_tree r t /\
    forall n tr g, find_ty r n = Some tr -> In g (t_own tr) ->
      (exists tt, find_ty t n = Some tt /\ In g (t_own tt)) \/ (exists t0, find_ty init_ts n = Some t0 /\ In g (t_own t0)).

Theorem merge_replay t : WF t -> init_embedded t -> no_final_parent t -> replays t [t].
Proof.
  intros Wf Et NF. apply (merge_replay_gen t [t] Wf Et NF); [intros ts [<-|[]]; exact (proj1 Wf)|apply same_static_refl].
Qed.
(* merging a type system with itself changes nothing *)
Theorem merge_idempotent t : WF t -> init_embedded t -> no_final_parent t -> replays t [t; t].
Proof.
  intros Wf Et NF. apply (merge_replay_gen t [t; t] Wf Et NF); [intros ts [<-|[<-|[]]]; exact (proj1 Wf)|].
  apply same_decls_static. apply same_decls_dup.
Qed.
(* merging with an empty type system changes nothing *)
Lemma type_list_two_In a b d : In d (type_list [a; b]) -> In (d_ty d) (user_types a) \/ In (d_ty d) (user_types b).
Proof. intros Hd. destruct (type_list_from_In _ _ _ Hd) as (ts & [<-|[<-|[]]] & Hu); auto. Qed.
Lemma same_static_empty t : WFh t -> init_embedded t -> same_static (type_list [t]) (type_list [t; init_ts]).
Proof.
  intros Wt Et.
  assert (Hsplit : forall d, In d (type_list [t; init_ts]) -> In (d_ty d) (user_types t) \/ In (d_ty d) (user_types init_ts)).
  { intros d Hd. exact (type_list_two_In t init_ts d Hd). }
  assert (Hleft : forall tn, In tn (user_types t) -> In (mkDecl 1 tn) (type_list [t; init_ts])).
  { intros tn H. unfold type_list. cbn [type_list_from]. apply in_or_app. left. apply in_map. exact H. }
  split.
  - intros x s. split.
    + intros (d & Hd & Hn & Hs). apply type_list_single_inv in Hd. exists (mkDecl 1 (d_ty d)). split; [apply Hleft; exact Hd|auto].
    + intros (d & Hd & Hn & Hs). destruct (Hsplit d Hd) as [Hu|Hu].
      * exists (mkDecl 1 (d_ty d)). split; [apply type_list_single_In; exact Hu|split; [exact Hn|exact Hs]].
      * destruct (proj1 (user_types_In init_ts (d_ty d)) Hu) as [Hin Hp]. destruct (proj1 Et (d_ty d) Hin) as (t' & Ht' & Hs' & _).
        destruct (find_ty_In _ _ _ Ht') as [Hin' Hn']. exists (mkDecl 1 t'). split; [apply type_list_single_In, user_types_In; rewrite Hn'; auto|].
        unfold dname in *. cbn [d_ty]. split; [rewrite Hn'; exact Hn|rewrite Hs'; exact Hs].
  - intros A f. split.
    + intros [D|(d & Hd & Hn & Hf)]; [left; exact D|right]. apply type_list_single_inv in Hd. exists (mkDecl 1 (d_ty d)). split; [apply Hleft; exact Hd|auto].
    + intros [D|(d & Hd & Hn & Hf)]; [left; exact D|]. destruct (Hsplit d Hd) as [Hu|Hu].
      * right. exists (mkDecl 1 (d_ty d)). split; [apply type_list_single_In; exact Hu|split; [exact Hn|exact Hf]].
      * left. destruct (proj1 (user_types_In init_ts (d_ty d)) Hu) as [Hin _]. exists (d_ty d). split; [|exact Hf]. rewrite <- Hn.
        apply (In_find_ty init_ts (d_ty d) (wf_nodup _ init_WFh) Hin).
Qed.
Theorem merge_empty_neutral t : WF t -> init_embedded t -> no_final_parent t -> replays t [t; init_ts].
Proof.
  intros Wf Et NF. apply (merge_replay_gen t [t; init_ts] Wf Et NF); [intros ts [<-|[<-|[]]]; [exact (proj1 Wf)|exact init_WFh]|].
  apply (same_static_empty t (proj1 Wf) Et).
Qed.

(* ================================================================================================ boolean twin of the side condition *)
(* a sound (not complete) executable check of side_cond, for the non-vacuity examples and for counting cases *)
Definition edges_of (ts : tsys) : list (tname * tname) :=
  flat_map (fun t => match t_super t with Some s => [(t_name t, s)] | None => [] end) ts.
Definition user_edges (L : list decl) : list (tname * tname) :=
  flat_map (fun d => match t_super (d_ty d) with Some s => [(dname d, s)] | None => [] end) L.
Definition edges (L : list decl) : list (tname * tname) := edges_of init_ts ++ user_edges L.
Fixpoint ups (E : list (tname * tname)) (fuel : nat) (s : tname) : list tname :=
  match fuel with
  | O => [s]
  | S k => s :: flat_map (fun e => if String.eqb (fst e) s then ups E k (snd e) else []) E
  end.
Definition closedb (E : list (tname * tname)) (S : list tname) : bool :=
  forallb (fun e => negb (memb (fst e) S) || memb (snd e) S) E.
Definition settledb (E : list (tname * tname)) (a : tname) : bool :=
  forallb (fun e1 => if String.eqb (fst e1) a
                     then forallb (fun e2 => if String.eqb (fst e2) a then String.eqb (snd e1) (snd e2) else true) E
                     else true) E.
Definition chain_settledb (E : list (tname * tname)) (s : tname) : bool :=
  let S := ups E (List.length E) s in memb s S && closedb E S && forallb (settledb E) S.
Definition side_condb (L : list decl) : bool :=
  let E := edges L in
  forallb (fun e1 => forallb (fun e2 => if String.eqb (fst e1) (fst e2) then (if String.eqb (snd e1) (snd e2) then true else chain_settledb E (snd e1)) else true) E) E.

Lemma edges_of_spec i0 x s : NoDup (map t_name i0) ->
  ((exists t0, find_ty i0 x = Some t0 /\ t_super t0 = Some s) <-> In (x, s) (edges_of i0)).
Proof.
  intros Hnd. unfold edges_of. rewrite in_flat_map. split.
  - intros (t0 & Ht0 & Hs0). destruct (find_ty_In _ _ _ Ht0) as [Hin Hn]. exists t0. split; [exact Hin|]. rewrite Hs0, Hn. left. reflexivity.
  - intros (t0 & Hin & H). destruct (t_super t0) as [s0|] eqn:Es; [|destruct H]. destruct H as [H|[]]. inversion H; subst x s0.
    exists t0. split; [apply (In_find_ty _ _ Hnd Hin)|exact Es].
Qed.
Lemma user_edges_spec L x s : user_edge L x s <-> In (x, s) (user_edges L).
Proof.
  unfold user_edges. rewrite in_flat_map. split.
  - intros (d & Hd & Hn & Hs). exists d. split; [exact Hd|]. rewrite Hs, Hn. left. reflexivity.
  - intros (d & Hd & H). destruct (t_super (d_ty d)) as [s0|] eqn:Es; [|destruct H]. destruct H as [H|[]]. inversion H; subst x s0. exists d. auto.
Qed.
Lemma edges_spec L x s : declared_edge L x s <-> In (x, s) (edges L).
Proof.
  unfold edges. rewrite in_app_iff, <- user_edges_spec, <- (edges_of_spec init_ts x s (wf_nodup _ init_WFh)). reflexivity.
Qed.
Section BoolSide.
  Variables (L : list decl) (E : list (tname * tname)).
  Hypothesis HE : forall x s, declared_edge L x s -> In (x, s) E.
  Lemma closedb_sound S : closedb E S = true -> forall a d, dreach L a d -> In d S -> In a S.
  Proof.
    intros H a d Hr. induction Hr as [|d s He Hr IH]; intros Hd; [exact Hd|]. apply IH.
    unfold closedb in H. rewrite forallb_forall in H. specialize (H (d, s) (HE d s He)). cbn [fst snd] in H.
    apply memb_In in Hd. rewrite Hd in H. cbn [negb orb] in H. apply memb_In. exact H.
  Qed.
  Lemma settledb_sound a : settledb E a = true -> settled L a.
  Proof.
    intros H s1 s2 H1 H2. unfold settledb in H. rewrite forallb_forall in H.
    specialize (H _ (HE a s1 H1)). cbn [fst snd] in H. rewrite String.eqb_refl in H. rewrite forallb_forall in H. specialize (H _ (HE a s2 H2)).
    cbn [fst snd] in H. rewrite String.eqb_refl in H. apply String.eqb_eq. exact H.
  Qed.
  Lemma chain_settledb_sound s : chain_settledb E s = true -> chain_settled L s.
  Proof.
    unfold chain_settledb. cbv zeta. rewrite !andb_true_iff. intros [[Hs Hc] Hall] a Ha.
    apply settledb_sound. rewrite forallb_forall in Hall. apply Hall. apply (closedb_sound _ Hc a s Ha). apply memb_In. exact Hs.
  Qed.
  Lemma side_condb_sound_gen :
    forallb (fun e1 => forallb (fun e2 => if String.eqb (fst e1) (fst e2) then (if String.eqb (snd e1) (snd e2) then true else chain_settledb E (snd e1)) else true) E) E = true ->
    side_cond L.
  Proof.
    intros H x s1 s2 H1 H2 Hn.
    rewrite forallb_forall in H. specialize (H _ (HE x s1 H1)). rewrite forallb_forall in H. specialize (H _ (HE x s2 H2)). cbn [fst snd] in H.
    rewrite String.eqb_refl in H. apply String.eqb_neq in Hn. rewrite Hn in H.
    apply chain_settledb_sound. exact H.
  Qed.
End BoolSide.
Theorem side_condb_sound L : side_condb L = true -> side_cond L.
Proof. intros H. apply (side_condb_sound_gen L (edges L) (fun x s => proj1 (edges_spec L x s))). exact H. Qed.

Lemma merge_nil : merge [] = Ok init_ts.
Proof. vm_compute. reflexivity. Qed.
