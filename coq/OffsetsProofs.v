(* OffsetsProofs.v — proofs about the offset converter model of Offsets.v: the table lookups against the
   independent UTF-16 length, mutual inverses, monotonicity, BMP identity, pass-through, commutation of
   slicing with UTF-16 encoding, the sofa-history invariant and the document-level round trip. *)
From Coq Require Import ZifyBool.
From Cassis Require Import Base Offsets.
Open Scope Z_scope.

(* ------------------------------------------------------------------------------------------ sizes *)
Lemma u16size_pos c : 1 <= u16size c <= 2.
Proof. unfold u16size. destruct (c <? 65536)%N; lia. Qed.
Lemma utf16_len_nonneg t : 0 <= utf16_len t.
Proof. induction t as [|c r IH]; simpl; [lia|]. pose proof (u16size_pos c). lia. Qed.
Lemma utf16_len_app a b : utf16_len (a ++ b) = utf16_len a + utf16_len b.
Proof. induction a as [|c r IH]; simpl; [reflexivity|]. rewrite IH. lia. Qed.

Lemma accumulate_length a t : List.length (accumulate a t) = S (List.length t).
Proof. revert a. induction t as [|c r IH]; intros a; simpl; [reflexivity|]. rewrite IH. reflexivity. Qed.

(* the i-th accumulated size is a + utf16 length of the first i code points *)
Lemma accumulate_nth a t i : (i <= List.length t)%nat ->
  nth i (accumulate a t) 0 = a + utf16_len (firstn i t).
Proof.
  revert a i. induction t as [|c r IH]; intros a i Hi; simpl in *.
  - assert (i = 0%nat) by lia. subst. simpl. lia.
  - destruct i as [|i]; simpl; [lia|]. rewrite IH by lia. lia.
Qed.

(* strictly increasing *)
Lemma accumulate_lt a t i j : (i < j)%nat -> (j <= List.length t)%nat ->
  nth i (accumulate a t) 0 < nth j (accumulate a t) 0.
Proof.
  revert a i j. induction t as [|c r IH]; intros a i j Hij Hj; simpl in *; [lia|].
  destruct j as [|j]; [lia|]. destruct i as [|i].
  - simpl. rewrite accumulate_nth by lia. pose proof (utf16_len_nonneg (firstn j r)). pose proof (u16size_pos c). lia.
  - simpl. apply IH; lia.
Qed.

(* ------------------------------------------------------------------- dict(zip(range, accumulated)) *)
(* keys are distinct, so "last wins" is plain indexing *)
Lemma lookup_range_none (vals : list Z) s k : (k < s \/ s + Z.of_nat (List.length vals) <= k) ->
  lookup_last k (combine (zrange s (List.length vals)) vals) = None.
Proof.
  revert s. induction vals as [|v r IH]; intros s H; simpl in *; [reflexivity|].
  rewrite IH by lia. destruct (k =? s) eqn:E; [lia|reflexivity].
Qed.

Lemma lookup_range_vals (vals : list Z) s i : (i < List.length vals)%nat ->
  lookup_last (s + Z.of_nat i) (combine (zrange s (List.length vals)) vals) = Some (nth i vals 0).
Proof.
  revert s i. induction vals as [|v r IH]; intros s i Hi; simpl in *; [lia|].
  destruct i as [|i].
  - replace (s + Z.of_nat 0) with s by lia.
    rewrite lookup_range_none by lia. rewrite Z.eqb_refl. reflexivity.
  - replace (s + Z.of_nat (S i)) with ((s + 1) + Z.of_nat i) by lia.
    rewrite IH by lia. reflexivity.
Qed.

Theorem py2ext_is_utf16_prefix_len t i : 0 <= i <= Z.of_nat (List.length t) ->
  py2ext (mk_conv t) i = utf16_len (firstn (Z.to_nat i) t).
Proof.
  intros Hi. unfold py2ext, mk_conv. cbn [py2ext_tbl].
  pose proof (lookup_range_vals (accumulate 0 t) 0 (Z.to_nat i)) as H.
  assert (Hlen : (Z.to_nat i < List.length (accumulate 0 t))%nat) by (rewrite accumulate_length; lia).
  specialize (H Hlen). replace (0 + Z.of_nat (Z.to_nat i)) with i in H by lia. rewrite H.
  rewrite accumulate_nth by lia. lia.
Qed.

Theorem py2ext_out_of_range_passthrough t i : (i < 0 \/ Z.of_nat (List.length t) < i) -> py2ext (mk_conv t) i = i.
Proof.
  intros Hi. unfold py2ext, mk_conv. cbn [py2ext_tbl].
  rewrite lookup_range_none; [reflexivity|]. rewrite accumulate_length. lia.
Qed.

Theorem py2ext_strict_mono t i j : 0 <= i < j -> j <= Z.of_nat (List.length t) ->
  py2ext (mk_conv t) i < py2ext (mk_conv t) j.
Proof.
  intros Hij Hj. rewrite !py2ext_is_utf16_prefix_len by lia.
  pose proof (accumulate_lt 0 t (Z.to_nat i) (Z.to_nat j) ltac:(lia) ltac:(lia)) as H.
  rewrite !accumulate_nth in H by lia. lia.
Qed.

Lemma firstn_In_In {A} (l : list A) n x : In x (firstn n l) -> In x l.
Proof.
  revert n. induction l as [|a r IH]; intros [|n] H; simpl in *; try contradiction.
  destruct H as [H|H]; [left; exact H|right; eapply IH; exact H].
Qed.

Lemma utf16_len_bmp t : Forall (fun c => (c < 65536)%N) t -> utf16_len t = Z.of_nat (List.length t).
Proof.
  induction 1 as [|c r Hc Hr IH]; simpl; [reflexivity|]. rewrite IH. unfold u16size.
  destruct (c <? 65536)%N eqn:E; lia.
Qed.

Theorem py2ext_bmp_identity t i : Forall (fun c => (c < 65536)%N) t -> 0 <= i <= Z.of_nat (List.length t) ->
  py2ext (mk_conv t) i = i.
Proof.
  intros Hb Hi. rewrite py2ext_is_utf16_prefix_len by lia.
  rewrite utf16_len_bmp.
  - rewrite firstn_length. lia.
  - rewrite Forall_forall in *. intros c Hc. apply Hb. eapply firstn_In_In. exact Hc.
Qed.

(* ------------------------------------------------------------------- dict(zip(accumulated, range)) *)
(* keys strictly increasing, so again no key collides *)
Lemma lookup_vals_range (keys : list Z) s i :
  (forall a b, (a < b < List.length keys)%nat -> nth a keys 0 < nth b keys 0) -> (i < List.length keys)%nat ->
  lookup_last (nth i keys 0) (combine keys (zrange s (List.length keys))) = Some (s + Z.of_nat i).
Proof.
  revert s i. induction keys as [|k r IH]; intros s i Hinc Hi; simpl in *; [lia|].
  assert (Hr : forall a b, (a < b < List.length r)%nat -> nth a r 0 < nth b r 0).
  { intros a b Hab. apply (Hinc (S a) (S b)). lia. }
  destruct i as [|i].
  - assert (Hnone : forall s0, lookup_last k (combine r (zrange s0 (List.length r))) = None).
    { assert (Hgt : forall a, (a < List.length r)%nat -> k < nth a r 0) by (intros a Ha; apply (Hinc 0%nat (S a)); lia).
      clear -Hgt. induction r as [|x r IHr]; intros s0; simpl; [reflexivity|].
      rewrite IHr by (intros a Ha; apply (Hgt (S a)); simpl; lia).
      pose proof (Hgt 0%nat ltac:(simpl; lia)) as H0. simpl in H0. destruct (k =? x) eqn:E; [lia|reflexivity]. }
    rewrite Hnone. rewrite Z.eqb_refl. f_equal. lia.
  - rewrite IH by (auto; lia). f_equal. lia.
Qed.

Lemma lookup_vals_none (keys : list Z) s j : ~ In j keys -> lookup_last j (combine keys (zrange s (List.length keys))) = None.
Proof.
  revert s. induction keys as [|k r IH]; intros s Hn; simpl in *; [reflexivity|].
  rewrite IH by tauto. destruct (j =? k) eqn:E; [exfalso; apply Hn; left; lia|reflexivity].
Qed.

Theorem ext2py_py2ext t i : 0 <= i <= Z.of_nat (List.length t) -> ext2py (mk_conv t) (py2ext (mk_conv t) i) = i.
Proof.
  intros Hi. rewrite py2ext_is_utf16_prefix_len by lia.
  unfold ext2py, mk_conv. cbn [ext2py_tbl].
  pose proof (lookup_vals_range (accumulate 0 t) 0 (Z.to_nat i)) as H.
  rewrite accumulate_nth in H by lia.
  replace (0 + utf16_len (firstn (Z.to_nat i) t)) with (utf16_len (firstn (Z.to_nat i) t)) in H by lia.
  rewrite H.
  - lia.
  - intros a b Hab. rewrite accumulate_length in Hab. apply accumulate_lt; lia.
  - rewrite accumulate_length. lia.
Qed.

(* the other composition, on the image of the valid offsets *)
Theorem py2ext_ext2py t j :
  (exists i, 0 <= i <= Z.of_nat (List.length t) /\ py2ext (mk_conv t) i = j) ->
  py2ext (mk_conv t) (ext2py (mk_conv t) j) = j.
Proof. intros [i [Hi Hj]]. subst j. rewrite ext2py_py2ext by exact Hi. reflexivity. Qed.

(* an external offset that is not the image of a code-point boundary is passed through unchanged *)
Theorem ext2py_non_boundary_passthrough t j :
  (forall i, 0 <= i <= Z.of_nat (List.length t) -> py2ext (mk_conv t) i <> j) -> ext2py (mk_conv t) j = j.
Proof.
  intros Hno. unfold ext2py, mk_conv. cbn [ext2py_tbl].
  rewrite lookup_vals_none; [reflexivity|].
  intros Hin. apply (In_nth _ _ 0) in Hin. destruct Hin as [n [Hn Hj]]. rewrite accumulate_length in Hn.
  apply (Hno (Z.of_nat n)); [lia|]. rewrite py2ext_is_utf16_prefix_len by lia.
  rewrite accumulate_nth in Hj by lia. rewrite Nat2Z.id. lia.
Qed.

Lemma utf16_len_firstn_le n t : utf16_len (firstn n t) <= utf16_len t.
Proof.
  rewrite <- (firstn_skipn n t) at 2. rewrite utf16_len_app.
  pose proof (utf16_len_nonneg (skipn n t)). lia.
Qed.

Lemma py2ext_range t i : 0 <= i <= Z.of_nat (List.length t) -> 0 <= py2ext (mk_conv t) i <= utf16_len t.
Proof.
  intros Hi. rewrite py2ext_is_utf16_prefix_len by lia.
  pose proof (utf16_len_nonneg (firstn (Z.to_nat i) t)). pose proof (utf16_len_firstn_le (Z.to_nat i) t). lia.
Qed.

Lemma py2ext_full t : py2ext (mk_conv t) (Z.of_nat (List.length t)) = utf16_len t.
Proof. rewrite py2ext_is_utf16_prefix_len by lia. rewrite Nat2Z.id, firstn_all. reflexivity. Qed.

(* an external offset outside [0, UTF-16 length] is passed through unchanged *)
Theorem ext2py_out_of_range_passthrough t j : (j < 0 \/ utf16_len t < j) -> ext2py (mk_conv t) j = j.
Proof.
  intros Hj. apply ext2py_non_boundary_passthrough. intros i Hi. pose proof (py2ext_range t i Hi). lia.
Qed.

(* an external offset strictly inside a surrogate pair is passed through unchanged *)
Theorem ext2py_inside_pair_passthrough t i j : 0 <= i < Z.of_nat (List.length t) ->
  py2ext (mk_conv t) i < j < py2ext (mk_conv t) (i + 1) -> ext2py (mk_conv t) j = j.
Proof.
  intros Hi Hj. apply ext2py_non_boundary_passthrough. intros k Hk Heq.
  destruct (Z_lt_le_dec k i) as [L|L].
  - pose proof (py2ext_strict_mono t k i ltac:(lia) ltac:(lia)). lia.
  - destruct (Z.eq_dec k i) as [-> |N]; [lia|].
    destruct (Z.eq_dec k (i + 1)) as [-> |N2]; [lia|].
    pose proof (py2ext_strict_mono t (i + 1) k ltac:(lia) ltac:(lia)). lia.
Qed.

Theorem ext2py_bmp_identity t j : Forall (fun c => (c < 65536)%N) t -> ext2py (mk_conv t) j = j.
Proof.
  intros Hb. destruct (Z_le_dec 0 j) as [L|L]; [destruct (Z_le_dec j (Z.of_nat (List.length t))) as [U|U]|].
  - rewrite <- (py2ext_bmp_identity t j Hb) at 1 by lia. apply ext2py_py2ext. lia.
  - apply ext2py_non_boundary_passthrough. intros i Hi. rewrite py2ext_bmp_identity by assumption. lia.
  - apply ext2py_non_boundary_passthrough. intros i Hi. rewrite py2ext_bmp_identity by assumption. lia.
Qed.

(* injectivity on valid offsets (from strict monotonicity) *)
Theorem py2ext_injective t i j : 0 <= i <= Z.of_nat (List.length t) -> 0 <= j <= Z.of_nat (List.length t) ->
  py2ext (mk_conv t) i = py2ext (mk_conv t) j -> i = j.
Proof.
  intros Hi Hj E. destruct (Z.lt_trichotomy i j) as [L|[L|L]]; [|exact L|].
  - pose proof (py2ext_strict_mono t i j ltac:(lia) ltac:(lia)). lia.
  - pose proof (py2ext_strict_mono t j i ltac:(lia) ltac:(lia)). lia.
Qed.

(* ------------------------------------------------------------------------- the UTF-16 encoder *)
Lemma utf16_units_length c : Z.of_nat (List.length (utf16_units c)) = u16size c.
Proof. unfold utf16_units, u16size. destruct (c <? 65536)%N; reflexivity. Qed.

Lemma utf16_app a b : utf16 (a ++ b) = utf16 a ++ utf16 b.
Proof. unfold utf16. apply flat_map_app. Qed.

(* the two independent definitions of "size in UTF-16" agree *)
Theorem utf16_length t : Z.of_nat (List.length (utf16 t)) = utf16_len t.
Proof.
  induction t as [|c r IH]; [reflexivity|].
  change (utf16 (c :: r)) with (utf16_units c ++ utf16 r). rewrite app_length, Nat2Z.inj_add, IH, utf16_units_length.
  reflexivity.
Qed.

(* astral scalar values become a well-formed surrogate pair; BMP code points are one unit, themselves *)
Theorem utf16_units_astral c : (65536 <= c < 1114112)%N ->
  exists hi lo, utf16_units c = [hi; lo] /\ (55296 <= hi < 56320)%N /\ (56320 <= lo < 57344)%N /\
                (c = 65536 + (hi - 55296) * 1024 + (lo - 56320))%N.
Proof.
  intros Hc. unfold utf16_units. destruct (c <? 65536)%N eqn:E; [lia|].
  pose proof (N.div_mod' (c - 65536) 1024) as Hdm.
  pose proof (N.mod_upper_bound (c - 65536) 1024 ltac:(lia)) as Hm.
  assert (Hq : ((c - 65536) / 1024 < 1024)%N) by (apply N.div_lt_upper_bound; lia).
  remember ((c - 65536) / 1024)%N as q. remember ((c - 65536) mod 1024)%N as r.
  exists (55296 + q)%N, (56320 + r)%N. split; [reflexivity|]. lia.
Qed.

Lemma firstn_add {A} n k (l : list A) : firstn (n + k) l = firstn n l ++ firstn k (skipn n l).
Proof.
  revert l. induction n as [|n IH]; intros l; [reflexivity|].
  destruct l as [|x l]; cbn [Nat.add firstn skipn app]; [destruct k; reflexivity|]. rewrite IH. reflexivity.
Qed.

Lemma skipn_length_app {A} (p q : list A) : skipn (List.length p) (p ++ q) = q.
Proof. induction p as [|x p IH]; [reflexivity|]. exact IH. Qed.
Lemma firstn_length_app {A} (p q : list A) : firstn (List.length p) (p ++ q) = p.
Proof. induction p as [|x p IH]; [destruct q; reflexivity|]. cbn [List.length app firstn]. rewrite IH. reflexivity. Qed.

Lemma slice_mid {A} (p m s : list A) :
  firstn (List.length (p ++ m) - List.length p) (skipn (List.length p) (p ++ m ++ s)) = m.
Proof.
  rewrite skipn_length_app, app_length.
  replace (List.length p + List.length m - List.length p)%nat with (List.length m) by lia.
  apply firstn_length_app.
Qed.

Lemma utf16_len_to_nat t : Z.to_nat (utf16_len t) = List.length (utf16 t).
Proof. rewrite <- utf16_length. apply Nat2Z.id. Qed.

(* slicing the text and encoding = encoding and slicing at the converted offsets *)
Theorem covered_text_commutes t b e : 0 <= b <= e -> e <= Z.of_nat (List.length t) ->
  utf16 (zslice t b e) = zslice (utf16 t) (py2ext (mk_conv t) b) (py2ext (mk_conv t) e).
Proof.
  intros Hb He. rewrite !py2ext_is_utf16_prefix_len by lia. unfold zslice.
  rewrite !utf16_len_to_nat.
  set (nb := Z.to_nat b). set (k := (Z.to_nat e - nb)%nat).
  replace (Z.to_nat e) with (nb + k)%nat by lia.
  set (p := firstn nb t). set (m := firstn k (skipn nb t)). set (s := skipn k (skipn nb t)).
  assert (Ht : t = p ++ m ++ s).
  { unfold p, m, s. rewrite (firstn_skipn k (skipn nb t)). symmetry. apply firstn_skipn. }
  assert (Hpm : firstn (nb + k) t = p ++ m) by apply firstn_add.
  rewrite Hpm. clearbody p m s. rewrite Ht. rewrite !utf16_app.
  symmetry. apply slice_mid.
Qed.

(* ------------------------------------------------------------------------- boolean premises *)
Lemma bmpb_spec t : bmpb t = true <-> Forall (fun c => (c < 65536)%N) t.
Proof.
  unfold bmpb. rewrite forallb_forall, Forall_forall. split; intros H c Hc; specialize (H c Hc); lia.
Qed.
Lemma valid_offb_spec t i : valid_offb t i = true <-> 0 <= i <= Z.of_nat (List.length t).
Proof. unfold valid_offb. lia. Qed.

(* ------------------------------------------------------------------------- sofa histories *)
(* the invariant: whenever the sofa has a text, the converter in use was built from that very text — or the
   text is empty and no table exists (constructor), which converts exactly like the table of the empty text *)
Definition tracks (s : sofa) : Prop :=
  match s_text s with
  | None => True
  | Some t => s_tbl s = Some (mk_conv t) \/ (t = [] /\ s_tbl s = None)
  end.

Lemma tracks_new v : tracks (sofa_new v).
Proof. destruct v as [[|c r]|]; unfold tracks; cbn; auto. Qed.
Lemma tracks_set s v : tracks (sofa_set s v).
Proof. destruct v as [t|]; unfold tracks; cbn; auto. Qed.
Lemma tracks_fold sets : forall s, tracks s -> tracks (fold_left sofa_set sets s).
Proof. induction sets as [|v r IH]; intros s Hs; cbn [fold_left]; [exact Hs|]. apply IH, tracks_set. Qed.

Theorem conv_tracks_text init sets : tracks (sofa_run init sets).
Proof. unfold sofa_run. apply tracks_fold, tracks_new. Qed.

Lemma py2ext_empty i : py2ext (mk_conv []) i = i.
Proof. unfold py2ext, mk_conv. cbn. destruct (i =? 0) eqn:E; lia. Qed.
Lemma ext2py_empty j : ext2py (mk_conv []) j = j.
Proof. unfold ext2py, mk_conv. cbn. destruct (j =? 0) eqn:E; lia. Qed.

(* what the invariant means for the two conversion methods *)
Lemma tracks_behaves s t : tracks s -> s_text s = Some t ->
  forall i, p2e (s_tbl s) (Some i) = Some (py2ext (mk_conv t) i) /\ e2p (s_tbl s) (Some i) = Some (ext2py (mk_conv t) i).
Proof.
  unfold tracks. intros H Ht i. rewrite Ht in H. destruct H as [H|[-> H]]; rewrite H; cbn [p2e e2p].
  - split; reflexivity.
  - rewrite py2ext_empty, ext2py_empty. split; reflexivity.
Qed.

Theorem conv_tracks_text_behaviour init sets t : s_text (sofa_run init sets) = Some t ->
  forall i, p2e (s_tbl (sofa_run init sets)) (Some i) = Some (py2ext (mk_conv t) i) /\
            e2p (s_tbl (sofa_run init sets)) (Some i) = Some (ext2py (mk_conv t) i).
Proof. intros Ht. apply tracks_behaves; [apply conv_tracks_text|exact Ht]. Qed.

Theorem conv_tracks_nonempty_text init sets c r : s_text (sofa_run init sets) = Some (c :: r) ->
  s_tbl (sofa_run init sets) = Some (mk_conv (c :: r)).
Proof.
  intros Ht. pose proof (conv_tracks_text init sets) as H. unfold tracks in H. rewrite Ht in H.
  destruct H as [H|[H _]]; [exact H|discriminate].
Qed.

(* setting None keeps a stale table: the invariant says nothing then, and nothing more can be said *)
Example stale_table_after_none :
  let s := sofa_run None [Some [97; 128512]%N; None] in s_text s = None /\ s_tbl s = Some (mk_conv [97; 128512]%N).
Proof. cbv zeta. split; reflexivity. Qed.

(* ------------------------------------------------------------------------- documents *)
Lemma load_tracks_xmi v : tracks (load_sofa_xmi v) /\ s_text (load_sofa_xmi v) = v.
Proof. split; [apply tracks_new|destruct v as [[|c r]|]; reflexivity]. Qed.
Lemma load_tracks_json v : tracks (load_sofa_json v) /\ s_text (load_sofa_json v) = v.
Proof. split; [apply tracks_set|reflexivity]. Qed.

Lemma sofa_of_tracks ss v : Forall tracks ss -> tracks (sofa_of ss v).
Proof.
  intros H. unfold sofa_of. destruct (nth_in_or_default v ss (sofa_new None)) as [Hin| ->].
  - rewrite Forall_forall in H. apply H, Hin.
  - apply tracks_new.
Qed.

Lemma sofa_of_map (load : option text -> sofa) ss v : load None = sofa_new None ->
  sofa_of (map (fun s => load (s_text s)) ss) v = load (s_text (sofa_of ss v)).
Proof.
  intros Hd. unfold sofa_of.
  rewrite <- (map_nth (fun s => load (s_text s)) ss (sofa_new None) v).
  cbn [s_text sofa_new]. rewrite Hd. reflexivity.
Qed.

Lemma ann_okb_spec ss a : ann_okb ss a = true ->
  exists t b e, s_text (sofa_of ss (da_view a)) = Some t /\ da_b a = Some b /\ da_e a = Some e /\
                0 <= b <= e /\ e <= Z.of_nat (List.length t).
Proof.
  unfold ann_okb. destruct (s_text (sofa_of ss (da_view a))) as [t|]; [|discriminate].
  destruct (da_b a) as [b|]; [|discriminate]. destruct (da_e a) as [e|]; [|discriminate].
  intros H. exists t, b, e. repeat split; try reflexivity; lia.
Qed.

(* every annotation that is written — a member of a view or only referenced — carries the UTF-16 prefix lengths
   of its offsets in the text of its own sofa, whatever sequence of constructor/setter calls produced the sofas *)
Theorem doc_offsets_are_utf16 (hist : list (option text * list (option text))) a :
  let ss := map (fun h => sofa_run (fst h) (snd h)) hist in
  ann_okb ss a = true ->
  exists t b e, s_text (sofa_of ss (da_view a)) = Some t /\ da_b a = Some b /\ da_e a = Some e /\
    write_ann ss a = mkDann (da_view a) (Some (utf16_len (firstn (Z.to_nat b) t)))
                                        (Some (utf16_len (firstn (Z.to_nat e) t))).
Proof.
  intros ss Hok. destruct (ann_okb_spec ss a Hok) as [t [b [e [Ht [Hb [He [H1 H2]]]]]]].
  exists t, b, e. repeat split; try assumption.
  assert (Htr : tracks (sofa_of ss (da_view a))).
  { apply sofa_of_tracks. unfold ss. rewrite Forall_forall. intros s Hs. apply in_map_iff in Hs.
    destruct Hs as [h [<- _]]. apply conv_tracks_text. }
  unfold write_ann. rewrite Hb, He.
  rewrite (proj1 (tracks_behaves _ t Htr Ht b)), (proj1 (tracks_behaves _ t Htr Ht e)).
  rewrite !py2ext_is_utf16_prefix_len by lia. reflexivity.
Qed.

(* writing and loading again (either reader) gives back the code-point offsets and the same covered text *)
Theorem doc_roundtrip (load : option text -> sofa) (ss : list sofa) a :
  (forall v, tracks (load v) /\ s_text (load v) = v) -> load None = sofa_new None ->
  Forall tracks ss -> ann_okb ss a = true ->
  let ss' := map (fun s => load (s_text s)) ss in
  read_ann ss' (write_ann ss a) = a /\ covered_text ss' (read_ann ss' (write_ann ss a)) = covered_text ss a.
Proof.
  intros Hload Hd Hss Hok ss'.
  destruct (ann_okb_spec ss a Hok) as [t [b [e [Ht [Hb [He [H1 H2]]]]]]].
  assert (Htr : tracks (sofa_of ss (da_view a))) by (apply sofa_of_tracks; exact Hss).
  assert (Hrt : read_ann ss' (write_ann ss a) = a).
  { unfold read_ann, write_ann. cbn [da_view da_b da_e]. unfold ss'. rewrite sofa_of_map by exact Hd.
    destruct (Hload (s_text (sofa_of ss (da_view a)))) as [Htr' Ht']. rewrite Ht in Htr', Ht'. rewrite Ht.
    rewrite Hb, He.
    rewrite (proj1 (tracks_behaves _ t Htr Ht b)), (proj1 (tracks_behaves _ t Htr Ht e)).
    rewrite (proj2 (tracks_behaves _ t Htr' Ht' _)), (proj2 (tracks_behaves _ t Htr' Ht' _)).
    rewrite !ext2py_py2ext by lia. destruct a; cbn in *; subst; reflexivity. }
  split; [exact Hrt|]. rewrite Hrt. unfold covered_text, ss'. rewrite sofa_of_map by exact Hd.
  rewrite (proj2 (Hload _)). reflexivity.
Qed.

Theorem doc_roundtrip_xmi ss a : Forall tracks ss -> ann_okb ss a = true ->
  let ss' := map (fun s => load_sofa_xmi (s_text s)) ss in
  read_ann ss' (write_ann ss a) = a /\ covered_text ss' (read_ann ss' (write_ann ss a)) = covered_text ss a.
Proof. intros. apply doc_roundtrip; auto using load_tracks_xmi. Qed.

Theorem doc_roundtrip_json ss a : Forall tracks ss -> ann_okb ss a = true ->
  let ss' := map (fun s => load_sofa_json (s_text s)) ss in
  read_ann ss' (write_ann ss a) = a /\ covered_text ss' (read_ann ss' (write_ann ss a)) = covered_text ss a.
Proof. intros. apply doc_roundtrip; auto using load_tracks_json. Qed.

(* ------------------------------------------------------------------------- combined statements *)
Theorem bmp_identity t : bmpb t = true ->
  (forall i, valid_offb t i = true -> py2ext (mk_conv t) i = i) /\ (forall j, ext2py (mk_conv t) j = j).
Proof.
  intros Hb. apply bmpb_spec in Hb. split.
  - intros i Hi. apply valid_offb_spec in Hi. apply py2ext_bmp_identity; assumption.
  - intros j. apply ext2py_bmp_identity; assumption.
Qed.

Theorem out_of_range_passthrough t :
  (forall i, valid_offb t i = false -> py2ext (mk_conv t) i = i) /\
  (forall j, j < 0 \/ utf16_len t < j -> ext2py (mk_conv t) j = j).
Proof.
  split.
  - intros i Hi. apply py2ext_out_of_range_passthrough. unfold valid_offb in Hi. lia.
  - apply ext2py_out_of_range_passthrough.
Qed.

Theorem conv_tracks_text_full init sets :
  match s_text (sofa_run init sets) with
  | None => True
  | Some t =>
      (s_tbl (sofa_run init sets) = Some (mk_conv t) \/ (t = [] /\ s_tbl (sofa_run init sets) = None)) /\
      forall i, p2e (s_tbl (sofa_run init sets)) (Some i) = Some (py2ext (mk_conv t) i) /\
                e2p (s_tbl (sofa_run init sets)) (Some i) = Some (ext2py (mk_conv t) i)
  end.
Proof.
  pose proof (conv_tracks_text init sets) as H. unfold tracks in H.
  destruct (s_text (sofa_run init sets)) as [t|] eqn:E; [|exact I].
  split; [exact H|]. apply conv_tracks_text_behaviour. exact E.
Qed.

Lemma sofa_run_all_track (hist : list (option text * list (option text))) :
  Forall tracks (map (fun h => sofa_run (fst h) (snd h)) hist).
Proof. rewrite Forall_forall. intros s Hs. apply in_map_iff in Hs. destruct Hs as [h [<- _]]. apply conv_tracks_text. Qed.

Theorem doc_roundtrip_hist (hist : list (option text * list (option text))) a :
  let ss := map (fun h => sofa_run (fst h) (snd h)) hist in
  ann_okb ss a = true ->
  (let ss' := map (fun s => load_sofa_xmi (s_text s)) ss in
   read_ann ss' (write_ann ss a) = a /\ covered_text ss' (read_ann ss' (write_ann ss a)) = covered_text ss a) /\
  (let ss' := map (fun s => load_sofa_json (s_text s)) ss in
   read_ann ss' (write_ann ss a) = a /\ covered_text ss' (read_ann ss' (write_ann ss a)) = covered_text ss a).
Proof.
  intros ss Hok. split; [apply doc_roundtrip_xmi|apply doc_roundtrip_json]; try exact Hok; apply sofa_run_all_track.
Qed.

(* ------------------------------------------------------------------------- annotations that change their view *)
(* after any sequence of add / remove / sofa and offset assignments the annotation's own sofa is that of the view it was
   added to (or assigned to) last, and its offsets are the ones assigned last *)
Lemma ann_run_last a ops :
  ann_run a ops = mkDann (last_view ops (da_view a)) (fst (last_off ops (da_b a, da_e a)))
                         (snd (last_off ops (da_b a, da_e a))).
Proof.
  unfold ann_run. revert a. induction ops as [|o r IH]; intros a.
  - destruct a; reflexivity.
  - cbn [fold_left]. rewrite IH. destruct o; reflexivity.
Qed.

(* hence such an annotation is written with the UTF-16 offsets in the text of the view it belongs to NOW, not of a view
   it was a member of earlier *)
Theorem moved_offsets_are_utf16 (hist : list (option text * list (option text))) a ops :
  let ss := map (fun h => sofa_run (fst h) (snd h)) hist in
  let v := last_view ops (da_view a) in
  ann_okb ss (ann_run a ops) = true ->
  exists t b e, s_text (sofa_of ss v) = Some t /\ last_off ops (da_b a, da_e a) = (Some b, Some e) /\
    0 <= b <= e /\ e <= Z.of_nat (List.length t) /\
    write_ann ss (ann_run a ops) = mkDann v (Some (utf16_len (firstn (Z.to_nat b) t)))
                                            (Some (utf16_len (firstn (Z.to_nat e) t))).
Proof.
  intros ss v Hok.
  destruct (ann_okb_spec ss _ Hok) as [t0 [b0 [e0 [Ht0 [Hb0 [He0 [H1 H2]]]]]]].
  destruct (doc_offsets_are_utf16 hist (ann_run a ops) Hok) as [t [b [e [Ht [Hb [He Hw]]]]]].
  fold ss in Ht, Hw. rewrite Ht in Ht0. rewrite Hb in Hb0. rewrite He in He0.
  injection Ht0 as <-. injection Hb0 as <-. injection He0 as <-.
  rewrite ann_run_last in Ht, Hb, He. cbn [da_view da_b da_e] in Ht, Hb, He.
  exists t, b, e. split; [exact Ht|]. split.
  { destruct (last_off ops (da_b a, da_e a)) as [x y]. cbn [fst snd] in Hb, He. subst. reflexivity. }
  split; [lia|]. split; [lia|].
  rewrite Hw. rewrite ann_run_last. reflexivity.
Qed.
