(* Determinism.v — model for C14 (serialisation is deterministic and does not disturb the CAS).  Definitions only.

   What is modelled (the code as it is, at the level of the ORDER in which items are emitted):
   * every place where the serialisers iterate over something whose order is not fixed by the program text
     (a `set` of Type objects / type names whose iteration order depends on PYTHONHASHSEED, the worklist result of
     `Cas._find_all_fs` and the per-view index whose order among ties depends on id()) is an INPUT LIST in arbitrary
     order; the code's `sorted(..., key=...)` is `sort_by key` (a stable insertion sort: Python's sort is stable);
       cassis/xmi.py  CasXmiSerializer.serialize     sorted(list(cas._find_all_fs()) + sofa byte arrays, key=xmiID);
                      _serialize_view                sofas and views in dict order; members sorted(..., key=int);
                      _serialize_feature_structure   namespace map filled in the order the sorted structures are written
       cassis/json.py CasJsonSerializer.serialize    sofa structures in view order, then sorted(_find_all_fs(incl.
                                                      inlinable), key=xmiID); sorted(types_to_include, key=name) minus
                                                      DocumentAnnotation; views with sorted members
       cassis/typesystem.py TypeSystemSerializer     sorted(redeclared_type_names), then sorted(get_types(), key=name)
                                                      minus DocumentAnnotation
   * id assignment during a save (`_find_all_fs`: `if fs.xmiID is None: fs.xmiID = self._get_next_xmi_id()`):
     the store is a list of (label, option id) plus the generator's next id; a format is the list of labels its
     traversal visits, in visiting order (XMI / typecheck: without inlinable collections; JSON: with them); the byte
     arrays holding sofa data are given ids and written outside the traversal (xmi_trav, save_pre).
   Not modelled: bytes (escaping, pretty printing, prefixes), sinks, processes — those are observed by the harness. *)
From Cassis Require Import Base.
From Coq Require Import Ascii.
Open Scope Z_scope.

(* ------------------------------------------------------------------------------------------------ sorting *)

Section SortBy.
  Context {A K : Type}.
  Variable key : A -> K.
  Variable kleb : K -> K -> bool.
  (* x goes before the first element whose key is not smaller: with fold_right this is a stable sort *)
  Fixpoint insert_by (x : A) (l : list A) : list A :=
    match l with
    | [] => [x]
    | y :: r => if kleb (key x) (key y) then x :: y :: r else y :: insert_by x r
    end.
  Definition sort_by (l : list A) : list A := fold_right insert_by [] l.
End SortBy.

(* byte-wise lexicographic order on strings (= code point order on UTF-8, = Python's str order); a proper prefix first *)
Fixpoint sleb (a b : string) : bool :=
  match a, b with
  | EmptyString, _ => true
  | String _ _, EmptyString => false
  | String c a', String d b' =>
      if (N_of_ascii c <? N_of_ascii d)%N then true
      else if (N_of_ascii c =? N_of_ascii d)%N then sleb a' b' else false
  end.

Definition sort_z {A} (key : A -> Z) : list A -> list A := sort_by key Z.leb.
Definition sort_s {A} (key : A -> string) : list A -> list A := sort_by key sleb.

(* ------------------------------------------------------------------------------------------------ emitted items *)

Record fsitem := mkFi { fi_id : Z; fi_lab : N; fi_type : string }.
(* so_arr: id of the byte array holding the sofa data (Sofa.sofaArray), if the sofa has one *)
Record sofaitem := mkSo { so_id : Z; so_num : Z; so_name : string; so_arr : option Z }.
Record viewitem := mkVi { vi_sofa : Z; vi_members : list Z }.      (* members in index iteration order *)
Record tyitem := mkTy { ty_name : string; ty_super : string }.

Definition DOCANN : string := "uima.tcas.DocumentAnnotation".
Definition SOFA : string := "uima.cas.Sofa".
Definition BYTEARRAY : string := "uima.cas.ByteArray".

(* the package of a type name: what CasXmiSerializer turns into the namespace URL ("uima.noNamespace" if there is no dot) *)
Fixpoint has_dot (s : string) : bool :=
  match s with EmptyString => false | String c r => Ascii.eqb c "."%char || has_dot r end.
Fixpoint before_last_dot (s : string) : string :=
  match s with
  | EmptyString => EmptyString
  | String c r => if has_dot r then String c (before_last_dot r) else EmptyString
  end.
Definition pkg_of (t : string) : string := if has_dot t then before_last_dot t else "uima.noNamespace".

(* `if url not in self._urls_to_prefixes: ... self._urls_to_prefixes[url] = new_prefix`: first occurrence order *)
Fixpoint first_seen (seen : list string) (l : list string) : list string :=
  match l with
  | [] => []
  | u :: r => if memb u seen then first_seen seen r else u :: first_seen (u :: seen) r
  end.

Definition sort_members (v : viewitem) : viewitem := mkVi (vi_sofa v) (sort_z (fun m => m) (vi_members v)).

(* XMI: structures by id; namespaces in the order the sorted structures introduce them; sofas; views *)
Record xmidoc := mkXd { xd_fs : list fsitem; xd_ns : list string; xd_sofas : list sofaitem; xd_views : list viewitem }.
Definition xmi_emit (found : list fsitem) (sofas : list sofaitem) (views : list viewitem) : xmidoc :=
  let fs := sort_z fi_id found in
  mkXd fs (first_seen [] (map (fun i => pkg_of (fi_type i)) fs)) sofas (map sort_members views).

(* JSON: types by name (a set in arbitrary order comes in), sofa structures first (per view: the byte array holding the
   sofa data if there is one and no earlier sofa had it, then the sofa; json.py `for view in cas.views` with the set
   `written_sofa_arrays`) then the structures by id except those arrays (`if id(fs) in written_sofa_arrays: continue`), views *)
Definition json_types_emit (types : list tyitem) : list tyitem :=
  filter (fun t => negb (String.eqb (ty_name t) DOCANN)) (sort_s ty_name types).
Definition zmemb (x : Z) (l : list Z) : bool := existsb (Z.eqb x) l.
Fixpoint sofas_fs (written : list Z) (sofas : list sofaitem) : list fsitem :=
  match sofas with
  | [] => []
  | s :: r =>
      match so_arr s with
      | Some a => if zmemb a written then mkFi (so_id s) 0%N SOFA :: sofas_fs written r
                  else mkFi a 0%N BYTEARRAY :: mkFi (so_id s) 0%N SOFA :: sofas_fs (a :: written) r
      | None => mkFi (so_id s) 0%N SOFA :: sofas_fs written r
      end
  end.
Definition sofa_arrays (sofas : list sofaitem) : list Z :=
  flat_map (fun s => match so_arr s with Some a => [a] | None => [] end) sofas.
Definition json_fs_emit (found : list fsitem) (sofas : list sofaitem) : list fsitem :=
  sofas_fs [] sofas ++ sort_z fi_id (filter (fun i => negb (zmemb (fi_id i) (sofa_arrays sofas))) found).
Record jsondoc := mkJd { jd_types : option (list tyitem); jd_fs : list fsitem; jd_views : list (string * viewitem) }.
Definition json_emit (types : option (list tyitem)) (found : list fsitem) (sofas : list sofaitem)
                     (views : list (string * viewitem)) : jsondoc :=
  mkJd (option_map json_types_emit types) (json_fs_emit found sofas)
       (map (fun nv => (fst nv, sort_members (snd nv))) views).

(* type system XML: redeclared predefined names (a set) sorted, then the types by name *)
Definition tsxml_emit (redeclared : list string) (types : list tyitem) : list string * list tyitem :=
  (sort_s (fun n => n) redeclared, json_types_emit types).

(* ------------------------------------------------------------------------------------------------ save *)

Record entry := mkE { e_lab : N; e_id : option Z }.
Record state := mkSt { st_entries : list entry; st_next : Z }.

(* first entry with the label: None = no such structure, Some None = it has no id yet *)
Fixpoint id_of (l : N) (es : list entry) : option (option Z) :=
  match es with
  | [] => None
  | e :: r => if N.eqb (e_lab e) l then Some (e_id e) else id_of l r
  end.

(* `if fs.xmiID is None: fs.xmiID = self._get_next_xmi_id()` on the structure with label l *)
Fixpoint assign_in (l : N) (nx : Z) (es : list entry) : list entry * bool :=
  match es with
  | [] => ([], false)
  | e :: r =>
      if N.eqb (e_lab e) l then
        match e_id e with
        | None => (mkE (e_lab e) (Some nx) :: r, true)
        | Some _ => (e :: r, false)
        end
      else let (r', b) := assign_in l nx r in (e :: r', b)
  end.
Definition visit (s : state) (l : N) : state :=
  let (es, b) := assign_in l (st_next s) (st_entries s) in
  mkSt es (if b then st_next s + 1 else st_next s).
Definition traverse (trav : list N) (s : state) : state := fold_left visit trav s.

(* the document at the level of "which structure under which id, in which order": visited structures sorted by id *)
Definition listed (trav : list N) (s : state) : list (N * Z) :=
  flat_map (fun l => match id_of l (st_entries s) with Some (Some i) => [(l, i)] | _ => [] end) trav.
Definition doc_of (trav : list N) (s : state) : list (N * Z) := sort_z snd (listed trav s).
Definition save (trav : list N) (s : state) : state * list (N * Z) :=
  let s' := traverse trav s in (s', doc_of trav s').

(* byte arrays holding sofa data (Sofa.sofaArray).  `ta` = their labels in the order of Cas.sofas / Cas.views (a label
   twice when two sofas share one array).
   XMI (xmi.py CasXmiSerializer.serialize): after `list(cas._find_all_fs())`, for every sofa
       `if sofa.sofaArray is not None and not any(fs is sofa.sofaArray for fs in feature_structures):` the array gets an
       id if it has none and is appended — every time, whether or not it already has an id; the whole list is then sorted.
   JSON (json.py CasJsonSerializer.serialize): in the loop over the views, BEFORE the traversal, an array no earlier sofa
       had (`id(...) not in written_sofa_arrays`) gets an id if it has none and is written in front of its sofa — not
       sorted; the traversal's structures follow sorted by id, those arrays left out (`if id(fs) in written_sofa_arrays:
       continue`): every array is written exactly once, in front of the first sofa that refers to it.
   typecheck does not look at them. *)
Definition add_array (acc : list N) (a : N) : list N := if existsb (N.eqb a) acc then acc else acc ++ [a].
Definition xmi_trav (ta tx : list N) : list N := fold_left add_array ta tx.
Definition uniq (ta : list N) : list N := xmi_trav ta [].            (* each array once, in first-occurrence order *)
Definition without (ta trav : list N) : list N := filter (fun l => negb (existsb (N.eqb l) ta)) trav.
Definition doc_of_pre (pre trav : list N) (s : state) : list (N * Z) := listed (uniq pre) s ++ doc_of (without pre trav) s.
Definition save_pre (pre trav : list N) (s : state) : state * list (N * Z) :=
  let s' := traverse (uniq pre ++ trav) s in (s', doc_of_pre pre trav s').
(* how often a structure is listed in a document *)
Definition count_lab (a : N) (d : list (N * Z)) : nat := List.length (filter (fun p => N.eqb (fst p) a) d).

(* ids present in the store, in store order *)
Definition present (es : list entry) : list Z :=
  flat_map (fun e => match e_id e with Some i => [i] | None => [] end) es.
(* every label the traversal visits has its id already (or is not in the store) *)
Definition settledb (trav : list N) (s : state) : bool :=
  forallb (fun l => match id_of l (st_entries s) with Some None => false | _ => true end) trav.
Definition settled (trav : list N) (s : state) : Prop :=
  forall l, In l trav -> id_of l (st_entries s) <> Some None.
Definition below_nextb (s : state) : bool := forallb (fun i => i <? st_next s) (present (st_entries s)).
Fixpoint znodupb (l : list Z) : bool :=
  match l with [] => true | x :: r => negb (existsb (Z.eqb x) r) && znodupb r end.
Fixpoint nnodupb (l : list N) : bool :=
  match l with [] => true | x :: r => negb (existsb (N.eqb x) r) && nnodupb r end.
(* well-formed store: ids pairwise distinct and all below the generator's next id *)
Definition wf_stateb (s : state) : bool := znodupb (present (st_entries s)) && below_nextb s.

(* queries return the indexed structures; observed as the sorted ids of a list of labels *)
Definition query (s : state) (labs : list N) : list Z :=
  zsort (flat_map (fun l => match id_of l (st_entries s) with Some (Some i) => [i] | _ => [] end) labs).

(* operations of the in-process histories; ta = sofa data arrays, tx = what _find_all_fs() visits, tj = what
   _find_all_fs(include_inlinable_arrays_and_lists=True) visits *)
Inductive op := OXmi | OJson | OTsXml | OSelect | OSelectAll | OTypecheck.
Definition step (ta tx tj : list N) (o : op) (s : state) : state * option (list (N * Z)) :=
  match o with
  | OXmi => let (s', d) := save (xmi_trav ta tx) s in (s', Some d)
  | OJson => let (s', d) := save_pre ta tj s in (s', Some d)
  | OTypecheck => (traverse tx s, None)            (* Cas.typecheck iterates _find_all_fs() *)
  | OTsXml | OSelect | OSelectAll => (s, None)
  end.
Fixpoint run (ta tx tj : list N) (ops : list op) (s : state) : list (state * option (list (N * Z))) :=
  match ops with
  | [] => []
  | o :: r => let (s', d) := step ta tx tj o s in (s', d) :: run ta tx tj r s'
  end.

(* the documents of one kind (k = OXmi or OJson) produced along a history *)
Definition op_eqb (a b : op) : bool :=
  match a, b with
  | OXmi, OXmi | OJson, OJson | OTsXml, OTsXml | OSelect, OSelect | OSelectAll, OSelectAll | OTypecheck, OTypecheck => true
  | _, _ => false
  end.
Fixpoint docs_of (k : op) (ta tx tj : list N) (ops : list op) (s : state) : list (list (N * Z)) :=
  match ops with
  | [] => []
  | o :: r =>
      let (s', d) := step ta tx tj o s in
      (match d with Some d => if op_eqb o k then [d] else [] | None => [] end) ++ docs_of k ta tx tj r s'
  end.
Fixpoint states_of (ta tx tj : list N) (ops : list op) (s : state) : list state :=
  match ops with
  | [] => []
  | o :: r => let s' := fst (step ta tx tj o s) in s' :: states_of ta tx tj r s'
  end.

(* ------------------------------------------------------------------------------------------------ handles *)

(* A CAS is used through Cas objects ("handles": the object it was created as, the objects create_view / get_view return).
   They share the store and differ only in the view they point at (`_current_view`).  Every operation of a history is called
   through one of them.  cas.py: `views` is `[self.get_view(name) for name in self._views]`, `_find_all_fs` does
   `view = self.get_view(sofa.sofaID)`, and get_view works on `copy(self)`: no operation of a history assigns to the
   `_current_view` of the handle it is called through (or of any other).  So an operation through handle h changes the
   store as `step` says and leaves hs_cur alone; which handle it was does not enter.
   hs_cur: per handle the index of the view it points at. *)
Record hstate := mkHs { hs_cur : list N; hs_store : state }.
Definition hstep (ta tx tj : list N) (ho : N * op) (hs : hstate) : hstate * option (list (N * Z)) :=
  let (s', d) := step ta tx tj (snd ho) (hs_store hs) in (mkHs (hs_cur hs) s', d).
Fixpoint hrun (ta tx tj : list N) (hops : list (N * op)) (hs : hstate) : list (hstate * option (list (N * Z))) :=
  match hops with
  | [] => []
  | ho :: r => let (hs', d) := hstep ta tx tj ho hs in (hs', d) :: hrun ta tx tj r hs'
  end.
(* select_all() / select(T) through handle h: the members (of the queried subtree) of the view h points at;
   per_view = those label lists, one per view *)
Definition view_of (hs : hstate) (h : N) : N := nth (N.to_nat h) (hs_cur hs) 0%N.
Definition hquery (per_view : list (list N)) (hs : hstate) (h : N) : list Z :=
  query (hs_store hs) (nth (N.to_nat (view_of hs h)) per_view []).
