(* Canon.v — canonical, id-keyed content of a CAS: what "the same CAS" means in C01/C02/C04/C05/C16/C17.
   References are kept as xmi:ids, collections that a format inlines are kept by content. Definitions only. *)
From Cassis Require Import Base Heap.

Inductive cval :=
 | CNull | CInt (z : Z) | CFlt (x : flt) | CBool (b : bool) | CStr (s : string)
 | CRef (i : xid)
 | CColl (kind : tname) (l : list cval).      (* an inlined array / list, by content; kind = range type name *)
Record cfs := mkCfs { cf_type : tname; cf_feats : list (fname * cval) }.   (* features by document name, sorted by name *)
Record csofa := mkCsofa { cs_id : xid; cs_num : Z; cs_name : string; cs_text : option text; cs_mime : option string;
                          cs_uri : option string; cs_arr : option xid; cs_members : list xid }.   (* members sorted *)
Record ccas := mkCcas { cc_sofas : list csofa; cc_fs : list (xid * cfs) }.                       (* both sorted by id *)

Fixpoint cval_eqb (a b : cval) : bool :=
  match a, b with
  | CNull, CNull => true
  | CInt x, CInt y => Z.eqb x y
  | CFlt x, CFlt y => String.eqb x y
  | CBool x, CBool y => Bool.eqb x y
  | CStr x, CStr y => String.eqb x y
  | CRef x, CRef y => Z.eqb x y
  | CColl k x, CColl k' y =>
      String.eqb k k' &&
      (fix go (x y : list cval) : bool :=
         match x, y with [], [] => true | p :: x', q :: y' => cval_eqb p q && go x' y' | _, _ => false end) x y
  | _, _ => false
  end.
Definition feats_eqb (a b : list (fname * cval)) : bool :=
  list_eqb (fun p q => String.eqb (fst p) (fst q) && cval_eqb (snd p) (snd q)) a b.
Definition cfs_eqb (a b : cfs) : bool := String.eqb (cf_type a) (cf_type b) && feats_eqb (cf_feats a) (cf_feats b).
Definition csofa_eqb (a b : csofa) : bool :=
  Z.eqb (cs_id a) (cs_id b) && Z.eqb (cs_num a) (cs_num b) && String.eqb (cs_name a) (cs_name b)
  && opt_eqb (list_eqb N.eqb) (cs_text a) (cs_text b) && opt_eqb String.eqb (cs_mime a) (cs_mime b)
  && opt_eqb String.eqb (cs_uri a) (cs_uri b) && opt_eqb Z.eqb (cs_arr a) (cs_arr b)
  && list_eqb Z.eqb (cs_members a) (cs_members b).
Definition ccas_eqb (a b : ccas) : bool :=
  list_eqb csofa_eqb (cc_sofas a) (cc_sofas b)
  && list_eqb (fun p q => Z.eqb (fst p) (fst q) && cfs_eqb (snd p) (snd q)) (cc_fs a) (cc_fs b).

(* generic insertion sort by a Z key (ids) and by a string key (feature names) for canonical forms *)
Fixpoint insert_by {A} (key : A -> Z) (x : A) (l : list A) : list A :=
  match l with [] => [x] | y :: r => if (key x <=? key y)%Z then x :: y :: r else y :: insert_by key x r end.
Definition sort_by {A} (key : A -> Z) (l : list A) : list A := fold_right (insert_by key) [] l.
