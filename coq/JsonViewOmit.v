(* JsonViewOmit.v — C05, JSON half, the clause "omission of empty views": a JSON-CAS document may leave out the %VIEWS
   entry of a view that has no members; what such a view is (id, sofaNum, name, data) is said by its Sofa entry.
     restore_views d    the document with an entry  name : { %SOFA : id, %MEMBERS : [] }  appended to %VIEWS for every
                        Sofa entry whose name %VIEWS does not list -- the presentation that leaves nothing out
   doc_ok_json (the premise of the C05_json_* theorems) asks for a %VIEWS entry per sofa; the statements of
   JsonViewOmitProofs.v carry it over to the documents d with doc_ok_json (restore_views d).
   Definitions only; proofs in JsonViewOmitProofs.v. *)
From Cassis Require Import Base Heap Schema Canon Reach JsonDoc Json.
Open Scope Z_scope.

(* the document with another %VIEWS member (JsonProofs2.set_member K_VIEWS (JObj vs)) *)
Definition set_views (vs : list (string * json)) (d : json) : json :=
  match d with
  | JObj l => JObj (map (fun kv => if String.eqb (fst kv) K_VIEWS then (K_VIEWS, JObj vs) else kv) l)
  | _ => d
  end.

Definition sofa_name (e : entry) : option string :=
  match alookup "sofaID" (snd e) with Some (JStr n) => Some n | _ => None end.
Definition empty_view (name : string) (sid : xid) : string * json :=
  (name, JObj [(K_SOFA, JInt sid); (K_MEMBERS, JArr [])]).
(* the views the document leaves out: one per Sofa entry whose name has no %VIEWS entry *)
Definition missing_views (es : list entry) (vs : list (string * json)) : list (string * json) :=
  flat_map (fun e => if is_sofa_entry e then
                       match sofa_name e with
                       | Some n => match alookup n vs with Some _ => [] | None => [empty_view n (fst e)] end
                       | None => [] end
                     else []) es.
Definition restore_views (d : json) : json :=
  match fs_entries d, doc_views d with
  | Ok es, Ok vs => set_views (vs ++ missing_views es vs) d
  | _, _ => d
  end.

(* the converse direction, as a writer would do it: leave out the entries of member-less views of listed sofas which
   `keep` does not retain *)
Definition omittable (es : list entry) (kv : string * json) : bool :=
  match jget K_MEMBERS (snd kv) with
  | Some (JArr []) => existsb (fun e => is_sofa_entry e && match sofa_name e with Some n => String.eqb n (fst kv) | None => false end) es
  | _ => false
  end.
Definition omit_views (keep : string -> bool) (d : json) : json :=
  match fs_entries d, doc_views d with
  | Ok es, Ok vs => set_views (filter (fun kv => keep (fst kv) || negb (omittable es kv)) vs) d
  | _, _ => d
  end.
