(* CorrC08.v — correspondence harness for C08.  A case carries the constructor arguments, the feature
   structures the scenario created, and a history of operations; for the initial state and after every
   operation it carries what the implementation showed THROUGH EVERY LIVE HANDLE, as a delta against the
   previous observation (the harness has already checked that all handles of one view agree): handles that
   appeared (view name, leniency as probed), views whose observation changed (sofa id/num/text/mime/uri/array,
   select_all as sorted labels), the view-name and sofa-name lists when they changed, and structures whose
   (xmiID, sofa, language) changed.  check_case runs Views.step, keeps the expected full observation by applying
   the deltas, and compares the model's full observation with it after every step.  A step is an operation or a
   type declaration (Views.ev): the type-system facts are threaded through the history by Views.step_ev. *)
From Cassis Require Import Base Views.
From Coq Require Import Ascii.
Open Scope Z_scope.

Definition T (s : string) : text := map N_of_ascii (list_ascii_of_string s).

Record vobs := mkVobs {
  vo_xid : Z; vo_num : Z; vo_text : option text; vo_mime : option string; vo_uri : option string;
  vo_arr : option oid; vo_sel : list Z }.
Record oobs := mkOobs { oo_xid : option Z; oo_sofa : option string; oo_lang : option string }.
Record delta := mkDelta {
  d_handles : list (string * bool);
  d_views : list (string * vobs);
  d_names : option (list string * list string);
  d_objs : list (oid * oobs) }.
Record case := mkCase {
  c_ts : tsinfo; c_ctor : ctor; c_heap : list (oid * fsobj);
  c_init : delta; c_steps : list (ev * obs * delta) }.

(* ---------------------------------------------------------------- equality *)
Definition opt_eqb {A} (eqb : A -> A -> bool) (a b : option A) : bool :=
  match a, b with Some x, Some y => eqb x y | None, None => true | _, _ => false end.
Definition text_eqb : text -> text -> bool := list_eqb N.eqb.
Definition pair_eqb {A B} (ea : A -> A -> bool) (eb : B -> B -> bool) (a b : A * B) : bool :=
  ea (fst a) (fst b) && eb (snd a) (snd b).
Definition vobs_eqb (a b : vobs) : bool :=
  (vo_xid a =? vo_xid b) && (vo_num a =? vo_num b) && opt_eqb text_eqb (vo_text a) (vo_text b) &&
  opt_eqb String.eqb (vo_mime a) (vo_mime b) && opt_eqb String.eqb (vo_uri a) (vo_uri b) &&
  opt_eqb N.eqb (vo_arr a) (vo_arr b) && list_eqb Z.eqb (vo_sel a) (vo_sel b).
Definition oobs_eqb (a b : oobs) : bool :=
  opt_eqb Z.eqb (oo_xid a) (oo_xid b) && opt_eqb String.eqb (oo_sofa a) (oo_sofa b) &&
  opt_eqb String.eqb (oo_lang a) (oo_lang b).
Definition labels (l : list oid) : list Z := zsort (map Z.of_N l).
Definition obs_eqb (a b : obs) : bool :=
  match a, b with
  | ObUnit, ObUnit | ObNoSofa, ObNoSofa | ObNotImpl, ObNotImpl => true
  | ObHandle n, ObHandle m => Nat.eqb n m
  | ObErr e, ObErr f => err_eqb e f
  | ObText t, ObText u => opt_eqb text_eqb t u
  | ObStr t, ObStr u => opt_eqb String.eqb t u
  | ObArr t, ObArr u => opt_eqb N.eqb t u
  | ObSel l, ObSel m => list_eqb Z.eqb (labels l) (labels m)
  | _, _ => false
  end.

(* ---------------------------------------------------------------- the model's full observation *)
Record full := mkFull {
  fu_handles : list (string * bool); fu_views : list (string * vobs);
  fu_names : list string * list string; fu_objs : list (oid * oobs) }.

Definition sofa_vobs (x : sofa) (idx : list oid) : vobs :=
  mkVobs (s_xid x) (s_num x) (s_text x) (s_mime x) (s_uri x) (s_arr x) (labels idx).
Definition dummy_vobs : vobs := mkVobs (-1) (-1) None None None None [].
Definition observe (s : state) : full :=
  mkFull (map (fun h => (h_view h, h_lenient h)) (hs s))
         (map (fun nv => (fst nv, match nth_error (st_sheap (st s)) (v_sofa (snd nv)) with
                                  | Some x => sofa_vobs x (v_index (snd nv)) | None => dummy_vobs end))
              (st_views (st s)))
         (akeys (st_views (st s)), akeys (st_sofas (st s)))
         (map (fun ofs => (fst ofs,
                 mkOobs (f_xid (snd ofs))
                        (match f_sofa (snd ofs) with
                         | Some a => match nth_error (st_sheap (st s)) a with Some x => Some (s_name x) | None => Some "?"%string end
                         | None => None end)
                        (f_lang (snd ofs))))
              (st_heap (st s))).

Fixpoint oset {V} (k : oid) (v : V) (l : list (oid * V)) : list (oid * V) :=
  match l with
  | [] => [(k, v)]
  | (k', v') :: r => if N.eqb k k' then (k', v) :: r else (k', v') :: oset k v r
  end.
Definition apply_delta (f : full) (d : delta) : full :=
  mkFull (fu_handles f ++ d_handles d)
         (fold_left (fun acc kv => aset (fst kv) (snd kv) acc) (d_views d) (fu_views f))
         (match d_names d with Some n => n | None => fu_names f end)
         (fold_left (fun acc kv => oset (fst kv) (snd kv) acc) (d_objs d) (fu_objs f)).

Definition full_eqb (a b : full) : bool :=
  list_eqb (pair_eqb String.eqb Bool.eqb) (fu_handles a) (fu_handles b) &&
  list_eqb (pair_eqb String.eqb vobs_eqb) (fu_views a) (fu_views b) &&
  pair_eqb (list_eqb String.eqb) (list_eqb String.eqb) (fu_names a) (fu_names b) &&
  list_eqb (pair_eqb N.eqb oobs_eqb) (fu_objs a) (fu_objs b).

Fixpoint check_steps (ts : tsinfo) (s : state) (expected : full) (steps : list (ev * obs * delta)) : bool :=
  match steps with
  | [] => true
  | (e, res, d) :: r =>
      let '(ts', s', got) := step_ev ts s e in
      let expected' := apply_delta expected d in
      obs_eqb got res && full_eqb (observe s') expected' && check_steps ts' s' expected' r
  end.

Definition check_case (c : case) : bool :=
  let s0 := init (c_ts c) (c_ctor c) (c_heap c) in
  let e0 := apply_delta (mkFull [] [] ([], []) []) (c_init c) in
  full_eqb (observe s0) e0 && check_steps (c_ts c) s0 e0 (c_steps c).

(* the boolean premises of the theorems in Props/C08.v (ViewsProofs.heap0_okb / labels_okb restated here so
   that this file depends on the model only) *)
Definition premises (c : case) : bool :=
  forallb (fun p => match f_sofa (snd p) with None => true | Some _ => false end) (c_heap c) &&
  forallb (fun p => N.ltb (fst p) 1000) (c_heap c) &&
  memb DOCANN (ts_types (c_ts c)) && memb DOCANN (ts_family (c_ts c)).
