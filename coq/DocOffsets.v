(* DocOffsets.v — vocabulary of the C03 theorems on the REAL codec models (Xmi.save_xmi / XmiDoc.denote_xmi,
   Json.save_json / JsonDoc.denote_json): which features carry offsets, which number a document must carry for a
   code-point offset, and the covered text of an annotation.  Definitions only; proofs in DocOffsetsProofs.v. *)
From Cassis Require Import Base Offsets Heap Schema.
Open Scope Z_scope.

(* the features the codecs convert: document name begin / end (on subtypes of uima.tcas.Annotation) *)
Definition is_offset_fd (fd : fdecl) : bool := String.eqb (fd_xname fd) "begin" || String.eqb (fd_xname fd) "end".
(* the offset a document must carry for the code-point offset z into the text t of the annotation's own sofa: the number
   of UTF-16 code units of the first z code points (Offsets.utf16_len: the independent definition); a sofa without text
   has no converter table: the number is passed through *)
Definition utf16_off (t : option text) (z : Z) : Z :=
  match t with Some t => utf16_len (firstn (Z.to_nat z) t) | None => z end.
(* the offset inside the text (premise of the property: valid offsets) *)
Definition off_in_text (t : option text) (z : Z) : Prop :=
  match t with Some t => 0 <= z <= Z.of_nat (List.length t) | None => True end.
(* FeatureStructure.get_covered_text(): sofaString[begin:end], None without a text *)
Definition covered (t : option text) (b e : Z) : option text := option_map (fun t => zslice t b e) t.
