(* DocDeterminism.v — vocabulary of the C14 theorems on the REAL writer models (Xmi.save_xmi, Json.save_json over the
   reachability traversal Reach.find_all_fs): what "the same CAS up to the id()-dependent order of select_all" means, what
   "every structure the format writes separately already has an id" means, and what a save may change.
   Definitions only; the proofs are in DocDeterminismProofs.v. *)
From Cassis Require Import Base Heap Schema Reach ReachProofs.
From Cassis Require Xmi Json.
Open Scope Z_scope.

(* ---- the same CAS, members of each view listed in another order ------------------------------------------------------
   View.get_all_annotations / select_all order structures with equal (begin, end) — and all non-annotations of one type —
   by memory address; in the model that order is the list v_members.  Two CASes are member-order variants when they have
   the same objects, the same id generator, the same sofas in the same order and per view the same members with the same
   multiplicity (Cas.add of an indexed structure indexes it again: a view is a multiset). *)
Definition view_perm (v1 v2 : cview) : Prop := v_sofa v1 = v_sofa v2 /\ Permutation (v_members v1) (v_members v2).
Definition member_order_variant (c1 c2 : cas) : Prop :=
  c_heap c1 = c_heap c2 /\ c_next_id c1 = c_next_id c2 /\ Forall2 view_perm (c_views c1) (c_views c2).
(* the same SET of members per view (multiplicities ignored) *)
Definition view_sameset (v1 v2 : cview) : Prop := v_sofa v1 = v_sofa v2 /\ forall o, In o (v_members v1) <-> In o (v_members v2).
Definition member_set_variant (c1 c2 : cas) : Prop :=
  c_heap c1 = c_heap c2 /\ c_next_id c1 = c_next_id c2 /\ Forall2 view_sameset (c_views c1) (c_views c2).
Definition members_nodup (c : cas) : Prop := Forall (fun v => NoDup (v_members v)) (c_views c).

(* ---- "every structure the chosen format writes separately already has an id" ------------------------------------------
   declaratively: every structure reachable from an indexed one under the successor relation of the format (inl = false:
   XMI, inlinable collections are not structures of their own; inl = true: JSON), and every sofa data array, has an id *)
Definition has_some_id (h : heap) (o : oid) : Prop := exists f i, hget h o = Some f /\ o_id f = Some i.
Definition reached_have_ids (inl : bool) (s : schema) (c : cas) : Prop :=
  forall o, reach inl s (c_heap c) (member_seeds c) o -> has_some_id (c_heap c) o.
Definition arrays_have_ids (c : cas) : Prop :=
  forall v o, In v (c_views c) -> s_arr (v_sofa v) = Some o -> has_some_id (c_heap c) o.
Definition settled (inl : bool) (s : schema) (c : cas) : Prop := reached_have_ids inl s c /\ arrays_have_ids c.
(* as a boolean (counted by the harness): the save does not consult the id generator.  DocDeterminismProofs.xmi_settledb_spec /
   json_settledb_spec: equivalent to `settled` whenever the traversal succeeds *)
Definition arrays_have_idsb (c : cas) : bool :=
  forallb (fun v => match s_arr (v_sofa v) with
                    | Some o => match hget (c_heap c) o with Some f => match o_id f with Some _ => true | None => false end | None => false end
                    | None => true end) (c_views c).
Definition settledb (inl : bool) (s : schema) (c : cas) : bool :=
  arrays_have_idsb c && match find_all_fs inl s c with Ok w => Z.eqb (w_next w) (c_next_id c) | _ => false end.

(* ---- what a save may change: ids of id-less structures that are written, taken fresh from the generator --------------
   c1 is c with the same views, the same objects in the same order with the same types and slots (shape_of), the generator
   advanced; an id present before is kept; an id present only afterwards is fresh (in [old next, new next)) and belongs to
   a structure that is written (W i o: listed under that id by the traversal, or a sofa data array) *)
Definition only_ids_added (c c1 : cas) (W : xid -> oid -> Prop) : Prop :=
  c_views c1 = c_views c /\ shape_of (c_heap c1) = shape_of (c_heap c) /\ c_next_id c <= c_next_id c1 /\
  (forall o f i, hget (c_heap c) o = Some f -> o_id f = Some i -> exists f1, hget (c_heap c1) o = Some f1 /\ o_id f1 = Some i) /\
  (forall o f f1 i, hget (c_heap c) o = Some f -> o_id f = None -> hget (c_heap c1) o = Some f1 -> o_id f1 = Some i ->
     c_next_id c <= i < c_next_id c1 /\ W i o).
Definition listed (all : list (xid * oid)) : xid -> oid -> Prop := fun i o => In (i, o) all.

(* ---- premises of the traversal's totality (Reach, C15), as one boolean ---- *)
Definition reach_inb (inl : bool) (s : schema) (c : cas) : bool :=
  wf_heapb inl s (c_heap c) && seeds_liveb (c_heap c) (member_seeds c) && ids_okb (c_heap c) (c_next_id c).
(* sofa data arrays are byte arrays (JSON writes them in the views loop, before the traversal) *)
Definition sofa_arrays_bytesb (c : cas) : bool :=
  forallb (fun v => match s_arr (v_sofa v) with
                    | Some o => match hget (c_heap c) o with Some f => String.eqb (o_type f) "uima.cas.ByteArray" | None => false end
                    | None => true end) (c_views c).

(* ---- CASes for the non-vacuity examples (Props/C14.v, Props/C03.v): the CAS of XmiExample.v (two views with astral
   texts, cycle, shared and inline arrays, a referenced-only annotation of the second view) with two structures indexed in
   the first view, in both orders; and the same CAS with the referenced-only annotation (object 3) and the shared array
   (object 6) id-less, so that a save has ids to assign ---- *)
From Cassis Require XmiExample.
Definition dx_schema : schema := XmiExample.ex_schema.
Definition dx_views (ms : list oid) : list cview :=
  match c_views XmiExample.ex_cas with v1 :: r => mkView (v_sofa v1) ms :: r | [] => [] end.
Definition dx_cas : cas := mkCas (dx_views [1; 2]%N) (c_heap XmiExample.ex_cas) (c_next_id XmiExample.ex_cas).
Definition dx_cas_perm : cas := mkCas (dx_views [2; 1]%N) (c_heap XmiExample.ex_cas) (c_next_id XmiExample.ex_cas).
Definition drop_id (h : heap) (o : oid) : heap :=
  map (fun p => if N.eqb (fst p) o then (fst p, mkFs (o_type (snd p)) None (o_slots (snd p))) else p) h.
Definition dx_cas_noid : cas := mkCas (dx_views [1; 2]%N) (drop_id (drop_id (c_heap XmiExample.ex_cas) 3%N) 6%N) (c_next_id XmiExample.ex_cas).
