(* Base.v — shared vocabulary of the cassis models: result monad, error kinds, association lists. *)
From Coq Require Export List String ZArith NArith Bool Lia Permutation Sorting.Sorted.
Export ListNotations.
Open Scope string_scope.
Open Scope list_scope.

Definition tname := string.
Definition fname := string.

(* exceptions are compared by kind only *)
Inductive err := ETypeNotFound | EValue | ERuntime | EAttribute | EKey | EType | EDupId | EIndex.
Inductive res (A : Type) := Ok (a : A) | Err (e : err) | OutOfFuel.
Arguments Ok {A}. Arguments Err {A}. Arguments OutOfFuel {A}.
Definition bind {A B} (r : res A) (f : A -> res B) : res B :=
  match r with Ok a => f a | Err e => Err e | OutOfFuel => OutOfFuel end.
Notation "'do' x <- r ;; k" := (bind r (fun x => k)) (at level 200, x pattern, r at level 100, k at level 200).

Definition err_eqb (a b : err) : bool :=
  match a, b with
  | ETypeNotFound, ETypeNotFound | EValue, EValue | ERuntime, ERuntime | EAttribute, EAttribute
  | EKey, EKey | EType, EType | EDupId, EDupId | EIndex, EIndex => true
  | _, _ => false end.

(* dict with string keys, insertion order, Python overwrite rule (position of the first insertion is kept) *)
Fixpoint alookup {V} (k : string) (l : list (string * V)) : option V :=
  match l with [] => None | (k', v) :: r => if String.eqb k k' then Some v else alookup k r end.
Fixpoint aset {V} (k : string) (v : V) (l : list (string * V)) : list (string * V) :=
  match l with
  | [] => [(k, v)]
  | (k', v') :: r => if String.eqb k k' then (k', v) :: r else (k', v') :: aset k v r
  end.
Fixpoint adel {V} (k : string) (l : list (string * V)) : list (string * V) :=
  match l with [] => [] | (k', v') :: r => if String.eqb k k' then r else (k', v') :: adel k r end.
Definition akeys {V} (l : list (string * V)) : list string := map fst l.

Fixpoint memb (s : string) (l : list string) : bool :=
  match l with [] => false | x :: r => String.eqb s x || memb s r end.

Lemma memb_In s l : memb s l = true <-> In s l.
Proof.
  induction l as [|x r IH]; cbn [memb In]; [split; [discriminate|contradiction]|].
  rewrite orb_true_iff, IH, String.eqb_eq. split; intros [H|H]; auto.
Qed.

(* comparison helpers used by the correspondence files *)
Fixpoint list_eqb {A} (eqb : A -> A -> bool) (a b : list A) : bool :=
  match a, b with
  | [], [] => true
  | x :: a', y :: b' => eqb x y && list_eqb eqb a' b'
  | _, _ => false
  end.
Fixpoint mismatches_from {C} (ok : C -> bool) (i : nat) (l : list C) : list nat :=
  match l with [] => [] | c :: r => if ok c then mismatches_from ok (S i) r else i :: mismatches_from ok (S i) r end.
Definition mismatches {C} (ok : C -> bool) (l : list C) : list nat := mismatches_from ok 0 l.
Definition count_true {C} (p : C -> bool) (l : list C) : nat := List.length (filter p l).

(* insertion sort on Z, used to canonicalise label lists *)
Fixpoint zinsert (x : Z) (l : list Z) : list Z :=
  match l with [] => [x] | y :: r => if (x <=? y)%Z then x :: y :: r else y :: zinsert x r end.
Definition zsort (l : list Z) : list Z := fold_right zinsert [] l.
