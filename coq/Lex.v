(* Lex.v — lexical layer shared by the XMI document models (DESIGN.md section 3 "Lexical layer"):
   blank-separated token lists (" ".join / str.split()), decimal integers (str(int) / int(str)), booleans,
   hex bytes ("{x:02X}" / bytearray.fromhex), UTF-8 (attribute values are Coq strings = UTF-8 bytes, sofa text is a
   list of code points) and the string surgery behind type name <-> (namespace URI, tag).
   Floats are NOT lexed here: they are opaque tokens (Heap.flt); printing/parsing is a Section parameter of the
   document models.  Definitions only; proofs are in LexProofs.v. *)
From Coq Require Import List String Ascii ZArith NArith Bool DecimalString DecimalZ DecimalPos Decimal.
Import ListNotations.
Open Scope list_scope.
Open Scope string_scope.

(* ---- token lists ---- *)
(* " ".join(tokens) *)
Fixpoint join (l : list string) : string :=
  match l with
  | [] => ""
  | [x] => x
  | x :: r => x ++ " " ++ join r
  end.
(* "".join(tokens) *)
Fixpoint concat_s (l : list string) : string := match l with [] => "" | x :: r => x ++ concat_s r end.
Definition is_ws (c : ascii) : bool :=                  (* ASCII part of str.split()'s separator set *)
  match c with " "%char | "009"%char | "010"%char | "011"%char | "012"%char | "013"%char => true | _ => false end.
(* str.split(): split on runs of whitespace, no empty tokens *)
Fixpoint split_ws_aux (cur : string) (s : string) : list string :=
  match s with
  | EmptyString => if String.eqb cur "" then [] else [cur]
  | String c r => if is_ws c then (if String.eqb cur "" then split_ws_aux "" r else cur :: split_ws_aux "" r)
                  else split_ws_aux (cur ++ String c "") r
  end.
Definition split_ws (s : string) : list string := split_ws_aux "" s.
Fixpoint no_ws (s : string) : bool := match s with EmptyString => true | String c r => negb (is_ws c) && no_ws r end.
Definition tok_ok (s : string) : Prop := s <> "" /\ no_ws s = true.
Definition tok_okb (s : string) : bool := negb (String.eqb s "") && no_ws s.

(* ---- decimal integers: str(int) / int(str) ---- *)
Definition z2s (z : Z) : string := NilZero.string_of_int (Z.to_int z).
Definition s2z (s : string) : option Z := option_map Z.of_int (NilZero.int_of_string s).

(* ---- booleans: "true" / "false" ---- *)
Definition b2s (b : bool) : string := if b then "true" else "false".
Definition s2b (s : string) : option bool :=
  if String.eqb s "true" then Some true else if String.eqb s "false" then Some false else None.

(* ---- hex bytes: "".join(f"{x:02X}") / bytearray.fromhex ---- *)
Definition hex_digit (n : Z) : ascii :=
  match n with
  | 0 => "0" | 1 => "1" | 2 => "2" | 3 => "3" | 4 => "4" | 5 => "5" | 6 => "6" | 7 => "7" | 8 => "8" | 9 => "9"
  | 10 => "A" | 11 => "B" | 12 => "C" | 13 => "D" | 14 => "E" | _ => "F"
  end%Z%char.
Definition hex_val (c : ascii) : option Z :=
  match c with
  | "0" => Some 0 | "1" => Some 1 | "2" => Some 2 | "3" => Some 3 | "4" => Some 4 | "5" => Some 5 | "6" => Some 6
  | "7" => Some 7 | "8" => Some 8 | "9" => Some 9
  | "A" | "a" => Some 10 | "B" | "b" => Some 11 | "C" | "c" => Some 12 | "D" | "d" => Some 13
  | "E" | "e" => Some 14 | "F" | "f" => Some 15
  | _ => None
  end%Z%char.
Definition hex_byte (x : Z) : string := String (hex_digit (x / 16)) (String (hex_digit (x mod 16)) "").
Definition hex_of_bytes (l : list Z) : string := concat_s (map hex_byte l).
Fixpoint parse_hex (s : string) : option (list Z) :=
  match s with
  | EmptyString => Some []
  | String a (String b r) =>
      match hex_val a, hex_val b, parse_hex r with
      | Some x, Some y, Some l => Some ((x * 16 + y)%Z :: l)
      | _, _, _ => None
      end
  | _ => None
  end.

(* ---- UTF-8: code points <-> bytes of a Coq string ---- *)
Definition byte (n : N) : ascii := ascii_of_N n.
Definition utf8_enc1 (c : N) : string :=
  (if c <? 128 then String (byte c) ""
   else if c <? 2048 then String (byte (192 + c / 64)) (String (byte (128 + c mod 64)) "")
   else if c <? 65536 then
     String (byte (224 + c / 4096)) (String (byte (128 + (c / 64) mod 64)) (String (byte (128 + c mod 64)) ""))
   else
     String (byte (240 + c / 262144)) (String (byte (128 + (c / 4096) mod 64))
       (String (byte (128 + (c / 64) mod 64)) (String (byte (128 + c mod 64)) ""))))%N.
Fixpoint utf8_encode (t : list N) : string := match t with [] => "" | c :: r => utf8_enc1 c ++ utf8_encode r end.
Definition cont (a : ascii) : option N :=               (* continuation byte 10xxxxxx *)
  let x := N_of_ascii a in if ((128 <=? x) && (x <? 192))%N then Some (x - 128)%N else None.
Fixpoint utf8_decode (s : string) : option (list N) :=
  match s with
  | EmptyString => Some []
  | String a r =>
    let x := N_of_ascii a in
    if (x <? 128)%N then option_map (cons x) (utf8_decode r)
    else if (x <? 192)%N then None
    else if (x <? 224)%N then
      match r with
      | String b r1 =>
        match cont b, utf8_decode r1 with
        | Some y, Some l => Some (((x - 192) * 64 + y)%N :: l) | _, _ => None end
      | _ => None end
    else if (x <? 240)%N then
      match r with
      | String b (String c r2) =>
        match cont b, cont c, utf8_decode r2 with
        | Some y, Some z, Some l => Some (((x - 224) * 4096 + y * 64 + z)%N :: l) | _, _, _ => None end
      | _ => None end
    else
      match r with
      | String b (String c (String d r3)) =>
        match cont b, cont c, cont d, utf8_decode r3 with
        | Some y, Some z, Some w, Some l => Some (((x - 240) * 262144 + y * 4096 + z * 64 + w)%N :: l)
        | _, _, _, _ => None end
      | _ => None end
  end.
(* a Python str that lxml accepts and str.encode("utf-8") encodes: no surrogates, below 0x110000 *)
Definition cp_okb (c : N) : bool := ((c <? 1114112) && negb ((55296 <=? c) && (c <? 57344)))%N.

(* ---- string surgery for type names ---- *)
Fixpoint replace_char (a b : ascii) (s : string) : string :=
  match s with EmptyString => "" | String c r => String (if Ascii.eqb c a then b else c) (replace_char a b r) end.
Fixpoint has_char (a : ascii) (s : string) : bool :=
  match s with EmptyString => false | String c r => Ascii.eqb c a || has_char a r end.
Fixpoint strip_prefix (p s : string) : option string :=
  match p, s with
  | EmptyString, _ => Some s
  | String a p', String b s' => if Ascii.eqb a b then strip_prefix p' s' else None
  | _, _ => None
  end.
(* the string before the suffix `suf` (the position is determined by the lengths) *)
Fixpoint strip_suffix (suf s : string) : option string :=
  if String.eqb s suf then Some "" else
  match s with EmptyString => None | String c r => option_map (String c) (strip_suffix suf r) end.
(* s.rsplit(".", 1): (everything before the last dot, everything after it); None when there is no dot *)
Fixpoint rsplit_dot (s : string) : option (string * string) :=
  match s with
  | EmptyString => None
  | String c r =>
    match rsplit_dot r with
    | Some (p, q) => Some (String c p, q)
    | None => if Ascii.eqb c "." then Some ("", r) else None
    end
  end.

(* insertion sort of (name, value) pairs by name, byte-wise (= code point order for UTF-8) *)
Fixpoint insert_s {A} (x : string * A) (l : list (string * A)) : list (string * A) :=
  match l with [] => [x] | y :: r => if String.leb (fst x) (fst y) then x :: y :: r else y :: insert_s x r end.
Definition sort_s {A} (l : list (string * A)) : list (string * A) := fold_right insert_s [] l.
