(* JsonProofs.v — lemmas and theorems about the JSON-CAS models (JsonDoc.v, Json.v). *)
From Coq Require Import Ascii ZifyBool.
From Cassis Require Import Base Heap Schema Canon Reach JsonDoc Json.
From Cassis Require Offsets OffsetsProofs.
Open Scope Z_scope.

(* ---- per-feature-kind round trips: decoding what the writer encodes gives the canonical value ---- *)

Lemma special_flt_spec x sp : special_flt x = Some sp -> den_special (JStr sp) = Ok (CFlt x).
Proof.
  unfold special_flt.
  destruct (String.eqb x "nan") eqn:E1; [apply String.eqb_eq in E1; subst; intros [= <-]; reflexivity|].
  destruct (String.eqb x "inf") eqn:E2; [apply String.eqb_eq in E2; subst; intros [= <-]; reflexivity|].
  destruct (String.eqb x "-inf") eqn:E3; [apply String.eqb_eq in E3; subst; intros [= <-]; reflexivity|].
  discriminate.
Qed.
