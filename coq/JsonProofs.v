(* JsonProofs.v — lemmas and theorems about the JSON-CAS models (JsonDoc.v, Json.v). *)
From Coq Require Import Ascii ZifyBool.
From Cassis Require Import Base Heap Schema Canon Reach JsonDoc Json.
From Cassis Require Offsets OffsetsProofs.
Open Scope Z_scope.

(* ---- per-feature-kind round trips: decoding what the writer encodes gives the canonical value ---- *)

Lemma special_flt_spec x sp : special_flt x = Some sp -> den_special (JStr sp) = Ok (CFlt x).
Proof.
  unfold special_flt.
  destruct (String.eqb x "nan") eqn:E1; [apply String.eqb_eq in E1; subst; intros [= <-]; reflexivity|].
  destruct (String.eqb x "inf") eqn:E2; [apply String.eqb_eq in E2; subst; intros [= <-]; reflexivity|].
  destruct (String.eqb x "-inf") eqn:E3; [apply String.eqb_eq in E3; subst; intros [= <-]; reflexivity|].
  discriminate.
Qed.

(* ================================================================================================================ *)
(* transitive_closure: the result is closed under supertype, feature range and element type                         *)
(* ================================================================================================================ *)

(* the types a type refers to directly: its supertype, and range and element type of every effective feature *)
Definition type_refs (s : schema) (t : tname) : list tname :=
  match sch_find s t with
  | Some ti => (match parent ti with Some p => [p] | None => [] end)
               ++ flat_map (fun fd => fd_range fd :: match fd_elem fd with Some e => [e] | None => [] end) (ti_feats ti)
  | None => []
  end.
Definition closed_under_refs (s : schema) (r : list tname) : Prop :=
  forall t u, In t r -> In u (type_refs s t) -> is_predefined u = true \/ In u r.

Lemma memb_false s l : memb s l = false <-> ~ In s l.
Proof.
  rewrite <- memb_In. destruct (memb s l); split.
  - discriminate.
  - intros H. exfalso. apply H. reflexivity.
  - intros _ H. discriminate.
  - reflexivity.
Qed.

Lemma unvisited_spec vis n u : In u (unvisited vis n) <-> u = n /\ ~ In n vis.
Proof.
  unfold unvisited. destruct (memb n vis) eqn:E.
  - apply memb_In in E. split; [intros []|intros [_ H]; contradiction].
  - apply memb_false in E. cbn [In]. split; [intros [<-|[]]; auto|intros [-> _]; auto].
Qed.

Section Closure.
  Variable s : schema.

  (* what is pushed when t is visited covers every direct reference of t that is not visited *)
  Lemma pushed_covers t ti vis u : sch_find s t = Some ti -> In u (type_refs s t) -> In u vis \/
    In u ((match parent ti with Some p => unvisited vis p | None => [] end)
          ++ flat_map (fun fd => unvisited vis (fd_range fd) ++ match fd_elem fd with Some e => unvisited vis e | None => [] end)
                      (ti_feats ti)).
  Proof.
    intros E Hu. unfold type_refs in Hu. rewrite E in Hu.
    destruct (memb u vis) eqn:Em; [left; apply memb_In; exact Em|right]. apply memb_false in Em.
    apply in_app_or in Hu. apply in_or_app. destruct Hu as [Hu|Hu].
    - left. destruct (parent ti) as [p|]; [|destruct Hu]. destruct Hu as [<-|[]]. apply unvisited_spec. auto.
    - right. apply in_flat_map in Hu. destruct Hu as (fd & Hfd & Hu). apply in_flat_map. exists fd. split; [exact Hfd|].
      apply in_or_app. destruct Hu as [<-|Hu]; [left; apply unvisited_spec; auto|right].
      destruct (fd_elem fd) as [e|]; [|destruct Hu]. destruct Hu as [<-|[]]. apply unvisited_spec. auto.
  Qed.

  Definition cinv (vis open : list tname) : Prop :=
    forall t u, In t vis -> In u (type_refs s t) -> is_predefined u = true \/ In u vis \/ In u open.

  Definition cspec (vis open r : list tname) : Prop :=
    (forall t, In t vis -> In t r) /\
    (forall u, In u open -> is_predefined u = true \/ In u r) /\
    (cinv vis open -> closed_under_refs s r) /\
    ((forall t, In t vis -> is_predefined t = false) -> forall t, In t r -> is_predefined t = false) /\
    ((forall t, In t vis -> sch_find s t <> None) -> forall t, In t r -> sch_find s t <> None).

  Lemma cspec_done vis : cspec vis [] vis.
  Proof.
    unfold cspec. split; [auto|]. split; [intros u []|]. split; [|split; auto].
    intros I t u Ht Hu. destruct (I t u Ht Hu) as [Hp|[Hv|[]]]; auto.
  Qed.

  Lemma cspec_skip vis t rest r : (In t vis \/ is_predefined t = true) -> cspec vis rest r -> cspec vis (t :: rest) r.
  Proof.
    intros Hs (A & B & C & D & E). unfold cspec. split; [exact A|]. split; [|split; [|split; [exact D|exact E]]].
    - intros u [<-|Hu]; [destruct Hs as [Hv|Hp]; [right; apply A; exact Hv|left; exact Hp]|apply B; exact Hu].
    - intros I. apply C. intros x u Hx Hu. destruct (I x u Hx Hu) as [Hp|[Hv|[<-|Ho]]]; auto.
      destruct Hs as [Hv|Hp]; auto.
  Qed.

  Lemma tclosure_spec : forall fuel vis open r, tclosure fuel s vis open = Ok r -> cspec vis open r.
  Proof.
    induction fuel as [|k IH]; intros vis open r H.
    - destruct open as [|t rest]; cbn [tclosure] in H; [|discriminate]. inversion H; subst r. apply cspec_done.
    - destruct open as [|t rest]; cbn [tclosure] in H.
      { inversion H; subst r. apply cspec_done. }
      destruct (memb t vis) eqn:Ev.
      { apply memb_In in Ev. apply cspec_skip; [left; exact Ev|]. apply IH. exact H. }
      destruct (is_predefined t) eqn:Ep.
      { apply cspec_skip; [right; exact Ep|]. apply IH. exact H. }
      destruct (sch_find s t) as [ti|] eqn:Et; [|discriminate].
      destruct (IH _ _ _ H) as (A & B & C & D & E). unfold cspec. split; [|split; [|split; [|split]]].
      + intros x Hx. apply A. apply in_or_app. left. exact Hx.
      + intros u [<-|Hu]; [right; apply A; apply in_or_app; right; left; reflexivity|].
        apply B. apply in_or_app. left. exact Hu.
      + intros I. apply C. intros x u Hx Hu. apply in_app_or in Hx. destruct Hx as [Hx|[<-|[]]].
        * destruct (I x u Hx Hu) as [Hp|[Hv|[<-|Ho]]].
          -- left. exact Hp.
          -- right. left. apply in_or_app. left. exact Hv.
          -- right. left. apply in_or_app. right. left. reflexivity.
          -- right. right. apply in_or_app. left. exact Ho.
        * destruct (pushed_covers t ti (vis ++ [t]) u Et Hu) as [Hv|Hn]; [right; left; exact Hv|].
          right. right. apply in_or_app. right. exact Hn.
      + intros Hv. apply D. intros x Hx. apply in_app_or in Hx. destruct Hx as [Hx|[<-|[]]]; [apply Hv; exact Hx|exact Ep].
      + intros Hv. apply E. intros x Hx. apply in_app_or in Hx. destruct Hx as [Hx|[<-|[]]]; [apply Hv; exact Hx|congruence].
  Qed.

  (* MINIMAL: what transitive_closure returns contains the (non-predefined) seeds, only non-predefined known types,
     and with every type its supertype and the range and element type of each of its effective features, unless
     predefined *)
  Theorem closure_closed : forall fuel seeds r, tclosure fuel s [] seeds = Ok r ->
    closed_under_refs s r /\
    (forall t, In t seeds -> is_predefined t = true \/ In t r) /\
    (forall t, In t r -> is_predefined t = false /\ sch_find s t <> None).
  Proof.
    intros fuel seeds r H. destruct (tclosure_spec _ _ _ _ H) as (_ & B & C & D & E).
    split; [apply C; intros t u []|]. split; [exact B|].
    intros t Ht. split; [apply D; [intros x []|exact Ht]|apply E; [intros x []|exact Ht]].
  Qed.
End Closure.

(* ================================================================================================================ *)
(* embedded type declarations: what _serialize_type writes, read back by _parse_features, is the original declaration *)
(* ================================================================================================================ *)

Lemma strip_brackets_app e : strip_brackets (String.append e "[]") = Some e.
Proof.
  induction e as [|c r IH]; [reflexivity|].
  cbn [String.append]. cbn [strip_brackets]. fold (String.append r "[]").
  destruct (String.eqb (String c (String.append r "[]")) "[]") eqn:E.
  - apply String.eqb_eq in E. exfalso. injection E as Hc Hr. destruct r as [|c2 r2]; cbn in Hr; [discriminate|].
    injection Hr as _ H2. destruct r2; cbn in H2; discriminate.
  - rewrite IH. reflexivity.
Qed.

Lemma starts_pct x : name_okb x = true -> starts_with "%" x = false.
Proof.
  destruct x as [|c r]; [discriminate|]. cbn [name_okb starts_with].
  destruct (Ascii.eqb "%" c) eqn:E; [|reflexivity]. apply Ascii.eqb_eq in E. subst c. discriminate.
Qed.

(* the declaration of a feature as it stands in %TYPES *)
Definition jfeat_of (fd : fdecl) : jfeat :=
  mkJf (fd_xname fd) (range_name fd)
       (if is_array_name (fd_range fd) then None else option_map ext_name (fd_elem fd))
       (if fd_multi fd then Some true else None).

Lemma parse_ser_feature fd : parse_jfeat (ser_feature fd) = Ok (jfeat_of fd).
Proof.
  unfold ser_feature, parse_jfeat, jfeat_of. cbn [fst snd].
  destruct (fd_multi fd); destruct (is_array_name (fd_range fd)); destruct (fd_elem fd); reflexivity.
Qed.

(* a feature declaration the JSON type section can express faithfully *)
Definition fd_okb (fd : fdecl) : bool :=
  name_okb (fd_xname fd) && String.eqb (fd_name fd) (pyname (fd_xname fd))
  && String.eqb (ext_name (fd_range fd)) (fd_range fd)
  && match fd_elem fd with Some e => String.eqb (ext_name e) e | None => true end
  && (if is_array_name (fd_range fd) then
        if is_prim_array_name (fd_range fd) then match fd_elem fd with None => true | Some _ => false end
        else match fd_elem fd with Some e => String.eqb (array_type_name_for e) T_FS_ARRAY | None => true end
      else match strip_brackets (fd_range fd) with None => true | Some _ => false end).
(* an FSArray feature without element type comes back with element type TOP *)
Definition norm_fd (fd : fdecl) : fdecl :=
  if String.eqb (fd_range fd) T_FS_ARRAY then
    match fd_elem fd with None => mkFd (fd_name fd) (fd_xname fd) (fd_range fd) (Some T_TOP) (fd_multi fd) | Some _ => fd end
  else fd.

Lemma prim_array_cases r : is_prim_array_name r = true ->
  array_type_name_for (element_type_name_for r) = r /\ String.eqb r T_FS_ARRAY = false.
Proof.
  unfold is_prim_array_name. intros H. apply memb_In in H. cbn in H.
  repeat (destruct H as [<-|H]; [split; reflexivity|]). destruct H.
Qed.

Lemma jdecl_roundtrip fd : fd_okb fd = true -> jdecl_of (jfeat_of fd) = norm_fd fd.
Proof.
  unfold fd_okb. rewrite !andb_true_iff. intros ((((Hn & Hpy) & Hr) & He) & Hk).
  apply String.eqb_eq in Hpy, Hr.
  unfold jdecl_of, jrange, jfeat_of, norm_fd, range_name. cbn [jf_name jf_range jf_elem jf_multi].
  destruct fd as [n x r e m]. cbn [fd_name fd_xname fd_range fd_elem fd_multi] in *. subst n.
  assert (Hm : match (if m then Some true else None) with Some true => true | _ => false end = m) by (destruct m; reflexivity).
  rewrite Hm. unfold is_array_name in *.
  destruct (is_prim_array_name r) eqn:Ep.
  - cbn [orb] in *. destruct e; [discriminate|]. rewrite strip_brackets_app. cbn [fst snd].
    destruct (prim_array_cases r Ep) as [Ha Hf]. rewrite Ha, Ep, Hf. reflexivity.
  - cbn [orb] in *. destruct (String.eqb r T_FS_ARRAY) eqn:Ef.
    + apply String.eqb_eq in Ef. subst r. rewrite strip_brackets_app. cbn [fst snd].
      destruct e as [e|].
      * apply String.eqb_eq in He, Hk. rewrite He, Hk. reflexivity.
      * reflexivity.
    + rewrite Hr. destruct (strip_brackets r); [discriminate|]. cbn [fst snd].
      destruct e as [e|]; [apply String.eqb_eq in He; cbn [option_map]; rewrite He|]; reflexivity.
Qed.

Lemma mapM_map {A B C} (f : A -> B) (g : B -> res C) (h : A -> C) l :
  (forall a, In a l -> g (f a) = Ok (h a)) -> mapM g (map f l) = Ok (map h l).
Proof.
  induction l as [|a r IH]; intros H; [reflexivity|]. cbn [map mapM]. rewrite (H a (or_introl eq_refl)). cbn [bind].
  rewrite IH; [reflexivity|]. intros b Hb. apply H. right. exact Hb.
Qed.

Lemma filter_pct l : Forall (fun fd => name_okb (fd_xname fd) = true) l ->
  filter (fun kv : string * json => negb (starts_with "%" (fst kv))) (map ser_feature l) = map ser_feature l.
Proof.
  induction 1 as [|fd r Hfd _ IH]; [reflexivity|]. cbn [map filter]. unfold ser_feature at 1. cbn [fst].
  rewrite (starts_pct _ Hfd). cbn [negb]. f_equal. exact IH.
Qed.

(* a type declaration as it stands in %TYPES *)
Definition jtype_of (s : schema) (ti : tinfo) : jtype :=
  mkJt (ext_name (ti_name ti)) (match parent ti with Some p => ext_name p | None => "" end) (map jfeat_of (own_feats s ti)).

Lemma parse_ser_type s ti : Forall (fun fd => name_okb (fd_xname fd) = true) (own_feats s ti) ->
  parse_jtype (ser_type s ti) = Ok (jtype_of s ti).
Proof.
  intros Hn. unfold ser_type, parse_jtype, jtype_of. cbn [fst snd].
  change (alookup "%SUPER_TYPE" ([("%NAME", JStr (ext_name (ti_name ti)));
            ("%SUPER_TYPE", JStr match parent ti with Some p => ext_name p | None => "" end)] ++ map ser_feature (own_feats s ti)))
    with (Some (JStr match parent ti with Some p => ext_name p | None => "" end)).
  cbn [app filter fst].
  change (starts_with "%" "%NAME") with true. change (starts_with "%" "%SUPER_TYPE") with true. cbn [negb].
  rewrite (filter_pct _ Hn). rewrite (mapM_map ser_feature parse_jfeat jfeat_of); [reflexivity|].
  intros fd _. apply parse_ser_feature.
Qed.

(* ---- which types are declared ---- *)

Definition schema_okb (s : schema) : bool :=
  forallb (fun ti => String.eqb (ext_name (ti_name ti)) (ti_name ti)
                     && match parent ti with Some p => String.eqb (ext_name p) p | None => true end
                     && forallb fd_okb (ti_feats ti)) s.

(* %TYPES declares t with the original supertype and, for each own feature, the original range, element type (TOP for
   an FSArray without one) and multipleReferencesAllowed truth value *)
Definition declared (s : schema) (decls : list (string * json)) (t : tname) : Prop :=
  exists ti j jt, sch_find s t = Some ti /\ alookup t decls = Some j /\ parse_jtype (t, j) = Ok jt /\
    jt_name jt = t /\ jt_super jt = match parent ti with Some p => p | None => "" end /\
    map jdecl_of (jt_feats jt) = map norm_fd (own_feats s ti).

Lemma sch_find_name s n ti : sch_find s n = Some ti -> ti_name ti = n /\ In ti s.
Proof.
  induction s as [|t r IH]; cbn [sch_find]; [discriminate|].
  destruct (String.eqb n (ti_name t)) eqn:E.
  - intros [= <-]. apply String.eqb_eq in E. split; [symmetry; exact E|left; reflexivity].
  - intros H. destruct (IH H) as [A B]. split; [exact A|right; exact B].
Qed.
Lemma sch_find_In s n : In n (map ti_name s) -> sch_find s n <> None.
Proof.
  induction s as [|t r IH]; cbn [map In sch_find]; [intros []|].
  intros [<-|H]; [rewrite String.eqb_refl; discriminate|]. destruct (String.eqb n (ti_name t)); [discriminate|auto].
Qed.

Lemma sinsert_In x y l : In x (sinsert y l) <-> x = y \/ In x l.
Proof.
  induction l as [|z r IH]; cbn [sinsert In]; [intuition|].
  destruct (String.leb y z); cbn [In]; [intuition|]. rewrite IH. intuition.
Qed.
Lemma sort_names_In x l : In x (sort_names l) <-> In x l.
Proof.
  induction l as [|y r IH]; cbn [sort_names fold_right In]; [tauto|].
  fold (sort_names r). rewrite sinsert_In, IH. intuition.
Qed.

Lemma mapM_Forall2 {A B} (f : A -> res B) l : forall r, mapM f l = Ok r -> Forall2 (fun a b => f a = Ok b) l r.
Proof.
  induction l as [|a t IH]; cbn [mapM]; intros r H; [inversion H; constructor|].
  destruct (f a) as [b| |] eqn:E; cbn [bind] in H; try discriminate.
  destruct (mapM f t) as [bs| |] eqn:E2; cbn [bind] in H; try discriminate.
  inversion H; subst r. constructor; [exact E|apply IH; reflexivity].
Qed.
Lemma Forall2_In_l {A B} (R : A -> B -> Prop) l r a : Forall2 R l r -> In a l -> exists b, In b r /\ R a b.
Proof.
  induction 1 as [|x y l r Hxy _ IH]; [intros []|]. intros [<-|H]; [exists y; split; [left; reflexivity|exact Hxy]|].
  destruct (IH H) as (b & Hb & Rb). exists b. split; [right; exact Hb|exact Rb].
Qed.
Lemma Forall2_In_r {A B} (R : A -> B -> Prop) l r b : Forall2 R l r -> In b r -> exists a, In a l /\ R a b.
Proof.
  induction 1 as [|x y l r Hxy _ IH]; [intros []|]. intros [<-|H]; [exists x; split; [left; reflexivity|exact Hxy]|].
  destruct (IH H) as (a & Ha & Ra). exists a. split; [right; exact Ha|exact Ra].
Qed.

Lemma alookup_map_first {X V} (key : X -> string) (val : X -> V) t a : forall l,
  In a l -> key a = t -> (forall x, In x l -> key x = t -> x = a) ->
  alookup t (map (fun x => (key x, val x)) l) = Some (val a).
Proof.
  induction l as [|x r IH]; [intros []|]. intros Hin Hk Hu. cbn [map alookup].
  destruct (String.eqb t (key x)) eqn:E.
  - apply String.eqb_eq in E. rewrite (Hu x (or_introl eq_refl) (eq_sym E)). reflexivity.
  - destruct Hin as [->|Hin]; [rewrite Hk, String.eqb_refl in E; discriminate|].
    apply IH; [exact Hin|exact Hk|]. intros y Hy. apply Hu. right. exact Hy.
Qed.

Definition find_ti (s : schema) (n : tname) : res tinfo :=
  match sch_find s n with Some ti => Ok ti | None => Err ETypeNotFound end.

Lemma ser_types_inv s mode used decls : ser_types s mode used = Ok [(K_TYPES, JObj decls)] ->
  exists names tis, types_to_include s mode used = Ok names /\ mapM (find_ti s) (sort_names names) = Ok tis /\
    decls = map (ser_type s) (filter (fun ti => negb (docann_default s ti)) tis) /\ mode <> MNone.
Proof.
  unfold ser_types. intros H.
  destruct mode; try discriminate;
  (destruct (types_to_include s _ used) as [names| |] eqn:En; cbn [bind] in H; try discriminate;
   fold (find_ti s) in H;
   destruct (mapM (find_ti s) (sort_names names)) as [tis| |] eqn:Et; cbn [bind] in H; try discriminate;
   inversion H; subst decls; exists names, tis; split; [first [exact En|reflexivity]|split; [first [exact Et|reflexivity]|split; [reflexivity|discriminate]]]).
Qed.

Lemma included_declared s decls names tis t ti :
  schema_okb s = true ->
  mapM (find_ti s) (sort_names names) = Ok tis ->
  decls = map (ser_type s) (filter (fun ti => negb (docann_default s ti)) tis) ->
  In t names -> sch_find s t = Some ti -> docann_default s ti = false -> declared s decls t.
Proof.
  intros Hok Ht -> Hin Hf Hd.
  pose proof (mapM_Forall2 _ _ _ Ht) as F2.
  assert (Hall : forall x, In x tis -> exists n, sch_find s n = Some x).
  { intros x Hx. destruct (Forall2_In_r _ _ _ _ F2 Hx) as (n & _ & Hn). unfold find_ti in Hn.
    destruct (sch_find s n) eqn:E; inversion Hn; subst. exists n. exact E. }
  assert (Hti : In ti tis).
  { destruct (Forall2_In_l _ _ _ t F2 (proj2 (sort_names_In _ _) Hin)) as (b & Hb & Rb).
    unfold find_ti in Rb. rewrite Hf in Rb. inversion Rb; subst b. exact Hb. }
  destruct (sch_find_name _ _ _ Hf) as [Hname Hins].
  unfold schema_okb in Hok. rewrite forallb_forall in Hok. pose proof (Hok _ Hins) as Hk.
  rewrite !andb_true_iff in Hk. destruct Hk as ((Hext & Hpar) & Hfds). apply String.eqb_eq in Hext.
  rewrite forallb_forall in Hfds.
  assert (Hown : forall fd, In fd (own_feats s ti) -> fd_okb fd = true).
  { intros fd Hfd. apply Hfds. unfold own_feats in Hfd. destruct (parent ti); [apply filter_In in Hfd; tauto|exact Hfd]. }
  exists ti, (snd (ser_type s ti)), (jtype_of s ti). split; [exact Hf|]. split; [|split; [|split; [|split]]].
  - assert (Hkey : forall x, In x tis -> ext_name (ti_name x) = ti_name x).
    { intros x Hx. destruct (Hall x Hx) as (n & Hn). destruct (sch_find_name _ _ _ Hn) as [_ Hxs].
      pose proof (Hok _ Hxs) as Hk. rewrite !andb_true_iff in Hk. destruct Hk as ((Hk & _) & _). apply String.eqb_eq in Hk. exact Hk. }
    rewrite (map_ext (ser_type s) (fun x => (fst (ser_type s x), snd (ser_type s x))))
      by (intros x; destruct (ser_type s x); reflexivity).
    apply (alookup_map_first (fun x => fst (ser_type s x)) (fun x => snd (ser_type s x)) t ti).
    + apply filter_In. split; [exact Hti|rewrite Hd; reflexivity].
    + unfold ser_type. cbn [fst]. rewrite Hext. exact Hname.
    + intros x Hx Hkx. apply filter_In in Hx. destruct Hx as [Hx _]. unfold ser_type in Hkx. cbn [fst] in Hkx.
      rewrite (Hkey x Hx) in Hkx. destruct (Hall x Hx) as (n & Hn). destruct (sch_find_name _ _ _ Hn) as [Hnn _].
      rewrite Hkx in Hnn. subst n. rewrite Hf in Hn. inversion Hn. reflexivity.
  - assert (E : (t, snd (ser_type s ti)) = ser_type s ti).
    { unfold ser_type. cbn [snd]. rewrite Hext, Hname. reflexivity. }
    transitivity (parse_jtype (ser_type s ti)); [f_equal; exact E|]. apply parse_ser_type. apply Forall_forall. intros fd Hfd. pose proof (Hown fd Hfd) as Hk.
    unfold fd_okb in Hk. rewrite !andb_true_iff in Hk. tauto.
  - unfold jtype_of. cbn [jt_name]. rewrite Hext. exact Hname.
  - unfold jtype_of. cbn [jt_super]. destruct (parent ti) as [p|]; [apply String.eqb_eq in Hpar; exact Hpar|reflexivity].
  - unfold jtype_of. cbn [jt_feats]. rewrite map_map. apply map_ext_in. intros fd Hfd. apply jdecl_roundtrip. apply Hown. exact Hfd.
Qed.

(* MINIMAL: the declared types contain every used type and are closed under supertype / feature range / element type
   (predefined types, which every reader has, apart); each carries its original declaration *)
Theorem embedded_ts_sufficient_minimal s used decls :
  schema_okb s = true -> ser_types s MMinimal used = Ok [(K_TYPES, JObj decls)] ->
  exists names,
    (forall t, In t used -> is_predefined t = true \/ In t names) /\
    closed_under_refs s names /\
    (forall t, In t names -> exists ti, sch_find s t = Some ti /\ (docann_default s ti = true \/ declared s decls t)).
Proof.
  intros Hok H. destruct (ser_types_inv _ _ _ _ H) as (names & tis & Hn & Ht & Hd & _).
  cbn [types_to_include] in Hn. destruct (closure_closed _ _ _ _ Hn) as (Hc & Hs & Hr).
  exists names. split; [exact Hs|]. split; [exact Hc|].
  intros t Hin. destruct (Hr t Hin) as [_ Hf]. destruct (sch_find s t) as [ti|] eqn:E; [|congruence].
  exists ti. split; [reflexivity|]. destruct (docann_default s ti) eqn:Ed; [left; reflexivity|right].
  eapply included_declared; eassumption.
Qed.

(* FULL: every type of the type system that is not predefined carries its original declaration *)
Theorem embedded_ts_sufficient_full s used decls :
  schema_okb s = true -> ser_types s MFull used = Ok [(K_TYPES, JObj decls)] ->
  forall t ti, sch_find s t = Some ti -> is_predefined t = false -> docann_default s ti = true \/ declared s decls t.
Proof.
  intros Hok H t ti Hf Hp. destruct (ser_types_inv _ _ _ _ H) as (names & tis & Hn & Ht & Hd & _).
  cbn [types_to_include] in Hn. inversion Hn; subst names; clear Hn.
  destruct (docann_default s ti) eqn:Ed; [left; reflexivity|right].
  eapply included_declared; try eassumption.
  apply filter_In. split; [|rewrite Hp; reflexivity].
  destruct (sch_find_name _ _ _ Hf) as [<- Hin]. apply in_map. exact Hin.
Qed.

(* ================================================================================================================ *)
(* denote (save c) = canon c' : generic list / lookup lemmas                                                         *)
(* ================================================================================================================ *)

Lemma alookup_app {V} k (a b : list (string * V)) :
  alookup k (a ++ b) = match alookup k a with Some v => Some v | None => alookup k b end.
Proof.
  induction a as [|[k' v'] r IH]; [reflexivity|]. cbn [app alookup]. destruct (String.eqb k k'); [reflexivity|exact IH].
Qed.
Lemma alookup_notin {V} k (l : list (string * V)) : (forall k' v, In (k', v) l -> k' <> k) -> alookup k l = None.
Proof.
  induction l as [|[k' v'] r IH]; intros H; [reflexivity|]. cbn [alookup].
  destruct (String.eqb k k') eqn:E.
  - apply String.eqb_eq in E. exfalso. apply (H k' v'); [left; reflexivity|auto].
  - apply IH. intros k2 v2 Hin. apply (H k2 v2). right. exact Hin.
Qed.
Lemma mapM_app {A B} (f : A -> res B) (a b : list A) :
  mapM f (a ++ b) = do x <- mapM f a ;; do y <- mapM f b ;; Ok (x ++ y).
Proof.
  induction a as [|x r IH]; cbn [app mapM bind].
  - destruct (mapM f b); reflexivity.
  - destruct (f x); cbn [bind]; try reflexivity. rewrite IH. destruct (mapM f r); cbn [bind]; try reflexivity.
    destruct (mapM f b); reflexivity.
Qed.
Lemma mapM_ok_map {A B} (f : A -> res B) (g : A -> B) l : (forall a, In a l -> f a = Ok (g a)) -> mapM f l = Ok (map g l).
Proof.
  intros H. rewrite <- (map_id l) at 1. apply (mapM_map (fun a => a) f g). exact H.
Qed.
(* decoding what was encoded, element by element *)
Lemma mapM_compose {A B C} (enc : A -> res B) (den : B -> res C) (cv : A -> res C) :
  (forall a j, enc a = Ok j -> den j = cv a) -> forall l js, mapM enc l = Ok js -> mapM den js = mapM cv l.
Proof.
  intros H. induction l as [|a r IH]; cbn [mapM]; intros js E; [inversion E; reflexivity|].
  destruct (enc a) as [j| |] eqn:Ea; cbn [bind] in E; try discriminate.
  destruct (mapM enc r) as [js'| |] eqn:Er; cbn [bind] in E; try discriminate.
  inversion E; subst js. cbn [mapM]. rewrite (H a j Ea), (IH js' eq_refl). reflexivity.
Qed.
Lemma mapM_length {A B} (f : A -> res B) l : forall r, mapM f l = Ok r -> List.length r = List.length l.
Proof.
  induction l as [|a t IH]; cbn [mapM]; intros r H; [inversion H; reflexivity|].
  destruct (f a); cbn [bind] in H; try discriminate. destruct (mapM f t) eqn:E; cbn [bind] in H; try discriminate.
  inversion H. cbn [List.length]. f_equal. apply IH. reflexivity.
Qed.

Lemma string_cons_neq c x : String c x <> x.
Proof. revert c. induction x as [|d r IH]; intros c H; [discriminate|]. injection H as _ H. exact (IH d H). Qed.
Lemma refkey_neq x : String.eqb (refkey x) x = false.
Proof. apply String.eqb_neq. apply string_cons_neq. Qed.
Lemma numkey_neq x : String.eqb (numkey x) x = false.
Proof. apply String.eqb_neq. apply string_cons_neq. Qed.
Lemma ref_num_neq x y : String.eqb (refkey x) (numkey y) = false.
Proof. apply String.eqb_neq. intros H. discriminate H. Qed.
Lemma num_ref_neq x y : String.eqb (numkey x) (refkey y) = false.
Proof. apply String.eqb_neq. intros H. discriminate H. Qed.
Lemma name_ok_first x : name_okb x = true -> forall y, x <> refkey y /\ x <> numkey y /\ x <> K_ID /\ x <> K_TYPE /\ x <> K_ELEMENTS.
Proof.
  intros H y. destruct x as [|c r]; [discriminate|]. cbn [name_okb] in H.
  repeat split; intros E; inversion E; subst c; discriminate.
Qed.

(* ---- values ---- *)

Lemma den_prim_plain c v j : plain_json v = Ok j -> den_prim j = cv_atom c v.
Proof.
  destruct v; cbn [plain_json]; try discriminate; try (intros [= <-]; reflexivity).
  destruct (special_flt x); [discriminate|]. intros [= <-]. reflexivity.
Qed.
Lemma den_ref_ref c v j : ref_json c v = Ok j -> den_ref j = cv_atom c v.
Proof.
  unfold ref_json. destruct v; cbn [ref_id bind cv_atom]; try discriminate.
  - intros [= <-]. reflexivity.
  - destruct (hget (c_heap c) o) as [f|]; cbn [bind]; [|discriminate]. intros [= <-]. destruct (o_id f); reflexivity.
  - destruct (find_sofa c n) as [sf|]; cbn [bind]; [|discriminate]. intros [= <-]. reflexivity.
Qed.
Lemma den_special_float c v j : (match v with VFlt _ => True | _ => False end) -> float_json v = Ok j -> den_special j = cv_atom c v.
Proof.
  destruct v; intros []. cbn [float_json]. intros [= <-]. cbn [cv_atom].
  destruct (special_flt x) as [sp|] eqn:E; [apply special_flt_spec; exact E|reflexivity].
Qed.
Lemma cv_ok_plain c v j : plain_json v = Ok j -> exists w, cv_atom c v = Ok w.
Proof. destruct v; cbn [plain_json cv_atom]; try discriminate; intros _; eexists; reflexivity. Qed.
Lemma cv_ok_ref c v j : ref_json c v = Ok j -> exists w, cv_atom c v = Ok w.
Proof.
  unfold ref_json. destruct v; cbn [ref_id cv_atom bind]; try discriminate.
  - intros _. eexists. reflexivity.
  - destruct (hget (c_heap c) o); cbn [bind]; [|discriminate]. intros _. eexists. reflexivity.
  - destruct (find_sofa c n); cbn [bind]; [|discriminate]. intros _. eexists. reflexivity.
Qed.
Lemma mapM_compose_ok {A B C} (enc : A -> res B) (den : B -> res C) (cv : A -> res C) :
  (forall a j, enc a = Ok j -> den j = cv a /\ exists w, cv a = Ok w) ->
  forall l js, mapM enc l = Ok js -> exists ws, mapM den js = Ok ws /\ mapM cv l = Ok ws.
Proof.
  intros H. induction l as [|a r IH]; cbn [mapM]; intros js E; [inversion E; exists []; split; reflexivity|].
  destruct (enc a) as [j| |] eqn:Ea; cbn [bind] in E; try discriminate.
  destruct (mapM enc r) as [js'| |] eqn:Er; cbn [bind] in E; try discriminate.
  inversion E; subst js. destruct (H a j Ea) as (Hd & w & Hw). destruct (IH js' eq_refl) as (ws & A1 & A2).
  exists (w :: ws). cbn [mapM]. rewrite Hd, Hw, A1, A2. split; reflexivity.
Qed.

Lemma byte_of_cv c l bs : mapM byte_of l = Ok bs -> mapM (cv_atom c) l = Ok (map CInt bs) /\ bytes_okb bs = true.
Proof.
  revert bs. induction l as [|v r IH]; cbn [mapM]; intros bs H; [inversion H; split; reflexivity|].
  destruct (byte_of v) as [z| |] eqn:Ev; cbn [bind] in H; try discriminate.
  destruct (mapM byte_of r) as [zs| |] eqn:Er; cbn [bind] in H; try discriminate. inversion H; subst bs.
  destruct (IH zs eq_refl) as [A B]. unfold byte_of in Ev. destruct v; try discriminate.
  destruct (byte_okb z0) eqn:Eb; [|discriminate]. inversion Ev; subst z0.
  cbn [cv_atom bind map]. rewrite A. cbn [bind bytes_okb forallb]. fold (bytes_okb zs). rewrite Eb, B. split; reflexivity.
Qed.

(* %ELEMENTS of an array: decoding the encoding gives the canonical elements *)
Lemma elements_roundtrip L c t l j : lex_ok L -> l <> [] ->
  (String.eqb t T_FLOAT_ARRAY || String.eqb t T_DOUBLE_ARRAY = true -> forallb (fun v => match v with VFlt _ => true | _ => false end) l = true) ->
  enc_elements L c t l = Ok j -> exists els, den_elements L t (Some j) = Ok els /\ cv_json c (VList l) = Ok (CColl "" els).
Proof.
  intros (_ & Hb64 & Hne) Hl Hfl. unfold enc_elements. cbn [cv_json].
  destruct (String.eqb t T_BYTE_ARRAY) eqn:Eb.
  - destruct (mapM byte_of l) as [bs| |] eqn:Em; cbn [bind]; try discriminate. intros [= <-].
    destruct (byte_of_cv c l bs Em) as [Hcv Hok]. rewrite Hcv. cbn [bind]. exists (map CInt bs). split; [|reflexivity].
    unfold den_elements. rewrite Eb.
    destruct (b64_enc L bs) as [|a r] eqn:Ee.
    + apply Hne in Ee. subst bs. destruct l; [congruence|]. apply mapM_length in Em. discriminate.
    + rewrite <- Ee, (Hb64 bs Hok). reflexivity.
  - assert (Hden : forall js, js <> [] -> den_elements L t (Some (JArr js)) =
              if String.eqb t T_FLOAT_ARRAY || String.eqb t T_DOUBLE_ARRAY then mapM den_special js
              else if String.eqb t T_FS_ARRAY then mapM den_ref js else mapM den_prim js).
    { intros js Hjs. unfold den_elements. rewrite Eb. destruct js; [congruence|reflexivity]. }
    assert (Hnn : forall (f : val -> res json) js, mapM f l = Ok js -> js <> []).
    { intros f js E Hn. subst js. apply mapM_length in E. destruct l; [congruence|discriminate]. }
    replace (String.eqb t T_DOUBLE_ARRAY || String.eqb t T_FLOAT_ARRAY) with (String.eqb t T_FLOAT_ARRAY || String.eqb t T_DOUBLE_ARRAY)
      by apply orb_comm.
    destruct (String.eqb t T_FLOAT_ARRAY || String.eqb t T_DOUBLE_ARRAY) eqn:Ef.
    + destruct (mapM float_json l) as [js| |] eqn:Em; cbn [bind]; try discriminate. intros [= <-].
      rewrite (Hden js (Hnn _ _ Em)); try rewrite Ef.
      specialize (Hfl eq_refl). rewrite forallb_forall in Hfl.
      assert (E : exists ws, mapM den_special js = Ok ws /\ mapM (cv_atom c) l = Ok ws).
      { clear Hden Hnn Hl. revert js Em. induction l as [|v r IH]; cbn [mapM]; intros js E; [inversion E; exists []; split; reflexivity|].
        destruct (float_json v) as [j| |] eqn:Ev; cbn [bind] in E; try discriminate.
        destruct (mapM float_json r) as [js'| |] eqn:Er; cbn [bind] in E; try discriminate. inversion E; subst js.
        pose proof (Hfl v (or_introl eq_refl)) as Hv. destruct v; try discriminate.
        destruct (IH (fun x Hx => Hfl x (or_intror Hx)) js' eq_refl) as (ws & A1 & A2).
        exists (CFlt x :: ws). cbn [mapM]. rewrite (den_special_float c (VFlt x) j I Ev). cbn [cv_atom bind]. rewrite A1, A2. split; reflexivity. }
      destruct E as (ws & A1 & A2). rewrite A1, A2. exists ws. split; reflexivity.
    + destruct (String.eqb t T_FS_ARRAY) eqn:Ea.
      * destruct (mapM (ref_json c) l) as [js| |] eqn:Em; cbn [bind]; try discriminate. intros [= <-].
        rewrite (Hden js (Hnn _ _ Em)); try rewrite Ef; try rewrite Ea.
        destruct (mapM_compose_ok (ref_json c) den_ref (cv_atom c) (fun a j H => conj (den_ref_ref c a j H) (cv_ok_ref c a j H)) l js Em)
          as (ws & A1 & A2). rewrite A1, A2. exists ws. split; reflexivity.
      * destruct (mapM plain_json l) as [js| |] eqn:Em; cbn [bind]; try discriminate. intros [= <-].
        rewrite (Hden js (Hnn _ _ Em)); try rewrite Ef; try rewrite Ea.
        destruct (mapM_compose_ok plain_json den_prim (cv_atom c) (fun a j H => conj (den_prim_plain c a j H) (cv_ok_plain c a j H)) l js Em)
          as (ws & A1 & A2). rewrite A1, A2. exists ws. split; reflexivity.
Qed.

(* ---- one feature of a non-array structure ---- *)

Definition keyset_only (ms : list (string * json)) (x : string) : Prop :=
  forall k v, In (k, v) ms -> k = x \/ k = refkey x \/ k = numkey x.

Lemma den_feature_single_plain fd j : den_feature [(fd_xname fd, j)] fd = do v <- den_prim j ;; Ok (fd_xname fd, v).
Proof. unfold den_feature. cbn [alookup]. rewrite refkey_neq, numkey_neq, String.eqb_refl. reflexivity. Qed.
Lemma den_feature_single_ref fd j : den_feature [(refkey (fd_xname fd), j)] fd = do v <- den_ref j ;; Ok (fd_xname fd, v).
Proof. unfold den_feature. cbn [alookup]. rewrite String.eqb_refl. reflexivity. Qed.
Lemma den_feature_single_num fd j : den_feature [(numkey (fd_xname fd), j)] fd = do v <- den_special j ;; Ok (fd_xname fd, v).
Proof. unfold den_feature. cbn [alookup]. rewrite ref_num_neq, String.eqb_refl. reflexivity. Qed.

Lemma enc_value_den c s fd v1 ms : is_vnone v1 = false -> enc_value c s fd v1 = Ok ms ->
  keyset_only ms (fd_xname fd) /\ exists w, cv_atom c v1 = Ok w /\ den_feature ms fd = Ok (fd_xname fd, w).
Proof.
  intros Hn. unfold enc_value.
  destruct (String.eqb (fd_range fd) T_FLOAT || String.eqb (fd_range fd) T_DOUBLE).
  - destruct v1; try discriminate.
    + intros [= <-]. split; [intros k v [[= <- <-]|[]]; auto|]. exists (CInt z). split; [reflexivity|].
      rewrite den_feature_single_plain. reflexivity.
    + destruct (special_flt x) as [sp|] eqn:E; intros [= <-].
      * split; [intros k v [[= <- <-]|[]]; auto|]. exists (CFlt x). split; [reflexivity|].
        rewrite den_feature_single_num, (special_flt_spec _ _ E). reflexivity.
      * split; [intros k v [[= <- <-]|[]]; auto|]. exists (CFlt x). split; [reflexivity|].
        rewrite den_feature_single_plain. reflexivity.
  - destruct (is_primitive s (fd_range fd)).
    + destruct (plain_json v1) as [j| |] eqn:E; cbn [bind]; try discriminate. intros [= <-].
      split; [intros k v [[= <- <-]|[]]; auto|].
      pose proof (den_prim_plain c v1 j E) as Hd. destruct v1; try discriminate; cbn [cv_atom] in Hd |- *;
        (eexists; split; [reflexivity|]; rewrite den_feature_single_plain, Hd; reflexivity).
    + destruct (ref_json c v1) as [j| |] eqn:E; cbn [bind]; try discriminate. intros [= <-].
      split; [intros k v [[= <- <-]|[]]; auto|].
      pose proof (den_ref_ref c v1 j E) as Hd. rewrite den_feature_single_ref, Hd.
      unfold ref_json in E. destruct (cv_atom c v1) as [w| |] eqn:Ec.
      * exists w. split; reflexivity.
      * exfalso. destruct v1; cbn [ref_id cv_atom bind] in *; try discriminate;
          [destruct (hget (c_heap c) o); discriminate|destruct (find_sofa c n); discriminate].
      * exfalso. destruct v1; cbn [ref_id cv_atom bind] in *; try discriminate;
          [destruct (hget (c_heap c) o); discriminate|destruct (find_sofa c n); discriminate].
Qed.

(* what the document says about a feature, in document units: null when the slot is None *)
Definition doc_cval (c : cas) (s : schema) (t : tname) (f : fsobj) (fd : fdecl) : res cval :=
  do v1 <- doc_val c s t f fd (slot f (fd_name fd)) ;; cv_atom c v1.

Lemma enc_feature_den c s t f fd ms : enc_feature c s t f fd = Ok ms ->
  keyset_only ms (fd_xname fd) /\ exists w, den_feature ms fd = Ok (fd_xname fd, w) /\
    (is_vnone (slot f (fd_name fd)) = true /\ w = CNull \/ doc_cval c s t f fd = Ok w).
Proof.
  unfold enc_feature, doc_cval. destruct (is_vnone (slot f (fd_name fd))) eqn:En.
  - intros [= <-]. split; [intros k v []|]. exists CNull. split; [reflexivity|left; split; reflexivity].
  - destruct (doc_val c s t f fd (slot f (fd_name fd))) as [v1| |] eqn:Ed; cbn [bind]; try discriminate.
    intros H. assert (Hn1 : is_vnone v1 = false).
    { unfold doc_val in Ed. destruct (isa s t T_ANNOTATION && is_offset_name (fd_xname fd)).
      - destruct (slot f "sofa"); try discriminate. destruct (find_sofa c n); try discriminate. inversion Ed.
        destruct (slot f (fd_name fd)); try discriminate; reflexivity.
      - inversion Ed; subst v1. exact En. }
    destruct (enc_value_den c s fd v1 ms Hn1 H) as (Hk & w & Hw & Hd). split; [exact Hk|].
    exists w. split; [exact Hd|right; exact Hw].
Qed.

(* lookups of a feature's three keys in the member list of the whole structure see only that feature's members *)
Lemma keyset_other_none ms x y k : keyset_only ms y -> x <> y -> name_okb x = true -> name_okb y = true ->
  (k = x \/ k = refkey x \/ k = numkey x) -> alookup k ms = None.
Proof.
  intros Hk Hxy Hx Hy Hkx. apply alookup_notin. intros k' v Hin E. subst k'.
  destruct (name_ok_first x Hx y) as (A1 & A2 & _). destruct (name_ok_first y Hy x) as (B1 & B2 & _).
  destruct (Hk _ _ Hin) as [E|[E|E]]; destruct Hkx as [F|[F|F]]; rewrite E in F; clear E.
  - apply Hxy. symmetry. exact F.
  - exact (proj1 (name_ok_first y Hy x) F).
  - exact (proj1 (proj2 (name_ok_first y Hy x)) F).
  - exact (proj1 (name_ok_first x Hx y) (eq_sym F)).
  - apply Hxy. injection F as F. symmetry. exact F.
  - discriminate F.
  - exact (proj1 (proj2 (name_ok_first x Hx y)) (eq_sym F)).
  - discriminate F.
  - apply Hxy. injection F as F. symmetry. exact F.
Qed.

Lemma concat_lookup c s t f : forall feats mss, Forall2 (fun fd ms => enc_feature c s t f fd = Ok ms) feats mss ->
  NoDup (map fd_xname feats) -> (forall fd, In fd feats -> name_okb (fd_xname fd) = true) ->
  forall fd k, name_okb (fd_xname fd) = true ->
    (k = fd_xname fd \/ k = refkey (fd_xname fd) \/ k = numkey (fd_xname fd)) ->
    (~ In (fd_xname fd) (map fd_xname feats) -> alookup k (List.concat mss) = None) /\
    (forall ms, In fd feats -> enc_feature c s t f fd = Ok ms -> alookup k (List.concat mss) = alookup k ms).
Proof.
  induction 1 as [|fd0 ms0 feats mss H0 _ IH]; intros Hnd Hok fd k Hx Hk.
  - split; [reflexivity|intros ms []].
  - cbn [map] in Hnd. inversion Hnd as [|? ? Hnotin Hnd']; subst.
    assert (Hok' : forall fd, In fd feats -> name_okb (fd_xname fd) = true) by (intros g Hg; apply Hok; right; exact Hg).
    destruct (IH Hnd' Hok' fd k Hx Hk) as [IHn IHi]. cbn [List.concat]. rewrite alookup_app.
    destruct (enc_feature_den c s t f fd0 ms0 H0) as (Hk0 & _).
    split.
    + intros Hni. cbn [map In] in Hni.
      rewrite (keyset_other_none ms0 (fd_xname fd) (fd_xname fd0) k Hk0); [apply IHn; tauto| intros E; apply Hni; left; congruence
                                                                        | exact Hx | apply Hok; left; reflexivity | exact Hk].
    + intros ms [<-|Hin] Hms.
      * rewrite H0 in Hms. inversion Hms; subst ms. destruct (alookup k ms0); [reflexivity|]. apply IHn. exact Hnotin.
      * rewrite (keyset_other_none ms0 (fd_xname fd) (fd_xname fd0) k Hk0); [apply IHi; assumption| |exact Hx|apply Hok; left; reflexivity|exact Hk].
        intros E. apply Hnotin. rewrite <- E. apply in_map. exact Hin.
Qed.

Lemma den_feature_agree m ms fd :
  alookup (refkey (fd_xname fd)) m = alookup (refkey (fd_xname fd)) ms ->
  alookup (numkey (fd_xname fd)) m = alookup (numkey (fd_xname fd)) ms ->
  alookup (fd_xname fd) m = alookup (fd_xname fd) ms -> den_feature m fd = den_feature ms fd.
Proof. intros A B C. unfold den_feature. rewrite A, B, C. reflexivity. Qed.

(* all features of a structure, read from its member list *)
Lemma den_features_written c s t f i feats mss :
  mapM (enc_feature c s t f) feats = Ok mss ->
  NoDup (map fd_xname feats) -> (forall fd, In fd feats -> name_okb (fd_xname fd) = true) ->
  exists W : fdecl -> cval,
    mapM (den_feature ([(K_ID, i); (K_TYPE, JStr t)] ++ List.concat mss)) feats = Ok (map (fun fd => (fd_xname fd, W fd)) feats) /\
    forall fd, In fd feats -> (is_vnone (slot f (fd_name fd)) = true /\ W fd = CNull) \/ doc_cval c s t f fd = Ok (W fd).
Proof.
  intros Hm Hnd Hok. pose proof (mapM_Forall2 _ _ _ Hm) as F2.
  assert (Hex : forall fd, In fd feats -> exists w, den_feature ([(K_ID, i); (K_TYPE, JStr t)] ++ List.concat mss) fd = Ok (fd_xname fd, w) /\
            (is_vnone (slot f (fd_name fd)) = true /\ w = CNull \/ doc_cval c s t f fd = Ok w)).
  { intros fd Hin. destruct (Forall2_In_l _ _ _ fd F2 Hin) as (ms & _ & Hms).
    destruct (enc_feature_den c s t f fd ms Hms) as (_ & w & Hd & Hw). exists w. split; [|exact Hw].
    rewrite <- Hd. pose proof (Hok fd Hin) as Hx.
    assert (Hbase : forall k, (k = fd_xname fd \/ k = refkey (fd_xname fd) \/ k = numkey (fd_xname fd)) ->
              alookup k ([(K_ID, i); (K_TYPE, JStr t)] ++ List.concat mss) = alookup k ms).
    { intros k Hk. cbn [app alookup].
      assert (k <> K_ID /\ k <> K_TYPE) as [N1 N2].
      { destruct (name_ok_first _ Hx "") as (_ & _ & A & B & _). destruct Hk as [Hk|[Hk|Hk]]; subst k; split; try assumption; discriminate. }
      apply String.eqb_neq in N1, N2. rewrite N1, N2.
      exact (proj2 (concat_lookup c s t f feats mss F2 Hnd Hok fd k Hx Hk) ms Hin Hms). }
    apply den_feature_agree; apply Hbase; auto. }
  (* choose W by the decoded value *)
  exists (fun fd => match den_feature ([(K_ID, i); (K_TYPE, JStr t)] ++ List.concat mss) fd with Ok (_, w) => w | _ => CNull end).
  split.
  - apply mapM_ok_map. intros fd Hin. destruct (Hex fd Hin) as (w & Hd & _). rewrite Hd. reflexivity.
  - intros fd Hin. destruct (Hex fd Hin) as (w & Hd & Hw). rewrite Hd. exact Hw.
Qed.

(* ---- one structure ---- *)

Lemma xfind_in feats x fd : xfind feats x = Some fd -> In fd feats /\ fd_xname fd = x.
Proof.
  unfold xfind. intros H. apply find_some in H. destruct H as [A B]. apply String.eqb_eq in B. auto.
Qed.
Lemma xfind_unique feats fd : NoDup (map fd_xname feats) -> In fd feats -> xfind feats (fd_xname fd) = Some fd.
Proof.
  unfold xfind. induction feats as [|g r IH]; intros Hnd Hin; [destruct Hin|]. cbn [find map] in *.
  inversion Hnd as [|? ? Hni Hnd']; subst. destruct (String.eqb (fd_xname g) (fd_xname fd)) eqn:E.
  - destruct Hin as [->|Hin]; [reflexivity|]. apply String.eqb_eq in E. exfalso. apply Hni. rewrite E. apply in_map. exact Hin.
  - destruct Hin as [->|Hin]; [rewrite String.eqb_refl in E; discriminate|]. apply IH; assumption.
Qed.
Lemma alookup_by_xname {V} (W : fdecl -> V) feats x :
  alookup x (map (fun fd => (fd_xname fd, W fd)) feats) = option_map W (xfind feats x).
Proof.
  unfold xfind. induction feats as [|g r IH]; [reflexivity|]. cbn [map alookup find].
  rewrite String.eqb_sym. destruct (String.eqb (fd_xname g) x); [reflexivity|exact IH].
Qed.

Lemma snodup_NoDup l : snodup l = true -> NoDup l.
Proof.
  induction l as [|x r IH]; cbn [snodup]; intros H; [constructor|]. apply andb_true_iff in H. destruct H as [A B].
  constructor; [|apply IH; exact B]. intros Hin. apply memb_In in Hin. rewrite Hin in A. discriminate.
Qed.

Lemma strip_none_norm t : match strip_brackets t with Some _ => false | None => true end = true -> norm_tname t = t.
Proof. unfold norm_tname. destruct (strip_brackets t); [discriminate|reflexivity]. Qed.

Lemma cv_json_atom c v w : cv_atom c v = Ok w -> cv_json c v = Ok w.
Proof. destruct v; cbn [cv_json]; auto. cbn [cv_atom]. discriminate. Qed.

Lemma conv_p2e txt i : (0 <= i <= match txt with Some t => Z.of_nat (List.length t) | None => 0 end) ->
  conv_off txt (CInt (p2e_text txt i)) = CInt i.
Proof.
  intros H. destruct txt as [t|]; cbn [conv_off p2e_text]; [|reflexivity].
  rewrite OffsetsProofs.ext2py_py2ext; [reflexivity|exact H].
Qed.

(* the sofa table of the document resolves every sofa of the CAS to its own text *)
Definition stab_ok (c : cas) (stab : list (xid * option text)) : Prop :=
  forall n sf, find_sofa c n = Some sf -> zlookup (s_xid sf) stab = Some (s_text sf).

Lemma den_fs_written L s c f i m stab :
  lex_ok L -> o_id f = Some i -> obj_okb s c f = true -> stab_ok c stab -> enc_fs L s c f = Ok m ->
  exists cf, canon_fs s c f = Ok cf /\ den_fs L s stab (i, m) = Ok (i, cf).
Proof.
  intros HL Hid Hok Hst Henc. unfold obj_okb in Hok. apply andb_true_iff in Hok. destruct Hok as [Htn Hok].
  unfold tname_okb in Htn. apply andb_true_iff in Htn. destruct Htn as [_ Hsb].
  unfold enc_fs in Henc. unfold canon_fs, den_fs. set (t := o_type f) in *.
  destruct (sch_find s t) as [ti|] eqn:Eti; [|discriminate].
  assert (Hty : forall rest, e_type (i, (K_ID, id_json f) :: (K_TYPE, JStr t) :: rest) = Some t) by reflexivity.
  destruct (is_array_name t) eqn:Earr.
  - (* arrays *)
    destruct (slot f "elements") as [| | | | | |l|] eqn:Esl; try discriminate.
    destruct (nonempty_list (VList l)) as [l'|] eqn:Enl.
    + destruct l as [|x r]; [discriminate|]. inversion Enl; subst l'.
      destruct (enc_elements L c t (x :: r) ) as [j| |] eqn:Ee; cbn [bind] in Henc; try discriminate. inversion Henc; subst m.
      cbn [app snd]. rewrite Hty. rewrite (strip_none_norm t Hsb), Eti, Earr.
      change (alookup K_ELEMENTS [(K_ID, id_json f); (K_TYPE, JStr t); (K_ELEMENTS, j)]) with (Some j).
      pose proof (elements_roundtrip L c t (x :: r) j HL) as Hr.
      assert (Hfl : String.eqb t T_FLOAT_ARRAY || String.eqb t T_DOUBLE_ARRAY = true ->
                    forallb (fun v => match v with VFlt _ => true | _ => false end) (x :: r) = true).
      { intros Hf. rewrite Hf in Hok. exact Hok. }
      destruct (Hr ltac:(discriminate) Hfl Ee) as (els & Ed & Ecv). rewrite Ed, Ecv.
      cbn [bind fst]. eexists. split; reflexivity.
    + destruct l; [|discriminate]. inversion Henc; subst m. cbn [snd]. rewrite Hty.
      rewrite (strip_none_norm t Hsb), Eti, Earr. cbn [alookup]. cbn [den_elements bind cv_json mapM fst].
      eexists. split; reflexivity.
  - (* other types *)
    destruct (mapM (enc_feature c s t f) (ti_feats ti)) as [mss| |] eqn:Em; cbn [bind] in Henc; try discriminate.
    inversion Henc; subst m. clear Henc.
    apply andb_true_iff in Hok. destruct Hok as [Hok Hann]. apply andb_true_iff in Hok. destruct Hok as [Hnames Hnd].
    rewrite forallb_forall in Hnames. apply snodup_NoDup in Hnd.
    destruct (den_features_written c s t f (id_json f) (ti_feats ti) mss Em Hnd Hnames) as (W & HW & HWv).
    cbn [snd]. rewrite (Hty (List.concat mss)). rewrite (strip_none_norm t Hsb), Eti, Earr.
    change ((K_ID, id_json f) :: (K_TYPE, JStr t) :: List.concat mss) with ([(K_ID, id_json f); (K_TYPE, JStr t)] ++ List.concat mss).
    rewrite HW. cbn [bind].
    (* canonical values *)
    set (CW := fun fd => if isa s t T_ANNOTATION && is_offset_name (fd_xname fd)
                         then match slot f (fd_name fd) with VInt z => CInt z | _ => W fd end else W fd).
    assert (Hcanon : forall fd, In fd (ti_feats ti) ->
              (isa s t T_ANNOTATION && is_offset_name (fd_xname fd) = true ->
                 match slot f (fd_name fd) with VNone | VInt _ => True | _ => False end) ->
              cv_json c (slot f (fd_name fd)) = Ok (CW fd)).
    { intros fd Hin Hoff. unfold CW. destruct (HWv fd Hin) as [[Hn Hw]|Hd].
      - destruct (slot f (fd_name fd)); try discriminate. rewrite Hw. destruct (isa s t T_ANNOTATION && is_offset_name (fd_xname fd)); reflexivity.
      - unfold doc_cval, doc_val in Hd. destruct (isa s t T_ANNOTATION && is_offset_name (fd_xname fd)) eqn:Eo.
        + specialize (Hoff eq_refl). destruct (slot f "sofa"); try discriminate. destruct (find_sofa c n); try discriminate.
          cbn [bind] in Hd. destruct (slot f (fd_name fd)); try contradiction; [apply cv_json_atom; exact Hd|reflexivity].
        + cbn [bind] in Hd. apply cv_json_atom. exact Hd. }
    destruct (isa s t T_ANNOTATION) eqn:Eann.
    + (* annotation: begin/end come back through the sofa's text *)
      destruct (slot f "sofa") as [| | | | | | |n] eqn:Eso; try discriminate.
      destruct (find_sofa c n) as [sf|] eqn:Efs; [|discriminate].
      apply andb_true_iff in Hann. destruct Hann as [Hoffs Hx]. apply andb_true_iff in Hoffs. destruct Hoffs as [Hob Hoe].
      destruct (xfind (ti_feats ti) "begin") as [fb|] eqn:Eb; [|discriminate].
      destruct (xfind (ti_feats ti) "end") as [fe|] eqn:Ee; [|discriminate].
      destruct (xfind (ti_feats ti) "sofa") as [fso|] eqn:Es; [|discriminate].
      rewrite !andb_true_iff in Hx. destruct Hx as (((Hnb & Hne) & Hns) & Hnp).
      apply String.eqb_eq in Hnb, Hne, Hns. apply negb_true_iff in Hnp.
      destruct (xfind_in _ _ _ Eb) as [Hbin Hbx]. destruct (xfind_in _ _ _ Ee) as [Hein Hex]. destruct (xfind_in _ _ _ Es) as [Hsin Hsx].
      (* the sofa feature is the id of the annotation's sofa *)
      assert (Hsofa : W fso = CRef (s_xid sf)).
      { destruct (HWv fso Hsin) as [[Hn _]|Hd]; [rewrite Hns, Eso in Hn; discriminate|].
        unfold doc_cval, doc_val in Hd. rewrite Hsx in Hd. cbn [is_offset_name String.eqb Ascii.eqb Bool.eqb orb andb] in Hd.
        rewrite andb_false_r in Hd. cbn [bind] in Hd. rewrite Hns, Eso in Hd. cbn [cv_atom ref_id] in Hd. rewrite Efs in Hd. cbn [bind] in Hd.
        inversion Hd. reflexivity. }
      rewrite (alookup_by_xname W (ti_feats ti) "sofa"), Es. cbn [option_map]. rewrite Hsofa, (Hst n sf Efs). cbn [bind].
      assert (Hoffname : forall fd, In fd (ti_feats ti) -> is_offset_name (fd_xname fd) = true ->
                match slot f (fd_name fd) with
                | VNone => True
                | VInt z => 0 <= z <= match s_text sf with Some tx => Z.of_nat (List.length tx) | None => 0 end
                | _ => False end).
      { intros fd Hin Hon. unfold is_offset_name in Hon. apply orb_true_iff in Hon.
        assert (Hcase : fd = fb \/ fd = fe).
        { destruct Hon as [E|E]; apply String.eqb_eq in E; pose proof (xfind_unique _ _ Hnd Hin) as Hu; rewrite E in Hu;
            [left; rewrite Eb in Hu|right; rewrite Ee in Hu]; inversion Hu; reflexivity. }
        destruct Hcase as [->| ->]; [rewrite Hnb; destruct (slot f "begin"); try discriminate; [exact I|lia]
                                   |rewrite Hne; destruct (slot f "end"); try discriminate; [exact I|lia]]. }
      assert (Hmap : mapM (fun fd => do v <- cv_json c (slot f (fd_name fd)) ;; Ok (fd_xname fd, v)) (ti_feats ti)
                     = Ok (map (fun fd => (fd_xname fd, CW fd)) (ti_feats ti))).
      { apply mapM_ok_map. intros fd Hin. rewrite (Hcanon fd Hin); [reflexivity|].
        cbn [andb]. intros Hon. pose proof (Hoffname fd Hin Hon) as Hv. destruct (slot f (fd_name fd)); auto. }
      rewrite Hmap. cbn [bind fst]. eexists. split; [reflexivity|]. do 4 f_equal.
      try rewrite map_map. apply map_ext_in. intros fd Hin. cbn [fst snd]. unfold CW. cbn [andb].
      destruct (is_offset_name (fd_xname fd)) eqn:Eon; [|reflexivity]. f_equal.
      pose proof (Hoffname fd Hin Eon) as Hv.
      destruct (HWv fd Hin) as [[Hn Hw]|Hd].
      * destruct (slot f (fd_name fd)); try discriminate. rewrite Hw. reflexivity.
      * unfold doc_cval, doc_val in Hd. rewrite Eann, Eon, Eso, Efs in Hd. cbn [andb bind] in Hd.
        destruct (slot f (fd_name fd)) eqn:Ev; try contradiction.
        -- cbn [cv_atom] in Hd. inversion Hd. reflexivity.
        -- cbn [cv_atom] in Hd. inversion Hd. apply conv_p2e. exact Hv.
    + assert (Hmap : mapM (fun fd => do v <- cv_json c (slot f (fd_name fd)) ;; Ok (fd_xname fd, v)) (ti_feats ti)
                     = Ok (map (fun fd => (fd_xname fd, CW fd)) (ti_feats ti))).
      { apply mapM_ok_map. intros fd Hin. rewrite (Hcanon fd Hin); [reflexivity|]. cbn [andb]. discriminate. }
      rewrite Hmap. cbn [bind fst]. eexists. split; reflexivity.
Qed.
