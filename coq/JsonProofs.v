(* JsonProofs.v — lemmas and theorems about the JSON-CAS models (JsonDoc.v, Json.v). *)
From Coq Require Import Ascii ZifyBool.
From Cassis Require Import Base Heap Schema Canon Reach ReachProofs ReachSpec JsonDoc Json.
From Cassis Require Offsets OffsetsProofs.
Open Scope Z_scope.

(* ---- per-feature-kind round trips: decoding what the writer encodes gives the canonical value ---- *)

Lemma special_flt_spec x sp : special_flt x = Some sp -> den_special (JStr sp) = Ok (CFlt x).
Proof.
  unfold special_flt.
  destruct (String.eqb x "nan") eqn:E1; [apply String.eqb_eq in E1; subst; intros [= <-]; reflexivity|].
  destruct (String.eqb x "inf") eqn:E2; [apply String.eqb_eq in E2; subst; intros [= <-]; reflexivity|].
  destruct (String.eqb x "-inf") eqn:E3; [apply String.eqb_eq in E3; subst; intros [= <-]; reflexivity|].
  discriminate.
Qed.

(* ================================================================================================================ *)
(* transitive_closure: the result is closed under supertype, feature range and element type                         *)
(* ================================================================================================================ *)

(* the types a type refers to directly: its supertype, and range and element type of every effective feature *)
Definition type_refs (s : schema) (t : tname) : list tname :=
  match sch_find s t with
  | Some ti => (match parent ti with Some p => [p] | None => [] end)
               ++ flat_map (fun fd => fd_range fd :: match fd_elem fd with Some e => [e] | None => [] end) (ti_feats ti)
  | None => []
  end.
Definition closed_under_refs (s : schema) (r : list tname) : Prop :=
  forall t u, In t r -> In u (type_refs s t) -> is_predefined u = true \/ In u r.

Lemma memb_false s l : memb s l = false <-> ~ In s l.
Proof.
  rewrite <- memb_In. destruct (memb s l); split.
  - discriminate.
  - intros H. exfalso. apply H. reflexivity.
  - intros _ H. discriminate.
  - reflexivity.
Qed.

Lemma unvisited_spec vis n u : In u (unvisited vis n) <-> u = n /\ ~ In n vis.
Proof.
  unfold unvisited. destruct (memb n vis) eqn:E.
  - apply memb_In in E. split; [intros []|intros [_ H]; contradiction].
  - apply memb_false in E. cbn [In]. split; [intros [<-|[]]; auto|intros [-> _]; auto].
Qed.

Section Closure.
  Variable s : schema.

  (* what is pushed when t is visited covers every direct reference of t that is not visited *)
  Lemma pushed_covers t ti vis u : sch_find s t = Some ti -> In u (type_refs s t) -> In u vis \/
    In u ((match parent ti with Some p => unvisited vis p | None => [] end)
          ++ flat_map (fun fd => unvisited vis (fd_range fd) ++ match fd_elem fd with Some e => unvisited vis e | None => [] end)
                      (ti_feats ti)).
  Proof.
    intros E Hu. unfold type_refs in Hu. rewrite E in Hu.
    destruct (memb u vis) eqn:Em; [left; apply memb_In; exact Em|right]. apply memb_false in Em.
    apply in_app_or in Hu. apply in_or_app. destruct Hu as [Hu|Hu].
    - left. destruct (parent ti) as [p|]; [|destruct Hu]. destruct Hu as [<-|[]]. apply unvisited_spec. auto.
    - right. apply in_flat_map in Hu. destruct Hu as (fd & Hfd & Hu). apply in_flat_map. exists fd. split; [exact Hfd|].
      apply in_or_app. destruct Hu as [<-|Hu]; [left; apply unvisited_spec; auto|right].
      destruct (fd_elem fd) as [e|]; [|destruct Hu]. destruct Hu as [<-|[]]. apply unvisited_spec. auto.
  Qed.

  Definition cinv (vis open : list tname) : Prop :=
    forall t u, In t vis -> In u (type_refs s t) -> is_predefined u = true \/ In u vis \/ In u open.

  Definition cspec (vis open r : list tname) : Prop :=
    (forall t, In t vis -> In t r) /\
    (forall u, In u open -> is_predefined u = true \/ In u r) /\
    (cinv vis open -> closed_under_refs s r) /\
    ((forall t, In t vis -> is_predefined t = false) -> forall t, In t r -> is_predefined t = false) /\
    ((forall t, In t vis -> sch_find s t <> None) -> forall t, In t r -> sch_find s t <> None).

  Lemma cspec_done vis : cspec vis [] vis.
  Proof.
    unfold cspec. split; [auto|]. split; [intros u []|]. split; [|split; auto].
    intros I t u Ht Hu. destruct (I t u Ht Hu) as [Hp|[Hv|[]]]; auto.
  Qed.

  Lemma cspec_skip vis t rest r : (In t vis \/ is_predefined t = true) -> cspec vis rest r -> cspec vis (t :: rest) r.
  Proof.
    intros Hs (A & B & C & D & E). unfold cspec. split; [exact A|]. split; [|split; [|split; [exact D|exact E]]].
    - intros u [<-|Hu]; [destruct Hs as [Hv|Hp]; [right; apply A; exact Hv|left; exact Hp]|apply B; exact Hu].
    - intros I. apply C. intros x u Hx Hu. destruct (I x u Hx Hu) as [Hp|[Hv|[<-|Ho]]]; auto.
      destruct Hs as [Hv|Hp]; auto.
  Qed.

  Lemma tclosure_spec : forall fuel vis open r, tclosure fuel s vis open = Ok r -> cspec vis open r.
  Proof.
    induction fuel as [|k IH]; intros vis open r H.
    - destruct open as [|t rest]; cbn [tclosure] in H; [|discriminate]. inversion H; subst r. apply cspec_done.
    - destruct open as [|t rest]; cbn [tclosure] in H.
      { inversion H; subst r. apply cspec_done. }
      destruct (memb t vis) eqn:Ev.
      { apply memb_In in Ev. apply cspec_skip; [left; exact Ev|]. apply IH. exact H. }
      destruct (is_predefined t) eqn:Ep.
      { apply cspec_skip; [right; exact Ep|]. apply IH. exact H. }
      destruct (sch_find s t) as [ti|] eqn:Et; [|discriminate].
      destruct (IH _ _ _ H) as (A & B & C & D & E). unfold cspec. split; [|split; [|split; [|split]]].
      + intros x Hx. apply A. apply in_or_app. left. exact Hx.
      + intros u [<-|Hu]; [right; apply A; apply in_or_app; right; left; reflexivity|].
        apply B. apply in_or_app. left. exact Hu.
      + intros I. apply C. intros x u Hx Hu. apply in_app_or in Hx. destruct Hx as [Hx|[<-|[]]].
        * destruct (I x u Hx Hu) as [Hp|[Hv|[<-|Ho]]].
          -- left. exact Hp.
          -- right. left. apply in_or_app. left. exact Hv.
          -- right. left. apply in_or_app. right. left. reflexivity.
          -- right. right. apply in_or_app. left. exact Ho.
        * destruct (pushed_covers t ti (vis ++ [t]) u Et Hu) as [Hv|Hn]; [right; left; exact Hv|].
          right. right. apply in_or_app. right. exact Hn.
      + intros Hv. apply D. intros x Hx. apply in_app_or in Hx. destruct Hx as [Hx|[<-|[]]]; [apply Hv; exact Hx|exact Ep].
      + intros Hv. apply E. intros x Hx. apply in_app_or in Hx. destruct Hx as [Hx|[<-|[]]]; [apply Hv; exact Hx|congruence].
  Qed.

  (* MINIMAL: what transitive_closure returns contains the (non-predefined) seeds, only non-predefined known types,
     and with every type its supertype and the range and element type of each of its effective features, unless
     predefined *)
  Theorem closure_closed : forall fuel seeds r, tclosure fuel s [] seeds = Ok r ->
    closed_under_refs s r /\
    (forall t, In t seeds -> is_predefined t = true \/ In t r) /\
    (forall t, In t r -> is_predefined t = false /\ sch_find s t <> None).
  Proof.
    intros fuel seeds r H. destruct (tclosure_spec _ _ _ _ H) as (_ & B & C & D & E).
    split; [apply C; intros t u []|]. split; [exact B|].
    intros t Ht. split; [apply D; [intros x []|exact Ht]|apply E; [intros x []|exact Ht]].
  Qed.
End Closure.

(* ================================================================================================================ *)
(* embedded type declarations: what _serialize_type writes, read back by _parse_features, is the original declaration *)
(* ================================================================================================================ *)

Lemma strip_brackets_app e : strip_brackets (String.append e "[]") = Some e.
Proof.
  induction e as [|c r IH]; [reflexivity|].
  cbn [String.append]. cbn [strip_brackets]. fold (String.append r "[]").
  destruct (String.eqb (String c (String.append r "[]")) "[]") eqn:E.
  - apply String.eqb_eq in E. exfalso. injection E as Hc Hr. destruct r as [|c2 r2]; cbn in Hr; [discriminate|].
    injection Hr as _ H2. destruct r2; cbn in H2; discriminate.
  - rewrite IH. reflexivity.
Qed.

Lemma starts_pct x : name_okb x = true -> starts_with "%" x = false.
Proof.
  destruct x as [|c r]; [discriminate|]. cbn [name_okb starts_with].
  destruct (Ascii.eqb "%" c) eqn:E; [|reflexivity]. apply Ascii.eqb_eq in E. subst c. discriminate.
Qed.

(* the declaration of a feature as it stands in %TYPES *)
Definition jfeat_of (fd : fdecl) : jfeat :=
  mkJf (fd_xname fd) (range_name fd)
       (if is_array_name (fd_range fd) then None else option_map ext_name (fd_elem fd))
       (if fd_multi fd then Some true else None).

Lemma parse_ser_feature fd : parse_jfeat (ser_feature fd) = Ok (jfeat_of fd).
Proof.
  unfold ser_feature, parse_jfeat, jfeat_of. cbn [fst snd].
  destruct (fd_multi fd); destruct (is_array_name (fd_range fd)); destruct (fd_elem fd); reflexivity.
Qed.

(* a feature declaration the JSON type section can express faithfully *)
Definition fd_okb (fd : fdecl) : bool :=
  name_okb (fd_xname fd) && String.eqb (fd_name fd) (pyname (fd_xname fd))
  && String.eqb (ext_name (fd_range fd)) (fd_range fd)
  && match fd_elem fd with Some e => String.eqb (ext_name e) e | None => true end
  && (if is_array_name (fd_range fd) then
        if is_prim_array_name (fd_range fd) then match fd_elem fd with None => true | Some _ => false end
        else match fd_elem fd with Some e => String.eqb (array_type_name_for e) T_FS_ARRAY | None => true end
      else match strip_brackets (fd_range fd) with None => true | Some _ => false end).
(* an FSArray feature without element type comes back with element type TOP *)
Definition norm_fd (fd : fdecl) : fdecl :=
  if String.eqb (fd_range fd) T_FS_ARRAY then
    match fd_elem fd with None => mkFd (fd_name fd) (fd_xname fd) (fd_range fd) (Some T_TOP) (fd_multi fd) | Some _ => fd end
  else fd.

Lemma prim_array_cases r : is_prim_array_name r = true ->
  array_type_name_for (element_type_name_for r) = r /\ String.eqb r T_FS_ARRAY = false.
Proof.
  unfold is_prim_array_name. intros H. apply memb_In in H. cbn in H.
  repeat (destruct H as [<-|H]; [split; reflexivity|]). destruct H.
Qed.

Lemma jdecl_roundtrip fd : fd_okb fd = true -> jdecl_of (jfeat_of fd) = norm_fd fd.
Proof.
  unfold fd_okb. rewrite !andb_true_iff. intros ((((Hn & Hpy) & Hr) & He) & Hk).
  apply String.eqb_eq in Hpy, Hr.
  unfold jdecl_of, jrange, jfeat_of, norm_fd, range_name. cbn [jf_name jf_range jf_elem jf_multi].
  destruct fd as [n x r e m]. cbn [fd_name fd_xname fd_range fd_elem fd_multi] in *. subst n.
  assert (Hm : match (if m then Some true else None) with Some true => true | _ => false end = m) by (destruct m; reflexivity).
  rewrite Hm. unfold is_array_name in *.
  destruct (is_prim_array_name r) eqn:Ep.
  - cbn [orb] in *. destruct e; [discriminate|]. rewrite strip_brackets_app. cbn [fst snd].
    destruct (prim_array_cases r Ep) as [Ha Hf]. rewrite Ha, Ep, Hf. reflexivity.
  - cbn [orb] in *. destruct (String.eqb r T_FS_ARRAY) eqn:Ef.
    + apply String.eqb_eq in Ef. subst r. rewrite strip_brackets_app. cbn [fst snd].
      destruct e as [e|].
      * apply String.eqb_eq in He, Hk. rewrite He, Hk. reflexivity.
      * reflexivity.
    + rewrite Hr. destruct (strip_brackets r); [discriminate|]. cbn [fst snd].
      destruct e as [e|]; [apply String.eqb_eq in He; cbn [option_map]; rewrite He|]; reflexivity.
Qed.

Lemma mapM_map {A B C} (f : A -> B) (g : B -> res C) (h : A -> C) l :
  (forall a, In a l -> g (f a) = Ok (h a)) -> mapM g (map f l) = Ok (map h l).
Proof.
  induction l as [|a r IH]; intros H; [reflexivity|]. cbn [map mapM]. rewrite (H a (or_introl eq_refl)). cbn [bind].
  rewrite IH; [reflexivity|]. intros b Hb. apply H. right. exact Hb.
Qed.

Lemma filter_pct l : Forall (fun fd => name_okb (fd_xname fd) = true) l ->
  filter (fun kv : string * json => negb (starts_with "%" (fst kv))) (map ser_feature l) = map ser_feature l.
Proof.
  induction 1 as [|fd r Hfd _ IH]; [reflexivity|]. cbn [map filter]. unfold ser_feature at 1. cbn [fst].
  rewrite (starts_pct _ Hfd). cbn [negb]. f_equal. exact IH.
Qed.

(* a type declaration as it stands in %TYPES *)
Definition jtype_of (s : schema) (ti : tinfo) : jtype :=
  mkJt (ext_name (ti_name ti)) (match parent ti with Some p => ext_name p | None => "" end) (map jfeat_of (own_feats s ti)).

Lemma parse_ser_type s ti : Forall (fun fd => name_okb (fd_xname fd) = true) (own_feats s ti) ->
  parse_jtype (ser_type s ti) = Ok (jtype_of s ti).
Proof.
  intros Hn. unfold ser_type, parse_jtype, jtype_of. cbn [fst snd].
  change (alookup "%SUPER_TYPE" ([("%NAME", JStr (ext_name (ti_name ti)));
            ("%SUPER_TYPE", JStr match parent ti with Some p => ext_name p | None => "" end)] ++ map ser_feature (own_feats s ti)))
    with (Some (JStr match parent ti with Some p => ext_name p | None => "" end)).
  cbn [app filter fst].
  change (starts_with "%" "%NAME") with true. change (starts_with "%" "%SUPER_TYPE") with true. cbn [negb].
  rewrite (filter_pct _ Hn). rewrite (mapM_map ser_feature parse_jfeat jfeat_of); [reflexivity|].
  intros fd _. apply parse_ser_feature.
Qed.

(* ---- which types are declared ---- *)

Definition schema_okb (s : schema) : bool :=
  forallb (fun ti => String.eqb (ext_name (ti_name ti)) (ti_name ti)
                     && match parent ti with Some p => String.eqb (ext_name p) p | None => true end
                     && forallb fd_okb (ti_feats ti)) s.

(* %TYPES declares t with the original supertype and, for each own feature, the original range, element type (TOP for
   an FSArray without one) and multipleReferencesAllowed truth value *)
Definition declared (s : schema) (decls : list (string * json)) (t : tname) : Prop :=
  exists ti j jt, sch_find s t = Some ti /\ alookup t decls = Some j /\ parse_jtype (t, j) = Ok jt /\
    jt_name jt = t /\ jt_super jt = match parent ti with Some p => p | None => "" end /\
    map jdecl_of (jt_feats jt) = map norm_fd (own_feats s ti).

Lemma sch_find_name s n ti : sch_find s n = Some ti -> ti_name ti = n /\ In ti s.
Proof.
  induction s as [|t r IH]; cbn [sch_find]; [discriminate|].
  destruct (String.eqb n (ti_name t)) eqn:E.
  - intros [= <-]. apply String.eqb_eq in E. split; [symmetry; exact E|left; reflexivity].
  - intros H. destruct (IH H) as [A B]. split; [exact A|right; exact B].
Qed.
Lemma sch_find_In s n : In n (map ti_name s) -> sch_find s n <> None.
Proof.
  induction s as [|t r IH]; cbn [map In sch_find]; [intros []|].
  intros [<-|H]; [rewrite String.eqb_refl; discriminate|]. destruct (String.eqb n (ti_name t)); [discriminate|auto].
Qed.

Lemma sinsert_In x y l : In x (sinsert y l) <-> x = y \/ In x l.
Proof.
  induction l as [|z r IH]; cbn [sinsert In]; [intuition|].
  destruct (String.leb y z); cbn [In]; [intuition|]. rewrite IH. intuition.
Qed.
Lemma sort_names_In x l : In x (sort_names l) <-> In x l.
Proof.
  induction l as [|y r IH]; cbn [sort_names fold_right In]; [tauto|].
  fold (sort_names r). rewrite sinsert_In, IH. intuition.
Qed.

Lemma mapM_Forall2 {A B} (f : A -> res B) l : forall r, mapM f l = Ok r -> Forall2 (fun a b => f a = Ok b) l r.
Proof.
  induction l as [|a t IH]; cbn [mapM]; intros r H; [inversion H; constructor|].
  destruct (f a) as [b| |] eqn:E; cbn [bind] in H; try discriminate.
  destruct (mapM f t) as [bs| |] eqn:E2; cbn [bind] in H; try discriminate.
  inversion H; subst r. constructor; [exact E|apply IH; reflexivity].
Qed.
Lemma Forall2_In_l {A B} (R : A -> B -> Prop) l r a : Forall2 R l r -> In a l -> exists b, In b r /\ R a b.
Proof.
  induction 1 as [|x y l r Hxy _ IH]; [intros []|]. intros [<-|H]; [exists y; split; [left; reflexivity|exact Hxy]|].
  destruct (IH H) as (b & Hb & Rb). exists b. split; [right; exact Hb|exact Rb].
Qed.
Lemma Forall2_In_r {A B} (R : A -> B -> Prop) l r b : Forall2 R l r -> In b r -> exists a, In a l /\ R a b.
Proof.
  induction 1 as [|x y l r Hxy _ IH]; [intros []|]. intros [<-|H]; [exists x; split; [left; reflexivity|exact Hxy]|].
  destruct (IH H) as (a & Ha & Ra). exists a. split; [right; exact Ha|exact Ra].
Qed.

Lemma alookup_map_first {X V} (key : X -> string) (val : X -> V) t a : forall l,
  In a l -> key a = t -> (forall x, In x l -> key x = t -> x = a) ->
  alookup t (map (fun x => (key x, val x)) l) = Some (val a).
Proof.
  induction l as [|x r IH]; [intros []|]. intros Hin Hk Hu. cbn [map alookup].
  destruct (String.eqb t (key x)) eqn:E.
  - apply String.eqb_eq in E. rewrite (Hu x (or_introl eq_refl) (eq_sym E)). reflexivity.
  - destruct Hin as [->|Hin]; [rewrite Hk, String.eqb_refl in E; discriminate|].
    apply IH; [exact Hin|exact Hk|]. intros y Hy. apply Hu. right. exact Hy.
Qed.

Definition find_ti (s : schema) (n : tname) : res tinfo :=
  match sch_find s n with Some ti => Ok ti | None => Err ETypeNotFound end.

Lemma ser_types_inv s mode used decls : ser_types s mode used = Ok [(K_TYPES, JObj decls)] ->
  exists names tis, types_to_include s mode used = Ok names /\ mapM (find_ti s) (sort_names names) = Ok tis /\
    decls = map (ser_type s) (filter (fun ti => negb (docann_default s ti)) tis) /\ mode <> MNone.
Proof.
  unfold ser_types. intros H.
  destruct mode; try discriminate;
  (destruct (types_to_include s _ used) as [names| |] eqn:En; cbn [bind] in H; try discriminate;
   fold (find_ti s) in H;
   destruct (mapM (find_ti s) (sort_names names)) as [tis| |] eqn:Et; cbn [bind] in H; try discriminate;
   inversion H; subst decls; exists names, tis; split; [first [exact En|reflexivity]|split; [first [exact Et|reflexivity]|split; [reflexivity|discriminate]]]).
Qed.

Lemma included_declared s decls names tis t ti :
  schema_okb s = true ->
  mapM (find_ti s) (sort_names names) = Ok tis ->
  decls = map (ser_type s) (filter (fun ti => negb (docann_default s ti)) tis) ->
  In t names -> sch_find s t = Some ti -> docann_default s ti = false -> declared s decls t.
Proof.
  intros Hok Ht -> Hin Hf Hd.
  pose proof (mapM_Forall2 _ _ _ Ht) as F2.
  assert (Hall : forall x, In x tis -> exists n, sch_find s n = Some x).
  { intros x Hx. destruct (Forall2_In_r _ _ _ _ F2 Hx) as (n & _ & Hn). unfold find_ti in Hn.
    destruct (sch_find s n) eqn:E; inversion Hn; subst. exists n. exact E. }
  assert (Hti : In ti tis).
  { destruct (Forall2_In_l _ _ _ t F2 (proj2 (sort_names_In _ _) Hin)) as (b & Hb & Rb).
    unfold find_ti in Rb. rewrite Hf in Rb. inversion Rb; subst b. exact Hb. }
  destruct (sch_find_name _ _ _ Hf) as [Hname Hins].
  unfold schema_okb in Hok. rewrite forallb_forall in Hok. pose proof (Hok _ Hins) as Hk.
  rewrite !andb_true_iff in Hk. destruct Hk as ((Hext & Hpar) & Hfds). apply String.eqb_eq in Hext.
  rewrite forallb_forall in Hfds.
  assert (Hown : forall fd, In fd (own_feats s ti) -> fd_okb fd = true).
  { intros fd Hfd. apply Hfds. unfold own_feats in Hfd. destruct (parent ti); [apply filter_In in Hfd; tauto|exact Hfd]. }
  exists ti, (snd (ser_type s ti)), (jtype_of s ti). split; [exact Hf|]. split; [|split; [|split; [|split]]].
  - assert (Hkey : forall x, In x tis -> ext_name (ti_name x) = ti_name x).
    { intros x Hx. destruct (Hall x Hx) as (n & Hn). destruct (sch_find_name _ _ _ Hn) as [_ Hxs].
      pose proof (Hok _ Hxs) as Hk. rewrite !andb_true_iff in Hk. destruct Hk as ((Hk & _) & _). apply String.eqb_eq in Hk. exact Hk. }
    rewrite (map_ext (ser_type s) (fun x => (fst (ser_type s x), snd (ser_type s x))))
      by (intros x; destruct (ser_type s x); reflexivity).
    apply (alookup_map_first (fun x => fst (ser_type s x)) (fun x => snd (ser_type s x)) t ti).
    + apply filter_In. split; [exact Hti|rewrite Hd; reflexivity].
    + unfold ser_type. cbn [fst]. rewrite Hext. exact Hname.
    + intros x Hx Hkx. apply filter_In in Hx. destruct Hx as [Hx _]. unfold ser_type in Hkx. cbn [fst] in Hkx.
      rewrite (Hkey x Hx) in Hkx. destruct (Hall x Hx) as (n & Hn). destruct (sch_find_name _ _ _ Hn) as [Hnn _].
      rewrite Hkx in Hnn. subst n. rewrite Hf in Hn. inversion Hn. reflexivity.
  - assert (E : (t, snd (ser_type s ti)) = ser_type s ti).
    { unfold ser_type. cbn [snd]. rewrite Hext, Hname. reflexivity. }
    transitivity (parse_jtype (ser_type s ti)); [f_equal; exact E|]. apply parse_ser_type. apply Forall_forall. intros fd Hfd. pose proof (Hown fd Hfd) as Hk.
    unfold fd_okb in Hk. rewrite !andb_true_iff in Hk. tauto.
  - unfold jtype_of. cbn [jt_name]. rewrite Hext. exact Hname.
  - unfold jtype_of. cbn [jt_super]. destruct (parent ti) as [p|]; [apply String.eqb_eq in Hpar; exact Hpar|reflexivity].
  - unfold jtype_of. cbn [jt_feats]. rewrite map_map. apply map_ext_in. intros fd Hfd. apply jdecl_roundtrip. apply Hown. exact Hfd.
Qed.

(* MINIMAL: the declared types contain every used type and are closed under supertype / feature range / element type
   (predefined types, which every reader has, apart); each carries its original declaration *)
Theorem embedded_ts_sufficient_minimal s used decls :
  schema_okb s = true -> ser_types s MMinimal used = Ok [(K_TYPES, JObj decls)] ->
  exists names,
    (forall t, In t used -> is_predefined t = true \/ In t names) /\
    closed_under_refs s names /\
    (forall t, In t names -> exists ti, sch_find s t = Some ti /\ (docann_default s ti = true \/ declared s decls t)).
Proof.
  intros Hok H. destruct (ser_types_inv _ _ _ _ H) as (names & tis & Hn & Ht & Hd & _).
  cbn [types_to_include] in Hn. destruct (closure_closed _ _ _ _ Hn) as (Hc & Hs & Hr).
  exists names. split; [exact Hs|]. split; [exact Hc|].
  intros t Hin. destruct (Hr t Hin) as [_ Hf]. destruct (sch_find s t) as [ti|] eqn:E; [|congruence].
  exists ti. split; [reflexivity|]. destruct (docann_default s ti) eqn:Ed; [left; reflexivity|right].
  eapply included_declared; eassumption.
Qed.

(* FULL: every type of the type system that is not predefined carries its original declaration *)
Theorem embedded_ts_sufficient_full s used decls :
  schema_okb s = true -> ser_types s MFull used = Ok [(K_TYPES, JObj decls)] ->
  forall t ti, sch_find s t = Some ti -> is_predefined t = false -> docann_default s ti = true \/ declared s decls t.
Proof.
  intros Hok H t ti Hf Hp. destruct (ser_types_inv _ _ _ _ H) as (names & tis & Hn & Ht & Hd & _).
  cbn [types_to_include] in Hn. inversion Hn; subst names; clear Hn.
  destruct (docann_default s ti) eqn:Ed; [left; reflexivity|right].
  eapply included_declared; try eassumption.
  apply filter_In. split; [|rewrite Hp; reflexivity].
  destruct (sch_find_name _ _ _ Hf) as [<- Hin]. apply in_map. exact Hin.
Qed.

(* ================================================================================================================ *)
(* denote (save c) = canon c' : generic list / lookup lemmas                                                         *)
(* ================================================================================================================ *)

Lemma alookup_app {V} k (a b : list (string * V)) :
  alookup k (a ++ b) = match alookup k a with Some v => Some v | None => alookup k b end.
Proof.
  induction a as [|[k' v'] r IH]; [reflexivity|]. cbn [app alookup]. destruct (String.eqb k k'); [reflexivity|exact IH].
Qed.
Lemma alookup_notin {V} k (l : list (string * V)) : (forall k' v, In (k', v) l -> k' <> k) -> alookup k l = None.
Proof.
  induction l as [|[k' v'] r IH]; intros H; [reflexivity|]. cbn [alookup].
  destruct (String.eqb k k') eqn:E.
  - apply String.eqb_eq in E. exfalso. apply (H k' v'); [left; reflexivity|auto].
  - apply IH. intros k2 v2 Hin. apply (H k2 v2). right. exact Hin.
Qed.
Lemma mapM_app {A B} (f : A -> res B) (a b : list A) :
  mapM f (a ++ b) = do x <- mapM f a ;; do y <- mapM f b ;; Ok (x ++ y).
Proof.
  induction a as [|x r IH]; cbn [app mapM bind].
  - destruct (mapM f b); reflexivity.
  - destruct (f x); cbn [bind]; try reflexivity. rewrite IH. destruct (mapM f r); cbn [bind]; try reflexivity.
    destruct (mapM f b); reflexivity.
Qed.
Lemma mapM_ok_map {A B} (f : A -> res B) (g : A -> B) l : (forall a, In a l -> f a = Ok (g a)) -> mapM f l = Ok (map g l).
Proof.
  intros H. rewrite <- (map_id l) at 1. apply (mapM_map (fun a => a) f g). exact H.
Qed.
(* decoding what was encoded, element by element *)
Lemma mapM_compose {A B C} (enc : A -> res B) (den : B -> res C) (cv : A -> res C) :
  (forall a j, enc a = Ok j -> den j = cv a) -> forall l js, mapM enc l = Ok js -> mapM den js = mapM cv l.
Proof.
  intros H. induction l as [|a r IH]; cbn [mapM]; intros js E; [inversion E; reflexivity|].
  destruct (enc a) as [j| |] eqn:Ea; cbn [bind] in E; try discriminate.
  destruct (mapM enc r) as [js'| |] eqn:Er; cbn [bind] in E; try discriminate.
  inversion E; subst js. cbn [mapM]. rewrite (H a j Ea), (IH js' eq_refl). reflexivity.
Qed.
Lemma mapM_length {A B} (f : A -> res B) l : forall r, mapM f l = Ok r -> List.length r = List.length l.
Proof.
  induction l as [|a t IH]; cbn [mapM]; intros r H; [inversion H; reflexivity|].
  destruct (f a); cbn [bind] in H; try discriminate. destruct (mapM f t) eqn:E; cbn [bind] in H; try discriminate.
  inversion H. cbn [List.length]. f_equal. apply IH. reflexivity.
Qed.

Lemma string_cons_neq c x : String c x <> x.
Proof. revert c. induction x as [|d r IH]; intros c H; [discriminate|]. injection H as _ H. exact (IH d H). Qed.
Lemma refkey_neq x : String.eqb (refkey x) x = false.
Proof. apply String.eqb_neq. apply string_cons_neq. Qed.
Lemma numkey_neq x : String.eqb (numkey x) x = false.
Proof. apply String.eqb_neq. apply string_cons_neq. Qed.
Lemma ref_num_neq x y : String.eqb (refkey x) (numkey y) = false.
Proof. apply String.eqb_neq. intros H. discriminate H. Qed.
Lemma num_ref_neq x y : String.eqb (numkey x) (refkey y) = false.
Proof. apply String.eqb_neq. intros H. discriminate H. Qed.
Lemma name_ok_first x : name_okb x = true -> forall y, x <> refkey y /\ x <> numkey y /\ x <> K_ID /\ x <> K_TYPE /\ x <> K_ELEMENTS.
Proof.
  intros H y. destruct x as [|c r]; [discriminate|]. cbn [name_okb] in H.
  repeat split; intros E; inversion E; subst c; discriminate.
Qed.

(* ---- values ---- *)

Lemma den_prim_plain c v j : plain_json v = Ok j -> den_prim j = cv_atom c v.
Proof.
  destruct v; cbn [plain_json]; try discriminate; try (intros [= <-]; reflexivity).
  destruct (special_flt x); [discriminate|]. intros [= <-]. reflexivity.
Qed.
Lemma den_ref_ref c v j : ref_json c v = Ok j -> den_ref j = cv_atom c v.
Proof.
  unfold ref_json. destruct v; cbn [ref_id bind cv_atom]; try discriminate.
  - intros [= <-]. reflexivity.
  - destruct (hget (c_heap c) o) as [f|]; cbn [bind]; [|discriminate]. intros [= <-]. destruct (o_id f); reflexivity.
  - destruct (find_sofa c n) as [sf|]; cbn [bind]; [|discriminate]. intros [= <-]. reflexivity.
Qed.
Lemma den_special_float c v j : (match v with VFlt _ => True | _ => False end) -> float_json v = Ok j -> den_special j = cv_atom c v.
Proof.
  destruct v; intros []. cbn [float_json]. intros [= <-]. cbn [cv_atom].
  destruct (special_flt x) as [sp|] eqn:E; [apply special_flt_spec; exact E|reflexivity].
Qed.
Lemma cv_ok_plain c v j : plain_json v = Ok j -> exists w, cv_atom c v = Ok w.
Proof. destruct v; cbn [plain_json cv_atom]; try discriminate; intros _; eexists; reflexivity. Qed.
Lemma cv_ok_ref c v j : ref_json c v = Ok j -> exists w, cv_atom c v = Ok w.
Proof.
  unfold ref_json. destruct v; cbn [ref_id cv_atom bind]; try discriminate.
  - intros _. eexists. reflexivity.
  - destruct (hget (c_heap c) o); cbn [bind]; [|discriminate]. intros _. eexists. reflexivity.
  - destruct (find_sofa c n); cbn [bind]; [|discriminate]. intros _. eexists. reflexivity.
Qed.
Lemma mapM_compose_ok {A B C} (enc : A -> res B) (den : B -> res C) (cv : A -> res C) :
  (forall a j, enc a = Ok j -> den j = cv a /\ exists w, cv a = Ok w) ->
  forall l js, mapM enc l = Ok js -> exists ws, mapM den js = Ok ws /\ mapM cv l = Ok ws.
Proof.
  intros H. induction l as [|a r IH]; cbn [mapM]; intros js E; [inversion E; exists []; split; reflexivity|].
  destruct (enc a) as [j| |] eqn:Ea; cbn [bind] in E; try discriminate.
  destruct (mapM enc r) as [js'| |] eqn:Er; cbn [bind] in E; try discriminate.
  inversion E; subst js. destruct (H a j Ea) as (Hd & w & Hw). destruct (IH js' eq_refl) as (ws & A1 & A2).
  exists (w :: ws). cbn [mapM]. rewrite Hd, Hw, A1, A2. split; reflexivity.
Qed.

Lemma byte_of_cv c l bs : mapM byte_of l = Ok bs -> mapM (cv_atom c) l = Ok (map CInt bs) /\ bytes_okb bs = true.
Proof.
  revert bs. induction l as [|v r IH]; cbn [mapM]; intros bs H; [inversion H; split; reflexivity|].
  destruct (byte_of v) as [z| |] eqn:Ev; cbn [bind] in H; try discriminate.
  destruct (mapM byte_of r) as [zs| |] eqn:Er; cbn [bind] in H; try discriminate. inversion H; subst bs.
  destruct (IH zs eq_refl) as [A B]. unfold byte_of in Ev. destruct v; try discriminate.
  destruct (byte_okb z0) eqn:Eb; [|discriminate]. inversion Ev; subst z0.
  cbn [cv_atom bind map]. rewrite A. cbn [bind bytes_okb forallb]. fold (bytes_okb zs). rewrite Eb, B. split; reflexivity.
Qed.

(* %ELEMENTS of an array: decoding the encoding gives the canonical elements *)
Lemma elements_roundtrip L c t l j : lex_ok L -> l <> [] ->
  (String.eqb t T_FLOAT_ARRAY || String.eqb t T_DOUBLE_ARRAY = true -> forallb (fun v => match v with VFlt _ => true | _ => false end) l = true) ->
  enc_elements L c t l = Ok j -> exists els, den_elements L t (Some j) = Ok els /\ cv_json c (VList l) = Ok (CColl "" els).
Proof.
  intros (_ & Hb64 & Hne) Hl Hfl. unfold enc_elements. cbn [cv_json].
  destruct (String.eqb t T_BYTE_ARRAY) eqn:Eb.
  - destruct (mapM byte_of l) as [bs| |] eqn:Em; cbn [bind]; try discriminate. intros [= <-].
    destruct (byte_of_cv c l bs Em) as [Hcv Hok]. rewrite Hcv. cbn [bind]. exists (map CInt bs). split; [|reflexivity].
    unfold den_elements. rewrite Eb.
    destruct (b64_enc L bs) as [|a r] eqn:Ee.
    + apply Hne in Ee. subst bs. destruct l; [congruence|]. apply mapM_length in Em. discriminate.
    + rewrite <- Ee, (Hb64 bs Hok). reflexivity.
  - assert (Hden : forall js, js <> [] -> den_elements L t (Some (JArr js)) =
              if String.eqb t T_FLOAT_ARRAY || String.eqb t T_DOUBLE_ARRAY then mapM den_special js
              else if String.eqb t T_FS_ARRAY then mapM den_ref js else mapM den_prim js).
    { intros js Hjs. unfold den_elements. rewrite Eb. destruct js; [congruence|reflexivity]. }
    assert (Hnn : forall (f : val -> res json) js, mapM f l = Ok js -> js <> []).
    { intros f js E Hn. subst js. apply mapM_length in E. destruct l; [congruence|discriminate]. }
    replace (String.eqb t T_DOUBLE_ARRAY || String.eqb t T_FLOAT_ARRAY) with (String.eqb t T_FLOAT_ARRAY || String.eqb t T_DOUBLE_ARRAY)
      by apply orb_comm.
    destruct (String.eqb t T_FLOAT_ARRAY || String.eqb t T_DOUBLE_ARRAY) eqn:Ef.
    + destruct (mapM float_json l) as [js| |] eqn:Em; cbn [bind]; try discriminate. intros [= <-].
      rewrite (Hden js (Hnn _ _ Em)); try rewrite Ef.
      specialize (Hfl eq_refl). rewrite forallb_forall in Hfl.
      assert (E : exists ws, mapM den_special js = Ok ws /\ mapM (cv_atom c) l = Ok ws).
      { clear Hden Hnn Hl. revert js Em. induction l as [|v r IH]; cbn [mapM]; intros js E; [inversion E; exists []; split; reflexivity|].
        destruct (float_json v) as [j| |] eqn:Ev; cbn [bind] in E; try discriminate.
        destruct (mapM float_json r) as [js'| |] eqn:Er; cbn [bind] in E; try discriminate. inversion E; subst js.
        pose proof (Hfl v (or_introl eq_refl)) as Hv. destruct v; try discriminate.
        destruct (IH (fun x Hx => Hfl x (or_intror Hx)) js' eq_refl) as (ws & A1 & A2).
        exists (CFlt x :: ws). cbn [mapM]. rewrite (den_special_float c (VFlt x) j I Ev). cbn [cv_atom bind]. rewrite A1, A2. split; reflexivity. }
      destruct E as (ws & A1 & A2). rewrite A1, A2. exists ws. split; reflexivity.
    + destruct (String.eqb t T_FS_ARRAY) eqn:Ea.
      * destruct (mapM (ref_json c) l) as [js| |] eqn:Em; cbn [bind]; try discriminate. intros [= <-].
        rewrite (Hden js (Hnn _ _ Em)); try rewrite Ef; try rewrite Ea.
        destruct (mapM_compose_ok (ref_json c) den_ref (cv_atom c) (fun a j H => conj (den_ref_ref c a j H) (cv_ok_ref c a j H)) l js Em)
          as (ws & A1 & A2). rewrite A1, A2. exists ws. split; reflexivity.
      * destruct (mapM plain_json l) as [js| |] eqn:Em; cbn [bind]; try discriminate. intros [= <-].
        rewrite (Hden js (Hnn _ _ Em)); try rewrite Ef; try rewrite Ea.
        destruct (mapM_compose_ok plain_json den_prim (cv_atom c) (fun a j H => conj (den_prim_plain c a j H) (cv_ok_plain c a j H)) l js Em)
          as (ws & A1 & A2). rewrite A1, A2. exists ws. split; reflexivity.
Qed.

(* ---- one feature of a non-array structure ---- *)

Definition keyset_only (ms : list (string * json)) (x : string) : Prop :=
  forall k v, In (k, v) ms -> k = x \/ k = refkey x \/ k = numkey x.

Lemma den_feature_single_plain fd j : den_feature [(fd_xname fd, j)] fd = do v <- den_prim j ;; Ok (fd_xname fd, v).
Proof. unfold den_feature. cbn [alookup]. rewrite refkey_neq, numkey_neq, String.eqb_refl. reflexivity. Qed.
Lemma den_feature_single_ref fd j : den_feature [(refkey (fd_xname fd), j)] fd = do v <- den_ref j ;; Ok (fd_xname fd, v).
Proof. unfold den_feature. cbn [alookup]. rewrite String.eqb_refl. reflexivity. Qed.
Lemma den_feature_single_num fd j : den_feature [(numkey (fd_xname fd), j)] fd = do v <- den_special j ;; Ok (fd_xname fd, v).
Proof. unfold den_feature. cbn [alookup]. rewrite ref_num_neq, String.eqb_refl. reflexivity. Qed.

Lemma enc_value_den c s fd v1 ms : is_vnone v1 = false -> enc_value c s fd v1 = Ok ms ->
  keyset_only ms (fd_xname fd) /\ exists w, cv_atom c v1 = Ok w /\ den_feature ms fd = Ok (fd_xname fd, w).
Proof.
  intros Hn. unfold enc_value.
  destruct (String.eqb (fd_range fd) T_FLOAT || String.eqb (fd_range fd) T_DOUBLE).
  - destruct v1; try discriminate.
    + intros [= <-]. split; [intros k v [[= <- <-]|[]]; auto|]. exists (CInt z). split; [reflexivity|].
      rewrite den_feature_single_plain. reflexivity.
    + destruct (special_flt x) as [sp|] eqn:E; intros [= <-].
      * split; [intros k v [[= <- <-]|[]]; auto|]. exists (CFlt x). split; [reflexivity|].
        rewrite den_feature_single_num, (special_flt_spec _ _ E). reflexivity.
      * split; [intros k v [[= <- <-]|[]]; auto|]. exists (CFlt x). split; [reflexivity|].
        rewrite den_feature_single_plain. reflexivity.
  - destruct (is_primitive s (fd_range fd)).
    + destruct (plain_json v1) as [j| |] eqn:E; cbn [bind]; try discriminate. intros [= <-].
      split; [intros k v [[= <- <-]|[]]; auto|].
      pose proof (den_prim_plain c v1 j E) as Hd. destruct v1; try discriminate; cbn [cv_atom] in Hd |- *;
        (eexists; split; [reflexivity|]; rewrite den_feature_single_plain, Hd; reflexivity).
    + destruct (ref_json c v1) as [j| |] eqn:E; cbn [bind]; try discriminate. intros [= <-].
      split; [intros k v [[= <- <-]|[]]; auto|].
      pose proof (den_ref_ref c v1 j E) as Hd. rewrite den_feature_single_ref, Hd.
      unfold ref_json in E. destruct (cv_atom c v1) as [w| |] eqn:Ec.
      * exists w. split; reflexivity.
      * exfalso. destruct v1; cbn [ref_id cv_atom bind] in *; try discriminate;
          [destruct (hget (c_heap c) o); discriminate|destruct (find_sofa c n); discriminate].
      * exfalso. destruct v1; cbn [ref_id cv_atom bind] in *; try discriminate;
          [destruct (hget (c_heap c) o); discriminate|destruct (find_sofa c n); discriminate].
Qed.

(* what the document says about a feature, in document units: null when the slot is None *)
Definition doc_cval (c : cas) (s : schema) (t : tname) (f : fsobj) (fd : fdecl) : res cval :=
  do v1 <- doc_val c s t f fd (slot f (fd_name fd)) ;; cv_atom c v1.

Lemma enc_feature_den c s t f fd ms : enc_feature c s t f fd = Ok ms ->
  keyset_only ms (fd_xname fd) /\ exists w, den_feature ms fd = Ok (fd_xname fd, w) /\
    (is_vnone (slot f (fd_name fd)) = true /\ w = CNull \/ doc_cval c s t f fd = Ok w).
Proof.
  unfold enc_feature, doc_cval. destruct (is_vnone (slot f (fd_name fd))) eqn:En.
  - intros [= <-]. split; [intros k v []|]. exists CNull. split; [reflexivity|left; split; reflexivity].
  - destruct (doc_val c s t f fd (slot f (fd_name fd))) as [v1| |] eqn:Ed; cbn [bind]; try discriminate.
    intros H. assert (Hn1 : is_vnone v1 = false).
    { unfold doc_val in Ed. destruct (isa s t T_ANNOTATION && is_offset_name (fd_xname fd)).
      - destruct (slot f "sofa"); try discriminate. destruct (find_sofa c n); try discriminate. inversion Ed.
        destruct (slot f (fd_name fd)); try discriminate; reflexivity.
      - inversion Ed; subst v1. exact En. }
    destruct (enc_value_den c s fd v1 ms Hn1 H) as (Hk & w & Hw & Hd). split; [exact Hk|].
    exists w. split; [exact Hd|right; exact Hw].
Qed.

(* lookups of a feature's three keys in the member list of the whole structure see only that feature's members *)
Lemma keyset_other_none ms x y k : keyset_only ms y -> x <> y -> name_okb x = true -> name_okb y = true ->
  (k = x \/ k = refkey x \/ k = numkey x) -> alookup k ms = None.
Proof.
  intros Hk Hxy Hx Hy Hkx. apply alookup_notin. intros k' v Hin E. subst k'.
  destruct (name_ok_first x Hx y) as (A1 & A2 & _). destruct (name_ok_first y Hy x) as (B1 & B2 & _).
  destruct (Hk _ _ Hin) as [E|[E|E]]; destruct Hkx as [F|[F|F]]; rewrite E in F; clear E.
  - apply Hxy. symmetry. exact F.
  - exact (proj1 (name_ok_first y Hy x) F).
  - exact (proj1 (proj2 (name_ok_first y Hy x)) F).
  - exact (proj1 (name_ok_first x Hx y) (eq_sym F)).
  - apply Hxy. injection F as F. symmetry. exact F.
  - discriminate F.
  - exact (proj1 (proj2 (name_ok_first x Hx y)) (eq_sym F)).
  - discriminate F.
  - apply Hxy. injection F as F. symmetry. exact F.
Qed.

Lemma concat_lookup c s t f : forall feats mss, Forall2 (fun fd ms => enc_feature c s t f fd = Ok ms) feats mss ->
  NoDup (map fd_xname feats) -> (forall fd, In fd feats -> name_okb (fd_xname fd) = true) ->
  forall fd k, name_okb (fd_xname fd) = true ->
    (k = fd_xname fd \/ k = refkey (fd_xname fd) \/ k = numkey (fd_xname fd)) ->
    (~ In (fd_xname fd) (map fd_xname feats) -> alookup k (List.concat mss) = None) /\
    (forall ms, In fd feats -> enc_feature c s t f fd = Ok ms -> alookup k (List.concat mss) = alookup k ms).
Proof.
  induction 1 as [|fd0 ms0 feats mss H0 _ IH]; intros Hnd Hok fd k Hx Hk.
  - split; [reflexivity|intros ms []].
  - cbn [map] in Hnd. inversion Hnd as [|? ? Hnotin Hnd']; subst.
    assert (Hok' : forall fd, In fd feats -> name_okb (fd_xname fd) = true) by (intros g Hg; apply Hok; right; exact Hg).
    destruct (IH Hnd' Hok' fd k Hx Hk) as [IHn IHi]. cbn [List.concat]. rewrite alookup_app.
    destruct (enc_feature_den c s t f fd0 ms0 H0) as (Hk0 & _).
    split.
    + intros Hni. cbn [map In] in Hni.
      rewrite (keyset_other_none ms0 (fd_xname fd) (fd_xname fd0) k Hk0); [apply IHn; tauto| intros E; apply Hni; left; congruence
                                                                        | exact Hx | apply Hok; left; reflexivity | exact Hk].
    + intros ms [<-|Hin] Hms.
      * rewrite H0 in Hms. inversion Hms; subst ms. destruct (alookup k ms0); [reflexivity|]. apply IHn. exact Hnotin.
      * rewrite (keyset_other_none ms0 (fd_xname fd) (fd_xname fd0) k Hk0); [apply IHi; assumption| |exact Hx|apply Hok; left; reflexivity|exact Hk].
        intros E. apply Hnotin. rewrite <- E. apply in_map. exact Hin.
Qed.

Lemma den_feature_agree m ms fd :
  alookup (refkey (fd_xname fd)) m = alookup (refkey (fd_xname fd)) ms ->
  alookup (numkey (fd_xname fd)) m = alookup (numkey (fd_xname fd)) ms ->
  alookup (fd_xname fd) m = alookup (fd_xname fd) ms -> den_feature m fd = den_feature ms fd.
Proof. intros A B C. unfold den_feature. rewrite A, B, C. reflexivity. Qed.

(* all features of a structure, read from its member list *)
Lemma den_features_written c s t f i feats mss :
  mapM (enc_feature c s t f) feats = Ok mss ->
  NoDup (map fd_xname feats) -> (forall fd, In fd feats -> name_okb (fd_xname fd) = true) ->
  exists W : fdecl -> cval,
    mapM (den_feature ([(K_ID, i); (K_TYPE, JStr t)] ++ List.concat mss)) feats = Ok (map (fun fd => (fd_xname fd, W fd)) feats) /\
    forall fd, In fd feats -> (is_vnone (slot f (fd_name fd)) = true /\ W fd = CNull) \/ doc_cval c s t f fd = Ok (W fd).
Proof.
  intros Hm Hnd Hok. pose proof (mapM_Forall2 _ _ _ Hm) as F2.
  assert (Hex : forall fd, In fd feats -> exists w, den_feature ([(K_ID, i); (K_TYPE, JStr t)] ++ List.concat mss) fd = Ok (fd_xname fd, w) /\
            (is_vnone (slot f (fd_name fd)) = true /\ w = CNull \/ doc_cval c s t f fd = Ok w)).
  { intros fd Hin. destruct (Forall2_In_l _ _ _ fd F2 Hin) as (ms & _ & Hms).
    destruct (enc_feature_den c s t f fd ms Hms) as (_ & w & Hd & Hw). exists w. split; [|exact Hw].
    rewrite <- Hd. pose proof (Hok fd Hin) as Hx.
    assert (Hbase : forall k, (k = fd_xname fd \/ k = refkey (fd_xname fd) \/ k = numkey (fd_xname fd)) ->
              alookup k ([(K_ID, i); (K_TYPE, JStr t)] ++ List.concat mss) = alookup k ms).
    { intros k Hk. cbn [app alookup].
      assert (k <> K_ID /\ k <> K_TYPE) as [N1 N2].
      { destruct (name_ok_first _ Hx "") as (_ & _ & A & B & _). destruct Hk as [Hk|[Hk|Hk]]; subst k; split; try assumption; discriminate. }
      apply String.eqb_neq in N1, N2. rewrite N1, N2.
      exact (proj2 (concat_lookup c s t f feats mss F2 Hnd Hok fd k Hx Hk) ms Hin Hms). }
    apply den_feature_agree; apply Hbase; auto. }
  (* choose W by the decoded value *)
  exists (fun fd => match den_feature ([(K_ID, i); (K_TYPE, JStr t)] ++ List.concat mss) fd with Ok (_, w) => w | _ => CNull end).
  split.
  - apply mapM_ok_map. intros fd Hin. destruct (Hex fd Hin) as (w & Hd & _). rewrite Hd. reflexivity.
  - intros fd Hin. destruct (Hex fd Hin) as (w & Hd & Hw). rewrite Hd. exact Hw.
Qed.

(* ---- one structure ---- *)

Lemma xfind_in feats x fd : xfind feats x = Some fd -> In fd feats /\ fd_xname fd = x.
Proof.
  unfold xfind. intros H. apply find_some in H. destruct H as [A B]. apply String.eqb_eq in B. auto.
Qed.
Lemma xfind_unique feats fd : NoDup (map fd_xname feats) -> In fd feats -> xfind feats (fd_xname fd) = Some fd.
Proof.
  unfold xfind. induction feats as [|g r IH]; intros Hnd Hin; [destruct Hin|]. cbn [find map] in *.
  inversion Hnd as [|? ? Hni Hnd']; subst. destruct (String.eqb (fd_xname g) (fd_xname fd)) eqn:E.
  - destruct Hin as [->|Hin]; [reflexivity|]. apply String.eqb_eq in E. exfalso. apply Hni. rewrite E. apply in_map. exact Hin.
  - destruct Hin as [->|Hin]; [rewrite String.eqb_refl in E; discriminate|]. apply IH; assumption.
Qed.
Lemma alookup_by_xname {V} (W : fdecl -> V) feats x :
  alookup x (map (fun fd => (fd_xname fd, W fd)) feats) = option_map W (xfind feats x).
Proof.
  unfold xfind. induction feats as [|g r IH]; [reflexivity|]. cbn [map alookup find].
  rewrite String.eqb_sym. destruct (String.eqb (fd_xname g) x); [reflexivity|exact IH].
Qed.

Lemma snodup_NoDup l : snodup l = true -> NoDup l.
Proof.
  induction l as [|x r IH]; cbn [snodup]; intros H; [constructor|]. apply andb_true_iff in H. destruct H as [A B].
  constructor; [|apply IH; exact B]. intros Hin. apply memb_In in Hin. rewrite Hin in A. discriminate.
Qed.

Lemma strip_none_norm t : match strip_brackets t with Some _ => false | None => true end = true -> norm_tname t = t.
Proof. unfold norm_tname. destruct (strip_brackets t); [discriminate|reflexivity]. Qed.

Lemma cv_json_atom c v w : cv_atom c v = Ok w -> cv_json c v = Ok w.
Proof. destruct v; cbn [cv_json]; auto. cbn [cv_atom]. discriminate. Qed.

Lemma conv_p2e txt i : (0 <= i <= match txt with Some t => Z.of_nat (List.length t) | None => 0 end) ->
  conv_off txt (CInt (p2e_text txt i)) = CInt i.
Proof.
  intros H. destruct txt as [t|]; cbn [conv_off p2e_text]; [|reflexivity].
  rewrite OffsetsProofs.ext2py_py2ext; [reflexivity|exact H].
Qed.

(* the sofa table of the document resolves every sofa of the CAS to its own text *)
Definition stab_ok (c : cas) (stab : list (xid * option text)) : Prop :=
  forall n sf, find_sofa c n = Some sf -> zlookup (s_xid sf) stab = Some (s_text sf).

Lemma den_fs_written L s c f i m stab :
  lex_ok L -> o_id f = Some i -> obj_okb s c f = true -> stab_ok c stab -> enc_fs L s c f = Ok m ->
  exists cf, canon_fs s c f = Ok cf /\ den_fs L s stab (i, m) = Ok (i, cf).
Proof.
  intros HL Hid Hok Hst Henc. unfold obj_okb in Hok. apply andb_true_iff in Hok. destruct Hok as [Htn Hok].
  unfold tname_okb in Htn. apply andb_true_iff in Htn. destruct Htn as [_ Hsb].
  unfold enc_fs in Henc. unfold canon_fs, den_fs. set (t := o_type f) in *.
  destruct (sch_find s t) as [ti|] eqn:Eti; [|discriminate].
  assert (Hty : forall rest, e_type (i, (K_ID, id_json f) :: (K_TYPE, JStr t) :: rest) = Some t) by reflexivity.
  destruct (is_array_name t) eqn:Earr.
  - (* arrays *)
    destruct (slot f "elements") as [| | | | | |l|] eqn:Esl; try discriminate.
    destruct (nonempty_list (VList l)) as [l'|] eqn:Enl.
    + destruct l as [|x r]; [discriminate|]. inversion Enl; subst l'.
      destruct (enc_elements L c t (x :: r) ) as [j| |] eqn:Ee; cbn [bind] in Henc; try discriminate. inversion Henc; subst m.
      cbn [app snd]. rewrite Hty. rewrite (strip_none_norm t Hsb), Eti, Earr.
      change (alookup K_ELEMENTS [(K_ID, id_json f); (K_TYPE, JStr t); (K_ELEMENTS, j)]) with (Some j).
      pose proof (elements_roundtrip L c t (x :: r) j HL) as Hr.
      assert (Hfl : String.eqb t T_FLOAT_ARRAY || String.eqb t T_DOUBLE_ARRAY = true ->
                    forallb (fun v => match v with VFlt _ => true | _ => false end) (x :: r) = true).
      { intros Hf. rewrite Hf in Hok. exact Hok. }
      destruct (Hr ltac:(discriminate) Hfl Ee) as (els & Ed & Ecv). rewrite Ed, Ecv.
      cbn [bind fst]. eexists. split; reflexivity.
    + destruct l; [|discriminate]. inversion Henc; subst m. cbn [snd]. rewrite Hty.
      rewrite (strip_none_norm t Hsb), Eti, Earr. cbn [alookup]. cbn [den_elements bind cv_json mapM fst].
      eexists. split; reflexivity.
  - (* other types *)
    destruct (mapM (enc_feature c s t f) (ti_feats ti)) as [mss| |] eqn:Em; cbn [bind] in Henc; try discriminate.
    inversion Henc; subst m. clear Henc.
    apply andb_true_iff in Hok. destruct Hok as [Hok Hann]. apply andb_true_iff in Hok. destruct Hok as [Hnames Hnd].
    rewrite forallb_forall in Hnames. apply snodup_NoDup in Hnd.
    destruct (den_features_written c s t f (id_json f) (ti_feats ti) mss Em Hnd Hnames) as (W & HW & HWv).
    cbn [snd]. rewrite (Hty (List.concat mss)). rewrite (strip_none_norm t Hsb), Eti, Earr.
    change ((K_ID, id_json f) :: (K_TYPE, JStr t) :: List.concat mss) with ([(K_ID, id_json f); (K_TYPE, JStr t)] ++ List.concat mss).
    rewrite HW. cbn [bind].
    (* canonical values *)
    set (CW := fun fd => if isa s t T_ANNOTATION && is_offset_name (fd_xname fd)
                         then match slot f (fd_name fd) with VInt z => CInt z | _ => W fd end else W fd).
    assert (Hcanon : forall fd, In fd (ti_feats ti) ->
              (isa s t T_ANNOTATION && is_offset_name (fd_xname fd) = true ->
                 match slot f (fd_name fd) with VNone | VInt _ => True | _ => False end) ->
              cv_json c (slot f (fd_name fd)) = Ok (CW fd)).
    { intros fd Hin Hoff. unfold CW. destruct (HWv fd Hin) as [[Hn Hw]|Hd].
      - destruct (slot f (fd_name fd)); try discriminate. rewrite Hw. destruct (isa s t T_ANNOTATION && is_offset_name (fd_xname fd)); reflexivity.
      - unfold doc_cval, doc_val in Hd. destruct (isa s t T_ANNOTATION && is_offset_name (fd_xname fd)) eqn:Eo.
        + specialize (Hoff eq_refl). destruct (slot f "sofa"); try discriminate. destruct (find_sofa c n); try discriminate.
          cbn [bind] in Hd. destruct (slot f (fd_name fd)); try contradiction; [apply cv_json_atom; exact Hd|reflexivity].
        + cbn [bind] in Hd. apply cv_json_atom. exact Hd. }
    destruct (isa s t T_ANNOTATION) eqn:Eann.
    + (* annotation: begin/end come back through the sofa's text *)
      destruct (slot f "sofa") as [| | | | | | |n] eqn:Eso; try discriminate.
      destruct (find_sofa c n) as [sf|] eqn:Efs; [|discriminate].
      apply andb_true_iff in Hann. destruct Hann as [Hoffs Hx]. apply andb_true_iff in Hoffs. destruct Hoffs as [Hob Hoe].
      destruct (xfind (ti_feats ti) "begin") as [fb|] eqn:Eb; [|discriminate].
      destruct (xfind (ti_feats ti) "end") as [fe|] eqn:Ee; [|discriminate].
      destruct (xfind (ti_feats ti) "sofa") as [fso|] eqn:Es; [|discriminate].
      rewrite !andb_true_iff in Hx. destruct Hx as (((Hnb & Hne) & Hns) & Hnp).
      apply String.eqb_eq in Hnb, Hne, Hns. apply negb_true_iff in Hnp.
      destruct (xfind_in _ _ _ Eb) as [Hbin Hbx]. destruct (xfind_in _ _ _ Ee) as [Hein Hex]. destruct (xfind_in _ _ _ Es) as [Hsin Hsx].
      (* the sofa feature is the id of the annotation's sofa *)
      assert (Hsofa : W fso = CRef (s_xid sf)).
      { destruct (HWv fso Hsin) as [[Hn _]|Hd]; [rewrite Hns, Eso in Hn; discriminate|].
        unfold doc_cval, doc_val in Hd. rewrite Hsx in Hd. cbn [is_offset_name String.eqb Ascii.eqb Bool.eqb orb andb] in Hd.
        rewrite andb_false_r in Hd. cbn [bind] in Hd. rewrite Hns, Eso in Hd. cbn [cv_atom ref_id] in Hd. rewrite Efs in Hd. cbn [bind] in Hd.
        inversion Hd. reflexivity. }
      rewrite (alookup_by_xname W (ti_feats ti) "sofa"), Es. cbn [option_map]. rewrite Hsofa, (Hst n sf Efs). cbn [bind].
      assert (Hoffname : forall fd, In fd (ti_feats ti) -> is_offset_name (fd_xname fd) = true ->
                match slot f (fd_name fd) with
                | VNone => True
                | VInt z => 0 <= z <= match s_text sf with Some tx => Z.of_nat (List.length tx) | None => 0 end
                | _ => False end).
      { intros fd Hin Hon. unfold is_offset_name in Hon. apply orb_true_iff in Hon.
        assert (Hcase : fd = fb \/ fd = fe).
        { destruct Hon as [E|E]; apply String.eqb_eq in E; pose proof (xfind_unique _ _ Hnd Hin) as Hu; rewrite E in Hu;
            [left; rewrite Eb in Hu|right; rewrite Ee in Hu]; inversion Hu; reflexivity. }
        destruct Hcase as [->| ->]; [rewrite Hnb; destruct (slot f "begin"); try discriminate; [exact I|lia]
                                   |rewrite Hne; destruct (slot f "end"); try discriminate; [exact I|lia]]. }
      assert (Hmap : mapM (fun fd => do v <- cv_json c (slot f (fd_name fd)) ;; Ok (fd_xname fd, v)) (ti_feats ti)
                     = Ok (map (fun fd => (fd_xname fd, CW fd)) (ti_feats ti))).
      { apply mapM_ok_map. intros fd Hin. rewrite (Hcanon fd Hin); [reflexivity|].
        cbn [andb]. intros Hon. pose proof (Hoffname fd Hin Hon) as Hv. destruct (slot f (fd_name fd)); auto. }
      rewrite Hmap. cbn [bind fst]. eexists. split; [reflexivity|]. do 4 f_equal.
      try rewrite map_map. apply map_ext_in. intros fd Hin. cbn [fst snd]. unfold CW. cbn [andb].
      destruct (is_offset_name (fd_xname fd)) eqn:Eon; [|reflexivity]. f_equal.
      pose proof (Hoffname fd Hin Eon) as Hv.
      destruct (HWv fd Hin) as [[Hn Hw]|Hd].
      * destruct (slot f (fd_name fd)); try discriminate. rewrite Hw. reflexivity.
      * unfold doc_cval, doc_val in Hd. rewrite Eann, Eon, Eso, Efs in Hd. cbn [andb bind] in Hd.
        destruct (slot f (fd_name fd)) eqn:Ev; try contradiction.
        -- cbn [cv_atom] in Hd. inversion Hd. reflexivity.
        -- cbn [cv_atom] in Hd. inversion Hd. apply conv_p2e. exact Hv.
    + assert (Hmap : mapM (fun fd => do v <- cv_json c (slot f (fd_name fd)) ;; Ok (fd_xname fd, v)) (ti_feats ti)
                     = Ok (map (fun fd => (fd_xname fd, CW fd)) (ti_feats ti))).
      { apply mapM_ok_map. intros fd Hin. rewrite (Hcanon fd Hin); [reflexivity|]. cbn [andb]. discriminate. }
      rewrite Hmap. cbn [bind fst]. eexists. split; reflexivity.
Qed.

(* ---- sorted member lists ---- *)

Lemma zinsert_sorted x l : Sorted Z.le l -> Sorted Z.le (zinsert x l).
Proof.
  induction l as [|y r IH]; intros H; cbn [zinsert]; [repeat constructor|].
  destruct (x <=? y) eqn:E.
  - constructor; [exact H|constructor; lia].
  - inversion H as [|? ? Hr Hy]; subst. constructor; [apply IH; exact Hr|].
    destruct r as [|z r']; cbn [zinsert]; [constructor; lia|].
    destruct (x <=? z); constructor; try lia. inversion Hy; subst. assumption.
Qed.
Lemma zsort_sorted l : Sorted Z.le (zsort l).
Proof. induction l as [|x r IH]; cbn [zsort fold_right]; [constructor|apply zinsert_sorted; exact IH]. Qed.
Lemma zsort_of_sorted l : Sorted Z.le l -> zsort l = l.
Proof.
  induction l as [|x r IH]; intros H; [reflexivity|]. inversion H as [|? ? Hr Hx]; subst.
  cbn [zsort fold_right]. fold (zsort r). rewrite (IH Hr). destruct r as [|y r']; [reflexivity|].
  inversion Hx; subst. cbn [zinsert]. destruct (x <=? y) eqn:E; [reflexivity|lia].
Qed.
Lemma zsort_idem l : zsort (zsort l) = zsort l.
Proof. apply zsort_of_sorted. apply zsort_sorted. Qed.

Lemma mapM_jint l : mapM jint (map JInt l) = Ok l.
Proof. induction l as [|x r IH]; [reflexivity|]. cbn [map mapM jint bind]. rewrite IH. reflexivity. Qed.

(* ---- one sofa ---- *)

(* look a closed key up in a member list whose keys are closed *)
Ltac lk := repeat (cbn [alookup app opt_member];
                   match goal with
                   | |- context [String.eqb ?a ?b] =>
                       let r := eval vm_compute in (String.eqb a b) in
                       (change (String.eqb a b) with r); cbv iota
                   end).

Lemma den_sofa_written L c sf ms views ids :
  lex_ok L -> (match s_text sf with Some t => text_okb t = true | None => True end) ->
  enc_sofa L c sf = Ok ms ->
  alookup (s_name sf) views = Some (JObj [(K_SOFA, JInt (s_xid sf)); (K_MEMBERS, JArr (map JInt (zsort ids)))]) ->
  exists arr, (match s_arr sf with None => Ok None | Some o => ref_id c (VRef o) end) = Ok arr /\
  den_sofa L views (s_xid sf, ms) =
    Ok (mkCsofa (s_xid sf) (s_num sf) (s_name sf) (s_text sf) (s_mime sf) (s_uri sf) arr (zsort ids)).
Proof.
  intros (Htxt & _) Htok Henc Hview. unfold enc_sofa in Henc.
  assert (Harr : exists arr ja, (match s_arr sf with None => Ok None | Some o => ref_id c (VRef o) end) = Ok arr /\
            (forall o, s_arr sf = Some o -> ja = match arr with Some i => JInt i | None => JNull end) /\
            ms = [(K_ID, JInt (s_xid sf)); (K_TYPE, JStr T_SOFA); ("sofaNum", JInt (s_num sf)); ("sofaID", JStr (s_name sf))]
                 ++ opt_member "mimeType" JStr (s_mime sf)
                 ++ (match s_arr sf with Some _ => [(refkey "sofaArray", ja)] | None => [] end)
                 ++ opt_member "sofaString" (fun t => JStr (txt_enc L t)) (s_text sf) ++ opt_member "sofaURI" JStr (s_uri sf)).
  { destruct (s_arr sf) as [o|].
    - unfold ref_json in Henc. destruct (ref_id c (VRef o)) as [oi| |] eqn:Er; cbn [bind] in Henc; try discriminate.
      inversion Henc. exists oi, (match oi with Some i => JInt i | None => JNull end). repeat split.
    - cbn [bind] in Henc. inversion Henc. exists None, JNull. split; [reflexivity|split; [discriminate|reflexivity]]. }
  destruct Harr as (arr & ja & Ha & Hja & ->). exists arr. split; [exact Ha|].
  unfold den_sofa. cbn [snd fst]. unfold K_ID, K_TYPE, refkey.
  destruct (s_mime sf) as [mime|]; destruct (s_arr sf) as [o|]; destruct (s_text sf) as [tx|]; destruct (s_uri sf) as [uri|];
    lk; cbn [opt_jstr bind]; try rewrite (Htxt tx Htok); cbn [bind]; rewrite Hview; unfold K_MEMBERS, K_SOFA, jget; lk;
    rewrite mapM_jint; cbn [bind]; rewrite zsort_idem;
    try (rewrite (Hja o eq_refl); destruct arr; reflexivity);
    try (inversion Ha; reflexivity).
Qed.

(* ================================================================================================================ *)
(* the views loop: what it writes can be read off the CAS the save leaves behind                                     *)
(* ================================================================================================================ *)

(* c' has the objects of c with the same types and slots, and keeps every id c has *)
Definition ext (c c' : cas) : Prop :=
  c_views c' = c_views c /\
  forall o f, hget (c_heap c) o = Some f ->
    exists f', hget (c_heap c') o = Some f' /\ o_type f' = o_type f /\ o_slots f' = o_slots f /\
               (forall i, o_id f = Some i -> o_id f' = Some i).
Lemma ext_refl c : ext c c.
Proof. split; [reflexivity|]. intros o f H. exists f. repeat split; auto. Qed.
Lemma ext_trans a b c : ext a b -> ext b c -> ext a c.
Proof.
  intros [V1 H1] [V2 H2]. split; [congruence|]. intros o f Hf.
  destruct (H1 o f Hf) as (f1 & G1 & T1 & S1 & I1). destruct (H2 o f1 G1) as (f2 & G2 & T2 & S2 & I2).
  exists f2. repeat split; try congruence. intros i Hi. apply I2. apply I1. exact Hi.
Qed.
Lemma find_sofa_ext c c' n : ext c c' -> find_sofa c' n = find_sofa c n.
Proof. intros [V _]. unfold find_sofa. rewrite V. reflexivity. Qed.
Lemma ref_id_ext c c' v i : ext c c' -> ref_id c v = Ok (Some i) -> ref_id c' v = Ok (Some i).
Proof.
  intros E. destruct v; cbn [ref_id]; try discriminate.
  - destruct (hget (c_heap c) o) as [f|] eqn:Ef; [|discriminate]. intros [= Hi].
    destruct (proj2 E o f Ef) as (f' & G & _ & _ & I). rewrite G, (I i Hi). reflexivity.
  - rewrite (find_sofa_ext c c' n E). auto.
Qed.
Lemma member_ids_ext c c' ms ids : ext c c' -> member_ids (c_heap c) ms = Ok ids -> member_ids (c_heap c') ms = Ok ids.
Proof.
  intros E. unfold member_ids. revert ids. induction ms as [|o r IH]; cbn [mapM]; intros ids H; [exact H|].
  destruct (hget (c_heap c) o) as [f|] eqn:Ef; cbn [bind] in H; [|discriminate].
  destruct (o_id f) as [i|] eqn:Ei; cbn [bind] in H; [|discriminate].
  destruct (mapM _ r) as [is| |] eqn:Er in H; cbn [bind] in H; try discriminate. inversion H; subst ids.
  destruct (proj2 E o f Ef) as (f' & G & _ & _ & I). rewrite G, (I i Ei). cbn [bind]. rewrite (IH is Er). reflexivity.
Qed.

(* the views of a CAS, each with the byte arrays the loop has written before it reaches the view (written_sofa_arrays) *)
Definition arr_of (p : list oid * cview) : list oid :=
  match s_arr (v_sofa (snd p)) with Some o => if omem o (fst p) then [] else [o] | None => [] end.
Fixpoint tag_views (wr : list oid) (vs : list cview) : list (list oid * cview) :=
  match vs with [] => [] | v :: r => (wr, v) :: tag_views (wr ++ arr_of (wr, v)) r end.
Lemma tag_views_snd vs : forall wr, map snd (tag_views wr vs) = vs.
Proof. induction vs as [|v r IH]; intros wr; cbn [tag_views map snd]; [reflexivity|]. rewrite IH. reflexivity. Qed.
Lemma omem_In o l : omem o l = true <-> In o l.
Proof.
  unfold omem. rewrite existsb_exists. split.
  - intros (x & Hin & E). apply N.eqb_eq in E. subst. exact Hin.
  - intros H. exists o. split; [exact H|apply N.eqb_refl].
Qed.
Lemma omem_app o a b : omem o (a ++ b) = omem o a || omem o b.
Proof. unfold omem. apply existsb_app. Qed.
(* what the loop writes of the arrays: every one once, in the order of first use *)
Lemma tag_arrays vs : forall wr,
  flat_map arr_of (tag_views wr vs) = odedup wr (flat_map (fun v => match s_arr (v_sofa v) with Some o => [o] | None => [] end) vs).
Proof.
  induction vs as [|v r IH]; intros wr; cbn [tag_views flat_map]; [reflexivity|].
  rewrite IH. unfold arr_of. cbn [fst snd]. destruct (s_arr (v_sofa v)) as [o|]; cbn [app odedup]; [|rewrite app_nil_r; reflexivity].
  destruct (omem o wr); cbn [app]; [rewrite app_nil_r|]; reflexivity.
Qed.
Lemma omem_odedup o l : forall wr, omem o (wr ++ odedup wr l) = omem o wr || omem o l.
Proof.
  induction l as [|x r IH]; intros wr; cbn [odedup].
  - rewrite app_nil_r. unfold omem. cbn [existsb]. rewrite orb_false_r. reflexivity.
  - assert (Hx : omem o (x :: r) = N.eqb o x || omem o r) by reflexivity. rewrite Hx.
    destruct (omem x wr) eqn:Ex.
    + rewrite IH. destruct (N.eqb o x) eqn:E; [|reflexivity]. apply N.eqb_eq in E. subst x. rewrite Ex. reflexivity.
    + assert (Hc : wr ++ x :: odedup (wr ++ [x]) r = (wr ++ [x]) ++ odedup (wr ++ [x]) r) by (rewrite <- app_assoc; reflexivity).
      rewrite Hc, IH, omem_app. assert (H1 : omem o [x] = N.eqb o x) by (unfold omem; cbn [existsb]; apply orb_false_r).
      rewrite H1, orb_assoc. reflexivity.
Qed.
Lemma sofa_arrays_once_mem c o : omem o (sofa_arrays_once c) = omem o (sofa_arrays c).
Proof. unfold sofa_arrays_once. exact (omem_odedup o (sofa_arrays c) []). Qed.
Lemma unwritten_same wr wr' l : (forall o, omem o wr = omem o wr') -> unwritten wr l = unwritten wr' l.
Proof. intros H. unfold unwritten. apply filter_ext. intros io. rewrite H. reflexivity. Qed.

(* what the loop is expected to have written for one view, read off a CAS *)
Definition arr_out (L : lex) (s : schema) (c : cas) (p : list oid * cview) : res (list json) :=
  match s_arr (v_sofa (snd p)) with
  | None => Ok []
  | Some o => if omem o (fst p) then Ok [] else
              match hget (c_heap c) o with
              | None => Err EAttribute
              | Some f => do m <- enc_fs L s c f ;; Ok [JObj m] end
  end.
Definition view_out (L : lex) (s : schema) (c : cas) (p : list oid * cview) : res (list json * (string * json)) :=
  do jv <- enc_view (c_heap c) (snd p) ;;
  do arrs <- arr_out L s c p ;;
  do ms <- enc_sofa L c (v_sofa (snd p)) ;;
  Ok (arrs ++ [JObj ms], jv).

(* the byte array of a sofa is written from its own type, id and slots only *)
Lemma enc_fs_bytes L s c c' f f' : o_type f = T_BYTE_ARRAY -> o_type f' = o_type f -> o_slots f' = o_slots f -> o_id f' = o_id f ->
  enc_fs L s c' f' = enc_fs L s c f.
Proof.
  intros Ht Ht' Hs Hi. unfold enc_fs, id_json, slot. rewrite Ht', Hs, Hi, Ht.
  change (is_array_name T_BYTE_ARRAY) with true. cbv iota.
  destruct (nonempty_list _); [|reflexivity]. unfold enc_elements. rewrite String.eqb_refl. reflexivity.
Qed.

Definition arrays_bytes (c : cas) (vs : list cview) : Prop :=
  forall v o f, In v vs -> s_arr (v_sofa v) = Some o -> hget (c_heap c) o = Some f -> o_type f = T_BYTE_ARRAY.

Lemma step_view_err L s e v : step_view L s (Err e) v = Err e.
Proof. reflexivity. Qed.
Lemma step_view_oof L s v : step_view L s OutOfFuel v = OutOfFuel.
Proof. reflexivity. Qed.
Lemma fold_step_err L s vs e : fold_left (step_view L s) vs (Err e) = Err e.
Proof. induction vs; [reflexivity|exact IHvs]. Qed.
Lemma fold_step_oof L s vs : fold_left (step_view L s) vs OutOfFuel = OutOfFuel.
Proof. induction vs; [reflexivity|exact IHvs]. Qed.

(* what the loop has written carries an id *)
Definition wr_ids (c : cas) (wr : list oid) : Prop :=
  forall o, In o wr -> exists f i, hget (c_heap c) o = Some f /\ o_id f = Some i.
Lemma wr_ids_ext c c' wr : ext c c' -> wr_ids c wr -> wr_ids c' wr.
Proof.
  intros E H o Ho. destruct (H o Ho) as (f & i & G & I). destruct (proj2 E o f G) as (f' & G' & _ & _ & I').
  exists f', i. split; [exact G'|apply I'; exact I].
Qed.
Lemma enc_sofa_ext L c cF sf ms :
  ext c cF -> (forall o, s_arr sf = Some o -> exists f i, hget (c_heap c) o = Some f /\ o_id f = Some i) ->
  enc_sofa L c sf = Ok ms -> enc_sofa L cF sf = Ok ms.
Proof.
  intros HF Hid Es. unfold enc_sofa in *. destruct (s_arr sf) as [o|] eqn:Ea; [|exact Es].
  destruct (Hid o eq_refl) as (f & i & G & I). unfold ref_json in *.
  assert (Hr : ref_id c (VRef o) = Ok (Some i)) by (cbn [ref_id]; rewrite G, I; reflexivity).
  rewrite Hr in Es. rewrite (ref_id_ext c cF (VRef o) i HF Hr). exact Es.
Qed.

Lemma step_view_spec L s c fss views wr v c1 fss1 views1 wr1 :
  wr_ids c wr ->
  step_view L s (Ok (c, fss, views, wr)) v = Ok (c1, fss1, views1, wr1) ->
  ext c c1 /\ wr1 = wr ++ arr_of (wr, v) /\ wr_ids c1 wr1 /\
  forall cF, ext c1 cF -> arrays_bytes cF [v] ->
    exists out, view_out L s cF (wr, v) = Ok out /\ fss1 = fss ++ fst out /\ views1 = views ++ [snd out].
Proof.
  intros Hwr. unfold step_view. cbn [bind].
  destruct (enc_view (c_heap c) v) as [jv| |] eqn:Ev; cbn [bind]; try discriminate.
  unfold arr_of. cbn [fst snd].
  destruct (s_arr (v_sofa v)) as [o|] eqn:Ea; [destruct (omem o wr) eqn:Eo|].
  - (* the array was written for an earlier sofa *)
    cbn [bind]. destruct (enc_sofa L c (v_sofa v)) as [ms| |] eqn:Es; cbn [bind]; try discriminate.
    intros [= <- <- <- <-]. split; [apply ext_refl|]. split; [rewrite app_nil_r; reflexivity|]. split; [exact Hwr|]. intros cF HF _.
    unfold view_out, arr_out. cbn [fst snd]. unfold enc_view in *.
    destruct (member_ids (c_heap c) (v_members v)) as [ids| |] eqn:Emi; cbn [bind] in Ev; try discriminate.
    rewrite (member_ids_ext c cF (v_members v) ids HF Emi). cbn [bind]. rewrite Ea, Eo. cbn [bind].
    assert (EsF : enc_sofa L cF (v_sofa v) = Ok ms).
    { apply (enc_sofa_ext L c cF (v_sofa v) ms HF); [|exact Es]. intros o' Ho'. rewrite Ea in Ho'. inversion Ho'; subst o'.
      apply Hwr. apply omem_In. exact Eo. }
    rewrite EsF. cbn [bind]. inversion Ev; subst jv. eexists. split; [reflexivity|]. cbn [fst snd app]. split; reflexivity.
  - destruct (hget (c_heap c) o) as [f|] eqn:Ef; cbn [bind]; [|discriminate].
    set (c' := match o_id f with Some _ => c | None => mkCas (c_views c) (hset (c_heap c) o (set_id f (c_next_id c))) (c_next_id c + 1) end).
    set (f1 := match o_id f with Some _ => f | None => set_id f (c_next_id c) end).
    destruct (enc_fs L s c' f1) as [m| |] eqn:Em; cbn [bind]; try discriminate.
    destruct (enc_sofa L c' (v_sofa v)) as [ms| |] eqn:Es; cbn [bind]; try discriminate.
    intros [= <- <- <- <-].
    assert (Hext : ext c c').
    { unfold c'. destruct (o_id f) eqn:Ei; [apply ext_refl|]. split; [reflexivity|]. cbn [c_heap]. intros o' g Hg.
      destruct (N.eq_dec o' o) as [->|Hne].
      - rewrite Ef in Hg. inversion Hg; subst g. exists (set_id f (c_next_id c)). rewrite (hget_hset_same _ _ _ _ Ef).
        repeat split; auto. intros i Hi. congruence.
      - rewrite (hget_hset_other _ _ _ _ Hne). exists g. repeat split; auto. }
    assert (Hf1 : hget (c_heap c') o = Some f1 /\ exists i, o_id f1 = Some i).
    { unfold c', f1. destruct (o_id f) eqn:Ei; [split; [exact Ef|eauto]|]. cbn [c_heap]. rewrite (hget_hset_same _ _ _ _ Ef).
      split; [reflexivity|]. cbn [set_id o_id]. eauto. }
    destruct Hf1 as [Hg1 (i1 & Hi1)].
    split; [exact Hext|]. split; [reflexivity|]. split.
    { intros o' Ho'. apply in_app_or in Ho'. destruct Ho' as [Ho'|[<-|[]]]; [exact (wr_ids_ext c c' wr Hext Hwr o' Ho')|].
      exists f1, i1. split; assumption. }
    intros cF HF Hb.
    destruct (proj2 HF o f1 Hg1) as (fF & GF & TF & SF & IF).
    assert (HtF : o_type fF = T_BYTE_ARRAY) by (apply (Hb v o fF); [left; reflexivity|exact Ea|exact GF]).
    unfold view_out, arr_out. cbn [fst snd]. unfold enc_view in *.
    destruct (member_ids (c_heap c) (v_members v)) as [ids| |] eqn:Emi; cbn [bind] in Ev; try discriminate.
    rewrite (member_ids_ext c cF (v_members v) ids (ext_trans _ _ _ Hext HF) Emi). cbn [bind]. rewrite Ea, Eo, GF.
    rewrite (enc_fs_bytes L s c' cF f1 fF); [|congruence|exact TF|exact SF|rewrite Hi1; apply IF; exact Hi1].
    rewrite Em. cbn [bind].
    assert (EsF : enc_sofa L cF (v_sofa v) = Ok ms).
    { apply (enc_sofa_ext L c' cF (v_sofa v) ms HF); [|exact Es]. intros o' Ho'. rewrite Ea in Ho'. inversion Ho'; subst o'.
      exists f1, i1. split; assumption. }
    rewrite EsF. cbn [bind]. inversion Ev; subst jv. eexists. split; [reflexivity|]. cbn [fst snd]. split; reflexivity.
  - cbn [bind]. destruct (enc_sofa L c (v_sofa v)) as [ms| |] eqn:Es; cbn [bind]; try discriminate.
    intros [= <- <- <- <-]. split; [apply ext_refl|]. split; [rewrite app_nil_r; reflexivity|]. split; [exact Hwr|]. intros cF HF _.
    unfold view_out, arr_out. cbn [fst snd]. unfold enc_view in *.
    destruct (member_ids (c_heap c) (v_members v)) as [ids| |] eqn:Emi; cbn [bind] in Ev; try discriminate.
    rewrite (member_ids_ext c cF (v_members v) ids HF Emi). cbn [bind]. rewrite Ea. cbn [bind].
    assert (EsF : enc_sofa L cF (v_sofa v) = Ok ms) by (unfold enc_sofa in *; rewrite Ea in *; exact Es).
    rewrite EsF. cbn [bind]. inversion Ev; subst jv. eexists. split; [reflexivity|]. cbn [fst snd app]. split; reflexivity.
Qed.

Lemma loop_spec L s : forall vs c fss views wr cN fssN viewsN wrN,
  wr_ids c wr ->
  fold_left (step_view L s) vs (Ok (c, fss, views, wr)) = Ok (cN, fssN, viewsN, wrN) ->
  ext c cN /\ wrN = wr ++ flat_map arr_of (tag_views wr vs) /\ wr_ids cN wrN /\
  forall cF, ext cN cF -> arrays_bytes cF vs ->
    exists outs, mapM (view_out L s cF) (tag_views wr vs) = Ok outs /\ fssN = fss ++ List.concat (map fst outs) /\ viewsN = views ++ map snd outs.
Proof.
  induction vs as [|v r IH]; intros c fss views wr cN fssN viewsN wrN Hwr H.
  - cbn [fold_left] in H. inversion H; subst. split; [apply ext_refl|]. cbn [tag_views flat_map]. split; [rewrite app_nil_r; reflexivity|].
    split; [exact Hwr|]. intros cF _ _. exists []. cbn [mapM map List.concat].
    rewrite !app_nil_r. auto.
  - cbn [fold_left] in H. destruct (step_view L s (Ok (c, fss, views, wr)) v) as [[[[c1 fss1] views1] wr1]|e|] eqn:E1.
    + destruct (step_view_spec L s c fss views wr v c1 fss1 views1 wr1 Hwr E1) as (X1 & W1 & I1 & S1).
      destruct (IH c1 fss1 views1 wr1 cN fssN viewsN wrN I1 H) as (X2 & W2 & I2 & S2). split; [eapply ext_trans; eassumption|].
      cbn [tag_views flat_map]. rewrite <- W1. split; [rewrite W2, W1, <- app_assoc; reflexivity|]. split; [exact I2|].
      intros cF HF Hb.
      destruct (S1 cF (ext_trans _ _ _ X2 HF)) as (out & Ho & Hf1 & Hv1).
      { intros v' o f [Hv|[]] Ha Hg. apply (Hb v' o f); [left; exact Hv|exact Ha|exact Hg]. }
      destruct (S2 cF HF) as (outs & Hos & Hf2 & Hv2).
      { intros v' o f Hin Ha Hg. apply (Hb v' o f); [right; exact Hin|exact Ha|exact Hg]. }
      exists (out :: outs). cbn [mapM]. rewrite Ho, Hos. cbn [bind map List.concat]. split; [reflexivity|].
      subst fssN viewsN fss1 views1. rewrite <- !app_assoc. split; reflexivity.
    + rewrite fold_step_err in H. discriminate.
    + rewrite fold_step_oof in H. discriminate.
Qed.

(* the traversal only assigns ids *)
Lemma find_all_ext s c w : find_all_fs true s c = Ok w -> ext c (cas_after c w).
Proof.
  intros H. change (find_all_fs true s c) with (find_all_from true s c (member_seeds c)) in H.
  destruct (find_all_shape _ _ _ _ _ H) as [Hs _]. destruct (ids_assigned _ _ _ _ _ H) as (_ & Hk & _).
  split; [reflexivity|]. cbn [cas_after c_heap]. intros o f Hf.
  destruct (shape_some (c_heap c) (w_heap w) o f (eq_sym Hs) Hf) as (f' & G & Sh). apply shape_eq_parts in Sh. destruct Sh as [T S].
  exists f'. split; [exact G|]. split; [exact T|]. split; [exact S|]. intros i Hi.
  destruct (Hk o f i Hf Hi) as (f2 & G2 & I2). rewrite G in G2. inversion G2; subst f2. exact I2.
Qed.

Lemma insert_id_In x y l : In x (insert_id y l) <-> x = y \/ In x l.
Proof.
  induction l as [|z r IH]; cbn [insert_id In]; [intuition|].
  destruct (fst y <=? fst z); cbn [In]; [intuition|]. rewrite IH. intuition.
Qed.
Lemma sort_ids_In x l : In x (sort_ids l) <-> In x l.
Proof.
  induction l as [|y r IH]; cbn [sort_ids fold_right In]; [tauto|]. fold (sort_ids r). rewrite insert_id_In, IH. intuition.
Qed.
Lemma list_eqb_pair a b : list_eqb pair_eqb a b = true -> a = b.
Proof.
  revert b. induction a as [|[i o] r IH]; intros [|[j p] r']; cbn [list_eqb]; try discriminate; [reflexivity|].
  unfold pair_eqb. cbn [fst snd]. rewrite !andb_true_iff. intros [[A B] C]. apply Z.eqb_eq in A. apply N.eqb_eq in B.
  subst. f_equal. apply IH. exact C.
Qed.

(* ================================================================================================================ *)
(* assembling the document                                                                                           *)
(* ================================================================================================================ *)

Definition canon_item (s : schema) (c : cas) (o : oid) : res (xid * cfs) :=
  match hget (c_heap c) o with
  | Some f => match o_id f with Some i => do cf <- canon_fs s c f ;; Ok (i, cf) | None => Err EValue end
  | None => Err EAttribute
  end.
Definition entry_json (e : entry) : json := JObj (snd e).
Definition id_first (e : entry) : Prop := alookup K_ID (snd e) = Some (JInt (fst e)).
Definition not_sofa (e : entry) : bool := negb (is_sofa_entry e).
Definition vjson (v : cview) (ids : list Z) : string * json :=
  (s_name (v_sofa v), JObj [(K_SOFA, JInt (s_xid (v_sofa v))); (K_MEMBERS, JArr (map JInt (zsort ids)))]).

Lemma enc_fs_head L s c f m : enc_fs L s c f = Ok m ->
  exists rest, m = (K_ID, id_json f) :: (K_TYPE, JStr (o_type f)) :: rest.
Proof.
  unfold enc_fs. destruct (is_array_name (o_type f)).
  - destruct (nonempty_list (slot f "elements")).
    + destruct (enc_elements L c (o_type f) l); cbn [bind]; try discriminate. intros [= <-]. eexists. reflexivity.
    + intros [= <-]. eexists. reflexivity.
  - destruct (sch_find s (o_type f)); [|discriminate]. destruct (mapM _ _); cbn [bind]; try discriminate.
    intros [= <-]. eexists. reflexivity.
Qed.

(* a written structure: its entry carries its id, is not a sofa entry, and denotes its canonical content *)
Lemma written_object L s c o f i m :
  lex_ok L -> hget (c_heap c) o = Some f -> o_id f = Some i -> obj_okb s c f = true -> enc_fs L s c f = Ok m ->
  id_first (i, m) /\ is_sofa_entry (i, m) = false /\
  forall stab, stab_ok c stab -> exists r, den_fs L s stab (i, m) = Ok r /\ canon_item s c o = Ok r.
Proof.
  intros HL Hg Hi Hok Hm. destruct (enc_fs_head L s c f m Hm) as (rest & ->).
  split; [unfold id_first, id_json; cbn [snd fst alookup]; rewrite Hi, String.eqb_refl; reflexivity|]. split.
  - unfold is_sofa_entry, e_type. cbn [snd alookup].
    change (String.eqb K_TYPE K_ID) with false. cbv iota. rewrite String.eqb_refl.
    unfold obj_okb in Hok. apply andb_true_iff in Hok. destruct Hok as [Ht _]. unfold tname_okb in Ht.
    apply andb_true_iff in Ht. destruct Ht as [Ht _]. apply negb_true_iff in Ht. exact Ht.
  - intros stab Hst. destruct (den_fs_written L s c f i _ stab HL Hi Hok Hst Hm) as (cf & Hc & Hd).
    exists (i, cf). split; [exact Hd|]. unfold canon_item. rewrite Hg, Hi, Hc. reflexivity.
Qed.

Lemma enc_sofa_head L c sf ms : enc_sofa L c sf = Ok ms ->
  id_first (s_xid sf, ms) /\ is_sofa_entry (s_xid sf, ms) = true.
Proof.
  unfold enc_sofa. destruct (match s_arr sf with None => Ok [] | Some o => _ end) as [arr| |]; cbn [bind]; try discriminate.
  intros [= <-]. split; reflexivity.
Qed.

(* the id under which the byte array of a view's sofa is written, when this view is the first to use it *)
Definition arr_ids (c : cas) (p : list oid * cview) : list Z :=
  flat_map (fun o => match hget (c_heap c) o with Some f => match o_id f with Some i => [i] | None => [] end | None => [] end) (arr_of p).

Lemma view_part L s c (p : list oid * cview) out :
  let v := snd p in
  lex_ok L -> view_out L s c p = Ok out ->
  (match s_text (v_sofa v) with Some t => text_okb t = true | None => True end) ->
  (forall o, s_arr (v_sofa v) = Some o -> exists f i, hget (c_heap c) o = Some f /\ obj_okb s c f = true /\ o_id f = Some i) ->
  exists (E : list entry) ids cs,
    map fst E = arr_ids c p ++ [s_xid (v_sofa v)] /\
    fst out = map entry_json E /\ Forall id_first E /\ snd out = vjson v ids /\
    canon_sofa c v = Ok cs /\ cs_id cs = s_xid (v_sofa v) /\ cs_text cs = s_text (v_sofa v) /\
    (forall VJ, alookup (s_name (v_sofa v)) VJ = Some (snd (vjson v ids)) ->
       mapM (den_sofa L VJ) (filter is_sofa_entry E) = Ok [cs]) /\
    (forall stab, stab_ok c stab ->
       exists rs, mapM (den_fs L s stab) (filter not_sofa E) = Ok rs /\
                  mapM (canon_item s c) (arr_of p) = Ok rs).
Proof.
  intros v HL Hout Htx Harr. unfold view_out in Hout. fold v in Hout.
  destruct (enc_view (c_heap c) v) as [jv| |] eqn:Ev; cbn [bind] in Hout; try discriminate.
  destruct (arr_out L s c p) as [arrs| |] eqn:Ea; cbn [bind] in Hout; try discriminate.
  destruct (enc_sofa L c (v_sofa v)) as [ms| |] eqn:Es; cbn [bind] in Hout; try discriminate.
  inversion Hout; subst out. clear Hout. cbn [fst snd].
  unfold enc_view in Ev. destruct (member_ids (c_heap c) (v_members v)) as [ids| |] eqn:Emi; cbn [bind] in Ev; try discriminate.
  inversion Ev; subst jv. clear Ev.
  destruct (enc_sofa_head L c (v_sofa v) ms Es) as [Hsid Hss].
  assert (Hcs : forall VJ, alookup (s_name (v_sofa v)) VJ = Some (snd (vjson v ids)) ->
            exists arr, (match s_arr (v_sofa v) with None => Ok None | Some o => ref_id c (VRef o) end) = Ok arr /\
            den_sofa L VJ (s_xid (v_sofa v), ms) =
              Ok (mkCsofa (s_xid (v_sofa v)) (s_num (v_sofa v)) (s_name (v_sofa v)) (s_text (v_sofa v)) (s_mime (v_sofa v))
                          (s_uri (v_sofa v)) arr (zsort ids))).
  { intros VJ HVJ. exact (den_sofa_written L c (v_sofa v) ms VJ ids HL Htx Es HVJ). }
  destruct (Hcs [vjson v ids]) as (arr & Harr_id & _).
  { unfold vjson. cbn [alookup fst snd]. rewrite String.eqb_refl. reflexivity. }
  set (cs := mkCsofa (s_xid (v_sofa v)) (s_num (v_sofa v)) (s_name (v_sofa v)) (s_text (v_sofa v)) (s_mime (v_sofa v))
                     (s_uri (v_sofa v)) arr (zsort ids)).
  assert (Hcanon : canon_sofa c v = Ok cs).
  { unfold canon_sofa. rewrite Harr_id. cbn [bind]. rewrite Emi. reflexivity. }
  assert (Hnone : arr_of p = [] -> arrs = [] ->
    exists (E : list entry),
    map fst E = arr_ids c p ++ [s_xid (v_sofa v)] /\
    (arrs ++ [JObj ms]) = map entry_json E /\ Forall id_first E /\ vjson v ids = vjson v ids /\
    canon_sofa c v = Ok cs /\ cs_id cs = s_xid (v_sofa v) /\ cs_text cs = s_text (v_sofa v) /\
    (forall VJ, alookup (s_name (v_sofa v)) VJ = Some (snd (vjson v ids)) ->
       mapM (den_sofa L VJ) (filter is_sofa_entry E) = Ok [cs]) /\
    (forall stab, stab_ok c stab ->
       exists rs, mapM (den_fs L s stab) (filter not_sofa E) = Ok rs /\
                  mapM (canon_item s c) (arr_of p) = Ok rs)).
  { intros Hao ->. exists [(s_xid (v_sofa v), ms)].
    split; [unfold arr_ids; rewrite Hao; reflexivity|].
    split; [reflexivity|]. split; [repeat constructor; assumption|]. split; [reflexivity|]. split; [exact Hcanon|].
    split; [reflexivity|]. split; [reflexivity|]. split.
    + intros VJ HVJ. cbn [filter]. rewrite Hss. cbn [mapM]. destruct (Hcs VJ HVJ) as (arr' & Ha' & Hd').
      rewrite Harr_id in Ha'. inversion Ha'; subst arr'. rewrite Hd'. reflexivity.
    + intros stab _. exists []. unfold not_sofa. cbn [filter]. rewrite Hss. rewrite Hao. split; reflexivity. }
  unfold arr_out in Ea. fold v in Ea. destruct (s_arr (v_sofa v)) as [o|] eqn:Eo; [destruct (omem o (fst p)) eqn:Ew|].
  - inversion Ea; subst arrs. destruct Hnone as (E & H). { unfold arr_of. fold v. rewrite Eo, Ew. reflexivity. } { reflexivity. }
    exists E, ids, cs. exact H.
  - destruct (Harr o eq_refl) as (f & i & Hg & Hok & Hi). rewrite Hg in Ea.
    destruct (enc_fs L s c f) as [m| |] eqn:Em; cbn [bind] in Ea; try discriminate. inversion Ea; subst arrs.
    destruct (written_object L s c o f i m HL Hg Hi Hok Em) as (Hid & Hns & Hden).
    assert (Hao : arr_of p = [o]) by (unfold arr_of; fold v; rewrite Eo, Ew; reflexivity).
    exists [(i, m); (s_xid (v_sofa v), ms)], ids, cs.
    split; [unfold arr_ids; rewrite Hao; cbn [flat_map]; rewrite Hg, Hi; reflexivity|].
    split; [reflexivity|]. split; [repeat constructor; assumption|]. split; [reflexivity|]. split; [exact Hcanon|].
    split; [reflexivity|]. split; [reflexivity|]. split.
    + intros VJ HVJ. cbn [filter]. rewrite Hns, Hss. cbn [mapM]. destruct (Hcs VJ HVJ) as (arr' & Ha' & Hd').
      rewrite Harr_id in Ha'. inversion Ha'; subst arr'. rewrite Hd'. reflexivity.
    + intros stab Hst. destruct (Hden stab Hst) as (r & Hd & Hc). exists [r]. unfold not_sofa. cbn [filter]. rewrite Hns, Hss. cbn [negb mapM].
      rewrite Hao. cbn [mapM]. rewrite Hd, Hc. split; reflexivity.
  - inversion Ea; subst arrs. destruct Hnone as (E & H). { unfold arr_of. fold v. rewrite Eo. reflexivity. } { reflexivity. }
    exists E, ids, cs. exact H.
Qed.

Definition view_okP (s : schema) (c : cas) (v : cview) : Prop :=
  (match s_text (v_sofa v) with Some t => text_okb t = true | None => True end) /\
  (forall o, s_arr (v_sofa v) = Some o -> exists f i, hget (c_heap c) o = Some f /\ obj_okb s c f = true /\ o_id f = Some i).

(* what the views loop wrote, as entries: ids, shape, and what the entries denote (tvs: the views, each with the arrays
   written before it) *)
Definition views_facts (L : lex) (s : schema) (c : cas) (tvs : list (list oid * cview)) (outs : list (list json * (string * json)))
                       (E : list entry) (sofas : list csofa) : Prop :=
    let vs := map snd tvs in
    map fst E = flat_map (fun p => arr_ids c p ++ [s_xid (v_sofa (snd p))]) tvs /\
    List.concat (map fst outs) = map entry_json E /\ Forall id_first E /\
    mapM (canon_sofa c) vs = Ok sofas /\
    map (fun cs => (cs_id cs, cs_text cs)) sofas = map (fun v => (s_xid (v_sofa v), s_text (v_sofa v))) vs /\
    map fst (map snd outs) = map (fun v => s_name (v_sofa v)) vs /\
    (forall VJ, Forall2 (fun v out => alookup (s_name (v_sofa v)) VJ = Some (snd (snd out))) vs outs ->
       mapM (den_sofa L VJ) (filter is_sofa_entry E) = Ok sofas) /\
    (forall stab, stab_ok c stab ->
       exists rs, mapM (den_fs L s stab) (filter not_sofa E) = Ok rs /\ mapM (canon_item s c) (flat_map arr_of tvs) = Ok rs).

Lemma views_part L s c : lex_ok L -> forall tvs outs, mapM (view_out L s c) tvs = Ok outs ->
  (forall p, In p tvs -> view_okP s c (snd p)) ->
  exists (E : list entry) sofas, views_facts L s c tvs outs E sofas.
Proof.
  unfold views_facts.
  intros HL. induction tvs as [|v r IH]; intros outs Hm Hok.
  - cbn [mapM] in Hm. inversion Hm; subst outs. exists [], []. cbn. repeat split; auto. intros stab _. exists []. split; reflexivity.
  - cbn [mapM] in Hm. destruct (view_out L s c v) as [out| |] eqn:Eo; cbn [bind] in Hm; try discriminate.
    destruct (mapM (view_out L s c) r) as [outs'| |] eqn:Er; cbn [bind] in Hm; try discriminate. inversion Hm; subst outs. clear Hm.
    destruct (Hok v (or_introl eq_refl)) as [Htx Harr].
    destruct (view_part L s c v out HL Eo Htx Harr) as (E1 & ids & cs & A0 & A1 & A2 & A3 & A4 & A5 & A6 & A7 & A8).
    destruct (IH outs' eq_refl (fun x Hx => Hok x (or_intror Hx))) as (E2 & sofas & B0 & B1 & B2 & B3 & B4 & B5 & B6 & B7).
    exists (E1 ++ E2), (cs :: sofas). cbn [map List.concat mapM flat_map].
    split; [rewrite map_app; f_equal; [exact A0|exact B0]|].
    split; [rewrite A1, B1, map_app; reflexivity|]. split; [apply Forall_app; split; assumption|].
    split; [rewrite A4, B3; reflexivity|]. split; [cbn [map]; rewrite A5, A6, B4; reflexivity|].
    split; [rewrite A3, B5; reflexivity|]. split.
    + intros VJ F2. inversion F2 as [|? ? ? ? Hv Hr]; subst. rewrite filter_app, mapM_app.
      rewrite A3 in Hv. rewrite (A7 VJ Hv), (B6 VJ Hr). reflexivity.
    + intros stab Hst. destruct (A8 stab Hst) as (rs1 & C1 & C2). destruct (B7 stab Hst) as (rs2 & D1 & D2).
      exists (rs1 ++ rs2). rewrite filter_app, !mapM_app.
      rewrite C1, C2, D1, D2. split; reflexivity.
Qed.

Definition found_okP (s : schema) (c : cas) (io : xid * oid) : Prop :=
  exists f, hget (c_heap c) (snd io) = Some f /\ obj_okb s c f = true /\ o_id f = Some (fst io).

Definition found_facts (L : lex) (s : schema) (c : cas) (found : list (xid * oid)) (fss : list json) (E : list entry) : Prop :=
    map fst E = map fst found /\ fss = map entry_json E /\ Forall id_first E /\ filter is_sofa_entry E = [] /\ filter not_sofa E = E /\
    forall stab, stab_ok c stab ->
      exists rs, mapM (den_fs L s stab) E = Ok rs /\ mapM (canon_item s c) (map snd found) = Ok rs.
Lemma found_part L s c : lex_ok L -> forall found fss,
  mapM (fun io => do f <- fs_at c io ;; do m <- enc_fs L s c f ;; Ok (JObj m)) found = Ok fss ->
  (forall io, In io found -> found_okP s c io) ->
  exists E : list entry, found_facts L s c found fss E.
Proof.
  unfold found_facts.
  intros HL. induction found as [|io r IH]; intros fss Hm Hok.
  - cbn [mapM] in Hm. inversion Hm. exists []. repeat split; auto. intros stab _. exists []. split; reflexivity.
  - cbn [mapM] in Hm. destruct (Hok io (or_introl eq_refl)) as (f & Hg & Hobj & Hi).
    unfold fs_at in Hm at 1. rewrite Hg in Hm. cbn [bind] in Hm.
    destruct (enc_fs L s c f) as [m| |] eqn:Em; cbn [bind] in Hm; try discriminate.
    destruct (mapM _ r) as [fss'| |] eqn:Er in Hm; cbn [bind] in Hm; try discriminate. inversion Hm; subst fss. clear Hm.
    destruct (IH fss' Er (fun x Hx => Hok x (or_intror Hx))) as (E & B0 & B1 & B2 & B3 & B4 & B5).
    destruct (written_object L s c (snd io) f (fst io) m HL Hg Hi Hobj Em) as (Hid & Hns & Hden).
    exists ((fst io, m) :: E). cbn [map filter]. unfold not_sofa at 1. rewrite Hns. cbn [negb].
    split; [cbn [fst]; f_equal; exact B0|].
    split; [rewrite B1; reflexivity|]. split; [constructor; assumption|]. split; [exact B3|]. split; [rewrite B4; reflexivity|].
    intros stab Hst. destruct (Hden stab Hst) as (r0 & D1 & D2). destruct (B5 stab Hst) as (rs & F1 & F2).
    exists (r0 :: rs). cbn [mapM]. rewrite D1, D2, F1, F2. split; reflexivity.
Qed.

Lemma entries_written E : Forall id_first E ->
  mapM (fun j => match j with
                 | JObj m => match alookup K_ID m with Some (JInt i) => Ok (i, m) | _ => Err EValue end
                 | _ => Err EAttribute end) (map entry_json E) = Ok E.
Proof.
  induction 1 as [|[i m] r Hid _ IH]; [reflexivity|]. cbn [map mapM entry_json snd]. unfold id_first in Hid. cbn [fst snd] in Hid.
  rewrite Hid. cbn [bind]. rewrite IH. reflexivity.
Qed.

Lemma alookup_nodup {V} k (x : V) l : NoDup (map fst l) -> In (k, x) l -> alookup k l = Some x.
Proof.
  induction l as [|[k' x'] r IH]; intros Hnd Hin; [destruct Hin|]. cbn [map fst] in Hnd. inversion Hnd as [|? ? Hni Hnd']; subst.
  cbn [alookup]. destruct Hin as [E|Hin].
  - inversion E; subst. rewrite String.eqb_refl. reflexivity.
  - destruct (String.eqb k k') eqn:E; [|apply IH; assumption]. apply String.eqb_eq in E. subst k'.
    exfalso. apply Hni. change k with (fst (k, x)). apply in_map. exact Hin.
Qed.
Lemma zlookup_nodup {V} k (x : V) l : NoDup (map fst l) -> In (k, x) l -> zlookup k l = Some x.
Proof.
  induction l as [|[k' x'] r IH]; intros Hnd Hin; [destruct Hin|]. cbn [map fst] in Hnd. inversion Hnd as [|? ? Hni Hnd']; subst.
  cbn [zlookup]. destruct Hin as [E|Hin].
  - inversion E; subst. rewrite Z.eqb_refl. reflexivity.
  - destruct (Z.eqb k k') eqn:E; [|apply IH; assumption]. apply Z.eqb_eq in E. subst k'.
    exfalso. apply Hni. change k with (fst (k, x)). apply in_map. exact Hin.
Qed.
Lemma znodup_NoDup l : znodup l = true -> NoDup l.
Proof.
  induction l as [|x r IH]; cbn [znodup]; intros H; [constructor|]. apply andb_true_iff in H. destruct H as [A B].
  constructor; [|apply IH; exact B]. intros Hin. apply negb_true_iff in A.
  assert (existsb (Z.eqb x) r = true) by (apply existsb_exists; exists x; split; [exact Hin|apply Z.eqb_refl]). congruence.
Qed.

Lemma ser_types_shape s mode used types : ser_types s mode used = Ok types -> types = [] \/ exists j, types = [(K_TYPES, j)].
Proof.
  unfold ser_types. destruct mode.
  - destruct (types_to_include s MFull used); cbn [bind]; try discriminate. destruct (mapM _ _); cbn [bind]; try discriminate.
    intros [= <-]. right. eexists. reflexivity.
  - destruct (types_to_include s MMinimal used); cbn [bind]; try discriminate. destruct (mapM _ _); cbn [bind]; try discriminate.
    intros [= <-]. right. eexists. reflexivity.
  - intros [= <-]. left. reflexivity.
Qed.

Lemma opt_eqb_some a i : opt_eqb Z.eqb a (Some i) = true -> a = Some i.
Proof. destruct a as [x|]; cbn [opt_eqb]; [|discriminate]. intros H. apply Z.eqb_eq in H. congruence. Qed.

(* the views loop only advances the id generator *)
Lemma step_view_next L s c fss views wr v c1 fss1 views1 wr1 :
  step_view L s (Ok (c, fss, views, wr)) v = Ok (c1, fss1, views1, wr1) -> c_next_id c <= c_next_id c1.
Proof.
  unfold step_view. cbn [bind].
  destruct (enc_view (c_heap c) v) as [jv| |]; cbn [bind]; try discriminate.
  destruct (s_arr (v_sofa v)) as [o|]; [destruct (omem o wr)|].
  - cbn [bind]. destruct (enc_sofa L c (v_sofa v)); cbn [bind]; try discriminate. intros [= <- _ _ _]. lia.
  - destruct (hget (c_heap c) o) as [f|]; cbn [bind]; [|discriminate].
    destruct (o_id f).
    + destruct (enc_fs L s c f); cbn [bind]; try discriminate. destruct (enc_sofa L c (v_sofa v)); cbn [bind]; try discriminate.
      intros [= <- _ _ _]. lia.
    + destruct (enc_fs L s _ _); cbn [bind]; try discriminate. destruct (enc_sofa L _ (v_sofa v)); cbn [bind]; try discriminate.
      intros [= <- _ _ _]. cbn [c_next_id]. lia.
  - cbn [bind]. destruct (enc_sofa L c (v_sofa v)); cbn [bind]; try discriminate. intros [= <- _ _ _]. lia.
Qed.
Lemma loop_next L s : forall vs c fss views wr cN fssN viewsN wrN,
  fold_left (step_view L s) vs (Ok (c, fss, views, wr)) = Ok (cN, fssN, viewsN, wrN) -> c_next_id c <= c_next_id cN.
Proof.
  induction vs as [|v r IH]; intros c fss views wr cN fssN viewsN wrN H.
  - cbn [fold_left] in H. inversion H. lia.
  - cbn [fold_left] in H. destruct (step_view L s (Ok (c, fss, views, wr)) v) as [[[[c1 fss1] views1] wr1]|e|] eqn:E1.
    + pose proof (step_view_next _ _ _ _ _ _ _ _ _ _ _ E1). pose proof (IH _ _ _ _ _ _ _ _ H). lia.
    + rewrite fold_step_err in H. discriminate.
    + rewrite fold_step_oof in H. discriminate.
Qed.
(* what save_found returns, and the discharge of the former premise `stableb`: the traversal repeated on the CAS it
   leaves behind returns the same state *)
Lemma save_found_stable L s c c1 sofa_fs views wr w : 0 < c_next_id c -> save_found_wr L s c = Ok (c1, sofa_fs, views, wr, w) ->
  fold_left (step_view L s) (c_views c) (Ok (c, [], [], [])) = Ok (c1, sofa_fs, views, wr) /\
  find_all_fs true s c1 = Ok w /\ find_all_fs true s (cas_after c1 w) = Ok w.
Proof.
  intros Hpos Esf. unfold save_found_wr in Esf.
  destruct (fold_left (step_view L s) (c_views c) (Ok (c, [], [], []))) as [[[[c1' sfs] vws] wr']| |] eqn:Efold; cbn [bind] in Esf; try discriminate.
  destruct (find_all_fs true s c1') as [w0| |] eqn:Ew; cbn [bind] in Esf; try discriminate. inversion Esf; subst c1' sfs vws wr' w0.
  split; [reflexivity|]. split; [exact Ew|]. apply find_all_fs_stable; [|exact Ew].
  pose proof (loop_next _ _ _ _ _ _ _ _ _ _ _ Efold). lia.
Qed.
Theorem stableb_holds L s c : 0 < c_next_id c -> (exists r, save_found L s c = Ok r) -> stableb L s c = true.
Proof.
  intros Hpos (r & Esf0). unfold stableb. rewrite Esf0. unfold save_found in Esf0.
  destruct (save_found_wr L s c) as [[[[[c1 sfs] vws] wr] w]| |] eqn:Esf; cbn [bind] in Esf0; try discriminate. inversion Esf0; subst r.
  destruct (save_found_stable L s c c1 sfs vws wr w Hpos Esf) as (_ & _ & ->).
  generalize (sort_ids (w_all w)). induction l as [|[i o] r IH]; [reflexivity|]. cbn [list_eqb]. unfold pair_eqb at 1. cbn [fst snd].
  rewrite Z.eqb_refl, N.eqb_refl. exact IH.
Qed.

(* C02/C04: read with the declarative semantics of the format, the document the writer produces describes exactly the
   canonical content of the CAS it leaves behind — sofa data, view membership, every structure under its id, every
   value, references as ids (so shared structures are shared), offsets in code points. *)
(* everything the proof of the document theorems needs to know about a successful save, in one place *)
Definition arrs_okP (s : schema) (c2 : cas) (vs : list cview) : Prop :=
  forall v o, In v vs -> s_arr (v_sofa v) = Some o ->
    exists f i, hget (c_heap c2) o = Some f /\ (String.eqb (o_type f) T_BYTE_ARRAY = true /\ obj_okb s c2 f = true) /\ o_id f = Some i.
(* the views with the arrays written before them; what the traversal found and the views loop had not written *)
Definition tviews (c : cas) : list (list oid * cview) := tag_views [] (c_views c).
Definition found_list (c : cas) (w : wstate) : list (xid * oid) := unwritten (sofa_arrays c) (sort_ids (w_all w)).
Lemma tviews_arrays c : flat_map arr_of (tviews c) = sofa_arrays_once c.
Proof. unfold tviews, sofa_arrays_once, sofa_arrays. apply tag_arrays. Qed.
Lemma save_json_parts L s mode c d c2 :
  lex_ok L -> save_json L s mode c = Ok (d, c2) -> wf_jsonb s c2 = true -> 0 < c_next_id c ->
  exists w types outs fss (Ev Ef : list entry) sofas,
    find_all_fs true s c2 = Ok w /\ w_heap w = c_heap c2 /\ c_views c2 = c_views c /\
    (types = [] \/ exists j, types = [(K_TYPES, j)]) /\
    d = JObj (types ++ [(K_FS, JArr (List.concat (map fst outs) ++ fss)); (K_VIEWS, JObj (map snd outs))]) /\
    mapM (view_out L s c2) (tviews c) = Ok outs /\
    mapM (fun io => do f <- fs_at c2 io ;; do m <- enc_fs L s c2 f ;; Ok (JObj m)) (found_list c2 w) = Ok fss /\
    views_facts L s c2 (tviews c) outs Ev sofas /\ found_facts L s c2 (found_list c2 w) fss Ef /\
    (forall io, In io (w_all w) -> found_okP s c2 io) /\ arrs_okP s c2 (c_views c) /\
    snodup (map s_name (map v_sofa (c_views c2))) = true /\ znodup (map s_xid (map v_sofa (c_views c2))) = true.
Proof.
  intros HL Hsave Hwf Hpos.
  unfold save_json in Hsave.
  destruct (save_found_wr L s c) as [[[[[c1 sofa_fs] views] wr] w]| |] eqn:Esf; cbn [bind] in Hsave; try discriminate.
  destruct (mapM (fun io => do f <- fs_at (cas_after c1 w) io ;; do m <- enc_fs L s (cas_after c1 w) f ;; Ok (JObj m)) (unwritten wr (sort_ids (w_all w))))
    as [fss| |] eqn:Efss; cbn [bind] in Hsave; try discriminate.
  destruct (mapM (fun io => do f <- fs_at (cas_after c1 w) io ;; Ok (o_type f)) (sort_ids (w_all w))) as [used| |] eqn:Eused;
    cbn [bind] in Hsave; try discriminate.
  destruct (ser_types s mode used) as [types| |] eqn:Ety; cbn [bind] in Hsave; try discriminate.
  inversion Hsave; subst d c2. clear Hsave.
  (* the loop and the traversal; a second traversal of the CAS the save leaves behind finds the same structures under
     the same ids (ReachSpec.find_all_fs_stable) *)
  destruct (save_found_stable L s c c1 sofa_fs views wr w Hpos Esf) as (Efold & Ew & Ew').
  pose (w' := w).
  (* the premises *)
  unfold wf_jsonb in Hwf. rewrite Ew' in Hwf. rewrite !andb_true_iff in Hwf. destruct Hwf as ((((Hn & Hi) & Ht) & Hf) & Ha).
  rewrite forallb_forall in Ht, Hf, Ha.
  destruct (loop_spec L s _ _ _ _ _ _ _ _ _ (fun o (H : In o []) => match H with end) Efold) as (X1 & Hwr & _ & Hloop).
  pose proof (find_all_ext s c1 w Ew) as X2.
  set (c2 := cas_after c1 w) in *.
  assert (Hviews : c_views c2 = c_views c) by (rewrite (proj1 X2); exact (proj1 X1)).
  assert (Harrs : forall v o, In v (c_views c) -> s_arr (v_sofa v) = Some o ->
            exists f i, hget (c_heap c2) o = Some f /\ (String.eqb (o_type f) T_BYTE_ARRAY = true /\ obj_okb s c2 f = true) /\ o_id f = Some i).
  { intros v o Hv Ho. assert (Hin : In o (sofa_arrays c2)).
    { unfold sofa_arrays. rewrite Hviews. apply in_flat_map. exists v. split; [exact Hv|]. rewrite Ho. left. reflexivity. }
    specialize (Ha o Hin). destruct (hget (c_heap c2) o) as [f|] eqn:G; [|discriminate]. rewrite !andb_true_iff in Ha.
    destruct Ha as [[A B] C]. destruct (o_id f) as [i|] eqn:I; [|discriminate]. exists f, i. split; [reflexivity|]. split; [split; assumption|exact I]. }
  destruct (Hloop c2 X2) as (outs & Houts & Hsfs & Hvws).
  { intros v o f Hv Ho Hg. destruct (Harrs v o Hv Ho) as (f' & i & G & [T _] & _). rewrite Hg in G. inversion G; subst f'.
    apply String.eqb_eq in T. exact T. }
  cbn [app] in Hsfs, Hvws, Hwr. subst sofa_fs views.
  (* what the loop wrote is the set of the sofa byte arrays *)
  assert (Hsame : unwritten wr (sort_ids (w_all w)) = found_list c2 w).
  { unfold found_list. apply unwritten_same. intros o. rewrite Hwr. fold (tviews c). rewrite tviews_arrays.
    rewrite sofa_arrays_once_mem. unfold sofa_arrays. rewrite Hviews. reflexivity. }
  rewrite Hsame in Efss.
  destruct (views_part L s c2 HL (tviews c) outs Houts) as (Ev & sofas & HV).
  { intros p Hp. assert (Hv : In (snd p) (c_views c)) by (rewrite <- (tag_views_snd (c_views c) []); apply in_map; exact Hp). split.
    - assert (Hs : In (v_sofa (snd p)) (map v_sofa (c_views c2))) by (rewrite Hviews; apply in_map; exact Hv). pose proof (Ht _ Hs) as Hq. destruct (s_text (v_sofa (snd p))); [exact Hq|exact I].
    - intros o Ho. destruct (Harrs (snd p) o Hv Ho) as (f & i & G & [_ K] & I). exists f, i. auto. }
  assert (Hfound : forall io, In io (w_all w) -> found_okP s c2 io).
  { intros io Hio. specialize (Hf io Hio).
    destruct (hget (c_heap c2) (@snd Z oid io)) as [f|] eqn:G; [|discriminate Hf]. apply andb_true_iff in Hf. destruct Hf as [A B].
    exists f. split; [exact G|]. split; [exact A|apply opt_eqb_some; exact B]. }
  destruct (found_part L s c2 HL (found_list c2 w) fss Efss) as (Ef & HF).
  { intros io Hio. apply Hfound. apply (proj1 (sort_ids_In _ _)). unfold found_list, unwritten in Hio. apply filter_In in Hio. exact (proj1 Hio). }
  exists w, types, outs, fss, Ev, Ef, sofas.
  split; [exact Ew'|]. split; [reflexivity|]. split; [exact Hviews|]. split; [exact (ser_types_shape _ _ _ _ Ety)|].
  split; [reflexivity|]. split; [exact Houts|]. split; [exact Efss|]. split; [exact HV|]. split; [exact HF|].
  split; [exact Hfound|]. split; [exact Harrs|]. split; [exact Hn|exact Hi].
Qed.

Theorem denote_save_json L s mode c d c2 :
  lex_ok L -> save_json L s mode c = Ok (d, c2) -> wf_jsonb s c2 = true -> 0 < c_next_id c ->
  denote_json L s d = canon_json s c2.
Proof.
  intros HL Hsave Hwf Hpos.
  destruct (save_json_parts L s mode c d c2 HL Hsave Hwf Hpos)
    as (w & types & outs & fss & Ev & Ef & sofas & Ew' & Hheap & Hviews & Hty & -> & Houts & Efss & HV & HF & Hfound & Harrs & Hn & Hi).
  destruct HV as (V0 & V1 & V2 & V3 & V4 & V5 & V6 & V7). destruct HF as (F0 & F1 & F2 & F3 & F4 & F5).
  unfold tviews in V3, V4, V5, V6. rewrite tag_views_snd in V3, V4, V5, V6.
  (* the document *)
  assert (Hfs : jget K_FS (JObj (types ++ [(K_FS, JArr (List.concat (map fst outs) ++ fss)); (K_VIEWS, JObj (map snd outs))]))
                = Some (JArr (map entry_json (Ev ++ Ef)))).
  { rewrite map_app, <- V1, <- F1. destruct Hty as [->|(j & ->)]; reflexivity. }
  assert (Hvj : doc_views (JObj (types ++ [(K_FS, JArr (List.concat (map fst outs) ++ fss)); (K_VIEWS, JObj (map snd outs))]))
                = Ok (map snd outs)).
  { destruct Hty as [->|(j & ->)]; reflexivity. }
  unfold denote_json, fs_entries. rewrite Hfs, (entries_written (Ev ++ Ef) (proj2 (Forall_app _ _ _) (conj V2 F2))). cbn [bind].
  rewrite Hvj. cbn [bind].
  (* sofas *)
  assert (Hnames : NoDup (map fst (map snd outs))).
  { rewrite V5. apply snodup_NoDup. rewrite <- Hviews. rewrite map_map in Hn. exact Hn. }
  assert (HVJ : Forall2 (fun v out => alookup (s_name (v_sofa v)) (map snd outs) = Some (snd (snd out))) (c_views c) outs).
  { assert (G : forall vs os, map fst (map snd os) = map (fun v => s_name (v_sofa v)) vs -> (forall o, In o os -> In o outs) ->
                  Forall2 (fun v out => alookup (s_name (v_sofa v)) (map snd outs) = Some (snd (snd out))) vs os).
    { induction vs as [|v r IHr]; intros [|o os] Hm Hsub; cbn [map] in Hm; try discriminate; constructor.
      - injection Hm as Hk _. rewrite <- Hk. apply alookup_nodup; [exact Hnames|].
        rewrite <- surjective_pairing. apply in_map. apply Hsub. left. reflexivity.
      - apply IHr; [injection Hm as _ Hm; exact Hm|]. intros x Hx. apply Hsub. right. exact Hx. }
    apply G; [exact V5|auto]. }
  rewrite filter_app, F3, app_nil_r, (V6 (map snd outs) HVJ). cbn [bind].
  (* the sofa table *)
  assert (Hstabok : stab_ok c2 (map (fun cs => (cs_id cs, cs_text cs)) sofas)).
  { rewrite V4. intros n sf Hfs'. unfold find_sofa in Hfs'. rewrite Hviews in Hfs'.
    destruct (find _ (c_views c)) as [v|] eqn:Efi; [|discriminate]. cbn [option_map] in Hfs'. inversion Hfs'; subst sf.
    apply find_some in Efi. destruct Efi as [Hv _]. apply zlookup_nodup.
    - rewrite map_map. cbn [fst]. apply znodup_NoDup. rewrite <- Hviews. rewrite map_map in Hi. exact Hi.
    - apply (in_map (fun v => (s_xid (v_sofa v), s_text (v_sofa v)))) in Hv. exact Hv. }
  destruct (V7 _ Hstabok) as (rs1 & R1 & R2). destruct (F5 _ Hstabok) as (rs2 & R3 & R4).
  change (fun e : entry => negb (is_sofa_entry e)) with not_sofa.
  rewrite filter_app, F4, mapM_app, R1, R3. cbn [bind].
  (* the canonical side *)
  unfold canon_json. rewrite Ew'. cbn [bind]. unfold canon_of, listed.
  change (fun o : oid => match hget (c_heap c2) o with
                         | Some f => match o_id f with Some i => do cf <- canon_fs s c2 f ;; Ok (i, cf) | None => Err EValue end
                         | None => Err EAttribute end) with (canon_item s c2).
  assert (Hsa : sofa_arrays_once c2 = flat_map arr_of (tviews c)).
  { rewrite tviews_arrays. unfold sofa_arrays_once, sofa_arrays. rewrite Hviews. reflexivity. }
  fold (found_list c2 w). rewrite Hsa, mapM_app, R2, R4. cbn [bind]. rewrite Hviews, V3. reflexivity.
Qed.

(* ================================================================================================================ *)
(* corollaries                                                                                                       *)
(* ================================================================================================================ *)

(* collections are references in JSON: whoever holds the object a denotes the id i, and i files exactly a *)
Theorem shared_stays_shared s c w a fa i :
  find_all_fs true s c = Ok w -> In (i, a) (w_all w) -> hget (c_heap c) a = Some fa -> o_id fa = Some i ->
  cv_json c (VRef a) = Ok (CRef i) /\ (forall o, In (i, o) (w_all w) -> o = a) /\ (forall j, In (j, a) (w_all w) -> j = i).
Proof.
  intros H Hin Hg Hi. change (find_all_fs true s c) with (find_all_from true s c (member_seeds c)) in H.
  destruct (find_all_each_once _ _ _ _ _ H) as [Nid Noid].
  split; [cbn [cv_json cv_atom ref_id]; rewrite Hg, Hi; reflexivity|]. split.
  - intros o Ho. exact (NoDup_fst_inj (w_all w) i o a Nid Ho Hin).
  - intros j Hj. unfold returned in Noid.
    assert (G : forall (l : list (xid * oid)) j i a, NoDup (map snd l) -> In (j, a) l -> In (i, a) l -> j = i).
    { induction l as [|[k b] r IH]; [intros j0 i0 a0 _ []|]. intros j0 i0 a0 Hn [E1|H1] [E2|H2]; cbn [map snd] in Hn; inversion Hn as [|? ? Hni Hn']; subst.
      - congruence.
      - inversion E1; subst. exfalso. apply Hni. change a0 with (snd (i0, a0)). apply in_map. exact H2.
      - inversion E2; subst. exfalso. apply Hni. change a0 with (snd (j0, a0)). apply in_map. exact H1.
      - eapply IH; eassumption. }
    exact (G _ _ _ _ Noid Hj Hin).
Qed.

(* re-serialising: two documents the writer produces from CASes with the same canonical content (the original after its
   save and the loaded one after its save) have the same denotation *)
Theorem json_resave_same_denotation L s m1 m2 c1 d1 c1' c2 d2 c2' :
  lex_ok L ->
  save_json L s m1 c1 = Ok (d1, c1') -> wf_jsonb s c1' = true -> 0 < c_next_id c1 ->
  save_json L s m2 c2 = Ok (d2, c2') -> wf_jsonb s c2' = true -> 0 < c_next_id c2 ->
  canon_json s c1' = canon_json s c2' -> denote_json L s d1 = denote_json L s d2.
Proof.
  intros HL S1 W1 T1 S2 W2 T2 E.
  rewrite (denote_save_json L s m1 c1 d1 c1' HL S1 W1 T1), (denote_save_json L s m2 c2 d2 c2' HL S2 W2 T2). exact E.
Qed.

(* round trip through the reader model, for documents on which the reader agrees with the denotation *)
Theorem json_roundtrip_given_reader L s mode c d c' :
  lex_ok L -> save_json L s mode c = Ok (d, c') -> wf_jsonb s c' = true -> 0 < c_next_id c ->
  load_json L s d = denote_json L s d -> load_json L s d = canon_json s c'.
Proof. intros HL S W T E. rewrite E. exact (denote_save_json L s mode c d c' HL S W T). Qed.

(* before c9a01e4: an extended DocumentAnnotation that the document uses was not declared *)
Definition s_docann_ext : schema :=
  mkTi T_DOCANN [T_DOCANN; T_ANNOTATION; T_ANNOTATION_BASE; T_TOP]
       [mkFd "language" "language" T_STRING None false; mkFd "extra" "extra" T_STRING None false; fd_begin; fd_end; fd_sofa]
  :: filter (fun ti => negb (String.eqb (ti_name ti) T_DOCANN)) builtin_schema.
Theorem old_docann_skip_refuted :
  exists s used decls ti, schema_okb s = true /\ ser_types_old s MFull used = Ok [(K_TYPES, JObj decls)] /\
    In T_DOCANN used /\ sch_find s T_DOCANN = Some ti /\ is_predefined T_DOCANN = false /\ docann_default s ti = false /\
    alookup T_DOCANN decls = None.
Proof.
  exists s_docann_ext, [T_DOCANN], [], (mkTi T_DOCANN [T_DOCANN; T_ANNOTATION; T_ANNOTATION_BASE; T_TOP]
       [mkFd "language" "language" T_STRING None false; mkFd "extra" "extra" T_STRING None false; fd_begin; fd_end; fd_sofa]).
  vm_compute. repeat split; auto.
Qed.
