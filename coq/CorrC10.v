(* CorrC10.v — correspondence harness for C10.  A case is a history of operations applied to a fresh TypeSystem()
   together with what the implementation answered: the outcome of every operation (ok / error kind) and, on the final
   state, the hierarchy queries over a set of full names (all ordered pairs) and the lookups over a set of strings.
   check_case runs the model (both forms of _add_feature) and compares.  Lists of booleans travel as bit masks
   (bit i = i-th answer) to keep the case files small. *)
From Cassis Require Import Base TS.

Record case := mkCase {
  c_ops : list tsop;
  c_out : list opres;                         (* per operation *)
  c_users : list string;                      (* get_types(built_in=True) after the built-in ones, in registration order *)
  c_names : list string;                      (* registered full names queried; pairs are row-major over names x names *)
  c_sub_ts : N;                               (* ts.subsumes(a, b) *)
  c_sub_ty : N;                               (* ts.get_type(a).subsumes(ts.get_type(b)) *)
  c_iio : N;                                  (* ts.is_instance_of(b, a) *)
  c_super : list N;                           (* per name: 0 = None, i+1 = position of the supertype in get_types(built_in=True) *)
  c_children : list N;                        (* per name: set of positions, as a mask *)
  c_desc : list N;                            (* per name: set of positions of the names yielded by descendants *)
  c_desc_len : list N;                        (* per name: how many items descendants yielded *)
  c_prim : N;                                 (* ts.is_primitive(name) per name *)
  c_lookups : list string;                    (* full names, short names, unknown and ambiguous strings *)
  c_get : list N;                             (* get_type: i+1 = position of the result / 0 = TypeNotFoundError *)
  c_contains : N; c_contains_exact : N;       (* contains_type(s), contains_type(s, True) *)
  c_pairs : list (string * string);           (* string-level queries, may be short or unknown names *)
  c_pairs_sub : list (res bool);              (* ts.subsumes(x, y) *)
  c_pairs_iio : list (res bool);              (* ts.is_instance_of(y, x): parent x / child y given by full, short, ambiguous or unknown name *)
  c_ident : bool                              (* every reachable Type object is the registered one (checked with `is`) *)
}.

Fixpoint bits_from (i : N) (l : list bool) : N :=
  match l with [] => 0%N | b :: r => ((if b then N.shiftl 1 i else 0) + bits_from (N.succ i) r)%N end.
Definition bits (l : list bool) : N := bits_from 0%N l.
Definition pairs_of {A} (l : list A) : list (A * A) := flat_map (fun a => map (fun b => (a, b)) l) l.
Definition same_set (a b : list string) : bool :=
  Nat.eqb (List.length a) (List.length b) && forallb (fun x => memb x b) a && forallb (fun x => memb x a) b.
Definition res_bool_eqb (a b : res bool) : bool :=
  match a, b with
  | Ok x, Ok y => Bool.eqb x y | Err x, Err y => err_eqb x y | OutOfFuel, OutOfFuel => true | _, _ => false end.
Definition is_true (r : res bool) : bool := match r with Ok true => true | _ => false end.
Definition is_okb (r : res bool) : bool := match r with Ok _ => true | _ => false end.
Definition ty_of (ts : tsys) (n : string) : ty := match find_ty ts n with Some t => t | None => top_ty end.
(* positions in registration order *)
Fixpoint idx_from (i : N) (l : list string) (n : string) : N :=
  match l with [] => 0%N | x :: r => if String.eqb x n then N.succ i else idx_from (N.succ i) r n end.
Definition idx (ts : tsys) (n : string) : N := idx_from 0%N (map t_name ts) n.
Definition mask (ts : tsys) (l : list string) : N := bits (map (fun t => memb (t_name t) l) ts).
Definition nlist_eqb := list_eqb N.eqb.

(* structural equality of states, used to compare the two forms of _add_feature *)
Definition feat_list_same := list_eqb feat_same.
Definition ty_same (a b : ty) : bool :=
  String.eqb (t_name a) (t_name b) && ostr_eqb (t_super a) (t_super b) && ostr_eqb (t_desc a) (t_desc b)
  && list_str_eqb (t_children a) (t_children b) && feat_list_same (t_own a) (t_own b) && feat_list_same (t_inh a) (t_inh b)
  && match t_ctor a, t_ctor b with None, None => true | Some x, Some y => list_str_eqb x y | _, _ => false end
  && list_str_eqb (t_ctor_fn a) (t_ctor_fn b) && Nat.eqb (t_rank a) (t_rank b).
Definition tsys_same := list_eqb ty_same.

Definition sub_ty_names (ts : tsys) (a b : string) : res bool := subsumes_ty ts (ty_of ts a) (ty_of ts b).
Definition desc_of (ts : tsys) (n : string) : list string :=
  match descendants (desc_fuel ts) ts n with Some l => l | None => [] end.

Definition check_queries (ts : tsys) (c : case) : bool :=
  let ns := c_names c in
  let ps := pairs_of ns in
  forallb (registered ts) ns
  && list_str_eqb (skipn (List.length init_ts) (map t_name ts)) (c_users c)
  (* no query may run out of fuel or raise on registered names *)
  && forallb (fun p => is_okb (ts_subsumes ts (fst p) (snd p)) && is_okb (sub_ty_names ts (fst p) (snd p))
                       && is_okb (is_instance_of ts (snd p) (fst p))) ps
  && N.eqb (bits (map (fun p => is_true (ts_subsumes ts (fst p) (snd p))) ps)) (c_sub_ts c)
  && N.eqb (bits (map (fun p => is_true (sub_ty_names ts (fst p) (snd p))) ps)) (c_sub_ty c)
  && N.eqb (bits (map (fun p => is_true (is_instance_of ts (snd p) (fst p))) ps)) (c_iio c)
  && nlist_eqb (map (fun n => match t_super (ty_of ts n) with Some s => idx ts s | None => 0%N end) ns) (c_super c)
  && nlist_eqb (map (fun n => mask ts (t_children (ty_of ts n))) ns) (c_children c)
  && forallb (fun n => match descendants (desc_fuel ts) ts n with Some _ => true | None => false end) ns
  && nlist_eqb (map (fun n => mask ts (desc_of ts n)) ns) (c_desc c)
  && nlist_eqb (map (fun n => N.of_nat (List.length (desc_of ts n))) ns) (c_desc_len c)
  && forallb (fun n => is_okb (is_primitive ts n)) ns
  && N.eqb (bits (map (fun n => is_true (is_primitive ts n)) ns)) (c_prim c)
  && nlist_eqb (map (fun s => match get_type ts s with Ok t => idx ts (t_name t) | _ => 0%N end) (c_lookups c)) (c_get c)
  && N.eqb (bits (map (fun s => contains_type ts s false) (c_lookups c))) (c_contains c)
  && N.eqb (bits (map (fun s => contains_type ts s true) (c_lookups c))) (c_contains_exact c)
  && list_eqb res_bool_eqb (map (fun p => ts_subsumes ts (fst p) (snd p)) (c_pairs c)) (c_pairs_sub c)
  && list_eqb res_bool_eqb (map (fun p => is_instance_of ts (snd p) (fst p)) (c_pairs c)) (c_pairs_iio c)
  && c_ident c && forallb (fun t => forallb (feat_refs_okb ts) (t_own t ++ t_inh t)) ts.

Definition check_case (c : case) : bool :=
  let '(ts, out) := run_ts (c_ops c) init_ts in
  let '(tsm, outm) := run_ts_mech (c_ops c) init_ts in
  list_eqb opres_eqb out (c_out c)
  && list_eqb opres_eqb outm (c_out c)
  && tsys_same ts tsm
  && check_queries ts c.

(* premise of the theorems in Props/C10.v: the final state satisfies the hierarchy invariant (by C10_reachable_WF it
   always does: the count must equal the number of cases) *)
Definition premises (c : case) : bool := wfhb (final_ts (c_ops c) init_ts).

(* the initial state: what TypeSystem() builds now, as dumped by the harness at run time *)
Record ofeat := mkOF { of_name : string; of_range : string; of_elem : option string; of_multi : option bool }.
Record otype := mkOT { ot_name : string; ot_super : option string; ot_children : list string;
                       ot_own : list ofeat; ot_inh : list ofeat; ot_all : list string }.
Definition ofeat_of (f : feat) : ofeat := mkOF (f_name f) (f_range f) (f_elem f) (f_multi f).
Definition ofeat_eqb (a b : ofeat) : bool :=
  String.eqb (of_name a) (of_name b) && String.eqb (of_range a) (of_range b) && ostr_eqb (of_elem a) (of_elem b)
  && obool_eqb (of_multi a) (of_multi b).
Definition otype_of (t : ty) : otype :=
  mkOT (t_name t) (t_super t) (t_children t) (map ofeat_of (t_own t)) (map ofeat_of (t_inh t)) (feature_names t).
Definition otype_eqb (a b : otype) : bool :=
  String.eqb (ot_name a) (ot_name b) && ostr_eqb (ot_super a) (ot_super b) && list_str_eqb (ot_children a) (ot_children b)
  && list_eqb ofeat_eqb (ot_own a) (ot_own b) && list_eqb ofeat_eqb (ot_inh a) (ot_inh b) && list_str_eqb (ot_all a) (ot_all b).
(* registration order, children order and feature order are all compared *)
Definition init_matches (ts : tsys) (obs : list otype) (predef prim final : list string) : bool :=
  list_eqb otype_eqb (map otype_of ts) obs
  && same_set predefined_types predef && same_set primitive_types prim && same_set final_types final
  && forallb (fun t => match t_ctor t with None => true | Some _ => false end) ts.
