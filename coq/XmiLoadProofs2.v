(* XmiLoadProofs2.v — C05, part 6: the global assembly of load_xmi_is_denotation: what the later stages (offset
   conversion, view creation with member insertion and re-pointing of sofa references) do to each object, the objects
   and views of the loaded CAS listed against the elements of the document, and the theorem itself. *)
From Coq Require Import Ascii ZifyBool.
From Cassis Require Import Base Offsets OffsetsProofs.
From Cassis Require Import Heap Schema Canon Lex LexProofs XmiDoc XmiLoad XmiLoadProofs.
Open Scope Z_scope.
Open Scope list_scope.

Lemma mapM_Forall2_of {A B} (f : A -> res B) l r : mapM f l = Ok r -> Forall2 (fun x y => f x = Ok y) l r.
Proof.
  revert r; induction l as [|x l IH]; intros r H.
  - cbn in H. inversion H. constructor.
  - apply mapM_cons_ok in H as (y & ys & Hy & Hys & ->). constructor; [exact Hy|apply IH; exact Hys].
Qed.
Lemma mapM_pointwise {A B} (f g : A -> res B) l r :
  mapM f l = Ok r -> (forall x y, In x l -> f x = Ok y -> g x = Ok y) -> mapM g l = Ok r.
Proof.
  revert r; induction l as [|x l IH]; intros r H Hp.
  - cbn in *. exact H.
  - apply mapM_cons_ok in H as (y & ys & Hy & Hys & ->). cbn [mapM]. rewrite (Hp x y (or_introl eq_refl) Hy). cbn [bind].
    rewrite (IH ys Hys); [reflexivity|]. intros x' y' Hin. apply Hp. right. exact Hin.
Qed.

(* ---- what offset conversion and sofa re-pointing do to the slots ---- *)
Lemma lslot_lset_other o n v k : String.eqb k n = false -> lslot (lset o n v) k = lslot o k.
Proof. intros H. unfold lslot, lset. cbn [lo_slots]. rewrite alookup_aset, H. reflexivity. Qed.
Lemma lslot_lset_same o n v : lslot (lset o n v) n = v.
Proof. unfold lslot, lset. cbn [lo_slots]. rewrite alookup_aset, String.eqb_refl. reflexivity. Qed.
Lemma alookup_lset_other o n v k : String.eqb k n = false -> alookup k (lo_slots (lset o n v)) = alookup k (lo_slots o).
Proof. intros H. unfold lset. cbn [lo_slots]. rewrite alookup_aset, H. reflexivity. Qed.

Lemma conv_obj_spec s sofas o o' : conv_obj s sofas o = Ok o' ->
  lo_type o' = lo_type o /\ lo_id o' = lo_id o /\
  alookup "sofa" (lo_slots o') = alookup "sofa" (lo_slots o) /\
  (forall n, String.eqb n "begin" = false -> String.eqb n "end" = false -> lslot o' n = lslot o n) /\
  (isa s (lo_type o) T_ANNOTATION = false -> o' = o) /\
  (forall k, isa s (lo_type o) T_ANNOTATION = true -> lslot o "sofa" = LSofa k ->
     exists so, zlookup k sofas = Some so /\
       lslot o' "begin" = conv_slot (ps_text so) (lslot o "begin") /\ lslot o' "end" = conv_slot (ps_text so) (lslot o "end")).
Proof.
  unfold conv_obj. destruct (isa s (lo_type o) T_ANNOTATION) eqn:Ea.
  - destruct (lslot o "sofa") eqn:Es; try discriminate.
    + intros H. inversion H; subst o'. repeat split; auto. intros; discriminate.
    + destruct (zlookup k sofas) as [so|] eqn:El; [|discriminate]. intros H. inversion H; subst o'. clear H.
      split; [reflexivity|]. split; [reflexivity|]. split.
      { rewrite !alookup_lset_other by reflexivity. reflexivity. }
      split.
      { intros n H1 H2. rewrite !lslot_lset_other by assumption. reflexivity. }
      split; [discriminate|]. intros k0 _ Hk. inversion Hk; subst k0. exists so. split; [exact El|]. split.
      * rewrite lslot_lset_other by reflexivity. rewrite lslot_lset_same. reflexivity.
      * rewrite lslot_lset_same. reflexivity.
  - intros H. inversion H; subst o'. repeat split; auto. intros; discriminate.
Qed.
Lemma fixP_slot_other P o n : String.eqb n "sofa" = false -> lslot (fixP P o) n = lslot o n.
Proof.
  intros H. unfold fixP. destruct (alookup "sofa" (lo_slots o)) as [[]|]; try reflexivity.
  destruct (zlookup k P); [|reflexivity]. apply lslot_lset_other. exact H.
Qed.
Lemma fixP_slot_sofa P o k so : alookup "sofa" (lo_slots o) = Some (LSofa k) -> zlookup k P = Some so ->
  lslot (fixP P o) "sofa" = LVSofa (ps_name so).
Proof. intros H1 H2. unfold fixP. rewrite H1, H2. apply lslot_lset_same. Qed.
Lemma fixP_no_sofa P o : alookup "sofa" (lo_slots o) = None -> fixP P o = o.
Proof. intros H. unfold fixP. rewrite H. reflexivity. Qed.

Lemma pyname_plain x c : String.eqb c "self_" = false -> String.eqb c "type_" = false -> pyname x = c -> x = c.
Proof.
  unfold pyname. intros H1 H2. destruct (String.eqb x "self") eqn:A1; [apply String.eqb_eq in A1; subst x; cbn; intros <-; discriminate|].
  destruct (String.eqb x "type") eqn:A2; [apply String.eqb_eq in A2; subst x; cbn; intros <-; discriminate|]. cbn [orb]. auto.
Qed.
Lemma lslot_alookup o n v : lslot o n = v -> v <> LNone -> alookup n (lo_slots o) = Some v.
Proof. unfold lslot. destruct (alookup n (lo_slots o)); intros H Hn; subst; [reflexivity|contradiction]. Qed.

Lemma parse_fs_head pf s e ti o :
  sch_find s (reader_tname (x_ns e) (x_tag e)) = Some ti -> elem_ok s ti e -> parse_fs pf s e = Ok o ->
  lo_type o = ti_name ti /\ x_id e = Ok (lo_id o) /\ map fst (lo_slots o) = map fd_name (ti_feats ti).
Proof.
  intros Hfind Hel Hparse.
  pose proof (a0_lookup e A_ID (ek_nodup _ _ _ Hel) (ek_attrs _ _ _ Hel) (kids_reserved _ _ _ Hel) eq_refl) as [_ Lid].
  cbv zeta in Lid. rewrite (kids_no_id _ _ _ Hel) in Lid. change (pyname A_ID) with A_ID in Lid.
  unfold parse_fs, parse_fs_with, get_type_exact in Hparse. rewrite Hfind in Hparse. cbn [bind] in Hparse.
  apply bind_ok in Hparse as (i & Hi & Hparse). apply bind_ok in Hparse as (a2 & Ha2 & Hparse).
  apply bind_ok in Hparse as (a3 & Ha3 & Hparse). unfold mk_obj in Hparse. destruct (forallb _ a3); [|discriminate].
  inversion Hparse; subst o. cbn [lo_type lo_id lo_slots]. split; [reflexivity|]. split.
  - rewrite Lid in Hi. unfold x_id. destruct (xattr e A_ID) as [a|]; cbn [option_map] in Hi; [exact Hi|discriminate].
  - rewrite map_map. reflexivity.
Qed.
Lemma post_obj_head pf s sofas fss o o' ti : post_obj pf s sofas fss o = Ok o' -> sch_find s (lo_type o) = Some ti ->
  lo_type o' = lo_type o /\ lo_id o' = lo_id o /\ map fst (lo_slots o') = map fd_name (ti_feats ti).
Proof.
  unfold post_obj. intros H Hf. rewrite Hf in H. apply bind_ok in H as (sl & Hsl & H). inversion H; subst o'. cbn [lo_type lo_id lo_slots].
  split; [reflexivity|split; [reflexivity|]]. clear H. revert sl Hsl. induction (ti_feats ti) as [|f r IH]; intros sl Hsl.
  - cbn in Hsl. inversion Hsl. reflexivity.
  - apply mapM_cons_ok in Hsl as (y & ys & Hy & Hys & ->). apply bind_ok in Hy as (v & _ & Hy). inversion Hy; subst y.
    cbn [map fst]. rewrite (IH ys Hys). reflexivity.
Qed.

Section Final.
Variable pf : string -> option flt.
Variable s : schema.
Variables (psofas sofas : list (xid * psofa)) (fss : list (xid * lobj)) (views : list (string * lview)) (objs2 : list (xid * lobj)).
Variable dsofas : list csofa.
Hypothesis Hderef : deref_ok fss objs2.
Hypothesis Hps : forall i so0, zlookup i psofas = Some so0 -> exists so, zlookup i sofas = Some so.
Hypothesis Hview : forall i so, zlookup i sofas = Some so -> exists w, alookup (ps_name so) views = Some w /\ ls_id (lv_sofa w) = i.
Hypothesis Hconv : forall e a i so, xattr e "sofa" = Some a -> s2z a = Some i -> zlookup i sofas = Some so ->
                                     forall z, conv_of dsofas e z = conv_z (ps_text so) z.
Hypothesis Hnz : zlookup 0 psofas = None.

Lemma dec_feature_noconv conv is_ann e fd :
  is_ann && (String.eqb (fd_xname fd) "begin" || String.eqb (fd_xname fd) "end") = false ->
  dec_feature pf s conv is_ann e fd = dec_feature pf s (fun z => z) false e fd.
Proof.
  intros H. unfold dec_feature. destruct (fkind_of s fd); try reflexivity. destruct (xattr e (fd_xname fd)); [|reflexivity].
  rewrite H. cbn [andb]. reflexivity.
Qed.

Lemma isa_anc ti X : sch_find s (ti_name ti) = Some ti -> isa s (ti_name ti) X = memb X (ti_anc ti).
Proof. intros H. unfold isa, sch_anc. rewrite H. reflexivity. Qed.

Lemma feat_final e ti o o' o'' fd v :
  sch_find s (reader_tname (x_ns e) (x_tag e)) = Some ti -> ti_ok s ti -> elem_ok s ti e ->
  (has_feat ti "sofa" = true -> memb T_ANNOTATION_BASE (ti_anc ti) = true) ->
  (memb T_ANNOTATION (ti_anc ti) = true -> has_feat ti "sofa" = true) ->
  is_array_name (ti_name ti) = false ->
  parse_fs pf s e = Ok o -> post_obj pf s psofas fss o = Ok o' -> conv_obj s sofas o' = Ok o'' ->
  In fd (ti_feats ti) ->
  dec_feature pf s (conv_of dsofas e) (isa s (ti_name ti) T_ANNOTATION) e fd = Ok v ->
  cv views objs2 (lslot (fixP sofas o'') (fd_name fd)) = Ok v.
Proof.
  intros Hfind Hti Hel Hsf Hsa Harr Hparse Hpost Hconvo Hin Hdec.
  pose proof (sch_find_name _ _ _ Hfind) as Hname.
  assert (Hfind' : sch_find s (ti_name ti) = Some ti) by (rewrite Hname; exact Hfind).
  rewrite (isa_anc ti _ Hfind') in Hdec.
  destruct (parse_fs_slot pf s e ti o fd Hfind Hti Hel Harr Hparse Hin) as (Ht0 & _ & Hslot).
  assert (Hf0 : sch_find s (lo_type o) = Some ti) by (rewrite Ht0; exact Hfind').
  destruct (post_obj_slots pf s psofas fss o o' ti fd Hpost Hf0 (tk_nodup _ _ Hti) Hin) as (Ht1 & _ & v1 & Hv1 & Hs1).
  destruct (conv_obj_spec s sofas o' o'' Hconvo) as (Ct & Ci & Cs & Cother & Cnot & Cann).
  destruct (tk_feat _ _ Hti fd Hin) as (Hpy & Hres & Hnid).
  unfold slot_rel in Hslot.
  destruct (String.eqb (fd_name fd) "sofa" && memb T_ANNOTATION_BASE (ti_anc ti)) eqn:Hsb.
  - (* the sofa reference of an annotation *)
    apply andb_true_iff in Hsb as [Hn Hbase]. apply String.eqb_eq in Hn.
    destruct Hslot as [Hkids Hslot].
    pose proof (tk_base _ _ Hti Hbase fd Hin Hn) as Hkind.
    unfold dec_feature in Hdec. rewrite Hkind in Hdec.
    assert (Hpf : forall v0, post_feature pf s psofas fss ti fd v0 =
                    match v0 with LInt i => match zlookup i psofas with Some _ => Ok (LSofa i) | None => Err EKey end | _ => Err EKey end).
    { intros v0. unfold post_feature. rewrite Hn, Hbase. reflexivity. }
    rewrite Hpf in Hv1. clear Hpf.
    destruct (xattr e (fd_xname fd)) as [a|] eqn:Hattr.
    + destruct Hslot as (z & Hz & Hl). rewrite Hl in Hv1. destruct (zlookup z psofas) as [so0|] eqn:Ez; [|discriminate].
      injection Hv1 as Hv1'. rewrite <- Hv1' in Hs1. destruct (Hps _ _ Ez) as (so & Eso). destruct (Hview _ _ Eso) as (w & Hw & Hwid).
      assert (Hs2 : alookup "sofa" (lo_slots o'') = Some (LSofa z)).
      { rewrite Cs. rewrite Hn in Hs1. apply lslot_alookup; [exact Hs1|discriminate]. }
      rewrite Hn, (fixP_slot_sofa sofas o'' z so Hs2 Eso). cbn [cv]. rewrite Hw, Hwid.
      unfold dec_id in Hdec. rewrite Hz in Hdec. destruct z; [rewrite Hnz in Ez; discriminate|exact Hdec|exact Hdec].
    + rewrite Hslot in Hv1. discriminate.
  - (* every other feature *)
    assert (Hns : String.eqb (fd_name fd) "sofa" = false).
    { destruct (String.eqb (fd_name fd) "sofa") eqn:E; [|reflexivity]. exfalso. apply String.eqb_eq in E.
      assert (Hb : memb T_ANNOTATION_BASE (ti_anc ti) = true).
      { apply Hsf. unfold has_feat. rewrite <- E. rewrite (fd_find_in _ _ (tk_nodup _ _ Hti) Hin). reflexivity. }
      rewrite Hb in Hsb. discriminate. }
    rewrite (fixP_slot_other sofas o'' _ Hns).
    assert (Hord : ordinary ti) by (apply (ordinary_of_ok s); assumption).
    destruct (memb T_ANNOTATION (ti_anc ti) && (String.eqb (fd_xname fd) "begin" || String.eqb (fd_xname fd) "end")) eqn:Hbe.
    + (* an offset of an annotation *)
      apply andb_true_iff in Hbe as [Hann Hx].
      assert (Hxn : fd_name fd = fd_xname fd).
      { rewrite Hpy. unfold pyname. apply orb_true_iff in Hx as [Hx|Hx]; apply String.eqb_eq in Hx; rewrite Hx; reflexivity. }
      assert (Hbe' : fd_name fd = "begin" \/ fd_name fd = "end").
      { rewrite Hxn. apply orb_true_iff in Hx as [Hx|Hx]; apply String.eqb_eq in Hx; auto. }
      pose proof (tk_be _ _ Hti Hann fd Hin Hbe') as Hkind.
      pose proof (tk_ann _ _ Hti Hann) as Hbase.
      (* the sofa slot of this annotation *)
      assert (Hsofa : exists k so, lslot o' "sofa" = LSofa k /\ zlookup k sofas = Some so /\
                                   exists a, xattr e "sofa" = Some a /\ s2z a = Some k).
      { pose proof (Hsa Hann) as Hhf. unfold has_feat in Hhf. destruct (fd_find (ti_feats ti) "sofa") as [fds|] eqn:Ef; [|discriminate].
        assert (Hfds : In fds (ti_feats ti) /\ fd_name fds = "sofa").
        { clear - Ef. induction (ti_feats ti) as [|f r IH]; cbn [fd_find] in Ef; [discriminate|].
          destruct (String.eqb "sofa" (fd_name f)) eqn:E; [inversion Ef; subst; apply String.eqb_eq in E; split; [left; reflexivity|auto]|].
          destruct (IH Ef) as [A B]. split; [right; exact A|exact B]. }
        destruct Hfds as [Hins Hns'].
        destruct (tk_feat _ _ Hti fds Hins) as (Hpys & _ & _).
        assert (Hxs : fd_xname fds = "sofa") by (apply pyname_plain; [reflexivity|reflexivity|rewrite <- Hpys; exact Hns']).
        destruct (parse_fs_slot pf s e ti o fds Hfind Hti Hel Harr Hparse Hins) as (_ & _ & Hslots).
        unfold slot_rel in Hslots. rewrite Hns', Hbase in Hslots. cbn [String.eqb andb] in Hslots.
        change (String.eqb "sofa" "sofa") with true in Hslots. cbv iota in Hslots. rewrite Hxs in Hslots. destruct Hslots as [_ Hslots].
        destruct (post_obj_slots pf s psofas fss o o' ti fds Hpost Hf0 (tk_nodup _ _ Hti) Hins) as (_ & _ & vs & Hvs & Hss).
        rewrite Hns' in Hvs, Hss.
        assert (Hpf : forall v0, post_feature pf s psofas fss ti fds v0 =
                        match v0 with LInt i => match zlookup i psofas with Some _ => Ok (LSofa i) | None => Err EKey end | _ => Err EKey end).
        { intros v0. unfold post_feature. rewrite Hns', Hbase. reflexivity. }
        rewrite Hpf in Hvs.
        destruct (xattr e "sofa") as [a|]; [|rewrite Hslots in Hvs; discriminate].
        destruct Hslots as (z & Hz & Hl). rewrite Hl in Hvs. destruct (zlookup z psofas) as [so0|] eqn:Ez; [|discriminate].
        injection Hvs as Hvs'. destruct (Hps _ _ Ez) as (so & Eso). exists z, so. split; [rewrite Hss, <- Hvs'; reflexivity|].
        split; [exact Eso|]. exists a. auto. }
      destruct Hsofa as (k & so & Hls & Hzk & a0 & Ha0 & Hza0).
      pose proof Hann as Hann0. rewrite <- (isa_anc ti _ Hfind'), <- Ht0, <- Ht1 in Hann.
      destruct (Cann k Hann Hls) as (so' & Hzk' & Cb & Ce). rewrite Hzk in Hzk'. inversion Hzk'; subst so'.
      (* the slot after pass 2 is an integer or None *)
      unfold fkind_of in Hkind. destruct (prim_of s (fd_range fd)) as [p|] eqn:Hprim; [|destruct (fd_multi fd); [discriminate|destruct (coll_kind (fd_range fd)) as [kk|] eqn:Hck; [destruct (coll_kind_shape _ _ Hck) as [->|[->|[->|(p0 & ->)]]]; discriminate|discriminate]]].
      injection Hkind as Hpk.
      rewrite (post_sel_prim pf s psofas fss ti fd _ Hord Hsb) in Hv1 by (rewrite prim_of_is_primitive, Hprim; reflexivity).
      unfold dec_feature, fkind_of in Hdec. rewrite Hprim, Hpk in Hdec. rewrite Hx, Hann0 in Hdec. cbn [andb] in Hdec.
      unfold proto_rel in Hslot.
      destruct (xkids e (fd_xname fd)) as [|k0 kr].
      2:{ destruct Hslot as [Hk _]. unfold fkind_of in Hk. rewrite Hprim in Hk. discriminate. }
      assert (Hfin : lslot o'' (fd_name fd) = conv_slot (ps_text so) v1).
      { destruct Hbe' as [E|E]; rewrite E in *; [rewrite Cb|rewrite Ce]; rewrite Hs1; reflexivity. }
      rewrite Hfin.
      destruct (xattr e (fd_xname fd)) as [a|].
      * apply bind_ok in Hdec as (c0 & Hc0 & Hdec). unfold dec_prim in Hc0. destruct (s2z a) as [z|] eqn:Hz; [|discriminate].
        injection Hc0 as <-. injection Hdec as <-.
        assert (Hv1' : v1 = LInt z).
        { unfold parse_prim_value in Hv1. rewrite Hprim, Hpk in Hv1.
          destruct Hslot as [Hl|(z' & Hz' & Hl & _)]; rewrite Hl in Hv1.
          - unfold conv_int in Hv1. rewrite Hz in Hv1. injection Hv1 as <-. reflexivity.
          - injection Hz' as Hzz. subst z'. injection Hv1 as <-. reflexivity. }
        rewrite Hv1'. cbn [conv_slot cv]. rewrite (Hconv e a0 k so Ha0 Hza0 Hzk). reflexivity.
      * rewrite Hslot in Hv1. cbn in Hv1. injection Hv1 as <-. injection Hdec as <-. reflexivity.
    + (* anything else: pass 1 and pass 2 alone *)
      rewrite (dec_feature_noconv _ _ e fd Hbe) in Hdec.
      assert (Hsl : lslot o'' (fd_name fd) = v1).
      { destruct (isa s (lo_type o') T_ANNOTATION) eqn:Eann; [|rewrite (Cnot eq_refl); exact Hs1].
        rewrite Ht1, Ht0, (isa_anc ti _ Hfind') in Eann. rewrite Eann in Hbe. cbn [andb] in Hbe. apply orb_false_iff in Hbe as [B1 B2].
        rewrite Cother; [exact Hs1| |].
        - destruct (String.eqb (fd_name fd) "begin") eqn:E; [|reflexivity]. apply String.eqb_eq in E. rewrite Hpy in E.
          apply pyname_plain in E; [rewrite E in B1; discriminate|reflexivity|reflexivity].
        - destruct (String.eqb (fd_name fd) "end") eqn:E; [|reflexivity]. apply String.eqb_eq in E. rewrite Hpy in E.
          apply pyname_plain in E; [rewrite E in B2; discriminate|reflexivity|reflexivity]. }
      rewrite Hsl. eapply (post_feature_dec pf s psofas fss views objs2 Hderef ti fd e); eauto.
Qed.

Theorem elem_final e ti o o' o'' i cf :
  sch_find s (reader_tname (x_ns e) (x_tag e)) = Some ti -> ti_ok s ti -> elem_ok s ti e ->
  (has_feat ti "sofa" = true -> memb T_ANNOTATION_BASE (ti_anc ti) = true) ->
  (memb T_ANNOTATION (ti_anc ti) = true -> has_feat ti "sofa" = true) ->
  type_of_elem (x_ns e) (x_tag e) = Some (reader_tname (x_ns e) (x_tag e)) ->
  is_array_name (ti_name ti) = false ->
  parse_fs pf s e = Ok o -> post_obj pf s psofas fss o = Ok o' -> conv_obj s sofas o' = Ok o'' ->
  dec_fs pf s dsofas e = Ok (i, cf) ->
  canon_obj s views objs2 (fixP sofas o'') = Ok (i, cf).
Proof.
  intros Hfind Hti Hel Hsf Hsa Htoe Harr Hparse Hpost Hconvo Hdec.
  pose proof (sch_find_name _ _ _ Hfind) as Hname.
  assert (Hfind' : sch_find s (ti_name ti) = Some ti) by (rewrite Hname; exact Hfind).
  (* the denotation of the element *)
  unfold dec_fs in Hdec. apply bind_ok in Hdec as (i' & Hid & Hdec). rewrite Htoe, Hfind in Hdec.
  rewrite <- Hname in Hdec. rewrite Harr in Hdec. apply bind_ok in Hdec as (fs & Hfs & Hdec). inversion Hdec; subst i' cf. clear Hdec.
  (* the object *)
  destruct (parse_fs_head pf s e ti o Hfind Hel Hparse) as (Ht0 & Hi0 & Hk0).
  assert (Hf0 : sch_find s (lo_type o) = Some ti) by (rewrite Ht0; exact Hfind').
  destruct (post_obj_head pf s psofas fss o o' ti Hpost Hf0) as (Ht1 & Hi1 & Hk1).
  destruct (conv_obj_spec s sofas o' o'' Hconvo) as (Ct & Ci & Cs & Cother & Cnot & Cann).
  rewrite Hid in Hi0. inversion Hi0 as [Hi0']. clear Hi0.
  unfold canon_obj. rewrite fixP_type, Ct, Ht1, Ht0, Hfind', fixP_id, Ci, Hi1, <- Hi0'.
  match goal with |- (do fs0 <- ?M ;; _) = _ => assert (HM : M = Ok fs) end.
  2:{ rewrite HM. reflexivity. }
  apply (mapM_pointwise _ _ _ _ Hfs). intros fd y Hin Hy. apply bind_ok in Hy as (v & Hv & Hy).
  rewrite (feat_final e ti o o' o'' fd v Hfind Hti Hel Hsf Hsa Harr Hparse Hpost Hconvo Hin Hv). exact Hy.
Qed.
End Final.

Lemma array_coll_kind n : is_array_name n = true -> exists k, coll_kind n = Some k.
Proof.
  intros H. destruct (coll_cases n) as [Hr|[Hr|[Hr|[Hr|[Hr|[Hr|[Hr|[Hr|[Hr|[Hr|[Hr|[Hr|[Hr|(Hr & Ha & _ & Hf & _)]]]]]]]]]]]]];
    try (subst n; eexists; vm_compute; reflexivity).
  unfold is_array_name in H. rewrite Ha, Hf in H. discriminate.
Qed.

Section FinalArr.
Variable pf : string -> option flt.
Variable s : schema.
Variables (psofas sofas : list (xid * psofa)) (fss : list (xid * lobj)) (views : list (string * lview)) (objs2 : list (xid * lobj)).
Variable dsofas : list csofa.
Hypothesis Hderef : deref_ok fss objs2.

Theorem elem_final_arr e ti o o' o'' i cf :
  sch_find s (reader_tname (x_ns e) (x_tag e)) = Some ti -> ti_okb s ti = true -> elem_okb s e = true ->
  is_primitive s T_TOP = false ->
  type_of_elem (x_ns e) (x_tag e) = Some (reader_tname (x_ns e) (x_tag e)) ->
  is_array_name (ti_name ti) = true ->
  parse_fs pf s e = Ok o -> post_obj pf s psofas fss o = Ok o' -> conv_obj s sofas o' = Ok o'' ->
  dec_fs pf s dsofas e = Ok (i, cf) ->
  canon_obj s views objs2 (fixP sofas o'') = Ok (i, cf).
Proof.
  intros Hfind Htib Helb Htop Htoe Harr Hparse Hpost Hconvo Hdec.
  pose proof (ti_okb_ok _ _ Htib) as Hti. pose proof (elem_okb_ok s e ti Hfind Helb) as Hel.
  pose proof (sch_find_name _ _ _ Hfind) as Hname.
  assert (Hfind' : sch_find s (ti_name ti) = Some ti) by (rewrite Hname; exact Hfind).
  destruct (tk_arr _ _ Hti Harr) as (fd & Hfeats & Hn & Hx & Hr).
  destruct (array_coll_kind _ Harr) as (k & Hk).
  unfold dec_fs in Hdec. apply bind_ok in Hdec as (i' & Hid & Hdec). rewrite Htoe, Hfind in Hdec.
  rewrite <- Hname in Hdec. rewrite Harr, Hk in Hdec. apply bind_ok in Hdec as (oc & Hoc & Hdec). inversion Hdec; subst i' cf. clear Hdec.
  destruct (parse_fs_head pf s e ti o Hfind Hel Hparse) as (Ht0 & Hi0 & Hk0).
  assert (Hf0 : sch_find s (lo_type o) = Some ti) by (rewrite Ht0; exact Hfind').
  destruct (post_obj_head pf s psofas fss o o' ti Hpost Hf0) as (Ht1 & Hi1 & Hk1).
  assert (Hin : In fd (ti_feats ti)) by (rewrite Hfeats; left; reflexivity).
  destruct (post_obj_slots pf s psofas fss o o' ti fd Hpost Hf0 (tk_nodup _ _ Hti) Hin) as (_ & _ & v1 & Hv1 & Hs1).
  destruct (conv_obj_spec s sofas o' o'' Hconvo) as (Ct & Ci & Cs & Cother & Cnot & Cann).
  rewrite Hid in Hi0. inversion Hi0 as [Hi0']. clear Hi0.
  unfold canon_obj. rewrite fixP_type, Ct, Ht1, Ht0, Hfind', fixP_id, Ci, Hi1, <- Hi0'. rewrite Hfeats. cbn [mapM map].
  rewrite Hn, Hx. rewrite (fixP_slot_other sofas o'' "elements" eq_refl), (Cother "elements" eq_refl eq_refl).
  rewrite Hn in Hs1. rewrite Hs1.
  rewrite (reader_elements_is_denotation pf s psofas fss views objs2 e ti o fd k v1 oc Hfind Htib Helb Htop Harr Hk Hfeats Hderef Hparse Hv1 Hoc).
  cbn [bind]. change (String.eqb "elements" "elements") with true. cbv iota. reflexivity.
Qed.
End FinalArr.

(* ================================================================================================ alignment of lists *)
Lemma Forall2_impl {A B} (R S : A -> B -> Prop) l1 l2 : (forall a b, R a b -> S a b) -> Forall2 R l1 l2 -> Forall2 S l1 l2.
Proof. intros H. induction 1; constructor; auto. Qed.
Lemma mapM_two {A B C} (f : A -> res B) (g : A -> res C) l r1 r2 :
  mapM f l = Ok r1 -> mapM g l = Ok r2 -> Forall2 (fun a b => exists x, In x l /\ f x = Ok a /\ g x = Ok b) r1 r2.
Proof.
  revert r1 r2; induction l as [|x l IH]; intros r1 r2 H1 H2.
  - cbn in H1, H2. inversion H1; inversion H2. constructor.
  - apply mapM_cons_ok in H1 as (a & r1' & Ha & H1 & ->). apply mapM_cons_ok in H2 as (b & r2' & Hb & H2 & ->).
    constructor; [exists x; split; [left; reflexivity|auto]|].
    eapply Forall2_impl; [|apply (IH _ _ H1 H2)]. intros a' b' (x' & Hin & Hf & Hg). exists x'. split; [right; exact Hin|auto].
Qed.
Lemma Forall2_compose {A B C} (R : A -> B -> Prop) (S : B -> C -> Prop) l1 l2 l3 :
  Forall2 R l1 l2 -> Forall2 S l2 l3 -> Forall2 (fun a c => exists b, R a b /\ S b c) l1 l3.
Proof.
  intros H. revert l3. induction H as [|a b l1 l2 Hab H IH]; intros l3 H2; inversion H2; subst; constructor; eauto.
Qed.
Lemma Forall2_map_r {A B C} (R : A -> C -> Prop) (f : B -> C) l1 l2 :
  Forall2 (fun a b => R a (f b)) l1 l2 -> Forall2 R l1 (map f l2).
Proof. induction 1; cbn [map]; constructor; auto. Qed.
Lemma Forall2_map_r_inv {A B C} (R : A -> C -> Prop) (f : B -> C) l1 l2 :
  Forall2 R l1 (map f l2) -> Forall2 (fun a b => R a (f b)) l1 l2.
Proof.
  revert l1; induction l2 as [|b l2 IH]; intros l1 H; cbn [map] in H; inversion H; subst; constructor; auto.
Qed.
Lemma Forall2_filter2 {A B} (R : A -> B -> Prop) (p : A -> bool) (q : B -> bool) l1 l2 :
  Forall2 R l1 l2 -> (forall x y, R x y -> p x = q y) -> Forall2 R (filter p l1) (filter q l2).
Proof.
  intros H Hpq. induction H as [|x y l1 l2 Hxy H IH]; cbn [filter]; [constructor|].
  rewrite <- (Hpq _ _ Hxy). destruct (p x); [constructor|]; assumption.
Qed.
Lemma mapM_Forall2_fg {A B C} (f : A -> res C) (g : B -> res C) l1 l2 :
  Forall2 (fun x y => f x = g y) l1 l2 -> mapM f l1 = mapM g l2.
Proof. induction 1 as [|x y l1 l2 Hxy H IH]; cbn [mapM]; [reflexivity|]. rewrite Hxy, IH. reflexivity. Qed.
Lemma stage_Forall2 (f : lobj -> res lobj) (l r : list (xid * lobj)) :
  mapM (fun ko => do o <- f (snd ko) ;; Ok (fst ko, o)) l = Ok r ->
  Forall2 (fun ko ko' => fst ko' = fst ko /\ f (snd ko) = Ok (snd ko')) l r.
Proof.
  intros H. apply mapM_Forall2_of in H. eapply Forall2_impl; [|exact H]. intros [k o] [k' o'] Hx. cbn [fst snd] in *.
  apply bind_ok in Hx as (o1 & Ho1 & Hx). inversion Hx; subst. auto.
Qed.
Lemma zlookup_Forall2 {V W} (R : V -> W -> Prop) (l1 : list (Z * V)) (l2 : list (Z * W)) k v :
  Forall2 (fun a b => fst b = fst a /\ R (snd a) (snd b)) l1 l2 -> zlookup k l1 = Some v ->
  exists v', zlookup k l2 = Some v' /\ R v v'.
Proof.
  induction 1 as [|[k1 v1] [k2 v2] l1 l2 [Hk HR] H IH]; cbn [zlookup fst snd] in *; [discriminate|]. subst k2.
  destruct (k =? k1); [intros Hv; inversion Hv; subst; eauto|exact IH].
Qed.
Lemma fold_zset_map {A V} (key : A -> Z) (val : A -> V) l : NoDup (map key l) ->
  fold_left (fun a x => zset (key x) (val x) a) l [] = map (fun x => (key x, val x)) l.
Proof. intros ND. rewrite fold_zset_nodup; [reflexivity|exact ND]. Qed.

(* ================================================================================================ pieces of the assembly *)
Lemma map_pair_id {A B} (l : list (A * B)) : map (fun x => (fst x, snd x)) l = l.
Proof. induction l as [|[a b] r IH]; cbn [map fst snd]; [reflexivity|]. rewrite IH. reflexivity. Qed.
Lemma mapM_In_fwd {A B} (f : A -> res B) l r x : mapM f l = Ok r -> In x l -> exists y, In y r /\ f x = Ok y.
Proof.
  revert r; induction l as [|a l IH]; intros r H Hin; [contradiction|].
  apply mapM_cons_ok in H as (y & ys & Hy & Hys & ->). destruct Hin as [->|Hin].
  - exists y. split; [left; reflexivity|exact Hy].
  - destruct (IH _ Hys Hin) as (y' & Hy' & Hf). exists y'. split; [right; exact Hy'|exact Hf].
Qed.
Lemma members_of_zlookup views i : NoDup (map fst views) ->
  members_of views i = zsort (match zlookup i views with Some ms => ms | None => [] end).
Proof.
  unfold members_of. intros ND. f_equal. induction views as [|[k ms] r IH]; cbn [filter flat_map zlookup fst snd map] in *; [reflexivity|].
  inversion ND as [|? ? Hn ND']; subst. rewrite (Z.eqb_sym k i). destruct (i =? k) eqn:E.
  - apply Z.eqb_eq in E. subst k. cbn [flat_map snd].
    assert (Hnone : filter (fun v => fst v =? i) r = []).
    { clear - Hn. induction r as [|[k' m'] r IH]; cbn [filter fst map] in *; [reflexivity|].
      destruct (k' =? i) eqn:E; [apply Z.eqb_eq in E; subst; exfalso; apply Hn; left; reflexivity|]. apply IH. intros H. apply Hn. right. exact H. }
    rewrite Hnone. cbn. apply app_nil_r.
  - apply IH. exact ND'.
Qed.
Lemma resolve_arr_spec fss kso kso' : resolve_arr fss kso = Ok kso' ->
  fst kso' = fst kso /\ ps_id (snd kso') = ps_id (snd kso) /\ ps_num (snd kso') = ps_num (snd kso) /\
  ps_name (snd kso') = ps_name (snd kso) /\ ps_text (snd kso') = ps_text (snd kso) /\ ps_mime (snd kso') = ps_mime (snd kso) /\
  ps_uri (snd kso') = ps_uri (snd kso) /\
  match ps_arr (snd kso) with
  | None => ps_arrp (snd kso') = ps_arrp (snd kso)
  | Some a => exists i o, int_attr a = Ok i /\ zlookup i fss = Some o /\ ps_arrp (snd kso') = Some i
  end.
Proof.
  unfold resolve_arr. destruct kso as [k so]. cbn [fst snd]. destruct (ps_arr so) as [a|] eqn:Ea.
  - intros H. apply bind_ok in H as (i & Hi & H). destruct (zlookup i fss) as [o|] eqn:El; [|discriminate].
    inversion H; subst kso'. cbn. repeat split; auto. exists i, o. auto.
  - intros H. inversion H; subst kso'. cbn [fst snd]. repeat split; auto.
Qed.
Lemma dec_fs_id pf s sofas e i cf : dec_fs pf s sofas e = Ok (i, cf) -> x_id e = Ok i.
Proof.
  unfold dec_fs. intros H. apply bind_ok in H as (i' & Hi & H). destruct (type_of_elem (x_ns e) (x_tag e)); [|discriminate].
  destruct (sch_find s t); [|discriminate]. destruct (if is_array_name t then coll_kind t else None).
  - apply bind_ok in H as (o & _ & H). inversion H; subst. exact Hi.
  - apply bind_ok in H as (o & _ & H). inversion H; subst. exact Hi.
Qed.
Lemma is_other_split e : is_other e = is_null e || is_fs e.
Proof.
  unfold is_other, is_fs. destruct (is_null e) eqn:En; cbn [orb negb]; [|reflexivity].
  unfold is_null, is_sofa, is_view, is_cas in *. apply andb_true_iff in En as [E1 E2]. apply String.eqb_eq in E2. rewrite E1, E2. reflexivity.
Qed.
Lemma null_tname e : is_null e = true -> reader_tname (x_ns e) (x_tag e) = T_NULL.
Proof.
  unfold is_null, is_cas. intros H. apply andb_true_iff in H as [E1 E2]. apply String.eqb_eq in E1, E2. rewrite E1, E2. vm_compute. reflexivity.
Qed.

Lemma sch_find_in s n t : sch_find s n = Some t -> In t s.
Proof.
  induction s as [|x r IH]; cbn [sch_find]; [discriminate|]. destruct (String.eqb n (ti_name x)).
  - intros H. inversion H. left. reflexivity.
  - intros H. right. apply IH. exact H.
Qed.
Lemma Forall2_mapM_id {A B} (f : A -> res Z) (g : B -> Z) l1 l2 :
  Forall2 (fun e o => f e = Ok (g o)) l1 l2 -> mapM f l1 = Ok (map g l2).
Proof. induction 1 as [|x y l1 l2 Hxy H IH]; cbn [mapM map]; [reflexivity|]. rewrite Hxy, IH. reflexivity. Qed.

Lemma pipeline {E} (f1 : E -> res lobj) (f2 f3 : lobj -> res lobj) (f4 : lobj -> lobj) es : forall os objs objs1,
  mapM f1 es = Ok os ->
  mapM (fun ko => do o <- f2 (snd ko) ;; Ok (fst ko, o)) (map (fun o => (lo_id o, o)) os) = Ok objs ->
  mapM (fun ko => do o <- f3 (snd ko) ;; Ok (fst ko, o)) objs = Ok objs1 ->
  Forall2 (fun e ko3 => exists o o' o'', f1 e = Ok o /\ f2 o = Ok o' /\ f3 o' = Ok o'' /\ ko3 = (lo_id o, f4 o''))
          es (map (fun ko => (fst ko, f4 (snd ko))) objs1).
Proof.
  induction es as [|e es IH]; intros os objs objs1 H1 H2 H3.
  - cbn in H1. inversion H1; subst os. cbn in H2. inversion H2; subst objs. cbn in H3. inversion H3; subst objs1. constructor.
  - apply mapM_cons_ok in H1 as (o & os' & Ho & Hos & ->). cbn [map] in H2.
    apply mapM_cons_ok in H2 as (ko' & objs' & Hko' & Hobjs' & ->). cbn [fst snd] in Hko'.
    apply bind_ok in Hko' as (o' & Ho' & Hko'). inversion Hko'; subst ko'.
    apply mapM_cons_ok in H3 as (ko'' & objs1' & Hko'' & Hobjs1' & ->). cbn [fst snd] in Hko''.
    apply bind_ok in Hko'' as (o'' & Ho'' & Hko''). inversion Hko''; subst ko''.
    cbn [map fst snd]. constructor; [exists o, o', o''; auto|]. eapply IH; eauto.
Qed.

(* the sofa reference of an annotation after the three stages *)
Lemma sofa_slot_after pf s psofas fss sofas e ti o o' o'' :
  sch_find s (reader_tname (x_ns e) (x_tag e)) = Some ti -> ti_ok s ti -> elem_ok s ti e ->
  has_feat ti "sofa" = true -> memb T_ANNOTATION_BASE (ti_anc ti) = true -> is_array_name (ti_name ti) = false ->
  parse_fs pf s e = Ok o -> post_obj pf s psofas fss o = Ok o' -> conv_obj s sofas o' = Ok o'' ->
  exists a z so0, xattr e "sofa" = Some a /\ s2z a = Some z /\ zlookup z psofas = Some so0 /\
                  alookup "sofa" (lo_slots o'') = Some (LSofa z) /\ lslot o' "sofa" = LSofa z.
Proof.
  intros Hfind Hti Hel Hhf Hbase Harr Hparse Hpost Hconvo.
  pose proof (sch_find_name _ _ _ Hfind) as Hname.
  assert (Hfind' : sch_find s (ti_name ti) = Some ti) by (rewrite Hname; exact Hfind).
  destruct (parse_fs_head pf s e ti o Hfind Hel Hparse) as (Ht0 & _ & _).
  assert (Hf0 : sch_find s (lo_type o) = Some ti) by (rewrite Ht0; exact Hfind').
  unfold has_feat in Hhf. destruct (fd_find (ti_feats ti) "sofa") as [fds|] eqn:Ef; [|discriminate].
  assert (Hfds : In fds (ti_feats ti) /\ fd_name fds = "sofa").
  { clear - Ef. induction (ti_feats ti) as [|f r IH]; cbn [fd_find] in Ef; [discriminate|].
    destruct (String.eqb "sofa" (fd_name f)) eqn:E; [inversion Ef; subst; apply String.eqb_eq in E; split; [left; reflexivity|auto]|].
    destruct (IH Ef) as [A B]. split; [right; exact A|exact B]. }
  destruct Hfds as [Hins Hns'].
  destruct (tk_feat _ _ Hti fds Hins) as (Hpys & _ & _).
  assert (Hxs : fd_xname fds = "sofa") by (apply pyname_plain; [reflexivity|reflexivity|rewrite <- Hpys; exact Hns']).
  destruct (parse_fs_slot pf s e ti o fds Hfind Hti Hel Harr Hparse Hins) as (_ & _ & Hslots).
  unfold slot_rel in Hslots. rewrite Hns', Hbase in Hslots. cbn [String.eqb andb] in Hslots.
  change (String.eqb "sofa" "sofa") with true in Hslots. cbv iota in Hslots. rewrite Hxs in Hslots. destruct Hslots as [_ Hslots].
  destruct (post_obj_slots pf s psofas fss o o' ti fds Hpost Hf0 (tk_nodup _ _ Hti) Hins) as (_ & _ & vs & Hvs & Hss).
  rewrite Hns' in Hvs, Hss.
  assert (Hpf : forall v0, post_feature pf s psofas fss ti fds v0 =
                  match v0 with LInt i => match zlookup i psofas with Some _ => Ok (LSofa i) | None => Err EKey end | _ => Err EKey end).
  { intros v0. unfold post_feature. rewrite Hns', Hbase. reflexivity. }
  rewrite Hpf in Hvs.
  destruct (xattr e "sofa") as [a|]; [|rewrite Hslots in Hvs; discriminate].
  destruct Hslots as (z & Hz & Hl). rewrite Hl in Hvs. destruct (zlookup z psofas) as [so0|] eqn:Ez; [|discriminate].
  injection Hvs as Hvs'. exists a, z, so0. repeat split; auto.
  - destruct (conv_obj_spec s sofas o' o'' Hconvo) as (_ & _ & Cs & _). rewrite Cs. apply lslot_alookup; [rewrite Hss, <- Hvs'; reflexivity|discriminate].
  - rewrite Hss, <- Hvs'. reflexivity.
Qed.

Lemma zlookup_in_nodup {V} (l : list (Z * V)) k v : NoDup (map fst l) -> In (k, v) l -> zlookup k l = Some v.
Proof.
  induction l as [|[k0 v0] r IH]; cbn [map fst In zlookup]; intros ND Hin; [contradiction|].
  inversion ND as [|? ? Hn ND']; subst. destruct Hin as [H|H].
  - inversion H; subst. rewrite Z.eqb_refl. reflexivity.
  - destruct (k =? k0) eqn:E; [apply Z.eqb_eq in E; subst; exfalso; apply Hn; apply in_map_iff; exists (k0, v); auto|apply IH; assumption].
Qed.
Lemma Forall2_in_l {A B} (R : A -> B -> Prop) l1 l2 x : Forall2 R l1 l2 -> In x l1 -> exists y, In y l2 /\ R x y.
Proof.
  induction 1 as [|a b l1 l2 Hab H IH]; intros Hin; [contradiction|]. destruct Hin as [->|Hin].
  - exists b. split; [left; reflexivity|exact Hab].
  - destruct (IH Hin) as (y & Hy & HR). exists y. split; [right; exact Hy|exact HR].
Qed.
Lemma Forall2_in_r {A B} (R : A -> B -> Prop) l1 l2 y : Forall2 R l1 l2 -> In y l2 -> exists x, In x l1 /\ R x y.
Proof.
  induction 1 as [|a b l1 l2 Hab H IH]; intros Hin; [contradiction|]. destruct Hin as [->|Hin].
  - exists a. split; [left; reflexivity|exact Hab].
  - destruct (IH Hin) as (x & Hx & HR). exists x. split; [right; exact Hx|exact HR].
Qed.
Lemma mapM_map_gen {A B C} (f : A -> res B) (g : B -> C) (h : A -> C) l r :
  (forall x y, f x = Ok y -> g y = h x) -> mapM f l = Ok r -> map g r = map h l.
Proof.
  intros Hk. revert r; induction l as [|x l IH]; intros r H.
  - cbn in H. inversion H; reflexivity.
  - apply mapM_cons_ok in H as (y & ys & Hy & Hys & ->). cbn [map]. rewrite (Hk _ _ Hy), (IH _ Hys). reflexivity.
Qed.
Lemma parse_sofa_name e so : parse_sofa e = Ok so -> ps_name so = sofa_name e /\ ps_arrp so = None.
Proof.
  unfold parse_sofa, sofa_name. intros H. apply bind_ok in H as (i & _ & H). apply bind_ok in H as (num & _ & H).
  destruct (negb _); [discriminate|]. destruct (xattr e "sofaID") as [name|]; cbn [bind] in H; [|discriminate].
  apply bind_ok in H as (txt & _ & H). inversion H; subst so. cbn. auto.
Qed.
Lemma Forall2_keys {E} (R : E -> lobj -> Prop) es (l : list (xid * lobj)) os :
  Forall2 (fun e ko => exists o, R e o /\ fst ko = lo_id o) es l -> Forall2 R es os ->
  (forall e o o', R e o -> R e o' -> o = o') -> map fst l = map lo_id os.
Proof.
  intros H1 H2 Hfun. revert os H2. induction H1 as [|e ko es l (o & Ho & Hk) H IH]; intros os H2; inversion H2; subst; cbn [map]; [reflexivity|].
  rewrite Hk, (Hfun e o y Ho H3). f_equal. apply IH. assumption.
Qed.

Lemma zlookup_some_in {V} k (l : list (Z * V)) v : zlookup k l = Some v -> In (k, v) l.
Proof.
  induction l as [|[k0 v0] r IH]; cbn [zlookup]; [discriminate|]. destruct (k =? k0) eqn:E.
  - intros H. inversion H; subst. apply Z.eqb_eq in E. subst. left. reflexivity.
  - intros H. right. apply IH. exact H.
Qed.
Lemma zinsert_perm x l : Permutation (zinsert x l) (x :: l).
Proof.
  induction l as [|y r IH]; cbn [zinsert]; [apply Permutation_refl|]. destruct (x <=? y); [apply Permutation_refl|].
  eapply Permutation_trans; [apply perm_skip; exact IH|apply perm_swap].
Qed.
Lemma zsort_is_perm l : Permutation (zsort l) l.
Proof.
  unfold zsort. induction l as [|x r IH]; cbn [fold_right]; [constructor|].
  eapply Permutation_trans; [apply zinsert_perm|constructor; exact IH].
Qed.
Lemma cond_members s nulls views cc : cond s nulls views cc = true ->
  forall c, In c (cc_sofas cc) -> (forall i, In i (cs_members c) -> In i (map fst (cc_fs cc))) /\
                                  (forall z, cs_arr c = Some z -> In z (map fst (cc_fs cc))).
Proof.
  unfold cond. rewrite !andb_true_iff. intros [_ H] c Hin. rewrite forallb_forall in H. specialize (H c Hin).
  rewrite forallb_forall in H. split.
  - intros i Hi. apply memZ_In. apply H. apply in_or_app. left. exact Hi.
  - intros z Hz. apply memZ_In. apply H. apply in_or_app. right. rewrite Hz. left. reflexivity.
Qed.
Lemma is_fs_other e : is_fs e = true -> is_other e = true.
Proof. intros H. rewrite is_other_split, H. apply orb_true_r. Qed.
Lemma array_no_sofa s ti : ti_ok s ti -> is_array_name (ti_name ti) = true -> has_feat ti "sofa" = false.
Proof.
  intros Hti Harr. destruct (tk_arr _ _ Hti Harr) as (fd & Hf & Hn & _). unfold has_feat. rewrite Hf. cbn [fd_find]. rewrite Hn. reflexivity.
Qed.

Lemma Forall2_with_in {A B} (R : A -> B -> Prop) l1 l2 : Forall2 R l1 l2 -> Forall2 (fun x y => In x l1 /\ In y l2 /\ R x y) l1 l2.
Proof.
  induction 1 as [|x y l1 l2 Hxy H IH]; constructor.
  - split; [left; reflexivity|split; [left; reflexivity|exact Hxy]].
  - eapply Forall2_impl; [|exact IH]. intros a b (Ha & Hb & HR). split; [right; exact Ha|split; [right; exact Hb|exact HR]].
Qed.
Lemma Forall2_mapM_gen {A B C} (f : A -> res C) (g : B -> C) l1 l2 :
  Forall2 (fun x y => f x = Ok (g y)) l1 l2 -> mapM f l1 = Ok (map g l2).
Proof. induction 1 as [|x y l1 l2 Hxy H IH]; cbn [mapM map]; [reflexivity|]. rewrite Hxy, IH. reflexivity. Qed.
Lemma find_Forall2 {V} (R : xid * V -> csofa -> Prop) (l1 : list (xid * V)) (l2 : list csofa) i v :
  Forall2 (fun a b => cs_id b = fst a /\ R a b) l1 l2 -> zlookup i l1 = Some v ->
  exists c, find (fun c => Z.eqb (cs_id c) i) l2 = Some c /\ R (i, v) c.
Proof.
  induction 1 as [|[k a] b l1 l2 [Hk HR] H IH]; cbn [zlookup find fst] in *; [discriminate|]. rewrite Hk. cbn [fst].
  rewrite (Z.eqb_sym k i). destruct (i =? k) eqn:E.
  - intros Hv. inversion Hv; subst. apply Z.eqb_eq in E. subst. exists b. auto.
  - exact IH.
Qed.

Lemma filter_filter_impl {A} (p q : A -> bool) l : (forall x, p x = true -> q x = true) -> filter p (filter q l) = filter p l.
Proof.
  intros H. induction l as [|x r IH]; cbn [filter]; [reflexivity|]. destruct (q x) eqn:Eq; cbn [filter].
  - rewrite IH. reflexivity.
  - destruct (p x) eqn:Ep; [rewrite (H x Ep) in Eq; discriminate|exact IH].
Qed.
Lemma mapM_map {A B C} (f : B -> res C) (g : A -> B) l : mapM f (map g l) = mapM (fun x => f (g x)) l.
Proof. induction l as [|x r IH]; cbn [map mapM]; [reflexivity|]. rewrite IH. reflexivity. Qed.
Lemma mapM_id_list (f : Z -> res Z) l : (forall x, In x l -> f x = Ok x) -> mapM f l = Ok l.
Proof.
  induction l as [|x r IH]; intros H; cbn [mapM]; [reflexivity|]. rewrite (H x (or_introl eq_refl)). cbn [bind].
  rewrite IH; [reflexivity|]. intros y Hy. apply H. right. exact Hy.
Qed.

(* ---- the two id generators after the first loop: the largest xmi:id / sofaNum seen ---- *)
Lemma fold_max_char l : forall a,
  a <= fold_left Z.max l a /\ (forall x, In x l -> x <= fold_left Z.max l a) /\ (fold_left Z.max l a = a \/ In (fold_left Z.max l a) l).
Proof.
  induction l as [|y r IH]; intros a; cbn [fold_left In].
  - split; [lia|]. split; [intros x []|left; reflexivity].
  - destruct (IH (Z.max a y)) as (A & B & C). split; [lia|]. split.
    + intros x [->|Hx]; [lia|apply B; exact Hx].
    + destruct C as [C|C]; [|right; right; exact C]. rewrite C. destruct (Z.max_spec a y) as [[_ E]|[_ E]]; rewrite E; [right; left; reflexivity|left; reflexivity].
Qed.
Lemma zmax_list_char l M : 0 <= M -> (forall x, In x l -> x <= M) -> (M = 0 \/ In M l) -> zmax_list l = M.
Proof.
  intros H0 Hub Hin. unfold zmax_list. destruct (fold_max_char l 0) as (A & B & C).
  assert (fold_left Z.max l 0 <= M) by (destruct C as [->|C]; [exact H0|apply Hub; exact C]).
  assert (M <= fold_left Z.max l 0) by (destruct Hin as [->|Hin]; [exact A|apply B; exact Hin]). lia.
Qed.
Lemma pass1_max pf s : forall d st st', pass1 pf s false st d = Ok st' ->
  forall ps os, mapM parse_sofa (filter is_sofa d) = Ok ps -> mapM (parse_fs pf s) (filter is_other d) = Ok os ->
  (p_maxid st <= p_maxid st' /\ (forall so, In so ps -> ps_id so <= p_maxid st') /\ (forall o, In o os -> lo_id o <= p_maxid st') /\
   (p_maxid st' = p_maxid st \/ In (p_maxid st') (map ps_id ps) \/ In (p_maxid st') (map lo_id os))) /\
  (p_maxnum st <= p_maxnum st' /\ (forall so, In so ps -> ps_num so <= p_maxnum st') /\
   (p_maxnum st' = p_maxnum st \/ In (p_maxnum st') (map ps_num ps))).
Proof.
  unfold pass1. induction d as [|e r IH]; intros st st' H ps os Hps Hos; cbn [pass1_with] in H.
  - inversion H; subst. cbn in Hps, Hos. inversion Hps; inversion Hos; subst.
    split; (split; [lia|]); (split; [intros ? []|]); [split; [intros ? []|]|]; left; reflexivity.
  - apply bind_ok in H as (st1 & H1 & H). unfold step1_with in H1. cbn [filter] in Hps, Hos.
    assert (Ho : is_other e = negb (is_sofa e || is_view e)) by reflexivity. rewrite Ho in Hos. clear Ho.
    destruct (is_sofa e) eqn:Es.
    + assert (Ev : is_view e = false).
      { destruct (is_view e) eqn:Ev; [|reflexivity]. destruct (view_not_others e Ev) as (Hx & _). congruence. }
      rewrite Ev in Hos. cbn [orb negb] in Hos. apply bind_ok in H1 as (so & Hso & H1). inversion H1; subst st1. clear H1.
      apply mapM_cons_ok in Hps as (so' & ps' & Hso' & Hps' & ->). rewrite Hso in Hso'. inversion Hso'; subst so'.
      destruct (IH _ _ H ps' os Hps' Hos) as ((A1 & A2 & A3 & A4) & (B1 & B2 & B3)). cbn [p_maxid p_maxnum] in *.
      split.
      * split; [lia|]. split; [intros x [<-|Hx]; [lia|apply A2; exact Hx]|]. split; [exact A3|].
        cbn [map In]. destruct A4 as [A4|[A4|A4]]; [|tauto|tauto].
        destruct (Z.max_spec (ps_id so) (p_maxid st)) as [[_ E]|[_ E]]; rewrite E in A4; [left; exact A4|right; left; left; symmetry; exact A4].
      * split; [lia|]. split; [intros x [<-|Hx]; [lia|apply B2; exact Hx]|].
        cbn [map In]. destruct B3 as [B3|B3]; [|tauto].
        destruct (Z.max_spec (ps_num so) (p_maxnum st)) as [[_ E]|[_ E]]; rewrite E in B3; [left; exact B3|right; left; symmetry; exact B3].
    + destruct (is_view e) eqn:Ev; cbn [orb negb] in Hos.
      * apply bind_ok in H1 as (pv & Hpv & H1). inversion H1; subst st1. clear H1.
        exact (IH _ _ H ps os Hps Hos).
      * fold (parse_fs pf s e) in H1. apply mapM_cons_ok in Hos as (o & os' & Ho & Hos' & ->). rewrite Ho in H1.
        inversion H1; subst st1. clear H1.
        destruct (IH _ _ H ps os' Hps Hos') as ((A1 & A2 & A3 & A4) & B). cbn [p_maxid p_maxnum] in *.
        split; [|exact B].
        split; [lia|]. split; [exact A2|]. split; [intros x [<-|Hx]; [lia|apply A3; exact Hx]|].
        cbn [map In]. destruct A4 as [A4|[A4|A4]]; [|tauto|tauto].
        destruct (Z.max_spec (lo_id o) (p_maxid st)) as [[_ E]|[_ E]]; rewrite E in A4; [left; exact A4|right; right; left; symmetry; exact A4].
Qed.
(* the views after the loop when no sofa is called _InitialView: the pre-created view is still there *)
Lemma inv_final0 pviews objs1 sofas views objs iv : Inv pviews objs1 sofas views objs -> NoDup (names sofas) -> ~ In INITIAL (names sofas) ->
  Permutation (aset INITIAL iv views) ((INITIAL, iv) :: map (view_of pviews) sofas).
Proof.
  intros [Ind Ilook _ Ikeys _] ND Hini. apply dict_perm.
  - apply aset_keys_nodup. exact Ind.
  - cbn [map fst]. constructor; rewrite map_map; [exact Hini|exact ND].
  - intros n. rewrite alookup_aset. cbn [alookup]. destruct (String.eqb n INITIAL) eqn:E; [reflexivity|].
    destruct (in_dec string_dec n (names sofas)) as [Hin|Hn].
    + unfold names in Hin. apply in_map_iff in Hin as (kso & <- & Hin). rewrite (Ilook kso Hin), (alookup_view_of pviews sofas kso ND Hin). reflexivity.
    + assert (H1 : alookup n views = None).
      { apply alookup_none_notin. intros Hin. apply Ikeys in Hin as [->|Hin]; [rewrite String.eqb_refl in E; discriminate|contradiction]. }
      assert (H2 : alookup n (map (view_of pviews) sofas) = None).
      { apply alookup_none_notin. rewrite map_map. exact Hn. }
      congruence.
Qed.

Section Global.
Variable pf : string -> option flt.

(* the reader computes the denotation, for documents with and without an _InitialView sofa: in the second case the view that
   every Cas has from its construction stays, with the next free xmi:id and sofaNum (with_initial) *)
Theorem load_xmi_is_denotation_gen s d c :
  reader_okb0 pf s d = true -> load_xmi pf s false d = Ok c -> canon_loaded s c = res_map with_initial (denote_xmi pf s d).
Proof.
  intros Hok Hload.
  unfold reader_okb0 in Hok. rewrite !andb_true_iff in Hok.
  destruct Hok as [[[[[[[Hdoc Hsch] Hsf] Hnames] Helems] Hsofas] Hmem] Hids].
  (* ---- the document ---- *)
  apply doc_ok_unfold in Hdoc as (nulls & dviews & cc & Hn & Hv & Hd & Hc).
  destruct (cond_nodup _ _ _ _ Hc) as (NDs & NDf & NDv).
  pose proof Hd as Hd0. apply denote_unfold in Hd as (dsofas & dviews' & dfss & D1 & D2 & D3 & Hcc).
  rewrite Hv in D2. inversion D2; subst dviews'. clear D2. subst cc. cbn [cc_sofas cc_fs] in *.
  assert (NDs' : NoDup (map cs_id dsofas)).
  { rewrite <- (map_id_with_members dviews). eapply Permutation_NoDup; [|exact NDs]. apply Permutation_map. apply sort_by_is_perm. }
  assert (NDf' : NoDup (map fst dfss)).
  { eapply Permutation_NoDup; [|exact NDf]. apply Permutation_map. apply sort_by_is_perm. }
  (* ---- the reader, stage by stage ---- *)
  rewrite load_xmi_tail in Hload. apply bind_ok in Hload as (st & Hp1 & Hload). unfold load_tail in Hload.
  apply bind_ok in Hload as (objs & Hp2 & Hload). apply bind_ok in Hload as (sofas & Hra & Hload).
  apply bind_ok in Hload as (objs1 & Hcv & Hload). apply bind_ok in Hload as ([views objs2] & Hvl & Hload).
  destruct (pass1_split pf s d p1_init st Hp1) as (ps & pvs & os & S1 & S2 & S3 & F1 & F2 & F3 & F4).
  cbn [p1_init p_sofas p_views p_fss p_lids] in F1, F2, F3, F4.
  (* views of the document *)
  assert (Epv : pvs = dviews).
  { unfold doc_views in Hv. rewrite (mapM_ext parse_view dec_view) in S2 by (intros; apply parse_view_dec). congruence. }
  subst pvs.
  assert (Epviews : p_views st = dviews).
  { rewrite F2. exact (eq_trans (fold_zset_map fst snd dviews NDv) (map_pair_id dviews)). }
  (* sofas of the document *)
  assert (Asof : Forall2 (fun so c => exists e, In e (filter is_sofa d) /\ parse_sofa e = Ok so /\ dec_sofa e = Ok c) ps dsofas)
    by (apply (mapM_two parse_sofa dec_sofa _ _ _ S1 D1)).
  assert (Eids : map ps_id ps = map cs_id dsofas).
  { clear - Asof. induction Asof as [|so c ps' ds' (e & _ & H1 & H2) _ IH]; cbn [map]; [reflexivity|].
    destruct (parse_sofa_dec e so c H1 H2) as (E & _). rewrite E, IH. reflexivity. }
  assert (NDps : NoDup (map ps_id ps)) by (rewrite Eids; exact NDs').
  assert (Epsofas : p_sofas st = map (fun so => (ps_id so, so)) ps) by (rewrite F1; apply fold_zset_map; exact NDps).
  (* the elements that are neither sofas nor views *)
  apply andb_true_iff in Hsch as [Hsch Hnullt]. apply andb_true_iff in Hsch as [Htis Htop]. apply negb_true_iff in Htop.
  assert (Hel : forall e, In e (filter is_other d) ->
            exists ti, sch_find s (reader_tname (x_ns e) (x_tag e)) = Some ti /\ ti_okb s ti = true /\ elem_okb s e = true).
  { intros e Hin. rewrite forallb_forall in Helems. pose proof (Helems e Hin) as He. unfold elem_okb in He.
    destruct (sch_find s (reader_tname (x_ns e) (x_tag e))) as [ti|] eqn:Ef; [|discriminate]. exists ti. split; [reflexivity|].
    split; [|unfold elem_okb; rewrite Ef; exact He]. rewrite forallb_forall in Htis. apply Htis. eapply sch_find_in; eauto. }
  assert (Aos : Forall2 (fun e o => parse_fs pf s e = Ok o) (filter is_other d) os) by (apply mapM_Forall2_of; exact S3).
  assert (Aid : Forall2 (fun e o => x_id e = Ok (lo_id o)) (filter is_other d) os).
  { clear - Aos Hel. induction Aos as [|e o l1 l2 Heo H IH]; constructor.
    - destruct (Hel e (or_introl eq_refl)) as (ti & Hf & _ & Heb). pose proof (elem_okb_ok s e ti Hf Heb) as Hek.
      destruct (parse_fs_head pf s e ti o Hf Hek Heo) as (_ & Hx & _). exact Hx.
    - apply IH. intros e' Hin. apply Hel. right. exact Hin. }
  assert (NDos : NoDup (map lo_id os)).
  { unfold other_ids_okb in Hids.
    replace (mapM x_id (filter is_other d)) with (@Ok (list xid) (map lo_id os)) in Hids by (symmetry; exact (Forall2_mapM_id x_id lo_id _ _ Aid)).
    apply nodupZ_NoDup. exact Hids. }
  assert (Efss : p_fss st = map (fun o => (lo_id o, o)) os) by (rewrite F3; apply fold_zset_map; exact NDos).
  (* the stages, element by element *)
  unfold pass2 in Hp2. rewrite Efss in *. set (fss := map (fun o => (lo_id o, o)) os) in *.
  set (psofas := p_sofas st) in *.
  pose proof (pipeline (parse_fs pf s) (post_obj pf s psofas fss) (conv_obj s sofas) (fixP sofas)
                       (filter is_other d) os objs objs1 S3 Hp2 Hcv) as Apipe.
  pose proof (pipeline (parse_fs pf s) (post_obj pf s psofas fss) (conv_obj s sofas) (fun o => o)
                       (filter is_other d) os objs objs1 S3 Hp2 Hcv) as Apipe1.
  cbv beta in Apipe1. rewrite map_pair_id in Apipe1.
  assert (Ekeys1 : map fst objs1 = map lo_id os).
  { apply (Forall2_keys (fun e o => parse_fs pf s e = Ok o) (filter is_other d) objs1 os); [|exact Aos|congruence].
    eapply Forall2_impl; [|exact Apipe1]. intros e ko (o & o' & o'' & P1 & _ & _ & ->). exists o. auto. }
  assert (NDk1 : NoDup (map fst objs1)) by (rewrite Ekeys1; exact NDos).
  assert (NDfss : NoDup (map fst fss)) by (unfold fss; rewrite map_map; exact NDos).
  assert (Hmaster : forall e, In e (filter is_other d) -> exists o o' o'',
            parse_fs pf s e = Ok o /\ post_obj pf s psofas fss o = Ok o' /\ conv_obj s sofas o' = Ok o'' /\
            zlookup (lo_id o) objs1 = Some o'' /\ zlookup (lo_id o) fss = Some o).
  { intros e Hin. destruct (Forall2_in_l _ _ _ e Apipe1 Hin) as (ko & Hko & o & o' & o'' & P1 & P2 & P3 & ->).
    exists o, o', o''. repeat split; auto.
    - apply zlookup_in_nodup; assumption.
    - apply zlookup_in_nodup; [exact NDfss|]. destruct (Forall2_in_l _ _ _ e Aos Hin) as (o0 & Ho0 & P0).
      assert (o0 = o) by congruence. subst o0. unfold fss. apply in_map_iff. exists o. auto. }
  (* ---- the views ---- *)
  assert (Asf : Forall2 (fun kso kso' => resolve_arr fss kso = Ok kso') psofas sofas) by (apply mapM_Forall2_of; exact Hra).
  assert (Ekeys_s : map fst sofas = map ps_id ps).
  { rewrite Epsofas in Asf. clear - Asf. remember (map (fun so => (ps_id so, so)) ps) as l eqn:El. revert ps El.
    induction Asf as [|a b l1 l2 Hab H IH]; intros ps El; destruct ps; cbn [map] in *; try discriminate; [reflexivity|].
    inversion El; subst. destruct (resolve_arr_spec _ _ _ Hab) as (E & _). rewrite E. cbn [fst]. f_equal. apply IH. reflexivity. }
  assert (Enames_s : names sofas = map sofa_name (filter is_sofa d)).
  { rewrite <- (mapM_map_gen parse_sofa ps_name sofa_name _ _ (fun x y H => proj1 (parse_sofa_name x y H)) S1).
    rewrite Epsofas in Asf. clear - Asf. remember (map (fun so => (ps_id so, so)) ps) as l eqn:El. revert ps El.
    induction Asf as [|a b l1 l2 Hab H IH]; intros ps El; destruct ps; cbn [map names] in *; try discriminate; [reflexivity|].
    inversion El; subst. destruct (resolve_arr_spec _ _ _ Hab) as (_ & _ & _ & E & _). rewrite E. cbn [snd]. f_equal. apply IH. reflexivity. }
  pose proof Hsofas as Hsn. unfold sofas_nodupb in Hsn. apply nodup_sb_NoDup in Hsn.
  assert (Hid_s : forall kso, In kso sofas -> ps_id (snd kso) = fst kso).
  { intros kso Hin. destruct (Forall2_in_r _ _ _ kso Asf Hin) as (kso0 & Hin0 & Hr). destruct (resolve_arr_spec _ _ _ Hr) as (E1 & E2 & _).
    rewrite E1, E2. rewrite Epsofas in Hin0. apply in_map_iff in Hin0 as (so & <- & _). reflexivity. }
  (* every element with its type facts *)
  assert (Helx : forall e, In e (filter is_other d) -> exists ti o o' o'',
            sch_find s (reader_tname (x_ns e) (x_tag e)) = Some ti /\ ti_okb s ti = true /\ elem_okb s e = true /\
            parse_fs pf s e = Ok o /\ post_obj pf s psofas fss o = Ok o' /\ conv_obj s sofas o' = Ok o'' /\
            zlookup (lo_id o) objs1 = Some o'' /\ zlookup (lo_id o) fss = Some o /\ x_id e = Ok (lo_id o) /\
            lo_type o = ti_name ti /\ lo_type o'' = ti_name ti /\ lo_id o'' = lo_id o).
  { intros e Hin. destruct (Hel e Hin) as (ti & Hf & Htb & Heb). destruct (Hmaster e Hin) as (o & o' & o'' & P1 & P2 & P3 & Z1 & Z2).
    pose proof (elem_okb_ok s e ti Hf Heb) as Hek. destruct (parse_fs_head pf s e ti o Hf Hek P1) as (T0 & X0 & _).
    assert (Hf0 : sch_find s (lo_type o) = Some ti) by (rewrite T0, (sch_find_name _ _ _ Hf); exact Hf).
    destruct (post_obj_head pf s psofas fss o o' ti P2 Hf0) as (T1 & I1 & _).
    destruct (conv_obj_spec s sofas o' o'' P3) as (T2 & I2 & _).
    exists ti, o, o', o''. repeat split; auto; congruence. }
  assert (Hsfp : forall ti, In ti s -> (has_feat ti "sofa" = true -> memb T_ANNOTATION_BASE (ti_anc ti) = true) /\
                                       (memb T_ANNOTATION (ti_anc ti) = true -> has_feat ti "sofa" = true)).
  { intros ti Hin. unfold sofa_feat_okb in Hsf. rewrite forallb_forall in Hsf. specialize (Hsf ti Hin). apply andb_true_iff in Hsf as [A B].
    split; intros H; [rewrite H in A|rewrite H in B]; cbn in *; assumption. }
  assert (Hready : forall kso, In kso sofas -> Forall (member_ready0 s objs1 (fst kso)) (members_for dviews (snd kso))).
  { intros [k so] Hin. cbn [fst snd]. pose proof (Hid_s _ Hin) as Hk. cbn [fst snd] in Hk. apply Forall_forall. intros m Hm.
    unfold members_for in Hm. rewrite Hk in Hm. destruct (zlookup k dviews) as [ms|] eqn:Ezv; [|contradiction].
    (* the member is a feature structure of the document *)
    assert (Hkin : In k (map cs_id dsofas)).
    { rewrite <- Eids, <- Ekeys_s. apply in_map_iff. exists (k, so). auto. }
    apply in_map_iff in Hkin as (c0 & Hc0 & Hc0in).
    assert (Hcin : In (with_members dviews c0) (sort_by cs_id (map (with_members dviews) dsofas))).
    { eapply Permutation_in; [apply Permutation_sym, sort_by_is_perm|]. apply in_map. exact Hc0in. }
    destruct (cond_members _ _ _ _ Hc _ Hcin) as [Hmem_in _]. cbn [cc_fs cc_sofas] in Hmem_in.
    assert (Hmfs : In m (map fst dfss)).
    { eapply Permutation_in; [apply Permutation_map, sort_by_is_perm|]. apply Hmem_in. unfold with_members. cbn [cs_members].
      rewrite (members_of_zlookup dviews _ NDv), Hc0, Ezv. eapply Permutation_in; [apply Permutation_sym, zsort_is_perm|exact Hm]. }
    apply in_map_iff in Hmfs as ([m' cf] & Hm' & Hmin). cbn [fst] in Hm'. subst m'.
    destruct (mapM_In _ _ _ _ D3 Hmin) as (e & Hein & Hde). pose proof (dec_fs_id _ _ _ _ _ _ Hde) as Hxe.
    apply filter_In in Hein as [Hed Hefs]. assert (Heo : In e (filter is_other d)) by (apply filter_In; split; [exact Hed|apply is_fs_other; exact Hefs]).
    destruct (Helx e Heo) as (ti & o & o' & o'' & Hf & Htb & Heb & P1 & P2 & P3 & Z1 & Z2 & X0 & T0 & T2 & I2).
    assert (Hom : lo_id o = m) by congruence. rewrite Hom in Z1.
    exists o'', ti. split; [exact Z1|]. split; [rewrite T2; eapply sch_find_contains; eauto|].
    split; [rewrite T2, (sch_find_name _ _ _ Hf); exact Hf|]. intros Hhf.
    pose proof (ti_okb_ok _ _ Htb) as Hti. pose proof (elem_okb_ok s e ti Hf Heb) as Hek.
    destruct (Hsfp ti (sch_find_in _ _ _ Hf)) as [Hbase _]. specialize (Hbase Hhf).
    assert (Harr : is_array_name (ti_name ti) = false).
    { destruct (is_array_name (ti_name ti)) eqn:E; [|reflexivity]. rewrite (array_no_sofa s ti Hti E) in Hhf. discriminate. }
    destruct (sofa_slot_after pf s psofas fss sofas e ti o o' o'' Hf Hti Hek Hhf Hbase Harr P1 P2 P3) as (a & z & so0 & Ha & Hz & _ & Hsl & _).
    (* the view it is a member of is the view of its own sofa *)
    apply zlookup_some_in in Ezv. unfold doc_views in Hv. destruct (mapM_In _ _ _ _ Hv Ezv) as (ev & Hevin & Hdv).
    unfold members_okb in Hmem. rewrite forallb_forall in Hmem. specialize (Hmem ev Hevin). rewrite Hdv in Hmem. cbn [fst snd] in Hmem.
    rewrite forallb_forall in Hmem. specialize (Hmem m Hm). unfold member_okb in Hmem. rewrite forallb_forall in Hmem. specialize (Hmem e Hed).
    apply filter_In in Heo as [_ Heo]. rewrite Heo, Hxe, Z.eqb_refl, Hf, Hhf, Ha, Hz in Hmem. cbn [negb orb] in Hmem.
    apply Z.eqb_eq in Hmem. subst z. exact Hsl. }
  (* the loop itself *)
  assert (NDks : NoDup (map fst ([] ++ sofas))) by (cbn [app]; rewrite Ekeys_s; exact NDps).
  assert (NDns : NoDup (names ([] ++ sofas))) by (cbn [app]; rewrite Enames_s; exact Hsn).
  destruct (view_loop_spec s dviews objs1 sofas [] [(INITIAL, initial_view)] objs1 (inv_init dviews objs1) NDks NDns Hid_s Hready)
    as (views' & objs' & Hvl' & HI).
  rewrite Epviews, F4 in Hvl. rewrite Hvl' in Hvl. inversion Hvl; subst views' objs'. clear Hvl. cbn [app] in HI.
  pose proof HI as HI0. destruct HI as [Ind Ilook Iinit Ikeys Iobjs].
  assert (NDn : NoDup (names sofas)) by (rewrite Enames_s; exact Hsn).
  assert (Enp : names sofas = map ps_name ps).
  { rewrite Enames_s. symmetry. exact (mapM_map_gen parse_sofa ps_name sofa_name _ _ (fun x y H => proj1 (parse_sofa_name x y H)) S1). }
  (* ---- sofas of the reader against sofas of the denotation ---- *)
  assert (Asd : Forall2 (fun kso c0 => cs_id c0 = fst kso /\
                  (ps_id (snd kso) = cs_id c0 /\ ps_num (snd kso) = cs_num c0 /\ ps_name (snd kso) = cs_name c0 /\
                   ps_text (snd kso) = cs_text c0 /\ ps_mime (snd kso) = cs_mime c0 /\ ps_uri (snd kso) = cs_uri c0 /\
                   match cs_arr c0 with None => ps_arrp (snd kso) = None
                                   | Some z => ps_arrp (snd kso) = Some z /\ exists o, zlookup z fss = Some o end)) sofas dsofas).
  { rewrite Epsofas in Asf. clear - Asf Asof. revert sofas Asf. induction Asof as [|so c0 ps' ds' (e & _ & H1 & H2) _ IH]; intros sofas Asf;
      cbn [map] in Asf; inversion Asf as [|? kso' ? sofas' Hr Asf']; subst; constructor; [|apply IH; exact Asf'].
    destruct (parse_sofa_dec e so c0 H1 H2) as (A1 & A2 & A3 & A4 & A5 & A6 & A7 & A8).
    destruct (resolve_arr_spec _ _ _ Hr) as (B1 & B2 & B3 & B4 & B5 & B6 & B7 & B8). cbn [fst snd] in *.
    split; [congruence|]. repeat split; try congruence.
    destruct (ps_arr so) as [a|].
    - destruct A8 as (z & Hz & ->). destruct B8 as (i & o & Hi & Hl & ->). assert (i = z) by congruence. subst i. split; [reflexivity|exists o; exact Hl].
    - rewrite A8. congruence. }
  (* ---- ids: 0 is cas:NULL and nothing else ---- *)
  pose proof Hc as Hc0. unfold cond in Hc0. rewrite !andb_true_iff in Hc0. destruct Hc0 as [[[[[[C1 C2] C3] C4] C5] C6] C7]. cbn [cc_sofas cc_fs] in *.
  apply nodupZ_NoDup in C3. apply NoDup_cons_iff in C3 as [C30 _].
  assert (H0s : ~ In 0 (map cs_id dsofas)).
  { intros Hin. apply C30. apply in_or_app. left. rewrite <- (map_id_with_members dviews) in Hin.
    eapply Permutation_in; [apply Permutation_map, Permutation_sym, sort_by_is_perm|exact Hin]. }
  assert (H0f : ~ In 0 (map fst dfss)).
  { intros Hin. apply C30. apply in_or_app. right. eapply Permutation_in; [apply Permutation_map, Permutation_sym, sort_by_is_perm|exact Hin]. }
  assert (Hclass : forall e ti i, In e (filter is_other d) -> sch_find s (reader_tname (x_ns e) (x_tag e)) = Some ti -> x_id e = Ok i ->
            String.eqb (ti_name ti) T_NULL = (i =? 0) /\ is_fs e = negb (String.eqb (ti_name ti) T_NULL) /\
            (is_fs e = true -> type_of_elem (x_ns e) (x_tag e) = Some (reader_tname (x_ns e) (x_tag e)))).
  { intros e ti i Hin Hf Hx. rewrite (sch_find_name _ _ _ Hf). apply filter_In in Hin as [Hed Heo]. rewrite is_other_split in Heo.
    destruct (is_null e) eqn:Enl.
    - rewrite (null_tname e Enl). assert (Hfs : is_fs e = false) by (unfold is_fs; rewrite Enl; reflexivity). rewrite Hfs.
      assert (Hin0 : In e (filter is_null d)) by (apply filter_In; auto).
      destruct (mapM_In_fwd _ _ _ e Hn Hin0) as (y & Hy & Hxy). rewrite Hx in Hxy. inversion Hxy; subst y.
      rewrite forallb_forall in C1. specialize (C1 i Hy). apply Z.eqb_eq in C1. subst i. repeat split; try reflexivity. discriminate.
    - cbn [orb] in Heo. rewrite Heo. unfold names_okb in Hnames. rewrite forallb_forall in Hnames. specialize (Hnames e Hed). rewrite Heo in Hnames. cbn [negb orb] in Hnames.
      apply andb_true_iff in Hnames as [Hto Hnn]. apply negb_true_iff in Hnn. rewrite Hnn.
      assert (Hin0 : In e (filter is_fs d)) by (apply filter_In; auto).
      destruct (mapM_In_fwd _ _ _ e D3 Hin0) as ([i' cf] & Hy & Hde). pose proof (dec_fs_id _ _ _ _ _ _ Hde) as Hx'. rewrite Hx in Hx'. inversion Hx'; subst i'.
      assert (i <> 0) by (intros ->; apply H0f; apply in_map_iff; exists (0, cf); auto).
      repeat split; [symmetry; apply Z.eqb_neq; assumption|].
      intros _. destruct (type_of_elem (x_ns e) (x_tag e)) as [tn|]; cbn [opt_eqb] in Hto; [|discriminate]. apply String.eqb_eq in Hto. rewrite Hto. reflexivity. }
  (* ---- the hypotheses of the per-element theorem ---- *)
  assert (Hobj2 : forall k o, zlookup k objs1 = Some o -> zlookup k objs2 = Some (fixP sofas o)).
  { intros k o H. rewrite Iobjs, zlookup_map_obj, H. reflexivity. }
  assert (Hderef : deref_ok fss objs2).
  { intros i o Hz. apply zlookup_some_in in Hz. unfold fss in Hz. apply in_map_iff in Hz as (o0 & Heq & Hino). inversion Heq; subst o0 i. clear Heq.
    destruct (Forall2_in_r _ _ _ o Aos Hino) as (e & Hein & Hpe).
    destruct (Helx e Hein) as (ti & o1 & o' & o'' & Hf & Htb & Heb & P1 & P2 & P3 & Z1 & Z2 & X0 & T0 & T2 & I2).
    assert (o1 = o) by congruence. subst o1.
    unfold deref. rewrite (Hobj2 _ _ Z1), fixP_type, fixP_id, T2, I2.
    destruct (Hclass e ti (lo_id o) Hein Hf X0) as (E1 & _). rewrite E1. reflexivity. }
  assert (Hps : forall i so0, zlookup i psofas = Some so0 -> exists so, zlookup i sofas = Some so).
  { intros i so0 Hz. destruct (zlookup_Forall2 (fun _ _ => True) psofas sofas i so0) as (so & Hso & _); [|exact Hz|eauto].
    eapply Forall2_impl; [|exact Asf]. intros a b Hr. destruct (resolve_arr_spec _ _ _ Hr) as (E & _). auto. }
  pose (looks := fun fviews : list (string * lview) => forall kso, In kso sofas ->
                 alookup (ps_name (snd kso)) fviews = Some (mkLv (lsofa_of (snd kso)) (members_for dviews (snd kso)))).
  assert (GHview : forall fviews, looks fviews ->
            forall i so, zlookup i sofas = Some so -> exists w, alookup (ps_name so) fviews = Some w /\ ls_id (lv_sofa w) = i).
  { intros fviews FL i so Hz. apply zlookup_some_in in Hz. pose proof (FL _ Hz) as Hl. cbn [snd] in Hl. rewrite Hl. eexists. split; [reflexivity|]. cbn. apply (Hid_s _ Hz). }
  assert (Hconv : forall e a i so, xattr e "sofa" = Some a -> s2z a = Some i -> zlookup i sofas = Some so ->
                                   forall z, conv_of dsofas e z = conv_z (ps_text so) z).
  { intros e a i so Ha Hz Hl z. unfold conv_of. rewrite Ha, Hz.
    destruct (find_Forall2 (fun kso c0 => ps_text (snd kso) = cs_text c0) sofas dsofas i so) as (c0 & Hfind & Htxt); [|exact Hl|].
    - eapply Forall2_impl; [|exact Asd]. intros kso c0 (K & _ & _ & _ & T & _). auto.
    - rewrite Hfind, conv_z_ext. cbn [snd] in Htxt. rewrite Htxt. destruct (cs_text c0); reflexivity. }
  assert (Hnz : zlookup 0 psofas = None).
  { apply zlookup_none_notin. intros Hin. apply H0s. rewrite <- Eids. rewrite Epsofas, map_map in Hin. exact Hin. }
  assert (Hkeyid1 : forall k o, zlookup k objs1 = Some o -> lo_id o = k).
  { intros k o Hz. apply zlookup_some_in in Hz. destruct (Forall2_in_r _ _ _ (k, o) Apipe1 Hz) as (e & Hein & o0 & o' & o'' & P1 & P2 & P3 & Heq).
    inversion Heq; subst k o. destruct (Helx e Hein) as (ti & o1 & o1' & o1'' & _ & _ & _ & Q1 & Q2 & Q3 & _ & _ & _ & _ & _ & I2).
    assert (o1 = o0) by congruence. subst o1. assert (o1' = o') by congruence. subst o1'. assert (o1'' = o'') by congruence. subst o1''. exact I2. }
  assert (Hmid2 : forall k o, zlookup k objs1 = Some o -> member_id objs2 k = Ok k).
  { intros k o Hz. unfold member_id. rewrite (Hobj2 _ _ Hz), fixP_id, (Hkeyid1 _ _ Hz). reflexivity. }
  assert (Hfss1 : forall i o, zlookup i fss = Some o -> exists o1, zlookup i objs1 = Some o1).
  { intros i o Hz. apply zlookup_some_in in Hz. unfold fss in Hz. apply in_map_iff in Hz as (o0 & Heq & Hino). inversion Heq; subst o0 i.
    destruct (Forall2_in_r _ _ _ o Aos Hino) as (e & Hein & Hpe).
    destruct (Helx e Hein) as (ti & o1 & o' & o'' & _ & _ & _ & P1 & _ & _ & Z1 & _). assert (o1 = o) by congruence. subst o1. eauto. }
  (* ---- the canonical content ---- *)
  (* feature structures *)
  assert (Gfs : forall fviews, looks fviews -> mapM (fun ko => canon_obj s fviews objs2 (snd ko))
                     (filter (fun ko => negb (String.eqb (lo_type (snd ko)) T_NULL)) objs2) = Ok dfss).
  { intros fviews FL. pose proof (GHview fviews FL) as Hview. rewrite <- D3. symmetry. rewrite <- (filter_filter_impl is_fs is_other d is_fs_other).
    apply mapM_Forall2_fg.
    rewrite <- Iobjs in Apipe. pose proof (Forall2_with_in _ _ _ Apipe) as Ap.
    pose proof (Forall2_filter2 _ is_fs (fun ko : xid * lobj => negb (String.eqb (lo_type (snd ko)) T_NULL)) _ _ Ap) as Apf.
    assert (Hpq : forall (x : xelem) (y : xid * lobj),
              In x (filter is_other d) /\ In y objs2 /\
              (exists o o' o'', parse_fs pf s x = Ok o /\ post_obj pf s psofas fss o = Ok o' /\ conv_obj s sofas o' = Ok o'' /\ y = (lo_id o, fixP sofas o'')) ->
              is_fs x = negb (String.eqb (lo_type (snd y)) T_NULL)).
    { intros e ko (Hein & _ & o & o' & o'' & P1 & P2 & P3 & ->). cbn [snd]. rewrite fixP_type.
      destruct (Helx e Hein) as (ti & o1 & o1' & o1'' & Hf & _ & _ & Q1 & Q2 & Q3 & _ & _ & X0 & _ & T2 & _).
      assert (o1 = o) by congruence. subst o1. assert (o1' = o') by congruence. subst o1'. assert (o1'' = o'') by congruence. subst o1''.
      rewrite T2. destruct (Hclass e ti (lo_id o) Hein Hf X0) as (_ & E2 & _). exact E2. }
    specialize (Apf Hpq). pose proof (Forall2_with_in _ _ _ Apf) as Apf2.
    eapply Forall2_impl; [|exact Apf2]. intros e ko (Hefs & _ & Hein & _ & o & o' & o'' & P1 & P2 & P3 & ->). cbn [snd].
    apply filter_In in Hefs as [_ Hefs].
    destruct (Helx e Hein) as (ti & o1 & o1' & o1'' & Hf & Htb & Heb & Q1 & _ & _ & _ & _ & X0 & _ & _ & _).
    assert (o1 = o) by congruence. subst o1.
    destruct (Hclass e ti (lo_id o) Hein Hf X0) as (_ & _ & Htoe). specialize (Htoe Hefs).
    assert (Hin0 : In e (filter is_fs d)) by (apply filter_In; split; [apply filter_In in Hein; tauto|exact Hefs]).
    destruct (mapM_In_fwd _ _ _ e D3 Hin0) as ([i cf] & _ & Hde). rewrite Hde. symmetry.
    pose proof (ti_okb_ok _ _ Htb) as Hti. pose proof (elem_okb_ok s e ti Hf Heb) as Hek.
    destruct (Hsfp ti (sch_find_in _ _ _ Hf)) as [Hsf1 Hsf2].
    destruct (is_array_name (ti_name ti)) eqn:Earr.
    - apply (elem_final_arr pf s psofas sofas fss fviews objs2 dsofas Hderef e ti o o' o'' i cf Hf Htb Heb Htop Htoe Earr P1 P2 P3 Hde).
    - apply (elem_final pf s psofas sofas fss fviews objs2 dsofas Hderef Hps Hview Hconv Hnz e ti o o' o'' i cf Hf Hti Hek Hsf1 Hsf2 Htoe Earr P1 P2 P3 Hde). }
  (* views *)
  assert (Gso0 : mapM (fun kso => canon_view objs2 (snd (view_of dviews kso))) sofas = Ok (map (with_members dviews) dsofas)).
  { apply Forall2_mapM_gen. pose proof (Forall2_with_in _ _ _ Asd) as Asd'. eapply Forall2_impl; [|exact Asd'].
    intros [k so] c0 (Hin & _ & K & A1 & A2 & A3 & A4 & A5 & A6 & A7). cbn [fst snd] in *.
    unfold view_of, canon_view. cbn [snd lv_sofa lv_members lsofa_of ls_id ls_num ls_name ls_text ls_mime ls_uri ls_arr].
    assert (Hms : mapM (member_id objs2) (members_for dviews so) = Ok (members_for dviews so)).
    { apply mapM_id_list. intros m Hm. pose proof (Hready _ Hin) as Hr. cbn [fst snd] in Hr. rewrite Forall_forall in Hr.
      destruct (Hr m Hm) as (o & ti & Hz & _). exact (Hmid2 _ _ Hz). }
    rewrite Hms. cbn [bind].
    assert (Harr : (match ps_arrp so with Some k0 => do i <- member_id objs2 k0 ;; Ok (Some i) | None => Ok None end) = Ok (cs_arr c0)).
    { destruct (cs_arr c0) as [z|].
      - destruct A7 as (-> & o & Hz). destruct (Hfss1 _ _ Hz) as (o1 & Hz1). rewrite (Hmid2 _ _ Hz1). reflexivity.
      - rewrite A7. reflexivity. }
    rewrite Harr. cbn [bind]. unfold with_members. rewrite (members_of_zlookup dviews _ NDv).
    unfold members_for. rewrite A1, A2, A3, A4, A5, A6. reflexivity. }
  rewrite <- (mapM_map (fun nv => canon_view objs2 (snd nv)) (view_of dviews)) in Gso0.
  (* is there a sofa called _InitialView? *)
  assert (Enm : names sofas = map cs_name dsofas).
  { clear - Asd. induction Asd as [|kso c0 l1 l2 (_ & _ & _ & A3 & _) _ IH]; cbn [names map]; [reflexivity|]. rewrite A3. f_equal. exact IH. }
  assert (Hexd : existsb (fun c0 => String.eqb (cs_name c0) INITIAL) (sort_by cs_id (map (with_members dviews) dsofas)) = true <-> In INITIAL (names sofas)).
  { rewrite Enm, existsb_exists. split.
    - intros (c0 & Hin & He). apply String.eqb_eq in He. rewrite <- He.
      apply (Permutation_in _ (sort_by_is_perm cs_id _)) in Hin. apply in_map_iff in Hin as (c1 & <- & Hin). apply in_map_iff. exists c1. auto.
    - intros Hin. apply in_map_iff in Hin as (c1 & Hn1 & Hin). exists (with_members dviews c1). split.
      + apply (Permutation_in _ (Permutation_sym (sort_by_is_perm cs_id _))). apply in_map. exact Hin.
      + cbn [with_members cs_name]. rewrite Hn1. apply String.eqb_refl. }
  rewrite Hd0. cbn [res_map]. unfold with_initial. cbn [cc_sofas cc_fs].
  destruct (in_dec string_dec INITIAL (names sofas)) as [Hini|Hnini].
  - (* the document has the sofa _InitialView *)
    assert (Hex : existsb (fun kso => String.eqb (ps_name (snd kso)) INITIAL) psofas = true).
    { apply existsb_exists. rewrite Enp in Hini.
      apply in_map_iff in Hini as (so & Hn0 & Hin0). exists (ps_id so, so). split; [rewrite Epsofas; apply in_map_iff; exists so; auto|].
      cbn [snd]. rewrite Hn0. apply String.eqb_refl. }
    rewrite Hex in Hload. inversion Hload; subst c. clear Hload.
    pose proof (inv_final dviews objs1 sofas views objs2 HI0 NDn Hini) as Pviews.
    unfold canon_loaded. cbn [lc_views lc_objs]. rewrite (proj2 Hexd Hini).
    destruct (mapM_perm _ _ _ (Permutation_sym Pviews) _ Gso0) as (cs & Hcs & Pcs).
    rewrite Hcs. cbn [bind]. rewrite (Gfs views Ilook). cbn [bind]. f_equal. f_equal.
    symmetry. apply sort_by_perm; [exact Pcs|]. rewrite map_id_with_members. exact NDs'.
  - (* it has not: the pre-created view gets the next xmi:id and sofaNum *)
    assert (Hex : existsb (fun kso => String.eqb (ps_name (snd kso)) INITIAL) psofas = false).
    { apply not_true_is_false. intros Ht. apply Hnini. apply existsb_exists in Ht as ([k so] & Hin & He). rewrite Epsofas in Hin.
      apply in_map_iff in Hin as (so' & Heq & Hin). inversion Heq; subst k so'. apply String.eqb_eq in He. cbn [snd] in He.
      rewrite Enp, <- He. apply in_map. exact Hin. }
    set (iv := mkLv (mkLs (p_maxid st + 1) (p_maxnum st + 1) INITIAL None None None None) []).
    assert (Ec : c = mkLc (aset INITIAL iv views) objs2 (p_maxid st + 2) (p_maxnum st + 2) false).
    { rewrite Hex, (Iinit Hnini) in Hload. inversion Hload. reflexivity. }
    subst c. clear Hload.
    assert (FL : looks (aset INITIAL iv views)).
    { intros kso Hin. rewrite alookup_aset. destruct (String.eqb (ps_name (snd kso)) INITIAL) eqn:E; [|apply Ilook; exact Hin].
      apply String.eqb_eq in E. exfalso. apply Hnini. rewrite <- E. unfold names. apply (in_map (fun kso => ps_name (snd kso))). exact Hin. }
    pose proof (inv_final0 dviews objs1 sofas views objs2 iv HI0 NDn Hnini) as Pviews.
    (* the two generators *)
    destruct (pass1_max pf s d p1_init st Hp1 ps os S1 S3) as ((M1 & M2 & M3 & M4) & (N1 & N2 & N3)). cbn [p1_init p_maxid p_maxnum] in M1, M4, N1, N3.
    assert (Enums : map ps_num ps = map cs_num dsofas).
    { clear - Asof. induction Asof as [|so c ps' ds' (e & _ & H1 & H2) _ IH]; cbn [map]; [reflexivity|].
      destruct (parse_sofa_dec e so c H1 H2) as (_ & E & _). rewrite E, IH. reflexivity. }
    assert (Hos_id : forall o, In o os -> lo_id o = 0 \/ In (lo_id o) (map fst dfss)).
    { intros o Hino. destruct (Forall2_in_r _ _ _ o Aos Hino) as (e & Hein & Hpe).
      destruct (Helx e Hein) as (ti & o1 & o' & o'' & Hf & _ & _ & P1 & _ & _ & _ & _ & X0 & _). assert (o1 = o) by congruence. subst o1.
      destruct (Hclass e ti (lo_id o) Hein Hf X0) as (E1 & E2 & _). destruct (lo_id o =? 0) eqn:E0; [left; apply Z.eqb_eq; exact E0|right].
      rewrite E1 in E2. cbn [negb] in E2.
      assert (Hin0 : In e (filter is_fs d)) by (apply filter_In; split; [apply filter_In in Hein; tauto|exact E2]).
      destruct (mapM_In_fwd _ _ _ e D3 Hin0) as ([i' cf] & Hy & Hde). pose proof (dec_fs_id _ _ _ _ _ _ Hde) as Hx'. rewrite X0 in Hx'. inversion Hx'; subst i'.
      apply in_map_iff. exists (lo_id o, cf). auto. }
    assert (Hfs_id : forall i, In i (map fst dfss) -> exists o, In o os /\ lo_id o = i).
    { intros i Hi. apply in_map_iff in Hi as ([i' cf] & Hi' & Hin). cbn [fst] in Hi'. subst i'.
      destruct (mapM_In _ _ _ _ D3 Hin) as (e & Hein & Hde). pose proof (dec_fs_id _ _ _ _ _ _ Hde) as Hxe.
      apply filter_In in Hein as [Hed Hefs]. assert (Heo : In e (filter is_other d)) by (apply filter_In; split; [exact Hed|apply is_fs_other; exact Hefs]).
      destruct (Forall2_in_l _ _ _ e Aid Heo) as (o & Hino & Hx). exists o. split; [exact Hino|congruence]. }
    assert (Hsid : forall i, In i (map cs_id (sort_by cs_id (map (with_members dviews) dsofas))) <-> In i (map ps_id ps)).
    { intros i. rewrite Eids, <- (map_id_with_members dviews dsofas). split; apply Permutation_in; [|apply Permutation_sym]; apply Permutation_map, sort_by_is_perm. }
    assert (Hfid : forall i, In i (map fst (sort_by fst dfss)) <-> In i (map fst dfss)).
    { intros i. split; apply Permutation_in; [|apply Permutation_sym]; apply Permutation_map, sort_by_is_perm. }
    assert (Emax : zmax_list (map cs_id (sort_by cs_id (map (with_members dviews) dsofas)) ++ map fst (sort_by fst dfss)) = p_maxid st).
    { apply zmax_list_char; [exact M1| |].
      - intros x Hx. apply in_app_or in Hx as [Hx|Hx].
        + apply Hsid in Hx. apply in_map_iff in Hx as (so & <- & Hso). apply M2. exact Hso.
        + apply Hfid in Hx. destruct (Hfs_id x Hx) as (o & Hino & <-). apply M3. exact Hino.
      - destruct M4 as [M4|[M4|M4]]; [left; exact M4| |].
        + right. apply in_or_app. left. apply Hsid. exact M4.
        + apply in_map_iff in M4 as (o & Ho & Hino). destruct (Hos_id o Hino) as [Hz|Hz]; [left; congruence|].
          right. apply in_or_app. right. apply Hfid. rewrite <- Ho. exact Hz. }
    assert (Enum : zmax_list (map cs_num (sort_by cs_id (map (with_members dviews) dsofas))) = p_maxnum st).
    { assert (Hnid : forall i, In i (map cs_num (sort_by cs_id (map (with_members dviews) dsofas))) <-> In i (map ps_num ps)).
      { intros i. rewrite Enums. replace (map cs_num dsofas) with (map cs_num (map (with_members dviews) dsofas)) by (rewrite map_map; reflexivity).
        split; apply Permutation_in; [|apply Permutation_sym]; apply Permutation_map, sort_by_is_perm. }
      apply zmax_list_char; [exact N1| |].
      - intros x Hx. apply Hnid in Hx. apply in_map_iff in Hx as (so & <- & Hso). apply N2. exact Hso.
      - destruct N3 as [N3|N3]; [left; exact N3|right; apply Hnid; exact N3]. }
    assert (Hexd' : existsb (fun c0 => String.eqb (cs_name c0) INITIAL) (sort_by cs_id (map (with_members dviews) dsofas)) = false).
    { apply not_true_is_false. intros Ht. apply Hnini. apply Hexd. exact Ht. }
    rewrite Hexd'.
    match goal with |- context [mkCsofa (zmax_list ?L1 + 1) (zmax_list ?L2 + 1)] =>
      replace (zmax_list L1) with (p_maxid st) by (symmetry; exact Emax);
      replace (zmax_list L2) with (p_maxnum st) by (symmetry; exact Enum) end.
    unfold canon_loaded. cbn [lc_views lc_objs].
    assert (Gso1 : mapM (fun nv => canon_view objs2 (snd nv)) ((INITIAL, iv) :: map (view_of dviews) sofas)
                   = Ok (mkCsofa (p_maxid st + 1) (p_maxnum st + 1) INITIAL None None None None [] :: map (with_members dviews) dsofas)).
    { cbn [mapM]. rewrite Gso0. reflexivity. }
    destruct (mapM_perm _ _ _ (Permutation_sym Pviews) _ Gso1) as (cs & Hcs & Pcs).
    rewrite Hcs. cbn [bind]. rewrite (Gfs _ FL). cbn [bind]. f_equal. f_equal.
    symmetry. apply sort_by_perm.
    + eapply Permutation_trans; [|exact Pcs]. constructor. apply sort_by_is_perm.
    + cbn [map cs_id]. constructor.
      * intros Hin. apply Hsid in Hin. apply in_map_iff in Hin as (so & Hso & Hin). specialize (M2 so Hin). lia.
      * eapply Permutation_NoDup; [|exact NDs'].
        rewrite <- (map_id_with_members dviews dsofas). apply Permutation_map, Permutation_sym, sort_by_is_perm.
Qed.

(* reader_okb = reader_okb0 + the document has the sofa _InitialView *)
Lemma reader_okb_split s d : reader_okb pf s d = reader_okb0 pf s d && memb INITIAL (map sofa_name (filter is_sofa d)).
Proof.
  unfold reader_okb, reader_okb0, sofas_okb, sofas_nodupb.
  destruct (doc_ok_xmi pf s d), (schema_okb s), (sofa_feat_okb s), (names_okb d), (forallb (elem_okb s) (filter is_other d)),
    (nodup_sb (map sofa_name (filter is_sofa d))), (memb INITIAL (map sofa_name (filter is_sofa d))), (members_okb s d), (other_ids_okb d); reflexivity.
Qed.
Lemma with_initial_id cc : existsb (fun c => String.eqb (cs_name c) INITIAL) (cc_sofas cc) = true -> with_initial cc = cc.
Proof. intros H. unfold with_initial. rewrite H. reflexivity. Qed.
Lemma denote_has_initial s d cc : denote_xmi pf s d = Ok cc -> memb INITIAL (map sofa_name (filter is_sofa d)) = true ->
  existsb (fun c => String.eqb (cs_name c) INITIAL) (cc_sofas cc) = true.
Proof.
  intros Hd Hm. apply denote_unfold in Hd as (dsofas & dviews & dfss & D1 & _ & _ & ->). cbn [cc_sofas].
  apply memb_In in Hm. apply in_map_iff in Hm as (e & Hn & Hin). unfold doc_sofas in D1.
  destruct (mapM_In_fwd _ _ _ e D1 Hin) as (c0 & Hc0 & Hde). apply existsb_exists. exists (with_members dviews c0). split.
  - apply (Permutation_in _ (Permutation_sym (sort_by_is_perm cs_id _))). apply in_map. exact Hc0.
  - cbn [with_members cs_name]. unfold dec_sofa in Hde. apply bind_ok in Hde as (i & _ & Hde). apply bind_ok in Hde as (num & _ & Hde).
    unfold sofa_name in Hn. destruct (xattr e "sofaID") as [name|]; cbn [bind] in Hde; [|discriminate].
    apply bind_ok in Hde as (txt & _ & Hde). apply bind_ok in Hde as (arr & _ & Hde). inversion Hde; subst c0. cbn [cs_name]. rewrite Hn. apply String.eqb_refl.
Qed.
Theorem load_xmi_is_denotation s d c :
  reader_okb pf s d = true -> load_xmi pf s false d = Ok c -> canon_loaded s c = denote_xmi pf s d.
Proof.
  intros Hok Hload. rewrite reader_okb_split in Hok. apply andb_true_iff in Hok as [Hok Hini].
  rewrite (load_xmi_is_denotation_gen s d c Hok Hload).
  assert (Hd : doc_ok_xmi pf s d = true) by (unfold reader_okb0 in Hok; rewrite !andb_true_iff in Hok; tauto).
  apply doc_ok_unfold in Hd as (nulls & dviews & cc & _ & _ & Hd & _). rewrite Hd. cbn [res_map].
  rewrite (with_initial_id cc (denote_has_initial s d cc Hd Hini)). reflexivity.
Qed.
End Global.

(* the reader does not depend on the presentation of the document *)
Corollary load_order_independent pf s d d' c c' :
  reader_okb pf s d = true -> reader_okb pf s d' = true -> attrs_nodupb d = true -> presentation_equiv d d' ->
  load_xmi pf s false d = Ok c -> load_xmi pf s false d' = Ok c' -> canon_loaded s c' = canon_loaded s c.
Proof.
  intros H1 H2 Ha He L1 L2. rewrite (load_xmi_is_denotation pf s d c H1 L1), (load_xmi_is_denotation pf s d' c' H2 L2).
  assert (Hd : doc_ok_xmi pf s d = true).
  { unfold reader_okb in H1. rewrite !andb_true_iff in H1. tauto. }
  destruct (denote_xmi_presentation_invariant pf s d d' Hd Ha He) as (E & _). exact E.
Qed.
