(* XmiLoadProofs2.v — C05, part 6: the global assembly of load_xmi_is_denotation: what the later stages (offset
   conversion, view creation with member insertion and re-pointing of sofa references) do to each object, the objects
   and views of the loaded CAS listed against the elements of the document, and the theorem itself. *)
From Coq Require Import Ascii ZifyBool.
From Cassis Require Import Base Offsets OffsetsProofs.
From Cassis Require Import Heap Schema Canon Lex LexProofs XmiDoc XmiLoad XmiLoadProofs.
Open Scope Z_scope.
Open Scope list_scope.

Lemma mapM_Forall2_of {A B} (f : A -> res B) l r : mapM f l = Ok r -> Forall2 (fun x y => f x = Ok y) l r.
Proof.
  revert r; induction l as [|x l IH]; intros r H.
  - cbn in H. inversion H. constructor.
  - apply mapM_cons_ok in H as (y & ys & Hy & Hys & ->). constructor; [exact Hy|apply IH; exact Hys].
Qed.
Lemma mapM_pointwise {A B} (f g : A -> res B) l r :
  mapM f l = Ok r -> (forall x y, In x l -> f x = Ok y -> g x = Ok y) -> mapM g l = Ok r.
Proof.
  revert r; induction l as [|x l IH]; intros r H Hp.
  - cbn in *. exact H.
  - apply mapM_cons_ok in H as (y & ys & Hy & Hys & ->). cbn [mapM]. rewrite (Hp x y (or_introl eq_refl) Hy). cbn [bind].
    rewrite (IH ys Hys); [reflexivity|]. intros x' y' Hin. apply Hp. right. exact Hin.
Qed.

(* ---- what offset conversion and sofa re-pointing do to the slots ---- *)
Lemma lslot_lset_other o n v k : String.eqb k n = false -> lslot (lset o n v) k = lslot o k.
Proof. intros H. unfold lslot, lset. cbn [lo_slots]. rewrite alookup_aset, H. reflexivity. Qed.
Lemma lslot_lset_same o n v : lslot (lset o n v) n = v.
Proof. unfold lslot, lset. cbn [lo_slots]. rewrite alookup_aset, String.eqb_refl. reflexivity. Qed.
Lemma alookup_lset_other o n v k : String.eqb k n = false -> alookup k (lo_slots (lset o n v)) = alookup k (lo_slots o).
Proof. intros H. unfold lset. cbn [lo_slots]. rewrite alookup_aset, H. reflexivity. Qed.

Lemma conv_obj_spec s sofas o o' : conv_obj s sofas o = Ok o' ->
  lo_type o' = lo_type o /\ lo_id o' = lo_id o /\
  alookup "sofa" (lo_slots o') = alookup "sofa" (lo_slots o) /\
  (forall n, String.eqb n "begin" = false -> String.eqb n "end" = false -> lslot o' n = lslot o n) /\
  (isa s (lo_type o) T_ANNOTATION = false -> o' = o) /\
  (forall k, isa s (lo_type o) T_ANNOTATION = true -> lslot o "sofa" = LSofa k ->
     exists so, zlookup k sofas = Some so /\
       lslot o' "begin" = conv_slot (ps_text so) (lslot o "begin") /\ lslot o' "end" = conv_slot (ps_text so) (lslot o "end")).
Proof.
  unfold conv_obj. destruct (isa s (lo_type o) T_ANNOTATION) eqn:Ea.
  - destruct (lslot o "sofa") eqn:Es; try discriminate.
    + intros H. inversion H; subst o'. repeat split; auto. intros; discriminate.
    + destruct (zlookup k sofas) as [so|] eqn:El; [|discriminate]. intros H. inversion H; subst o'. clear H.
      split; [reflexivity|]. split; [reflexivity|]. split.
      { rewrite !alookup_lset_other by reflexivity. reflexivity. }
      split.
      { intros n H1 H2. rewrite !lslot_lset_other by assumption. reflexivity. }
      split; [discriminate|]. intros k0 _ Hk. inversion Hk; subst k0. exists so. split; [exact El|]. split.
      * rewrite lslot_lset_other by reflexivity. rewrite lslot_lset_same. reflexivity.
      * rewrite lslot_lset_same. reflexivity.
  - intros H. inversion H; subst o'. repeat split; auto. intros; discriminate.
Qed.
Lemma fixP_slot_other P o n : String.eqb n "sofa" = false -> lslot (fixP P o) n = lslot o n.
Proof.
  intros H. unfold fixP. destruct (alookup "sofa" (lo_slots o)) as [[]|]; try reflexivity.
  destruct (zlookup k P); [|reflexivity]. apply lslot_lset_other. exact H.
Qed.
Lemma fixP_slot_sofa P o k so : alookup "sofa" (lo_slots o) = Some (LSofa k) -> zlookup k P = Some so ->
  lslot (fixP P o) "sofa" = LVSofa (ps_name so).
Proof. intros H1 H2. unfold fixP. rewrite H1, H2. apply lslot_lset_same. Qed.
Lemma fixP_no_sofa P o : alookup "sofa" (lo_slots o) = None -> fixP P o = o.
Proof. intros H. unfold fixP. rewrite H. reflexivity. Qed.

Lemma pyname_plain x c : String.eqb c "self_" = false -> String.eqb c "type_" = false -> pyname x = c -> x = c.
Proof.
  unfold pyname. intros H1 H2. destruct (String.eqb x "self") eqn:A1; [apply String.eqb_eq in A1; subst x; cbn; intros <-; discriminate|].
  destruct (String.eqb x "type") eqn:A2; [apply String.eqb_eq in A2; subst x; cbn; intros <-; discriminate|]. cbn [orb]. auto.
Qed.
Lemma lslot_alookup o n v : lslot o n = v -> v <> LNone -> alookup n (lo_slots o) = Some v.
Proof. unfold lslot. destruct (alookup n (lo_slots o)); intros H Hn; subst; [reflexivity|contradiction]. Qed.

Lemma parse_fs_head pf s e ti o :
  sch_find s (reader_tname (x_ns e) (x_tag e)) = Some ti -> elem_ok s ti e -> parse_fs pf s e = Ok o ->
  lo_type o = ti_name ti /\ x_id e = Ok (lo_id o) /\ map fst (lo_slots o) = map fd_name (ti_feats ti).
Proof.
  intros Hfind Hel Hparse.
  pose proof (a0_lookup e A_ID (ek_nodup _ _ _ Hel) (ek_attrs _ _ _ Hel) (kids_reserved _ _ _ Hel) eq_refl) as [_ Lid].
  cbv zeta in Lid. rewrite (kids_no_id _ _ _ Hel) in Lid. change (pyname A_ID) with A_ID in Lid.
  unfold parse_fs, parse_fs_with, get_type_exact in Hparse. rewrite Hfind in Hparse. cbn [bind] in Hparse.
  apply bind_ok in Hparse as (i & Hi & Hparse). apply bind_ok in Hparse as (a2 & Ha2 & Hparse).
  apply bind_ok in Hparse as (a3 & Ha3 & Hparse). unfold mk_obj in Hparse. destruct (forallb _ a3); [|discriminate].
  inversion Hparse; subst o. cbn [lo_type lo_id lo_slots]. split; [reflexivity|]. split.
  - rewrite Lid in Hi. unfold x_id. destruct (xattr e A_ID) as [a|]; cbn [option_map] in Hi; [exact Hi|discriminate].
  - rewrite map_map. reflexivity.
Qed.
Lemma post_obj_head pf s sofas fss o o' ti : post_obj pf s sofas fss o = Ok o' -> sch_find s (lo_type o) = Some ti ->
  lo_type o' = lo_type o /\ lo_id o' = lo_id o /\ map fst (lo_slots o') = map fd_name (ti_feats ti).
Proof.
  unfold post_obj. intros H Hf. rewrite Hf in H. apply bind_ok in H as (sl & Hsl & H). inversion H; subst o'. cbn [lo_type lo_id lo_slots].
  split; [reflexivity|split; [reflexivity|]]. clear H. revert sl Hsl. induction (ti_feats ti) as [|f r IH]; intros sl Hsl.
  - cbn in Hsl. inversion Hsl. reflexivity.
  - apply mapM_cons_ok in Hsl as (y & ys & Hy & Hys & ->). apply bind_ok in Hy as (v & _ & Hy). inversion Hy; subst y.
    cbn [map fst]. rewrite (IH ys Hys). reflexivity.
Qed.

Section Final.
Variable pf : string -> option flt.
Variable s : schema.
Variables (psofas sofas : list (xid * psofa)) (fss : list (xid * lobj)) (views : list (string * lview)) (objs2 : list (xid * lobj)).
Variable dsofas : list csofa.
Hypothesis Hderef : deref_ok fss objs2.
Hypothesis Hps : forall i so0, zlookup i psofas = Some so0 -> exists so, zlookup i sofas = Some so.
Hypothesis Hview : forall i so, zlookup i sofas = Some so -> exists w, alookup (ps_name so) views = Some w /\ ls_id (lv_sofa w) = i.
Hypothesis Hconv : forall e a i so, xattr e "sofa" = Some a -> s2z a = Some i -> zlookup i sofas = Some so ->
                                     forall z, conv_of dsofas e z = conv_z (ps_text so) z.
Hypothesis Hnz : zlookup 0 psofas = None.

Lemma dec_feature_noconv conv is_ann e fd :
  is_ann && (String.eqb (fd_xname fd) "begin" || String.eqb (fd_xname fd) "end") = false ->
  dec_feature pf s conv is_ann e fd = dec_feature pf s (fun z => z) false e fd.
Proof.
  intros H. unfold dec_feature. destruct (fkind_of s fd); try reflexivity. destruct (xattr e (fd_xname fd)); [|reflexivity].
  rewrite H. cbn [andb]. reflexivity.
Qed.

Lemma isa_anc ti X : sch_find s (ti_name ti) = Some ti -> isa s (ti_name ti) X = memb X (ti_anc ti).
Proof. intros H. unfold isa, sch_anc. rewrite H. reflexivity. Qed.

Lemma feat_final e ti o o' o'' fd v :
  sch_find s (reader_tname (x_ns e) (x_tag e)) = Some ti -> ti_ok s ti -> elem_ok s ti e ->
  (has_feat ti "sofa" = true -> memb T_ANNOTATION_BASE (ti_anc ti) = true) ->
  (memb T_ANNOTATION (ti_anc ti) = true -> has_feat ti "sofa" = true) ->
  is_array_name (ti_name ti) = false ->
  parse_fs pf s e = Ok o -> post_obj pf s psofas fss o = Ok o' -> conv_obj s sofas o' = Ok o'' ->
  In fd (ti_feats ti) ->
  dec_feature pf s (conv_of dsofas e) (isa s (ti_name ti) T_ANNOTATION) e fd = Ok v ->
  cv views objs2 (lslot (fixP sofas o'') (fd_name fd)) = Ok v.
Proof.
  intros Hfind Hti Hel Hsf Hsa Harr Hparse Hpost Hconvo Hin Hdec.
  pose proof (sch_find_name _ _ _ Hfind) as Hname.
  assert (Hfind' : sch_find s (ti_name ti) = Some ti) by (rewrite Hname; exact Hfind).
  rewrite (isa_anc ti _ Hfind') in Hdec.
  destruct (parse_fs_slot pf s e ti o fd Hfind Hti Hel Harr Hparse Hin) as (Ht0 & _ & Hslot).
  assert (Hf0 : sch_find s (lo_type o) = Some ti) by (rewrite Ht0; exact Hfind').
  destruct (post_obj_slots pf s psofas fss o o' ti fd Hpost Hf0 (tk_nodup _ _ Hti) Hin) as (Ht1 & _ & v1 & Hv1 & Hs1).
  destruct (conv_obj_spec s sofas o' o'' Hconvo) as (Ct & Ci & Cs & Cother & Cnot & Cann).
  destruct (tk_feat _ _ Hti fd Hin) as (Hpy & Hres & Hnid).
  unfold slot_rel in Hslot.
  destruct (String.eqb (fd_name fd) "sofa" && memb T_ANNOTATION_BASE (ti_anc ti)) eqn:Hsb.
  - (* the sofa reference of an annotation *)
    apply andb_true_iff in Hsb as [Hn Hbase]. apply String.eqb_eq in Hn.
    destruct Hslot as [Hkids Hslot].
    pose proof (tk_base _ _ Hti Hbase fd Hin Hn) as Hkind.
    unfold dec_feature in Hdec. rewrite Hkind in Hdec.
    assert (Hpf : forall v0, post_feature pf s psofas fss ti fd v0 =
                    match v0 with LInt i => match zlookup i psofas with Some _ => Ok (LSofa i) | None => Err EKey end | _ => Err EKey end).
    { intros v0. unfold post_feature. rewrite Hn, Hbase. reflexivity. }
    rewrite Hpf in Hv1. clear Hpf.
    destruct (xattr e (fd_xname fd)) as [a|] eqn:Hattr.
    + destruct Hslot as (z & Hz & Hl). rewrite Hl in Hv1. destruct (zlookup z psofas) as [so0|] eqn:Ez; [|discriminate].
      injection Hv1 as Hv1'. rewrite <- Hv1' in Hs1. destruct (Hps _ _ Ez) as (so & Eso). destruct (Hview _ _ Eso) as (w & Hw & Hwid).
      assert (Hs2 : alookup "sofa" (lo_slots o'') = Some (LSofa z)).
      { rewrite Cs. rewrite Hn in Hs1. apply lslot_alookup; [exact Hs1|discriminate]. }
      rewrite Hn, (fixP_slot_sofa sofas o'' z so Hs2 Eso). cbn [cv]. rewrite Hw, Hwid.
      unfold dec_id in Hdec. rewrite Hz in Hdec. destruct z; [rewrite Hnz in Ez; discriminate|exact Hdec|exact Hdec].
    + rewrite Hslot in Hv1. discriminate.
  - (* every other feature *)
    assert (Hns : String.eqb (fd_name fd) "sofa" = false).
    { destruct (String.eqb (fd_name fd) "sofa") eqn:E; [|reflexivity]. exfalso. apply String.eqb_eq in E.
      assert (Hb : memb T_ANNOTATION_BASE (ti_anc ti) = true).
      { apply Hsf. unfold has_feat. rewrite <- E. rewrite (fd_find_in _ _ (tk_nodup _ _ Hti) Hin). reflexivity. }
      rewrite Hb in Hsb. discriminate. }
    rewrite (fixP_slot_other sofas o'' _ Hns).
    assert (Hord : ordinary ti) by (apply (ordinary_of_ok s); assumption).
    destruct (memb T_ANNOTATION (ti_anc ti) && (String.eqb (fd_xname fd) "begin" || String.eqb (fd_xname fd) "end")) eqn:Hbe.
    + (* an offset of an annotation *)
      apply andb_true_iff in Hbe as [Hann Hx].
      assert (Hxn : fd_name fd = fd_xname fd).
      { rewrite Hpy. unfold pyname. apply orb_true_iff in Hx as [Hx|Hx]; apply String.eqb_eq in Hx; rewrite Hx; reflexivity. }
      assert (Hbe' : fd_name fd = "begin" \/ fd_name fd = "end").
      { rewrite Hxn. apply orb_true_iff in Hx as [Hx|Hx]; apply String.eqb_eq in Hx; auto. }
      pose proof (tk_be _ _ Hti Hann fd Hin Hbe') as Hkind.
      pose proof (tk_ann _ _ Hti Hann) as Hbase.
      (* the sofa slot of this annotation *)
      assert (Hsofa : exists k so, lslot o' "sofa" = LSofa k /\ zlookup k sofas = Some so /\
                                   exists a, xattr e "sofa" = Some a /\ s2z a = Some k).
      { pose proof (Hsa Hann) as Hhf. unfold has_feat in Hhf. destruct (fd_find (ti_feats ti) "sofa") as [fds|] eqn:Ef; [|discriminate].
        assert (Hfds : In fds (ti_feats ti) /\ fd_name fds = "sofa").
        { clear - Ef. induction (ti_feats ti) as [|f r IH]; cbn [fd_find] in Ef; [discriminate|].
          destruct (String.eqb "sofa" (fd_name f)) eqn:E; [inversion Ef; subst; apply String.eqb_eq in E; split; [left; reflexivity|auto]|].
          destruct (IH Ef) as [A B]. split; [right; exact A|exact B]. }
        destruct Hfds as [Hins Hns'].
        destruct (tk_feat _ _ Hti fds Hins) as (Hpys & _ & _).
        assert (Hxs : fd_xname fds = "sofa") by (apply pyname_plain; [reflexivity|reflexivity|rewrite <- Hpys; exact Hns']).
        destruct (parse_fs_slot pf s e ti o fds Hfind Hti Hel Harr Hparse Hins) as (_ & _ & Hslots).
        unfold slot_rel in Hslots. rewrite Hns', Hbase in Hslots. cbn [String.eqb andb] in Hslots.
        change (String.eqb "sofa" "sofa") with true in Hslots. cbv iota in Hslots. rewrite Hxs in Hslots. destruct Hslots as [_ Hslots].
        destruct (post_obj_slots pf s psofas fss o o' ti fds Hpost Hf0 (tk_nodup _ _ Hti) Hins) as (_ & _ & vs & Hvs & Hss).
        rewrite Hns' in Hvs, Hss.
        assert (Hpf : forall v0, post_feature pf s psofas fss ti fds v0 =
                        match v0 with LInt i => match zlookup i psofas with Some _ => Ok (LSofa i) | None => Err EKey end | _ => Err EKey end).
        { intros v0. unfold post_feature. rewrite Hns', Hbase. reflexivity. }
        rewrite Hpf in Hvs.
        destruct (xattr e "sofa") as [a|]; [|rewrite Hslots in Hvs; discriminate].
        destruct Hslots as (z & Hz & Hl). rewrite Hl in Hvs. destruct (zlookup z psofas) as [so0|] eqn:Ez; [|discriminate].
        injection Hvs as Hvs'. destruct (Hps _ _ Ez) as (so & Eso). exists z, so. split; [rewrite Hss, <- Hvs'; reflexivity|].
        split; [exact Eso|]. exists a. auto. }
      destruct Hsofa as (k & so & Hls & Hzk & a0 & Ha0 & Hza0).
      pose proof Hann as Hann0. rewrite <- (isa_anc ti _ Hfind'), <- Ht0, <- Ht1 in Hann.
      destruct (Cann k Hann Hls) as (so' & Hzk' & Cb & Ce). rewrite Hzk in Hzk'. inversion Hzk'; subst so'.
      (* the slot after pass 2 is an integer or None *)
      unfold fkind_of in Hkind. destruct (prim_of s (fd_range fd)) as [p|] eqn:Hprim; [|destruct (fd_multi fd); [discriminate|destruct (coll_kind (fd_range fd)) as [kk|] eqn:Hck; [destruct (coll_kind_shape _ _ Hck) as [->|[->|[->|(p0 & ->)]]]; discriminate|discriminate]]].
      injection Hkind as Hpk.
      rewrite (post_sel_prim pf s psofas fss ti fd _ Hord Hsb) in Hv1 by (rewrite prim_of_is_primitive, Hprim; reflexivity).
      unfold dec_feature, fkind_of in Hdec. rewrite Hprim, Hpk in Hdec. rewrite Hx, Hann0 in Hdec. cbn [andb] in Hdec.
      unfold proto_rel in Hslot.
      destruct (xkids e (fd_xname fd)) as [|k0 kr].
      2:{ destruct Hslot as [Hk _]. unfold fkind_of in Hk. rewrite Hprim in Hk. discriminate. }
      assert (Hfin : lslot o'' (fd_name fd) = conv_slot (ps_text so) v1).
      { destruct Hbe' as [E|E]; rewrite E in *; [rewrite Cb|rewrite Ce]; rewrite Hs1; reflexivity. }
      rewrite Hfin.
      destruct (xattr e (fd_xname fd)) as [a|].
      * apply bind_ok in Hdec as (c0 & Hc0 & Hdec). unfold dec_prim in Hc0. destruct (s2z a) as [z|] eqn:Hz; [|discriminate].
        injection Hc0 as <-. injection Hdec as <-.
        assert (Hv1' : v1 = LInt z).
        { unfold parse_prim_value in Hv1. rewrite Hprim, Hpk in Hv1.
          destruct Hslot as [Hl|(z' & Hz' & Hl & _)]; rewrite Hl in Hv1.
          - unfold conv_int in Hv1. rewrite Hz in Hv1. injection Hv1 as <-. reflexivity.
          - injection Hz' as Hzz. subst z'. injection Hv1 as <-. reflexivity. }
        rewrite Hv1'. cbn [conv_slot cv]. rewrite (Hconv e a0 k so Ha0 Hza0 Hzk). reflexivity.
      * rewrite Hslot in Hv1. cbn in Hv1. injection Hv1 as <-. injection Hdec as <-. reflexivity.
    + (* anything else: pass 1 and pass 2 alone *)
      rewrite (dec_feature_noconv _ _ e fd Hbe) in Hdec.
      assert (Hsl : lslot o'' (fd_name fd) = v1).
      { destruct (isa s (lo_type o') T_ANNOTATION) eqn:Eann; [|rewrite (Cnot eq_refl); exact Hs1].
        rewrite Ht1, Ht0, (isa_anc ti _ Hfind') in Eann. rewrite Eann in Hbe. cbn [andb] in Hbe. apply orb_false_iff in Hbe as [B1 B2].
        rewrite Cother; [exact Hs1| |].
        - destruct (String.eqb (fd_name fd) "begin") eqn:E; [|reflexivity]. apply String.eqb_eq in E. rewrite Hpy in E.
          apply pyname_plain in E; [rewrite E in B1; discriminate|reflexivity|reflexivity].
        - destruct (String.eqb (fd_name fd) "end") eqn:E; [|reflexivity]. apply String.eqb_eq in E. rewrite Hpy in E.
          apply pyname_plain in E; [rewrite E in B2; discriminate|reflexivity|reflexivity]. }
      rewrite Hsl. eapply (post_feature_dec pf s psofas fss views objs2 Hderef ti fd e); eauto.
Qed.

Theorem elem_final e ti o o' o'' i cf :
  sch_find s (reader_tname (x_ns e) (x_tag e)) = Some ti -> ti_ok s ti -> elem_ok s ti e ->
  (has_feat ti "sofa" = true -> memb T_ANNOTATION_BASE (ti_anc ti) = true) ->
  (memb T_ANNOTATION (ti_anc ti) = true -> has_feat ti "sofa" = true) ->
  type_of_elem (x_ns e) (x_tag e) = Some (reader_tname (x_ns e) (x_tag e)) ->
  is_array_name (ti_name ti) = false ->
  parse_fs pf s e = Ok o -> post_obj pf s psofas fss o = Ok o' -> conv_obj s sofas o' = Ok o'' ->
  dec_fs pf s dsofas e = Ok (i, cf) ->
  canon_obj s views objs2 (fixP sofas o'') = Ok (i, cf).
Proof.
  intros Hfind Hti Hel Hsf Hsa Htoe Harr Hparse Hpost Hconvo Hdec.
  pose proof (sch_find_name _ _ _ Hfind) as Hname.
  assert (Hfind' : sch_find s (ti_name ti) = Some ti) by (rewrite Hname; exact Hfind).
  (* the denotation of the element *)
  unfold dec_fs in Hdec. apply bind_ok in Hdec as (i' & Hid & Hdec). rewrite Htoe, Hfind in Hdec.
  rewrite <- Hname in Hdec. rewrite Harr in Hdec. apply bind_ok in Hdec as (fs & Hfs & Hdec). inversion Hdec; subst i' cf. clear Hdec.
  (* the object *)
  destruct (parse_fs_head pf s e ti o Hfind Hel Hparse) as (Ht0 & Hi0 & Hk0).
  assert (Hf0 : sch_find s (lo_type o) = Some ti) by (rewrite Ht0; exact Hfind').
  destruct (post_obj_head pf s psofas fss o o' ti Hpost Hf0) as (Ht1 & Hi1 & Hk1).
  destruct (conv_obj_spec s sofas o' o'' Hconvo) as (Ct & Ci & Cs & Cother & Cnot & Cann).
  rewrite Hid in Hi0. inversion Hi0 as [Hi0']. clear Hi0.
  unfold canon_obj. rewrite fixP_type, Ct, Ht1, Ht0, Hfind', fixP_id, Ci, Hi1, <- Hi0'.
  match goal with |- (do fs0 <- ?M ;; _) = _ => assert (HM : M = Ok fs) end.
  2:{ rewrite HM. reflexivity. }
  apply (mapM_pointwise _ _ _ _ Hfs). intros fd y Hin Hy. apply bind_ok in Hy as (v & Hv & Hy).
  rewrite (feat_final e ti o o' o'' fd v Hfind Hti Hel Hsf Hsa Harr Hparse Hpost Hconvo Hin Hv). exact Hy.
Qed.
End Final.

Lemma array_coll_kind n : is_array_name n = true -> exists k, coll_kind n = Some k.
Proof.
  intros H. destruct (coll_cases n) as [Hr|[Hr|[Hr|[Hr|[Hr|[Hr|[Hr|[Hr|[Hr|[Hr|[Hr|[Hr|[Hr|(Hr & Ha & _ & Hf & _)]]]]]]]]]]]]];
    try (subst n; eexists; vm_compute; reflexivity).
  unfold is_array_name in H. rewrite Ha, Hf in H. discriminate.
Qed.

Section FinalArr.
Variable pf : string -> option flt.
Variable s : schema.
Variables (psofas sofas : list (xid * psofa)) (fss : list (xid * lobj)) (views : list (string * lview)) (objs2 : list (xid * lobj)).
Variable dsofas : list csofa.
Hypothesis Hderef : deref_ok fss objs2.

Theorem elem_final_arr e ti o o' o'' i cf :
  sch_find s (reader_tname (x_ns e) (x_tag e)) = Some ti -> ti_okb s ti = true -> elem_okb s e = true ->
  is_primitive s T_TOP = false ->
  type_of_elem (x_ns e) (x_tag e) = Some (reader_tname (x_ns e) (x_tag e)) ->
  is_array_name (ti_name ti) = true ->
  parse_fs pf s e = Ok o -> post_obj pf s psofas fss o = Ok o' -> conv_obj s sofas o' = Ok o'' ->
  dec_fs pf s dsofas e = Ok (i, cf) ->
  canon_obj s views objs2 (fixP sofas o'') = Ok (i, cf).
Proof.
  intros Hfind Htib Helb Htop Htoe Harr Hparse Hpost Hconvo Hdec.
  pose proof (ti_okb_ok _ _ Htib) as Hti. pose proof (elem_okb_ok s e ti Hfind Helb) as Hel.
  pose proof (sch_find_name _ _ _ Hfind) as Hname.
  assert (Hfind' : sch_find s (ti_name ti) = Some ti) by (rewrite Hname; exact Hfind).
  destruct (tk_arr _ _ Hti Harr) as (fd & Hfeats & Hn & Hx & Hr).
  destruct (array_coll_kind _ Harr) as (k & Hk).
  unfold dec_fs in Hdec. apply bind_ok in Hdec as (i' & Hid & Hdec). rewrite Htoe, Hfind in Hdec.
  rewrite <- Hname in Hdec. rewrite Harr, Hk in Hdec. apply bind_ok in Hdec as (oc & Hoc & Hdec). inversion Hdec; subst i' cf. clear Hdec.
  destruct (parse_fs_head pf s e ti o Hfind Hel Hparse) as (Ht0 & Hi0 & Hk0).
  assert (Hf0 : sch_find s (lo_type o) = Some ti) by (rewrite Ht0; exact Hfind').
  destruct (post_obj_head pf s psofas fss o o' ti Hpost Hf0) as (Ht1 & Hi1 & Hk1).
  assert (Hin : In fd (ti_feats ti)) by (rewrite Hfeats; left; reflexivity).
  destruct (post_obj_slots pf s psofas fss o o' ti fd Hpost Hf0 (tk_nodup _ _ Hti) Hin) as (_ & _ & v1 & Hv1 & Hs1).
  destruct (conv_obj_spec s sofas o' o'' Hconvo) as (Ct & Ci & Cs & Cother & Cnot & Cann).
  rewrite Hid in Hi0. inversion Hi0 as [Hi0']. clear Hi0.
  unfold canon_obj. rewrite fixP_type, Ct, Ht1, Ht0, Hfind', fixP_id, Ci, Hi1, <- Hi0'. rewrite Hfeats. cbn [mapM map].
  rewrite Hn, Hx. rewrite (fixP_slot_other sofas o'' "elements" eq_refl), (Cother "elements" eq_refl eq_refl).
  rewrite Hn in Hs1. rewrite Hs1.
  rewrite (reader_elements_is_denotation pf s psofas fss views objs2 e ti o fd k v1 oc Hfind Htib Helb Htop Harr Hk Hfeats Hderef Hparse Hv1 Hoc).
  cbn [bind]. change (String.eqb "elements" "elements") with true. cbv iota. reflexivity.
Qed.
End FinalArr.
