(* CorrC10xml.v — correspondence harness for the sub-suite "xml" of C10: the hierarchy queries on a type system obtained
   by XML LOADING, possibly extended afterwards by create_type / create_feature / instantiation.
   A case = the descriptor the harness wrote (abstract content, document order), the creation order the implementation
   used (order of get_types after the load: stands for toposort_flatten, see Descr.order_okb), the outcome of the load
   (ok / error kind), a history applied to the loaded type system with its outcomes, and the same query battery as the
   main suite (CorrC10.case: supertype, children, descendants, the subsumes / is_instance_of forms on all pairs,
   get_type / contains_type over full, short, ambiguous and unknown strings, string pairs) observed on the final state.
   The model of loading is C12's: Descr.ts_of_descr (the reader at descriptor level) embedded into TS.v by
   DescrTS.tsys_of_content (create_type in creation order, then create_feature type by type, on
   TypeSystem(add_document_annotation_type=False)): C10Load.load_ts (definitions only).
   TS is imported after Descr: an unqualified name is TS's. *)
From Cassis Require Import Base Descr.
From Cassis Require DescrTS.
From Cassis Require Import TS CorrC10 C10Load.

(* short constructors for the generated files *)
Definition XF := Descr.mkF.  Definition XT := Descr.mkT.

Record xcase := mkXCase {
  x_descr : Descr.descr;                      (* typeDescriptions in document order *)
  x_order : list string;                      (* created types in creation order (observed; the harness's own when the load raised) *)
  x_load : opres;                             (* load_typesystem: ROk / RErr kind *)
  x_q : CorrC10.case                          (* c_ops / c_out: the history applied after loading; queries on the final state *)
}.

Definition check_xcase (c : xcase) : bool :=
  match load_ts (x_order c) (x_descr c) with
  | Ok ts0 =>
    let q := x_q c in
    let '(ts, out) := run_ts (c_ops q) ts0 in
    opres_eqb (x_load c) ROk
    (* the types the reader created, in creation order (DocumentAnnotation among them) ... *)
    && list_str_eqb (skipn (List.length init_ts_nodoc) (map t_name ts0)) (x_order c)
    && list_eqb opres_eqb out (c_out q)
    (* ... and the battery of the main suite; its c_users = the registered names from position |TypeSystem()| on, which
       here is every created type but the first (covered by the line above) followed by the types the history added *)
    && check_queries ts q
    && wfhb ts                                 (* conclusion of C10_obtained_WF, evaluated *)
  | Err e => opres_eqb (x_load c) (RErr e)
  | OutOfFuel => false
  end.

(* premises of C10_obtained_WF for a loaded type system (C10Load.loadable): well-formed descriptor with named types and an
   order the toposort contract admits *)
Definition premises_x (c : xcase) : bool := loadable (x_order c) (x_descr c).
