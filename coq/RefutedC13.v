(* RefutedC13.v — witnesses against merge_typesystems as it was before 7d9931c (regression evidence). *)
From Cassis Require Import Base TS Merge.
