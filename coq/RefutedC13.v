(* RefutedC13.v — witnesses against merge_typesystems as it was before 7d9931c (regression evidence, DESIGN section 6:
   D08 D09 D10) and before 13b42b8.  The pre-fix pieces (re-parenting that only assigns the supertype, no rejection of a
   supertype below the type itself, every ready declaration processed again on every round, a progress test that never
   fires) are defined at the end of Merge.v; everything here is closed by vm_compute. *)
From Cassis Require Import Base TS Merge.

Definition mk (ops : list tsop) : tsys := final_ts ops init_ts.

(* D08: X is declared below A in one input and below B (a subtype of A) in the other.  The old re-parenting assigns the
   new supertype only: A keeps X among its children, B does not get it, X does not inherit B's feature f. *)
Definition d08_a : tsys := mk [CT "a.A" ANNOTATION; CT "a.B" "a.A"; CT "a.X" "a.A"; CF "a.B" "f" "uima.cas.String" None].
Definition d08_b : tsys := mk [CT "a.A" ANNOTATION; CT "a.B" "a.A"; CT "a.X" "a.B"].
Definition children_of (ts : tsys) (n : tname) : list tname := match find_ty ts n with Some t => t_children t | None => [] end.
Definition super_of (ts : tsys) (n : tname) : option tname := match find_ty ts n with Some t => t_super t | None => None end.
Definition feats_of (ts : tsys) (n : tname) : list fname := match find_ty ts n with Some t => feature_names t | None => [] end.

Theorem old_reparenting_refuted :
  exists a b ts, wfb a = true /\ wfb b = true /\ merge_old 10 [a; b] = Ok ts /\
    super_of ts "a.X" = Some "a.B" /\ children_of ts "a.B" = [] /\ children_of ts "a.A" = ["a.B"; "a.X"] /\
    memb "f" (feats_of ts "a.X") = false /\ wfhb ts = false.
Proof. exists d08_a, d08_b. eexists. vm_compute. repeat split. Qed.
(* the repaired mechanism on the same inputs, both argument orders *)
Theorem new_reparenting_ok :
  exists ts ts', merge [d08_a; d08_b] = Ok ts /\ merge [d08_b; d08_a] = Ok ts' /\ wfb ts = true /\ wfb ts' = true /\
    children_of ts "a.B" = ["a.X"] /\ children_of ts "a.A" = ["a.B"] /\ memb "f" (feats_of ts "a.X") = true /\ ts_equiv ts ts' = true.
Proof. eexists. eexists. vm_compute. repeat split. Qed.
(* the old result depended on the argument order *)
Theorem old_order_dependence_refuted :
  exists ts ts', merge_old 10 [d08_a; d08_b] = Ok ts /\ merge_old 10 [d08_b; d08_a] = Ok ts' /\ wfb ts' = true /\ ts_equiv ts ts' = false.
Proof. eexists. eexists. vm_compute. repeat split. Qed.

(* D09: {A, B<A} and {B, A<B} merged into A < B < A without error *)
Definition d09_a : tsys := mk [CT "a.A" ANNOTATION; CT "a.B" "a.A"].
Definition d09_b : tsys := mk [CT "a.B" ANNOTATION; CT "a.A" "a.B"].
Theorem old_mutual_supertypes_refuted :
  exists ts, merge_old 10 [d09_a; d09_b] = Ok ts /\ super_of ts "a.A" = Some "a.B" /\ super_of ts "a.B" = Some "a.A" /\ wfhb ts = false.
Proof. eexists. vm_compute. repeat split. Qed.
Theorem new_mutual_supertypes_raise : merge [d09_a; d09_b] = Err EValue /\ merge [d09_b; d09_a] = Err EValue.
Proof. vm_compute. split; reflexivity. Qed.

(* D10: the old progress test compared an int with a list, so a declaration that never becomes ready kept the loop going.
   Such a declaration cannot come from a well-formed input; the witness is a hand-made declaration list. *)
Definition orphan : ty := mkTy "a.X" (Some "a.Missing") None [] [] [] None [] 5.
Theorem old_no_progress_loops : forall fuel, rounds_old fuel [mkDecl 1 orphan] (mkSt init_ts [] []) = OutOfFuel.
Proof. induction fuel as [|k IH]; [reflexivity|]. cbn [rounds_old pass_old bind]. exact IH. Qed.
Theorem new_no_progress_raises : forall fuel, rounds fn_form (S fuel) [mkDecl 1 orphan] (mkSt init_ts [] []) = Err EValue.
Proof. intros fuel. reflexivity. Qed.

(* 13b42b8: before, the no-progress test came first, so inputs without any user type (no arguments at all, or empty
   type systems built with add_document_annotation_type=False) raised "Unmergeable types" *)
Fixpoint rounds_7d99 (fuel : nat) (l : list decl) (st : mst) : res mst :=
  match fuel with
  | O => OutOfFuel
  | S k => do x <- pass fn_form l st;;
           if Nat.eqb (List.length l) (List.length (snd x)) then Err EValue
           else match snd x with [] => Ok (fst x) | _ => rounds_7d99 k (snd x) (fst x) end
  end.
Theorem old_empty_merge_refuted :
  rounds_7d99 1 (type_list []) (mkSt init_ts [] []) = Err EValue /\ rounds_7d99 1 (type_list [init_ts_nodoc]) (mkSt init_ts [] []) = Err EValue.
Proof. vm_compute. split; reflexivity. Qed.
Theorem new_empty_merge_ok : merge [] = Ok init_ts /\ merge [init_ts_nodoc; init_ts_nodoc] = Ok init_ts.
Proof. vm_compute. split; reflexivity. Qed.

(* ---- limits of the statements proved in MergeProofs3.v (witnesses on the CURRENT mechanism) ---- *)
(* success depends on the argument order when the side condition fails: a.B competes for a.X and is itself declared
   with two supertypes, so comparing a.A and a.B hinges on the pending re-parenting of a.B *)
Definition oi_1 : tsys := mk [CT "a.A" ANNOTATION; CT "a.B" ANNOTATION; CT "a.X" "a.A"].
Definition oi_2 : tsys := mk [CT "a.A" ANNOTATION; CT "a.B" ANNOTATION; CT "a.X" "a.B"].
Definition oi_3 : tsys := mk [CT "a.A" ANNOTATION; CT "a.B" "a.A"].
Theorem order_independence_without_side_condition_refuted :
  merge [oi_1; oi_2; oi_3] = Err EValue /\ exists ts, merge [oi_3; oi_1; oi_2] = Ok ts /\ wfb ts = true /\ super_of ts "a.X" = Some "a.B".
Proof. split; [vm_compute; reflexivity|]. eexists. vm_compute. repeat split. Qed.
(* the replay theorem needs its premise "t contains TypeSystem()": the merge always starts from TypeSystem() *)
Theorem replay_without_document_annotation_refuted :
  exists r, merge [init_ts_nodoc] = Ok r /\ ts_equiv r init_ts_nodoc = false.
Proof. eexists. vm_compute. split; reflexivity. Qed.
(* a replayed type system has the same effective features, but an own feature that duplicates an inherited one (declared
   on the subtype first, then identically on the supertype) is not stored again: Type.features may shrink *)
Definition dup_own : tsys :=
  mk [CT "a.A" ANNOTATION; CT "a.B" "a.A"; CF "a.B" "f" "uima.cas.String" None; CF "a.A" "f" "uima.cas.String" None].
Definition own_names (ts : tsys) (n : tname) : list fname := match find_ty ts n with Some t => map f_name (t_own t) | None => [] end.
Theorem replay_own_features_exact_refuted :
  exists r, wfb dup_own = true /\ merge [dup_own] = Ok r /\ ts_equiv r dup_own = true /\
    own_names dup_own "a.B" = ["f"] /\ own_names r "a.B" = [] /\ memb "f" (feats_of r "a.B") = true.
Proof. eexists. vm_compute. repeat split. Qed.
