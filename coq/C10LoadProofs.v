(* C10LoadProofs.v — every type system of the closure C10Load.obtained (TypeSystem(), histories, merging, XML loading, in any
   nesting) satisfies the hierarchy invariant WFh.  The proof composes TSProofs.run_WFh, MergeProofs.merge_WFh and
   DescrTSProofs.loaded_WF (C12) by a nested induction. *)
From Cassis Require Import Base Descr.
From Cassis Require DescrTS DescrProofs DescrTSProofs.
From Cassis Require Import TS TSProofs Merge MergeProofs C10Merge C10Load.

Lemma load_WFh order d ts : loadable order d = true -> load_ts order d = Ok ts -> WFh ts.
Proof.
  unfold loadable, load_ts. intros H L.
  apply andb_prop in H. destruct H as [H Ho]. apply andb_prop in H. destruct H as [Hw Hn].
  destruct (Descr.ts_of_descr order d) as [s | e |] eqn:E; try discriminate.
  destruct (DescrTSProofs.loaded_WF d order s Hw Hn Ho E) as [ts' [H1 [H2 _]]].
  rewrite H1 in L. injection L as <-. exact H2.
Qed.

(* a well-formed descriptor always loads (no exception, no fuel exhaustion) *)
Lemma load_total order d : loadable order d = true -> exists ts, load_ts order d = Ok ts.
Proof.
  unfold loadable, load_ts. intros H.
  apply andb_prop in H. destruct H as [H Ho]. apply andb_prop in H. destruct H as [Hw Hn].
  destruct (Descr.ts_of_descr order d) as [s | e |] eqn:E.
  - destruct (DescrTSProofs.loaded_WF d order s Hw Hn Ho E) as [ts' [H1 _]]. exists ts'. exact H1.
  - exfalso. rewrite (DescrProofs.load_wf d order Hw Ho) in E. discriminate.
  - exfalso. rewrite (DescrProofs.load_wf d order Hw Ho) in E. discriminate.
Qed.

Fixpoint obtained_WFh (ts : tsys) (b : obtained ts) {struct b} : WFh ts :=
  match b in obtained t return WFh t with
  | ob_new => init_WFh
  | ob_ops ops ts0 b0 => run_WFh ops ts0 (obtained_WFh ts0 b0)
  | ob_merge inputs ts0 H Hm => merge_WFh inputs ts0 (fun t Hin => obtained_WFh t (H t Hin)) Hm
  | ob_load order d ts0 Hl Hr => load_WFh order d ts0 Hl Hr
  end.

Lemma built_obtained ts : built ts -> obtained ts.
Proof.
  revert ts. fix IH 2. intros ts b. destruct b as [| ops ts0 b0 | inputs ts0 H Hm].
  - exact ob_new.
  - apply ob_ops. exact (IH ts0 b0).
  - apply (ob_merge inputs ts0); [| exact Hm]. intros t Hin. exact (IH t (H t Hin)).
Qed.

Lemma obtained_descendants ts a : obtained ts -> In a ts ->
  exists l, descendants (desc_fuel ts) ts (t_name a) = Some l /\ NoDup l /\ forall d, In d l <-> below ts (t_name a) d.
Proof. intros B. apply descendants_full_spec. apply (obtained_WFh ts B). Qed.

Lemma obtained_refs_registered ts t : obtained ts -> In t ts ->
  find_ty ts (t_name t) = Some t /\
  (forall s, t_super t = Some s -> registered ts s = true) /\
  (forall c, In c (t_children t) -> registered ts c = true) /\
  (forall f, In f (all_features t) -> feat_refs_ok ts f) /\
  (forall f, In f (t_own t) -> f_dom f = t_name t).
Proof. intros B. apply refs_registered. apply (obtained_WFh ts B). Qed.
