(* XmiLoad.v — model of the XMI reader, cassis/xmi.py CasXmiDeserializer (deserialize, _parse_sofa, _parse_view,
   _parse_feature_structure, _parse_primitive_value / _array / _list, _parse_fs_list) and of the strict/lenient guard of
   Cas.add with its propagation through Cas._copy (cassis/cas.py), on abstract documents (XmiDoc.xdoc).

   The mechanism is kept as it is in the code:
   pass 1  one loop over the elements in document order filling three dicts (sofas by xmi:id, views by sofa id, feature
           structures by xmi:id; Python overwrite rule) — an element becomes a proto-FS whose slots hold the raw
           attribute strings and the collected child elements; type lookup is TypeSystem.get_type(name, True), exact
           (32a3d1b; the short-name fallback of the old code is kept as get_type for the regression witness);
           python-name remapping self/type; int() of sofa for subtypes of AnnotationBase and of begin/end for subtypes
           of Annotation only (645c868);
           children of array/list features wrapped at once; TypeNotFoundError swallowed when lenient, id remembered;
   pass 2  per object, per feature of Type.all_features, the branch chain of xmi.py:214-288 in its real order, with
           references resolved through the id-keyed dict (so forward references are fine); a reference is a pointer to
           the object stored under that key (LRef), read back through the dict when the content is observed;
   then    the sofaArray reference of every parsed sofa is resolved through the same dict (bab0472);
           offset conversion of every uima.tcas.Annotation with the table of its own parsed sofa, view creation in sofas
           dict order (_InitialView special case, ValueError for a repeated view name), member insertion through Cas.add
           (guard, sofa slot overwritten, lenient ids skipped), re-pointing of sofa references, the fresh id/sofaNum for
           a document without an _InitialView sofa (941f890), generator reseeding.
   Not modelled (below the abstract document): lxml namespace resolution, iterparse event order / nesting deeper than one
   child level, XML unescaping.  Python's int() is Lex.s2z (plain decimal, optional '-'); float() is the Section
   parameter parse_flt.  Definitions only; proofs are in XmiLoadProofs.v. *)
From Coq Require Import Ascii.
From Cassis Require Import Base Offsets.
From Cassis Require Import Heap Schema Canon Lex XmiDoc.
Open Scope Z_scope.

(* ---- dicts with int keys (Python overwrite rule: the position of the first insertion is kept) ---- *)
Fixpoint zlookup {V} (k : Z) (l : list (Z * V)) : option V :=
  match l with [] => None | (k', v) :: r => if Z.eqb k k' then Some v else zlookup k r end.
Fixpoint zset {V} (k : Z) (v : V) (l : list (Z * V)) : list (Z * V) :=
  match l with
  | [] => [(k, v)]
  | (k', v') :: r => if Z.eqb k k' then (k', v) :: r else (k', v') :: zset k v r
  end.
(* d.update(l) / dict(l) *)
Definition update {V} (d l : list (string * V)) : list (string * V) :=
  fold_left (fun d kv => aset (fst kv) (snd kv) d) l d.
Definition dict_of {V} (l : list (string * V)) : list (string * V) := update [] l.

(* ---- type name of an element as the reader computes it (xmi.py:370-373) ---- *)
Fixpoint drop (n : nat) (s : string) : string :=
  match n, s with O, _ => s | S k, String _ r => drop k r | S _, EmptyString => "" end.
(* s.replace(p, "") for a non-empty p: left to right, non-overlapping *)
Fixpoint remove_sub_aux (p : string) (skip : nat) (s : string) : string :=
  match s with
  | EmptyString => ""
  | String c r =>
    match skip with
    | S k => remove_sub_aux p k r
    | O => match strip_prefix p s with
           | Some _ => remove_sub_aux p (String.length p - 1) r
           | None => String c (remove_sub_aux p 0 r)
           end
    end
  end.
Definition remove_sub (p s : string) : string := remove_sub_aux p 0 s.
Fixpoint lstrip (s : string) : string := match s with String c r => if is_ws c then lstrip r else s | EmptyString => "" end.
Fixpoint rstrip (s : string) : string :=
  match s with
  | EmptyString => ""
  | String c r => let r' := rstrip r in if String.eqb r' "" && is_ws c then "" else String c r'
  end.
Definition strip (s : string) : string := rstrip (lstrip s).
(* elem.tag is "{ns}local" *)
Definition reader_tname (ns tag : string) : tname :=
  let t := strip (remove_sub "ecore}" (replace_char "/"%char "."%char (drop 9 ("{" ++ ns ++ "}" ++ tag)%string))) in
  match strip_prefix "uima.noNamespace." t with Some r => r | None => t end.

(* ---- TypeSystem.get_type(name, True): exact ---- *)
Definition get_type_exact (s : schema) (n : tname) : res tinfo :=
  match sch_find s n with Some t => Ok t | None => Err ETypeNotFound end.
(* ---- TypeSystem.get_type(name) with match_exactly=False: a name without a dot falls back to the unique type with
        that short name (what the reader used before 32a3d1b, and Cas.add's contains_type before 1700993) ---- *)
Definition short_name (n : tname) : string := match rsplit_dot n with Some (_, q) => q | None => n end.
Definition get_type (s : schema) (n : tname) : res tinfo :=
  match sch_find s n with
  | Some t => Ok t
  | None =>
    if has_char "."%char n then Err ETypeNotFound
    else match filter (fun t => String.eqb (short_name (ti_name t)) n) s with
         | [t] => Ok t
         | _ => Err ETypeNotFound
         end
  end.
(* TypeSystem.contains_type(name, match_exactly=True), the test of Cas.add after 1700993 *)
Definition contains_exact (s : schema) (n : tname) : bool := memb n (map ti_name s).
(* TypeSystem.contains_type(name) before 1700993: a name without a dot also matched by short name *)
Definition contains_loose (s : schema) (n : tname) : bool :=
  match get_type s n with Ok _ => true | _ => false end.

(* ---- values held by the slots of the objects the reader builds ---- *)
Inductive lval :=
 | LNone
 | LRaw (a : string)                         (* an attribute value not (yet) interpreted: a Python str *)
 | LKids (l : list (option string))          (* texts of the collected child elements: a Python list of str / None *)
 | LInt (z : Z) | LFlt (x : flt) | LBool (b : bool) | LStr (s : string)
 | LRef (k : xid)                            (* pointer to feature_structures[k] *)
 | LSofa (k : xid)                           (* pointer to sofas[k], the Sofa parsed from the document *)
 | LVSofa (n : string)                       (* pointer to the Sofa object of the view named n of the new Cas *)
 | LElems (l : list lval)                    (* a Python list (the `elements` of a separately stored array) *)
 | LArr (kind : tname) (l : list lval)       (* a fresh array FS of type kind, owned by the slot *)
 | LLst (kind : tname) (l : list lval).      (* a fresh linked list of type kind (NonEmpty.../Empty... nodes) *)

Record lobj := mkLo { lo_type : tname; lo_id : xid; lo_slots : list (fname * lval) }.
Definition lslot (o : lobj) (n : fname) : lval := match alookup n (lo_slots o) with Some v => v | None => LNone end.
Definition lset (o : lobj) (n : fname) (v : lval) : lobj := mkLo (lo_type o) (lo_id o) (aset n v (lo_slots o)).
(* the Sofa objects parsed from the document: Sofa(attributes as keywords) *)
Record psofa := mkPs { ps_id : xid; ps_num : Z; ps_name : string; ps_text : option text;
                       ps_mime : option string; ps_uri : option string;
                       ps_arr : option string;        (* sofaArray as written *)
                       ps_arrp : option xid }.        (* sofaArray once resolved: pointer to feature_structures[k] *)
(* state of the first loop *)
Record p1 := mkP1 {
  p_sofas : list (xid * psofa);          (* sofas *)
  p_views : list (xid * list xid);       (* views: sofa id -> ProtoView.members *)
  p_fss : list (xid * lobj);             (* feature_structures *)
  p_lids : list xid;                     (* lenient_ids *)
  p_maxid : Z; p_maxnum : Z }.           (* self._max_xmi_id, self._max_sofa_num *)
Definition p1_init : p1 := mkP1 [] [] [] [] 0 0.

Definition pyname (n : string) : string := if String.eqb n "self" || String.eqb n "type" then (n ++ "_")%string else n.
Definition kid_text (t : string) : option string := if String.eqb t "" then None else Some t.   (* elem.text *)
(* children[elem.tag].append(elem.text) *)
Fixpoint group_kids (l : list (string * string)) (acc : list (string * list (option string)))
  : list (string * list (option string)) :=
  match l with
  | [] => acc
  | (k, t) :: r => group_kids r (aset k (match alookup k acc with Some old => (old ++ [kid_text t])%list | None => [kid_text t] end) acc)
  end.
Definition lv_kid (o : option string) : lval := match o with Some t => LStr t | None => LNone end.

(* ---- _parse_sofa ---- *)
Definition sofa_attr_names : list string := [A_ID; "sofaNum"; "sofaID"; "sofaString"; "mimeType"; "sofaURI"; "sofaArray"].
Definition req_int (e : xelem) (n : string) : res Z :=
  match xattr e n with Some a => int_attr a | None => Err EKey end.
Definition parse_sofa (e : xelem) : res psofa :=
  do i <- req_int e A_ID ;;
  do num <- req_int e "sofaNum" ;;
  if negb (forallb (fun kv => memb (fst kv) sofa_attr_names) (x_attrs e)) then Err EType else
  do name <- match xattr e "sofaID" with Some a => Ok a | None => Err EType end ;;
  do txt <- match xattr e "sofaString" with
            | None => Ok None
            | Some a => match utf8_decode a with Some t => Ok (Some t) | None => Err EValue end
            end ;;
  Ok (mkPs i num name txt (xattr e "mimeType") (xattr e "sofaURI") (xattr e "sofaArray") None).
(* ---- _parse_view ---- *)
Definition parse_view (e : xelem) : res (xid * list xid) :=
  do so <- req_int e "sofa" ;;
  do ms <- mapM int_attr (split_ws (match xattr e "members" with Some a => a | None => "" end)) ;;
  Ok (so, ms).

Section Flt.
Variable parse_flt : string -> option flt.       (* float(str) *)

Definition conv_int (o : option string) : res lval :=
  match o with None => Err EType | Some t => match s2z t with Some z => Ok (LInt z) | None => Err EValue end end.
Definition conv_flt (o : option string) : res lval :=
  match o with None => Err EType | Some t => match parse_flt t with Some x => Ok (LFlt x) | None => Err EValue end end.
Definition conv_bool (o : option string) : res lval :=
  match o with Some t => match s2b t with Some b => Ok (LBool b) | None => Err EValue end | None => Err EValue end.
(* value.split() if isinstance(value, str) else value *)
Definition toks_of (v : lval) : res (list (option string)) :=
  match v with LRaw a => Ok (map Some (split_ws a)) | LKids l => Ok l | _ => Err EAttribute end.

(* _parse_primitive_list(type_, value) for a value that is not None: the linked list, by content *)
Definition parse_prim_list (range : tname) (v : lval) : res lval :=
  if String.eqb range "uima.cas.IntegerList" then do t <- toks_of v ;; do l <- mapM conv_int t ;; Ok (LLst range l)
  else if String.eqb range "uima.cas.FloatList" then do t <- toks_of v ;; do l <- mapM conv_flt t ;; Ok (LLst range l)
  else if String.eqb range "uima.cas.StringList" then do t <- toks_of v ;; Ok (LLst range (map lv_kid t))
  else Err EValue.
(* _parse_primitive_array(type_, value) for a value that is not None: a Python list *)
Definition parse_prim_array (tn : tname) (v : lval) : res (list lval) :=
  do t <- toks_of v ;;
  if String.eqb tn "uima.cas.FloatArray" || String.eqb tn "uima.cas.DoubleArray" then mapM conv_flt t
  else if String.eqb tn "uima.cas.IntegerArray" || String.eqb tn "uima.cas.ShortArray" || String.eqb tn "uima.cas.LongArray"
       then mapM conv_int t
  else if String.eqb tn T_STRING_ARRAY then (match t with [] => Ok [] | _ => Err EValue end)
  else if String.eqb tn "uima.cas.BooleanArray" then mapM conv_bool t
  else if String.eqb tn "uima.cas.ByteArray" then
    match v with
    | LRaw a => match parse_hex a with Some l => Ok (map LInt l) | None => Err EValue end
    | _ => Err EType
    end
  else Err EValue.
(* _parse_primitive_value(type_, value) *)
Definition parse_prim_value (s : schema) (range : tname) (v : lval) : res lval :=
  match v with
  | LNone => Ok LNone
  | _ =>
    match prim_of s range with
    | None => Err EValue
    | Some p =>
      match pkind_of_prim p, v with
      | PStr, LRaw a => Ok (LStr a)
      | PStr, _ => Ok v
      | PFlt, LRaw a => conv_flt (Some a)
      | PInt, LRaw a => conv_int (Some a)
      | PInt, LInt z => Ok (LInt z)
      | PBool, LRaw a => conv_bool (Some a)
      | PBool, _ => Err EValue
      | _, _ => Err EType
      end
    end
  end.

(* ---- _parse_feature_structure ---- *)
(* for name in (begin, end, sofa): if name in attributes: attributes[name] = int(attributes[name]) *)
Fixpoint intify (names : list string) (a : list (string * lval)) : res (list (string * lval)) :=
  match names with
  | [] => Ok a
  | n :: r =>
    match alookup n a with
    | None => intify r a
    | Some (LRaw v) => do z <- int_attr v ;; intify r (aset n (LInt z) a)
    | Some _ => Err EType
    end
  end.
(* for feature_name, feature_value in children.items(): wrap arrays, link lists *)
Fixpoint wrap_kids (feats : list fdecl) (kids : list (string * list (option string))) (a : list (string * lval))
  : res (list (string * lval)) :=
  match kids with
  | [] => Ok a
  | (n, l) :: r =>
    match fd_find feats n with
    | None => Err EAttribute
    | Some fd =>
      let a1 := if is_prim_array_name (fd_range fd) then aset n (LArr (fd_range fd) (map lv_kid l)) a else a in
      do a2 <- (if is_prim_list_name (fd_range fd)
                then do v <- parse_prim_list (fd_range fd) (LKids l) ;; Ok (aset n v a1) else Ok a1) ;;
      wrap_kids feats r a2
    end
  end.
(* the instance of the generated attrs class: one field per feature, default None; an unknown keyword is a TypeError *)
Definition mk_obj (ti : tinfo) (i : xid) (a : list (string * lval)) : res lobj :=
  if forallb (fun kv => memb (fst kv) (map fd_name (ti_feats ti)) || String.eqb (fst kv) "xmiID") a
  then Ok (mkLo (ti_name ti) i
             (map (fun fd => (fd_name fd, match alookup (fd_name fd) a with Some v => v | None => LNone end)) (ti_feats ti)))
  else Err EType.
Section ParseFs.
Variable lookup_type : schema -> tname -> res tinfo.     (* get_type_exact now, get_type before 32a3d1b *)
(* integer_names (after 645c868): sofa for every subtype of AnnotationBase, begin and end for subtypes of Annotation only *)
Definition int_names (ti : tinfo) : list string :=
  ((if memb T_ANNOTATION_BASE (ti_anc ti) then ["sofa"] else []) ++
   (if memb T_ANNOTATION (ti_anc ti) then ["begin"; "end"] else []))%list.
Definition parse_fs_with (s : schema) (e : xelem) : res lobj :=
  do ti <- lookup_type s (reader_tname (x_ns e) (x_tag e)) ;;
  let kids := dict_of (map (fun kv => (pyname (fst kv), snd kv)) (group_kids (x_kids e) [])) in
  let a0 := update (dict_of (map (fun kv => (pyname (fst kv), LRaw (snd kv))) (x_attrs e)))
                   (map (fun kv => (fst kv, LKids (snd kv))) kids) in
  do i <- match alookup A_ID a0 with Some (LRaw a) => int_attr a | Some _ => Err EType | None => Err EKey end ;;
  let a1 := adel A_ID a0 in
  do a2 <- intify (int_names ti) a1 ;;
  do a3 <- (if is_prim_array_name (reader_tname (x_ns e) (x_tag e)) then Ok a2 else wrap_kids (ti_feats ti) kids a2) ;;
  mk_obj ti i a3.

(* ---- the first loop (xmi.py:135-207) ---- *)
Definition step1_with (s : schema) (lenient : bool) (st : p1) (e : xelem) : res p1 :=
  if is_sofa e then
    do so <- parse_sofa e ;;
    Ok (mkP1 (zset (ps_id so) so (p_sofas st)) (p_views st) (p_fss st) (p_lids st)
             (Z.max (ps_id so) (p_maxid st)) (Z.max (ps_num so) (p_maxnum st)))
  else if is_view e then
    do pv <- parse_view e ;;
    Ok (mkP1 (p_sofas st) (zset (fst pv) (snd pv) (p_views st)) (p_fss st) (p_lids st) (p_maxid st) (p_maxnum st))
  else
    match parse_fs_with s e with
    | Ok o => Ok (mkP1 (p_sofas st) (p_views st) (zset (lo_id o) o (p_fss st)) (p_lids st)
                       (Z.max (lo_id o) (p_maxid st)) (p_maxnum st))
    | Err ETypeNotFound =>
      if lenient then
        match xattr e A_ID with
        | None => Ok st
        | Some a => if String.eqb a "" then Ok st else
                    do i <- int_attr a ;;
                    Ok (mkP1 (p_sofas st) (p_views st) (p_fss st) (i :: p_lids st) (p_maxid st) (p_maxnum st))
        end
      else Err ETypeNotFound
    | Err x => Err x
    | OutOfFuel => OutOfFuel
    end.
Fixpoint pass1_with (s : schema) (lenient : bool) (st : p1) (d : xdoc) : res p1 :=
  match d with [] => Ok st | e :: r => do st' <- step1_with s lenient st e ;; pass1_with s lenient st' r end.
End ParseFs.
Definition parse_fs := parse_fs_with get_type_exact.
Definition step1 := step1_with get_type_exact.
Definition pass1 := pass1_with get_type_exact.

(* ---- the second loop (xmi.py:214-288): one feature of one object ---- *)
(* int(ref); 0 is None; otherwise feature_structures[target_id] *)
Definition resolve0 (fss : list (xid * lobj)) (t : string) : res lval :=
  do i <- int_attr t ;;
  if i =? 0 then Ok LNone else match zlookup i fss with Some _ => Ok (LRef i) | None => Err EKey end.
Definition resolve_tok (fss : list (xid * lobj)) (o : option string) : res lval :=
  match o with Some t => resolve0 fss t | None => Err EType end.
Definition post_feature (s : schema) (sofas : list (xid * psofa)) (fss : list (xid * lobj))
                        (ti : tinfo) (fd : fdecl) (v : lval) : res lval :=
  let tn := ti_name ti in
  let r := fd_range fd in
  if String.eqb (fd_name fd) "sofa" && memb T_ANNOTATION_BASE (ti_anc ti) then
    match v with
    | LInt i => match zlookup i sofas with Some _ => Ok (LSofa i) | None => Err EKey end
    | _ => Err EKey
    end
  else if memb T_STRING_ARRAY (ti_anc ti) then
    match v with LRaw _ => do l <- parse_prim_array tn v ;; Ok (LElems l) | _ => Ok v end
  else if is_primitive s r then parse_prim_value s r v
  else if is_prim_array_name tn && String.eqb (fd_name fd) "elements" then
    match v with LNone => Ok LNone | _ => do l <- parse_prim_array tn v ;; Ok (LElems l) end
  else if is_prim_array_name r && negb (fd_multi fd) then
    match v with LRaw _ => do l <- parse_prim_array r v ;; Ok (LArr r l) | _ => Ok v end
  else if is_prim_list_name r && negb (fd_multi fd) then
    match v with LRaw _ => parse_prim_list r v | _ => Ok v end
  else
    match v with
    | LNone => Ok LNone
    | _ =>
      if String.eqb tn T_FS_ARRAY || (String.eqb r T_FS_ARRAY && negb (fd_multi fd)) then
        match v with
        | LRaw a =>
          do l <- mapM (resolve0 fss) (split_ws a) ;;
          Ok (if String.eqb r T_FS_ARRAY then LArr T_FS_ARRAY l else LElems l)
        | _ => Err EAttribute
        end
      else if String.eqb r T_FS_LIST && negb (fd_multi fd) then
        match v with
        | LRaw _ | LKids _ => do t <- toks_of v ;; do l <- mapM (resolve_tok fss) t ;; Ok (LLst T_FS_LIST l)
        | _ => Ok v
        end
      else
        match v with
        | LRaw a =>
          do i <- int_attr a ;;
          match zlookup i fss with Some _ => Ok (LRef i) | None => Err EKey end
        | LInt i => match zlookup i fss with Some _ => Ok (LRef i) | None => Err EKey end
        | _ => Err EType
        end
    end.
(* t = typesystem.get_type(fs.type.name); for feature in t.all_features: ... — each feature rewrites its own slot only *)
Definition post_obj (s : schema) (sofas : list (xid * psofa)) (fss : list (xid * lobj)) (o : lobj) : res lobj :=
  match sch_find s (lo_type o) with
  | None => Err ETypeNotFound
  | Some ti =>
    do sl <- mapM (fun fd => do v <- post_feature s sofas fss ti fd (lslot o (fd_name fd)) ;; Ok (fd_name fd, v)) (ti_feats ti) ;;
    Ok (mkLo (lo_type o) (lo_id o) sl)
  end.
(* the objects are rewritten in place while the dict keeps its keys: lookups during the loop only take pointers *)
Definition pass2 (s : schema) (sofas : list (xid * psofa)) (fss : list (xid * lobj)) : res (list (xid * lobj)) :=
  mapM (fun ko => do o <- post_obj s sofas fss (snd ko) ;; Ok (fst ko, o)) fss.

(* ---- sofa.sofaArray = feature_structures[int(sofa.sofaArray)] (bab0472) ---- *)
Definition resolve_arr (fss : list (xid * lobj)) (kso : xid * psofa) : res (xid * psofa) :=
  let so := snd kso in
  match ps_arr so with
  | None => Ok kso
  | Some a =>
    do i <- int_attr a ;;
    match zlookup i fss with
    | Some _ => Ok (fst kso, mkPs (ps_id so) (ps_num so) (ps_name so) (ps_text so) (ps_mime so) (ps_uri so) (ps_arr so) (Some i))
    | None => Err EKey
    end
  end.

(* ---- offsets (xmi.py:299-302): every annotation, with the converter of the Sofa it points to ---- *)
Definition conv_z (txt : option text) (z : Z) : Z :=
  match Offsets.s_tbl (Offsets.sofa_new txt) with None => z | Some c => ext2py c z end.
Definition conv_slot (txt : option text) (v : lval) : lval := match v with LInt z => LInt (conv_z txt z) | _ => v end.
Definition conv_obj (s : schema) (sofas : list (xid * psofa)) (o : lobj) : res lobj :=
  if isa s (lo_type o) T_ANNOTATION then
    match lslot o "sofa" with
    | LNone => Ok o
    | LSofa k =>
      match zlookup k sofas with
      | Some so => Ok (lset (lset o "begin" (conv_slot (ps_text so) (lslot o "begin"))) "end" (conv_slot (ps_text so) (lslot o "end")))
      | None => Err EAttribute
      end
    | _ => Err EAttribute
    end
  else Ok o.

(* ---- the new Cas: views, members (xmi.py:290-345) ---- *)
Record lsofa := mkLs { ls_id : xid; ls_num : Z; ls_name : string; ls_text : option text;
                       ls_mime : option string; ls_uri : option string;
                       ls_arr : option xid }.         (* pointer to feature_structures[k] *)
Record lview := mkLv { lv_sofa : lsofa; lv_members : list xid }.     (* members: pointers (dict keys), in add order *)
Record lcas := mkLc {
  lc_views : list (string * lview);      (* Cas._views, by name, in creation order *)
  lc_objs : list (xid * lobj);           (* feature_structures *)
  lc_next_id : Z; lc_next_sofa : Z;      (* the two id generators *)
  lc_lenient : bool }.
Definition INITIAL := "_InitialView".
Definition has_feat (ti : tinfo) (n : fname) : bool := match fd_find (ti_feats ti) n with Some _ => true | None => false end.

(* Cas.add(fs, keep_id=True) on the handle of view `name`: guard, sofa slot, index *)
Definition add_guard (s : schema) (lenient : bool) (tn : tname) : res unit :=
  if negb lenient && negb (contains_exact s tn) then Err ERuntime else Ok tt.
Definition add_member (s : schema) (lenient : bool) (name : string) (objs : list (xid * lobj)) (m : xid)
  : res (list (xid * lobj)) :=
  match zlookup m objs with
  | None => Err EKey
  | Some o =>
    do _ <- add_guard s lenient (lo_type o) ;;
    match sch_find s (lo_type o) with
    | None => Err ETypeNotFound
    | Some ti => Ok (if has_feat ti "sofa" then zset m (lset o "sofa" (LVSofa name)) objs else objs)
    end
  end.
Fixpoint add_members (s : schema) (lenient : bool) (name : string) (lids : list xid) (ms : list xid)
                     (objs : list (xid * lobj)) (added : list xid) : res (list (xid * lobj) * list xid) :=
  match ms with
  | [] => Ok (objs, added)
  | m :: r =>
    if memZ m lids then add_members s lenient name lids r objs added
    else do objs' <- add_member s lenient name objs m ;; add_members s lenient name lids r objs' (added ++ [m])%list
  end.
(* if getattr(fs, "sofa", None) is sofa: fs.sofa = view.get_sofa() *)
Definition rewire (k : xid) (name : string) (o : lobj) : lobj :=
  match alookup "sofa" (lo_slots o) with
  | Some (LSofa k') => if k' =? k then lset o "sofa" (LVSofa name) else o
  | _ => o
  end.
Definition set_view_sofa (so : psofa) (v : lview) : lview :=
  mkLv (mkLs (ps_id so) (ps_num so) (ls_name (lv_sofa v)) (ps_text so) (ps_mime so) (ps_uri so) (ps_arrp so)) (lv_members v).
Definition new_view (so : psofa) : lview := mkLv (mkLs (ps_id so) (ps_num so) (ps_name so) (ps_text so) (ps_mime so) (ps_uri so) (ps_arrp so)) [].
Definition amem {V} (k : string) (l : list (string * V)) : bool := match alookup k l with Some _ => true | None => false end.
Definition view_step (s : schema) (lenient : bool) (pviews : list (xid * list xid)) (lids : list xid)
                     (st : list (string * lview) * list (xid * lobj)) (kso : xid * psofa)
  : res (list (string * lview) * list (xid * lobj)) :=
  let '(views, objs) := st in
  let so := snd kso in
  do views1 <- (if String.eqb (ps_name so) INITIAL then
                  match alookup INITIAL views with Some v => Ok (aset INITIAL (set_view_sofa so v) views) | None => Err EKey end
                else if amem (ps_name so) views then Err EValue
                else Ok (views ++ [(ps_name so, new_view so)])%list) ;;
  let ms := match zlookup (ps_id so) pviews with Some ms => ms | None => [] end in
  do oa <- add_members s lenient (ps_name so) lids ms objs [] ;;
  let objs2 := map (fun ko => (fst ko, rewire (fst kso) (ps_name so) (snd ko))) (fst oa) in
  match alookup (ps_name so) views1 with
  | Some v => Ok (aset (ps_name so) (mkLv (lv_sofa v) (lv_members v ++ snd oa)%list) views1, objs2)
  | None => Err EKey
  end.
Fixpoint view_loop (s : schema) (lenient : bool) (pviews : list (xid * list xid)) (lids : list xid)
                   (sofas : list (xid * psofa)) (st : list (string * lview) * list (xid * lobj))
  : res (list (string * lview) * list (xid * lobj)) :=
  match sofas with
  | [] => Ok st
  | kso :: r => do st' <- view_step s lenient pviews lids st kso ;; view_loop s lenient pviews lids r st'
  end.
Definition initial_view : lview := mkLv (mkLs 1 1 INITIAL None None None None) [].

Section Load.
Variable lookup_type : schema -> tname -> res tinfo.
Definition load_xmi_with (s : schema) (lenient : bool) (d : xdoc) : res lcas :=
  do st <- pass1_with lookup_type s lenient p1_init d ;;
  do objs <- pass2 s (p_sofas st) (p_fss st) ;;
  do sofas <- mapM (resolve_arr (p_fss st)) (p_sofas st) ;;
  do objs1 <- mapM (fun ko => do o <- conv_obj s sofas (snd ko) ;; Ok (fst ko, o)) objs ;;
  do vo <- view_loop s lenient (p_views st) (p_lids st) sofas ([(INITIAL, initial_view)], objs1) ;;
  let '(views, objs2) := vo in
  if existsb (fun kso => String.eqb (ps_name (snd kso)) INITIAL) (p_sofas st) then
    Ok (mkLc views objs2 (p_maxid st + 1) (p_maxnum st + 1) lenient)
  else
    match alookup INITIAL views with
    | Some v =>
      let so := lv_sofa v in
      Ok (mkLc (aset INITIAL (mkLv (mkLs (p_maxid st + 1) (p_maxnum st + 1) (ls_name so) (ls_text so) (ls_mime so)
                                          (ls_uri so) (ls_arr so)) (lv_members v)) views)
               objs2 (p_maxid st + 2) (p_maxnum st + 2) lenient)
    | None => Err EKey
    end.
End Load.
Definition load_xmi := load_xmi_with get_type_exact.
Definition load_xmi_old := load_xmi_with get_type.       (* before 32a3d1b *)

End Flt.

(* ---- canonical content of a loaded CAS: every object of the dict (the cas:NULL object apart), references read back
        through the pointers ---- *)
Definition T_NULL := "uima.cas.NULL".
Definition deref (objs : list (xid * lobj)) (k : xid) : res cval :=
  match zlookup k objs with
  | Some o => Ok (if String.eqb (lo_type o) T_NULL then CNull else CRef (lo_id o))
  | None => Err EKey
  end.
Definition cv_kid (o : option string) : cval := match o with Some t => CStr t | None => CNull end.
Fixpoint cv (views : list (string * lview)) (objs : list (xid * lobj)) (v : lval) : res cval :=
  let fix cvs (l : list lval) : res (list cval) :=
    match l with [] => Ok [] | x :: r => do y <- cv views objs x ;; do ys <- cvs r ;; Ok (y :: ys) end in
  match v with
  | LNone => Ok CNull
  | LRaw a => Ok (CStr a)
  | LKids l => Ok (CColl "" (map cv_kid l))
  | LInt z => Ok (CInt z) | LFlt x => Ok (CFlt x) | LBool b => Ok (CBool b) | LStr s => Ok (CStr s)
  | LRef k => deref objs k
  | LSofa _ => Err EAttribute
  | LVSofa n => match alookup n views with Some w => Ok (CRef (ls_id (lv_sofa w))) | None => Err EKey end
  | LElems l => do l' <- cvs l ;; Ok (CColl "" l')
  | LArr k l => do l' <- cvs l ;; Ok (CColl k l')
  | LLst k l => do l' <- cvs l ;; Ok (CColl k l')
  end.
Definition canon_obj (s : schema) (views : list (string * lview)) (objs : list (xid * lobj)) (o : lobj) : res (xid * cfs) :=
  match sch_find s (lo_type o) with
  | None => Err ETypeNotFound
  | Some ti =>
    do fs <- mapM (fun fd => do v <- cv views objs (lslot o (fd_name fd)) ;; Ok (fd_xname fd, v)) (ti_feats ti) ;;
    Ok (lo_id o, mkCfs (lo_type o) (sort_s fs))
  end.
Definition member_id (objs : list (xid * lobj)) (k : xid) : res xid :=
  match zlookup k objs with Some o => Ok (lo_id o) | None => Err EKey end.
Definition canon_view (objs : list (xid * lobj)) (v : lview) : res csofa :=
  let so := lv_sofa v in
  do ms <- mapM (member_id objs) (lv_members v) ;;
  do arr <- match ls_arr so with Some k => do i <- member_id objs k ;; Ok (Some i) | None => Ok None end ;;
  Ok (mkCsofa (ls_id so) (ls_num so) (ls_name so) (ls_text so) (ls_mime so) (ls_uri so) arr (zsort ms)).
Definition canon_loaded (s : schema) (c : lcas) : res ccas :=
  do sofas <- mapM (fun nv => canon_view (lc_objs c) (snd nv)) (lc_views c) ;;
  do fss <- mapM (fun ko => canon_obj s (lc_views c) (lc_objs c) (snd ko))
                 (filter (fun ko => negb (String.eqb (lo_type (snd ko)) T_NULL)) (lc_objs c)) ;;
  Ok (mkCcas (sort_by cs_id sofas) (sort_by fst fss)).

(* ---- C17: the document without the elements of unknown type ---- *)
Definition is_other (e : xelem) : bool := negb (is_sofa e || is_view e).       (* the `else` branch of the loop *)
Definition unknown (s : schema) (e : xelem) : bool :=
  is_other e && match sch_find s (reader_tname (x_ns e) (x_tag e)) with None => true | Some _ => false end.
(* the ids the lenient reader remembers *)
Definition dropped_id (e : xelem) : list xid :=
  match xattr e A_ID with
  | Some a => if String.eqb a "" then [] else match s2z a with Some i => [i] | None => [] end
  | None => []
  end.
Definition dropped_ids (s : schema) (d : xdoc) : list xid := flat_map dropped_id (filter (unknown s) d).
Definition keep_tok (ids : list xid) (t : string) : bool :=
  match s2z t with Some i => negb (memZ i ids) | None => true end.
Definition drop_members (ids : list xid) (e : xelem) : xelem :=
  if is_view e then
    mkX (x_ns e) (x_tag e)
        (map (fun kv => if String.eqb (fst kv) "members" then (fst kv, join (filter (keep_tok ids) (split_ws (snd kv)))) else kv)
             (x_attrs e)) (x_kids e)
  else e.
Definition drop_unknown (s : schema) (d : xdoc) : xdoc :=
  map (drop_members (dropped_ids s d)) (filter (fun e => negb (unknown s e)) d).
Definition with_lenient (b : bool) (r : res lcas) : res lcas :=
  match r with
  | Ok c => Ok (mkLc (lc_views c) (lc_objs c) (lc_next_id c) (lc_next_sofa c) b)
  | Err e => Err e | OutOfFuel => OutOfFuel
  end.

(* ---- C17: view handles (Cas._copy copies _lenient by value since 779cf12; everything else is shared) ---- *)
Record handle := mkH { h_view : string; h_lenient : bool }.
Definition cas_handle (c : lcas) : handle := mkH INITIAL (lc_lenient c).            (* the Cas object load returns *)
(* get_view(name) / create_view(name) called on a handle: result = self._copy() with another current view *)
Definition copy_handle (h : handle) (name : string) : handle := mkH name (h_lenient h).
Definition copy_handle_old (h : handle) (name : string) : handle := mkH name false.  (* before 779cf12: Cas(typesystem) *)
Fixpoint derive (h : handle) (path : list string) : handle :=
  match path with [] => h | n :: r => derive (copy_handle h n) r end.
(* Cas.add through a handle: the guard *)
Definition handle_add (s : schema) (h : handle) (tn : tname) : res unit := add_guard s (h_lenient h) tn.

(* ---- C05: the content a document describes, as a CAS of this library: every Cas has an _InitialView; when the
        document has no such sofa the pre-created one gets the next free xmi:id and sofaNum (941f890) ---- *)
Definition zmax_list (l : list Z) : Z := fold_left Z.max l 0.
Definition with_initial (cc : ccas) : ccas :=
  if existsb (fun c => String.eqb (cs_name c) INITIAL) (cc_sofas cc) then cc
  else mkCcas (sort_by cs_id (mkCsofa (zmax_list (map cs_id (cc_sofas cc) ++ map fst (cc_fs cc))%list + 1)
                                      (zmax_list (map cs_num (cc_sofas cc)) + 1) INITIAL None None None None []
                              :: cc_sofas cc))
              (cc_fs cc).
Definition res_map {A B} (f : A -> B) (r : res A) : res B :=
  match r with Ok a => Ok (f a) | Err e => Err e | OutOfFuel => OutOfFuel end.

(* ---- C05: presentations of one document: generated by permuting the elements (forward references, sofas and views
        anywhere), permuting the attributes of elements, and omitting a View element without members ---- *)
Definition attr_perm (e e' : xelem) : Prop :=
  x_ns e = x_ns e' /\ x_tag e = x_tag e' /\ Permutation (x_attrs e) (x_attrs e') /\ x_kids e = x_kids e'.
Definition empty_view (e : xelem) : Prop :=
  is_view e = true /\ split_ws (match xattr e "members" with Some a => a | None => "" end) = [].
Inductive pres_step : xdoc -> xdoc -> Prop :=
 | ps_perm d d' : Permutation d d' -> pres_step d d'
 | ps_attrs d d' : Forall2 attr_perm d d' -> pres_step d d'
 | ps_omit d1 e d2 : empty_view e -> pres_step (d1 ++ e :: d2)%list (d1 ++ d2)%list.
Inductive presentation_equiv : xdoc -> xdoc -> Prop :=
 | pe_refl d : presentation_equiv d d
 | pe_step d d' d'' : pres_step d d' -> presentation_equiv d' d'' -> presentation_equiv d d''.
(* an XML element has no two attributes of one name *)
Fixpoint nodup_sb (l : list string) : bool := match l with [] => true | x :: r => negb (memb x r) && nodup_sb r end.
Definition attrs_nodupb (d : xdoc) : bool := forallb (fun e => nodup_sb (map fst (x_attrs e))) d.

(* ---- C05: boolean premises of load_xmi_is_denotation ----
   What a TypeSystem guarantees about the schema it answers with (C10/C11), and what an XML parser guarantees about an
   element, stated as data so that the harness can count the cases that satisfy them. *)
Definition fkind_eqb (a b : fkind) : bool :=
  match a, b with
  | FPrim PInt, FPrim PInt | FPrim PFlt, FPrim PFlt | FPrim PBool, FPrim PBool | FPrim PStr, FPrim PStr => true
  | FStrColl, FStrColl | FBytes, FBytes | FIdColl, FIdColl | FRef, FRef => true
  | FTokColl PInt, FTokColl PInt | FTokColl PFlt, FTokColl PFlt | FTokColl PBool, FTokColl PBool
  | FTokColl PStr, FTokColl PStr => true
  | _, _ => false
  end.
Definition reserved_free (n : string) : bool := negb (String.eqb n "self_" || String.eqb n "type_").
Definition ti_okb (s : schema) (ti : tinfo) : bool :=
  let anc := ti_anc ti in
  nodup_sb (map fd_name (ti_feats ti))
  && forallb (fun fd => String.eqb (fd_name fd) (pyname (fd_xname fd)) && reserved_free (fd_xname fd)
                        && negb (String.eqb (fd_xname fd) A_ID)) (ti_feats ti)
  && (negb (memb T_ANNOTATION_BASE anc) ||
      forallb (fun fd => negb (String.eqb (fd_name fd) "sofa") || fkind_eqb (fkind_of s fd) FRef) (ti_feats ti))
  && (negb (memb T_ANNOTATION anc) ||
      forallb (fun fd => negb (String.eqb (fd_name fd) "begin" || String.eqb (fd_name fd) "end")
                         || fkind_eqb (fkind_of s fd) (FPrim PInt)) (ti_feats ti))
  && (negb (memb T_ANNOTATION anc) || memb T_ANNOTATION_BASE anc)
  && Bool.eqb (memb T_STRING_ARRAY anc) (String.eqb (ti_name ti) T_STRING_ARRAY)
  && (negb (is_array_name (ti_name ti)) ||
      match ti_feats ti with
      | [fd] => String.eqb (fd_name fd) "elements" && String.eqb (fd_xname fd) "elements" && String.eqb (fd_range fd) T_TOP
      | _ => false
      end).
Definition schema_okb (s : schema) : bool :=
  forallb (ti_okb s) s && negb (is_primitive s T_TOP)
  && match sch_find s T_NULL with Some ti => match ti_feats ti with [] => true | _ => false end | None => true end.
(* an element: attribute names distinct (also after the python-name remapping), no name that the remapping would hit,
   child elements only where the format puts them: under string array / string list features and under StringArray *)
Definition kid_okb (s : schema) (ti : tinfo) (k : string) : bool :=
  negb (String.eqb k A_ID) && reserved_free k &&
  (if is_array_name (ti_name ti) then String.eqb (ti_name ti) T_STRING_ARRAY && String.eqb k "elements"
   else existsb (fun fd => String.eqb (fd_xname fd) k && fkind_eqb (fkind_of s fd) FStrColl) (ti_feats ti)).
Definition elem_okb (s : schema) (e : xelem) : bool :=
  match sch_find s (reader_tname (x_ns e) (x_tag e)) with
  | None => false
  | Some ti =>
    nodup_sb (map (fun kv => pyname (fst kv)) (x_attrs e))
    && forallb (fun kv => reserved_free (fst kv)) (x_attrs e)
    && forallb (fun kv => kid_okb s ti (fst kv)) (x_kids e)
  end.
(* premise of lenient_is_filter: the xmi:id of every dropped element is absent, empty or a number (int() of anything
   else raises inside the lenient branch itself) *)
Definition dropped_ids_okb (s : schema) (d : xdoc) : bool :=
  forallb (fun e => match xattr e A_ID with
                    | Some a => String.eqb a "" || match s2z a with Some _ => true | None => false end
                    | None => true
                    end) (filter (unknown s) d).

(* ---- C05: the remaining boolean premises of load_xmi_is_denotation ---- *)
(* the element's namespace and tag name its type as the UIMA rule says, and only cas:NULL is of the type uima.cas.NULL *)
Definition names_okb (d : xdoc) : bool :=
  forallb (fun e => negb (is_fs e) ||
     (opt_eqb String.eqb (type_of_elem (x_ns e) (x_tag e)) (Some (reader_tname (x_ns e) (x_tag e)))
      && negb (String.eqb (reader_tname (x_ns e) (x_tag e)) T_NULL))) d.
(* only annotations have a feature called sofa (Cas.add overwrites any attribute of that name), and they all have it *)
Definition sofa_feat_okb (s : schema) : bool :=
  forallb (fun ti => (negb (has_feat ti "sofa") || memb T_ANNOTATION_BASE (ti_anc ti))
                     && (negb (memb T_ANNOTATION (ti_anc ti)) || has_feat ti "sofa")) s.
Definition sofa_name (e : xelem) : string := match xattr e "sofaID" with Some a => a | None => "" end.
(* view names are distinct and the document has the _InitialView sofa *)
Definition sofas_okb (d : xdoc) : bool :=
  nodup_sb (map sofa_name (filter is_sofa d)) && memb INITIAL (map sofa_name (filter is_sofa d)).
(* an annotation is a member of the view of its own sofa only *)
Definition member_okb (s : schema) (d : xdoc) (so m : xid) : bool :=
  forallb (fun e => negb (is_other e) || negb (match x_id e with Ok i => Z.eqb i m | _ => false end) ||
     match sch_find s (reader_tname (x_ns e) (x_tag e)) with
     | Some ti => negb (has_feat ti "sofa") ||
                  match xattr e "sofa" with Some a => match s2z a with Some z => Z.eqb z so | None => false end | None => false end
     | None => false
     end) d.
Definition members_okb (s : schema) (d : xdoc) : bool :=
  forallb (fun e => match dec_view e with Ok v => forallb (member_okb s d (fst v)) (snd v) | _ => false end) (filter is_view d).
(* the ids of cas:NULL and of the feature structure elements are pairwise distinct (implied by doc_ok_xmi, which says it
   of the two kinds separately; kept as a premise of its own to spare the proof a partition argument) *)
Definition other_ids_okb (d : xdoc) : bool :=
  match mapM x_id (filter is_other d) with Ok l => nodupZ l | _ => false end.
Definition reader_okb (parse_flt : string -> option flt) (s : schema) (d : xdoc) : bool :=
  doc_ok_xmi parse_flt s d && schema_okb s && sofa_feat_okb s && names_okb d
  && forallb (elem_okb s) (filter is_other d) && sofas_okb d && members_okb s d && other_ids_okb d.
(* the same without the requirement that the document has an _InitialView sofa: view names distinct only *)
Definition sofas_nodupb (d : xdoc) : bool := nodup_sb (map sofa_name (filter is_sofa d)).
Definition reader_okb0 (parse_flt : string -> option flt) (s : schema) (d : xdoc) : bool :=
  doc_ok_xmi parse_flt s d && schema_okb s && sofa_feat_okb s && names_okb d
  && forallb (elem_okb s) (filter is_other d) && sofas_nodupb d && members_okb s d && other_ids_okb d.

(* ---- totality of the reader: what a document must satisfy, beyond reader_okb0, for load_xmi not to raise ----
   _parse_sofa passes the attributes of a Sofa element on as keywords (an unknown one is a TypeError); so does the attrs
   constructor of a feature structure; the post-processing loop indexes sofas[value] for the sofa feature of every
   subtype of AnnotationBase (KeyError for an absent attribute and for "0"); a reference written as "0" is looked up like
   any other id, so the cas:NULL element must be there. *)
Definition sofa_total_okb (e : xelem) : bool := forallb (fun kv => memb (fst kv) sofa_attr_names) (x_attrs e).
Definition attrs_known (ti : tinfo) (e : xelem) : bool :=
  forallb (fun kv => String.eqb (fst kv) A_ID || memb (pyname (fst kv)) (map fd_name (ti_feats ti))) (x_attrs e).
Definition other_total_okb (s : schema) (e : xelem) : bool :=
  match sch_find s (reader_tname (x_ns e) (x_tag e)) with
  | Some ti =>
    attrs_known ti e
    && (negb (memb T_ANNOTATION_BASE (ti_anc ti) && has_feat ti "sofa")
        || match xattr e "sofa" with
           | Some a => match s2z a with Some z => negb (z =? 0) | None => false end
           | None => false
           end)
  | None => false
  end.
Definition total_okb (s : schema) (d : xdoc) : bool :=
  forallb sofa_total_okb (filter is_sofa d) && forallb (other_total_okb s) (filter is_other d) && existsb is_null d.
