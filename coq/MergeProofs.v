(* MergeProofs.v — lemmas and theorems about the model of merge_typesystems (Merge.v). *)
From Cassis Require Import Base TS TSProofs Merge.
From Coq Require Import Arith.
