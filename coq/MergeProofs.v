(* MergeProofs.v — lemmas and theorems about the model of merge_typesystems (Merge.v).
   Part 1: the hierarchy skeleton (WFh of the type system with all features erased holds between any two steps of a
           merge, whereas WFh itself does not: a copied feature may name a range type that is merged later) and the C10
           query specifications under it.
   Part 2: re-parenting preserves WFh (child link moved, ghost ranks of the moved subtree shifted above the new parent).
   Part 3: every step of the merge preserves the skeleton invariant; what the steps keep (types stay registered,
           features are only added, every stored feature names built-in or declared types, own features keep their domain).
   Part 4: the readiness loop: invariant / post-condition rule, termination within the round bound.
   Part 5: merge_WFh, merge_terminates, merge_contains_all_types, merge_supertype_most_specific, the error kind,
           conflicting supertypes, merge_contains_all_features, merge_no_foreign_refs.
   Part 6: the feature invariant WFf of C11 through a merge (create_type / _add_feature as in TSProofs but under the
           skeleton invariant; re-parenting suspends completeness for the moved subtree and the inherited list restores
           it), merge_WFf, conflicting feature declarations.
   Part 7: nothing comes from nowhere (every type and own feature of the result is built in or declared); order
           independence for inputs without competing supertypes. *)
From Cassis Require Import Base TS TSProofs Merge.
From Coq Require Import Arith.

(* ================================================================================================ the hierarchy skeleton *)
(* While a merge is under way a copied feature may name a range type that is merged only later, so the full hierarchy
   invariant WFh (which asks every feature reference to be registered) does not hold between two steps.  What does hold
   is WFh of the SKELETON: the type system with all features (and descriptions, constructor fields) erased.  Every
   hierarchy query answers the same on a type system and on its skeleton, so the query specifications of C10 apply. *)
Definition strip_ty (t : ty) : ty := mkTy (t_name t) (t_super t) None (t_children t) [] [] None [] (t_rank t).
Definition strip (ts : tsys) : tsys := map strip_ty ts.
Definition HI (ts : tsys) : Prop := WFh (strip ts).

Lemma strip_shape : keeps_shape strip_ty.
Proof. intros t. repeat split. Qed.
Lemma strip_after g : keeps_shape g -> (forall t, strip_ty (g t) = strip_ty t).
Proof. intros K t. destruct (K t) as (H1 & H2 & H3 & H4). unfold strip_ty. rewrite H1, H2, H3, H4. reflexivity. Qed.
Lemma strip_map g ts : keeps_shape g -> strip (map g ts) = strip ts.
Proof. intros K. unfold strip. rewrite map_map. apply map_ext. apply strip_after. exact K. Qed.

(* ---- queries commute with shape-preserving maps ---- *)
Lemma walks_up_map g ts : keeps_shape g -> forall k a b, walks_up k (map g ts) a b = walks_up k ts a b.
Proof.
  intros K. induction k as [|k IH]; intros a b; [reflexivity|]. cbn [walks_up].
  destruct (String.eqb a b); [reflexivity|]. rewrite (find_map_shape ts g b K).
  destruct (find_ty ts b) as [t|]; cbn [option_map]; [|reflexivity].
  rewrite (proj1 (proj2 (K t))). destruct (t_super t); [apply IH|reflexivity].
Qed.
Lemma short_matches_map g ts n : keeps_shape g -> short_matches (map g ts) n = map g (short_matches ts n).
Proof.
  intros K. unfold short_matches. induction ts as [|x r IH]; [reflexivity|]. cbn [map filter].
  rewrite (proj1 (K x)). destruct (String.eqb (short_name (t_name x)) n); cbn [map]; rewrite IH; reflexivity.
Qed.
Definition res_map {A B} (f : A -> B) (r : res A) : res B :=
  match r with Ok a => Ok (f a) | Err e => Err e | OutOfFuel => OutOfFuel end.
Lemma get_type_map g ts n : keeps_shape g -> get_type (map g ts) n = res_map g (get_type ts n).
Proof.
  intros K. unfold get_type. rewrite (find_map_shape ts g n K). destruct (find_ty ts n); [reflexivity|].
  cbn [option_map]. destruct (has_dot n); [reflexivity|]. rewrite (short_matches_map g ts n K).
  destruct (short_matches ts n) as [|x [|y r]]; reflexivity.
Qed.
Lemma subsumes_ty_map g ts a b : keeps_shape g -> subsumes_ty (map g ts) (g a) (g b) = subsumes_ty ts a b.
Proof.
  intros K. unfold subsumes_ty. rewrite (proj1 (K a)), (proj1 (K b)), (proj2 (proj2 (proj2 (K b)))).
  rewrite (walks_up_map g ts K). reflexivity.
Qed.
Lemma ts_subsumes_map g ts p c : keeps_shape g -> ts_subsumes (map g ts) p c = ts_subsumes ts p c.
Proof.
  intros K. unfold ts_subsumes. rewrite !(get_type_map g ts _ K).
  destruct (get_type ts p) as [tp| |]; cbn [res_map bind]; try reflexivity.
  destruct (get_type ts c) as [tc| |]; cbn [res_map bind]; try reflexivity.
  apply subsumes_ty_map. exact K.
Qed.
Lemma is_below_map g ts a d : keeps_shape g -> is_below (map g ts) a d = is_below ts a d.
Proof.
  intros K. unfold is_below. rewrite (find_map_shape ts g d K). destruct (find_ty ts d) as [td|]; cbn [option_map]; [|reflexivity].
  rewrite (proj2 (proj2 (proj2 (K td)))), (walks_up_map g ts K). reflexivity.
Qed.
Lemma below_map g ts a d : keeps_shape g -> (below (map g ts) a d <-> below ts a d).
Proof.
  intros K. split; apply below_transfer.
  - intros n t' H. rewrite (find_map_shape ts g n K) in H. destruct (find_ty ts n) as [t|]; [|discriminate].
    inversion H. exists t. split; [reflexivity|]. symmetry. apply (proj1 (proj2 (K t))).
  - intros n t H. exists (g t). rewrite (find_map_shape ts g n K), H. split; [reflexivity|apply (proj1 (proj2 (K t)))].
Qed.

(* ---- the C10 query specifications under the skeleton invariant ---- *)
Lemma HI_find ts n t : find_ty ts n = Some t -> find_ty (strip ts) n = Some (strip_ty t).
Proof. intros H. unfold strip. rewrite (find_map_shape ts strip_ty n strip_shape), H. reflexivity. Qed.
Lemma HI_nodup ts : HI ts -> NoDup (map t_name ts).
Proof.
  intros W. pose proof (wf_nodup _ W) as H. unfold strip in H. rewrite map_map in H.
  erewrite map_ext in H; [exact H|]. reflexivity.
Qed.
Lemma HI_subsumes ts a b ta tb : HI ts -> find_ty ts a = Some ta -> find_ty ts b = Some tb ->
  exists r, ts_subsumes ts a b = Ok r /\ (r = true <-> below ts a b).
Proof.
  intros W Ha Hb. destruct (ts_subsumes_spec (strip ts) a b _ _ W (HI_find _ _ _ Ha) (HI_find _ _ _ Hb)) as (r & Hr & Hiff).
  unfold strip in Hr. rewrite (ts_subsumes_map strip_ty ts a b strip_shape) in Hr. exists r. split; [exact Hr|].
  rewrite Hiff. apply below_map. exact strip_shape.
Qed.
Lemma HI_is_below ts a d td : HI ts -> find_ty ts d = Some td -> (is_below ts a d = true <-> below ts a d).
Proof.
  intros W Hd. rewrite <- (is_below_map strip_ty ts a d strip_shape), <- (below_map strip_ty ts a d strip_shape).
  fold (strip ts). pose proof (HI_find _ _ _ Hd) as Hd'. destruct (find_ty_In _ _ _ Hd') as [Hin Hn].
  unfold is_below. rewrite Hd'.
  destruct (walks_up_spec (strip ts) a W (S (t_rank (strip_ty td))) (strip_ty td) Hin (Nat.lt_succ_diag_r _)) as (r & Hr & Hiff).
  rewrite Hn in Hr, Hiff. rewrite Hr. rewrite <- Hiff. destruct r; split; congruence.
Qed.
Lemma is_below_sound ts a d : HI ts -> is_below ts a d = true -> below ts a d.
Proof.
  intros W H. unfold is_below in H. destruct (find_ty ts d) as [td|] eqn:E; [|discriminate].
  apply (HI_is_below ts a d td W E). unfold is_below. rewrite E. exact H.
Qed.

(* ---- create_type on the skeleton ---- *)
Lemma strip_add_child sup name t : strip_ty (add_child sup name t) = add_child sup name (strip_ty t).
Proof.
  unfold add_child. cbn [strip_ty t_name t_children]. destruct (String.eqb (t_name t) sup); [|reflexivity].
  destruct (memb name (t_children t)); reflexivity.
Qed.
Lemma create_type_strip ts name supn desc ts' : create_type ts name supn desc = Ok ts' ->
  create_type (strip ts) name supn None = Ok (strip ts').
Proof.
  unfold create_type. unfold strip at 1 2. rewrite (registered_map_shape ts strip_ty name strip_shape).
  destruct (registered ts name); [discriminate|]. rewrite (get_type_map strip_ty ts supn strip_shape).
  destruct (get_type ts supn) as [p| |]; cbn [bind res_map]; try discriminate.
  cbn [strip_ty t_name]. destruct (memb (t_name p) final_types); [discriminate|].
  destruct (String.eqb name TOP).
  - intros H. inversion H. unfold strip. rewrite map_app. reflexivity.
  - destruct (inherit_all [] (all_features p)) as [inh| |]; cbn [bind]; try discriminate.
    intros H. inversion H. unfold strip. rewrite map_app, !map_map. cbn [map].
    change (all_features (strip_ty p)) with (@nil feat). cbn [inherit_all bind]. f_equal. f_equal.
    apply map_ext. intros t. symmetry. apply strip_add_child.
Qed.
Lemma create_type_HI ts name supn desc ts' : HI ts -> create_type ts name supn desc = Ok ts' -> HI ts'.
Proof. intros W H. eapply create_type_WFh; [exact W|eapply create_type_strip; exact H]. Qed.

Lemma find_map_name (g : ty -> ty) ts n : (forall t, t_name (g t) = t_name t) -> find_ty (map g ts) n = option_map g (find_ty ts n).
Proof.
  intros K. unfold find_ty. induction ts as [|y r IH]; cbn [map find option_map]; [reflexivity|].
  rewrite K. destruct (String.eqb (t_name y) n); [reflexivity|exact IH].
Qed.
Lemma WFh_is_below ts a d td : WFh ts -> find_ty ts d = Some td -> (is_below ts a d = true <-> below ts a d).
Proof.
  intros W Hd. destruct (find_ty_In _ _ _ Hd) as [Hin Hn]. unfold is_below. rewrite Hd.
  destruct (walks_up_spec ts a W (S (t_rank td)) td Hin (Nat.lt_succ_diag_r _)) as (r & Hr & Hiff).
  rewrite Hn in Hr, Hiff. rewrite Hr, <- Hiff. destruct r; split; congruence.
Qed.

(* ---- what the re-parenting assignments do to one type ---- *)
Lemma relink_name ts x oldp newp k t : t_name (relink_ty ts x oldp newp k t) = t_name t.
Proof.
  unfold relink_ty. cbv zeta.
  assert (E : t_name (add_child newp x (remove_child oldp x t)) = t_name t).
  { rewrite add_child_name. unfold remove_child. destruct (String.eqb (t_name t) oldp); reflexivity. }
  destruct (String.eqb (t_name t) x); destruct (is_below ts x (t_name t)); cbn [set_super shift_rank t_name]; exact E.
Qed.
Lemma remove_child_fields p x t :
  t_name (remove_child p x t) = t_name t /\ t_super (remove_child p x t) = t_super t /\ t_own (remove_child p x t) = t_own t
  /\ t_inh (remove_child p x t) = t_inh t /\ t_rank (remove_child p x t) = t_rank t.
Proof. unfold remove_child. destruct (String.eqb (t_name t) p); repeat split. Qed.
Lemma relink_own ts x oldp newp k t : t_own (relink_ty ts x oldp newp k t) = t_own t.
Proof.
  unfold relink_ty. cbv zeta. destruct (remove_child_fields oldp x t) as (E1 & _ & E3 & _).
  destruct (String.eqb (t_name t) x); destruct (is_below ts x (t_name t)); cbn [set_super shift_rank t_own]; rewrite add_child_own; exact E3.
Qed.
Lemma relink_inh ts x oldp newp k t : t_inh (relink_ty ts x oldp newp k t) = t_inh t.
Proof.
  unfold relink_ty. cbv zeta. destruct (remove_child_fields oldp x t) as (E1 & _ & _ & E4 & _).
  destruct (String.eqb (t_name t) x); destruct (is_below ts x (t_name t)); cbn [set_super shift_rank t_inh]; rewrite add_child_inh; exact E4.
Qed.
Lemma relink_super ts x oldp newp k t :
  t_super (relink_ty ts x oldp newp k t) = if String.eqb (t_name t) x then Some newp else t_super t.
Proof.
  unfold relink_ty. cbv zeta. destruct (remove_child_fields oldp x t) as (E1 & E2 & _).
  destruct (String.eqb (t_name t) x); destruct (is_below ts x (t_name t)); cbn [set_super shift_rank t_super]; rewrite ?add_child_super; try reflexivity; exact E2.
Qed.
Lemma relink_rank ts x oldp newp k t :
  t_rank (relink_ty ts x oldp newp k t) = if is_below ts x (t_name t) then t_rank t + k else t_rank t.
Proof.
  unfold relink_ty. cbv zeta. destruct (remove_child_fields oldp x t) as (E1 & _ & _ & _ & E5).
  destruct (String.eqb (t_name t) x); destruct (is_below ts x (t_name t)); cbn [set_super shift_rank t_rank]; rewrite add_child_rank, E5; reflexivity.
Qed.
Lemma relink_children_eq ts x oldp newp k t :
  t_children (relink_ty ts x oldp newp k t) = t_children (add_child newp x (remove_child oldp x t)).
Proof.
  unfold relink_ty. cbv zeta.
  destruct (String.eqb (t_name t) x); destruct (is_below ts x (t_name t)); reflexivity.
Qed.
Lemma filter_neq_In x c l : In c (filter (fun y => negb (String.eqb y x)) l) <-> c <> x /\ In c l.
Proof.
  rewrite filter_In. split.
  - intros [H1 H2]. split; [|exact H1]. intros ->. rewrite String.eqb_refl in H2. discriminate.
  - intros [H1 H2]. split; [exact H2|]. apply String.eqb_neq in H1. rewrite H1. reflexivity.
Qed.
Lemma relink_children ts x oldp newp k p c :
  In c (t_children (relink_ty ts x oldp newp k p)) <->
  (c <> x /\ In c (t_children p)) \/ (c = x /\ t_name p <> oldp /\ In x (t_children p)) \/ (c = x /\ t_name p = newp).
Proof.
  rewrite relink_children_eq. unfold add_child, remove_child.
  destruct (String.eqb (t_name p) oldp) eqn:Eo; cbn [set_children t_name t_children].
  - apply String.eqb_eq in Eo. destruct (String.eqb (t_name p) newp) eqn:En.
    + apply String.eqb_eq in En.
      destruct (memb x (filter (fun y => negb (String.eqb y x)) (t_children p))) eqn:Em.
      * apply memb_In in Em. apply filter_neq_In in Em. destruct Em as [Em _]. exfalso. apply Em. reflexivity.
      * cbn [set_children t_children]. rewrite in_app_iff, (filter_neq_In x c (t_children p)). cbn [In]. split.
        -- intros [H|[H|[]]]; [left; exact H|right; right; split; [symmetry; exact H|exact En]].
        -- intros [H|[(_ & H & _)|(H & _)]]; [left; exact H|contradiction|right; left; symmetry; exact H].
    + apply String.eqb_neq in En. rewrite (filter_neq_In x c (t_children p)). split.
      * intros H. left. exact H.
      * intros [H|[(_ & H & _)|(_ & H)]]; [exact H|contradiction|contradiction].
  - apply String.eqb_neq in Eo. destruct (String.eqb (t_name p) newp) eqn:En.
    + apply String.eqb_eq in En. destruct (memb x (t_children p)) eqn:Em.
      * apply memb_In in Em. split.
        -- intros H. destruct (String.eqb c x) eqn:E; [apply String.eqb_eq in E; right; right; auto|apply String.eqb_neq in E; left; auto].
        -- intros [[_ H]|[(-> & _ & H)|(-> & _)]]; assumption.
      * cbn [set_children t_children]. rewrite in_app_iff. cbn [In]. split.
        -- intros [H|[H|[]]].
           ++ left. split; [|exact H]. intros ->. apply memb_In in H. congruence.
           ++ right. right. auto.
        -- intros [[_ H]|[(-> & _ & H)|(-> & _)]]; auto.
    + apply String.eqb_neq in En. split.
      * intros H. destruct (String.eqb c x) eqn:E; [apply String.eqb_eq in E; subst c; right; left; auto|apply String.eqb_neq in E; left; auto].
      * intros [[_ H]|[(-> & _ & H)|(_ & H)]]; [exact H|exact H|contradiction].
Qed.
Lemma relink_children_nodup ts x oldp newp k p : NoDup (t_children p) -> NoDup (t_children (relink_ty ts x oldp newp k p)).
Proof.
  intros Hnd. rewrite relink_children_eq.
  assert (H1 : NoDup (t_children (remove_child oldp x p))).
  { unfold remove_child. destruct (String.eqb (t_name p) oldp); [|exact Hnd]. cbn [set_children t_children]. apply NoDup_filter. exact Hnd. }
  unfold add_child. destruct (String.eqb (t_name (remove_child oldp x p)) newp); [|exact H1].
  destruct (memb x (t_children (remove_child oldp x p))) eqn:Em; [exact H1|].
  cbn [set_children t_children]. apply NoDup_app_one; [exact H1|]. intros H. apply memb_In in H. congruence.
Qed.

Section Relink.
  Variables (ts : tsys) (x oldp newp : tname) (k : nat) (tx tn : ty).
  Hypothesis W : WFh ts.
  Hypothesis Hx : find_ty ts x = Some tx.
  Hypothesis Hsx : t_super tx = Some oldp.
  Hypothesis Hn : find_ty ts newp = Some tn.
  Hypothesis Hnb : ~ below ts x newp.
  Hypothesis Hk : t_rank tn < k.

  Let g := relink_ty ts x oldp newp k.
  Lemma relink_find n : find_ty (relink ts x oldp newp k) n = option_map g (find_ty ts n).
  Proof. apply find_map_name. intros t. apply relink_name. Qed.
  Lemma relink_registered n : registered (relink ts x oldp newp k) n = registered ts n.
  Proof. unfold registered. rewrite relink_find. destruct (find_ty ts n); reflexivity. Qed.

  Lemma relink_WFh : WFh (relink ts x oldp newp k).
  Proof.
    assert (Hnames : map t_name (relink ts x oldp newp k) = map t_name ts).
    { unfold relink. rewrite map_map. apply map_ext. intros t. apply relink_name. }
    destruct (find_ty_In _ _ _ Hx) as [Hxin Hxn]. destruct (find_ty_In _ _ _ Hn) as [Hnin Hnn].
    assert (Hb : forall t, In t ts -> (is_below ts x (t_name t) = true <-> below ts x (t_name t))).
    { intros t Hin. apply (WFh_is_below ts x (t_name t) t W). apply (In_find_ty _ _ (wf_nodup _ W) Hin). }
    constructor.
    - rewrite Hnames. apply (wf_nodup _ W).
    - destruct (wf_top _ W) as (t & Ht & Hnone). exists (g t). rewrite relink_find, Ht. split; [reflexivity|].
      unfold g. rewrite relink_super. destruct (find_ty_In _ _ _ Ht) as [_ Htn].
      destruct (String.eqb (t_name t) x) eqn:E; [|exact Hnone].
      apply String.eqb_eq in E. rewrite Htn in E. pose proof Hx as Hx'. rewrite <- E, Ht in Hx'. inversion Hx' as [Hxx]. rewrite <- Hxx in Hsx. congruence.
    - intros t' Hin Hs. apply in_map_iff in Hin. destruct Hin as (t & <- & Hin). rewrite relink_name.
      rewrite relink_super in Hs. destruct (String.eqb (t_name t) x); [discriminate|]. apply (wf_root _ W t Hin Hs).
    - intros t' s Hin Hs. apply in_map_iff in Hin. destruct Hin as (t & <- & Hin).
      rewrite relink_super in Hs. rewrite relink_rank.
      destruct (String.eqb (t_name t) x) eqn:E.
      + apply String.eqb_eq in E. inversion Hs; subst s. exists (g tn). rewrite relink_find, Hn. split; [reflexivity|].
        unfold g. rewrite relink_rank.
        assert (Hbx : is_below ts x (t_name t) = true) by (apply (Hb t Hin); rewrite E; apply below_refl).
        rewrite Hbx. destruct (is_below ts x (t_name tn)) eqn:Ebn.
        * exfalso. apply Hnb. rewrite <- Hnn. apply (Hb tn Hnin). exact Ebn.
        * lia.
      + apply String.eqb_neq in E. destruct (wf_super _ W t s Hin Hs) as (p & Hp & Hlt).
        destruct (find_ty_In _ _ _ Hp) as [Hpin Hpn]. exists (g p). rewrite relink_find, Hp. split; [reflexivity|].
        unfold g. rewrite relink_rank. rewrite Hpn.
        destruct (is_below ts x (t_name t)) eqn:Ebt; destruct (is_below ts x s) eqn:Ebs; try lia.
        * (* parent below x: so is t *)
          exfalso. rewrite <- Hpn in Ebs. apply (Hb p Hpin) in Ebs. rewrite Hpn in Ebs.
          assert (below ts x (t_name t)) as Hbt by (eapply below_step; [apply (In_find_ty _ _ (wf_nodup _ W) Hin)|exact Hs|exact Ebs]).
          apply (Hb t Hin) in Hbt. congruence.
    - intros p' c Hin. apply in_map_iff in Hin. destruct Hin as (p & <- & Hin). rewrite relink_name. unfold g.
      rewrite relink_children.
      pose proof (wf_children _ W p c Hin) as Hold. pose proof (wf_children _ W p x Hin) as Holdx.
      split.
      + intros [[Hcx Hc]|[(-> & Hpo & Hc)|(-> & Hpn')]].
        * apply Hold in Hc. destruct Hc as (tc & Hf & Hs). exists (g tc). rewrite relink_find, Hf. split; [reflexivity|].
          unfold g. rewrite relink_super. destruct (find_ty_In _ _ _ Hf) as [_ Hcn]. rewrite Hcn.
          apply String.eqb_neq in Hcx. rewrite Hcx. exact Hs.
        * exfalso. apply Holdx in Hc. destruct Hc as (tc & Hf & Hs). rewrite Hx in Hf. inversion Hf; subst tc. congruence.
        * exists (g tx). rewrite relink_find, Hx. split; [reflexivity|]. unfold g. rewrite relink_super, Hxn, String.eqb_refl, Hpn'. reflexivity.
      + intros (tc' & Hf' & Hs'). rewrite relink_find in Hf'. destruct (find_ty ts c) as [tc|] eqn:Ec; [|discriminate].
        cbn [option_map] in Hf'. inversion Hf'; subst tc'. unfold g in Hs'. rewrite relink_super in Hs'.
        destruct (find_ty_In _ _ _ Ec) as [_ Hcn]. rewrite Hcn in Hs'. destruct (String.eqb c x) eqn:E.
        * apply String.eqb_eq in E. right. right. split; [exact E|]. congruence.
        * apply String.eqb_neq in E. left. split; [exact E|]. apply Hold. eauto.
    - intros p' Hin. apply in_map_iff in Hin. destruct Hin as (p & <- & Hin). apply relink_children_nodup.
      apply (wf_children_nodup _ W p Hin).
    - intros t' f Hin Hf. apply in_map_iff in Hin. destruct Hin as (t & <- & Hin). unfold g in Hf. rewrite relink_own, relink_inh in Hf.
      destruct (wf_refs _ W t f Hin Hf) as (H1 & H2 & H3). unfold feat_refs_ok. rewrite !relink_registered.
      repeat split; auto. destruct (f_elem f); [rewrite relink_registered; exact H3|exact I].
    - intros t' f Hin Hf. apply in_map_iff in Hin. destruct Hin as (t & <- & Hin). unfold g in Hf. rewrite relink_own in Hf.
      rewrite relink_name. apply (wf_own_dom _ W t f Hin Hf).
  Qed.
End Relink.

(* ---- re-parenting on the skeleton ---- *)
Lemma strip_relink_ty ts x oldp newp k t :
  strip_ty (relink_ty ts x oldp newp k t) = relink_ty (strip ts) x oldp newp k (strip_ty t).
Proof.
  unfold relink_ty. cbv zeta. unfold strip at 1. rewrite (is_below_map strip_ty ts x _ strip_shape).
  unfold add_child, remove_child.
  cbn [strip_ty set_children set_super shift_rank t_name t_children t_super t_desc t_own t_inh t_ctor t_ctor_fn t_rank].
  destruct (String.eqb (t_name t) oldp);
    cbn [strip_ty set_children set_super shift_rank t_name t_children t_super t_desc t_own t_inh t_ctor t_ctor_fn t_rank];
    destruct (String.eqb (t_name t) newp);
    cbn [strip_ty set_children set_super shift_rank t_name t_children t_super t_desc t_own t_inh t_ctor t_ctor_fn t_rank];
    try (destruct (memb x _));
    cbn [strip_ty set_children set_super shift_rank t_name t_children t_super t_desc t_own t_inh t_ctor t_ctor_fn t_rank];
    destruct (String.eqb (t_name t) x); destruct (is_below ts x (t_name t)); reflexivity.
Qed.
Lemma strip_relink ts x oldp newp k : strip (relink ts x oldp newp k) = relink (strip ts) x oldp newp k.
Proof. unfold relink, strip. rewrite !map_map. apply map_ext. intros t. apply strip_relink_ty. Qed.

Lemma relink_HI ts x oldp newp k tx tn : HI ts -> find_ty ts x = Some tx -> t_super tx = Some oldp ->
  find_ty ts newp = Some tn -> ~ below ts x newp -> t_rank tn < k -> HI (relink ts x oldp newp k).
Proof.
  intros W Hx Hs Hn Hnb Hk. unfold HI. rewrite strip_relink.
  apply (relink_WFh (strip ts) x oldp newp k (strip_ty tx) (strip_ty tn) W (HI_find _ _ _ Hx) Hs (HI_find _ _ _ Hn)); [|exact Hk].
  intros Hb. apply Hnb. apply (below_map strip_ty ts x newp strip_shape). exact Hb.
Qed.

(* ---- feature updates leave the skeleton alone ---- *)
Lemma spread_inh_shape ts x f : keeps_shape (spread_inh ts x f).
Proof. intros d. unfold spread_inh. destruct (is_below ts x (t_name d) && _); repeat split. Qed.
Lemma add_feature_res_strip ts dom f ts' : add_feature_res ts dom f = Ok ts' -> strip ts' = strip ts.
Proof.
  unfold add_feature_res. destruct (add_feature ts dom f) as [ts1| | |] eqn:E; try discriminate.
  - intros H. inversion H; subst ts'. destruct (add_feature_added_inv _ _ _ _ E) as (t & _ & _ & _ & _ & ->).
    apply strip_map. apply spread_shape.
  - intros H. inversion H. reflexivity.
Qed.
Lemma inherit_fn_strip ts x f ts' : inherit_fn ts x f = Ok ts' -> strip ts' = strip ts.
Proof.
  unfold inherit_fn. destruct (find_ty ts x) as [t|]; [|discriminate].
  destruct (find_feat (f_name f) (t_inh t)) as [g|].
  - destruct (feat_eqb g f); [|discriminate]. intros H. inversion H. reflexivity.
  - destruct (existsb _ ts); [discriminate|]. intros H. inversion H. apply strip_map. apply spread_inh_shape.
Qed.
Lemma inherit_list_strip x fs : forall ts ts', inherit_list fn_form x fs ts = Ok ts' -> strip ts' = strip ts.
Proof.
  induction fs as [|f r IH]; intros ts ts' H; cbn [inherit_list] in H; [inversion H; reflexivity|].
  cbn [fn_form inhf] in H. destruct (inherit_fn ts x f) as [ts1| |] eqn:E; cbn [bind] in H; try discriminate.
  rewrite (IH _ _ H). apply (inherit_fn_strip _ _ _ _ E).
Qed.
Lemma merge_features_strip i x fs : forall ts tags r, merge_features fn_form i x fs ts tags = Ok r -> strip (fst r) = strip ts.
Proof.
  induction fs as [|f r0 IH]; intros ts tags r H; cbn [merge_features] in H; [inversion H; reflexivity|].
  cbn [fn_form addf] in H. destruct (add_feature_res ts x f) as [ts1| |] eqn:E; cbn [bind] in H; try discriminate.
  rewrite (IH _ _ _ H). apply (add_feature_res_strip _ _ _ _ E).
Qed.

(* ---- get_type on whatever it returned ---- *)
Lemma get_type_again ts n t : NoDup (map t_name ts) -> get_type ts n = Ok t -> get_type ts (t_name t) = Ok t /\ find_ty ts (t_name t) = Some t.
Proof.
  intros Hnd H. destruct (get_type_ok_inv _ _ _ H) as [Hin _]. pose proof (In_find_ty _ _ Hnd Hin) as Hf.
  split; [apply get_type_full; exact Hf|exact Hf].
Qed.
Lemma HI_subsumes_gen ts p c tp tc : HI ts -> get_type ts p = Ok tp -> get_type ts c = Ok tc ->
  exists r, ts_subsumes ts p c = Ok r /\ (r = true <-> below ts (t_name tp) (t_name tc)).
Proof.
  intros W Hp Hc. unfold ts_subsumes. rewrite Hp, Hc. cbn [bind].
  destruct (get_type_ok_inv _ _ _ Hp) as [Hpin _]. destruct (get_type_ok_inv _ _ _ Hc) as [Hcin _].
  rewrite <- (subsumes_ty_map strip_ty ts tp tc strip_shape).
  destruct (subsumes_ty_spec (strip ts) (strip_ty tp) (strip_ty tc) W (in_map strip_ty _ _ Hpin) (in_map strip_ty _ _ Hcin)) as (r & Hr & Hiff).
  exists r. split; [exact Hr|]. rewrite Hiff. cbn [strip_ty t_name]. apply below_map. exact strip_shape.
Qed.
(* under HI a type's supertype is registered and it is listed among the children of that supertype *)
Lemma HI_super ts t s : HI ts -> In t ts -> t_super t = Some s ->
  exists p, find_ty ts s = Some p /\ In (t_name t) (t_children p).
Proof.
  intros W Hin Hs. pose proof (HI_nodup _ W) as Hnd.
  destruct (wf_super _ W (strip_ty t) s (in_map strip_ty _ _ Hin) Hs) as (p' & Hp' & _).
  unfold strip in Hp'. rewrite (find_map_shape ts strip_ty s strip_shape) in Hp'.
  destruct (find_ty ts s) as [p|] eqn:Ep; [|discriminate]. exists p. split; [reflexivity|].
  destruct (find_ty_In _ _ _ Ep) as [Hpin Hpn].
  pose proof (wf_children _ W (strip_ty p) (t_name t) (in_map strip_ty _ _ Hpin)) as Hc. cbn [strip_ty t_children t_name] in Hc.
  apply Hc. exists (strip_ty t). split; [apply HI_find; apply (In_find_ty _ _ Hnd Hin)|]. cbn [strip_ty t_super]. rewrite Hpn. exact Hs.
Qed.

(* ---- re-parenting and supertype comparison keep the skeleton invariant ---- *)
Lemma reparent_HI ts x oldp newp ts' tx tn : HI ts -> find_ty ts x = Some tx -> t_super tx = Some oldp ->
  get_type ts newp = Ok tn -> ~ below ts x (t_name tn) -> reparent fn_form ts x oldp newp = Ok ts' ->
  HI ts' /\ strip ts' = strip (relink ts x oldp (t_name tn) (S (t_rank tn))).
Proof.
  intros W Hx Hs Hg Hnb H. unfold reparent in H. rewrite Hg in H. cbn [bind] in H.
  destruct (find_ty ts oldp) as [tp|]; [|discriminate].
  destruct (negb (memb x (t_children tp))); [discriminate|].
  destruct (find_ty (relink ts x oldp (t_name tn) (S (t_rank tn))) (t_name tn)) as [tn1|]; [|discriminate].
  pose proof (inherit_list_strip _ _ _ _ H) as E. split; [|exact E]. unfold HI. rewrite E.
  destruct (get_type_again ts newp tn (HI_nodup _ W) Hg) as [_ Hfn].
  apply (relink_HI ts x oldp (t_name tn) (S (t_rank tn)) tx tn W Hx Hs Hfn Hnb). apply Nat.lt_succ_diag_r.
Qed.
Lemma merge_super_HI ts name sup ts' : HI ts -> merge_super fn_form ts name sup = Ok ts' -> HI ts'.
Proof.
  intros W H. unfold merge_super in H. destruct (get_type ts name) as [ex| |] eqn:Eg; cbn [bind] in H; try discriminate.
  destruct (t_super ex) as [exsup|] eqn:Es; [|discriminate].
  destruct (String.eqb sup exsup); [inversion H; subst; exact W|].
  destruct (get_type_again ts name ex (HI_nodup _ W) Eg) as [Hgx Hfx]. destruct (find_ty_In _ _ _ Hfx) as [Hexin _].
  destruct (get_type ts sup) as [tn| |] eqn:Egs.
  - destruct (HI_subsumes_gen ts (t_name ex) sup ex tn W Hgx Egs) as (b1 & Hb1 & Hiff1). rewrite Hb1 in H. cbn [bind] in H.
    destruct b1; [discriminate|].
    destruct (HI_super ts ex exsup W Hexin Es) as (tp & Hfp & _).
    destruct (HI_subsumes_gen ts exsup sup tp tn W (get_type_full _ _ _ Hfp) Egs) as (b2 & Hb2 & Hiff2). rewrite Hb2 in H. cbn [bind] in H.
    destruct b2.
    + eapply reparent_HI; [exact W|exact Hfx|exact Es|exact Egs| |exact H].
      intros Hb. apply Hiff1 in Hb. discriminate.
    + destruct (ts_subsumes ts sup exsup) as [b3| |]; cbn [bind] in H; try discriminate.
      destruct b3; [inversion H; subst; exact W|discriminate].
  - unfold ts_subsumes in H at 1. rewrite Hgx, Egs in H. discriminate.
  - unfold ts_subsumes in H at 1. rewrite Hgx, Egs in H. discriminate.
Qed.
Lemma merge_decl_HI st d st' : HI (m_ts st) -> merge_decl fn_form st d = Ok st' -> HI (m_ts st').
Proof.
  intros W H. unfold merge_decl in H. destruct (t_super (d_ty d)) as [sup|]; [|discriminate].
  destruct (registered (m_ts st) (t_name (d_ty d))).
  - destruct (merge_super fn_form (m_ts st) (t_name (d_ty d)) sup) as [ts1| |] eqn:E; cbn [bind] in H; try discriminate.
    destruct (merge_features fn_form (d_in d) (t_name (d_ty d)) (t_own (d_ty d)) ts1 (m_tags st)) as [r| |] eqn:Ef; cbn [bind] in H; try discriminate.
    inversion H; subst st'. cbn [m_ts]. unfold HI. rewrite (merge_features_strip _ _ _ _ _ _ Ef). eapply merge_super_HI; eassumption.
  - destruct (create_type (m_ts st) (t_name (d_ty d)) sup (t_desc (d_ty d))) as [ts1| |] eqn:E; cbn [bind] in H; try discriminate.
    destruct (merge_features fn_form (d_in d) (t_name (d_ty d)) (t_own (d_ty d)) ts1 (m_tags st)) as [r| |] eqn:Ef; cbn [bind] in H; try discriminate.
    inversion H; subst st'. cbn [m_ts]. unfold HI. rewrite (merge_features_strip _ _ _ _ _ _ Ef). eapply create_type_HI; eassumption.
Qed.

(* ================================================================================================ the loop *)
Lemma pass_shape F : forall l st st' rest, pass F l st = Ok (st', rest) -> incl rest l /\ List.length rest <= List.length l.
Proof.
  induction l as [|d r IH]; intros st st' rest H; cbn [pass] in H.
  - inversion H. split; [intros x Hx; exact Hx|apply le_n].
  - destruct (t_super (d_ty d)) as [s|]; [|discriminate].
    destruct (is_predef s || memb s (m_done st)).
    + destruct (merge_decl F st d) as [st1| |]; cbn [bind] in H; try discriminate.
      destruct (IH _ _ _ H) as [Hi Hl]. split; [intros x Hx; right; apply Hi; exact Hx|cbn [List.length]; lia].
    + destruct (pass F r st) as [[st2 rest2]| |] eqn:E; cbn [bind] in H; try discriminate.
      cbn [fst snd] in H. inversion H; subst st' rest. destruct (IH _ _ _ E) as [Hi Hl].
      split; [intros x [<-|Hx]; [left; reflexivity|right; apply Hi; exact Hx]|cbn [List.length]; lia].
Qed.

Section Loop.
  Variable F : form.
  Variable L : list decl.
  Variable I : mst -> Prop.
  Variable R : decl -> mst -> Prop.
  (* a declaration is processed only when it is ready; the invariant may use that *)
  Definition ready (st : mst) (d : decl) : Prop :=
    exists s, t_super (d_ty d) = Some s /\ (is_predef s || memb s (m_done st)) = true.
  Hypothesis step : forall st d st1, I st -> In d L -> ready st d -> merge_decl F st d = Ok st1 ->
    I st1 /\ R d st1 /\ (forall d', R d' st -> R d' st1).
  Hypothesis nofuel : forall st d, I st -> In d L -> ready st d -> merge_decl F st d <> OutOfFuel.

  Lemma pass_inv : forall l st st' rest, incl l L -> I st -> pass F l st = Ok (st', rest) ->
    I st' /\ (forall d, In d l -> In d rest \/ R d st') /\ (forall d, R d st -> R d st').
  Proof.
    induction l as [|d r IH]; intros st st' rest Hl HI H; cbn [pass] in H.
    - inversion H; subst. repeat split; auto; intros d [].
    - assert (Hd : In d L) by (apply Hl; left; reflexivity).
      assert (Hr : incl r L) by (intros y Hy; apply Hl; right; exact Hy).
      destruct (t_super (d_ty d)) as [s|] eqn:Es; [|discriminate].
      destruct (is_predef s || memb s (m_done st)) eqn:Erdy.
      + destruct (merge_decl F st d) as [st1| |] eqn:Em; cbn [bind] in H; try discriminate.
        destruct (step st d st1 HI Hd (ex_intro _ s (conj Es Erdy)) Em) as (HI1 & HR1 & Hmono1).
        destruct (IH _ _ _ Hr HI1 H) as (HI' & Hall & Hmono). split; [exact HI'|]. split.
        * intros y [<-|Hy]; [right; apply Hmono; exact HR1|apply Hall; exact Hy].
        * intros y Hy. apply Hmono, Hmono1, Hy.
      + destruct (pass F r st) as [[st2 rest2]| |] eqn:E; cbn [bind] in H; try discriminate.
        cbn [fst snd] in H. inversion H; subst st' rest. destruct (IH _ _ _ Hr HI E) as (HI' & Hall & Hmono).
        split; [exact HI'|]. split; [|exact Hmono].
        intros y [<-|Hy]; [left; left; reflexivity|]. destruct (Hall y Hy) as [H1|H1]; [left; right; exact H1|right; exact H1].
  Qed.
  Lemma pass_nofuel : forall l st, incl l L -> I st -> pass F l st <> OutOfFuel.
  Proof.
    induction l as [|d r IH]; intros st Hl HI; cbn [pass]; [discriminate|].
    assert (Hd : In d L) by (apply Hl; left; reflexivity).
    assert (Hr : incl r L) by (intros y Hy; apply Hl; right; exact Hy).
    destruct (t_super (d_ty d)) as [s|] eqn:Es; [|discriminate].
    destruct (is_predef s || memb s (m_done st)) eqn:Erdy.
    - destruct (merge_decl F st d) as [st1| |] eqn:Em; cbn [bind]; try discriminate.
      + destruct (step st d st1 HI Hd (ex_intro _ s (conj Es Erdy)) Em) as (HI1 & _). apply IH; assumption.
      + exfalso. apply (nofuel st d HI Hd (ex_intro _ s (conj Es Erdy)) Em).
    - pose proof (IH st Hr HI) as Hn. destruct (pass F r st) as [[st2 rest2]| |]; cbn [bind]; try discriminate. congruence.
  Qed.

  Lemma rounds_inv : forall fuel l st st', incl l L -> I st -> rounds F fuel l st = Ok st' ->
    I st' /\ (forall d, In d l -> R d st') /\ (forall d, R d st -> R d st').
  Proof.
    induction fuel as [|k IH]; intros l st st' Hl HI H; cbn [rounds] in H; [discriminate|].
    destruct (pass F l st) as [[st1 rest]| |] eqn:Ep; cbn [bind fst snd] in H; try discriminate.
    destruct (pass_inv _ _ _ _ Hl HI Ep) as (HI1 & Hall & Hmono). destruct (pass_shape _ _ _ _ _ Ep) as [Hincl _].
    destruct rest as [|d0 rest0].
    - inversion H; subst st'. split; [exact HI1|]. split; [|exact Hmono].
      intros d Hd. destruct (Hall d Hd) as [[]|Hr]. exact Hr.
    - destruct (Nat.eqb (List.length l) (List.length (d0 :: rest0))); [discriminate|].
      assert (Hrl : incl (d0 :: rest0) L) by (intros y Hy; apply Hl, Hincl, Hy).
      destruct (IH _ _ _ Hrl HI1 H) as (HI' & Hall' & Hmono'). split; [exact HI'|]. split.
      + intros d Hd. destruct (Hall d Hd) as [Hin|Hr]; [apply Hall'; exact Hin|apply Hmono'; exact Hr].
      + intros d Hd. apply Hmono', Hmono, Hd.
  Qed.
  (* termination: every round that does not end the loop removes a declaration, so length + 1 rounds are enough *)
  Lemma rounds_nofuel : forall fuel l st, incl l L -> I st -> List.length l < fuel -> rounds F fuel l st <> OutOfFuel.
  Proof.
    induction fuel as [|k IH]; intros l st Hl HI Hlt; [lia|]. cbn [rounds].
    pose proof (pass_nofuel l st Hl HI) as Hn.
    destruct (pass F l st) as [[st1 rest]| |] eqn:Ep; cbn [bind fst snd]; try discriminate; [|congruence].
    destruct (pass_inv _ _ _ _ Hl HI Ep) as (HI1 & _ & _). destruct (pass_shape _ _ _ _ _ Ep) as [Hincl Hlen].
    destruct rest as [|d0 rest0]; [discriminate|].
    destruct (Nat.eqb (List.length l) (List.length (d0 :: rest0))) eqn:E; [discriminate|].
    apply Nat.eqb_neq in E. apply IH; [intros y Hy; apply Hl, Hincl, Hy|exact HI1|lia].
  Qed.
End Loop.

(* ================================================================================================ what the steps keep *)
(* types stay registered and features are only ever added *)
Definition grows (ts ts' : tsys) : Prop :=
  forall n t, find_ty ts n = Some t -> exists t', find_ty ts' n = Some t' /\ incl (t_own t) (t_own t') /\ incl (t_inh t) (t_inh t').
Lemma grows_refl ts : grows ts ts.
Proof. intros n t H. exists t. repeat split; auto; apply incl_refl. Qed.
Lemma grows_trans a b c : grows a b -> grows b c -> grows a c.
Proof.
  intros H1 H2 n t H. destruct (H1 n t H) as (t1 & Hf1 & Ho1 & Hi1). destruct (H2 n t1 Hf1) as (t2 & Hf2 & Ho2 & Hi2).
  exists t2. repeat split; auto; eapply incl_tran; eassumption.
Qed.
Lemma grows_registered a b n : grows a b -> registered a n = true -> registered b n = true.
Proof. intros G H. apply registered_iff in H. destruct H as (t & H). destruct (G n t H) as (t' & H' & _). apply registered_iff. eauto. Qed.
Lemma grows_map (g : ty -> ty) ts : (forall t, t_name (g t) = t_name t) ->
  (forall t, incl (t_own t) (t_own (g t)) /\ incl (t_inh t) (t_inh (g t))) -> grows ts (map g ts).
Proof.
  intros Kn Kf n t H. exists (g t). rewrite (find_map_name g ts n Kn), H. split; [reflexivity|apply Kf].
Qed.

(* a property of every feature stored anywhere *)
Definition all_feats (P : feat -> Prop) (ts : tsys) : Prop := forall t f, In t ts -> In f (t_own t ++ t_inh t) -> P f.
Definition own_dom (ts : tsys) : Prop := forall t f, In t ts -> In f (t_own t) -> f_dom f = t_name t.

(* ---- create_type ---- *)
Lemma create_type_inv' ts name supn desc ts' : registered ts TOP = true -> create_type ts name supn desc = Ok ts' ->
  find_ty ts name = None /\
  exists p inh, get_type ts supn = Ok p /\ In p ts /\ inherit_all [] (all_features p) = Ok inh /\
                ts' = map (add_child (t_name p) name) ts ++ [new_type name p desc inh].
Proof.
  intros Htop H. unfold create_type in H. unfold registered in H, Htop.
  destruct (find_ty ts name) eqn:En; [discriminate|]. split; [reflexivity|].
  destruct (get_type ts supn) as [p| |] eqn:Eg; cbn [bind] in H; try discriminate.
  destruct (memb (t_name p) final_types); [discriminate|].
  destruct (String.eqb name TOP) eqn:Et.
  - apply String.eqb_eq in Et. subst name. rewrite En in Htop. discriminate.
  - destruct (inherit_all [] (all_features p)) as [inh| |] eqn:Ei; cbn [bind] in H; try discriminate.
    inversion H. exists p, inh. repeat split; auto. apply (get_type_ok_inv _ _ _ Eg).
Qed.
Lemma HI_top ts : HI ts -> registered ts TOP = true.
Proof.
  intros W. destruct (wf_top _ W) as (t & Ht & _). unfold strip in Ht. rewrite (find_map_shape ts strip_ty TOP strip_shape) in Ht.
  unfold registered. destruct (find_ty ts TOP); [reflexivity|discriminate].
Qed.
Lemma create_type_grows ts name supn desc ts' : registered ts TOP = true -> create_type ts name supn desc = Ok ts' ->
  grows ts ts' /\ registered ts' name = true.
Proof.
  intros Htop H. destruct (create_type_inv' _ _ _ _ _ Htop H) as (Hnone & p & inh & _ & _ & _ & ->). split.
  - intros n t Hf. exists (add_child (t_name p) name t). rewrite find_app_new, find_map_add_child, Hf. cbn [option_map].
    rewrite add_child_own, add_child_inh. repeat split; apply incl_refl.
  - unfold registered. rewrite find_app_new, find_map_add_child, Hnone. cbn [option_map new_type rebuild_ctor t_name].
    rewrite String.eqb_refl. reflexivity.
Qed.
Lemma create_type_all_feats P ts name supn desc ts' : registered ts TOP = true -> all_feats P ts ->
  create_type ts name supn desc = Ok ts' -> all_feats P ts'.
Proof.
  intros Htop HP H. destruct (create_type_inv' _ _ _ _ _ Htop H) as (_ & p & inh & _ & Hpin & Hinh & ->).
  intros t f Hin Hf. apply in_app_or in Hin. destruct Hin as [Hin|[<-|[]]].
  - apply in_map_iff in Hin. destruct Hin as (t0 & <- & Hin0). rewrite add_child_own, add_child_inh in Hf. apply (HP t0 f Hin0 Hf).
  - cbn [new_type rebuild_ctor t_own t_inh app] in Hf. destruct (inherit_all_In _ _ _ _ Hinh Hf) as [[]|Hf'].
    apply (HP p f Hpin). apply all_features_In. exact Hf'.
Qed.
Lemma create_type_own_dom ts name supn desc ts' : registered ts TOP = true -> own_dom ts ->
  create_type ts name supn desc = Ok ts' -> own_dom ts'.
Proof.
  intros Htop HP H. destruct (create_type_inv' _ _ _ _ _ Htop H) as (_ & p & inh & _ & Hpin & Hinh & ->).
  intros t f Hin Hf. apply in_app_or in Hin. destruct Hin as [Hin|[<-|[]]].
  - apply in_map_iff in Hin. destruct Hin as (t0 & <- & Hin0). rewrite add_child_own in Hf. rewrite add_child_name. apply (HP t0 f Hin0 Hf).
  - cbn [new_type rebuild_ctor t_own] in Hf. contradiction.
Qed.

(* ---- _add_feature, own and inherited ---- *)
Lemma add_feature_res_inv ts dom f ts' : add_feature_res ts dom f = Ok ts' ->
  ts' = ts \/ (ts' = map (spread ts dom f) ts /\ exists t, find_ty ts dom = Some t).
Proof.
  unfold add_feature_res. destruct (add_feature ts dom f) as [ts1| | |] eqn:E; try discriminate; intros H; inversion H; subst.
  - right. destruct (add_feature_added_inv _ _ _ _ E) as (t & Ht & _ & _ & _ & ->). split; [reflexivity|eauto].
  - left. reflexivity.
Qed.
Lemma spread_name ts dom f d : t_name (spread ts dom f d) = t_name d.
Proof. apply (proj1 (spread_shape ts dom f d)). Qed.
Lemma add_feature_res_grows ts dom f ts' : add_feature_res ts dom f = Ok ts' -> grows ts ts'.
Proof.
  intros H. destruct (add_feature_res_inv _ _ _ _ H) as [->|[-> _]]; [apply grows_refl|].
  apply grows_map; [apply spread_name|]. intros t. split; intros g Hg.
  - apply own_spread. left. exact Hg.
  - apply inh_spread. left. exact Hg.
Qed.
Lemma add_feature_res_all_feats P ts dom f ts' : all_feats P ts -> P f -> add_feature_res ts dom f = Ok ts' -> all_feats P ts'.
Proof.
  intros HP Hf H. destruct (add_feature_res_inv _ _ _ _ H) as [->|[-> _]]; [exact HP|].
  intros t' g Hin Hg. apply in_map_iff in Hin. destruct Hin as (t & <- & Hin). apply in_app_or in Hg. destruct Hg as [Hg|Hg].
  - apply own_spread in Hg. destruct Hg as [Hg|[_ ->]]; [|exact Hf]. apply (HP t g Hin). apply in_or_app. left. exact Hg.
  - apply inh_spread in Hg. destruct Hg as [Hg|(_ & _ & _ & ->)]; [|exact Hf]. apply (HP t g Hin). apply in_or_app. right. exact Hg.
Qed.
Lemma add_feature_res_own_dom ts dom f ts' : own_dom ts -> f_dom f = dom -> add_feature_res ts dom f = Ok ts' -> own_dom ts'.
Proof.
  intros HP Hf H. destruct (add_feature_res_inv _ _ _ _ H) as [->|[-> _]]; [exact HP|].
  intros t' g Hin Hg. apply in_map_iff in Hin. destruct Hin as (t & <- & Hin). rewrite spread_name.
  apply own_spread in Hg. destruct Hg as [Hg|[Hn ->]]; [apply (HP t g Hin Hg)|congruence].
Qed.

Lemma spread_inh_fields ts x f d :
  t_name (spread_inh ts x f d) = t_name d /\ t_own (spread_inh ts x f d) = t_own d /\
  (t_inh (spread_inh ts x f d) = t_inh d \/ t_inh (spread_inh ts x f d) = t_inh d ++ [f]).
Proof. unfold spread_inh. destruct (is_below ts x (t_name d) && _); cbn [with_inh rebuild_ctor t_name t_own t_inh]; auto. Qed.
Lemma inherit_fn_inv ts x f ts' : inherit_fn ts x f = Ok ts' -> ts' = ts \/ ts' = map (spread_inh ts x f) ts.
Proof.
  unfold inherit_fn. destruct (find_ty ts x) as [t|]; [|discriminate].
  destruct (find_feat (f_name f) (t_inh t)) as [g|].
  - destruct (feat_eqb g f); [|discriminate]. intros H. inversion H. left. reflexivity.
  - destruct (existsb _ ts); [discriminate|]. intros H. inversion H. right. reflexivity.
Qed.
Lemma inherit_fn_grows ts x f ts' : inherit_fn ts x f = Ok ts' -> grows ts ts'.
Proof.
  intros H. destruct (inherit_fn_inv _ _ _ _ H) as [->| ->]; [apply grows_refl|].
  apply grows_map; [intros t; apply (proj1 (spread_inh_fields ts x f t))|].
  intros t. destruct (spread_inh_fields ts x f t) as (_ & Ho & [Hi|Hi]); rewrite Ho, Hi; split; try apply incl_refl. apply incl_appl, incl_refl.
Qed.
Lemma inherit_fn_all_feats P ts x f ts' : all_feats P ts -> P f -> inherit_fn ts x f = Ok ts' -> all_feats P ts'.
Proof.
  intros HP Hf H. destruct (inherit_fn_inv _ _ _ _ H) as [->| ->]; [exact HP|].
  intros t' g Hin Hg. apply in_map_iff in Hin. destruct Hin as (t & <- & Hin).
  destruct (spread_inh_fields ts x f t) as (_ & Ho & [Hi|Hi]); rewrite Ho, Hi in Hg.
  - apply (HP t g Hin Hg).
  - rewrite app_assoc in Hg. apply in_app_or in Hg. destruct Hg as [Hg|[<-|[]]]; [apply (HP t g Hin Hg)|exact Hf].
Qed.
Lemma inherit_fn_own_dom ts x f ts' : own_dom ts -> inherit_fn ts x f = Ok ts' -> own_dom ts'.
Proof.
  intros HP H. destruct (inherit_fn_inv _ _ _ _ H) as [->| ->]; [exact HP|].
  intros t' g Hin Hg. apply in_map_iff in Hin. destruct Hin as (t & <- & Hin).
  destruct (spread_inh_fields ts x f t) as (Hn & Ho & _). rewrite Ho in Hg. rewrite Hn. apply (HP t g Hin Hg).
Qed.
Lemma inherit_list_keeps P x fs : forall ts ts', all_feats P ts -> own_dom ts -> (forall f, In f fs -> P f) ->
  inherit_list fn_form x fs ts = Ok ts' -> grows ts ts' /\ all_feats P ts' /\ own_dom ts'.
Proof.
  induction fs as [|f r IH]; intros ts ts' HP HD Hfs H; cbn [inherit_list] in H.
  - inversion H; subst. split; [apply grows_refl|auto].
  - cbn [fn_form inhf] in H. destruct (inherit_fn ts x f) as [ts1| |] eqn:E; cbn [bind] in H; try discriminate.
    destruct (IH ts1 ts' (inherit_fn_all_feats P _ _ _ _ HP (Hfs f (or_introl eq_refl)) E) (inherit_fn_own_dom _ _ _ _ HD E)
                (fun g Hg => Hfs g (or_intror Hg)) H) as (G & HP' & HD').
    split; [eapply grows_trans; [apply (inherit_fn_grows _ _ _ _ E)|exact G]|auto].
Qed.
Lemma merge_features_keeps P i x fs : forall ts tags r, all_feats P ts -> own_dom ts -> (forall f, In f fs -> P f /\ f_dom f = x) ->
  merge_features fn_form i x fs ts tags = Ok r -> grows ts (fst r) /\ all_feats P (fst r) /\ own_dom (fst r).
Proof.
  induction fs as [|f r0 IH]; intros ts tags r HP HD Hfs H; cbn [merge_features] in H.
  - inversion H; subst. split; [apply grows_refl|auto].
  - cbn [fn_form addf] in H. destruct (add_feature_res ts x f) as [ts1| |] eqn:E; cbn [bind] in H; try discriminate.
    destruct (Hfs f (or_introl eq_refl)) as [Hpf Hdf].
    destruct (IH ts1 _ r (add_feature_res_all_feats P _ _ _ _ HP Hpf E) (add_feature_res_own_dom _ _ _ _ HD Hdf E)
                (fun g Hg => Hfs g (or_intror Hg)) H) as (G & HP' & HD').
    split; [eapply grows_trans; [apply (add_feature_res_grows _ _ _ _ E)|exact G]|auto].
Qed.

(* ---- re-parenting ---- *)
Lemma relink_grows ts x oldp newp k : grows ts (relink ts x oldp newp k).
Proof.
  apply grows_map; [intros t; apply relink_name|]. intros t. rewrite relink_own, relink_inh. split; apply incl_refl.
Qed.
Lemma relink_all_feats P ts x oldp newp k : all_feats P ts -> all_feats P (relink ts x oldp newp k).
Proof.
  intros HP t' g Hin Hg. apply in_map_iff in Hin. destruct Hin as (t & <- & Hin). rewrite relink_own, relink_inh in Hg. apply (HP t g Hin Hg).
Qed.
Lemma relink_own_dom ts x oldp newp k : own_dom ts -> own_dom (relink ts x oldp newp k).
Proof.
  intros HP t' g Hin Hg. apply in_map_iff in Hin. destruct Hin as (t & <- & Hin). rewrite relink_own in Hg. rewrite relink_name. apply (HP t g Hin Hg).
Qed.
Lemma reparent_keeps P ts x oldp newp ts' : all_feats P ts -> own_dom ts -> reparent fn_form ts x oldp newp = Ok ts' ->
  grows ts ts' /\ all_feats P ts' /\ own_dom ts'.
Proof.
  intros HP HD H. unfold reparent in H. destruct (get_type ts newp) as [tn| |]; cbn [bind] in H; try discriminate.
  destruct (find_ty ts oldp) as [tp|]; [|discriminate]. destruct (negb (memb x (t_children tp))); [discriminate|].
  set (ts1 := relink ts x oldp (t_name tn) (S (t_rank tn))) in *.
  destruct (find_ty ts1 (t_name tn)) as [tn1|] eqn:E1; [|discriminate].
  destruct (find_ty_In _ _ _ E1) as [Hin1 _].
  destruct (inherit_list_keeps P x (all_features tn1) ts1 ts' (relink_all_feats P _ _ _ _ _ HP) (relink_own_dom _ _ _ _ _ HD)
              (fun f Hf => relink_all_feats P _ _ _ _ _ HP tn1 f Hin1 (all_features_In _ _ Hf)) H) as (G & HP' & HD').
  split; [eapply grows_trans; [apply relink_grows|exact G]|auto].
Qed.
Lemma merge_super_keeps P ts name sup ts' : all_feats P ts -> own_dom ts -> merge_super fn_form ts name sup = Ok ts' ->
  grows ts ts' /\ all_feats P ts' /\ own_dom ts'.
Proof.
  intros HP HD H. unfold merge_super in H. destruct (get_type ts name) as [ex| |]; cbn [bind] in H; try discriminate.
  destruct (t_super ex) as [exsup|]; [|discriminate].
  destruct (String.eqb sup exsup); [inversion H; subst; split; [apply grows_refl|auto]|].
  destruct (ts_subsumes ts (t_name ex) sup) as [b1| |]; cbn [bind] in H; try discriminate. destruct b1; [discriminate|].
  destruct (ts_subsumes ts exsup sup) as [b2| |]; cbn [bind] in H; try discriminate. destruct b2.
  - eapply reparent_keeps; eassumption.
  - destruct (ts_subsumes ts sup exsup) as [b3| |]; cbn [bind] in H; try discriminate.
    destruct b3; [inversion H; subst; split; [apply grows_refl|auto]|discriminate].
Qed.

(* ================================================================================================ declarations *)
Definition dname (d : decl) : tname := t_name (d_ty d).
Definition dnames (L : list decl) : list tname := map dname L.
(* a name that will be registered in the result: built in, or declared by some input *)
Definition nm_ok (L : list decl) (n : tname) : Prop := registered init_ts n = true \/ In n (dnames L).
Definition names_ok (L : list decl) (f : feat) : Prop :=
  nm_ok L (f_dom f) /\ nm_ok L (f_range f) /\ match f_elem f with Some e => nm_ok L e | None => True end.
(* what a declaration taken from a well-formed input satisfies *)
Definition decl_ok (L : list decl) (d : decl) : Prop :=
  is_predef (dname d) = false /\ (exists s, t_super (d_ty d) = Some s /\ nm_ok L s) /\
  forall f, In f (t_own (d_ty d)) -> names_ok L f /\ f_dom f = dname d.

Lemma predef_in_init n : is_predef n = true -> registered init_ts n = true.
Proof.
  assert (H : forallb (registered init_ts) predefined_types = true) by (vm_compute; reflexivity).
  intros Hn. unfold is_predef in Hn. apply memb_In in Hn. rewrite forallb_forall in H. apply H. exact Hn.
Qed.
Lemma init_HI : HI init_ts.
Proof. apply wfhb_sound. vm_compute. reflexivity. Qed.
Lemma init_names_ok L : all_feats (names_ok L) init_ts.
Proof.
  intros t f Hin Hf. destruct (wf_refs _ init_WFh t f Hin Hf) as (H1 & H2 & H3).
  unfold names_ok, nm_ok. split; [left; exact H1|]. split; [left; exact H2|]. destruct (f_elem f); [left; exact H3|exact I].
Qed.
Lemma init_own_dom : own_dom init_ts.
Proof. intros t f Hin Hf. apply (wf_own_dom _ init_WFh t f Hin Hf). Qed.

Lemma type_list_from_In i inputs d : In d (type_list_from i inputs) -> exists ts, In ts inputs /\ In (d_ty d) (user_types ts).
Proof.
  revert i. induction inputs as [|ts r IH]; intros i H; cbn [type_list_from] in H; [contradiction|].
  apply in_app_or in H. destruct H as [H|H].
  - apply in_map_iff in H. destruct H as (t & <- & Ht). exists ts. split; [left; reflexivity|exact Ht].
  - destruct (IH _ H) as (ts' & H1 & H2). exists ts'. split; [right; exact H1|exact H2].
Qed.
Lemma type_list_from_names i inputs ts t : In ts inputs -> In t (user_types ts) -> In (t_name t) (dnames (type_list_from i inputs)).
Proof.
  revert i. induction inputs as [|ts0 r IH]; intros i Hin Ht; [contradiction|]. cbn [type_list_from]. unfold dnames. rewrite map_app, in_app_iff.
  destruct Hin as [->|Hin].
  - left. rewrite map_map. apply in_map_iff. exists t. split; [reflexivity|exact Ht].
  - right. apply (IH (S i) Hin Ht).
Qed.
(* every declaration of a well-formed input is a good declaration *)
Lemma type_list_ok inputs : (forall ts, In ts inputs -> WFh ts) -> forall d, In d (type_list inputs) -> decl_ok (type_list inputs) d.
Proof.
  intros HW d Hd. destruct (type_list_from_In _ _ _ Hd) as (ts & Hts & Hu). pose proof (HW ts Hts) as W.
  unfold user_types in Hu. apply filter_In in Hu. destruct Hu as [Hin Hnp]. apply negb_true_iff in Hnp.
  assert (Hnm : forall n, registered ts n = true -> nm_ok (type_list inputs) n).
  { intros n Hr. destruct (is_predef n) eqn:Ep; [left; apply predef_in_init; exact Ep|]. right.
    apply registered_iff in Hr. destruct Hr as (t & Ht). destruct (find_ty_In _ _ _ Ht) as [Htin <-].
    apply (type_list_from_names 1 inputs ts t Hts). apply filter_In. split; [exact Htin|]. rewrite Ep. reflexivity. }
  split; [exact Hnp|]. split.
  - destruct (t_super (d_ty d)) as [s|] eqn:Es.
    + exists s. split; [reflexivity|]. destruct (wf_super _ W (d_ty d) s Hin Es) as (p & Hp & _). apply Hnm. apply registered_iff. eauto.
    + exfalso. pose proof (wf_root _ W (d_ty d) Hin Es) as Hn. unfold dname in Hnp. rewrite Hn in Hnp. vm_compute in Hnp. discriminate.
  - intros f Hf. split; [|apply (wf_own_dom _ W (d_ty d) f Hin Hf)].
    destruct (wf_refs _ W (d_ty d) f Hin (in_or_app _ _ _ (or_introl Hf))) as (H1 & H2 & H3).
    unfold names_ok. split; [apply Hnm; exact H1|]. split; [apply Hnm; exact H2|]. destruct (f_elem f); [apply Hnm; exact H3|exact I].
Qed.

(* ================================================================================================ the loop invariant *)
Record Inv (L : list decl) (st : mst) : Prop := {
  inv_HI : HI (m_ts st);
  inv_done : forall n, In n (m_done st) -> registered (m_ts st) n = true;
  inv_init : forall n, registered init_ts n = true -> registered (m_ts st) n = true;
  inv_names : all_feats (names_ok L) (m_ts st);
  inv_dom : own_dom (m_ts st)
}.
Definition Rreg (d : decl) (st : mst) : Prop := registered (m_ts st) (dname d) = true.

Lemma merge_decl_grows L st d st1 : Inv L st -> decl_ok L d -> merge_decl fn_form st d = Ok st1 ->
  grows (m_ts st) (m_ts st1) /\ all_feats (names_ok L) (m_ts st1) /\ own_dom (m_ts st1) /\ registered (m_ts st1) (dname d) = true
  /\ m_done st1 = dname d :: m_done st.
Proof.
  intros [W Hdone Hinit HN HD] (Hnp & _ & Hfs) H. unfold merge_decl in H. destruct (t_super (d_ty d)) as [sup|]; [|discriminate].
  fold (dname d) in H.
  destruct (registered (m_ts st) (dname d)) eqn:Er.
  - destruct (merge_super fn_form (m_ts st) (dname d) sup) as [ts1| |] eqn:E; cbn [bind] in H; try discriminate.
    destruct (merge_features fn_form (d_in d) (dname d) (t_own (d_ty d)) ts1 (m_tags st)) as [r| |] eqn:Ef; cbn [bind] in H; try discriminate.
    inversion H; subst st1. cbn [m_ts m_done].
    destruct (merge_super_keeps (names_ok L) _ _ _ _ HN HD E) as (G1 & HN1 & HD1).
    destruct (merge_features_keeps (names_ok L) _ _ _ _ _ _ HN1 HD1 Hfs Ef) as (G2 & HN2 & HD2).
    pose proof (grows_trans _ _ _ G1 G2) as G. split; [exact G|]. split; [exact HN2|]. split; [exact HD2|].
    split; [apply (grows_registered _ _ _ G Er)|reflexivity].
  - destruct (create_type (m_ts st) (dname d) sup (t_desc (d_ty d))) as [ts1| |] eqn:E; cbn [bind] in H; try discriminate.
    destruct (merge_features fn_form (d_in d) (dname d) (t_own (d_ty d)) ts1 (m_tags st)) as [r| |] eqn:Ef; cbn [bind] in H; try discriminate.
    inversion H; subst st1. cbn [m_ts m_done]. pose proof (HI_top _ W) as Htop.
    destruct (create_type_grows _ _ _ _ _ Htop E) as (G1 & Hreg).
    pose proof (create_type_all_feats (names_ok L) _ _ _ _ _ Htop HN E) as HN1.
    pose proof (create_type_own_dom _ _ _ _ _ Htop HD E) as HD1.
    destruct (merge_features_keeps (names_ok L) _ _ _ _ _ _ HN1 HD1 Hfs Ef) as (G2 & HN2 & HD2).
    split; [eapply grows_trans; eassumption|]. split; [exact HN2|]. split; [exact HD2|].
    split; [apply (grows_registered _ _ _ G2 Hreg)|reflexivity].
Qed.
Lemma merge_decl_Inv L st d st1 : Inv L st -> decl_ok L d -> merge_decl fn_form st d = Ok st1 ->
  Inv L st1 /\ Rreg d st1 /\ (forall d', Rreg d' st -> Rreg d' st1).
Proof.
  intros HI0 Hok H. destruct (merge_decl_grows L st d st1 HI0 Hok H) as (G & HN & HD & Hreg & Hdone).
  split; [|split; [exact Hreg|intros d' Hd'; apply (grows_registered _ _ _ G Hd')]].
  constructor; auto.
  - eapply merge_decl_HI; [apply (inv_HI _ _ HI0)|exact H].
  - rewrite Hdone. intros n [<-|Hn]; [exact Hreg|]. apply (grows_registered _ _ _ G). apply (inv_done _ _ HI0 n Hn).
  - intros n Hn. apply (grows_registered _ _ _ G). apply (inv_init _ _ HI0 n Hn).
Qed.

(* ---- no step runs out of fuel ---- *)
Lemma create_type_nofuel ts n s d : create_type ts n s d <> OutOfFuel.
Proof.
  unfold create_type. destruct (registered ts n); [discriminate|].
  assert (Hg : get_type ts s <> OutOfFuel).
  { unfold get_type. destruct (find_ty ts s); [discriminate|]. destruct (has_dot s); [discriminate|]. destruct (short_matches ts s) as [|? [|? ?]]; discriminate. }
  destruct (get_type ts s) as [p| |]; cbn [bind]; try discriminate; [|congruence].
  destruct (memb (t_name p) final_types); [discriminate|]. destruct (String.eqb n TOP); [discriminate|].
  assert (Hi : forall l acc, inherit_all acc l <> OutOfFuel).
  { induction l as [|f r IH]; intros acc; cbn [inherit_all]; [discriminate|]. destruct (find_feat (f_name f) acc); [destruct (feat_eqb _ f); [apply IH|discriminate]|apply IH]. }
  specialize (Hi (all_features p) []). destruct (inherit_all [] (all_features p)); cbn [bind]; try discriminate. congruence.
Qed.
Lemma get_type_nofuel ts s : get_type ts s <> OutOfFuel.
Proof. unfold get_type. destruct (find_ty ts s); [discriminate|]. destruct (has_dot s); [discriminate|]. destruct (short_matches ts s) as [|? [|? ?]]; discriminate. Qed.
Lemma add_feature_res_nofuel ts x f : add_feature_res ts x f <> OutOfFuel.
Proof.
  unfold add_feature_res, add_feature. destruct (find_ty ts x); [|discriminate].
  destruct (find_feat (f_name f) (t_own t)); [destruct (feat_eqb _ f); discriminate|].
  destruct (find_feat (f_name f) (t_inh t)); [destruct (feat_eqb _ f); discriminate|].
  destruct (existsb _ ts); discriminate.
Qed.
Lemma merge_features_nofuel i x fs : forall ts tags, merge_features fn_form i x fs ts tags <> OutOfFuel.
Proof.
  induction fs as [|f r IH]; intros ts tags; cbn [merge_features]; [discriminate|]. cbn [fn_form addf].
  pose proof (add_feature_res_nofuel ts x f). destruct (add_feature_res ts x f); cbn [bind]; try discriminate; [apply IH|congruence].
Qed.
Lemma inherit_fn_nofuel ts x f : inherit_fn ts x f <> OutOfFuel.
Proof.
  unfold inherit_fn. destruct (find_ty ts x); [|discriminate].
  destruct (find_feat (f_name f) (t_inh t)); [destruct (feat_eqb _ f); discriminate|]. destruct (existsb _ ts); discriminate.
Qed.
Lemma inherit_list_nofuel x fs : forall ts, inherit_list fn_form x fs ts <> OutOfFuel.
Proof.
  induction fs as [|f r IH]; intros ts; cbn [inherit_list]; [discriminate|]. cbn [fn_form inhf].
  pose proof (inherit_fn_nofuel ts x f). destruct (inherit_fn ts x f); cbn [bind]; try discriminate; [apply IH|congruence].
Qed.
Lemma reparent_nofuel ts x o n : reparent fn_form ts x o n <> OutOfFuel.
Proof.
  unfold reparent. pose proof (get_type_nofuel ts n). destruct (get_type ts n) as [tn| |]; cbn [bind]; try discriminate; [|congruence].
  destruct (find_ty ts o); [|discriminate]. destruct (negb _); [discriminate|].
  destruct (find_ty _ (t_name tn)); [apply inherit_list_nofuel|discriminate].
Qed.
Lemma ts_subsumes_nofuel ts p c : HI ts -> ts_subsumes ts p c <> OutOfFuel.
Proof.
  intros W. destruct (get_type ts p) as [tp| |] eqn:Ep.
  - destruct (get_type ts c) as [tc| |] eqn:Ec.
    + destruct (HI_subsumes_gen ts p c tp tc W Ep Ec) as (r & Hr & _). rewrite Hr. discriminate.
    + unfold ts_subsumes. rewrite Ep, Ec. discriminate.
    + exfalso. apply (get_type_nofuel ts c Ec).
  - unfold ts_subsumes. rewrite Ep. discriminate.
  - exfalso. apply (get_type_nofuel ts p Ep).
Qed.
Lemma merge_super_nofuel ts name sup : HI ts -> merge_super fn_form ts name sup <> OutOfFuel.
Proof.
  intros W. unfold merge_super. pose proof (get_type_nofuel ts name). destruct (get_type ts name) as [ex| |]; cbn [bind]; try discriminate; [|congruence].
  destruct (t_super ex) as [exsup|]; [|discriminate]. destruct (String.eqb sup exsup); [discriminate|].
  pose proof (ts_subsumes_nofuel ts (t_name ex) sup W). destruct (ts_subsumes ts (t_name ex) sup) as [b1| |]; cbn [bind]; try discriminate; [|congruence].
  destruct b1; [discriminate|].
  pose proof (ts_subsumes_nofuel ts exsup sup W). destruct (ts_subsumes ts exsup sup) as [b2| |]; cbn [bind]; try discriminate; [|congruence].
  destruct b2; [apply reparent_nofuel|].
  pose proof (ts_subsumes_nofuel ts sup exsup W). destruct (ts_subsumes ts sup exsup) as [b3| |]; cbn [bind]; try discriminate; [|congruence].
  destruct b3; discriminate.
Qed.
Lemma merge_decl_nofuel st d : HI (m_ts st) -> merge_decl fn_form st d <> OutOfFuel.
Proof.
  intros W. unfold merge_decl. destruct (t_super (d_ty d)) as [sup|]; [|discriminate].
  destruct (registered (m_ts st) (t_name (d_ty d))).
  - pose proof (merge_super_nofuel (m_ts st) (t_name (d_ty d)) sup W).
    destruct (merge_super fn_form (m_ts st) (t_name (d_ty d)) sup) as [ts1| |]; cbn [bind]; try discriminate; [|congruence].
    pose proof (merge_features_nofuel (d_in d) (t_name (d_ty d)) (t_own (d_ty d)) ts1 (m_tags st)).
    destruct (merge_features _ _ _ _ ts1 _); cbn [bind]; try discriminate. congruence.
  - pose proof (create_type_nofuel (m_ts st) (t_name (d_ty d)) sup (t_desc (d_ty d))).
    destruct (create_type _ _ sup _) as [ts1| |]; cbn [bind]; try discriminate; [|congruence].
    pose proof (merge_features_nofuel (d_in d) (t_name (d_ty d)) (t_own (d_ty d)) ts1 (m_tags st)).
    destruct (merge_features _ _ _ _ ts1 _); cbn [bind]; try discriminate. congruence.
Qed.

(* ================================================================================================ the fix-up is the identity *)
Lemma resolve_id ts n : registered ts n = true -> resolve ts n = Ok n.
Proof.
  intros H. apply registered_iff in H. destruct H as (t & Ht). unfold resolve. rewrite (get_type_full _ _ _ Ht). cbn [bind].
  destruct (find_ty_In _ _ _ Ht) as [_ ->]. reflexivity.
Qed.
Lemma fix_feat_id ts f : feat_refs_ok ts f -> fix_feat ts f = Ok f.
Proof.
  intros (H1 & H2 & H3). unfold fix_feat. rewrite (resolve_id _ _ H1), (resolve_id _ _ H2). cbn [bind].
  destruct f as [n r d rg e m ds]. cbn [f_elem f_dom f_range f_name f_reserved f_multi f_desc] in *. destruct e as [e|]; cbn [opt_get_type bind].
  - apply registered_iff in H3. destruct H3 as (t & Ht). rewrite (get_type_full _ _ _ Ht). cbn [bind]. destruct (find_ty_In _ _ _ Ht) as [_ ->]. reflexivity.
  - reflexivity.
Qed.
Lemma fix_feats_id ts l : (forall f, In f l -> feat_refs_ok ts f) -> fix_feats ts l = Ok l.
Proof.
  induction l as [|f r IH]; intros H; cbn [fix_feats]; [reflexivity|].
  rewrite (fix_feat_id ts f (H f (or_introl eq_refl))). cbn [bind]. rewrite IH; [reflexivity|]. intros g Hg. apply H. right. exact Hg.
Qed.
Lemma fix_ty_id ts t : (forall s, t_super t = Some s -> registered ts s = true) -> (forall f, In f (t_own t) -> feat_refs_ok ts f) ->
  fix_ty ts t = Ok t.
Proof.
  intros Hs Hf. unfold fix_ty. destruct (is_predef (t_name t)); [reflexivity|].
  destruct t as [n s d c o i ct cf rk]. cbn [t_super t_own t_name t_desc t_children t_inh t_ctor t_ctor_fn t_rank] in *.
  rewrite (fix_feats_id ts o Hf). destruct s as [s|]; cbn [bind]; [rewrite (resolve_id ts s (Hs s eq_refl)); reflexivity|reflexivity].
Qed.
Lemma fix_tys_id ts l : (forall t, In t l -> fix_ty ts t = Ok t) -> fix_tys ts l = Ok l.
Proof.
  induction l as [|t r IH]; intros H; cbn [fix_tys]; [reflexivity|]. rewrite (H t (or_introl eq_refl)). cbn [bind].
  rewrite IH; [reflexivity|]. intros u Hu. apply H. right. exact Hu.
Qed.

(* ================================================================================================ from the skeleton back to WFh *)
Lemma WFh_of_HI ts : HI ts -> all_feats (feat_refs_ok ts) ts -> own_dom ts -> WFh ts.
Proof.
  intros W HR HD. pose proof (HI_nodup _ W) as Hnd.
  assert (Hfind : forall n, find_ty (strip ts) n = option_map strip_ty (find_ty ts n)) by (intros n; apply (find_map_shape ts strip_ty n strip_shape)).
  constructor.
  - exact Hnd.
  - destruct (wf_top _ W) as (t' & Ht' & Hs'). rewrite Hfind in Ht'. destruct (find_ty ts TOP) as [t|]; [|discriminate].
    inversion Ht'; subst t'. exists t. split; [reflexivity|exact Hs'].
  - intros t Hin Hs. apply (wf_root _ W (strip_ty t) (in_map strip_ty _ _ Hin) Hs).
  - intros t s Hin Hs. destruct (wf_super _ W (strip_ty t) s (in_map strip_ty _ _ Hin) Hs) as (p' & Hp' & Hlt).
    rewrite Hfind in Hp'. destruct (find_ty ts s) as [p|]; [|discriminate]. inversion Hp'; subst p'. exists p. split; [reflexivity|exact Hlt].
  - intros p c Hin. pose proof (wf_children _ W (strip_ty p) c (in_map strip_ty _ _ Hin)) as Hc. cbn [strip_ty t_children t_name] in Hc.
    rewrite Hc. split.
    + intros (tc' & Hf' & Hs'). rewrite Hfind in Hf'. destruct (find_ty ts c) as [tc|]; [|discriminate]. inversion Hf'; subst tc'. exists tc. auto.
    + intros (tc & Hf & Hs). exists (strip_ty tc). rewrite Hfind, Hf. auto.
  - intros p Hin. apply (wf_children_nodup _ W (strip_ty p) (in_map strip_ty _ _ Hin)).
  - exact HR.
  - exact HD.
Qed.

Definition all_WFh (inputs : list tsys) : Prop := forall ts, In ts inputs -> WFh ts.
Definition st0 : mst := mkSt init_ts [] [].

Lemma Inv_st0 L : Inv L st0.
Proof.
  constructor; cbn [st0 m_ts m_done].
  - exact init_HI.
  - intros n [].
  - intros n H. exact H.
  - apply init_names_ok.
  - exact init_own_dom.
Qed.

(* what holds when the readiness loop has ended normally *)
Lemma rounds_end inputs fuel st : all_WFh inputs -> rounds fn_form fuel (type_list inputs) st0 = Ok st ->
  Inv (type_list inputs) st /\ forall d, In d (type_list inputs) -> Rreg d st.
Proof.
  intros HW H. set (L := type_list inputs) in *.
  destruct (rounds_inv fn_form L (Inv L) Rreg) with (fuel := fuel) (l := L) (st := st0) (st' := st) as (HI & HR & _).
  - intros s d s1 HI0 Hd _ Hm. apply (merge_decl_Inv L s d s1 HI0 (type_list_ok inputs HW d Hd) Hm).
  - apply incl_refl.
  - apply Inv_st0.
  - exact H.
  - split; assumption.
Qed.
Lemma end_refs L st : Inv L st -> (forall d, In d L -> Rreg d st) -> all_feats (feat_refs_ok (m_ts st)) (m_ts st).
Proof.
  intros HI HR t f Hin Hf. destruct (inv_names _ _ HI t f Hin Hf) as (H1 & H2 & H3).
  assert (Hn : forall n, nm_ok L n -> registered (m_ts st) n = true).
  { intros n [Hn|Hn]; [apply (inv_init _ _ HI n Hn)|]. unfold dnames in Hn. apply in_map_iff in Hn. destruct Hn as (d & <- & Hd). apply (HR d Hd). }
  unfold feat_refs_ok. split; [apply Hn; exact H1|]. split; [apply Hn; exact H2|]. destruct (f_elem f); [apply Hn; exact H3|exact I].
Qed.
Lemma end_WFh L st : Inv L st -> (forall d, In d L -> Rreg d st) -> WFh (m_ts st).
Proof. intros HI HR. apply WFh_of_HI; [apply (inv_HI _ _ HI)|apply (end_refs L st HI HR)|apply (inv_dom _ _ HI)]. Qed.
Lemma fixup_id ts : WFh ts -> fixup ts = Ok ts.
Proof.
  intros W. unfold fixup. apply fix_tys_id. intros t Hin. apply fix_ty_id.
  - intros s Hs. destruct (wf_super _ W t s Hin Hs) as (p & Hp & _). apply registered_iff. eauto.
  - intros f Hf. apply (wf_refs _ W t f Hin). apply in_or_app. left. exact Hf.
Qed.

(* ---- merge_typesystems of well-formed inputs: the result, when there is one, is the state the loop ended in ---- *)
Lemma merge_inv inputs ts : all_WFh inputs -> merge inputs = Ok ts ->
  exists st, rounds fn_form (S (List.length (type_list inputs))) (type_list inputs) st0 = Ok st /\ m_ts st = ts /\
             Inv (type_list inputs) st /\ (forall d, In d (type_list inputs) -> Rreg d st) /\ WFh ts.
Proof.
  intros HW H. unfold merge, merge_with in H. fold st0 in H.
  destruct (rounds fn_form (S (List.length (type_list inputs))) (type_list inputs) st0) as [st| |] eqn:Er; cbn [bind] in H; try discriminate.
  destruct (rounds_end inputs _ st HW Er) as (HI & HR). pose proof (end_WFh _ st HI HR) as W.
  rewrite (fixup_id _ W) in H. cbn [bind m_ts] in H. inversion H; subst ts. exists st.
  split; [reflexivity|]. split; [reflexivity|]. split; [exact HI|]. split; [exact HR|exact W].
Qed.

(* the result of merging well-formed type systems satisfies the hierarchy invariant of C10 *)
Theorem merge_WFh inputs ts : all_WFh inputs -> merge inputs = Ok ts -> WFh ts.
Proof. intros HW H. destruct (merge_inv inputs ts HW H) as (st & _ & _ & _ & _ & W). exact W. Qed.

(* termination: the round bound `number of declarations + 1` is never exhausted, and no query inside runs out of fuel *)
Theorem merge_terminates inputs : all_WFh inputs -> merge inputs <> OutOfFuel.
Proof.
  intros HW. unfold merge, merge_with. fold st0. set (L := type_list inputs).
  assert (Hr : rounds fn_form (S (List.length L)) L st0 <> OutOfFuel).
  { apply (rounds_nofuel fn_form L (Inv L) Rreg).
    - intros s d s1 HI0 Hd _ Hm. apply (merge_decl_Inv L s d s1 HI0 (type_list_ok inputs HW d Hd) Hm).
    - intros s d HI0 _ _. apply merge_decl_nofuel. apply (inv_HI _ _ HI0).
    - apply incl_refl.
    - apply Inv_st0.
    - apply Nat.lt_succ_diag_r. }
  destruct (rounds fn_form (S (List.length L)) L st0) as [st| |] eqn:Er; cbn [bind]; try discriminate; [|congruence].
  destruct (rounds_end inputs _ st HW Er) as (HI & HR). rewrite (fixup_id _ (end_WFh _ st HI HR)). cbn [bind]. discriminate.
Qed.

(* every type of every input is registered in the result *)
Theorem merge_contains_all_types inputs ts : all_WFh inputs -> merge inputs = Ok ts ->
  forall ti t, In ti inputs -> In t ti -> registered ts (t_name t) = true.
Proof.
  intros HW H ti t Hti Ht. destruct (merge_inv inputs ts HW H) as (st & _ & <- & HI & HR & _).
  destruct (is_predef (t_name t)) eqn:Ep.
  - apply (inv_init _ _ HI). apply predef_in_init. exact Ep.
  - assert (Hu : In t (user_types ti)) by (apply filter_In; split; [exact Ht|rewrite Ep; reflexivity]).
    pose proof (type_list_from_names 1 inputs ti t Hti Hu) as Hn. unfold dnames in Hn. apply in_map_iff in Hn.
    destruct Hn as (d & Hdn & Hd). rewrite <- Hdn. apply (HR d Hd).
Qed.

(* ================================================================================================ the hierarchy only deepens *)
(* ancestors are never lost, and a type's supertype only moves to something the old supertype subsumes *)
Definition bgrows (ts ts' : tsys) : Prop := forall a d, below ts a d -> below ts' a d.
Definition sdown (ts ts' : tsys) : Prop :=
  forall n t, find_ty ts n = Some t -> exists t', find_ty ts' n = Some t' /\
    match t_super t, t_super t' with Some s, Some s' => below ts' s s' | None, None => True | _, _ => False end.
Definition hgrows (ts ts' : tsys) : Prop := bgrows ts ts' /\ sdown ts ts'.

Lemma hgrows_refl ts : hgrows ts ts.
Proof.
  split; [intros a d H; exact H|]. intros n t H. exists t. split; [exact H|]. destruct (t_super t); [apply below_refl|exact I].
Qed.
Lemma hgrows_trans a b c : hgrows a b -> hgrows b c -> hgrows a c.
Proof.
  intros [B1 S1] [B2 S2]. split; [intros x y H; apply B2, B1, H|].
  intros n t H. destruct (S1 n t H) as (t1 & H1 & M1). destruct (S2 n t1 H1) as (t2 & H2 & M2). exists t2. split; [exact H2|].
  destruct (t_super t) as [s|], (t_super t1) as [s1|], (t_super t2) as [s2|]; try contradiction; auto.
  eapply below_trans; [apply B2; exact M1|exact M2].
Qed.

(* updates that leave the skeleton alone *)
Lemma strip_eq_find ts ts' n t : strip ts' = strip ts -> find_ty ts n = Some t ->
  exists t', find_ty ts' n = Some t' /\ t_super t' = t_super t.
Proof.
  intros E H. pose proof (HI_find _ _ _ H) as H1. rewrite <- E in H1. unfold strip in H1.
  rewrite (find_map_shape ts' strip_ty n strip_shape) in H1. destruct (find_ty ts' n) as [t'|]; [|discriminate].
  exists t'. split; [reflexivity|]. inversion H1. reflexivity.
Qed.
Lemma strip_eq_below ts ts' a d : strip ts' = strip ts -> (below ts a d <-> below ts' a d).
Proof.
  intros E. rewrite <- (below_map strip_ty ts a d strip_shape), <- (below_map strip_ty ts' a d strip_shape). fold (strip ts) (strip ts').
  rewrite E. reflexivity.
Qed.
Lemma strip_eq_hgrows ts ts' : strip ts' = strip ts -> hgrows ts ts'.
Proof.
  intros E. split; [intros a d H; apply (strip_eq_below ts ts' a d E); exact H|].
  intros n t H. destruct (strip_eq_find ts ts' n t E H) as (t' & H' & Hs). exists t'. split; [exact H'|]. rewrite Hs.
  destruct (t_super t); [apply below_refl|exact I].
Qed.

Lemma create_type_hgrows ts name supn desc ts' : registered ts TOP = true -> create_type ts name supn desc = Ok ts' -> hgrows ts ts'.
Proof.
  intros Htop H. destruct (create_type_inv' _ _ _ _ _ Htop H) as (Hnone & p & inh & _ & _ & _ & ->).
  assert (Hf : forall n t, find_ty ts n = Some t -> find_ty (map (add_child (t_name p) name) ts ++ [new_type name p desc inh]) n = Some (add_child (t_name p) name t)).
  { intros n t Hn. rewrite find_app_new, find_map_add_child, Hn. reflexivity. }
  split.
  - unfold bgrows. apply below_transfer. intros n t Hn. exists (add_child (t_name p) name t). split; [apply Hf; exact Hn|apply add_child_super].
  - intros n t Hn. exists (add_child (t_name p) name t). split; [apply Hf; exact Hn|]. rewrite add_child_super.
    destruct (t_super t); [apply below_refl|exact I].
Qed.

(* ---- re-parenting ---- *)
Section RelinkBelow.
  Variables (ts : tsys) (x oldp newp : tname) (k : nat) (tx tn : ty).
  Hypothesis W : WFh ts.
  Hypothesis Hx : find_ty ts x = Some tx.
  Hypothesis Hsx : t_super tx = Some oldp.
  Hypothesis Hn : find_ty ts newp = Some tn.
  Hypothesis Hnb : ~ below ts x newp.
  Hypothesis Hon : below ts oldp newp.
  Let ts' := relink ts x oldp newp k.

  Lemma relink_find' n : find_ty ts' n = option_map (relink_ty ts x oldp newp k) (find_ty ts n).
  Proof. apply find_map_name. intros t. apply relink_name. Qed.
  Lemma relink_below_avoid a d : below ts a d -> ~ below ts x d -> below ts' a d.
  Proof.
    intros H. induction H as [|d td s Hf Hs Hb IH]; intros Hnx; [apply below_refl|].
    destruct (find_ty_In _ _ _ Hf) as [_ Hdn].
    assert (Hdx : d <> x) by (intros ->; apply Hnx; apply below_refl).
    eapply below_step; [rewrite relink_find', Hf; reflexivity| |apply IH; intros Hxs; apply Hnx; eapply below_step; eassumption].
    rewrite relink_super, Hdn. apply String.eqb_neq in Hdx. rewrite Hdx. exact Hs.
  Qed.
  Lemma relink_below a d : below ts a d -> below ts' a d.
  Proof.
    intros H. induction H as [|d td s Hf Hs Hb IH]; [apply below_refl|].
    destruct (find_ty_In _ _ _ Hf) as [_ Hdn]. destruct (String.eqb d x) eqn:E.
    - apply String.eqb_eq in E. rewrite E in *. rewrite Hx in Hf. inversion Hf; subst td. rewrite Hsx in Hs. inversion Hs; subst s.
      eapply below_step; [rewrite relink_find', Hx; reflexivity|rewrite relink_super, Hdn, String.eqb_refl; reflexivity|].
      apply relink_below_avoid; [eapply below_trans; eassumption|exact Hnb].
    - eapply below_step; [rewrite relink_find', Hf; reflexivity| |exact IH]. rewrite relink_super, Hdn, E. exact Hs.
  Qed.
  Lemma relink_hgrows : hgrows ts ts'.
  Proof.
    split; [intros a d; apply relink_below|]. intros n t Hf. exists (relink_ty ts x oldp newp k t). rewrite relink_find', Hf. split; [reflexivity|].
    rewrite relink_super. destruct (find_ty_In _ _ _ Hf) as [_ Hnn]. rewrite Hnn. destruct (String.eqb n x) eqn:E.
    - apply String.eqb_eq in E. rewrite E in *. rewrite Hx in Hf. inversion Hf; subst t. rewrite Hsx. apply relink_below. exact Hon.
    - destruct (t_super t); [apply below_refl|exact I].
  Qed.
End RelinkBelow.

(* the same through the skeleton *)
Lemma hgrows_of_strip ts ts' : hgrows (strip ts) (strip ts') -> hgrows ts ts'.
Proof.
  intros [B S]. split.
  - intros a d H. apply (below_map strip_ty ts' a d strip_shape). apply B. apply (below_map strip_ty ts a d strip_shape). exact H.
  - intros n t H. destruct (S n (strip_ty t) (HI_find _ _ _ H)) as (t1 & H1 & M). unfold strip in H1.
    rewrite (find_map_shape ts' strip_ty n strip_shape) in H1. destruct (find_ty ts' n) as [t'|]; [|discriminate]. inversion H1; subst t1.
    exists t'. split; [reflexivity|]. cbn [strip_ty t_super] in M. destruct (t_super t), (t_super t'); auto.
    apply (below_map strip_ty ts' _ _ strip_shape). exact M.
Qed.
Lemma relink_hgrows_HI ts x oldp newp k tx tn : HI ts -> find_ty ts x = Some tx -> t_super tx = Some oldp ->
  find_ty ts newp = Some tn -> ~ below ts x newp -> below ts oldp newp -> hgrows ts (relink ts x oldp newp k).
Proof.
  intros W Hx Hs Hn Hnb Hon. apply hgrows_of_strip. rewrite strip_relink.
  apply (relink_hgrows (strip ts) x oldp newp k (strip_ty tx) (HI_find _ _ _ Hx) Hs).
  - intros Hb. apply Hnb. apply (below_map strip_ty ts x newp strip_shape). exact Hb.
  - apply (below_map strip_ty ts oldp newp strip_shape). exact Hon.
Qed.

(* after a step every supertype is what it was, except that the type just declared has the declared supertype *)
Definition step_supers (ts ts' : tsys) (x sup : tname) : Prop :=
  forall n t', find_ty ts' n = Some t' ->
    (n = x /\ t_super t' = Some sup) \/ (exists t, find_ty ts n = Some t /\ t_super t' = t_super t).
Lemma step_supers_refl ts x sup : step_supers ts ts x sup.
Proof. intros n t' H. right. exists t'. auto. Qed.
Lemma step_supers_strip a b c x sup : step_supers a b x sup -> strip c = strip b -> step_supers a c x sup.
Proof.
  intros S E n t' H. destruct (strip_eq_find c b n t' (eq_sym E) H) as (t1 & H1 & Hs1). rewrite <- Hs1.
  apply (S n t1 H1).
Qed.

Lemma ready_registered L st d s : Inv L st -> t_super (d_ty d) = Some s -> (is_predef s || memb s (m_done st)) = true ->
  exists tsup, find_ty (m_ts st) s = Some tsup /\ get_type (m_ts st) s = Ok tsup /\ t_name tsup = s.
Proof.
  intros HI _ Hr. assert (Hreg : registered (m_ts st) s = true).
  { apply orb_true_iff in Hr. destruct Hr as [Hr|Hr]; [apply (inv_init _ _ HI), predef_in_init, Hr|apply (inv_done _ _ HI), memb_In, Hr]. }
  apply registered_iff in Hreg. destruct Hreg as (tsup & Hf). exists tsup. split; [exact Hf|]. split; [apply get_type_full; exact Hf|apply (find_ty_In _ _ _ Hf)].
Qed.

(* ---- the supertype comparison, case by case ---- *)
Lemma merge_super_spec ts x sup tsup ts' : HI ts -> registered ts x = true -> find_ty ts sup = Some tsup ->
  merge_super fn_form ts x sup = Ok ts' ->
  hgrows ts ts' /\ step_supers ts ts' x sup /\
  exists t s, find_ty ts' x = Some t /\ t_super t = Some s /\ below ts' sup s.
Proof.
  intros W Hreg Hsup H. apply registered_iff in Hreg. destruct Hreg as (ex & Hfx). destruct (find_ty_In _ _ _ Hfx) as [Hexin Hexn].
  unfold merge_super in H. rewrite (get_type_full _ _ _ Hfx) in H. cbn [bind] in H.
  destruct (t_super ex) as [exsup|] eqn:Es; [|discriminate]. destruct (find_ty_In _ _ _ Hsup) as [_ Hsn].
  destruct (String.eqb sup exsup) eqn:Ee.
  - apply String.eqb_eq in Ee. subst exsup. inversion H; subst ts'. split; [apply hgrows_refl|]. split; [apply step_supers_refl|].
    exists ex, sup. repeat split; auto. apply below_refl.
  - destruct (HI_subsumes_gen ts (t_name ex) sup ex tsup W (get_type_full _ _ _ (eq_ind_r (fun n => find_ty ts n = Some ex) Hfx Hexn)) (get_type_full _ _ _ Hsup))
      as (b1 & Hb1 & Hiff1). rewrite Hb1 in H. cbn [bind] in H. destruct b1; [discriminate|].
    destruct (HI_super ts ex exsup W Hexin Es) as (tp & Hfp & _). destruct (find_ty_In _ _ _ Hfp) as [_ Hpn].
    destruct (HI_subsumes_gen ts exsup sup tp tsup W (get_type_full _ _ _ Hfp) (get_type_full _ _ _ Hsup)) as (b2 & Hb2 & Hiff2).
    rewrite Hb2 in H. cbn [bind] in H. rewrite Hexn, Hsn in Hiff1. rewrite Hpn, Hsn in Hiff2. rewrite Hexn in H. destruct b2.
    + assert (Hnb : ~ below ts x sup) by (intros Hb; apply Hiff1 in Hb; discriminate).
      assert (Hon : below ts exsup sup) by (apply Hiff2; reflexivity).
      assert (Hnb' : ~ below ts x (t_name tsup)) by (rewrite Hsn; exact Hnb).
      destruct (reparent_HI ts x exsup sup ts' ex tsup W Hfx Es (get_type_full _ _ _ Hsup) Hnb' H) as (W' & E). rewrite Hsn in E.
      set (ts1 := relink ts x exsup sup (S (t_rank tsup))) in *.
      pose proof (relink_hgrows_HI ts x exsup sup (S (t_rank tsup)) ex tsup W Hfx Es Hsup Hnb Hon) as G1. fold ts1 in G1.
      pose proof (strip_eq_hgrows ts1 ts' E) as G2. pose proof (hgrows_trans _ _ _ G1 G2) as G.
      assert (S1 : step_supers ts ts1 x sup).
      { intros n t1 H1. unfold ts1, relink in H1. rewrite (find_map_name _ ts n (fun t => relink_name ts x exsup sup _ t)) in H1.
        destruct (find_ty ts n) as [t|] eqn:En; [|discriminate]. cbn [option_map] in H1. inversion H1; subst t1. rewrite relink_super.
        destruct (find_ty_In _ _ _ En) as [_ Hnn]. rewrite Hnn. destruct (String.eqb n x) eqn:Enx.
        - left. apply String.eqb_eq in Enx. auto.
        - right. exists t. auto. }
      split; [exact G|]. split; [apply (step_supers_strip ts ts1 ts' x sup S1 E)|].
      assert (H1 : find_ty ts1 x = Some (relink_ty ts x exsup sup (S (t_rank tsup)) ex)).
      { unfold ts1, relink. rewrite (find_map_name _ ts x (fun t => relink_name ts x exsup sup _ t)), Hfx. reflexivity. }
      destruct (strip_eq_find ts1 ts' x _ E H1) as (t' & Ht' & Hs'). exists t', sup. split; [exact Ht'|]. split; [|apply below_refl].
      rewrite Hs', relink_super, Hexn, String.eqb_refl. reflexivity.
    + destruct (HI_subsumes_gen ts sup exsup tsup tp W (get_type_full _ _ _ Hsup) (get_type_full _ _ _ Hfp)) as (b3 & Hb3 & Hiff3).
      rewrite Hb3 in H. cbn [bind] in H. rewrite Hpn, Hsn in Hiff3. destruct b3; [|discriminate]. inversion H; subst ts'.
      split; [apply hgrows_refl|]. split; [apply step_supers_refl|]. exists ex, exsup. repeat split; auto. apply Hiff3. reflexivity.
Qed.

Lemma create_type_spec ts x sup tsup desc ts' : HI ts -> find_ty ts sup = Some tsup -> create_type ts x sup desc = Ok ts' ->
  hgrows ts ts' /\ step_supers ts ts' x sup /\ exists t, find_ty ts' x = Some t /\ t_super t = Some sup.
Proof.
  intros W Hsup H. pose proof (HI_top _ W) as Htop. split; [apply (create_type_hgrows _ _ _ _ _ Htop H)|].
  destruct (create_type_inv' _ _ _ _ _ Htop H) as (Hnone & p & inh & Hg & _ & _ & ->). rewrite (get_type_full _ _ _ Hsup) in Hg.
  inversion Hg; subst p. destruct (find_ty_In _ _ _ Hsup) as [_ Hsn].
  assert (Hnew : t_super (new_type x tsup desc inh) = Some sup) by (cbn [new_type rebuild_ctor t_super]; rewrite Hsn; reflexivity).
  split.
  - intros n t' Hf. rewrite find_app_new, find_map_add_child in Hf. destruct (find_ty ts n) as [t|] eqn:En; cbn [option_map] in Hf.
    + inversion Hf; subst t'. right. exists t. split; [reflexivity|apply add_child_super].
    + cbn [new_type rebuild_ctor t_name] in Hf. destruct (String.eqb x n) eqn:Exn; [|discriminate]. apply String.eqb_eq in Exn.
      inversion Hf; subst t'. left. split; [symmetry; exact Exn|exact Hnew].
  - exists (new_type x tsup desc inh). split; [|exact Hnew]. rewrite find_app_new, find_map_add_child, Hnone. cbn [option_map new_type rebuild_ctor t_name].
    rewrite String.eqb_refl. reflexivity.
Qed.

Lemma merge_decl_spec L st d st1 sup : Inv L st -> t_super (d_ty d) = Some sup -> (is_predef sup || memb sup (m_done st)) = true ->
  merge_decl fn_form st d = Ok st1 ->
  hgrows (m_ts st) (m_ts st1) /\ step_supers (m_ts st) (m_ts st1) (dname d) sup /\
  exists t s, find_ty (m_ts st1) (dname d) = Some t /\ t_super t = Some s /\ below (m_ts st1) sup s.
Proof.
  intros HI Hs Hr H. destruct (ready_registered L st d sup HI Hs Hr) as (tsup & Hfsup & _ & _).
  pose proof (inv_HI _ _ HI) as W. unfold merge_decl in H. rewrite Hs in H. fold (dname d) in H.
  destruct (registered (m_ts st) (dname d)) eqn:Er.
  - destruct (merge_super fn_form (m_ts st) (dname d) sup) as [ts1| |] eqn:E; cbn [bind] in H; try discriminate.
    destruct (merge_features fn_form (d_in d) (dname d) (t_own (d_ty d)) ts1 (m_tags st)) as [r| |] eqn:Ef; cbn [bind] in H; try discriminate.
    inversion H; subst st1. cbn [m_ts]. pose proof (merge_features_strip _ _ _ _ _ _ Ef) as Es.
    destruct (merge_super_spec _ _ _ _ _ W Er Hfsup E) as (G1 & S1 & t & s & Ht & Hts & Hb).
    pose proof (strip_eq_hgrows ts1 (fst r) Es) as G2. split; [eapply hgrows_trans; eassumption|].
    split; [apply (step_supers_strip _ ts1 _ _ _ S1 Es)|].
    destruct (strip_eq_find ts1 (fst r) _ t Es Ht) as (t' & Ht' & Hs'). exists t', s. split; [exact Ht'|]. split; [congruence|].
    apply (proj1 G2). exact Hb.
  - destruct (create_type (m_ts st) (dname d) sup (t_desc (d_ty d))) as [ts1| |] eqn:E; cbn [bind] in H; try discriminate.
    destruct (merge_features fn_form (d_in d) (dname d) (t_own (d_ty d)) ts1 (m_tags st)) as [r| |] eqn:Ef; cbn [bind] in H; try discriminate.
    inversion H; subst st1. cbn [m_ts]. pose proof (merge_features_strip _ _ _ _ _ _ Ef) as Es.
    destruct (create_type_spec _ _ _ _ _ _ W Hfsup E) as (G1 & S1 & t & Ht & Hts).
    pose proof (strip_eq_hgrows ts1 (fst r) Es) as G2. split; [eapply hgrows_trans; eassumption|].
    split; [apply (step_supers_strip _ ts1 _ _ _ S1 Es)|].
    destruct (strip_eq_find ts1 (fst r) _ t Es Ht) as (t' & Ht' & Hs'). exists t', sup. split; [exact Ht'|]. split; [congruence|apply below_refl].
Qed.

(* ================================================================================================ most specific supertype *)
(* every supertype in the merged type system is the built-in one or one that some input declares for that type *)
Definition sup_sound (L : list decl) (ts : tsys) : Prop :=
  forall n t s, find_ty ts n = Some t -> t_super t = Some s ->
    (exists t0, find_ty init_ts n = Some t0 /\ t_super t0 = Some s) \/ (exists d, In d L /\ dname d = n /\ t_super (d_ty d) = Some s).
(* the declared supertype of a processed declaration subsumes the supertype the type has now *)
Definition Rsup (d : decl) (st : mst) : Prop :=
  exists t s sup, find_ty (m_ts st) (dname d) = Some t /\ t_super t = Some s /\ t_super (d_ty d) = Some sup /\ below (m_ts st) sup s.

Definition Inv2 (L : list decl) (st : mst) : Prop := Inv L st /\ sup_sound L (m_ts st).
Lemma merge_decl_Inv2 L st d st1 : Inv2 L st -> In d L -> decl_ok L d -> ready st d -> merge_decl fn_form st d = Ok st1 ->
  Inv2 L st1 /\ (Rreg d st1 /\ Rsup d st1) /\ (forall d', Rreg d' st /\ Rsup d' st -> Rreg d' st1 /\ Rsup d' st1).
Proof.
  intros [HI HS] Hd Hok (sup & Hs & Hr) H. destruct (merge_decl_Inv L st d st1 HI Hok H) as (HI1 & HR1 & Hmono).
  destruct (merge_decl_spec L st d st1 sup HI Hs Hr H) as ([B S] & SS & t & s & Ht & Hts & Hb).
  split; [split; [exact HI1|]|split].
  - intros n t1 s1 Hf1 Hs1. destruct (SS n t1 Hf1) as [[-> Hs1']|(t0 & Hf0 & Hs0)].
    + right. exists d. rewrite Hs1 in Hs1'. inversion Hs1'; subst s1. auto.
    + rewrite Hs0 in Hs1. apply (HS n t0 s1 Hf0 Hs1).
  - split; [exact HR1|]. exists t, s, sup. auto.
  - intros d' [Hr' (t' & s' & sup' & Ht' & Hts' & Hd' & Hb')]. split; [apply Hmono; exact Hr'|].
    destruct (S _ t' Ht') as (t1 & Ht1 & M). rewrite Hts' in M. destruct (t_super t1) as [s1|] eqn:Es1; [|contradiction].
    exists t1, s1, sup'. repeat split; auto. eapply below_trans; [apply B; exact Hb'|exact M].
Qed.
Lemma init_sup_sound L : sup_sound L init_ts.
Proof. intros n t s Hf Hs. left. exists t. auto. Qed.

Lemma merge_inv2 inputs ts : all_WFh inputs -> merge inputs = Ok ts ->
  sup_sound (type_list inputs) ts /\ forall d, In d (type_list inputs) ->
    exists t s sup, find_ty ts (dname d) = Some t /\ t_super t = Some s /\ t_super (d_ty d) = Some sup /\ below ts sup s.
Proof.
  intros HW H. destruct (merge_inv inputs ts HW H) as (st & Er & <- & _ & _ & _). set (L := type_list inputs) in *.
  destruct (rounds_inv fn_form L (Inv2 L) (fun d s => Rreg d s /\ Rsup d s)) with (fuel := S (List.length L)) (l := L) (st := st0) (st' := st)
    as ((_ & HS) & HR & _).
  - intros s d s1 HI0 Hd Hrdy Hm. apply (merge_decl_Inv2 L s d s1 HI0 Hd (type_list_ok inputs HW d Hd) Hrdy Hm).
  - apply incl_refl.
  - split; [apply Inv_st0|apply init_sup_sound].
  - exact Er.
  - split; [exact HS|]. intros d Hd. apply (HR d Hd).
Qed.

(* a type declared with different supertypes gets one of the declared ones, and every declared one subsumes it *)
Theorem merge_supertype_most_specific inputs ts : all_WFh inputs -> merge inputs = Ok ts ->
  forall d, In d (type_list inputs) ->
  exists t s, find_ty ts (dname d) = Some t /\ t_super t = Some s /\
    (forall d' sup', In d' (type_list inputs) -> dname d' = dname d -> t_super (d_ty d') = Some sup' -> below ts sup' s) /\
    ((exists d', In d' (type_list inputs) /\ dname d' = dname d /\ t_super (d_ty d') = Some s) \/
     (exists t0, find_ty init_ts (dname d) = Some t0 /\ t_super t0 = Some s)).
Proof.
  intros HW H d Hd. destruct (merge_inv2 inputs ts HW H) as (HS & HR).
  destruct (HR d Hd) as (t & s & sup & Ht & Hts & _ & _). exists t, s. split; [exact Ht|]. split; [exact Hts|]. split.
  - intros d' sup' Hd' Hn Hs'. destruct (HR d' Hd') as (t' & s' & sup'' & Ht' & Hts' & Hs'' & Hb). rewrite Hn, Ht in Ht'. inversion Ht'; subst t'.
    rewrite Hts in Hts'. inversion Hts'; subst s'. rewrite Hs' in Hs''. inversion Hs''; subst sup''. exact Hb.
  - destruct (HS _ t s Ht Hts) as [H0|(d' & H1 & H2 & H3)]; [right; exact H0|left; exists d'; auto].
Qed.
(* hence two supertypes declared for one type are comparable in the result ... *)
Theorem merge_ok_supertypes_comparable inputs ts d1 d2 s1 s2 : all_WFh inputs -> merge inputs = Ok ts ->
  In d1 (type_list inputs) -> In d2 (type_list inputs) -> dname d1 = dname d2 ->
  t_super (d_ty d1) = Some s1 -> t_super (d_ty d2) = Some s2 -> below ts s1 s2 \/ below ts s2 s1.
Proof.
  intros HW H H1 H2 Hn Hs1 Hs2. destruct (merge_supertype_most_specific inputs ts HW H d1 H1) as (t & s & _ & _ & Hall & _).
  apply (chain_linear ts s1 s2 s); [apply (Hall d1 s1 H1 eq_refl Hs1)|apply (Hall d2 s2 H2 (eq_sym Hn) Hs2)].
Qed.
(* ... and declarations that put two types below each other cannot be merged *)
Theorem merge_contradictory_fails inputs d1 d2 : all_WFh inputs ->
  In d1 (type_list inputs) -> In d2 (type_list inputs) ->
  t_super (d_ty d1) = Some (dname d2) -> t_super (d_ty d2) = Some (dname d1) -> forall ts, merge inputs <> Ok ts.
Proof.
  intros HW H1 H2 Hs1 Hs2 ts H. pose proof (merge_WFh inputs ts HW H) as W.
  destruct (merge_supertype_most_specific inputs ts HW H d1 H1) as (t1 & s1 & Ht1 & Hts1 & Hall1 & _).
  destruct (merge_supertype_most_specific inputs ts HW H d2 H2) as (t2 & s2 & Ht2 & Hts2 & Hall2 & _).
  pose proof (Hall1 d1 _ H1 eq_refl Hs1) as B1. pose proof (Hall2 d2 _ H2 eq_refl Hs2) as B2.
  assert (S1 : sbelow ts (dname d2) (dname d1)) by (exists t1, s1; auto).
  assert (S2 : sbelow ts (dname d1) (dname d2)) by (exists t2, s2; auto).
  apply (sbelow_neq ts (dname d1) (dname d1) W); [|reflexivity].
  destruct S2 as (td & s & Hf & Hs & Hb). exists t1, s1. repeat split; auto.
  eapply below_trans; [|exact B1]. eapply below_step; eassumption.
Qed.

(* ================================================================================================ the only error is ValueError *)
Lemma add_feature_res_err ts x f e : registered ts x = true -> add_feature_res ts x f = Err e -> e = EValue.
Proof.
  intros Hr. unfold add_feature_res, add_feature. unfold registered in Hr. destruct (find_ty ts x) as [t|]; [|discriminate].
  destruct (find_feat (f_name f) (t_own t)); [destruct (feat_eqb _ f); [discriminate|intros H; inversion H; reflexivity]|].
  destruct (find_feat (f_name f) (t_inh t)); [destruct (feat_eqb _ f); [discriminate|intros H; inversion H; reflexivity]|].
  destruct (existsb _ ts); [intros H; inversion H; reflexivity|discriminate].
Qed.
Lemma merge_features_err i x fs : forall ts tags e, registered ts x = true -> merge_features fn_form i x fs ts tags = Err e -> e = EValue.
Proof.
  induction fs as [|f r IH]; intros ts tags e Hr H; cbn [merge_features] in H; [discriminate|]. cbn [fn_form addf] in H.
  destruct (add_feature_res ts x f) as [ts1|e1|] eqn:E; cbn [bind] in H; try discriminate.
  - apply (IH _ _ _ (grows_registered _ _ _ (add_feature_res_grows _ _ _ _ E) Hr) H).
  - inversion H; subst e1. apply (add_feature_res_err _ _ _ _ Hr E).
Qed.
Lemma inherit_fn_err ts x f e : registered ts x = true -> inherit_fn ts x f = Err e -> e = EValue.
Proof.
  intros Hr. unfold inherit_fn. unfold registered in Hr. destruct (find_ty ts x) as [t|]; [|discriminate].
  destruct (find_feat (f_name f) (t_inh t)); [destruct (feat_eqb _ f); [discriminate|intros H; inversion H; reflexivity]|].
  destruct (existsb _ ts); [intros H; inversion H; reflexivity|discriminate].
Qed.
Lemma inherit_list_err x fs : forall ts e, registered ts x = true -> inherit_list fn_form x fs ts = Err e -> e = EValue.
Proof.
  induction fs as [|f r IH]; intros ts e Hr H; cbn [inherit_list] in H; [discriminate|]. cbn [fn_form inhf] in H.
  destruct (inherit_fn ts x f) as [ts1|e1|] eqn:E; cbn [bind] in H; try discriminate.
  - apply (IH _ _ (grows_registered _ _ _ (inherit_fn_grows _ _ _ _ E) Hr) H).
  - inversion H; subst e1. apply (inherit_fn_err _ _ _ _ Hr E).
Qed.
Lemma create_type_err ts x sup tsup desc e : find_ty ts sup = Some tsup -> create_type ts x sup desc = Err e -> e = EValue.
Proof.
  intros Hs. unfold create_type. destruct (registered ts x); [intros H; inversion H; reflexivity|].
  rewrite (get_type_full _ _ _ Hs). cbn [bind]. destruct (memb (t_name tsup) final_types); [intros H; inversion H; reflexivity|].
  destruct (String.eqb x TOP); [discriminate|].
  assert (Hi : forall l acc e', inherit_all acc l = Err e' -> e' = EValue).
  { induction l as [|f r IH]; intros acc e' H; cbn [inherit_all] in H; [discriminate|].
    destruct (find_feat (f_name f) acc); [destruct (feat_eqb _ f); [apply (IH _ _ H)|inversion H; reflexivity]|apply (IH _ _ H)]. }
  destruct (inherit_all [] (all_features tsup)) as [inh|e1|] eqn:E; cbn [bind]; try discriminate.
  intros H. inversion H; subst e1. apply (Hi _ _ _ E).
Qed.
Lemma merge_super_err ts x sup tsup e : HI ts -> registered ts x = true -> is_predef x = false -> find_ty ts sup = Some tsup ->
  merge_super fn_form ts x sup = Err e -> e = EValue.
Proof.
  intros W Hreg Hnp Hsup H. pose proof Hreg as Hreg'. apply registered_iff in Hreg. destruct Hreg as (ex & Hfx). destruct (find_ty_In _ _ _ Hfx) as [Hexin Hexn].
  unfold merge_super in H. rewrite (get_type_full _ _ _ Hfx) in H. cbn [bind] in H.
  destruct (t_super ex) as [exsup|] eqn:Es.
  2:{ exfalso. pose proof (wf_root _ W (strip_ty ex) (in_map strip_ty _ _ Hexin) Es) as Hn. cbn [strip_ty t_name] in Hn.
      rewrite Hexn in Hn. rewrite Hn in Hnp. vm_compute in Hnp. discriminate. }
  destruct (String.eqb sup exsup); [discriminate|].
  destruct (HI_subsumes_gen ts (t_name ex) sup ex tsup W (get_type_full _ _ _ (eq_ind_r (fun n => find_ty ts n = Some ex) Hfx Hexn)) (get_type_full _ _ _ Hsup))
    as (b1 & Hb1 & Hiff1). rewrite Hb1 in H. cbn [bind] in H. destruct b1; [inversion H; reflexivity|].
  destruct (HI_super ts ex exsup W Hexin Es) as (tp & Hfp & Hchild).
  destruct (HI_subsumes_gen ts exsup sup tp tsup W (get_type_full _ _ _ Hfp) (get_type_full _ _ _ Hsup)) as (b2 & Hb2 & Hiff2).
  rewrite Hb2 in H. cbn [bind] in H. destruct b2.
  - unfold reparent in H. rewrite (get_type_full _ _ _ Hsup), Hfp in H. cbn [bind] in H.
    apply memb_In in Hchild. rewrite Hchild in H. cbn [negb] in H.
    set (ts1 := relink ts (t_name ex) exsup (t_name tsup) (S (t_rank tsup))) in *.
    assert (Hf1 : forall n, find_ty ts1 n = option_map (relink_ty ts (t_name ex) exsup (t_name tsup) (S (t_rank tsup))) (find_ty ts n)).
    { intros n. apply find_map_name. intros t. apply relink_name. }
    destruct (find_ty_In _ _ _ Hsup) as [_ Hsn]. rewrite Hf1, Hsn, Hsup in H. cbn [option_map] in H.
    eapply inherit_list_err; [|exact H]. unfold registered. rewrite Hf1, Hexn, Hfx. reflexivity.
  - destruct (HI_subsumes_gen ts sup exsup tsup tp W (get_type_full _ _ _ Hsup) (get_type_full _ _ _ Hfp)) as (b3 & Hb3 & _).
    rewrite Hb3 in H. cbn [bind] in H. destruct b3; [discriminate|inversion H; reflexivity].
Qed.
Lemma merge_decl_err L st d e : Inv L st -> decl_ok L d -> ready st d -> merge_decl fn_form st d = Err e -> e = EValue.
Proof.
  intros HI (Hnp & _ & _) (sup & Hs & Hr) H. destruct (ready_registered L st d sup HI Hs Hr) as (tsup & Hfsup & _ & _).
  pose proof (inv_HI _ _ HI) as W. unfold merge_decl in H. rewrite Hs in H. fold (dname d) in H.
  destruct (registered (m_ts st) (dname d)) eqn:Er.
  - destruct (merge_super fn_form (m_ts st) (dname d) sup) as [ts1|e1|] eqn:E; cbn [bind] in H; try discriminate.
    + destruct (merge_features fn_form (d_in d) (dname d) (t_own (d_ty d)) ts1 (m_tags st)) as [r|e2|] eqn:Ef; cbn [bind] in H; try discriminate.
      inversion H; subst e2. eapply merge_features_err; [|exact Ef].
      destruct (merge_super_keeps (fun _ => True) _ _ _ _ (fun _ _ _ _ => I) (inv_dom _ _ HI) E) as (G & _). apply (grows_registered _ _ _ G Er).
    + inversion H; subst e1. apply (merge_super_err _ _ _ _ _ W Er Hnp Hfsup E).
  - destruct (create_type (m_ts st) (dname d) sup (t_desc (d_ty d))) as [ts1|e1|] eqn:E; cbn [bind] in H; try discriminate.
    + destruct (merge_features fn_form (d_in d) (dname d) (t_own (d_ty d)) ts1 (m_tags st)) as [r|e2|] eqn:Ef; cbn [bind] in H; try discriminate.
      inversion H; subst e2. eapply merge_features_err; [|exact Ef]. apply (create_type_grows _ _ _ _ _ (HI_top _ W) E).
    + inversion H; subst e1. apply (create_type_err _ _ _ _ _ _ Hfsup E).
Qed.

Section LoopErr.
  Variable L : list decl.
  Variable I : mst -> Prop.
  Hypothesis step : forall st d st1, I st -> In d L -> ready st d -> merge_decl fn_form st d = Ok st1 -> I st1.
  Hypothesis errs : forall st d e, I st -> In d L -> ready st d -> merge_decl fn_form st d = Err e -> e = EValue.
  Hypothesis sups : forall d, In d L -> t_super (d_ty d) <> None.
  Lemma pass_err : forall l st e, incl l L -> I st -> pass fn_form l st = Err e -> e = EValue.
  Proof.
    induction l as [|d r IH]; intros st e Hl HI H; cbn [pass] in H; [discriminate|].
    assert (Hd : In d L) by (apply Hl; left; reflexivity).
    assert (Hr : incl r L) by (intros y Hy; apply Hl; right; exact Hy).
    destruct (t_super (d_ty d)) as [s|] eqn:Es; [|exfalso; apply (sups d Hd Es)].
    destruct (is_predef s || memb s (m_done st)) eqn:Erdy.
    - destruct (merge_decl fn_form st d) as [st1|e1|] eqn:Em; cbn [bind] in H; try discriminate.
      + apply (IH st1 e Hr (step st d st1 HI Hd (ex_intro _ s (conj Es Erdy)) Em) H).
      + inversion H; subst e1. apply (errs st d e HI Hd (ex_intro _ s (conj Es Erdy)) Em).
    - destruct (pass fn_form r st) as [[st2 rest2]|e1|] eqn:E; cbn [bind] in H; try discriminate.
      inversion H; subst e1. apply (IH st e Hr HI E).
  Qed.
  Lemma pass_keeps : forall l st st' rest, incl l L -> I st -> pass fn_form l st = Ok (st', rest) -> I st'.
  Proof.
    induction l as [|d r IH]; intros st st' rest Hl HI H; cbn [pass] in H; [inversion H; subst; exact HI|].
    assert (Hd : In d L) by (apply Hl; left; reflexivity).
    assert (Hr : incl r L) by (intros y Hy; apply Hl; right; exact Hy).
    destruct (t_super (d_ty d)) as [s|] eqn:Es; [|discriminate].
    destruct (is_predef s || memb s (m_done st)) eqn:Erdy.
    - destruct (merge_decl fn_form st d) as [st1| |] eqn:Em; cbn [bind] in H; try discriminate.
      apply (IH st1 _ _ Hr (step st d st1 HI Hd (ex_intro _ s (conj Es Erdy)) Em) H).
    - destruct (pass fn_form r st) as [[st2 rest2]| |] eqn:E; cbn [bind] in H; try discriminate.
      cbn [fst snd] in H. inversion H; subst. apply (IH st _ _ Hr HI E).
  Qed.
  Lemma rounds_err : forall fuel l st e, incl l L -> I st -> rounds fn_form fuel l st = Err e -> e = EValue.
  Proof.
    induction fuel as [|k IH]; intros l st e Hl HI H; cbn [rounds] in H; [discriminate|].
    destruct (pass fn_form l st) as [[st1 rest]|e1|] eqn:Ep; cbn [bind fst snd] in H; try discriminate.
    - destruct (pass_shape _ _ _ _ _ Ep) as [Hincl _]. destruct rest as [|d0 rest0]; [discriminate|].
      destruct (Nat.eqb (List.length l) (List.length (d0 :: rest0))); [inversion H; reflexivity|].
      apply (IH (d0 :: rest0) st1 e); [intros y Hy; apply Hl, Hincl, Hy|apply (pass_keeps _ _ _ _ Hl HI Ep)|exact H].
    - inversion H; subst e1. apply (pass_err _ _ _ Hl HI Ep).
  Qed.
End LoopErr.

(* merging well-formed type systems either succeeds or raises ValueError *)
Theorem merge_error_is_value inputs e : all_WFh inputs -> merge inputs = Err e -> e = EValue.
Proof.
  intros HW H. unfold merge, merge_with in H. fold st0 in H. set (L := type_list inputs) in *.
  destruct (rounds fn_form (S (List.length L)) L st0) as [st|e1|] eqn:Er; cbn [bind] in H; try discriminate.
  - destruct (rounds_end inputs _ st HW Er) as (HI & HR). rewrite (fixup_id _ (end_WFh _ st HI HR)) in H. discriminate.
  - inversion H; subst e1. apply (rounds_err L (Inv L)) with (fuel := S (List.length L)) (l := L) (st := st0).
    + intros s d s1 HI0 Hd _ Hm. apply (merge_decl_Inv L s d s1 HI0 (type_list_ok inputs HW d Hd) Hm).
    + intros s d e' HI0 Hd Hrdy Hm. apply (merge_decl_err L s d e' HI0 (type_list_ok inputs HW d Hd) Hrdy Hm).
    + intros d Hd Hn. destruct (type_list_ok inputs HW d Hd) as (_ & (s & Hs & _) & _). congruence.
    + apply incl_refl.
    + apply Inv_st0.
    + exact Er.
Qed.
(* so, with termination: what is not mergeable raises ValueError *)
Corollary merge_fails_with_value inputs : all_WFh inputs -> (forall ts, merge inputs <> Ok ts) -> merge inputs = Err EValue.
Proof.
  intros HW Hn. destruct (merge inputs) as [ts|e|] eqn:E.
  - exfalso. apply (Hn ts). reflexivity.
  - rewrite (merge_error_is_value inputs e HW E). reflexivity.
  - exfalso. apply (merge_terminates inputs HW E).
Qed.

(* ================================================================================================ conflicting supertypes raise *)
(* an edge "d is declared directly below s": by TypeSystem() itself or by some input *)
Definition declared_edge (L : list decl) (d s : tname) : Prop :=
  (exists t0, find_ty init_ts d = Some t0 /\ t_super t0 = Some s) \/ (exists dd, In dd L /\ dname dd = d /\ t_super (d_ty dd) = Some s).
(* a is d or above d in the union of all declared edges *)
Inductive dreach (L : list decl) (a : tname) : tname -> Prop :=
| dr_refl : dreach L a a
| dr_step d s : declared_edge L d s -> dreach L a s -> dreach L a d.
Lemma below_dreach L ts a d : sup_sound L ts -> below ts a d -> dreach L a d.
Proof.
  intros HS H. induction H as [|d td s Hf Hs Hb IH]; [apply dr_refl|]. eapply dr_step; [|exact IH]. apply (HS d td s Hf Hs).
Qed.
Theorem merge_conflict_raises_incomparable inputs d1 d2 s1 s2 : all_WFh inputs ->
  In d1 (type_list inputs) -> In d2 (type_list inputs) -> dname d1 = dname d2 ->
  t_super (d_ty d1) = Some s1 -> t_super (d_ty d2) = Some s2 ->
  ~ dreach (type_list inputs) s1 s2 -> ~ dreach (type_list inputs) s2 s1 -> merge inputs = Err EValue.
Proof.
  intros HW H1 H2 Hn Hs1 Hs2 N1 N2. apply (merge_fails_with_value inputs HW). intros ts H.
  destruct (merge_inv2 inputs ts HW H) as (HS & _).
  destruct (merge_ok_supertypes_comparable inputs ts d1 d2 s1 s2 HW H H1 H2 Hn Hs1 Hs2) as [B|B].
  - apply N1. apply (below_dreach _ ts _ _ HS B).
  - apply N2. apply (below_dreach _ ts _ _ HS B).
Qed.
Theorem merge_conflict_raises_contradictory inputs d1 d2 : all_WFh inputs ->
  In d1 (type_list inputs) -> In d2 (type_list inputs) ->
  t_super (d_ty d1) = Some (dname d2) -> t_super (d_ty d2) = Some (dname d1) -> merge inputs = Err EValue.
Proof.
  intros HW H1 H2 Hs1 Hs2. apply (merge_fails_with_value inputs HW). apply (merge_contradictory_fails inputs d1 d2 HW H1 H2 Hs1 Hs2).
Qed.

(* ================================================================================================ every declared feature is there *)
(* the type named x exposes (owns or inherits) a feature that Feature.__eq__ identifies with f *)
Definition has_feat (ts : tsys) (x : tname) (f : feat) : Prop :=
  exists t g, find_ty ts x = Some t /\ In g (t_own t ++ t_inh t) /\ feat_eqb g f = true.
Lemma has_feat_grows ts ts' x f : grows ts ts' -> has_feat ts x f -> has_feat ts' x f.
Proof.
  intros G (t & g & Ht & Hg & He). destruct (G x t Ht) as (t' & Ht' & Ho & Hi). exists t', g. split; [exact Ht'|]. split; [|exact He].
  apply in_app_or in Hg. apply in_or_app. destruct Hg as [Hg|Hg]; [left; apply Ho; exact Hg|right; apply Hi; exact Hg].
Qed.
Lemma add_feature_res_has ts x f ts' : add_feature_res ts x f = Ok ts' -> has_feat ts' x f.
Proof.
  unfold add_feature_res. destruct (add_feature ts x f) as [ts1| | |] eqn:E; try discriminate; intros H; inversion H; subst.
  - destruct (add_feature_added_inv _ _ _ _ E) as (t & Ht & _ & _ & _ & ->). exists (spread ts x f t), f.
    rewrite (find_map_name _ ts x (spread_name ts x f)), Ht. split; [reflexivity|]. split; [|apply feat_eqb_refl].
    apply in_or_app. left. apply own_spread. right. split; [apply (find_ty_In _ _ _ Ht)|reflexivity].
  - unfold add_feature in E. destruct (find_ty ts' x) as [t|] eqn:Et; [|discriminate].
    destruct (find_feat (f_name f) (t_own t)) as [g|] eqn:Eo.
    + destruct (feat_eqb g f) eqn:Ee; [|discriminate]. exists t, g. split; [exact Et|]. split; [|exact Ee].
      apply in_or_app. left. apply (proj1 (find_feat_some _ _ _ Eo)).
    + destruct (find_feat (f_name f) (t_inh t)) as [g|] eqn:Ei.
      * destruct (feat_eqb g f) eqn:Ee; [|discriminate]. exists t, g. split; [exact Et|]. split; [|exact Ee].
        apply in_or_app. right. apply (proj1 (find_feat_some _ _ _ Ei)).
      * destruct (existsb _ ts'); discriminate.
Qed.
Lemma merge_features_grows i x fs : forall ts tags r, merge_features fn_form i x fs ts tags = Ok r -> grows ts (fst r).
Proof.
  induction fs as [|f r0 IH]; intros ts tags r H; cbn [merge_features] in H; [inversion H; apply grows_refl|].
  cbn [fn_form addf] in H. destruct (add_feature_res ts x f) as [ts1| |] eqn:E; cbn [bind] in H; try discriminate.
  eapply grows_trans; [apply (add_feature_res_grows _ _ _ _ E)|apply (IH _ _ _ H)].
Qed.
Lemma merge_features_has i x fs : forall ts tags r, merge_features fn_form i x fs ts tags = Ok r ->
  forall f, In f fs -> has_feat (fst r) x f.
Proof.
  induction fs as [|f0 r0 IH]; intros ts tags r H f Hf; [contradiction|]. cbn [merge_features] in H. cbn [fn_form addf] in H.
  destruct (add_feature_res ts x f0) as [ts1| |] eqn:E; cbn [bind] in H; try discriminate.
  destruct Hf as [<-|Hf].
  - apply (has_feat_grows _ _ _ _ (merge_features_grows _ _ _ _ _ _ H)). apply (add_feature_res_has _ _ _ _ E).
  - apply (IH _ _ _ H f Hf).
Qed.
Definition Rfeat (d : decl) (st : mst) : Prop := forall f, In f (t_own (d_ty d)) -> has_feat (m_ts st) (dname d) f.
Lemma merge_decl_Rfeat st d st1 : merge_decl fn_form st d = Ok st1 -> Rfeat d st1.
Proof.
  intros H. unfold merge_decl in H. destruct (t_super (d_ty d)) as [sup|]; [|discriminate]. fold (dname d) in H.
  destruct (if registered (m_ts st) (dname d) then merge_super fn_form (m_ts st) (dname d) sup
            else create_type (m_ts st) (dname d) sup (t_desc (d_ty d))) as [ts1| |]; cbn [bind] in H; try discriminate.
  destruct (merge_features fn_form (d_in d) (dname d) (t_own (d_ty d)) ts1 (m_tags st)) as [r| |] eqn:Ef; cbn [bind] in H; try discriminate.
  inversion H; subst st1. cbn [m_ts]. intros f Hf. apply (merge_features_has _ _ _ _ _ _ Ef f Hf).
Qed.

(* every own feature declared by any input is exposed, up to Feature.__eq__, by the type of that name in the result *)
Theorem merge_contains_all_features inputs ts : all_WFh inputs -> merge inputs = Ok ts ->
  forall d f, In d (type_list inputs) -> In f (t_own (d_ty d)) -> has_feat ts (dname d) f.
Proof.
  intros HW H d f Hd Hf. destruct (merge_inv inputs ts HW H) as (st & Er & <- & _ & _ & _). set (L := type_list inputs) in *.
  destruct (rounds_inv fn_form L (Inv L) Rfeat) with (fuel := S (List.length L)) (l := L) (st := st0) (st' := st) as (_ & HR & _).
  - intros s d0 s1 HI0 Hd0 _ Hm. destruct (merge_decl_Inv L s d0 s1 HI0 (type_list_ok inputs HW d0 Hd0) Hm) as (HI1 & _ & _).
    split; [exact HI1|]. split; [apply (merge_decl_Rfeat _ _ _ Hm)|].
    intros d' Hd' g Hg. destruct (merge_decl_grows L s d0 s1 HI0 (type_list_ok inputs HW d0 Hd0) Hm) as (G & _).
    apply (has_feat_grows _ _ _ _ G). apply (Hd' g Hg).
  - apply incl_refl.
  - apply Inv_st0.
  - exact Er.
  - apply (HR d Hd f Hf).
Qed.

(* ================================================================================================ no reference to an object of an input *)
Definition tags_ok (st : mst) : Prop := forall g, In g (m_tags st) -> is_predef (g_type g) = false /\ registered (m_ts st) (g_type g) = true.
Lemma merge_features_tags i x fs : forall ts tags r, merge_features fn_form i x fs ts tags = Ok r ->
  forall g, In g (snd r) -> In g tags \/ g_type g = x.
Proof.
  induction fs as [|f r0 IH]; intros ts tags r H g Hg; cbn [merge_features] in H; [inversion H; subst; left; exact Hg|].
  cbn [fn_form addf] in H. destruct (add_feature_res ts x f) as [ts1| |] eqn:E; cbn [bind] in H; try discriminate.
  destruct (IH _ _ _ H g Hg) as [Hin|Hx]; [|right; exact Hx].
  destruct (stores ts x f); [|left; exact Hin]. apply in_app_or in Hin. destruct Hin as [Hin|[<-|[]]]; [left; exact Hin|right; reflexivity].
Qed.
Lemma merge_decl_tags L st d st1 : Inv L st -> decl_ok L d -> tags_ok st -> merge_decl fn_form st d = Ok st1 -> tags_ok st1.
Proof.
  intros HI Hok HT H. destruct (merge_decl_grows L st d st1 HI Hok H) as (G & _ & _ & Hreg & _).
  unfold merge_decl in H. destruct (t_super (d_ty d)) as [sup|]; [|discriminate]. fold (dname d) in H.
  destruct (if registered (m_ts st) (dname d) then merge_super fn_form (m_ts st) (dname d) sup
            else create_type (m_ts st) (dname d) sup (t_desc (d_ty d))) as [ts1| |]; cbn [bind] in H; try discriminate.
  destruct (merge_features fn_form (d_in d) (dname d) (t_own (d_ty d)) ts1 (m_tags st)) as [r| |] eqn:Ef; cbn [bind] in H; try discriminate.
  inversion H; subst st1. cbn [m_ts m_tags] in *. intros g Hg. destruct (merge_features_tags _ _ _ _ _ _ Ef g Hg) as [Hin|Hx].
  - destruct (HT g Hin) as [H1 H2]. split; [exact H1|apply (grows_registered _ _ _ G H2)].
  - rewrite Hx. split; [apply (proj1 Hok)|exact Hreg].
Qed.
(* after the fix-up loop no domain / range / element reference of the result is an object of an input *)
Theorem merge_no_foreign_refs inputs st : all_WFh inputs -> merge_with fn_form inputs = Ok st -> foreign_refs st = 0.
Proof.
  intros HW H. unfold merge_with in H. fold st0 in H. set (L := type_list inputs) in *.
  destruct (rounds fn_form (S (List.length L)) L st0) as [s| |] eqn:Er; cbn [bind] in H; try discriminate.
  destruct (rounds_end inputs _ s HW Er) as (HI & HR). rewrite (fixup_id _ (end_WFh _ s HI HR)) in H. cbn [bind] in H. inversion H; subst st.
  destruct (rounds_inv fn_form L (fun s => Inv L s /\ tags_ok s) (fun _ _ => True)) with (fuel := S (List.length L)) (l := L) (st := st0) (st' := s)
    as ((_ & HT) & _ & _).
  - intros s0 d0 s1 [HI0 HT0] Hd0 _ Hm. destruct (merge_decl_Inv L s0 d0 s1 HI0 (type_list_ok inputs HW d0 Hd0) Hm) as (HI1 & _ & _).
    split; [split; [exact HI1|apply (merge_decl_tags L s0 d0 s1 HI0 (type_list_ok inputs HW d0 Hd0) HT0 Hm)]|]. split; [exact I|auto].
  - apply incl_refl.
  - split; [apply Inv_st0|intros g []].
  - exact Er.
  - unfold foreign_refs. cbn [m_tags]. rewrite (proj2 (List.length_zero_iff_nil _)); [reflexivity|].
    assert (Hnone : forall l, (forall g, In g l -> is_predef (g_type g) = false /\ registered (m_ts s) (g_type g) = true) ->
                     filter foreign_tag (map (fixup_tag (m_ts s)) l) = []).
    { induction l as [|g r IH]; intros Hl; [reflexivity|]. cbn [map filter]. rewrite IH; [|intros g' Hg'; apply Hl; right; exact Hg'].
      destruct (Hl g (or_introl eq_refl)) as [H1 H2]. unfold fixup_tag. rewrite H2, H1. cbn [andb negb foreign_tag g_dom g_range g_elem Nat.eqb orb].
      destruct (g_elem g); reflexivity. }
    apply Hnone. exact HT.
Qed.

(* ================================================================================================ the feature invariant (C11) through a merge *)
(* TSProofs proves that create_type and _add_feature preserve WFf under WFh.  Between two steps of a merge only the
   skeleton invariant HI holds (feature references may still be unregistered), so the two proofs are repeated here with
   the tree facts taken from the skeleton (create_type_FI and add_feature_FI follow TSProofs.create_type_WFf and
   TSProofs.add_feature_WFf line by line). *)
Lemma sbelow_map g ts a d : keeps_shape g -> (sbelow (map g ts) a d <-> sbelow ts a d).
Proof.
  intros K. unfold sbelow. split.
  - intros (td' & s & Hf' & Hs' & Hb). rewrite (find_map_shape ts g d K) in Hf'. destruct (find_ty ts d) as [td|]; [|discriminate].
    inversion Hf'; subst td'. rewrite (proj1 (proj2 (K td))) in Hs'. exists td, s. repeat split; auto. apply (below_map g ts a s K). exact Hb.
  - intros (td & s & Hf & Hs & Hb). exists (g td), s. rewrite (find_map_shape ts g d K), Hf, (proj1 (proj2 (K td))).
    repeat split; auto. apply (below_map g ts a s K). exact Hb.
Qed.
Lemma HI_wf_super ts : HI ts -> forall t s, In t ts -> t_super t = Some s -> exists p, find_ty ts s = Some p /\ t_rank p < t_rank t.
Proof.
  intros W t s Hin Hs. destruct (wf_super _ W (strip_ty t) s (in_map strip_ty _ _ Hin) Hs) as (p' & Hp' & Hlt).
  unfold strip in Hp'. rewrite (find_map_shape ts strip_ty s strip_shape) in Hp'. destruct (find_ty ts s) as [p|]; [|discriminate].
  inversion Hp'; subst p'. exists p. split; [reflexivity|exact Hlt].
Qed.
Lemma HI_below_registered ts a d : HI ts -> below ts a d -> find_ty ts d <> None -> find_ty ts a <> None.
Proof.
  intros W H. induction H as [|d td s Hf Hs Hb IH]; intros Hd; [exact Hd|].
  apply IH. destruct (find_ty_In _ _ _ Hf) as [Hin _]. destruct (HI_wf_super _ W td s Hin Hs) as (p & Hp & _). rewrite Hp. discriminate.
Qed.
Lemma HI_sbelow_neq ts a d : HI ts -> sbelow ts a d -> a <> d.
Proof.
  intros W H. apply (sbelow_neq (strip ts) a d W). apply (sbelow_map strip_ty ts a d strip_shape). exact H.
Qed.
Lemma HI_below_back ts ts' name : HI ts -> find_ty ts name = None ->
  (forall n t', n <> name -> find_ty ts' n = Some t' -> exists t, find_ty ts n = Some t /\ t_super t = t_super t') ->
  forall a d, below ts' a d -> d <> name -> below ts a d.
Proof.
  intros W Hfresh Hagree a d H. induction H as [|d td' s Hf' Hs' Hb IH]; intros Hd; [apply below_refl|].
  destruct (Hagree d td' Hd Hf') as (t & Hf & Hs). rewrite Hs' in Hs.
  eapply below_step; [exact Hf|exact Hs|]. apply IH.
  destruct (find_ty_In _ _ _ Hf) as [Hin _]. destruct (HI_wf_super _ W t s Hin Hs) as (p & Hp & _).
  intros ->. congruence.
Qed.

Lemma create_type_FI ts name supn desc ts' : HI ts -> WFf ts -> create_type ts name supn desc = Ok ts' -> WFf ts'.
Proof.
  intros W F Hc. destruct (create_type_inv' _ _ _ _ _ (HI_top _ W) Hc) as (Hnone & p & inh0 & Hgt & Hpin & Hinh & ->).
  (* the loop over supertype.all_features simply copies them: the names are distinct *)
  assert (Einh : inh0 = all_features p).
  { rewrite (inherit_all_nodup (all_features p) []) in Hinh; [inversion Hinh; reflexivity| |intros g x []].
    apply (no_two_definitions ts p F Hpin). }
  subst inh0.
  set (sup := t_name p). set (new := new_type name p desc (all_features p)).
  assert (Nn : t_name new = name) by reflexivity.
  assert (Ns : t_super new = Some sup) by reflexivity.
  assert (No : t_own new = []) by reflexivity.
  assert (Ni : t_inh new = all_features p) by reflexivity.
  assert (Nc : t_ctor new = None) by reflexivity.
  assert (Nf : t_ctor_fn new = feature_names new) by reflexivity.
  clearbody new.
  pose proof (proj1 (find_ty_none_iff ts name) Hnone) as Hfresh.
  assert (Ep : find_ty ts sup = Some p) by (apply (In_find_ty _ _ (HI_nodup _ W) Hpin)).
  assert (Hfind : forall n, find_ty (map (add_child sup name) ts ++ [new]) n =
            match find_ty ts n with Some t => Some (add_child sup name t) | None => if String.eqb name n then Some new else None end).
  { intros n. rewrite find_app_new, find_map_add_child, Nn. destruct (find_ty ts n); reflexivity. }
  assert (Hsup_ne : sup <> name) by (intros E; rewrite E in Ep; congruence).
  assert (Hfwd : forall n t, find_ty ts n = Some t ->
            exists t', find_ty (map (add_child sup name) ts ++ [new]) n = Some t' /\ t_super t' = t_super t).
  { intros n t Hn. exists (add_child sup name t). rewrite Hfind, Hn. split; [reflexivity|apply add_child_super]. }
  assert (Hbwd : forall n t', n <> name -> find_ty (map (add_child sup name) ts ++ [new]) n = Some t' ->
            exists t, find_ty ts n = Some t /\ t_super t = t_super t').
  { intros n t' Hn Hf'. rewrite Hfind in Hf'. destruct (find_ty ts n) as [t|] eqn:En.
    - inversion Hf'; subst t'. exists t. split; [reflexivity|symmetry; apply add_child_super].
    - destruct (String.eqb name n) eqn:E; [apply String.eqb_eq in E; congruence|discriminate]. }
  (* proper ancestors of an existing type are the same in both type systems *)
  assert (Hsb : forall a d, find_ty ts d <> None ->
            (sbelow (map (add_child sup name) ts ++ [new]) a d <-> sbelow ts a d)).
  { intros a d Hd. destruct (find_ty ts d) as [td|] eqn:Ed; [clear Hd|congruence]. split.
    - intros (td' & s & Hf' & Hs' & Hb'). rewrite Hfind, Ed in Hf'. inversion Hf'; subst td'. rewrite add_child_super in Hs'.
      exists td, s. repeat split; auto.
      eapply HI_below_back; [exact W|exact Hnone|exact Hbwd|exact Hb'|].
      destruct (find_ty_In _ _ _ Ed) as [Hin _]. destruct (HI_wf_super _ W td s Hin Hs') as (q & Hq & _). intros ->. congruence.
    - intros (td0 & s & Hf0 & Hs0 & Hb0). rewrite Ed in Hf0. inversion Hf0; subst td0.
      exists (add_child sup name td), s. rewrite Hfind, Ed, add_child_super. repeat split; auto.
      eapply below_transfer; [exact Hfwd|exact Hb0]. }
  (* an ancestor of an existing type exists already, so its own features are unchanged *)
  assert (Hown : forall a ta' d, find_ty ts d <> None -> sbelow ts a d ->
            find_ty (map (add_child sup name) ts ++ [new]) a = Some ta' ->
            exists ta, find_ty ts a = Some ta /\ t_own ta' = t_own ta).
  { intros a ta' d Hd Hs Ha'. pose proof (HI_below_registered ts a d W (sbelow_below _ _ _ Hs) Hd) as Hreg.
    rewrite Hfind in Ha'. destruct (find_ty ts a) as [ta|] eqn:Ea; [|congruence].
    inversion Ha'; subst ta'. exists ta. split; [reflexivity|apply add_child_own]. }
  assert (Hpd : find_ty ts sup <> None) by (rewrite Ep; discriminate).
  assert (Hnew : forall a, sbelow (map (add_child sup name) ts ++ [new]) a name <-> below ts a sup).
  { intros a. split.
    - intros (td' & s & Hf' & Hs' & Hb'). rewrite Hfind, Hnone, String.eqb_refl in Hf'. inversion Hf'; subst td'.
      rewrite Ns in Hs'. inversion Hs'; subst s.
      eapply HI_below_back; [exact W|exact Hnone|exact Hbwd|exact Hb'|exact Hsup_ne].
    - intros Hb. exists new, sup. rewrite Hfind, Hnone, String.eqb_refl. repeat split; auto.
      eapply below_transfer; [exact Hfwd|exact Hb]. }
  constructor.
  - (* inherited features come from proper ancestors *)
    intros t f Hin Hf. apply in_app_or in Hin. destruct Hin as [Hin|[<-|[]]].
    + apply in_map_iff in Hin. destruct Hin as (t0 & <- & Hin0). rewrite add_child_inh in Hf. rewrite add_child_name.
      assert (Hd : find_ty ts (t_name t0) <> None) by (rewrite (In_find_ty _ _ (HI_nodup _ W) Hin0); discriminate).
      destruct (wf_inh_sound _ F t0 f Hin0 Hf) as (a & ta & Hs & Ha & Hfa).
      exists a, (add_child sup name ta). rewrite Hfind, Ha, add_child_own. repeat split; auto. apply Hsb; assumption.
    + rewrite Ni in Hf. rewrite Nn. apply all_features_In in Hf. apply in_app_or in Hf. destruct Hf as [Hf|Hf].
      * exists sup, (add_child sup name p). rewrite Hfind, Ep, add_child_own. repeat split; auto. apply Hnew. apply below_refl.
      * destruct (wf_inh_sound _ F p f Hpin Hf) as (a & ta & Hs & Ha & Hfa).
        exists a, (add_child sup name ta). rewrite Hfind, Ha, add_child_own. repeat split; auto.
        apply Hnew. apply sbelow_below. exact Hs.
  - (* own features of proper ancestors are inherited *)
    intros t a ta' g Hin Hs Ha' Hg. apply in_app_or in Hin. destruct Hin as [Hin|[<-|[]]].
    + apply in_map_iff in Hin. destruct Hin as (t0 & <- & Hin0). rewrite add_child_name in Hs. rewrite add_child_inh.
      assert (Hd : find_ty ts (t_name t0) <> None) by (rewrite (In_find_ty _ _ (HI_nodup _ W) Hin0); discriminate).
      apply Hsb in Hs; [|exact Hd]. destruct (Hown a ta' _ Hd Hs Ha') as (ta & Ha & Heq). rewrite Heq in Hg.
      apply (wf_inh_complete _ F t0 a ta g Hin0 Hs Ha Hg).
    + rewrite Nn in Hs. rewrite Ni. apply Hnew in Hs. destruct (below_cases _ _ _ Hs) as [->|Hs'].
      * rewrite Hfind, Ep in Ha'. inversion Ha'; subst ta'. rewrite add_child_own in Hg.
        apply all_features_complete. apply in_or_app. left. exact Hg.
      * destruct (Hown a ta' sup Hpd Hs' Ha') as (ta & Ha & Heq). rewrite Heq in Hg.
        destruct (wf_inh_complete _ F p a ta g Hpin Hs' Ha Hg) as (f0 & Hf0 & He).
        destruct (all_features_complete p f0 (in_or_app _ _ _ (or_intror Hf0))) as (y & Hy & Hey).
        exists y. split; [exact Hy|eapply feat_eqb_trans; eassumption].
  - (* one definition per name *)
    intros t f g Hin Hf Hg' Hn. apply in_app_or in Hin. destruct Hin as [Hin|[<-|[]]].
    + apply in_map_iff in Hin. destruct Hin as (t0 & <- & Hin0).
      rewrite add_child_own, add_child_inh in Hf, Hg'. eapply (wf_one_def _ F t0); eassumption.
    + rewrite No, Ni in Hf, Hg'. cbn [app] in Hf, Hg'. apply all_features_In in Hf. apply all_features_In in Hg'.
      eapply (wf_one_def _ F p); eassumption.
  - (* constructors *)
    intros t Hin. apply in_app_or in Hin. destruct Hin as [Hin|[<-|[]]].
    + apply in_map_iff in Hin. destruct Hin as (t0 & <- & Hin0). rewrite feature_names_add_child.
      destruct (add_child_ctor sup name t0) as [-> ->]. apply (wf_ctor _ F t0 Hin0).
    + rewrite Nc, Nf. auto.
Qed.


Lemma add_feature_FI ts dom f ts' : HI ts -> WFf ts -> add_feature ts dom f = Added ts' -> WFf ts'.
Proof.
  intros W F H. destruct (add_feature_added_inv _ _ _ _ H) as (t & Et & Eo & Ei & Ec & ->).
  pose proof (spread_shape ts dom f) as K.
  destruct (find_ty_In _ _ _ Et) as [Htin Htn].
  pose proof (find_feat_none _ _ Eo) as Hown_free. pose proof (find_feat_none _ _ Ei) as Hinh_free.
  (* the pre-check: no type below the domain defines the name differently *)
  assert (Hpre : forall d, In d ts -> below ts dom (t_name d) -> forall g, In g (t_own d) -> f_name g = f_name f -> feat_eqb g f = true).
  { intros d Hd Hb g Hg Hn.
    assert (Hx : (is_below ts dom (t_name d) && conflicts (t_own d) f) = false).
    { destruct (is_below ts dom (t_name d) && conflicts (t_own d) f) eqn:E; [|reflexivity].
      assert (existsb (fun d0 => is_below ts dom (t_name d0) && conflicts (t_own d0) f) ts = true) by (apply existsb_exists; eauto).
      congruence. }
    apply (HI_is_below ts dom (t_name d) d W (In_find_ty _ _ (HI_nodup _ W) Hd)) in Hb. rewrite Hb in Hx. cbn [andb] in Hx.
    eapply conflicts_false; eassumption. }
  (* strictly below the domain  =  below it and different from it *)
  assert (Hstrict : forall d, In d ts -> (t_name d <> dom /\ is_below ts dom (t_name d) = true) <-> sbelow ts dom (t_name d)).
  { intros d Hd. rewrite (HI_is_below ts dom (t_name d) d W (In_find_ty _ _ (HI_nodup _ W) Hd)). split.
    - intros [Hn Hb]. destruct (below_cases _ _ _ Hb) as [Heq|Hs]; [exfalso; apply Hn; symmetry; exact Heq|exact Hs].
    - intros Hs. split; [intros E; apply (HI_sbelow_neq _ _ _ W Hs); symmetry; exact E|apply sbelow_below; exact Hs]. }
  (* an old feature with the new feature's name, seen from a type below the domain, equals the new feature *)
  assert (Hold : forall t0 x, In t0 ts -> below ts dom (t_name t0) -> In x (t_own t0 ++ t_inh t0) -> f_name x = f_name f -> feat_eqb x f = true).
  { intros t0 x Hin0 Hb Hx Hn. apply in_app_or in Hx. destruct Hx as [Hx|Hx].
    - eapply Hpre; eassumption.
    - destruct (wf_inh_sound _ F t0 x Hin0 Hx) as (a & ta & Hs & Ha & Hg).
      destruct (find_ty_In _ _ _ Ha) as [Hain Han].
      destruct (chain_linear ts a dom (t_name t0) (sbelow_below _ _ _ Hs) Hb) as [Hadom|Hdoma].
      + (* a is the domain or above it *)
        destruct (below_cases _ _ _ Hadom) as [->|Hs'].
        * rewrite Et in Ha. inversion Ha; subst ta. exfalso. apply (Hown_free x Hg). exact Hn.
        * exfalso. rewrite <- Htn in Hs'. destruct (wf_inh_complete _ F t a ta x Htin Hs' Ha Hg) as (f1 & Hf1 & He).
          apply (Hinh_free f1 Hf1). rewrite (feat_eqb_name _ _ He). exact Hn.
      + (* a is below the domain: the pre-check speaks about it *)
        rewrite <- Han in Hdoma. eapply (Hpre ta); eassumption. }
  constructor.
  - (* sound *)
    intros t' g Hin Hg. apply in_map_iff in Hin. destruct Hin as (t0 & <- & Hin0). rewrite (proj1 (K t0)).
    apply inh_spread in Hg. destruct Hg as [Hg|(Hn & Hb & _ & ->)].
    + destruct (wf_inh_sound _ F t0 g Hin0 Hg) as (a & ta & Hs & Ha & Hga).
      exists a, (spread ts dom f ta). rewrite (find_map_shape ts _ a K), Ha. repeat split; auto.
      * apply (proj2 (sbelow_spread ts dom f a (t_name t0))). exact Hs.
      * apply own_spread. left. exact Hga.
    + exists dom, (spread ts dom f t). rewrite (find_map_shape ts _ dom K), Et. repeat split; auto.
      * apply (proj2 (sbelow_spread ts dom f dom (t_name t0))). apply (proj1 (Hstrict t0 Hin0)). split; assumption.
      * apply own_spread. right. auto.
  - (* complete *)
    intros t' a ta' g Hin Hs Ha' Hg. apply in_map_iff in Hin. destruct Hin as (t0 & <- & Hin0). rewrite (proj1 (K t0)) in Hs.
    apply (proj1 (sbelow_spread ts dom f a (t_name t0))) in Hs.
    rewrite (find_map_shape ts _ a K) in Ha'. destruct (find_ty ts a) as [ta|] eqn:Ea; [|discriminate]. inversion Ha'; subst ta'.
    apply own_spread in Hg. destruct Hg as [Hg|[Hn ->]].
    + destruct (wf_inh_complete _ F t0 a ta g Hin0 Hs Ea Hg) as (f0 & Hf0 & He).
      exists f0. split; [apply inh_spread; left; exact Hf0|exact He].
    + destruct (find_ty_In _ _ _ Ea) as [_ Hna]. rewrite Hn in Hna. subst a.
      destruct (proj2 (Hstrict t0 Hin0) Hs) as [H1 H2].
      destruct (find_feat (f_name f) (t_inh t0)) as [g0|] eqn:Eg.
      * destruct (find_feat_some _ _ _ Eg) as [Hg0 Hn0]. exists g0. split; [apply inh_spread; left; exact Hg0|].
        apply (Hold t0 g0 Hin0 (sbelow_below _ _ _ Hs)); [apply in_or_app; right; exact Hg0|exact Hn0].
      * exists f. split; [apply inh_spread; right; repeat split; auto|apply feat_eqb_refl].
  - (* one definition per name *)
    assert (Hcases : forall t0 x, In t0 ts -> In x (t_own (spread ts dom f t0) ++ t_inh (spread ts dom f t0)) ->
              In x (t_own t0 ++ t_inh t0) \/ (x = f /\ below ts dom (t_name t0))).
    { intros t0 x Hin0 Hx. apply in_app_or in Hx. destruct Hx as [Hx|Hx].
      - apply own_spread in Hx. destruct Hx as [Hx|[Hn ->]]; [left; apply in_or_app; left; exact Hx|].
        right. split; [reflexivity|]. rewrite Hn. apply below_refl.
      - apply inh_spread in Hx. destruct Hx as [Hx|(Hn & Hb & _ & ->)]; [left; apply in_or_app; right; exact Hx|].
        right. split; [reflexivity|]. apply (HI_is_below ts dom (t_name t0) t0 W (In_find_ty _ _ (HI_nodup _ W) Hin0)). exact Hb. }
    intros t' x y Hin Hx Hy Hn. apply in_map_iff in Hin. destruct Hin as (t0 & <- & Hin0).
    destruct (Hcases t0 x Hin0 Hx) as [Hx'|[-> Hbx]]; destruct (Hcases t0 y Hin0 Hy) as [Hy'|[-> Hby]].
    + eapply (wf_one_def _ F t0); eassumption.
    + eapply Hold; eassumption.
    + apply feat_eqb_sym. eapply Hold; try eassumption. symmetry. exact Hn.
    + apply feat_eqb_refl.
  - (* constructors *)
    intros t' Hin. apply in_map_iff in Hin. destruct Hin as (t0 & <- & Hin0).
    destruct (spread_untouched_or_rebuilt ts dom f t0) as [->|[-> ->]]; [apply (wf_ctor _ F t0 Hin0)|auto].
Qed.

(* ================================================================================================ re-parenting and the feature invariant *)
Section RelinkTree.
  Variables (ts : tsys) (x oldp newp : tname) (k : nat) (tx : ty).
  Hypothesis Hx : find_ty ts x = Some tx.
  Hypothesis Hsx : t_super tx = Some oldp.
  Hypothesis Hnb : ~ below ts x newp.
  Hypothesis Hon : below ts oldp newp.
  Let ts1 := relink ts x oldp newp k.
  Let fnd := relink_find' ts x oldp newp k.

  (* an ancestor in the new tree is an old ancestor, or (for the moved subtree) the new parent or one of its ancestors *)
  Lemma relink_below_inv a d : below ts1 a d -> below ts a d \/ (below ts x d /\ below ts a newp).
  Proof.
    intros H. induction H as [|d td' s Hf' Hs' Hb IH]; [left; apply below_refl|].
    unfold ts1 in Hf'. rewrite fnd in Hf'. destruct (find_ty ts d) as [td|] eqn:Ed; [|discriminate]. cbn [option_map] in Hf'. inversion Hf'; subst td'.
    rewrite relink_super in Hs'. destruct (find_ty_In _ _ _ Ed) as [_ Hdn]. rewrite Hdn in Hs'. destruct (String.eqb d x) eqn:E.
    - apply String.eqb_eq in E. inversion Hs'; subst s. right. rewrite E. split; [apply below_refl|].
      destruct IH as [IH|[IH _]]; [exact IH|contradiction].
    - destruct IH as [IH|[IH1 IH2]].
      + left. eapply below_step; eassumption.
      + right. split; [eapply below_step; eassumption|exact IH2].
  Qed.
  Lemma relink_subtree d : below ts1 x d <-> below ts x d.
  Proof.
    split.
    - intros H. destruct (relink_below_inv _ _ H) as [H1|[H1 _]]; exact H1.
    - apply (relink_below ts x oldp newp k tx Hx Hsx Hnb Hon).
  Qed.
  Lemma relink_sbelow a d : sbelow ts a d -> sbelow ts1 a d.
  Proof.
    intros (td & s & Hf & Hs & Hb). destruct (find_ty_In _ _ _ Hf) as [_ Hdn].
    exists (relink_ty ts x oldp newp k td). unfold ts1. rewrite fnd, Hf. rewrite relink_super, Hdn. destruct (String.eqb d x) eqn:E.
    - apply String.eqb_eq in E. rewrite E in Hf. rewrite Hx in Hf. inversion Hf; subst td. rewrite Hsx in Hs. inversion Hs; subst s.
      exists newp. repeat split; auto. apply (relink_below ts x oldp newp k tx Hx Hsx Hnb Hon). eapply below_trans; eassumption.
    - exists s. repeat split; auto. apply (relink_below ts x oldp newp k tx Hx Hsx Hnb Hon). exact Hb.
  Qed.
  Lemma relink_sbelow_inv a d : sbelow ts1 a d -> sbelow ts a d \/ (below ts x d /\ below ts a newp).
  Proof.
    intros (td' & s & Hf' & Hs' & Hb). unfold ts1 in Hf'. rewrite fnd in Hf'. destruct (find_ty ts d) as [td|] eqn:Ed; [|discriminate].
    cbn [option_map] in Hf'. inversion Hf'; subst td'. rewrite relink_super in Hs'. destruct (find_ty_In _ _ _ Ed) as [_ Hdn]. rewrite Hdn in Hs'.
    destruct (String.eqb d x) eqn:E.
    - apply String.eqb_eq in E. inversion Hs'; subst s. right. rewrite E. split; [apply below_refl|].
      destruct (relink_below_inv _ _ Hb) as [H1|[H1 _]]; [exact H1|contradiction].
    - destruct (relink_below_inv _ _ Hb) as [H1|[H1 H2]].
      + left. exists td, s. auto.
      + right. split; [eapply below_step; eassumption|exact H2].
  Qed.
  Lemma relink_sbelow_newp d : below ts x d -> sbelow ts1 newp d.
  Proof.
    intros H. induction H as [|d td s Hf Hs Hb IH].
    - exists (relink_ty ts x oldp newp k tx), newp. unfold ts1. rewrite fnd, Hx. rewrite relink_super. destruct (find_ty_In _ _ _ Hx) as [_ Hxn].
      rewrite Hxn, String.eqb_refl. repeat split; auto. apply below_refl.
    - destruct (find_ty_In _ _ _ Hf) as [_ Hdn]. destruct (String.eqb d x) eqn:E.
      + apply String.eqb_eq in E. exists (relink_ty ts x oldp newp k td), newp. unfold ts1. rewrite fnd, Hf, relink_super, Hdn, E, String.eqb_refl.
        repeat split; auto. apply below_refl.
      + exists (relink_ty ts x oldp newp k td), s. unfold ts1. rewrite fnd, Hf, relink_super, Hdn, E. repeat split; auto. apply sbelow_below. exact IH.
  Qed.
End RelinkTree.

(* ---- one _add_feature(feature, inherited=True) on the re-parented type x, functional form ---- *)
Lemma spread_inh_inh u x f t g :
  In g (t_inh (spread_inh u x f t)) <-> In g (t_inh t) \/ (is_below u x (t_name t) = true /\ find_feat (f_name f) (t_inh t) = None /\ g = f).
Proof.
  unfold spread_inh. destruct (is_below u x (t_name t)) eqn:Eb; cbn [andb].
  - destruct (find_feat (f_name f) (t_inh t)) eqn:Ef.
    + split; [intros H; left; exact H|]. intros [H|(_ & H & _)]; [exact H|discriminate].
    + cbn [with_inh rebuild_ctor t_inh]. rewrite in_app_iff. cbn [In]. split.
      * intros [H|[H|[]]]; [left; exact H|right; auto].
      * intros [H|(_ & _ & H)]; [left; exact H|right; left; symmetry; exact H].
  - split; [intros H; left; exact H|]. intros [H|(H & _)]; [exact H|discriminate].
Qed.
Lemma spread_inh_own u x f t : t_own (spread_inh u x f t) = t_own t.
Proof. apply (proj1 (proj2 (spread_inh_fields u x f t))). Qed.
Lemma spread_inh_name u x f t : t_name (spread_inh u x f t) = t_name t.
Proof. apply (proj1 (spread_inh_fields u x f t)). Qed.
Lemma spread_inh_untouched_or_rebuilt u x f d :
  spread_inh u x f d = d \/ (t_ctor (spread_inh u x f d) = None /\ t_ctor_fn (spread_inh u x f d) = feature_names (spread_inh u x f d)).
Proof. unfold spread_inh. destruct (is_below u x (t_name d) && _); [right; split; reflexivity|left; reflexivity]. Qed.

Lemma inherit_fn_cases u x f u' : inherit_fn u x f = Ok u' -> exists t, find_ty u x = Some t /\
  ((exists g, find_feat (f_name f) (t_inh t) = Some g /\ feat_eqb g f = true /\ u' = u) \/
   (find_feat (f_name f) (t_inh t) = None /\
    (forall d, In d u -> is_below u x (t_name d) = true -> conflicts (t_own d) f = false /\ conflicts (t_inh d) f = false) /\
    u' = map (spread_inh u x f) u)).
Proof.
  unfold inherit_fn. destruct (find_ty u x) as [t|]; [|discriminate]. intros H. exists t. split; [reflexivity|].
  destruct (find_feat (f_name f) (t_inh t)) as [g|].
  - destruct (feat_eqb g f) eqn:E; [|discriminate]. inversion H. left. exists g. auto.
  - destruct (existsb _ u) eqn:Ex; [discriminate|]. inversion H. right. split; [reflexivity|]. split; [|reflexivity].
    intros d Hd Hb.
    assert (Hx : (is_below u x (t_name d) && (conflicts (t_own d) f || conflicts (t_inh d) f)) = false).
    { destruct (is_below u x (t_name d) && (conflicts (t_own d) f || conflicts (t_inh d) f)) eqn:E; [|reflexivity].
      assert (existsb (fun d0 => is_below u x (t_name d0) && (conflicts (t_own d0) f || conflicts (t_inh d0) f)) u = true) by (apply existsb_exists; eauto).
      congruence. }
    rewrite Hb in Hx. cbn [andb] in Hx. apply orb_false_iff in Hx. exact Hx.
Qed.

(* the feature invariant without its completeness clause, which re-parenting suspends for the moved subtree *)
Record WFp (ts : tsys) : Prop := {
  wp_sound : forall t f, In t ts -> In f (t_inh t) -> exists a ta, sbelow ts a (t_name t) /\ find_ty ts a = Some ta /\ In f (t_own ta);
  wp_one : forall t f g, In t ts -> In f (t_own t ++ t_inh t) -> In g (t_own t ++ t_inh t) -> f_name f = f_name g -> feat_eqb f g = true;
  wp_ctor : forall t, In t ts -> t_ctor_fn t = feature_names t /\ (t_ctor t = None \/ t_ctor t = Some (feature_names t))
}.
Lemma WFf_WFp ts : WFf ts -> WFp ts.
Proof. intros F. constructor; [apply (wf_inh_sound _ F)|apply (wf_one_def _ F)|apply (wf_ctor _ F)]. Qed.

Section InheritStep.
  Variables (x newp : tname).
  (* every type of the subtree of x exposes, as an inherited feature, what x inherits *)
  Definition Qx (u : tsys) : Prop := forall tx g', find_ty u x = Some tx -> In g' (t_inh tx) ->
    forall t, In t u -> below u x (t_name t) -> exists f', In f' (t_inh t) /\ feat_eqb f' g' = true.
  (* f is an own feature of the new parent or of one of its ancestors *)
  Definition owned_above (u : tsys) (f : feat) : Prop := exists a ta, below u a newp /\ find_ty u a = Some ta /\ In f (t_own ta).
  Definition reaches (u : tsys) (f : feat) : Prop :=
    forall t, In t u -> below u x (t_name t) -> exists f', In f' (t_inh t) /\ feat_eqb f' f = true.

  Lemma inherit_fn_step u f u' tx : HI u -> find_ty u x = Some tx -> t_super tx = Some newp -> WFp u -> Qx u -> owned_above u f ->
    inherit_fn u x f = Ok u' ->
    strip u' = strip u /\ grows u u' /\ (forall n t', find_ty u' n = Some t' -> exists t, find_ty u n = Some t /\ t_own t' = t_own t) /\
    WFp u' /\ Qx u' /\ reaches u' f.
  Proof.
    intros W Hx Hsx P Q (a & ta & Hba & Hfa & Hoa) H. pose proof (HI_nodup _ W) as Hnd.
    destruct (inherit_fn_cases _ _ _ _ H) as (tx0 & Hx0 & [(g & Hg & He & ->)|(Hnone & Hchk & ->)]); rewrite Hx in Hx0; inversion Hx0; subst tx0.
    - (* x inherits an equal feature already: nothing changes, and the whole subtree has it *)
      split; [reflexivity|]. split; [apply grows_refl|]. split; [intros n t' Hn; exists t'; auto|]. split; [exact P|]. split; [exact Q|].
      intros t Hin Hb. destruct (Q tx g Hx (proj1 (find_feat_some _ _ _ Hg)) t Hin Hb) as (f' & Hf' & He').
      exists f'. split; [exact Hf'|eapply feat_eqb_trans; eassumption].
    - pose proof (spread_inh_shape u x f) as K. pose proof (strip_map _ u K) as Es.
      assert (Hbel : forall p q, below (map (spread_inh u x f) u) p q <-> below u p q) by (intros p q; apply (below_map _ u p q K)).
      assert (Hsbel : forall p q, sbelow (map (spread_inh u x f) u) p q <-> sbelow u p q) by (intros p q; apply (sbelow_map _ u p q K)).
      assert (Hfind : forall n, find_ty (map (spread_inh u x f) u) n = option_map (spread_inh u x f) (find_ty u n)) by (intros n; apply (find_map_shape u _ n K)).
      assert (Hisb : forall t, In t u -> (is_below u x (t_name t) = true <-> below u x (t_name t))).
      { intros t Hin. apply (HI_is_below u x (t_name t) t W (In_find_ty _ _ Hnd Hin)). }
      split; [exact Es|]. split; [apply (inherit_fn_grows _ _ _ _ H)|]. split.
      { intros n t' Hn. rewrite Hfind in Hn. destruct (find_ty u n) as [t|]; [|discriminate]. inversion Hn. exists t. split; [reflexivity|apply spread_inh_own]. }
      (* after the step every type below x has the feature, or one equal to it, among its inherited features *)
      assert (Hreach : forall t, In t u -> below u x (t_name t) -> exists f', In f' (t_inh (spread_inh u x f t)) /\ feat_eqb f' f = true).
      { intros t Hin Hb. apply (Hisb t Hin) in Hb. destruct (find_feat (f_name f) (t_inh t)) as [g0|] eqn:Eg.
        - destruct (find_feat_some _ _ _ Eg) as [Hg0 Hn0]. exists g0. split; [apply spread_inh_inh; left; exact Hg0|].
          apply (conflicts_false _ _ (proj2 (Hchk t Hin Hb)) g0 Hg0 Hn0).
        - exists f. split; [apply spread_inh_inh; right; auto|apply feat_eqb_refl]. }
      split; [constructor|split].
      + (* sound *)
        intros t' g Hin Hg. apply in_map_iff in Hin. destruct Hin as (t & <- & Hin). rewrite spread_inh_name.
        apply spread_inh_inh in Hg. destruct Hg as [Hg|(Hb & _ & ->)].
        * destruct (wp_sound _ P t g Hin Hg) as (a0 & ta0 & Hs0 & Hf0 & Ho0). exists a0, (spread_inh u x f ta0).
          rewrite Hfind, Hf0, spread_inh_own. split; [apply Hsbel; exact Hs0|auto].
        * exists a, (spread_inh u x f ta). rewrite Hfind, Hfa, spread_inh_own. split; [|auto]. apply Hsbel.
          apply (Hisb t Hin) in Hb.
          assert (Hsn : sbelow u newp (t_name t)).
          { clear -Hb Hx Hsx. induction Hb as [|d td s Hf Hs Hb IH]; [exists tx, newp; repeat split; auto; apply below_refl|].
            exists td, s. repeat split; auto. apply sbelow_below. exact IH. }
          destruct Hsn as (td & s & Hf & Hs & Hbs). exists td, s. repeat split; auto. eapply below_trans; eassumption.
      + (* one definition per name *)
        intros t' p q Hin Hp Hq Hn. apply in_map_iff in Hin. destruct Hin as (t & <- & Hin).
        assert (Hcases : forall y, In y (t_own (spread_inh u x f t) ++ t_inh (spread_inh u x f t)) ->
                  In y (t_own t ++ t_inh t) \/ (y = f /\ is_below u x (t_name t) = true /\ find_feat (f_name f) (t_inh t) = None)).
        { intros y Hy. rewrite spread_inh_own in Hy. apply in_app_or in Hy. destruct Hy as [Hy|Hy]; [left; apply in_or_app; left; exact Hy|].
          apply spread_inh_inh in Hy. destruct Hy as [Hy|(H1 & H2 & ->)]; [left; apply in_or_app; right; exact Hy|right; auto]. }
        assert (Hold : forall y, In y (t_own t ++ t_inh t) -> is_below u x (t_name t) = true -> find_feat (f_name f) (t_inh t) = None ->
                  f_name y = f_name f -> feat_eqb y f = true).
        { intros y Hy Hb Hno Hny. apply in_app_or in Hy. destruct Hy as [Hy|Hy].
          - apply (conflicts_false _ _ (proj1 (Hchk t Hin Hb)) y Hy Hny).
          - exfalso. apply (find_feat_none _ _ Hno y Hy Hny). }
        destruct (Hcases p Hp) as [Hp'|(-> & Hb1 & Hn1)]; destruct (Hcases q Hq) as [Hq'|(-> & Hb2 & Hn2)].
        * apply (wp_one _ P t p q Hin Hp' Hq' Hn).
        * apply (Hold p Hp' Hb2 Hn2 Hn).
        * apply feat_eqb_sym. apply (Hold q Hq' Hb1 Hn1). symmetry. exact Hn.
        * apply feat_eqb_refl.
      + (* constructors *)
        intros t' Hin. apply in_map_iff in Hin. destruct Hin as (t & <- & Hin).
        destruct (spread_inh_untouched_or_rebuilt u x f t) as [->|[-> ->]]; [apply (wp_ctor _ P t Hin)|auto].
      + (* what x inherits reaches its whole subtree *)
        intros tx' g' Hx' Hg' t' Hin Hb. rewrite Hfind, Hx in Hx'. cbn [option_map] in Hx'. inversion Hx'; subst tx'.
        apply in_map_iff in Hin. destruct Hin as (t & <- & Hin). rewrite spread_inh_name in Hb. apply Hbel in Hb.
        apply spread_inh_inh in Hg'. destruct Hg' as [Hg'|(_ & _ & ->)].
        * destruct (Q tx g' Hx Hg' t Hin Hb) as (f' & Hf' & He'). exists f'. split; [apply spread_inh_inh; left; exact Hf'|exact He'].
        * apply (Hreach t Hin Hb).
      + intros t' Hin Hb. apply in_map_iff in Hin. destruct Hin as (t & <- & Hin). rewrite spread_inh_name in Hb. apply Hbel in Hb.
        apply (Hreach t Hin Hb).
  Qed.
End InheritStep.

Lemma inherit_list_post x newp fs : forall u u' tx, HI u -> find_ty u x = Some tx -> t_super tx = Some newp -> WFp u -> Qx x u ->
  (forall f, In f fs -> owned_above newp u f) -> inherit_list fn_form x fs u = Ok u' ->
  strip u' = strip u /\ grows u u' /\ (forall n t', find_ty u' n = Some t' -> exists t, find_ty u n = Some t /\ t_own t' = t_own t) /\
  WFp u' /\ (forall f, In f fs -> reaches x u' f).
Proof.
  induction fs as [|f r IH]; intros u u' tx W Hx Hsx P Q Hown H; cbn [inherit_list] in H.
  - inversion H; subst u'. split; [reflexivity|]. split; [apply grows_refl|]. split; [intros n t' Hn; exists t'; auto|]. split; [exact P|intros f []].
  - cbn [fn_form inhf] in H. destruct (inherit_fn u x f) as [u1| |] eqn:E; cbn [bind] in H; try discriminate.
    destruct (inherit_fn_step x newp u f u1 tx W Hx Hsx P Q (Hown f (or_introl eq_refl)) E) as (Es1 & G1 & O1 & P1 & Q1 & R1).
    assert (W1 : HI u1) by (unfold HI; rewrite Es1; exact W).
    destruct (strip_eq_find u u1 x tx Es1 Hx) as (tx1 & Hx1 & Hs1). rewrite Hsx in Hs1.
    assert (Hown1 : forall g, In g r -> owned_above newp u1 g).
    { intros g Hg. destruct (Hown g (or_intror Hg)) as (a & ta & Hb & Hf & Ho). destruct (G1 a ta Hf) as (ta1 & Hf1 & Ho1 & _).
      exists a, ta1. split; [apply (strip_eq_below u u1 a newp Es1); exact Hb|]. split; [exact Hf1|apply Ho1; exact Ho]. }
    destruct (IH u1 u' tx1 W1 Hx1 Hs1 P1 Q1 Hown1 H) as (Es2 & G2 & O2 & P2 & R2).
    split; [rewrite Es2; exact Es1|]. split; [eapply grows_trans; eassumption|]. split.
    { intros n t' Hn. destruct (O2 n t' Hn) as (t1 & Hn1 & Ho1). destruct (O1 n t1 Hn1) as (t0 & Hn0 & Ho0). exists t0. split; [exact Hn0|congruence]. }
    split; [exact P2|]. intros g [<-|Hg]; [|apply R2; exact Hg].
    intros t' Hin Hb. pose proof (HI_nodup _ (eq_ind_r (fun s => WFh s) W1 Es2 : HI u')) as Hnd'.
    pose proof (In_find_ty _ _ Hnd' Hin) as Hf'. destruct (strip_eq_find u' u1 (t_name t') t' (eq_sym Es2) Hf') as (t1 & Hf1 & _).
    destruct (find_ty_In _ _ _ Hf1) as [Hin1 Hn1].
    assert (Hb1 : below u1 x (t_name t1)) by (rewrite Hn1; apply (strip_eq_below u1 u' x (t_name t') Es2); exact Hb).
    destruct (R1 t1 Hin1 Hb1) as (f' & Hf'' & He). destruct (G2 _ t1 Hf1) as (t2 & Hf2 & _ & Hi2). rewrite Hf' in Hf2. inversion Hf2; subst t2.
    exists f'. split; [apply Hi2; exact Hf''|exact He].
Qed.

Lemma relink_ctor ts x oldp newp k t :
  t_ctor (relink_ty ts x oldp newp k t) = t_ctor t /\ t_ctor_fn (relink_ty ts x oldp newp k t) = t_ctor_fn t /\
  feature_names (relink_ty ts x oldp newp k t) = feature_names t.
Proof.
  assert (Hf : feature_names (relink_ty ts x oldp newp k t) = feature_names t).
  { unfold feature_names, all_features. rewrite relink_own, relink_inh. reflexivity. }
  split; [|split; [|exact Hf]]; unfold relink_ty; cbv zeta; unfold add_child, remove_child;
    destruct (String.eqb (t_name t) oldp); cbn [set_children t_name t_children];
    destruct (String.eqb (t_name t) newp); try destruct (memb x _); destruct (String.eqb (t_name t) x); destruct (is_below ts x (t_name t)); reflexivity.
Qed.

(* re-parenting (link moved, then the new parent's effective features inherited) preserves the feature invariant *)
Lemma reparent_FI ts x oldp newp ts' tx tn : HI ts -> WFf ts -> find_ty ts x = Some tx -> t_super tx = Some oldp ->
  find_ty ts newp = Some tn -> ~ below ts x newp -> below ts oldp newp -> reparent fn_form ts x oldp newp = Ok ts' -> WFf ts'.
Proof.
  intros W F Hx Hsx Hn Hnb Hon H. pose proof (HI_nodup _ W) as Hnd.
  destruct (find_ty_In _ _ _ Hn) as [Hnin Hnn]. destruct (find_ty_In _ _ _ Hx) as [Hxin Hxn].
  unfold reparent in H. rewrite (get_type_full _ _ _ Hn) in H. cbn [bind] in H. rewrite Hnn in H.
  destruct (find_ty ts oldp) as [tp|]; [|discriminate]. destruct (negb (memb x (t_children tp))); [discriminate|].
  set (k := S (t_rank tn)) in *. set (ts1 := relink ts x oldp newp k) in *.
  assert (Hf1 : forall n, find_ty ts1 n = option_map (relink_ty ts x oldp newp k) (find_ty ts n)) by (intros n; apply relink_find').
  rewrite Hf1, Hn in H. cbn [option_map] in H. set (tn1 := relink_ty ts x oldp newp k tn) in *.
  assert (Haf : all_features tn1 = all_features tn) by (unfold all_features, tn1; rewrite relink_own, relink_inh; reflexivity).
  assert (W1 : HI ts1) by (apply (relink_HI ts x oldp newp k tx tn W Hx Hsx Hn Hnb); apply Nat.lt_succ_diag_r).
  assert (Hx1 : find_ty ts1 x = Some (relink_ty ts x oldp newp k tx)) by (rewrite Hf1, Hx; reflexivity).
  assert (Hsx1 : t_super (relink_ty ts x oldp newp k tx) = Some newp) by (rewrite relink_super, Hxn, String.eqb_refl; reflexivity).
  (* the invariant, completeness apart, after the link has moved *)
  assert (P1 : WFp ts1).
  { constructor.
    - intros t' f Hin Hf. apply in_map_iff in Hin. destruct Hin as (t & <- & Hin). rewrite relink_inh in Hf. rewrite relink_name.
      destruct (wf_inh_sound _ F t f Hin Hf) as (a & ta & Hs & Ha & Ho). exists a, (relink_ty ts x oldp newp k ta).
      rewrite Hf1, Ha, relink_own. split; [apply (relink_sbelow ts x oldp newp k tx Hx Hsx Hnb Hon); exact Hs|auto].
    - intros t' f g Hin Hf Hg. apply in_map_iff in Hin. destruct Hin as (t & <- & Hin). rewrite relink_own, relink_inh in Hf, Hg.
      apply (wf_one_def _ F t f g Hin Hf Hg).
    - intros t' Hin. apply in_map_iff in Hin. destruct Hin as (t & <- & Hin). destruct (relink_ctor ts x oldp newp k t) as (-> & -> & ->).
      apply (wf_ctor _ F t Hin). }
  assert (Q1 : Qx x ts1).
  { intros tx' g' Hx' Hg' t' Hin Hb. rewrite Hx1 in Hx'. inversion Hx'; subst tx'. rewrite relink_inh in Hg'.
    apply in_map_iff in Hin. destruct Hin as (t & <- & Hin). rewrite relink_name in Hb. rewrite relink_inh.
    apply (relink_subtree ts x oldp newp k tx Hx Hsx Hnb Hon) in Hb.
    destruct (wf_inh_sound _ F tx g' Hxin Hg') as (a & ta & Hs & Ha & Ho). rewrite Hxn in Hs.
    assert (Hst : sbelow ts a (t_name t)).
    { destruct Hs as (td & s & Hfd & Hsd & Hbd). clear -Hb Hfd Hsd Hbd. induction Hb as [|d td0 s0 Hf Hs Hb IH]; [exists td, s; auto|].
      exists td0, s0. repeat split; auto. apply sbelow_below. exact IH. }
    apply (wf_inh_complete _ F t a ta g' Hin Hst Ha Ho). }
  assert (O1 : forall f, In f (all_features tn1) -> owned_above newp ts1 f).
  { intros f Hf. rewrite Haf in Hf. apply all_features_In in Hf. apply in_app_or in Hf. destruct Hf as [Hf|Hf].
    - exists newp, tn1. split; [apply below_refl|]. split; [rewrite Hf1, Hn; reflexivity|unfold tn1; rewrite relink_own; exact Hf].
    - destruct (wf_inh_sound _ F tn f Hnin Hf) as (a & ta & Hs & Ha & Ho). rewrite Hnn in Hs. exists a, (relink_ty ts x oldp newp k ta).
      split; [apply (relink_below ts x oldp newp k tx Hx Hsx Hnb Hon); apply sbelow_below; exact Hs|].
      split; [rewrite Hf1, Ha; reflexivity|rewrite relink_own; exact Ho]. }
  destruct (inherit_list_post x newp (all_features tn1) ts1 ts' _ W1 Hx1 Hsx1 P1 Q1 O1 H) as (Es & G & Oeq & P' & R').
  assert (W' : HI ts') by (unfold HI; rewrite Es; exact W1).
  constructor; [apply (wp_sound _ P')| |apply (wp_one _ P')|apply (wp_ctor _ P')].
  (* completeness is restored: old ancestors as before, the new ones through the inherited list *)
  intros t' a ta' g Hin' Hs' Ha' Hg.
  pose proof (In_find_ty _ _ (HI_nodup _ W') Hin') as Hft'.
  destruct (strip_eq_find ts' ts1 (t_name t') t' (eq_sym Es) Hft') as (t1 & Hft1 & _).
  rewrite Hf1 in Hft1. destruct (find_ty ts (t_name t')) as [t|] eqn:Et; [|discriminate]. cbn [option_map] in Hft1. inversion Hft1; subst t1.
  destruct (find_ty_In _ _ _ Et) as [Htin Htn].
  destruct (Oeq a ta' Ha') as (ta1 & Ha1 & Ho1). rewrite Hf1 in Ha1. destruct (find_ty ts a) as [ta|] eqn:Ea; [|discriminate].
  cbn [option_map] in Ha1. inversion Ha1; subst ta1. rewrite relink_own in Ho1. rewrite Ho1 in Hg.
  assert (Hgrow : forall f0, In f0 (t_inh t) -> In f0 (t_inh t')).
  { intros f0 Hf0. destruct (G (t_name t') (relink_ty ts x oldp newp k t)) as (t2 & Hf2 & _ & Hi2); [rewrite Hf1, Et; reflexivity|].
    rewrite Hft' in Hf2. inversion Hf2; subst t2. apply Hi2. rewrite relink_inh. exact Hf0. }
  assert (Hs1 : sbelow ts1 a (t_name t')) by (apply (sbelow_map strip_ty ts1 a _ strip_shape); fold (strip ts1); rewrite <- Es; apply (sbelow_map strip_ty ts' a _ strip_shape); exact Hs').
  destruct (relink_sbelow_inv ts x oldp newp k Hnb _ _ Hs1) as [Hold|[Hbx Hban]].
  - rewrite <- Htn in Hold. destruct (wf_inh_complete _ F t a ta g Htin Hold Ea Hg) as (f0 & Hf0 & He). exists f0. split; [apply Hgrow; exact Hf0|exact He].
  - (* a is the new parent or above it: its own features are among the effective features of the new parent *)
    assert (Hy : exists y, In y (all_features tn1) /\ feat_eqb y g = true).
    { rewrite Haf. destruct (below_cases _ _ _ Hban) as [->|Hsa].
      - rewrite Hn in Ea. inversion Ea; subst ta. apply all_features_complete. apply in_or_app. left. exact Hg.
      - rewrite <- Hnn in Hsa. destruct (wf_inh_complete _ F tn a ta g Hnin Hsa Ea Hg) as (f0 & Hf0 & He).
        destruct (all_features_complete tn f0 (in_or_app _ _ _ (or_intror Hf0))) as (y & Hy & Hey). exists y. split; [exact Hy|eapply feat_eqb_trans; eassumption]. }
    destruct Hy as (y & Hy & Hey).
    assert (Hb' : below ts' x (t_name t')).
    { apply (strip_eq_below ts1 ts' x (t_name t') Es). apply (relink_subtree ts x oldp newp k tx Hx Hsx Hnb Hon). exact Hbx. }
    destruct (R' y Hy t' Hin' Hb') as (f' & Hf' & He'). exists f'. split; [exact Hf'|eapply feat_eqb_trans; eassumption].
Qed.

Lemma add_feature_res_FI ts x f ts' : HI ts -> WFf ts -> add_feature_res ts x f = Ok ts' -> WFf ts'.
Proof.
  intros W F. unfold add_feature_res. destruct (add_feature ts x f) as [ts1| | |] eqn:E; try discriminate; intros H; inversion H; subst.
  - apply (add_feature_FI _ _ _ _ W F E).
  - exact F.
Qed.
Lemma merge_features_FI i x fs : forall ts tags r, HI ts -> WFf ts -> merge_features fn_form i x fs ts tags = Ok r -> WFf (fst r).
Proof.
  induction fs as [|f r0 IH]; intros ts tags r W F H; cbn [merge_features] in H; [inversion H; exact F|].
  cbn [fn_form addf] in H. destruct (add_feature_res ts x f) as [ts1| |] eqn:E; cbn [bind] in H; try discriminate.
  eapply (IH ts1 _ r); [unfold HI; rewrite (add_feature_res_strip _ _ _ _ E); exact W|apply (add_feature_res_FI _ _ _ _ W F E)|exact H].
Qed.
Lemma merge_super_FI ts x sup tsup ts' : HI ts -> WFf ts -> registered ts x = true -> find_ty ts sup = Some tsup ->
  merge_super fn_form ts x sup = Ok ts' -> WFf ts'.
Proof.
  intros W F Hreg Hsup H. apply registered_iff in Hreg. destruct Hreg as (ex & Hfx). destruct (find_ty_In _ _ _ Hfx) as [Hexin Hexn].
  unfold merge_super in H. rewrite (get_type_full _ _ _ Hfx) in H. cbn [bind] in H.
  destruct (t_super ex) as [exsup|] eqn:Es; [|discriminate]. destruct (find_ty_In _ _ _ Hsup) as [_ Hsn].
  destruct (String.eqb sup exsup); [inversion H; subst; exact F|].
  destruct (HI_subsumes_gen ts (t_name ex) sup ex tsup W (get_type_full _ _ _ (eq_ind_r (fun n => find_ty ts n = Some ex) Hfx Hexn)) (get_type_full _ _ _ Hsup))
    as (b1 & Hb1 & Hiff1). rewrite Hb1 in H. cbn [bind] in H. destruct b1; [discriminate|].
  destruct (HI_super ts ex exsup W Hexin Es) as (tp & Hfp & _). destruct (find_ty_In _ _ _ Hfp) as [_ Hpn].
  destruct (HI_subsumes_gen ts exsup sup tp tsup W (get_type_full _ _ _ Hfp) (get_type_full _ _ _ Hsup)) as (b2 & Hb2 & Hiff2).
  rewrite Hb2 in H. cbn [bind] in H. rewrite Hexn, Hsn in Hiff1. rewrite Hpn, Hsn in Hiff2. rewrite Hexn in H. destruct b2.
  - apply (reparent_FI ts x exsup sup ts' ex tsup W F Hfx Es Hsup); [intros Hb; apply Hiff1 in Hb; discriminate|apply Hiff2; reflexivity|exact H].
  - destruct (ts_subsumes ts sup exsup) as [b3| |]; cbn [bind] in H; try discriminate. destruct b3; [inversion H; subst; exact F|discriminate].
Qed.
Lemma merge_decl_FI L st d st1 : Inv L st -> WFf (m_ts st) -> ready st d -> merge_decl fn_form st d = Ok st1 -> WFf (m_ts st1).
Proof.
  intros HI F (sup & Hs & Hr) H. destruct (ready_registered L st d sup HI Hs Hr) as (tsup & Hfsup & _ & _).
  pose proof (inv_HI _ _ HI) as W. unfold merge_decl in H. rewrite Hs in H. fold (dname d) in H.
  destruct (registered (m_ts st) (dname d)) eqn:Er.
  - destruct (merge_super fn_form (m_ts st) (dname d) sup) as [ts1| |] eqn:E; cbn [bind] in H; try discriminate.
    destruct (merge_features fn_form (d_in d) (dname d) (t_own (d_ty d)) ts1 (m_tags st)) as [r| |] eqn:Ef; cbn [bind] in H; try discriminate.
    inversion H; subst st1. cbn [m_ts]. apply (merge_features_FI _ _ _ _ _ _ (merge_super_HI _ _ _ _ W E) (merge_super_FI _ _ _ _ _ W F Er Hfsup E) Ef).
  - destruct (create_type (m_ts st) (dname d) sup (t_desc (d_ty d))) as [ts1| |] eqn:E; cbn [bind] in H; try discriminate.
    destruct (merge_features fn_form (d_in d) (dname d) (t_own (d_ty d)) ts1 (m_tags st)) as [r| |] eqn:Ef; cbn [bind] in H; try discriminate.
    inversion H; subst st1. cbn [m_ts]. apply (merge_features_FI _ _ _ _ _ _ (create_type_HI _ _ _ _ _ W E) (create_type_FI _ _ _ _ _ W F E) Ef).
Qed.
Lemma init_WFf : WFf init_ts.
Proof. apply (wffb_sound init_ts init_WFh). vm_compute. reflexivity. Qed.

(* the result of merging well-formed type systems satisfies the feature invariant of C11: the inherited features of
   every type are the own features of its final ancestors, and no type sees two definitions of one feature name *)
Theorem merge_WFf inputs ts : all_WFh inputs -> merge inputs = Ok ts -> WFf ts.
Proof.
  intros HW H. destruct (merge_inv inputs ts HW H) as (st & Er & <- & _ & _ & _). set (L := type_list inputs) in *.
  destruct (rounds_inv fn_form L (fun s => Inv L s /\ WFf (m_ts s)) (fun _ _ => True)) with (fuel := S (List.length L)) (l := L) (st := st0) (st' := st)
    as ((_ & F) & _ & _).
  - intros s d s1 [HI0 F0] Hd Hrdy Hm. destruct (merge_decl_Inv L s d s1 HI0 (type_list_ok inputs HW d Hd) Hm) as (HI1 & _ & _).
    split; [split; [exact HI1|apply (merge_decl_FI L s d s1 HI0 F0 Hrdy Hm)]|]. split; [exact I|auto].
  - apply incl_refl.
  - split; [apply Inv_st0|exact init_WFf].
  - exact Er.
  - exact F.
Qed.
Theorem merge_WF inputs ts : all_WFh inputs -> merge inputs = Ok ts -> WF ts.
Proof. intros HW H. split; [apply (merge_WFh inputs ts HW H)|apply (merge_WFf inputs ts HW H)]. Qed.

(* ================================================================================================ conflicting features raise *)
(* two declarations of one feature name whose types end up on one inheritance chain are equal for Feature.__eq__ whenever
   the merge succeeds ... *)
Theorem merge_ok_features_agree inputs ts d1 d2 f1 f2 : all_WFh inputs -> merge inputs = Ok ts ->
  In d1 (type_list inputs) -> In d2 (type_list inputs) -> In f1 (t_own (d_ty d1)) -> In f2 (t_own (d_ty d2)) ->
  f_name f1 = f_name f2 -> below ts (dname d2) (dname d1) -> feat_eqb f1 f2 = true.
Proof.
  intros HW H H1 H2 Hf1 Hf2 Hn Hb. pose proof (merge_WFh inputs ts HW H) as W. pose proof (merge_WFf inputs ts HW H) as F.
  destruct (merge_contains_all_features inputs ts HW H d1 f1 H1 Hf1) as (t1 & g1 & Ht1 & Hg1 & He1).
  destruct (merge_contains_all_features inputs ts HW H d2 f2 H2 Hf2) as (t2 & g2 & Ht2 & Hg2 & He2).
  destruct (find_ty_In _ _ _ Ht1) as [Hin1 Hn1]. destruct (find_ty_In _ _ _ Ht2) as [Hin2 Hn2].
  (* the type of d1 sees a feature equal to g2 *)
  assert (Hsee : exists g, In g (t_own t1 ++ t_inh t1) /\ feat_eqb g g2 = true).
  { destruct (below_cases _ _ _ Hb) as [Heq|Hs].
    - rewrite <- Heq in Ht1. rewrite Ht2 in Ht1. inversion Ht1; subst t1. exists g2. split; [exact Hg2|apply feat_eqb_refl].
    - rewrite <- Hn1 in Hs. apply in_app_or in Hg2. destruct Hg2 as [Hg2|Hg2].
      + destruct (wf_inh_complete _ F t1 (dname d2) t2 g2 Hin1 Hs Ht2 Hg2) as (f0 & Hf0 & He0). exists f0. split; [apply in_or_app; right; exact Hf0|exact He0].
      + destruct (wf_inh_sound _ F t2 g2 Hin2 Hg2) as (a & ta & Hsa & Ha & Hoa). rewrite Hn2 in Hsa.
        assert (Hs' : sbelow ts a (t_name t1)).
        { destruct Hs as (td & s & Hfd & Hsd & Hbd). exists td, s. repeat split; auto. eapply below_trans; [apply sbelow_below; exact Hsa|exact Hbd]. }
        destruct (wf_inh_complete _ F t1 a ta g2 Hin1 Hs' Ha Hoa) as (f0 & Hf0 & He0). exists f0. split; [apply in_or_app; right; exact Hf0|exact He0]. }
  destruct Hsee as (g & Hg & Heg).
  assert (Hng : f_name g1 = f_name g) by (rewrite (feat_eqb_name _ _ He1), (feat_eqb_name _ _ Heg), (feat_eqb_name _ _ He2); exact Hn).
  pose proof (wf_one_def _ F t1 g1 g Hin1 Hg1 Hg Hng) as E.
  eapply feat_eqb_trans; [apply feat_eqb_sym; exact He1|]. eapply feat_eqb_trans; [exact E|]. eapply feat_eqb_trans; eassumption.
Qed.
(* ... so declarations that differ (in range, or in element type with None = TOP) on what would be one chain raise *)
Theorem merge_conflict_raises_features inputs d1 d2 f1 f2 : all_WFh inputs ->
  In d1 (type_list inputs) -> In d2 (type_list inputs) -> In f1 (t_own (d_ty d1)) -> In f2 (t_own (d_ty d2)) ->
  f_name f1 = f_name f2 -> (f_range f1 <> f_range f2 \/ elem_name f1 <> elem_name f2) ->
  (forall ts, merge inputs = Ok ts -> below ts (dname d2) (dname d1)) -> merge inputs = Err EValue.
Proof.
  intros HW H1 H2 Hf1 Hf2 Hn Hdiff Hchain. apply (merge_fails_with_value inputs HW). intros ts H.
  pose proof (merge_ok_features_agree inputs ts d1 d2 f1 f2 HW H H1 H2 Hf1 Hf2 Hn (Hchain ts H)) as E.
  apply feat_eqb_key in E. unfold fkey in E. inversion E. destruct Hdiff as [Hd|Hd]; apply Hd; assumption.
Qed.

(* ================================================================================================ nothing comes from nowhere *)
(* every type of ts' is a type of ts or the one named x; every own feature of ts' is an own feature of the type of that
   name in ts, or one of fs on the type named x *)
Definition from_le (ts ts' : tsys) (x : tname) (fs : list feat) : Prop :=
  forall t', In t' ts' ->
    ((exists t, In t ts /\ t_name t = t_name t') \/ t_name t' = x) /\
    forall g, In g (t_own t') -> (exists t, In t ts /\ t_name t = t_name t' /\ In g (t_own t)) \/ (t_name t' = x /\ In g fs).
Lemma from_le_refl ts x fs : from_le ts ts x fs.
Proof. intros t Hin. split; [left; exists t; auto|]. intros g Hg. left. exists t. auto. Qed.
Lemma from_le_trans a b c x fs : from_le a b x fs -> from_le b c x fs -> from_le a c x fs.
Proof.
  intros H1 H2 t' Hin. destruct (H2 t' Hin) as [Hn Ho]. split.
  - destruct Hn as [(t1 & Hin1 & Hn1)|Hx]; [|right; exact Hx]. destruct (H1 t1 Hin1) as [[(t0 & Hin0 & Hn0)|Hx] _]; [left; exists t0; split; [exact Hin0|congruence]|right; congruence].
  - intros g Hg. destruct (Ho g Hg) as [(t1 & Hin1 & Hn1 & Hg1)|Hx]; [|right; exact Hx].
    destruct (H1 t1 Hin1) as [_ Ho1]. destruct (Ho1 g Hg1) as [(t0 & Hin0 & Hn0 & Hg0)|[Hx Hf]]; [left; exists t0; repeat split; auto; congruence|right; split; [congruence|exact Hf]].
Qed.
Lemma from_le_weaken ts ts' x fs fs' : incl fs fs' -> from_le ts ts' x fs -> from_le ts ts' x fs'.
Proof.
  intros Hi H t' Hin. destruct (H t' Hin) as [Hn Ho]. split; [exact Hn|]. intros g Hg. destruct (Ho g Hg) as [Hl|[Hx Hf]]; [left; exact Hl|right; split; [exact Hx|apply Hi; exact Hf]].
Qed.
(* maps that keep names and own features *)
Lemma from_le_map (g : ty -> ty) ts x fs : (forall t, t_name (g t) = t_name t) -> (forall t, t_own (g t) = t_own t) -> from_le ts (map g ts) x fs.
Proof.
  intros Kn Ko t' Hin. apply in_map_iff in Hin. destruct Hin as (t & <- & Hin). rewrite Kn, Ko. split; [left; exists t; auto|].
  intros f Hf. left. exists t. auto.
Qed.
Lemma create_type_from ts name supn desc ts' fs : registered ts TOP = true -> create_type ts name supn desc = Ok ts' -> from_le ts ts' name fs.
Proof.
  intros Htop H. destruct (create_type_inv' _ _ _ _ _ Htop H) as (_ & p & inh & _ & _ & _ & ->). intros t' Hin.
  apply in_app_or in Hin. destruct Hin as [Hin|[<-|[]]].
  - apply in_map_iff in Hin. destruct Hin as (t & <- & Hin). rewrite add_child_name, add_child_own. split; [left; exists t; auto|].
    intros g Hg. left. exists t. auto.
  - split; [right; reflexivity|]. intros g Hg. cbn [new_type rebuild_ctor t_own] in Hg. contradiction.
Qed.
Lemma add_feature_res_from ts x f ts' : add_feature_res ts x f = Ok ts' -> from_le ts ts' x [f].
Proof.
  intros H. destruct (add_feature_res_inv _ _ _ _ H) as [->|[-> _]]; [apply from_le_refl|].
  intros t' Hin. apply in_map_iff in Hin. destruct Hin as (t & <- & Hin). rewrite spread_name. split; [left; exists t; auto|].
  intros g Hg. apply own_spread in Hg. destruct Hg as [Hg|[Hn ->]]; [left; exists t; auto|right; split; [exact Hn|left; reflexivity]].
Qed.
Lemma merge_features_from i x fs : forall ts tags r, merge_features fn_form i x fs ts tags = Ok r -> from_le ts (fst r) x fs.
Proof.
  induction fs as [|f r0 IH]; intros ts tags r H; cbn [merge_features] in H; [inversion H; apply from_le_refl|].
  cbn [fn_form addf] in H. destruct (add_feature_res ts x f) as [ts1| |] eqn:E; cbn [bind] in H; try discriminate.
  eapply from_le_trans.
  - apply (from_le_weaken _ _ _ [f]); [|apply (add_feature_res_from _ _ _ _ E)]. intros g [<-|[]]. left. reflexivity.
  - apply (from_le_weaken _ _ _ r0); [|apply (IH _ _ _ H)]. intros g Hg. right. exact Hg.
Qed.
Lemma inherit_fn_from ts x f ts' y fs : inherit_fn ts x f = Ok ts' -> from_le ts ts' y fs.
Proof.
  intros H. destruct (inherit_fn_inv _ _ _ _ H) as [->| ->]; [apply from_le_refl|].
  apply from_le_map; intros t; [apply (proj1 (spread_inh_fields ts x f t))|apply (proj1 (proj2 (spread_inh_fields ts x f t)))].
Qed.
Lemma inherit_list_from x l y fs : forall ts ts', inherit_list fn_form x l ts = Ok ts' -> from_le ts ts' y fs.
Proof.
  induction l as [|f r IH]; intros ts ts' H; cbn [inherit_list] in H; [inversion H; apply from_le_refl|].
  cbn [fn_form inhf] in H. destruct (inherit_fn ts x f) as [ts1| |] eqn:E; cbn [bind] in H; try discriminate.
  eapply from_le_trans; [apply (inherit_fn_from _ _ _ _ y fs E)|apply (IH _ _ H)].
Qed.
Lemma merge_super_from ts x sup ts' y fs : merge_super fn_form ts x sup = Ok ts' -> from_le ts ts' y fs.
Proof.
  intros H. unfold merge_super in H. destruct (get_type ts x) as [ex| |]; cbn [bind] in H; try discriminate.
  destruct (t_super ex) as [exsup|]; [|discriminate]. destruct (String.eqb sup exsup); [inversion H; apply from_le_refl|].
  destruct (ts_subsumes ts (t_name ex) sup) as [b1| |]; cbn [bind] in H; try discriminate. destruct b1; [discriminate|].
  destruct (ts_subsumes ts exsup sup) as [b2| |]; cbn [bind] in H; try discriminate. destruct b2.
  - unfold reparent in H. destruct (get_type ts sup) as [tn| |]; cbn [bind] in H; try discriminate.
    destruct (find_ty ts exsup) as [tp|]; [|discriminate]. destruct (negb _); [discriminate|].
    destruct (find_ty (relink ts (t_name ex) exsup (t_name tn) (S (t_rank tn))) (t_name tn)) as [tn1|]; [|discriminate].
    eapply from_le_trans; [|apply (inherit_list_from _ _ y fs _ _ H)].
    apply from_le_map; intros t; [apply relink_name|apply relink_own].
  - destruct (ts_subsumes ts sup exsup) as [b3| |]; cbn [bind] in H; try discriminate. destruct b3; [inversion H; apply from_le_refl|discriminate].
Qed.
Lemma merge_decl_from st d st1 : registered (m_ts st) TOP = true -> merge_decl fn_form st d = Ok st1 ->
  from_le (m_ts st) (m_ts st1) (dname d) (t_own (d_ty d)).
Proof.
  intros Htop H. unfold merge_decl in H. destruct (t_super (d_ty d)) as [sup|]; [|discriminate]. fold (dname d) in H.
  destruct (registered (m_ts st) (dname d)).
  - destruct (merge_super fn_form (m_ts st) (dname d) sup) as [ts1| |] eqn:E; cbn [bind] in H; try discriminate.
    destruct (merge_features fn_form (d_in d) (dname d) (t_own (d_ty d)) ts1 (m_tags st)) as [r| |] eqn:Ef; cbn [bind] in H; try discriminate.
    inversion H; subst st1. cbn [m_ts]. eapply from_le_trans; [apply (merge_super_from _ _ _ _ _ _ E)|apply (merge_features_from _ _ _ _ _ _ Ef)].
  - destruct (create_type (m_ts st) (dname d) sup (t_desc (d_ty d))) as [ts1| |] eqn:E; cbn [bind] in H; try discriminate.
    destruct (merge_features fn_form (d_in d) (dname d) (t_own (d_ty d)) ts1 (m_tags st)) as [r| |] eqn:Ef; cbn [bind] in H; try discriminate.
    inversion H; subst st1. cbn [m_ts]. eapply from_le_trans; [apply (create_type_from _ _ _ _ _ _ Htop E)|apply (merge_features_from _ _ _ _ _ _ Ef)].
Qed.

(* every type of the merged type system is built in or declared, and so is every own feature *)
Definition origin_ok (L : list decl) (ts : tsys) : Prop :=
  forall t, In t ts ->
    (registered init_ts (t_name t) = true \/ In (t_name t) (dnames L)) /\
    forall g, In g (t_own t) -> (exists t0, find_ty init_ts (t_name t) = Some t0 /\ In g (t_own t0)) \/
                                (exists d, In d L /\ dname d = t_name t /\ In g (t_own (d_ty d))).
Lemma init_origin_ok L : origin_ok L init_ts.
Proof.
  intros t Hin. pose proof (In_find_ty _ _ (wf_nodup _ init_WFh) Hin) as Hf. split; [left; apply registered_iff; exists t; exact Hf|].
  intros g Hg. left. exists t. split; [exact Hf|exact Hg].
Qed.
Lemma merge_decl_origin L st d st1 : Inv L st -> In d L -> origin_ok L (m_ts st) -> merge_decl fn_form st d = Ok st1 -> origin_ok L (m_ts st1).
Proof.
  intros HI Hd HO H. pose proof (merge_decl_from st d st1 (HI_top _ (inv_HI _ _ HI)) H) as Hfrom. intros t' Hin.
  destruct (Hfrom t' Hin) as [Hn Ho]. split.
  - destruct Hn as [(t & Hin0 & Hn0)|Hx]; [rewrite <- Hn0; apply (proj1 (HO t Hin0))|right; rewrite Hx; unfold dnames; apply in_map; exact Hd].
  - intros g Hg. destruct (Ho g Hg) as [(t & Hin0 & Hn0 & Hg0)|[Hx Hf]].
    + rewrite <- Hn0. apply (proj2 (HO t Hin0) g Hg0).
    + right. exists d. auto.
Qed.
Lemma merge_origin inputs ts : all_WFh inputs -> merge inputs = Ok ts -> origin_ok (type_list inputs) ts.
Proof.
  intros HW H. destruct (merge_inv inputs ts HW H) as (st & Er & <- & _ & _ & _). set (L := type_list inputs) in *.
  destruct (rounds_inv fn_form L (fun s => Inv L s /\ origin_ok L (m_ts s)) (fun _ _ => True)) with (fuel := S (List.length L)) (l := L) (st := st0) (st' := st)
    as ((_ & HO) & _ & _).
  - intros s d s1 [HI0 HO0] Hd _ Hm. destruct (merge_decl_Inv L s d s1 HI0 (type_list_ok inputs HW d Hd) Hm) as (HI1 & _ & _).
    split; [split; [exact HI1|apply (merge_decl_origin L s d s1 HI0 Hd HO0 Hm)]|]. split; [exact I|auto].
  - apply incl_refl.
  - split; [apply Inv_st0|apply init_origin_ok].
  - exact Er.
  - exact HO.
Qed.

(* ================================================================================================ order independence (partial) *)
(* the same declarations, whatever the input they come from and the order they come in *)
Definition same_decls (L L' : list decl) : Prop := forall t, In t (map d_ty L) <-> In t (map d_ty L').
(* no type is declared with two different supertypes (nor with one that differs from the built-in declaration) *)
Definition no_competing (L : list decl) : Prop :=
  (forall d1 d2, In d1 L -> In d2 L -> dname d1 = dname d2 -> t_super (d_ty d1) = t_super (d_ty d2)) /\
  (forall d t0, In d L -> find_ty init_ts (dname d) = Some t0 -> t_super (d_ty d) = t_super t0).

Lemma same_decls_sym L L' : same_decls L L' -> same_decls L' L.
Proof. intros H t. symmetry. apply H. Qed.
Lemma same_decls_In L L' d : same_decls L L' -> In d L -> exists d', In d' L' /\ d_ty d' = d_ty d.
Proof. intros H Hd. assert (Hi : In (d_ty d) (map d_ty L)) by (apply in_map; exact Hd). apply H in Hi. apply in_map_iff in Hi. destruct Hi as (d' & E & Hd'). exists d'. auto. Qed.
Lemma no_competing_transfer L L' : same_decls L L' -> no_competing L -> no_competing L'.
Proof.
  intros HS [H1 H2]. split.
  - intros d1 d2 Hd1 Hd2 Hn. destruct (same_decls_In _ _ d1 (same_decls_sym _ _ HS) Hd1) as (e1 & He1 & E1).
    destruct (same_decls_In _ _ d2 (same_decls_sym _ _ HS) Hd2) as (e2 & He2 & E2). rewrite <- E1, <- E2. apply (H1 e1 e2 He1 He2).
    unfold dname. rewrite E1, E2. exact Hn.
  - intros d t0 Hd Hf. destruct (same_decls_In _ _ d (same_decls_sym _ _ HS) Hd) as (e & He & E). rewrite <- E. apply (H2 e t0 He).
    unfold dname. rewrite E. exact Hf.
Qed.

(* what a type sees of a feature exposed by one of its ancestors *)
Lemma sees ts A n tA tn g : WFh ts -> WFf ts -> find_ty ts A = Some tA -> find_ty ts n = Some tn -> below ts A n ->
  In g (t_own tA ++ t_inh tA) -> exists g', In g' (t_own tn ++ t_inh tn) /\ feat_eqb g' g = true.
Proof.
  intros W F HA Hn Hb Hg. destruct (find_ty_In _ _ _ HA) as [HAin HAn]. destruct (find_ty_In _ _ _ Hn) as [Hnin Hnn].
  destruct (below_cases _ _ _ Hb) as [Heq|Hs].
  - rewrite <- Heq in Hn. rewrite HA in Hn. inversion Hn; subst tn. exists g. split; [exact Hg|apply feat_eqb_refl].
  - rewrite <- Hnn in Hs. apply in_app_or in Hg. destruct Hg as [Hg|Hg].
    + destruct (wf_inh_complete _ F tn A tA g Hnin Hs HA Hg) as (f0 & Hf0 & He0). exists f0. split; [apply in_or_app; right; exact Hf0|exact He0].
    + destruct (wf_inh_sound _ F tA g HAin Hg) as (a & ta & Hsa & Ha & Hoa). rewrite HAn in Hsa.
      assert (Hs' : sbelow ts a (t_name tn)).
      { destruct Hs as (td & s & Hfd & Hsd & Hbd). exists td, s. repeat split; auto. eapply below_trans; [apply sbelow_below; exact Hsa|exact Hbd]. }
      destruct (wf_inh_complete _ F tn a ta g Hnin Hs' Ha Hoa) as (f0 & Hf0 & He0). exists f0. split; [apply in_or_app; right; exact Hf0|exact He0].
Qed.

(* the built-in features stay *)
Lemma merge_grows_init inputs ts : all_WFh inputs -> merge inputs = Ok ts -> grows init_ts ts.
Proof.
  intros HW H. destruct (merge_inv inputs ts HW H) as (st & Er & <- & _ & _ & _). set (L := type_list inputs) in *.
  destruct (rounds_inv fn_form L (fun s => Inv L s /\ grows init_ts (m_ts s)) (fun _ _ => True)) with (fuel := S (List.length L)) (l := L) (st := st0) (st' := st)
    as ((_ & G) & _ & _).
  - intros s d s1 [HI0 G0] Hd _ Hm. destruct (merge_decl_Inv L s d s1 HI0 (type_list_ok inputs HW d Hd) Hm) as (HI1 & _ & _).
    destruct (merge_decl_grows L s d s1 HI0 (type_list_ok inputs HW d Hd) Hm) as (G1 & _).
    split; [split; [exact HI1|apply (grows_trans _ _ _ G0 G1)]|]. split; [exact I|auto].
  - apply incl_refl.
  - split; [apply Inv_st0|exact (grows_refl init_ts)].
  - exact Er.
  - exact G.
Qed.

Section OrderIndependence.
  Variables (inputs inputs' : list tsys) (a b : tsys).
  Let L := type_list inputs.
  Let L' := type_list inputs'.
  Hypothesis HW : all_WFh inputs.
  Hypothesis HW' : all_WFh inputs'.
  Hypothesis HS : same_decls L L'.
  Hypothesis HN : no_competing L.
  Hypothesis Ha : merge inputs = Ok a.
  Hypothesis Hb : merge inputs' = Ok b.

  Lemma oi_names n : registered a n = true -> registered b n = true.
  Proof.
    intros Hr. apply registered_iff in Hr. destruct Hr as (t & Ht). destruct (find_ty_In _ _ _ Ht) as [Hin Hn].
    destruct (merge_inv inputs' b HW' Hb) as (st & _ & <- & HI & HR & _).
    destruct (proj1 (merge_origin inputs a HW Ha t Hin)) as [Hi|Hd]; rewrite Hn in *.
    - apply (inv_init _ _ HI n Hi).
    - unfold dnames in Hd. apply in_map_iff in Hd. destruct Hd as (d & Hdn & Hd). destruct (same_decls_In _ _ d HS Hd) as (d' & Hd' & E).
      rewrite <- Hdn. unfold dname. rewrite <- E. apply (HR d' Hd').
  Qed.
  Lemma oi_tree m tm : find_ty a m = Some tm -> exists um, find_ty b m = Some um /\ t_super um = t_super tm.
  Proof.
    intros Hm. pose proof (merge_WFh inputs a HW Ha) as Wa. pose proof (merge_WFh inputs' b HW' Hb) as Wb.
    assert (Hr : registered b m = true) by (apply oi_names; apply registered_iff; eauto).
    apply registered_iff in Hr. destruct Hr as (um & Hum). exists um. split; [exact Hum|].
    destruct (find_ty_In _ _ _ Hm) as [Hmin Hmn]. destruct (find_ty_In _ _ _ Hum) as [Huin Hun].
    destruct (merge_inv2 inputs a HW Ha) as (Sa & _). destruct (merge_inv2 inputs' b HW' Hb) as (Sb & _).
    pose proof (no_competing_transfer L L' HS HN) as HN'.
    destruct (t_super tm) as [s|] eqn:Es; destruct (t_super um) as [s'|] eqn:Es'; auto.
    - destruct (Sa m tm s Hm Es) as [(t0 & Ht0 & Hs0)|(d & Hd & Hdn & Hds)]; destruct (Sb m um s' Hum Es') as [(t0' & Ht0' & Hs0')|(d' & Hd' & Hdn' & Hds')].
      + rewrite Ht0 in Ht0'. inversion Ht0'; subst t0'. congruence.
      + rewrite <- Hdn' in Ht0. rewrite <- (proj2 HN' d' t0 Hd' Ht0) in Hs0. congruence.
      + rewrite <- Hdn in Ht0'. rewrite <- (proj2 HN d t0' Hd Ht0') in Hs0'. congruence.
      + destruct (same_decls_In _ _ d HS Hd) as (e & He & E). assert (Hen : dname e = dname d') by (unfold dname in *; rewrite E; congruence).
        pose proof (proj1 HN' e d' He Hd' Hen) as Heq. rewrite E in Heq. congruence.
    - exfalso. pose proof (wf_root _ Wb um Huin Es') as Htop. rewrite Hun in Htop.
      destruct (wf_top _ Wa) as (t' & Ht' & Hn'). rewrite <- Htop, Hm in Ht'. inversion Ht' as [Htt]. rewrite <- Htt in Hn'. congruence.
    - exfalso. pose proof (wf_root _ Wa tm Hmin Es) as Htop. rewrite Hmn in Htop.
      destruct (wf_top _ Wb) as (t' & Ht' & Hn'). rewrite <- Htop, Hum in Ht'. inversion Ht' as [Htt]. rewrite <- Htt in Hn'. congruence.
  Qed.
  Lemma oi_below p q : below a p q -> below b p q.
  Proof. apply below_transfer. intros n t Hn. apply (oi_tree n t Hn). Qed.

  Lemma oi_features n t u : find_ty a n = Some t -> find_ty b n = Some u ->
    forall f, In f (all_features t) -> exists y, In y (all_features u) /\ feat_eqb y f = true.
  Proof.
    intros Ht Hu f Hf. pose proof (merge_WFh inputs a HW Ha) as Wa. pose proof (merge_WFf inputs a HW Ha) as Fa.
    pose proof (merge_WFh inputs' b HW' Hb) as Wb. pose proof (merge_WFf inputs' b HW' Hb) as Fb.
    destruct (find_ty_In _ _ _ Ht) as [Htin Htn].
    (* the owner of f in a *)
    assert (Hown : exists A tA, below a A n /\ find_ty a A = Some tA /\ In f (t_own tA)).
    { apply all_features_In in Hf. apply in_app_or in Hf. destruct Hf as [Hf|Hf].
      - exists n, t. split; [apply below_refl|auto].
      - destruct (wf_inh_sound _ Fa t f Htin Hf) as (A & tA & Hs & HA & Ho). rewrite Htn in Hs. exists A, tA. split; [apply sbelow_below; exact Hs|auto]. }
    destruct Hown as (A & tA & HbA & HA & Ho). destruct (find_ty_In _ _ _ HA) as [HAin HAn].
    (* b exposes it on the type of that name *)
    assert (Hhas : has_feat b A f).
    { destruct (proj2 (merge_origin inputs a HW Ha tA HAin) f Ho) as [(t0 & Ht0 & Hf0)|(d & Hd & Hdn & Hfd)]; rewrite HAn in *.
      - destruct (merge_grows_init inputs' b HW' Hb A t0 Ht0) as (t0' & Ht0' & Ho0 & _). exists t0', f. split; [exact Ht0'|].
        split; [apply in_or_app; left; apply Ho0; exact Hf0|apply feat_eqb_refl].
      - destruct (same_decls_In _ _ d HS Hd) as (d' & Hd' & E). rewrite <- Hdn. unfold dname. rewrite <- E.
        apply (merge_contains_all_features inputs' b HW' Hb d' f Hd'). rewrite E. exact Hfd. }
    destruct Hhas as (tB & g & HB & Hg & Heg).
    destruct (sees b A n tB u g Wb Fb HB Hu (oi_below _ _ HbA) Hg) as (g' & Hg' & Heg').
    destruct (all_features_complete u g' Hg') as (y & Hy & Hey). exists y. split; [exact Hy|].
    eapply feat_eqb_trans; [exact Hey|]. eapply feat_eqb_trans; eassumption.
  Qed.
End OrderIndependence.

Lemma feat_eqb_feat_key y f : feat_eqb y f = true -> key_eqb (feat_key f) (feat_key y) = true.
Proof.
  intros H. apply feat_eqb_key in H. unfold fkey in H. inversion H. unfold key_eqb, feat_key. cbn [fst snd].
  rewrite H1, H3, H4, !String.eqb_refl. reflexivity.
Qed.
Lemma oi_sub inputs inputs' a b : all_WFh inputs -> all_WFh inputs' -> same_decls (type_list inputs) (type_list inputs') ->
  no_competing (type_list inputs) -> merge inputs = Ok a -> merge inputs' = Ok b -> sub_tsys a b = true.
Proof.
  intros HW HW' HS HN Ha Hb. unfold sub_tsys. apply forallb_forall. intros t Hin.
  pose proof (merge_WFh inputs a HW Ha) as Wa. pose proof (In_find_ty _ _ (wf_nodup _ Wa) Hin) as Ht.
  destruct (oi_tree inputs inputs' a b HW HW' HS HN Ha Hb (t_name t) t Ht) as (u & Hu & Hs). rewrite Hu.
  destruct (find_ty_In _ _ _ Hu) as [_ Hun]. unfold ty_equiv. rewrite Hun, String.eqb_refl, Hs.
  assert (Ho : ostr_eqb (t_super t) (t_super t) = true) by (apply ostr_eqb_eq; reflexivity). rewrite Ho. cbn [andb].
  apply andb_true_iff. split.
  - unfold incl_keys, eff_keys. apply forallb_forall. intros k Hk. apply in_map_iff in Hk. destruct Hk as (f & <- & Hf).
    destruct (oi_features inputs inputs' a b HW HW' HS HN Ha Hb (t_name t) t u Ht Hu f Hf) as (y & Hy & Hey).
    apply existsb_exists. exists (feat_key y). split; [apply in_map; exact Hy|apply feat_eqb_feat_key; exact Hey].
  - unfold incl_keys, eff_keys. apply forallb_forall. intros k Hk. apply in_map_iff in Hk. destruct Hk as (f & <- & Hf).
    destruct (oi_features inputs' inputs b a HW' HW (same_decls_sym _ _ HS) (no_competing_transfer _ _ HS HN) Hb Ha (t_name t) u t Hu Ht f Hf) as (y & Hy & Hey).
    apply existsb_exists. exists (feat_key y). split; [apply in_map; exact Hy|apply feat_eqb_feat_key; exact Hey].
Qed.

(* For inputs in which no type is declared with two different supertypes: two tuples with the same declarations (a
   permutation of the arguments, in particular) whose merges both succeed give the same types, the same supertypes and
   the same effective features (as sets, up to Feature.__eq__). *)
Theorem merge_order_independent_partial inputs inputs' a b : all_WFh inputs -> all_WFh inputs' ->
  same_decls (type_list inputs) (type_list inputs') -> no_competing (type_list inputs) ->
  merge inputs = Ok a -> merge inputs' = Ok b -> ts_equiv a b = true.
Proof.
  intros HW HW' HS HN Ha Hb. unfold ts_equiv. rewrite (oi_sub inputs inputs' a b HW HW' HS HN Ha Hb).
  rewrite (oi_sub inputs' inputs b a HW' HW (same_decls_sym _ _ HS) (no_competing_transfer _ _ HS HN) Hb Ha). reflexivity.
Qed.

(* a permutation of the arguments declares the same things *)
Lemma type_list_from_decls i inputs : map d_ty (type_list_from i inputs) = flat_map user_types inputs.
Proof.
  revert i. induction inputs as [|ts r IH]; intros i; [reflexivity|]. cbn [type_list_from flat_map]. rewrite map_app, map_map, IH.
  f_equal. rewrite <- (map_id (user_types ts)) at 2. apply map_ext. reflexivity.
Qed.
Lemma permutation_same_decls inputs inputs' : Permutation inputs inputs' -> same_decls (type_list inputs) (type_list inputs').
Proof.
  intros HP t. unfold type_list. rewrite !type_list_from_decls, !in_flat_map. split; intros (ts & Hts & Ht); exists ts; split; auto.
  - apply (Permutation_in _ HP). exact Hts.
  - apply (Permutation_in _ (Permutation_sym HP)). exact Hts.
Qed.
Theorem merge_permutation_partial inputs inputs' a b : all_WFh inputs -> Permutation inputs inputs' -> no_competing (type_list inputs) ->
  merge inputs = Ok a -> merge inputs' = Ok b -> ts_equiv a b = true.
Proof.
  intros HW HP HN Ha Hb. apply (merge_order_independent_partial inputs inputs' a b HW); auto.
  - intros ts Hts. apply HW. apply (Permutation_in _ (Permutation_sym HP)). exact Hts.
  - apply permutation_same_decls. exact HP.
Qed.


(* boolean twin of no_competing, for counting the cases that satisfy it *)
Definition no_competingb (L : list decl) : bool :=
  forallb (fun d1 => forallb (fun d2 => negb (String.eqb (dname d1) (dname d2)) || ostr_eqb (t_super (d_ty d1)) (t_super (d_ty d2))) L) L
  && forallb (fun d => match find_ty init_ts (dname d) with Some t0 => ostr_eqb (t_super (d_ty d)) (t_super t0) | None => true end) L.
Lemma no_competingb_sound L : no_competingb L = true -> no_competing L.
Proof.
  unfold no_competingb. rewrite andb_true_iff, !forallb_forall. intros [H1 H2]. split.
  - intros d1 d2 Hd1 Hd2 Hn. pose proof (H1 d1 Hd1) as Hx. rewrite forallb_forall in Hx. specialize (Hx d2 Hd2).
    rewrite Hn, String.eqb_refl in Hx. cbn [negb orb] in Hx. apply ostr_eqb_eq. exact Hx.
  - intros d t0 Hd Hf. specialize (H2 d Hd). rewrite Hf in H2. apply ostr_eqb_eq. exact H2.
Qed.

(* ---- merging with itself / with an empty type system, as far as order independence reaches ---- *)
Lemma same_decls_dup t : same_decls (type_list [t]) (type_list [t; t]).
Proof.
  intros x. unfold type_list. rewrite !type_list_from_decls. cbn [flat_map]. rewrite !in_app_iff. cbn [In]. tauto.
Qed.
Theorem merge_self_partial t a b : WFh t -> no_competing (type_list [t]) ->
  merge [t] = Ok a -> merge [t; t] = Ok b -> ts_equiv a b = true.
Proof.
  intros W HN Ha Hb. apply (merge_order_independent_partial [t] [t; t] a b); auto.
  - intros ts [<-|[]]. exact W.
  - intros ts [<-|[<-|[]]]; exact W.
  - apply same_decls_dup.
Qed.
(* TypeSystem() declares DocumentAnnotation only *)
Lemma same_decls_empty t : (forall x, In x (user_types init_ts) -> In x (user_types t)) -> same_decls (type_list [t]) (type_list [t; init_ts]).
Proof.
  intros H x. unfold type_list. rewrite !type_list_from_decls. cbn [flat_map]. rewrite !in_app_iff. cbn [In]. split.
  - intros [Hx|[]]. left. exact Hx.
  - intros [Hx|[Hx|[]]]; [left; exact Hx|left; apply H; exact Hx].
Qed.
Theorem merge_empty_partial t a b : WFh t -> (forall x, In x (user_types init_ts) -> In x (user_types t)) -> no_competing (type_list [t]) ->
  merge [t] = Ok a -> merge [t; init_ts] = Ok b -> ts_equiv a b = true.
Proof.
  intros W HD HN Ha Hb. apply (merge_order_independent_partial [t] [t; init_ts] a b); auto.
  - intros ts [<-|[]]. exact W.
  - intros ts [<-|[<-|[]]]; [exact W|exact init_WFh].
  - apply same_decls_empty. exact HD.
Qed.
