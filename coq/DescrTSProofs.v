(* DescrTSProofs.v — the embedding of a loaded content into TS.v succeeds on well-formed contents listed parents first,
   yields a type system satisfying TS.WF (so every C10/C11 theorem applies), and this type system has exactly the user
   types, supertypes, descriptions and own features of the content, on top of the unchanged predefined types. *)
From Cassis Require Import Base Descr DescrProofs DescrProofs2 DescrProofs3 TS TSProofs DescrTS.

(* ------------------------------------------------------------------ the two built-in tables agree *)
Local Notation B := init_ts_nodoc.

Lemma B_names : map t_name B = map Descr.t_name builtins.
Proof. vm_compute. reflexivity. Qed.

Definition tb_okb (b : tdecl) : bool :=
  match find_ty B (Descr.t_name b) with
  | None => false
  | Some t => (match t_super t with
               | None => String.eqb (Descr.t_name b) TOP
               | Some s => String.eqb s (Descr.t_super b) && negb (String.eqb (Descr.t_name b) TOP) && is_builtin s
               end)
              && list_eqb feat_same (t_own t) (map (feat_of_sfeat (Descr.t_name b)) (map sfeat_of_decl (t_feats b)))
              && list_eqb sfeat_eqb (builtin_all 8 (Descr.t_name b))
                                    (map sfeat_of_decl (t_feats b) ++ builtin_all 8 (Descr.t_super b))
  end.
Lemma B_table : forallb tb_okb builtins = true.
Proof. vm_compute. reflexivity. Qed.

Lemma B_WF : WF B.
Proof. exact init_nodoc_WF. Qed.

Lemma final_same n : memb n final_types = memb n Descr.final_types.
Proof.
  assert (Permutation final_types Descr.final_types) as HP.
  { apply NoDup_Permutation.
    - apply TSProofs.nodupb_NoDup. vm_compute. reflexivity.
    - apply DescrProofs.nodupb_NoDup. vm_compute. reflexivity.
    - assert (forallb (fun x => memb x Descr.final_types) final_types = true) as H1 by (vm_compute; reflexivity).
      assert (forallb (fun x => memb x final_types) Descr.final_types = true) as H2 by (vm_compute; reflexivity).
      rewrite forallb_forall in H1, H2. intros x. split; intros H; apply memb_In; [apply H1|apply H2]; exact H. }
  apply memb_perm. exact HP.
Qed.

Lemma list_eqb_feat_same a b : list_eqb feat_same a b = true -> a = b.
Proof. apply list_eqb_eq. intros x y H. apply feat_same_eq. exact H. Qed.
Lemma list_eqb_sfeat a b : list_eqb sfeat_eqb a b = true -> a = b.
Proof. apply list_eqb_eq. exact sfeat_eqb_eq. Qed.

Lemma builtin_view_B : builtin_view B = map (fun t => (t_name t, t_super t, t_own t)) B.
Proof. vm_compute. reflexivity. Qed.

Global Opaque init_ts_nodoc.

(* what the table check says about a built-in name *)
Lemma builtin_facts n : is_builtin n = true ->
  exists b tb, find_decl n builtins = Some b /\ Descr.t_name b = n /\ find_ty B n = Some tb /\
    t_own tb = map (feat_of_sfeat n) (map sfeat_of_decl (t_feats b)) /\
    builtin_all 8 n = map sfeat_of_decl (t_feats b) ++ builtin_all 8 (Descr.t_super b) /\
    (t_super tb = None \/ (t_super tb = Some (Descr.t_super b) /\ is_builtin (Descr.t_super b) = true)).
Proof.
  unfold is_builtin, has_decl. destruct (find_decl n builtins) as [b|] eqn:Eb; [intros _|discriminate].
  rewrite find_decl_findk in Eb. apply findk_some in Eb. destruct Eb as [Hin Hn].
  pose proof B_table as HT. rewrite forallb_forall in HT. specialize (HT b Hin). unfold tb_okb in HT. rewrite Hn in HT.
  destruct (find_ty B n) as [tb|]; [|discriminate]. rewrite !andb_true_iff in HT. destruct HT as [[H1 H2] H3].
  exists b, tb. repeat split; auto.
  - apply list_eqb_feat_same. exact H2.
  - apply list_eqb_sfeat. exact H3.
  - destruct (t_super tb) as [s|]; [right|left; reflexivity]. rewrite !andb_true_iff in H1. destruct H1 as [[H1 _] H4].
    apply String.eqb_eq in H1. subst s. auto.
Qed.

Lemma is_builtin_names n : is_builtin n = true <-> In n (map t_name B).
Proof. rewrite B_names. unfold is_builtin. apply has_decl_In. Qed.

(* ------------------------------------------------------------------ runs in which every call succeeds *)
Definition runs_ok (ops : list tsop) (ts ts' : tsys) : Prop :=
  fst (run_ts ops ts) = ts' /\ first_err (snd (run_ts ops ts)) = Ok tt.

Lemma runs_ok_nil ts : runs_ok [] ts ts.
Proof. split; reflexivity. Qed.

Lemma runs_ok_cons o r ts ts1 ts' : step ts o = (ts1, ROk) -> runs_ok r ts1 ts' -> runs_ok (o :: r) ts ts'.
Proof.
  intros Hs [H1 H2]. unfold runs_ok, run_ts in *. rewrite run_with_cons. rewrite Hs. cbn [fst snd first_err]. auto.
Qed.

Lemma runs_ok_app a b ts ts1 ts' : runs_ok a ts ts1 -> runs_ok b ts1 ts' -> runs_ok (a ++ b) ts ts'.
Proof.
  revert ts. induction a as [|o r IH]; intros ts [H1 H2] Hb; cbn [app].
  - cbn in H1. subst ts1. exact Hb.
  - unfold runs_ok, run_ts in *. rewrite run_with_cons in *. cbn [fst snd] in *.
    destruct (snd (step ts o)) eqn:Es; cbn [first_err] in H2 |- *; try discriminate.
    apply IH; [split; assumption|exact Hb].
Qed.

(* ------------------------------------------------------------------ the invariant tying a TS.v state to a content *)
Record Inv (ts : tsys) (st : list stype) : Prop := {
  inv_wf : WF ts;
  inv_names : map t_name ts = map t_name B ++ map st_name st;
  inv_builtin : forall tb, In tb B -> exists t, find_ty ts (t_name tb) = Some t /\ t_super t = t_super tb /\ t_own t = t_own tb;
  inv_user : forall s, In s st -> exists t, find_ty ts (st_name s) = Some t /\ t_super t = Some (st_super s) /\
               t_desc t = st_descr s /\ t_own t = map (feat_of_sfeat (st_name s)) (st_feats s)
}.

Lemma Inv_init : Inv B [].
Proof.
  constructor.
  - exact B_WF.
  - cbn [map]. rewrite app_nil_r. reflexivity.
  - intros tb Hin. exists tb. split; [|split; reflexivity]. apply In_find_ty; [|exact Hin]. apply (wf_nodup _ (proj1 B_WF)).
  - intros s [].
Qed.

Lemma Inv_find ts st n : Inv ts st -> is_builtin n = true \/ In n (map st_name st) -> exists t, find_ty ts n = Some t.
Proof.
  intros I Hn. destruct (find_ty ts n) as [t|] eqn:E; [eauto|]. exfalso. apply find_ty_none_iff in E. apply E.
  rewrite (inv_names _ _ I). apply in_or_app. destruct Hn as [Hn|Hn]; [left; apply (proj1 (is_builtin_names n)); exact Hn|right; exact Hn].
Qed.

Lemma Inv_cases ts st t : Inv ts st -> In t ts -> is_builtin (t_name t) = true \/ In (t_name t) (map st_name st).
Proof.
  intros I Hin. assert (In (t_name t) (map t_name ts)) as H by (apply in_map; exact Hin).
  rewrite (inv_names _ _ I) in H. apply in_app_or in H. destruct H as [H|H]; [left; apply (proj2 (is_builtin_names (t_name t))); exact H|right; exact H].
Qed.

Lemma knownst_cases st n : knownst st n = true -> is_builtin n = true \/ In n (map st_name st).
Proof.
  unfold knownst. destruct (is_builtin n); [left; reflexivity|]. cbn [orb]. destruct (find_st n st) as [s|] eqn:E; [|discriminate].
  intros _. right. rewrite find_st_findk in E. apply findk_some in E. destruct E as [H <-]. apply in_map. exact H.
Qed.

Lemma get_type_reg ts n t : find_ty ts n = Some t -> get_type ts n = Ok t /\ t_name t = n.
Proof. intros H. split; [apply get_type_full; exact H|apply (find_ty_In _ _ _ H)]. Qed.

(* ------------------------------------------------------------------ one create_type of the replay *)
Lemma add_child_desc sup name t : t_desc (add_child sup name t) = t_desc t.
Proof. unfold add_child. destruct (String.eqb (t_name t) sup); [destruct (memb name (t_children t))|]; reflexivity. Qed.

Lemma ct_step ts st name super descr :
  Inv ts st -> is_builtin name = false -> ~ In name (map st_name st) ->
  (is_builtin super = true \/ In super (map st_name st)) -> memb super Descr.final_types = false ->
  exists ts', step ts (OCreateType name super descr) = (ts', ROk) /\ Inv ts' (st ++ [mkST name descr super []]).
Proof.
  intros I Hnb Hfresh Hsup Hfin.
  destruct (Inv_find ts st super I Hsup) as [p Ep]. destruct (get_type_reg ts super p Ep) as [Hg Hpn].
  destruct (find_ty_In _ _ _ Ep) as [Hpin _]. destruct (inv_wf _ _ I) as [W Fw].
  assert (find_ty ts name = None) as Hnone.
  { apply find_ty_none_iff. rewrite (inv_names _ _ I). intros H. apply in_app_or in H. destruct H as [H|H]; [|contradiction].
    apply (proj2 (is_builtin_names name)) in H. congruence. }
  assert (String.eqb name TOP = false) as Et.
  { apply String.eqb_neq. intros ->. vm_compute in Hnb. discriminate. }
  set (new := new_type name p descr (all_features p)).
  assert (create_type ts name super descr = Ok (map (add_child super name) ts ++ [new])) as Hc.
  { unfold create_type, registered. rewrite Hnone, Hg. cbn [bind]. rewrite Hpn, final_same, Hfin, Et.
    rewrite (inherit_all_nodup (all_features p) []); [reflexivity|apply (no_two_definitions ts p Fw Hpin)|intros g x []]. }
  exists (map (add_child super name) ts ++ [new]). split; [cbn [step]; rewrite Hc; reflexivity|].
  assert (Hfind : forall n, find_ty (map (add_child super name) ts ++ [new]) n =
            match find_ty ts n with Some t => Some (add_child super name t) | None => if String.eqb name n then Some new else None end).
  { intros n. rewrite find_app_new, find_map_add_child. destruct (find_ty ts n); reflexivity. }
  constructor.
  - pose proof (step_WF ts (OCreateType name super descr) (inv_wf _ _ I)) as H. cbn [step] in H. rewrite Hc in H. exact H.
  - rewrite map_app, map_names, (inv_names _ _ I), map_app, app_assoc. reflexivity.
  - intros tb Hin. destruct (inv_builtin _ _ I tb Hin) as [t [Ht [H1 H2]]]. exists (add_child super name t).
    rewrite Hfind, Ht, add_child_super, add_child_own. auto.
  - intros s Hs. apply in_app_or in Hs. destruct Hs as [Hs|[<-|[]]].
    + destruct (inv_user _ _ I s Hs) as [t [Ht [H1 [H2 H3]]]]. exists (add_child super name t).
      rewrite Hfind, Ht, add_child_super, add_child_own, add_child_desc. auto.
    + exists new. cbn [st_name st_super st_descr st_feats map]. rewrite Hfind, Hnone, String.eqb_refl.
      repeat split; try reflexivity. unfold new. cbn [new_type rebuild_ctor t_super]. rewrite Hpn. reflexivity.
Qed.

(* ------------------------------------------------------------------ phase 1: the types, in creation order *)
Definition blank_st (t : stype) : stype := mkST (st_name t) (st_descr t) (st_super t) [].

Lemma blank_st_names l : map st_name (map blank_st l) = map st_name l.
Proof. rewrite map_map. reflexivity. Qed.

Lemma types_phase : forall l2 l1 ts seen,
  Inv ts (map blank_st l1) -> (forall n, memb n seen = memb n (map st_name l1)) ->
  chain_stb seen l2 = true ->
  (forall t, In t l2 -> is_builtin (st_name t) = false /\ memb (st_super t) Descr.final_types = false) ->
  exists ts', runs_ok (map type_op l2) ts ts' /\ Inv ts' (map blank_st (l1 ++ l2)).
Proof.
  induction l2 as [|a l2 IH]; intros l1 ts seen I Hseen Hch Hl2.
  - exists ts. rewrite app_nil_r. split; [apply runs_ok_nil|exact I].
  - cbn [chain_stb] in Hch. rewrite !andb_true_iff in Hch. destruct Hch as [[H1 H2] H3].
    destruct (Hl2 a (or_introl eq_refl)) as [Hnb Hfin].
    destruct (ct_step ts (map blank_st l1) (st_name a) (st_super a) (st_descr a) I Hnb) as [ts1 [Hs I1]].
    + rewrite blank_st_names. apply negb_true_iff in H1. rewrite Hseen in H1. apply memb_false_notin. exact H1.
    + rewrite blank_st_names. apply orb_true_iff in H2. destruct H2 as [H2|H2]; [left; exact H2|right]. rewrite Hseen in H2.
      apply memb_In. exact H2.
    + exact Hfin.
    + destruct (IH (l1 ++ [a]) ts1 (st_name a :: seen)) as [ts' [Hr I']].
      * rewrite map_app. exact I1.
      * intros n. cbn [memb]. rewrite map_app, DescrProofs.memb_app, Hseen. cbn [map memb]. rewrite orb_false_r. apply orb_comm.
      * exact H3.
      * intros t Ht. apply Hl2. right. exact Ht.
      * exists ts'. rewrite <- app_assoc in I'. split; [|exact I']. cbn [map]. eapply runs_ok_cons; eassumption.
Qed.

(* ------------------------------------------------------------------ phase 2: the features *)
Lemma reserved_roundtrip f : reserved_okb f = true ->
  reserved_name (xml_name f) = sf_res f /\
  (if reserved_name (xml_name f) then (xml_name f ++ "_")%string else xml_name f) = sf_name f.
Proof.
  unfold reserved_okb, xml_name. destruct (sf_res f).
  - intros H. apply orb_true_iff in H. destruct H as [H|H]; apply String.eqb_eq in H; rewrite H; split; reflexivity.
  - intros H. apply andb_true_iff in H. destruct H as [H _]. apply negb_true_iff in H. unfold reserved_name. rewrite H. split; reflexivity.
Qed.

Lemma spread_own_eq ts dom F t : t_own (spread ts dom F t) = if String.eqb (t_name t) dom then t_own t ++ [F] else t_own t.
Proof.
  unfold spread. destruct (String.eqb (t_name t) dom); [reflexivity|].
  destruct (is_below ts dom (t_name t) && _); reflexivity.
Qed.
Lemma spread_desc ts dom F t : t_desc (spread ts dom F t) = t_desc t.
Proof.
  unfold spread. destruct (String.eqb (t_name t) dom); [reflexivity|].
  destruct (is_below ts dom (t_name t) && _); reflexivity.
Qed.

Lemma set_feats_names n fs st : map st_name (set_feats n fs st) = map st_name st.
Proof. unfold set_feats. rewrite map_map. apply map_ext. intros t. destruct (String.eqb n (st_name t)); reflexivity. Qed.

Lemma NoDup_app_r {A} (a b : list A) : NoDup (a ++ b) -> NoDup b.
Proof. induction a as [|x a IH]; cbn; intros H; [exact H|]. inversion H; subst. auto. Qed.

Lemma Inv_st_nodup ts st : Inv ts st -> NoDup (map st_name st).
Proof.
  intros I. pose proof (wf_nodup _ (proj1 (inv_wf _ _ I))) as H. rewrite (inv_names _ _ I) in H.
  apply NoDup_app_r in H. exact H.
Qed.

Lemma Inv_user_find ts st n : Inv ts st -> In n (map st_name st) ->
  exists s t, find_st n st = Some s /\ In s st /\ st_name s = n /\ find_ty ts n = Some t /\ t_super t = Some (st_super s) /\
              t_desc t = st_descr s /\ t_own t = map (feat_of_sfeat n) (st_feats s).
Proof.
  intros I Hn. destruct (find_st n st) as [s|] eqn:E.
  - rewrite find_st_findk in E. apply findk_some in E. destruct E as [Hin Hname].
    destruct (inv_user _ _ I s Hin) as [t [H1 [H2 [H3 H4]]]]. rewrite Hname in H1, H4. exists s, t. repeat split; auto.
  - exfalso. rewrite find_st_findk in E. apply findk_none in E. contradiction.
Qed.

Lemma Inv_builtin_find ts st n : Inv ts st -> is_builtin n = true ->
  exists b t, find_decl n builtins = Some b /\ find_ty ts n = Some t /\
    t_own t = map (feat_of_sfeat n) (map sfeat_of_decl (t_feats b)) /\
    builtin_all 8 n = map sfeat_of_decl (t_feats b) ++ builtin_all 8 (Descr.t_super b) /\
    (t_super t = None \/ (t_super t = Some (Descr.t_super b) /\ is_builtin (Descr.t_super b) = true)).
Proof.
  intros I Hb. destruct (builtin_facts n Hb) as [b [tb [E1 [_ [E2 [E3 [E4 E5]]]]]]].
  destruct (find_ty_In _ _ _ E2) as [Hin Hname]. destruct (inv_builtin _ _ I tb Hin) as [t [H1 [H2 H3]]].
  rewrite Hname in H1. exists b, t. rewrite H2, H3. repeat split; auto.
Qed.

(* a user type is never above a predefined one *)
Lemma builtin_up ts st : Inv ts st -> forall a n, below ts a n -> is_builtin n = true -> is_builtin a = true.
Proof.
  intros I a n Hb. induction Hb as [|d td s Hf Hs Hb IH]; intros Hn; [exact Hn|]. apply IH.
  destruct (Inv_builtin_find ts st d I Hn) as [b [t [_ [Et [_ [_ Hsup]]]]]]. rewrite Hf in Et. injection Et as <-.
  destruct Hsup as [Hsup|[Hsup Hbs]]; [congruence|]. rewrite Hs in Hsup. injection Hsup as ->. exact Hbs.
Qed.

Section FeaturePhase.
  Variable l : list stype.                 (* the content being embedded *)
  Hypothesis Lwf : forallb (wf_stypeb l) l = true.
  Hypothesis Lnc : noclashb l = true.

  (* a state on the way: same names and supertypes, own features so far among the final ones *)
  Definition rel (st : list stype) : Prop := forall m, strel (find_st m st) (find_st m l).

  Definition own_final (a : tname) (fn : fname) : Prop :=
    (exists b, find_decl a builtins = Some b /\ In fn (map sf_name (map sfeat_of_decl (t_feats b)))) \/
    (exists sl, find_st a l = Some sl /\ In fn (map sf_name (st_feats sl))).

  Lemma l_find a sl : find_st a l = Some sl -> In sl l /\ st_name sl = a /\ is_builtin a = false /\ wf_stypeb l sl = true.
  Proof.
    intros E. rewrite find_st_findk in E. apply findk_some in E. destruct E as [Hin Hn].
    rewrite forallb_forall in Lwf. pose proof (Lwf sl Hin) as Hw. pose proof Hw as Hw'. apply wf_stype_parts in Hw'.
    destruct Hw' as [_ [Hnb _]]. rewrite Hn in Hnb. auto.
  Qed.

  Lemma l_noclash sl : In sl l -> exists inh, all_feats (S (List.length l)) l (st_super sl) = Some inh /\
    forall f, In f (st_feats sl) -> ~ In (sf_name f) (map sf_name inh).
  Proof.
    intros Hin. unfold noclashb in Lnc. rewrite forallb_forall in Lnc. specialize (Lnc sl Hin). unfold noclash1 in Lnc.
    apply andb_true_iff in Lnc. destruct Lnc as [_ H]. destruct (all_feats _ l (st_super sl)) as [inh|]; [|discriminate].
    exists inh. split; [reflexivity|]. rewrite forallb_forall in H. intros f Hf. specialize (H f Hf).
    destruct (find_sf (sf_name f) inh) eqn:E; [discriminate|]. rewrite find_sf_findk in E. apply findk_none in E. exact E.
  Qed.

  Lemma l_nodup_feats sl : In sl l -> NoDup (map sf_name (st_feats sl)).
  Proof.
    intros Hin. unfold noclashb in Lnc. rewrite forallb_forall in Lnc. specialize (Lnc sl Hin). unfold noclash1 in Lnc.
    apply andb_true_iff in Lnc. destruct Lnc as [H _]. apply DescrProofs.nodupb_NoDup. exact H.
  Qed.

  Lemma rel_names st n : rel st -> In n (map st_name l) -> In n (map st_name st).
  Proof.
    intros R Hn. specialize (R n). destruct (find_st n st) as [s|] eqn:E.
    - rewrite find_st_findk in E. apply findk_some in E. destruct E as [H <-]. apply in_map. exact H.
    - destruct (find_st n l) eqn:E2; [contradiction|]. rewrite find_st_findk in E2. apply findk_none in E2. contradiction.
  Qed.

  (* whatever a type above n owns in the end is among the features the walk of Descr.v collects at n *)
  Lemma chainC ts st : Inv ts st -> rel st -> forall a n, below ts a n ->
    forall k inh, all_feats k l n = Some inh -> forall fn, own_final a fn -> In fn (map sf_name inh).
  Proof.
    intros I R a n Hb. induction Hb as [|d td s Hf Hs Hb IH]; intros k inh Hk fn Hown.
    - destruct k as [|k]; [discriminate|]. revert Hk. rewrite all_feats_S. destruct (is_builtin a) eqn:Eb.
      + intros Hk. assert (inh = builtin_all 8 a) as -> by congruence. clear Hk. destruct Hown as [[b [Efd Hin]]|[sl [Efs _]]].
        * destruct (builtin_facts a Eb) as [b' [tb [Eb' [_ [_ [_ [Hall _]]]]]]]. rewrite Efd in Eb'. injection Eb' as <-.
          rewrite Hall, map_app. apply in_or_app. left. exact Hin.
        * apply l_find in Efs. destruct Efs as [_ [_ [Hnb _]]]. congruence.
      + destruct (find_st a l) as [sl|] eqn:Efs; [|discriminate].
        destruct (all_feats k l (st_super sl)) as [l0|]; [|discriminate]. intros Hk. injection Hk as <-.
        destruct Hown as [[b [Efd _]]|[sl' [Efs' Hin]]].
        * unfold is_builtin, has_decl in Eb. rewrite Efd in Eb. discriminate.
        * assert (sl' = sl) as -> by congruence. rewrite map_app. apply in_or_app. left. exact Hin.
    - destruct k as [|k]; [discriminate|]. revert Hk. rewrite all_feats_S. destruct (is_builtin d) eqn:Eb.
      + intros Hk. assert (inh = builtin_all 8 d) as -> by congruence. clear Hk.
        destruct (Inv_builtin_find ts st d I Eb) as [b [t [_ [Et [_ [Hall Hsup]]]]]].
        rewrite Hf in Et. injection Et as <-. destruct Hsup as [Hsup|[Hsup Hbs]]; [congruence|].
        rewrite Hs in Hsup. injection Hsup as ->. rewrite Hall, map_app. apply in_or_app. right.
        apply (IH 1 (builtin_all 8 (Descr.t_super b))); [|exact Hown]. rewrite all_feats_S, Hbs. reflexivity.
      + destruct (find_st d l) as [sl|] eqn:Efs; [|discriminate].
        destruct (all_feats k l (st_super sl)) as [l0|] eqn:E0; [|discriminate]. intros Hk. injection Hk as <-.
        assert (In d (map st_name st)) as Hd.
        { apply rel_names; [exact R|]. apply l_find in Efs. destruct Efs as [Hin [<- _]]. apply in_map. exact Hin. }
        destruct (Inv_user_find ts st d I Hd) as [sd [t [Esd [_ [_ [Et [Hsup _]]]]]]].
        rewrite Hf in Et. injection Et as <-. specialize (R d). rewrite Esd, Efs in R. destruct R as [Rs _].
        rewrite Hs in Hsup. injection Hsup as ->. rewrite map_app. apply in_or_app. right.
        apply (IH k l0); [rewrite Rs; exact E0|exact Hown].
  Qed.

  Lemma own_in_final ts st a ta g : Inv ts st -> rel st -> find_ty ts a = Some ta -> In g (t_own ta) -> own_final a (f_name g).
  Proof.
    intros I R Ea Hg. destruct (find_ty_In _ _ _ Ea) as [Hin Hname].
    destruct (Inv_cases ts st ta I Hin) as [Hb|Hu]; rewrite Hname in *.
    - left. destruct (Inv_builtin_find ts st a I Hb) as [b [t [Eb [Et [Hown _]]]]]. rewrite Ea in Et. injection Et as <-.
      exists b. split; [exact Eb|]. rewrite Hown in Hg. apply in_map_iff in Hg. destruct Hg as [sf [<- Hsf]].
      cbn [feat_of_sfeat f_name]. apply in_map. exact Hsf.
    - right. destruct (Inv_user_find ts st a I Hu) as [sa [t [Esa [_ [_ [Et [_ [_ Hown]]]]]]]]. rewrite Ea in Et. injection Et as <-.
      specialize (R a). rewrite Esa in R. destruct (find_st a l) as [sla|]; [|contradiction]. destruct R as [_ Rincl].
      exists sla. split; [reflexivity|]. apply Rincl. rewrite Hown in Hg. apply in_map_iff in Hg. destruct Hg as [sf [<- Hsf]].
      cbn [feat_of_sfeat f_name]. apply in_map. exact Hsf.
  Qed.

  (* one create_feature of the replay *)
  Lemma cf_step ts st dom s sl f :
    Inv ts st -> rel st ->
    find_st dom st = Some s -> find_st dom l = Some sl -> In f (st_feats sl) -> ~ In (sf_name f) (map sf_name (st_feats s)) ->
    exists ts', step ts (feat_op dom f) = (ts', ROk) /\ Inv ts' (set_feats dom (st_feats s ++ [f]) st).
  Proof.
    intros I R Es Esl Hf Hnew. destruct (inv_wf _ _ I) as [W Fw].
    destruct (l_find dom sl Esl) as [Hsl [Hsln [Hdnb Hwsl]]].
    pose proof Es as Es'. rewrite find_st_findk in Es'. apply findk_some in Es'. destruct Es' as [Hs Hsn].
    assert (In dom (map st_name st)) as Hdom by (rewrite <- Hsn; apply in_map; exact Hs).
    destruct (Inv_user_find ts st dom I Hdom) as [s0 [t [Es0 [_ [_ [Et [Hsup [Hdesc Hown]]]]]]]].
    rewrite Es in Es0. injection Es0 as <-.
    pose proof (R dom) as Rd. rewrite Es, Esl in Rd. destruct Rd as [Rsup Rincl].
    (* the feature object *)
    apply wf_stype_parts in Hwsl. destruct Hwsl as [_ [_ [_ [_ [_ Hwf]]]]]. rewrite forallb_forall in Hwf. specialize (Hwf f Hf).
    unfold wf_sfeatb in Hwf. rewrite !andb_true_iff in Hwf. destruct Hwf as [[[Hres _] Hrk] Hek].
    destruct (reserved_roundtrip f Hres) as [Hr1 Hr2].
    assert (forall n, knownst l n = true -> exists tn, get_type ts n = Ok tn /\ t_name tn = n) as Hget.
    { intros n Hk. apply knownst_cases in Hk.
      assert (is_builtin n = true \/ In n (map st_name st)) as Hk' by (destruct Hk as [Hk|Hk]; [left; exact Hk|right; apply rel_names; assumption]).
      destruct (Inv_find ts st n I Hk') as [tn En]. exists tn. apply get_type_reg. exact En. }
    set (F := feat_of_sfeat dom f).
    assert (make_feature ts dom (xml_name f) (sf_range f) (sf_elem f) (sf_multi f) (sf_descr f) = Ok F) as Hmk.
    { unfold make_feature. cbv zeta. destruct (get_type_reg ts dom t Et) as [Hg Hgn]. rewrite Hg. cbn [bind].
      destruct (Hget (sf_range f) Hrk) as [tr [Hgr Hrn]]. rewrite Hgr. cbn [bind].
      unfold F, feat_of_sfeat. rewrite Hr2, Hr1, Hgn, Hrn.
      destruct (sf_elem f) as [e|]; cbn [opt_get_type bind]; [|reflexivity].
      apply andb_true_iff in Hek. destruct Hek as [_ Hek]. destruct (Hget e Hek) as [te [Hge Hen]]. rewrite Hge. cbn [bind]. rewrite Hen. reflexivity. }
    destruct (l_noclash sl Hsl) as [inh [Einh Hclash]].
    (* _add_feature appends *)
    assert (add_feature ts dom F = Added (map (spread ts dom F) ts)) as Hadd.
    { unfold add_feature. rewrite Et.
      assert (find_feat (f_name F) (t_own t) = None) as ->.
      { apply find_feat_none_intro. intros g Hg E. rewrite Hown in Hg. apply in_map_iff in Hg. destruct Hg as [sf [<- Hsf]].
        cbn [F feat_of_sfeat f_name] in E. apply Hnew. rewrite <- E. apply in_map. exact Hsf. }
      destruct (find_feat (f_name F) (t_inh t)) as [g|] eqn:Einhf.
      { exfalso. apply find_feat_some in Einhf. destruct Einhf as [Hg Hgn].
        destruct (find_ty_In _ _ _ Et) as [Htin Htn].
        destruct (wf_inh_sound _ Fw t g Htin Hg) as [a [ta [[td [s0 [E1 [E2 Hb]]]] [Ea Hga]]]].
        rewrite Htn, Et in E1. injection E1 as <-. rewrite Hsup in E2. injection E2 as <-.
        apply (Hclash f Hf). change (sf_name f) with (f_name F). rewrite <- Hgn.
        apply (chainC ts st I R a (st_super s) Hb (S (List.length l)) inh); [rewrite Rsup; exact Einh|].
        eapply own_in_final; eassumption. }
      destruct (existsb (fun d => is_below ts dom (t_name d) && conflicts (t_own d) F) ts) eqn:Eex; [|reflexivity].
      exfalso. apply existsb_exists in Eex. destruct Eex as [d [Hd Hc]]. apply andb_true_iff in Hc. destruct Hc as [Hbel Hconf].
      unfold conflicts in Hconf. apply existsb_exists in Hconf. destruct Hconf as [g [Hg Hgc]]. apply andb_true_iff in Hgc.
      destruct Hgc as [Hgn _]. unfold named in Hgn. apply String.eqb_eq in Hgn.
      pose proof (In_find_ty ts d (wf_nodup _ W) Hd) as Ed.
      apply (is_below_spec ts dom (t_name d) d W Ed) in Hbel. apply below_cases in Hbel. destruct Hbel as [Heq|Hsb].
      - rewrite <- Heq, Et in Ed. injection Ed as <-. rewrite Hown in Hg. apply in_map_iff in Hg. destruct Hg as [sf [<- Hsf]].
        cbn [F feat_of_sfeat f_name] in Hgn. apply Hnew. rewrite <- Hgn. apply in_map. exact Hsf.
      - destruct (Inv_cases ts st d I Hd) as [Hdb|Hdu].
        + pose proof (builtin_up ts st I dom (t_name d) (sbelow_below _ _ _ Hsb) Hdb) as Hx. congruence.
        + destruct (Inv_user_find ts st (t_name d) I Hdu) as [sd [t' [Esd [_ [_ [Et' [Hsup' [_ Hown']]]]]]]].
          rewrite Ed in Et'. injection Et' as <-.
          pose proof (R (t_name d)) as Rd. rewrite Esd in Rd. destruct (find_st (t_name d) l) as [sld|] eqn:Esld; [|contradiction].
          destruct Rd as [Rsup' Rincl']. destruct (l_find _ _ Esld) as [Hsld _].
          destruct (l_noclash sld Hsld) as [inhd [Einhd Hclashd]].
          destruct Hsb as [td [s0 [E1 [E2 Hb]]]]. rewrite Ed in E1. injection E1 as <-. rewrite Hsup' in E2. injection E2 as <-.
          rewrite Hown' in Hg. apply in_map_iff in Hg. destruct Hg as [sf [<- Hsf]]. cbn [feat_of_sfeat f_name F] in Hgn.
          assert (In (sf_name sf) (map sf_name (st_feats sld))) as Hin' by (apply Rincl'; apply in_map; exact Hsf).
          apply in_map_iff in Hin'. destruct Hin' as [sf' [En' Hsf']].
          apply (Hclashd sf' Hsf'). rewrite En', Hgn.
          apply (chainC ts st I R dom (st_super sd) Hb (S (List.length l)) inhd); [rewrite Rsup'; exact Einhd|].
          right. exists sl. split; [exact Esl|apply in_map; exact Hf]. }
    assert (step ts (feat_op dom f) = (map (spread ts dom F) ts, ROk)) as Hstep.
    { unfold feat_op. cbn [step]. unfold create_feature. rewrite Hmk. cbn [F feat_of_sfeat f_dom]. fold F. rewrite Hadd. reflexivity. }
    exists (map (spread ts dom F) ts). split; [exact Hstep|].
    pose proof (spread_shape ts dom F) as K.
    constructor.
    - pose proof (step_WF ts (feat_op dom f) (inv_wf _ _ I)) as H. rewrite Hstep in H. exact H.
    - rewrite set_feats_names, <- (inv_names _ _ I), map_map. apply map_ext. intros x. apply (K x).
    - intros tb Hin. destruct (inv_builtin _ _ I tb Hin) as [t0 [Et0 [H1 H2]]]. exists (spread ts dom F t0).
      rewrite (find_map_shape ts _ _ K), Et0. cbn [option_map]. split; [reflexivity|]. split; [rewrite (proj1 (proj2 (K t0))); exact H1|].
      rewrite spread_own_eq. destruct (String.eqb (t_name t0) dom) eqn:E; [|exact H2]. exfalso.
      apply String.eqb_eq in E. destruct (find_ty_In _ _ _ Et0) as [_ Hn0]. rewrite Hn0 in E.
      assert (is_builtin (t_name tb) = true) as Hb by (apply (proj2 (is_builtin_names _)); apply in_map; exact Hin).
      rewrite E in Hb. rewrite Hb in Hdnb. discriminate Hdnb.
    - intros s' Hs'. unfold set_feats in Hs'. apply in_map_iff in Hs'. destruct Hs' as [s1 [Hs1 Hin1]].
      destruct (inv_user _ _ I s1 Hin1) as [t1 [Et1 [H1 [H2 H3]]]]. destruct (find_ty_In _ _ _ Et1) as [_ Hn1].
      destruct (String.eqb dom (st_name s1)) eqn:E.
      + apply String.eqb_eq in E. subst s'. cbn [st_name st_super st_descr st_feats].
        assert (s1 = s) as -> by (apply (nodup_key_inj st_name st); [apply (Inv_st_nodup ts); exact I|exact Hin1|exact Hs|congruence]).
        exists (spread ts dom F t1). rewrite (find_map_shape ts _ _ K), Et1. cbn [option_map]. split; [reflexivity|].
        split; [rewrite (proj1 (proj2 (K t1))); exact H1|]. split; [rewrite spread_desc; exact H2|].
        rewrite spread_own_eq, Hn1, <- E, String.eqb_refl, H3, map_app. rewrite <- E. reflexivity.
      + subst s'. exists (spread ts dom F t1). rewrite (find_map_shape ts _ _ K), Et1. cbn [option_map]. split; [reflexivity|].
        split; [rewrite (proj1 (proj2 (K t1))); exact H1|]. split; [rewrite spread_desc; exact H2|].
        rewrite spread_own_eq, Hn1, String.eqb_sym, E. exact H3.
  Qed.
End FeaturePhase.

(* ------------------------------------------------------------------ the features of one type, then of all types *)
Lemma find_st_set_feats m n fs st :
  find_st m (set_feats n fs st) =
  option_map (fun t => if String.eqb n (st_name t) then mkST (st_name t) (st_descr t) (st_super t) fs else t) (find_st m st).
Proof. unfold set_feats. apply find_st_map_st. intros t. destruct (String.eqb n (st_name t)); reflexivity. Qed.

Lemma set_feats_twice n a b st : set_feats n a (set_feats n b st) = set_feats n a st.
Proof.
  unfold set_feats. rewrite map_map. apply map_ext. intros t. destruct (String.eqb n (st_name t)) eqn:E; cbn [st_name]; rewrite E; reflexivity.
Qed.

Lemma rel_set_feats l st dom sl fs : rel l st -> find_st dom l = Some sl ->
  incl (map sf_name fs) (map sf_name (st_feats sl)) -> rel l (set_feats dom fs st).
Proof.
  intros R Esl Hincl m. rewrite find_st_set_feats. specialize (R m). destruct (find_st m st) as [x|] eqn:Ex; cbn [option_map]; [|exact R].
  destruct (find_st m l) as [y|] eqn:Ey; [|contradiction]. destruct R as [R1 R2].
  destruct (String.eqb dom (st_name x)) eqn:E; [|split; assumption]. cbn [strel st_super st_feats]. split; [exact R1|].
  apply String.eqb_eq in E. rewrite find_st_findk in Ex. apply findk_some in Ex. destruct Ex as [_ Hx].
  assert (y = sl) as -> by congruence. exact Hincl.
Qed.

Lemma feats_type_phase l (Lwf : forallb (wf_stypeb l) l = true) (Lnc : noclashb l = true) dom sl :
  find_st dom l = Some sl ->
  forall fs2 fs1 ts st s, Inv ts st -> rel l st -> find_st dom st = Some s -> st_feats s = fs1 -> st_feats sl = fs1 ++ fs2 ->
  exists ts', runs_ok (map (feat_op dom) fs2) ts ts' /\ Inv ts' (set_feats dom (fs1 ++ fs2) st).
Proof.
  intros Esl. destruct (l_find l Lwf dom sl Esl) as [Hsl _].
  induction fs2 as [|f fs2 IH]; intros fs1 ts st s I R Es Hfs1 Hall.
  - exists ts. split; [apply runs_ok_nil|]. rewrite app_nil_r. rewrite <- Hfs1.
    assert (set_feats dom (st_feats s) st = st) as ->; [|exact I].
    unfold set_feats. rewrite <- (map_id st) at 2. apply map_ext_in. intros x Hx. destruct (String.eqb dom (st_name x)) eqn:E; [|reflexivity].
    apply String.eqb_eq in E. pose proof Es as Es'. rewrite find_st_findk in Es'. apply findk_some in Es'. destruct Es' as [Hs Hsn].
    assert (x = s) as -> by (apply (nodup_key_inj st_name st); [apply (Inv_st_nodup ts); exact I|exact Hx|exact Hs|congruence]).
    destruct s; reflexivity.
  - pose proof (l_nodup_feats l Lnc sl Hsl) as Hnd. rewrite Hall, map_app in Hnd. cbn [map] in Hnd.
    destruct (cf_step l Lwf Lnc ts st dom s sl f I R Es Esl) as [ts1 [Hstep I1]].
    + rewrite Hall. apply in_or_app. right. left. reflexivity.
    + rewrite Hfs1. apply NoDup_remove_2 in Hnd. intros H. apply Hnd. apply in_or_app. left. exact H.
    + rewrite Hfs1 in I1.
      assert (rel l (set_feats dom (fs1 ++ [f]) st)) as R1.
      { apply (rel_set_feats l st dom sl); [exact R|exact Esl|]. rewrite Hall, !map_app. cbn [map].
        apply incl_app; [apply incl_appl; apply incl_refl|apply incl_appr; intros x [<-|[]]; left; reflexivity]. }
      destruct (IH (fs1 ++ [f]) ts1 (set_feats dom (fs1 ++ [f]) st) (mkST (st_name s) (st_descr s) (st_super s) (fs1 ++ [f])) I1 R1)
        as [ts' [Hr I']].
      * rewrite find_st_set_feats, Es. cbn [option_map]. pose proof Es as Es'. rewrite find_st_findk in Es'. apply findk_some in Es'.
        destruct Es' as [_ Hsn]. rewrite Hsn, String.eqb_refl. reflexivity.
      * reflexivity.
      * rewrite Hall, <- app_assoc. reflexivity.
      * exists ts'. split; [cbn [map]; eapply runs_ok_cons; eassumption|].
        rewrite set_feats_twice, <- app_assoc in I'. exact I'.
Qed.

Lemma rel_partial la lb : rel (la ++ lb) (la ++ map blank_st lb).
Proof.
  intros m. rewrite !find_st_app. destruct (find_st m la) as [x|].
  - split; [reflexivity|apply incl_refl].
  - rewrite (find_st_map_st blank_st) by reflexivity. destruct (find_st m lb) as [y|]; cbn [option_map strel]; [|exact I].
    split; [reflexivity|]. cbn [blank_st st_feats map]. apply incl_nil_l.
Qed.

Lemma feats_phase l (Lnd : NoDup (map st_name l)) (Lwf : forallb (wf_stypeb l) l = true) (Lnc : noclashb l = true) :
  forall lb la ts, l = la ++ lb -> Inv ts (la ++ map blank_st lb) ->
  exists ts', runs_ok (flat_map feat_ops lb) ts ts' /\ Inv ts' l.
Proof.
  induction lb as [|t lb IH]; intros la ts Hl I.
  - exists ts. cbn [map] in I. rewrite app_nil_r in *. subst l. split; [apply runs_ok_nil|exact I].
  - cbn [map flat_map] in *.
    assert (~ In (st_name t) (map st_name la) /\ ~ In (st_name t) (map st_name lb)) as [N1 N2].
    { rewrite Hl, map_app in Lnd. cbn [map] in Lnd. apply NoDup_remove_2 in Lnd. split; intros H; apply Lnd; apply in_or_app; auto. }
    assert (find_st (st_name t) la = None) as Ela by (rewrite find_st_findk; apply findk_none; exact N1).
    assert (find_st (st_name t) l = Some t) as Esl.
    { rewrite Hl, find_st_app, Ela. unfold find_st. cbn [find]. rewrite String.eqb_refl. reflexivity. }
    assert (find_st (st_name t) (la ++ blank_st t :: map blank_st lb) = Some (blank_st t)) as Es.
    { rewrite find_st_app, Ela. unfold find_st. cbn [find blank_st st_name]. rewrite String.eqb_refl. reflexivity. }
    assert (rel l (la ++ blank_st t :: map blank_st lb)) as R by (rewrite Hl; apply (rel_partial la (t :: lb))).
    destruct (feats_type_phase l Lwf Lnc (st_name t) t Esl (st_feats t) [] ts _ (blank_st t) I R Es eq_refl eq_refl) as [ts1 [Hr I1]].
    cbn [app] in I1. rewrite (set_feats_done (st_name t) (st_feats t) la (blank_st t) (map blank_st lb)) in I1;
      [|exact N1|rewrite blank_st_names; exact N2|reflexivity].
    cbn [blank_st st_name st_descr st_super] in I1.
    assert (mkST (st_name t) (st_descr t) (st_super t) (st_feats t) = t) as Et by (destruct t; reflexivity). rewrite Et in I1.
    destruct (IH (la ++ [t]) ts1) as [ts' [Hr' I']].
    + rewrite <- app_assoc. exact Hl.
    + rewrite <- app_assoc. exact I1.
    + exists ts'. split; [|exact I']. eapply runs_ok_app; eassumption.
Qed.

(* ------------------------------------------------------------------ reading the result back *)
Lemma sfeat_feat_id n f : sfeat_of_feat (feat_of_sfeat n f) = f.
Proof. destruct f; reflexivity. Qed.

Lemma map_pointwise {A B C} (key1 : A -> string) (key2 : B -> string) (g1 : A -> C) (g2 : B -> C) :
  forall (l2 : list B) (l1 : list A), map key1 l1 = map key2 l2 ->
  (forall a b, In a l1 -> In b l2 -> key1 a = key2 b -> g1 a = g2 b) -> map g1 l1 = map g2 l2.
Proof.
  induction l2 as [|b l2 IH]; intros [|a l1] Hk H; cbn [map] in *; try discriminate; [reflexivity|].
  injection Hk as Hk1 Hk2. f_equal; [apply H; [left; reflexivity|left; reflexivity|exact Hk1]|]. apply IH; [exact Hk2|]. intros x y Hx Hy. apply H; right; assumption.
Qed.

Lemma filter_all {A} (p : A -> bool) l : (forall x, In x l -> p x = true) -> filter p l = l.
Proof. induction l as [|x r IH]; cbn; intros H; [reflexivity|]. rewrite (H x (or_introl eq_refl)). f_equal. apply IH. intros y Hy. apply H. right. exact Hy. Qed.
Lemma filter_none {A} (p : A -> bool) l : (forall x, In x l -> p x = false) -> filter p l = [].
Proof. induction l as [|x r IH]; cbn; intros H; [reflexivity|]. rewrite (H x (or_introl eq_refl)). apply IH. intros y Hy. apply H. right. exact Hy. Qed.

Lemma Inv_views ts l : Inv ts l -> (forall s, In s l -> is_builtin (st_name s) = false) ->
  user_view ts = l /\ builtin_view ts = builtin_view B.
Proof.
  intros I Hnb. pose proof (inv_names _ _ I) as Hn. apply map_eq_app in Hn. destruct Hn as [ts1 [ts2 [Hts [H1 H2]]]].
  pose proof (wf_nodup _ (proj1 (inv_wf _ _ I))) as Hnd.
  assert (forall t, In t ts1 -> is_builtin (t_name t) = true) as B1.
  { intros t Ht. apply (proj2 (is_builtin_names _)). rewrite <- H1. apply in_map. exact Ht. }
  assert (forall t, In t ts2 -> is_builtin (t_name t) = false) as B2.
  { intros t Ht. assert (In (t_name t) (map st_name l)) as H by (rewrite <- H2; apply in_map; exact Ht).
    apply in_map_iff in H. destruct H as [s [<- Hs]]. apply Hnb. exact Hs. }
  split.
  - unfold user_view. rewrite Hts, filter_app.
    rewrite (filter_none _ ts1) by (intros t Ht; rewrite (B1 t Ht); reflexivity).
    rewrite (filter_all _ ts2) by (intros t Ht; rewrite (B2 t Ht); reflexivity). cbn [app].
    transitivity (map (fun x : stype => x) l); [|apply map_id]. apply (map_pointwise t_name st_name); [exact H2|]. intros t s Ht Hs Hk.
    destruct (inv_user _ _ I s Hs) as [t' [Et' [E1 [E2 E3]]]].
    assert (In t ts) as Hin by (rewrite Hts; apply in_or_app; right; exact Ht).
    pose proof (In_find_ty ts t Hnd Hin) as Et. rewrite Hk, Et' in Et. injection Et as ->.
    unfold stype_of_ty. rewrite E1, E2, E3, Hk, map_map. destruct s as [n de su fs]. cbn [st_name st_descr st_super st_feats]. f_equal.
    transitivity (map (fun x : sfeat => x) fs); [|apply map_id]. apply map_ext. intros f. apply sfeat_feat_id.
  - rewrite builtin_view_B. unfold builtin_view. rewrite Hts, filter_app.
    rewrite (filter_all _ ts1) by exact B1. rewrite (filter_none _ ts2) by exact B2. rewrite app_nil_r.
    apply (map_pointwise t_name t_name); [exact H1|]. intros t tb Ht Htb Hk.
    destruct (inv_builtin _ _ I tb Htb) as [t' [Et' [E1 E2]]].
    assert (In t ts) as Hin by (rewrite Hts; apply in_or_app; left; exact Ht).
    pose proof (In_find_ty ts t Hnd Hin) as Et. rewrite Hk, Et' in Et. injection Et as ->. rewrite Hk, E1, E2. reflexivity.
Qed.

(* ------------------------------------------------------------------ the embedding theorem *)
Theorem embed_ok l : wf_contentb l = true ->
  exists ts, tsys_of_content l = Ok ts /\ WF ts /\ user_view ts = l /\ builtin_view ts = builtin_view init_ts_nodoc.
Proof.
  unfold wf_contentb. rewrite !andb_true_iff. intros [[[Hnd Lwf] Lnc] Hch]. apply DescrProofs.nodupb_NoDup in Hnd.
  assert (forall t, In t l -> is_builtin (st_name t) = false /\ memb (st_super t) Descr.final_types = false) as Hl.
  { intros t Ht. rewrite forallb_forall in Lwf. specialize (Lwf t Ht). apply wf_stype_parts in Lwf. tauto. }
  destruct (types_phase l [] B [] Inv_init (fun n => eq_refl) Hch Hl) as [ts1 [Hr1 I1]]. cbn [app] in I1.
  destruct (feats_phase l Hnd Lwf Lnc l [] ts1 eq_refl I1) as [ts2 [Hr2 I2]].
  pose proof (runs_ok_app _ _ _ _ _ Hr1 Hr2) as [E1 E2]. exists ts2. split; [|split].
  - unfold tsys_of_content, tsys_of_content_from, ops_of_types. cbv zeta. rewrite E2. cbn [bind]. rewrite E1. reflexivity.
  - exact (inv_wf _ _ I2).
  - apply Inv_views; [exact I2|]. intros s Hs. apply Hl. exact Hs.
Qed.

(* for ANY content the replay ends in a type system satisfying the invariant of C10/C11 (refused calls change nothing) *)
Theorem embed_WF l : WF (fst (run_ts (ops_of_types l) init_ts_nodoc)).
Proof. apply (run_WF (ops_of_types l)). exact init_nodoc_WF. Qed.

Lemma chain_of_decls c : forall seen, chain_okb seen c = chain_stb seen (map stype_of_decl c).
Proof. induction c as [|t r IH]; intros seen; cbn [chain_okb chain_stb map]; [reflexivity|]. rewrite IH. reflexivity. Qed.

Lemma loaded_content_wf d order : wf_descrb d = true -> named_descrb d = true -> order_okb order d = true ->
  wf_contentb (s_types (state_of order d)) = true.
Proof.
  intros Hwf Hn Hord. pose proof (load_preserves_wf_state d order Hwf Hn Hord) as Hs.
  unfold wf_tsb in Hs. rewrite !andb_true_iff in Hs. destruct Hs as [[[[[H1 H2] H3] _] _] _].
  unfold wf_contentb. rewrite H1, H2, H3. cbn [andb].
  cbn [state_of s_types]. rewrite spec_types_sel, <- chain_of_decls.
  destruct (wf_descr_parts d Hwf) as [_ [Hall _]]. unfold order_okb in Hord. apply andb_true_iff in Hord. destruct Hord as [Htopo _].
  apply sel_chain; [apply resolve_of_wf; exact Hall|exact Htopo].
Qed.

(* type systems loaded from XML satisfy the invariant of the hierarchy model, and are what the descriptor-level model says *)
Theorem loaded_WF d order s : wf_descrb d = true -> named_descrb d = true -> order_okb order d = true ->
  ts_of_descr order d = Ok s ->
  exists ts, tsys_of_content (s_types s) = Ok ts /\ WFh ts /\ WF ts /\
             user_view ts = s_types s /\ builtin_view ts = builtin_view init_ts_nodoc.
Proof.
  intros Hwf Hn Hord Hl. rewrite (load_wf d order Hwf Hord) in Hl. injection Hl as <-.
  destruct (embed_ok _ (loaded_content_wf d order Hwf Hn Hord)) as [ts [H1 [H2 [H3 H4]]]].
  exists ts. split; [exact H1|]. split; [exact (proj1 H2)|]. split; [exact H2|]. split; assumption.
Qed.

(* e.g. the three "is an ancestor" queries of C10 agree on every type system loaded from a well-formed descriptor *)
Corollary loaded_queries_agree d order s : wf_descrb d = true -> named_descrb d = true -> order_okb order d = true ->
  ts_of_descr order d = Ok s ->
  exists ts, tsys_of_content (s_types s) = Ok ts /\
    forall a p, In a ts -> In p ts -> t_name p <> "" ->
    exists r, is_instance_of ts (t_name a) (t_name p) = Ok r /\ ts_subsumes ts (t_name p) (t_name a) = Ok r /\ subsumes_ty ts p a = Ok r.
Proof.
  intros Hwf Hn Hord Hl. destruct (loaded_WF d order s Hwf Hn Hord Hl) as [ts [H1 [W _]]]. exists ts. split; [exact H1|].
  intros a p Ha Hp Hne. apply is_instance_of_agrees_with_subsumes; assumption.
Qed.
