(* ViewsProofs.v — theorems about the view / handle / sofa model of Views.v (property C08). *)
From Cassis Require Import Base Views.
From Coq Require Import ZifyBool.
Open Scope Z_scope.

(* ================================================================ generic list lemmas *)

Lemma upd_nth_length {A} n (f : A -> A) l : List.length (upd_nth n f l) = List.length l.
Proof. revert n. induction l as [|x r IH]; intros [|n]; cbn [upd_nth List.length]; auto. Qed.

Lemma nth_upd_same {A} n (f : A -> A) l x : nth_error l n = Some x -> nth_error (upd_nth n f l) n = Some (f x).
Proof.
  revert n. induction l as [|y r IH]; intros [|n]; cbn [upd_nth nth_error]; try discriminate.
  - intros H. injection H as <-. reflexivity.
  - apply IH.
Qed.

Lemma nth_upd_other {A} n m (f : A -> A) l : n <> m -> nth_error (upd_nth n f l) m = nth_error l m.
Proof.
  revert n m. induction l as [|y r IH]; intros [|n] [|m] H; cbn [upd_nth nth_error]; auto.
  - contradiction.
Qed.

Lemma akeys_amap {V} k (f : V -> V) l : akeys (amap k f l) = akeys l.
Proof.
  unfold akeys. induction l as [|[k' v] r IH]; cbn [amap map]; [reflexivity|].
  destruct (String.eqb k k'); cbn [map fst]; [reflexivity|rewrite IH; reflexivity].
Qed.

Lemma alookup_amap_same {V} k (f : V -> V) l v : alookup k l = Some v -> alookup k (amap k f l) = Some (f v).
Proof.
  induction l as [|[k' v'] r IH]; cbn [amap alookup]; [discriminate|].
  destruct (String.eqb k k') eqn:E; cbn [alookup]; rewrite E; [intros H; injection H as <-; reflexivity|exact IH].
Qed.

Lemma alookup_amap_other {V} k k' (f : V -> V) l : k' <> k -> alookup k' (amap k f l) = alookup k' l.
Proof.
  intros Hne. induction l as [|[k2 v2] r IH]; cbn [amap alookup]; [reflexivity|].
  destruct (String.eqb k k2) eqn:E; cbn [alookup].
  - apply String.eqb_eq in E. subst k2.
    destruct (String.eqb k' k) eqn:E2; [apply String.eqb_eq in E2; contradiction|reflexivity].
  - rewrite IH. reflexivity.
Qed.

Lemma alookup_memb {V} k (l : list (string * V)) : memb k (akeys l) = true <-> exists v, alookup k l = Some v.
Proof.
  unfold akeys. induction l as [|[k' v'] r IH]; cbn [map fst memb alookup].
  - split; [discriminate|intros [v H]; discriminate].
  - destruct (String.eqb k k'); cbn [orb]; [split; [intros _; eexists; reflexivity|reflexivity]|exact IH].
Qed.

Lemma alookup_app_new {V} k k' (v : V) l :
  alookup k' (l ++ [(k, v)]) = match alookup k' l with Some x => Some x | None => if String.eqb k' k then Some v else None end.
Proof.
  induction l as [|[k2 v2] r IH]; cbn [app alookup]; [reflexivity|].
  destruct (String.eqb k' k2); [reflexivity|exact IH].
Qed.

Lemma memb_app s a b : memb s (a ++ b) = memb s a || memb s b.
Proof. induction a as [|x r IH]; cbn [app memb]; [reflexivity|]. rewrite IH, orb_assoc. reflexivity. Qed.

Lemma hget_hput_same o fs h : hget o (hput o fs h) = Some fs.
Proof.
  induction h as [|[o' fs'] r IH]; cbn [hget hput]; [rewrite N.eqb_refl; reflexivity|].
  destruct (N.eqb o o') eqn:E; cbn [hget]; rewrite E; [reflexivity|exact IH].
Qed.

Lemma hget_hput_other o o' fs h : o' <> o -> hget o' (hput o fs h) = hget o' h.
Proof.
  intros Hne. induction h as [|[o2 fs2] r IH]; cbn [hget hput].
  - destruct (N.eqb o' o) eqn:E; [apply N.eqb_eq in E; contradiction|reflexivity].
  - destruct (N.eqb o o2) eqn:E; cbn [hget].
    + apply N.eqb_eq in E. subst o2. destruct (N.eqb o' o) eqn:E2; [apply N.eqb_eq in E2; contradiction|reflexivity].
    + rewrite IH. reflexivity.
Qed.

(* ================================================================ Python slicing *)

Lemma norm_idx_range n i : 0 <= n -> 0 <= norm_idx n i <= n.
Proof. unfold norm_idx. intros. destruct (i <? 0) eqn:E; lia. Qed.

Lemma norm_idx_id n i : 0 <= i <= n -> norm_idx n i = i.
Proof. unfold norm_idx. intros. destruct (i <? 0) eqn:E; lia. Qed.

(* in range, s[b:e] is the e-b elements after the first b *)
Theorem pyslice_in_range {A} (l : list A) b e :
  0 <= b -> b <= e -> e <= Z.of_nat (List.length l) ->
  pyslice (Some b) (Some e) l = firstn (Z.to_nat (e - b)) (skipn (Z.to_nat b) l).
Proof.
  intros. unfold pyslice, slice_bounds. rewrite !norm_idx_id by lia. reflexivity.
Qed.

(* out of range offsets are clamped as Python does: negative counts from the end, then into [0, len] *)
Theorem pyslice_clamp {A} (l : list A) b e :
  let n := Z.of_nat (List.length l) in
  let '(b', e') := slice_bounds n b e in
  0 <= b' <= n /\ 0 <= e' <= n /\ pyslice b e l = pyslice (Some b') (Some e') l.
Proof.
  cbv zeta. unfold pyslice.
  destruct (slice_bounds (Z.of_nat (List.length l)) b e) as [b' e'] eqn:E.
  unfold slice_bounds in E. injection E as <- <-.
  assert (Hn : 0 <= Z.of_nat (List.length l)) by lia.
  assert (Hb : 0 <= match b with Some i => norm_idx (Z.of_nat (List.length l)) i | None => 0 end <= Z.of_nat (List.length l)).
  { destruct b; [apply norm_idx_range; exact Hn|lia]. }
  assert (He : 0 <= match e with Some i => norm_idx (Z.of_nat (List.length l)) i | None => Z.of_nat (List.length l) end <= Z.of_nat (List.length l)).
  { destruct e; [apply norm_idx_range; exact Hn|lia]. }
  split; [exact Hb|]. split; [exact He|].
  unfold slice_bounds. rewrite !norm_idx_id by assumption. reflexivity.
Qed.

Theorem pyslice_length {A} (l : list A) b e :
  let '(b', e') := slice_bounds (Z.of_nat (List.length l)) b e in
  Z.of_nat (List.length (pyslice b e l)) = Z.max 0 (e' - b').
Proof.
  pose proof (pyslice_clamp l b e) as H. cbv zeta in H. unfold pyslice.
  destruct (slice_bounds (Z.of_nat (List.length l)) b e) as [b' e'].
  destruct H as (Hb & He & _).
  rewrite firstn_length, skipn_length. lia.
Qed.

(* the slice is a contiguous piece of the text starting at the clamped begin *)
Theorem pyslice_contiguous {A} (l : list A) b e :
  let '(b', e') := slice_bounds (Z.of_nat (List.length l)) b e in
  exists post, skipn (Z.to_nat b') l = pyslice b e l ++ post.
Proof.
  unfold pyslice. destruct (slice_bounds (Z.of_nat (List.length l)) b e) as [b' e'].
  exists (skipn (Z.to_nat (e' - b')) (skipn (Z.to_nat b') l)). symmetry. apply firstn_skipn.
Qed.

(* ================================================================ the two dicts, the views and the Sofa objects *)

Ltac split_wf H H1 H2 H3 H4 H5 :=
  cbn [wf_from] in H;
  apply andb_true_iff in H; destruct H as [H H5];
  apply andb_true_iff in H; destruct H as [H H4];
  apply andb_true_iff in H; destruct H as [H H3];
  apply andb_true_iff in H; destruct H as [H1 H2];
  apply String.eqb_eq in H1; apply Nat.eqb_eq in H2; apply Nat.eqb_eq in H3; apply String.eqb_eq in H4.

Lemma wf_from_app i views sofas sheap n x :
  s_name x = n -> wf_from i views sofas sheap = true ->
  wf_from i (views ++ [(n, mkView (i + List.length sheap) [])]) (sofas ++ [(n, (i + List.length sheap)%nat)]) (sheap ++ [x]) = true.
Proof.
  intros Hx. revert i sofas sheap.
  induction views as [|[n1 v1] vr IH]; intros i sofas sheap H.
  - destruct sofas; [|cbn in H; discriminate]. destruct sheap; [|cbn in H; discriminate].
    cbn [app wf_from v_sofa List.length]. rewrite Nat.add_0_r, String.eqb_refl, Nat.eqb_refl, Hx, String.eqb_refl. reflexivity.
  - destruct sofas as [|[n2 a2] sr]; [cbn in H; discriminate|]. destruct sheap as [|y yr]; [cbn in H; discriminate|].
    cbn [wf_from] in H. apply andb_true_iff in H. destruct H as [H1 H2].
    cbn [app wf_from]. rewrite H1. cbn [andb List.length].
    replace (i + S (List.length yr))%nat with (S i + List.length yr)%nat by lia. apply IH. exact H2.
Qed.

Lemma wf_from_amap i k f views sofas sheap :
  (forall v, v_sofa (f v) = v_sofa v) -> wf_from i views sofas sheap = true -> wf_from i (amap k f views) sofas sheap = true.
Proof.
  intros Hf. revert i sofas sheap. induction views as [|[n1 v1] vr IH]; intros i sofas sheap H; [exact H|].
  destruct sofas as [|[n2 a2] sr]; [cbn in H; discriminate|]. destruct sheap as [|y yr]; [cbn in H; discriminate|].
  cbn [wf_from] in H. apply andb_true_iff in H. destruct H as [H1 H2].
  cbn [amap]. destruct (String.eqb k n1); cbn [wf_from].
  - rewrite Hf, H1, H2. reflexivity.
  - rewrite H1. cbn [andb]. apply IH. exact H2.
Qed.

Lemma wf_from_upd i a f views sofas sheap :
  (forall x, s_name (f x) = s_name x) -> wf_from i views sofas sheap = true -> wf_from i views sofas (upd_nth a f sheap) = true.
Proof.
  intros Hf. revert i a sofas sheap. induction views as [|[n1 v1] vr IH]; intros i a sofas sheap H.
  - destruct sofas; [|cbn in H; discriminate]. destruct sheap; [|cbn in H; discriminate]. destruct a; exact H.
  - destruct sofas as [|[n2 a2] sr]; [cbn in H; discriminate|]. destruct sheap as [|y yr]; [cbn in H; discriminate|].
    cbn [wf_from] in H. apply andb_true_iff in H. destruct H as [H1 H2].
    destruct a as [|a]; cbn [upd_nth wf_from].
    + rewrite Hf, H1, H2. reflexivity.
    + rewrite H1. cbn [andb]. apply IH. exact H2.
Qed.

Lemma wf_from_lookup i views sofas sheap n v :
  wf_from i views sofas sheap = true -> alookup n views = Some v ->
  (i <= v_sofa v)%nat /\ alookup n sofas = Some (v_sofa v) /\
  exists x, nth_error sheap (v_sofa v - i) = Some x /\ s_name x = n.
Proof.
  revert i sofas sheap. induction views as [|[n1 v1] vr IH]; intros i sofas sheap H L; [discriminate|].
  destruct sofas as [|[n2 a2] sr]; [cbn in H; discriminate|]. destruct sheap as [|y yr]; [cbn in H; discriminate|].
  split_wf H H1 H2 H3 H4 H5. subst n2 a2.
  cbn [alookup] in *. destruct (String.eqb n n1) eqn:E.
  - injection L as <-. apply String.eqb_eq in E. rewrite H2, Nat.sub_diag. cbn [nth_error].
    split; [lia|]. split; [reflexivity|]. exists y. split; [reflexivity|]. rewrite E. exact H4.
  - destruct (IH _ _ _ H5 L) as (Hle & Hs & x & Hx & Hn).
    split; [lia|]. split; [exact Hs|]. exists x. split; [|exact Hn].
    replace (v_sofa v - i)%nat with (S (v_sofa v - S i))%nat by lia. exact Hx.
Qed.

Lemma wf_from_length i views sofas sheap :
  wf_from i views sofas sheap = true -> List.length views = List.length sheap /\ akeys views = akeys sofas.
Proof.
  unfold akeys. revert i sofas sheap. induction views as [|[n1 v1] vr IH]; intros i sofas sheap H.
  - destruct sofas; [|cbn in H; discriminate]. destruct sheap; [|cbn in H; discriminate]. split; reflexivity.
  - destruct sofas as [|[n2 a2] sr]; [cbn in H; discriminate|]. destruct sheap as [|y yr]; [cbn in H; discriminate|].
    split_wf H H1 H2 H3 H4 H5. subst n2. destruct (IH _ _ _ H5) as [Hl Hk]. cbn [List.length map fst]. rewrite Hl, Hk. split; reflexivity.
Qed.

(* what wf_store gives: a view's sofa is the object registered under the same name in _sofas, it exists, carries
   the view's name, and two different views never share a sofa *)
Theorem wf_store_view s n v :
  wf_store s = true -> alookup n (st_views s) = Some v ->
  alookup n (st_sofas s) = Some (v_sofa v) /\ exists x, nth_error (st_sheap s) (v_sofa v) = Some x /\ s_name x = n.
Proof.
  unfold wf_store. intros H L. apply andb_true_iff in H. destruct H as [H _].
  destruct (wf_from_lookup _ _ _ _ _ _ H L) as (_ & Hs & x & Hx & Hn). rewrite Nat.sub_0_r in Hx.
  split; [exact Hs|]. exists x. auto.
Qed.

Theorem wf_store_sofa_inj s n1 v1 n2 v2 :
  wf_store s = true -> alookup n1 (st_views s) = Some v1 -> alookup n2 (st_views s) = Some v2 ->
  v_sofa v1 = v_sofa v2 -> n1 = n2.
Proof.
  intros H L1 L2 E.
  destruct (wf_store_view _ _ _ H L1) as (_ & x1 & Hx1 & Hn1).
  destruct (wf_store_view _ _ _ H L2) as (_ & x2 & Hx2 & Hn2).
  rewrite E in Hx1. rewrite Hx1 in Hx2. injection Hx2 as <-. congruence.
Qed.

Lemma nodupb_NoDup l : nodupb l = true -> NoDup l.
Proof.
  induction l as [|x r IH]; cbn [nodupb]; intros H; [constructor|].
  apply andb_true_iff in H. destruct H as [H1 H2]. constructor; [|apply IH; exact H2].
  intros C. apply memb_In in C. rewrite C in H1. discriminate.
Qed.

Lemma nodupb_app_new l n : nodupb l = true -> memb n l = false -> nodupb (l ++ [n]) = true.
Proof.
  induction l as [|x r IH]; cbn [app nodupb memb]; intros H M; [reflexivity|].
  apply andb_true_iff in H. destruct H as [H1 H2]. apply orb_false_iff in M. destruct M as [M1 M2].
  rewrite memb_app. cbn [memb]. rewrite orb_false_r.
  apply negb_true_iff in H1. rewrite H1. rewrite String.eqb_sym in M1. rewrite M1. cbn [orb negb andb].
  apply IH; assumption.
Qed.

Theorem wf_store_names s :
  wf_store s = true ->
  NoDup (akeys (st_views s)) /\ akeys (st_views s) = akeys (st_sofas s) /\ List.length (st_views s) = List.length (st_sheap s).
Proof.
  unfold wf_store. intros H. apply andb_true_iff in H. destruct H as [H N].
  destruct (wf_from_length _ _ _ _ H). split; [apply nodupb_NoDup; exact N|]. split; assumption.
Qed.

(* ================================================================ the invariant of the shared store *)

Fixpoint desc (l : list Z) (bound : Z) : Prop :=
  match l with [] => True | x :: r => x < bound /\ desc r x end.

Lemma desc_weaken l b b' : desc l b -> b <= b' -> desc l b'.
Proof. destruct l as [|x r]; cbn [desc]; [auto|]. intros [H1 H2] Hb. split; [lia|exact H2]. Qed.

Lemma desc_below l b : desc l b -> Forall (fun x => x < b) l.
Proof.
  revert b. induction l as [|x r IH]; intros b H; [constructor|]. destruct H as [H1 H2].
  constructor; [exact H1|]. apply Forall_impl with (P := fun y => y < x); [intros; lia|apply IH; exact H2].
Qed.

Lemma desc_NoDup l b : desc l b -> NoDup l.
Proof.
  revert b. induction l as [|x r IH]; intros b H; [constructor|]. destruct H as [H1 H2].
  constructor; [|apply (IH x); exact H2].
  intros C. pose proof (desc_below _ _ H2) as F. rewrite Forall_forall in F. specialize (F x C). lia.
Qed.

Definition heap0_okb (heap : list (oid * fsobj)) : bool :=
  forallb (fun p => match f_sofa (snd p) with None => true | Some _ => false end) heap.

Lemma heap0_ok heap o fs : heap0_okb heap = true -> hget o heap = Some fs -> f_sofa fs = None.
Proof.
  unfold heap0_okb. induction heap as [|[o' fs'] r IH]; cbn [forallb hget snd]; [discriminate|].
  intros H. apply andb_true_iff in H. destruct H as [H1 H2].
  destruct (N.eqb o o'); [|apply IH; exact H2]. intros E. injection E as <-. destruct (f_sofa fs'); [discriminate|reflexivity].
Qed.

Record sinv (s : store) : Prop := mkSinv {
  si_wf : wf_store s = true;
  si_ids : desc (st_genlog s) (st_next_id s);
  si_sx : Forall (fun x => s_xid x < st_next_id s) (st_sheap s);      (* no sofa id will ever be generated *)
  si_nums : Forall (fun x => s_num x < st_next_sofa s) (st_sheap s);
  si_refs : forall o fs a, hget o (st_heap s) = Some fs -> f_sofa fs = Some a -> (a < List.length (st_sheap s))%nat;
  si_conv : Forall (fun x => forall t, s_text x = Some t -> s_conv x = Some t) (st_sheap s) }.

Lemma sinv_empty heap : heap0_okb heap = true -> sinv (empty_store heap).
Proof.
  intros H. constructor; cbn; auto.
  - intros o fs a Hg Hs. rewrite (heap0_ok _ _ _ H Hg) in Hs. discriminate.
Qed.

Lemma view_id_bounds xid s : st_next_id s <= view_next_id xid s /\ view_xid xid s < view_next_id xid s.
Proof. unfold view_next_id, view_xid. destruct xid as [k|]; [destruct (k >=? st_next_id s) eqn:E|]; lia. Qed.

Lemma view_num_bounds num s : st_next_sofa s <= view_next_sofa num s /\ view_num num s < view_next_sofa num s.
Proof. unfold view_next_sofa, view_num. destruct num as [k|]; [destruct (k >=? st_next_sofa s) eqn:E|]; lia. Qed.

Lemma sinv_add_view n xid num s : sinv s -> memb n (akeys (st_views s)) = false -> sinv (add_view n xid num s).
Proof.
  intros [Hwf Hids Hsx Hn Hrefs Hconv] Hnew. unfold add_view. constructor; cbn [st_views st_sofas st_sheap st_next_id st_next_sofa st_heap st_genlog].
  - unfold wf_store in *. cbn [st_views st_sofas st_sheap]. apply andb_true_iff in Hwf. destruct Hwf as [W N].
    apply andb_true_iff. split.
    + apply (wf_from_app 0 _ _ _ n); [reflexivity|exact W].
    + unfold akeys in *. rewrite map_app. cbn [map fst]. apply nodupb_app_new; assumption.
  - unfold view_genlog, view_next_id. destruct xid as [k|].
    + destruct (k >=? st_next_id s) eqn:E; [|exact Hids]. cbn [desc]. split; [lia|]. apply desc_weaken with (1 := Hids). lia.
    + cbn [desc]. split; [lia|exact Hids].
  - destruct (view_id_bounds xid s) as [B1 B2]. apply Forall_app. split.
    + apply Forall_impl with (2 := Hsx). intros x Hx. lia.
    + constructor; [cbn [s_xid]; exact B2|constructor].
  - destruct (view_num_bounds num s) as [B1 B2]. apply Forall_app. split.
    + apply Forall_impl with (2 := Hn). intros x Hx. lia.
    + constructor; [cbn [s_num]; exact B2|constructor].
  - intros o fs a Hg Hs. rewrite app_length. specialize (Hrefs _ _ _ Hg Hs). lia.
  - apply Forall_app. split; [exact Hconv|]. constructor; [|constructor]. cbn. intros t E. discriminate.
Qed.

Lemma sinv_upd_sofa s a f :
  sinv s ->
  (forall x, s_name (f x) = s_name x /\ s_xid (f x) = s_xid x /\ s_num (f x) = s_num x /\
             ((forall t, s_text x = Some t -> s_conv x = Some t) -> forall t, s_text (f x) = Some t -> s_conv (f x) = Some t)) ->
  sinv (upd_sofa s a f).
Proof.
  intros [Hwf Hids Hsx Hn Hrefs Hconv] Hf. unfold upd_sofa, with_sheap.
  constructor; cbn [st_views st_sofas st_sheap st_next_id st_next_sofa st_heap st_genlog]; auto.
  - unfold wf_store in *. cbn [st_views st_sofas st_sheap]. apply andb_true_iff in Hwf. destruct Hwf as [W N].
    rewrite N, andb_true_r. apply wf_from_upd; [intros x; apply Hf|exact W].
  - clear - Hsx Hf. revert a. induction (st_sheap s) as [|x r IH]; intros a; [destruct a; constructor|].
    inversion Hsx; subst. destruct a; cbn [upd_nth]; constructor; auto.
    destruct (Hf x) as (_ & -> & _). assumption.
  - clear - Hn Hf. revert a. induction (st_sheap s) as [|x r IH]; intros a; [destruct a; constructor|].
    inversion Hn; subst. destruct a; cbn [upd_nth]; constructor; auto.
    destruct (Hf x) as (_ & _ & -> & _). assumption.
  - intros o fs b Hg Hs. rewrite upd_nth_length. eapply Hrefs; eassumption.
  - clear - Hconv Hf. revert a. induction (st_sheap s) as [|x r IH]; intros a; [destruct a; constructor|].
    inversion Hconv; subst. destruct a; cbn [upd_nth]; constructor; auto.
    destruct (Hf x) as (_ & _ & _ & H). apply H. assumption.
Qed.

Lemma setters_ok :
  (forall v x, s_name (sofa_set_text v x) = s_name x /\ s_xid (sofa_set_text v x) = s_xid x /\ s_num (sofa_set_text v x) = s_num x /\
     ((forall t, s_text x = Some t -> s_conv x = Some t) -> forall t, s_text (sofa_set_text v x) = Some t -> s_conv (sofa_set_text v x) = Some t)) /\
  (forall v x, s_name (sofa_set_mime v x) = s_name x /\ s_xid (sofa_set_mime v x) = s_xid x /\ s_num (sofa_set_mime v x) = s_num x /\
     ((forall t, s_text x = Some t -> s_conv x = Some t) -> forall t, s_text (sofa_set_mime v x) = Some t -> s_conv (sofa_set_mime v x) = Some t)) /\
  (forall v x, s_name (sofa_set_uri v x) = s_name x /\ s_xid (sofa_set_uri v x) = s_xid x /\ s_num (sofa_set_uri v x) = s_num x /\
     ((forall t, s_text x = Some t -> s_conv x = Some t) -> forall t, s_text (sofa_set_uri v x) = Some t -> s_conv (sofa_set_uri v x) = Some t)) /\
  (forall v x, s_name (sofa_set_arr v x) = s_name x /\ s_xid (sofa_set_arr v x) = s_xid x /\ s_num (sofa_set_arr v x) = s_num x /\
     ((forall t, s_text x = Some t -> s_conv x = Some t) -> forall t, s_text (sofa_set_arr v x) = Some t -> s_conv (sofa_set_arr v x) = Some t)).
Proof.
  repeat split; cbn; auto.
  intros H t E. destruct v; [exact E|discriminate].
Qed.

(* ---------------------------------------------------------------- add / remove / document annotation *)

Definition added_fs (fs : fsobj) (id : Z) (a : nat) : fsobj :=
  mkFs (f_type fs) (f_has_sofa fs) (f_has_span fs) (Some id) (if f_has_sofa fs then Some a else f_sofa fs)
       (f_begin fs) (f_end fs) (f_lang fs).

Lemma add_fs_inv ts s h o keep s' :
  add_fs ts s h o keep = Ok s' ->
  exists fs v id,
    hget o (st_heap s) = Some fs /\ alookup (h_view h) (st_views s) = Some v /\
    (h_lenient h = true \/ memb (f_type fs) (ts_types ts) = true) /\
    st_views s' = amap (h_view h) (fun v => mkView (v_sofa v) (v_index v ++ [o])) (st_views s) /\
    st_sofas s' = st_sofas s /\ st_sheap s' = st_sheap s /\ st_next_sofa s' = st_next_sofa s /\
    st_next_auto s' = st_next_auto s /\
    st_heap s' = hput o (added_fs fs id (v_sofa v)) (st_heap s) /\
    ((keep = true /\ f_xid fs = Some id /\ st_genlog s' = st_genlog s /\
      st_next_id s' = (if id >=? st_next_id s then id + 1 else st_next_id s))
     \/ ((keep = false \/ f_xid fs = None) /\ id = st_next_id s /\ st_genlog s' = id :: st_genlog s /\ st_next_id s' = id + 1)).
Proof.
  unfold add_fs. destruct (hget o (st_heap s)) as [fs|] eqn:Hg; [|discriminate].
  destruct (alookup (h_view h) (st_views s)) as [v|] eqn:Hv; [|discriminate].
  destruct (negb (h_lenient h) && negb (memb (f_type fs) (ts_types ts))) eqn:Hc; [discriminate|].
  assert (Hok : h_lenient h = true \/ memb (f_type fs) (ts_types ts) = true).
  { apply andb_false_iff in Hc. destruct Hc as [Hc|Hc]; apply negb_false_iff in Hc; auto. }
  destruct keep; [destruct (f_xid fs) as [x|] eqn:Hx|].
  - intros E. injection E as <-. exists fs, v, x. repeat (split; [first [assumption|reflexivity]|]).
    unfold reserve_id. destruct (x >=? st_next_id s); cbn.
    + repeat (split; [reflexivity|]). left. repeat split; auto.
    + repeat (split; [reflexivity|]). left. repeat split; auto.
  - intros E. injection E as <-. exists fs, v, (st_next_id s). repeat (split; [first [assumption|reflexivity]|]). cbn.
    repeat (split; [reflexivity|]). right. repeat split; auto.
  - intros E. injection E as <-. exists fs, v, (st_next_id s). repeat (split; [first [assumption|reflexivity]|]). cbn.
    repeat (split; [reflexivity|]). right. repeat split; auto.
Qed.

Lemma wf_store_amap s s' k f :
  (forall v, v_sofa (f v) = v_sofa v) -> wf_store s = true ->
  st_views s' = amap k f (st_views s) -> st_sofas s' = st_sofas s -> st_sheap s' = st_sheap s -> wf_store s' = true.
Proof.
  unfold wf_store. intros Hf H -> -> ->. apply andb_true_iff in H. destruct H as [W N].
  rewrite akeys_amap, N, andb_true_r. apply wf_from_amap; assumption.
Qed.

Lemma sinv_add_fs ts s h o keep s' : sinv s -> add_fs ts s h o keep = Ok s' -> sinv s'.
Proof.
  intros [Hwf Hids Hsx Hn Hrefs Hconv] H.
  destruct (add_fs_inv _ _ _ _ _ _ H) as (fs & v & id & Hg & Hv & _ & Ev & Eso & Esh & Ens & _ & Eh & Eid).
  constructor.
  - apply (wf_store_amap s s' (h_view h) (fun v => mkView (v_sofa v) (v_index v ++ [o]))); auto.
  - destruct Eid as [(_ & _ & -> & ->)|(_ & -> & -> & ->)].
    + destruct (id >=? st_next_id s) eqn:E; [apply desc_weaken with (1 := Hids); lia|exact Hids].
    + cbn [desc]. split; [lia|exact Hids].
  - rewrite Esh. apply Forall_impl with (2 := Hsx). intros x Hx.
    destruct Eid as [(_ & _ & _ & ->)|(_ & -> & _ & ->)]; [destruct (id >=? st_next_id s) eqn:E; lia|lia].
  - rewrite Esh, Ens. exact Hn.
  - rewrite Esh, Eh. intros o' fs' a Hg' Hs'.
    destruct (N.eq_dec o' o) as [->|Hne].
    + rewrite hget_hput_same in Hg'. injection Hg' as <-. unfold added_fs in Hs'. cbn [f_sofa] in Hs'.
      destruct (f_has_sofa fs).
      * injection Hs' as <-. destruct (wf_store_view _ _ _ Hwf Hv) as (_ & x & Hx & _).
        apply nth_error_Some. rewrite Hx. discriminate.
      * eapply Hrefs; eassumption.
    + rewrite hget_hput_other in Hg' by exact Hne. eapply Hrefs; eassumption.
  - rewrite Esh. exact Hconv.
Qed.

Lemma remove_fs_inv s h o s' :
  remove_fs s h o = Ok s' ->
  exists v idx, alookup (h_view h) (st_views s) = Some v /\ remove1 o (v_index v) = Some idx /\
    s' = with_views s (amap (h_view h) (fun v => mkView (v_sofa v) idx) (st_views s)).
Proof.
  unfold remove_fs. destruct (alookup (h_view h) (st_views s)) as [v|] eqn:E1; [|discriminate].
  destruct (remove1 o (v_index v)) as [idx|] eqn:E2; [|discriminate]. intros E. injection E as <-. exists v, idx. auto.
Qed.

Lemma sinv_remove_fs s h o s' : sinv s -> remove_fs s h o = Ok s' -> sinv s'.
Proof.
  intros [Hwf Hids Hsx Hn Hrefs Hconv] H. destruct (remove_fs_inv _ _ _ _ H) as (v & idx & _ & _ & ->).
  constructor; cbn; auto. apply (wf_store_amap s _ (h_view h) (fun v => mkView (v_sofa v) idx)); auto.
Qed.

Lemma sinv_new_obj s d fs :
  sinv s -> f_sofa fs = None ->
  sinv (mkStore (st_views s) (st_sofas s) (st_sheap s) (st_next_id s) (st_next_sofa s) (hput d fs (st_heap s)) (N.succ d) (st_genlog s)).
Proof.
  intros [Hwf Hids Hsx Hn Hrefs Hconv] Hfs. constructor; cbn; auto.
  intros o fs' a Hg Hs. destruct (N.eq_dec o d) as [->|Hne].
  - rewrite hget_hput_same in Hg. injection Hg as <-. rewrite Hfs in Hs. discriminate.
  - rewrite hget_hput_other in Hg by exact Hne. eapply Hrefs; eassumption.
Qed.

Lemma get_docann_inv ts s h d s' :
  get_docann ts s h = Ok (d, s') ->
  (find_docann ts s h = Some d /\ s' = s) \/
  (find_docann ts s h = None /\ d = st_next_auto s /\
   add_fs ts (mkStore (st_views s) (st_sofas s) (st_sheap s) (st_next_id s) (st_next_sofa s)
                      (hput d new_docann (st_heap s)) (N.succ d) (st_genlog s)) h d true = Ok s').
Proof.
  unfold get_docann. destruct (find_docann ts s h) as [d0|].
  - intros E. injection E as <- <-. left. auto.
  - destruct (add_fs ts _ h (st_next_auto s) true) as [s2| |] eqn:E; try discriminate.
    intros E2. injection E2 as <- <-. right. auto.
Qed.

Lemma sinv_get_docann ts s h d s' : sinv s -> get_docann ts s h = Ok (d, s') -> sinv s'.
Proof.
  intros Hs H. destruct (get_docann_inv _ _ _ _ _ H) as [[_ ->]|(_ & -> & Ha)]; [exact Hs|].
  eapply sinv_add_fs; [|exact Ha]. apply sinv_new_obj; [exact Hs|reflexivity].
Qed.

Lemma sinv_set_lang s d v : sinv s -> sinv (set_lang s d v).
Proof.
  intros [Hwf Hids Hsx Hn Hrefs Hconv]. unfold set_lang. destruct (hget d (st_heap s)) as [fs|] eqn:Hg; [|constructor; auto].
  constructor; cbn; auto.
  intros o fs' a Hg' Hs. destruct (N.eq_dec o d) as [->|Hne].
  - rewrite hget_hput_same in Hg'. injection Hg' as <-. cbn in Hs. eapply Hrefs; eassumption.
  - rewrite hget_hput_other in Hg' by exact Hne. eapply Hrefs; eassumption.
Qed.

(* views are never removed or renamed: the key list only grows at the end *)
Lemma add_fs_keys ts s h o keep s' : add_fs ts s h o keep = Ok s' -> akeys (st_views s') = akeys (st_views s).
Proof.
  intros H. destruct (add_fs_inv _ _ _ _ _ _ H) as (fs & v & id & _ & _ & _ & -> & _). apply akeys_amap.
Qed.

Lemma get_docann_keys ts s h d s' : get_docann ts s h = Ok (d, s') -> akeys (st_views s') = akeys (st_views s).
Proof.
  intros H. destruct (get_docann_inv _ _ _ _ _ H) as [[_ ->]|(_ & _ & Ha)]; [reflexivity|].
  rewrite (add_fs_keys _ _ _ _ _ _ Ha). reflexivity.
Qed.

Lemma set_lang_views s d v : st_views (set_lang s d v) = st_views s /\ st_sheap (set_lang s d v) = st_sheap s.
Proof. unfold set_lang. destruct (hget d (st_heap s)); split; reflexivity. Qed.

(* ================================================================ the invariant over histories *)

Definition hinv (l : bool) (s : state) : Prop :=
  Forall (fun h => h_lenient h = l /\ memb (h_view h) (akeys (st_views (st s))) = true) (hs s).
Definition inv (l : bool) (s : state) : Prop := sinv (st s) /\ hinv l s.

Lemma hinv_same l s s' :
  hinv l s -> hs s' = hs s -> akeys (st_views (st s')) = akeys (st_views (st s)) -> hinv l s'.
Proof. unfold hinv. intros H -> ->. exact H. Qed.

Lemma akeys_app {V} (l : list (string * V)) k v : akeys (l ++ [(k, v)]) = akeys l ++ [k].
Proof. unfold akeys. rewrite map_app. reflexivity. Qed.

Lemma hinv_new_handle l s st' name hd :
  hinv l s -> h_lenient hd = l ->
  (forall k, memb k (akeys (st_views (st s))) = true -> memb k (akeys (st_views st')) = true) ->
  memb name (akeys (st_views st')) = true ->
  hinv l (mkState st' (hs s ++ [mkHandle name (h_lenient hd)])).
Proof.
  unfold hinv. intros H Hl Hk Hn. cbn [hs st]. apply Forall_app. split.
  - apply Forall_impl with (2 := H). intros h [H1 H2]. split; [exact H1|apply Hk; exact H2].
  - constructor; [|constructor]. cbn [h_lenient h_view]. split; assumption.
Qed.

Ltac same_state := match goal with |- inv _ (fst (?s, _)) => cbn [fst]; assumption end.

Lemma sofa_write_inv l s hd f :
  inv l s ->
  (forall x, s_name (f x) = s_name x /\ s_xid (f x) = s_xid x /\ s_num (f x) = s_num x /\
             ((forall t, s_text x = Some t -> s_conv x = Some t) -> forall t, s_text (f x) = Some t -> s_conv (f x) = Some t)) ->
  inv l (fst (sofa_write s hd f)).
Proof.
  intros [Hs Hh] Hf. unfold sofa_write. destruct (cur_sofa (st s) hd) as [a|]; cbn [fst]; [|split; assumption].
  split; [apply sinv_upd_sofa; assumption|]. apply hinv_same with (s := s); auto.
Qed.

Lemma sofa_read_state s hd f : fst (sofa_read s hd f) = s.
Proof. unfold sofa_read. destruct (cur_sofa (st s) hd); [destruct (nth_error _ _)|]; reflexivity. Qed.

Lemma step_h_inv ts l s hd o :
  inv l s -> h_lenient hd = l -> inv l (fst (step_h ts s hd o)).
Proof.
  intros Hi Hl. pose proof Hi as [Hs Hh]. destruct o; cbn [step_h].
  - (* create_view *)
    destruct (memb name (akeys (st_views (st s)))) eqn:M; [same_state|]. cbn [fst]. split.
    + cbn [st]. apply sinv_add_view; assumption.
    + apply hinv_new_handle; auto.
      * intros k Hk. unfold add_view. cbn [st_views]. rewrite akeys_app, memb_app, Hk. reflexivity.
      * unfold add_view. cbn [st_views]. rewrite akeys_app, memb_app. cbn [memb]. rewrite String.eqb_refl, orb_true_r. reflexivity.
  - (* get_view *)
    destruct (memb name (akeys (st_views (st s)))) eqn:M; [|same_state]. cbn [fst]. split; [exact Hs|].
    apply hinv_new_handle; auto.
  - (* add *)
    destruct (add_fs ts (st s) hd o keep) as [s'|e|] eqn:E; [|destruct e; same_state|same_state].
    cbn [fst]. split; [eapply sinv_add_fs; eassumption|].
    apply hinv_same with (s := s); auto. cbn [st]. eapply add_fs_keys; eassumption.
  - (* remove *)
    destruct (remove_fs (st s) hd o) as [s'|e|] eqn:E; [|destruct e; same_state|same_state].
    cbn [fst]. split; [eapply sinv_remove_fs; eassumption|].
    apply hinv_same with (s := s); auto. cbn [st].
    destruct (remove_fs_inv _ _ _ _ E) as (v & idx & _ & _ & ->). cbn. apply akeys_amap.
  - apply sofa_write_inv; [exact Hi|]. intros x. apply setters_ok.
  - apply sofa_write_inv; [exact Hi|]. intros x. apply setters_ok.
  - apply sofa_write_inv; [exact Hi|]. intros x. apply setters_ok.
  - apply sofa_write_inv; [exact Hi|]. intros x. apply setters_ok.
  - rewrite sofa_read_state. exact Hi.
  - rewrite sofa_read_state. exact Hi.
  - rewrite sofa_read_state. exact Hi.
  - rewrite sofa_read_state. exact Hi.
  - destruct (alookup (h_view hd) (st_views (st s))); same_state.
  - (* document_language getter *)
    destruct (get_docann ts (st s) hd) as [[d s']|e|] eqn:E; [|destruct e; same_state|same_state].
    cbn [fst]. split; [eapply sinv_get_docann; eassumption|].
    apply hinv_same with (s := s); auto. cbn [st]. eapply get_docann_keys; eassumption.
  - (* document_language setter *)
    destruct (get_docann ts (st s) hd) as [[d s']|e|] eqn:E; [|destruct e; same_state|same_state].
    cbn [fst]. split; [apply sinv_set_lang; eapply sinv_get_docann; eassumption|].
    apply hinv_same with (s := s); auto. cbn [st]. destruct (set_lang_views s' d v) as [-> _].
    eapply get_docann_keys; eassumption.
  - same_state.
Qed.

Lemma step_inv ts l s o : inv l s -> inv l (fst (step ts s o)).
Proof.
  intros Hi. unfold step. destruct (op_handle o) as [h|] eqn:Eo.
  - destruct (nth_error (hs s) h) as [hd|] eqn:Eh; [|exact Hi].
    apply step_h_inv; [exact Hi|]. destruct Hi as [_ Hh]. unfold hinv in Hh. rewrite Forall_forall in Hh.
    apply (Hh hd). eapply nth_error_In; eassumption.
  - destruct o; try discriminate. exact Hi.
Qed.

Lemma run_inv ts l ops : forall s, inv l s -> inv l (fst (run ts s ops)).
Proof.
  induction ops as [|o r IH]; intros s Hi; [exact Hi|].
  cbn [run]. destruct (step ts s o) as [s1 ob] eqn:E1. destruct (run ts s1 r) as [s2 obs] eqn:E2. cbn [fst].
  specialize (IH s1). rewrite E2 in IH. apply IH. pose proof (step_inv ts l s o Hi) as H. rewrite E1 in H. exact H.
Qed.

Lemma init0_inv l heap : heap0_okb heap = true -> inv l (init0 l heap).
Proof.
  intros H. unfold init0. split.
  - cbn [st]. apply sinv_add_view; [apply sinv_empty; exact H|reflexivity].
  - unfold hinv. cbn [hs]. constructor; [|constructor]. cbn. split; reflexivity.
Qed.

(* every state reached from a fresh CAS by any history *)
Definition reachable (ts : tsinfo) (l : bool) (heap : list (oid * fsobj)) (s : state) : Prop :=
  exists ops, s = fst (run ts (init0 l heap) ops).

Theorem reachable_inv ts l heap s : heap0_okb heap = true -> reachable ts l heap s -> inv l s.
Proof. intros H [ops ->]. apply run_inv, init0_inv, H. Qed.

Lemma run_app ts a b s : fst (run ts s (a ++ b)) = fst (run ts (fst (run ts s a)) b).
Proof.
  revert s. induction a as [|o r IH]; intros s; [reflexivity|].
  cbn [app run]. destruct (step ts s o) as [s1 ob]. specialize (IH s1).
  destruct (run ts s1 (r ++ b)) as [s2 obs2]. destruct (run ts s1 r) as [s3 obs3]. cbn [fst] in *. exact IH.
Qed.

Theorem reachable_step ts l heap s o : reachable ts l heap s -> reachable ts l heap (fst (step ts s o)).
Proof.
  intros [ops ->]. exists (ops ++ [o]). rewrite run_app. cbn [run].
  destruct (step ts (fst (run ts (init0 l heap) ops)) o). reflexivity.
Qed.

Theorem init_reachable ts k heap : reachable ts (k_lenient k) heap (init ts k heap).
Proof. exists (ctor_ops k). reflexivity. Qed.

(* ================================================================ handles *)

Lemma handle_eq a b : h_view a = h_view b -> h_lenient a = h_lenient b -> a = b.
Proof. destruct a, b. cbn. intros -> ->. reflexivity. Qed.

(* two handles on one view name: every operation gives the same observation and the same state afterwards,
   whichever of the two it goes through *)
Theorem handles_equivalent ts l s i j a b o :
  inv l s -> nth_error (hs s) i = Some a -> nth_error (hs s) j = Some b -> h_view a = h_view b ->
  step ts s (retarget i o) = step ts s (retarget j o).
Proof.
  intros [_ Hh] Ha Hb Hv. unfold hinv in Hh. rewrite Forall_forall in Hh.
  assert (E : a = b).
  { apply handle_eq; [exact Hv|]. destruct (Hh a (nth_error_In _ _ Ha)) as [-> _].
    destruct (Hh b (nth_error_In _ _ Hb)) as [-> _]. reflexivity. }
  subst b. unfold step. destruct o; cbn [retarget op_handle]; try rewrite Ha, Hb; reflexivity.
Qed.

(* the same over whole histories: choosing, at every step, any handle of the same view *)
Inductive hequiv (ts : tsinfo) : state -> list op -> list op -> Prop :=
| he_nil : forall s, hequiv ts s [] []
| he_cons : forall s o i j a b r1 r2,
    nth_error (hs s) i = Some a -> nth_error (hs s) j = Some b -> h_view a = h_view b ->
    hequiv ts (fst (step ts s (retarget i o))) r1 r2 ->
    hequiv ts s (retarget i o :: r1) (retarget j o :: r2).

Theorem handles_equivalent_run ts l s ops1 ops2 :
  inv l s -> hequiv ts s ops1 ops2 -> run ts s ops1 = run ts s ops2.
Proof.
  intros Hi H. induction H as [s|s o i j a b r1 r2 Ha Hb Hv Hr IH]; [reflexivity|].
  cbn [run]. rewrite <- (handles_equivalent ts l s i j a b o Hi Ha Hb Hv).
  pose proof (step_inv ts l s (retarget i o) Hi) as Hi'.
  destruct (step ts s (retarget i o)) as [s1 ob]. cbn [fst] in *. rewrite (IH Hi'). reflexivity.
Qed.

(* every handle derived from a CAS has its leniency, and names an existing view *)
Theorem lenient_inherited ts l heap s h hd :
  heap0_okb heap = true -> reachable ts l heap s -> nth_error (hs s) h = Some hd ->
  h_lenient hd = l /\ exists v, alookup (h_view hd) (st_views (st s)) = Some v.
Proof.
  intros H0 Hr Hh. destruct (reachable_inv _ _ _ _ H0 Hr) as [_ Hf]. unfold hinv in Hf. rewrite Forall_forall in Hf.
  destruct (Hf hd (nth_error_In _ _ Hh)) as [Hl Hm]. split; [exact Hl|]. apply alookup_memb. exact Hm.
Qed.

(* a new handle is what _copy makes: the named view, the leniency of the handle it was obtained from *)
Theorem new_handle_copies ts s h hd name xid num s' n :
  nth_error (hs s) h = Some hd ->
  (step ts s (OCreateView h name xid num) = (s', ObHandle n) \/ step ts s (OGetView h name) = (s', ObHandle n)) ->
  n = List.length (hs s) /\ hs s' = hs s ++ [mkHandle name (h_lenient hd)].
Proof.
  intros Hh. unfold step. cbn [op_handle]. rewrite Hh. cbn [step_h].
  destruct (memb name (akeys (st_views (st s)))); intros [E|E]; try discriminate; injection E as <- <-; auto.
Qed.

(* one sofa per view *)
Theorem one_sofa_per_view ts l heap s :
  heap0_okb heap = true -> reachable ts l heap s -> wf_store (st s) = true.
Proof. intros H0 Hr. destruct (reachable_inv _ _ _ _ H0 Hr) as [[H _ _ _ _ _] _]. exact H. Qed.

(* the offset converter of every sofa that has a text was built from that text *)
Theorem conv_in_sync ts l heap s a x t :
  heap0_okb heap = true -> reachable ts l heap s ->
  nth_error (st_sheap (st s)) a = Some x -> s_text x = Some t -> s_conv x = Some t.
Proof.
  intros H0 Hr Ha. destruct (reachable_inv _ _ _ _ H0 Hr) as [[_ _ _ _ _ Hc] _]. rewrite Forall_forall in Hc.
  apply Hc. eapply nth_error_In; eassumption.
Qed.

(* ================================================================ strict / lenient add *)

Theorem strict_add_refuses ts s h hd o fs keep :
  nth_error (hs s) h = Some hd -> h_lenient hd = false ->
  hget o (st_heap (st s)) = Some fs -> memb (f_type fs) (ts_types ts) = false ->
  (exists v, alookup (h_view hd) (st_views (st s)) = Some v) ->
  step ts s (OAdd h o keep) = (s, ObErr ERuntime).
Proof.
  intros Hh Hl Hg Hm [v Hv]. unfold step. cbn [op_handle]. rewrite Hh. cbn [step_h]. unfold add_fs.
  rewrite Hg, Hv, Hl, Hm. reflexivity.
Qed.

Theorem lenient_add_accepts ts s h hd o fs keep :
  nth_error (hs s) h = Some hd -> (h_lenient hd = true \/ memb (f_type fs) (ts_types ts) = true) ->
  hget o (st_heap (st s)) = Some fs ->
  (exists v, alookup (h_view hd) (st_views (st s)) = Some v) ->
  exists s', step ts s (OAdd h o keep) = (s', ObUnit) /\
             view_index (st s') (h_view hd) = view_index (st s) (h_view hd) ++ [o].
Proof.
  intros Hh Hl Hg [v Hv]. unfold step. cbn [op_handle]. rewrite Hh. cbn [step_h].
  destruct (add_fs ts (st s) hd o keep) as [s'|e|] eqn:E.
  - eexists. split; [reflexivity|]. cbn [st].
    destruct (add_fs_inv _ _ _ _ _ _ E) as (fs' & v' & id & _ & Hv' & _ & Ev & _).
    unfold view_index. rewrite Ev, (alookup_amap_same _ _ _ _ Hv'), Hv'. reflexivity.
  - exfalso. unfold add_fs in E. rewrite Hg, Hv in E.
    assert (C : negb (h_lenient hd) && negb (memb (f_type fs) (ts_types ts)) = false).
    { destruct Hl as [-> | ->]; [reflexivity|apply andb_false_r]. }
    rewrite C in E. destruct keep; [destruct (f_xid fs)|]; discriminate.
  - exfalso. unfold add_fs in E. rewrite Hg, Hv in E.
    destruct (negb (h_lenient hd) && negb (memb (f_type fs) (ts_types ts))); [discriminate|].
    destruct keep; [destruct (f_xid fs)|]; discriminate.
Qed.

(* ================================================================ what one step changes *)

Lemma view_sofa_amap s s' k f name :
  st_views s' = amap k f (st_views s) -> (forall v, v_sofa (f v) = v_sofa v) -> st_sheap s' = st_sheap s ->
  view_sofa s' name = view_sofa s name.
Proof.
  intros Ev Hf Es. unfold view_sofa. rewrite Ev, Es.
  destruct (String.eqb name k) eqn:E.
  - apply String.eqb_eq in E. subst k. destruct (alookup name (st_views s)) as [v|] eqn:L.
    + rewrite (alookup_amap_same _ _ _ _ L), Hf. reflexivity.
    + assert (N : alookup name (amap name f (st_views s)) = None).
      { clear - L. induction (st_views s) as [|[k v] r IH]; cbn [amap alookup] in *; [reflexivity|].
        destruct (String.eqb name k) eqn:E; [discriminate|]. cbn [alookup]. rewrite E. apply IH. exact L. }
      rewrite N. reflexivity.
  - rewrite alookup_amap_other; [reflexivity|]. intros C. subst k. rewrite String.eqb_refl in E. discriminate.
Qed.

Lemma view_index_amap_other s s' k f name :
  st_views s' = amap k f (st_views s) -> name <> k -> view_index s' name = view_index s name.
Proof. intros Ev Hne. unfold view_index. rewrite Ev, alookup_amap_other by exact Hne. reflexivity. Qed.

Lemma get_docann_shape ts s h d s' :
  get_docann ts s h = Ok (d, s') ->
  st_sheap s' = st_sheap s /\ st_sofas s' = st_sofas s /\
  ((find_docann ts s h = Some d /\ s' = s) \/
   (find_docann ts s h = None /\ d = st_next_auto s /\ st_next_auto s' = N.succ d /\
    exists v id, alookup (h_view h) (st_views s) = Some v /\
      st_views s' = amap (h_view h) (fun v => mkView (v_sofa v) (v_index v ++ [d])) (st_views s) /\
      st_heap s' = hput d (added_fs new_docann id (v_sofa v)) (hput d new_docann (st_heap s)) /\
      id = st_next_id s /\ st_genlog s' = id :: st_genlog s /\ st_next_id s' = id + 1)).
Proof.
  intros H. destruct (get_docann_inv _ _ _ _ _ H) as [[Hf ->]|(Hf & -> & Ha)].
  - split; [reflexivity|]. split; [reflexivity|]. left. auto.
  - destruct (add_fs_inv _ _ _ _ _ _ Ha) as (fs & v & id & Hg & Hv & _ & Ev & Eso & Esh & _ & Eau & Eh & Eid).
    cbn [st_views st_sofas st_sheap st_heap st_next_auto st_next_id st_genlog] in *.
    rewrite hget_hput_same in Hg. injection Hg as <-.
    split; [exact Esh|]. split; [exact Eso|]. right. split; [exact Hf|]. split; [reflexivity|]. split; [exact Eau|].
    exists v, id. split; [exact Hv|]. split; [exact Ev|]. split; [exact Eh|].
    destruct Eid as [(_ & C & _)|(_ & E1 & E2 & E3)]; [discriminate|auto].
Qed.

(* the sofa of a view after one step: the setter applied when the step is a sofa setter through a handle of
   that view, unchanged otherwise *)
Definition sofa_setter (o : op) : option (nat * (sofa -> sofa)) :=
  match o with
  | OSetText h v => Some (h, sofa_set_text v) | OSetMime h v => Some (h, sofa_set_mime v)
  | OSetUri h v => Some (h, sofa_set_uri v) | OSetArr h v => Some (h, sofa_set_arr v)
  | _ => None
  end.
Definition write_to (s : state) (o : op) (name : string) : option (sofa -> sofa) :=
  match sofa_setter o with
  | Some (h, f) =>
      match nth_error (hs s) h with
      | Some hd => if String.eqb (h_view hd) name then Some f else None
      | None => None
      end
  | None => None
  end.

Lemma sofa_write_view_sofa l s hd f name x :
  inv l s -> memb (h_view hd) (akeys (st_views (st s))) = true -> view_sofa (st s) name = Some x ->
  view_sofa (st (fst (sofa_write s hd f))) name = Some (if String.eqb (h_view hd) name then f x else x).
Proof.
  intros [[Hwf _ _ _ _ _] _] Hm Hx. unfold sofa_write, cur_sofa.
  apply alookup_memb in Hm. destruct Hm as [v Hv]. rewrite Hv. cbn [fst st].
  unfold view_sofa in *. unfold upd_sofa, with_sheap. cbn [st_views st_sheap].
  destruct (alookup name (st_views (st s))) as [w|] eqn:Hw; [|discriminate].
  destruct (String.eqb (h_view hd) name) eqn:E.
  - apply String.eqb_eq in E. rewrite E in Hv. rewrite Hv in Hw. injection Hw as <-.
    apply nth_upd_same. exact Hx.
  - rewrite nth_upd_other; [exact Hx|]. intros C.
    pose proof (wf_store_sofa_inj _ _ _ _ _ Hwf Hv Hw C) as N. rewrite N, String.eqb_refl in E. discriminate.
Qed.

Lemma step_view_sofa ts l s o name x :
  inv l s -> view_sofa (st s) name = Some x ->
  view_sofa (st (fst (step ts s o))) name = Some (match write_to s o name with Some f => f x | None => x end).
Proof.
  intros Hi Hx. pose proof Hi as [[Hwf _ _ _ _ _] Hh]. unfold step, write_to.
  destruct (op_handle o) as [h|] eqn:Eo; [|destruct o; try discriminate; exact Hx].
  destruct (nth_error (hs s) h) as [hd|] eqn:Eh.
  2:{ destruct o; cbn [op_handle] in Eo; try discriminate; injection Eo as ->; cbn [sofa_setter]; try rewrite Eh; exact Hx. }
  assert (Hm : memb (h_view hd) (akeys (st_views (st s))) = true).
  { unfold hinv in Hh. rewrite Forall_forall in Hh. apply (Hh hd). eapply nth_error_In; eassumption. }
  destruct o; cbn [op_handle] in Eo; try discriminate; injection Eo as ->; cbn [sofa_setter step_h]; try rewrite Eh.
  - (* create_view *)
    destruct (memb name0 (akeys (st_views (st s)))); cbn [fst st]; [exact Hx|].
    unfold view_sofa in *. unfold add_view. cbn [st_views st_sheap]. rewrite alookup_app_new.
    destruct (alookup name (st_views (st s))) as [w|]; [|discriminate].
    rewrite nth_error_app1; [exact Hx|]. apply nth_error_Some. rewrite Hx. discriminate.
  - destruct (memb name0 (akeys (st_views (st s)))); exact Hx.
  - destruct (add_fs ts (st s) hd o keep) as [s'|e|] eqn:E; [|destruct e; exact Hx|exact Hx]. cbn [fst st].
    destruct (add_fs_inv _ _ _ _ _ _ E) as (fs & v & id & _ & _ & _ & Ev & _ & Esh & _).
    rewrite (view_sofa_amap _ _ _ _ _ Ev (fun _ => eq_refl) Esh). exact Hx.
  - destruct (remove_fs (st s) hd o) as [s'|e|] eqn:E; [|destruct e; exact Hx|exact Hx]. cbn [fst st].
    destruct (remove_fs_inv _ _ _ _ E) as (v & idx & _ & _ & ->).
    rewrite (view_sofa_amap (st s) _ (h_view hd) (fun v => mkView (v_sofa v) idx)); auto.
  - rewrite (sofa_write_view_sofa l s hd _ name x Hi Hm Hx). destruct (String.eqb (h_view hd) name); reflexivity.
  - rewrite (sofa_write_view_sofa l s hd _ name x Hi Hm Hx). destruct (String.eqb (h_view hd) name); reflexivity.
  - rewrite (sofa_write_view_sofa l s hd _ name x Hi Hm Hx). destruct (String.eqb (h_view hd) name); reflexivity.
  - rewrite (sofa_write_view_sofa l s hd _ name x Hi Hm Hx). destruct (String.eqb (h_view hd) name); reflexivity.
  - rewrite sofa_read_state. exact Hx.
  - rewrite sofa_read_state. exact Hx.
  - rewrite sofa_read_state. exact Hx.
  - rewrite sofa_read_state. exact Hx.
  - destruct (alookup (h_view hd) (st_views (st s))); exact Hx.
  - destruct (get_docann ts (st s) hd) as [[d s']|e|] eqn:E; [|destruct e; exact Hx|exact Hx]. cbn [fst st].
    destruct (get_docann_shape _ _ _ _ _ E) as (Esh & _ & [[_ ->]|(_ & _ & _ & v & id & _ & Ev & _)]); [exact Hx|].
    rewrite (view_sofa_amap _ _ _ _ _ Ev (fun _ => eq_refl) Esh). exact Hx.
  - destruct (get_docann ts (st s) hd) as [[d s']|e|] eqn:E; [|destruct e; exact Hx|exact Hx]. cbn [fst st].
    unfold view_sofa. destruct (set_lang_views s' d v) as [-> ->]. fold (view_sofa s' name).
    destruct (get_docann_shape _ _ _ _ _ E) as (Esh & _ & [[_ ->]|(_ & _ & _ & v' & id & _ & Ev & _)]); [exact Hx|].
    rewrite (view_sofa_amap _ _ _ _ _ Ev (fun _ => eq_refl) Esh). exact Hx.
Qed.

(* over a history: the sofa of a view is the initial one with every write through any handle of that view
   applied in order — text, MIME type, URI and array read back as last written *)
Fixpoint apply_writes (ts : tsinfo) (s : state) (ops : list op) (name : string) (x : sofa) : sofa :=
  match ops with
  | [] => x
  | o :: r => apply_writes ts (fst (step ts s o)) r name (match write_to s o name with Some f => f x | None => x end)
  end.

Theorem sofa_is_last_written ts l ops : forall s name x,
  inv l s -> view_sofa (st s) name = Some x ->
  view_sofa (st (fst (run ts s ops))) name = Some (apply_writes ts s ops name x).
Proof.
  induction ops as [|o r IH]; intros s name x Hi Hx; [exact Hx|].
  cbn [run apply_writes].
  pose proof (step_inv ts l s o Hi) as Hi'. pose proof (step_view_sofa ts l s o name x Hi Hx) as Hx'.
  destruct (step ts s o) as [s1 ob]. cbn [fst] in *.
  specialize (IH s1 name _ Hi' Hx'). destruct (run ts s1 r) as [s2 obs]. exact IH.
Qed.

(* the immediate form: write through handle i, read through any handle j of the same view *)
Theorem sofa_read_your_writes ts l s i j a b :
  inv l s -> nth_error (hs s) i = Some a -> nth_error (hs s) j = Some b -> h_view a = h_view b ->
  (forall v, exists s', step ts s (OSetText i v) = (s', ObUnit) /\ step ts s' (OGetText j) = (s', ObText v)) /\
  (forall v, exists s', step ts s (OSetMime i v) = (s', ObUnit) /\ step ts s' (OGetMime j) = (s', ObStr v)) /\
  (forall v, exists s', step ts s (OSetUri i v) = (s', ObUnit) /\ step ts s' (OGetUri j) = (s', ObStr v)) /\
  (forall v, exists s', step ts s (OSetArr i v) = (s', ObUnit) /\ step ts s' (OGetArr j) = (s', ObArr v)).
Proof.
  intros Hi Ha Hb Hv. pose proof Hi as [[Hwf _ _ _ _ _] Hh].
  unfold hinv in Hh. rewrite Forall_forall in Hh.
  destruct (Hh a (nth_error_In _ _ Ha)) as [_ Hm]. apply alookup_memb in Hm. destruct Hm as [w Hw].
  destruct (wf_store_view _ _ _ Hwf Hw) as (_ & x & Hx & _).
  assert (G : forall f (g : sofa -> obs),
            sofa_write s a f = (mkState (upd_sofa (st s) (v_sofa w) f) (hs s), ObUnit) /\
            sofa_read (mkState (upd_sofa (st s) (v_sofa w) f) (hs s)) b g =
              (mkState (upd_sofa (st s) (v_sofa w) f) (hs s), g (f x))).
  { intros f g. unfold sofa_write, sofa_read, cur_sofa. cbn [st]. unfold upd_sofa at 3 4. unfold with_sheap. cbn [st_views st_sheap].
    rewrite <- Hv, Hw. split; [reflexivity|]. rewrite (nth_upd_same _ _ _ _ Hx). reflexivity. }
  unfold step. cbn [op_handle]. rewrite Ha. cbn [step_h].
  repeat split; intros v; eexists; (split; [apply (proj1 (G _ (fun _ => ObUnit)))|]); cbn [hs]; rewrite Hb; cbn [step_h];
    match goal with |- sofa_read _ _ ?g = _ => rewrite (proj2 (G _ g)) end; reflexivity.
Qed.

(* ================================================================ views are isolated *)

Definition op_view (s : state) (o : op) : option string :=
  match op_handle o with
  | Some h => match nth_error (hs s) h with Some hd => Some (h_view hd) | None => None end
  | None => None
  end.

(* an operation through a handle of one view never changes the index of another view *)
Theorem views_disjoint ts s o name :
  op_view s o <> Some name -> view_index (st (fst (step ts s o))) name = view_index (st s) name.
Proof.
  unfold op_view, step. destruct (op_handle o) as [h|] eqn:Eo; [|destruct o; try discriminate; reflexivity].
  destruct (nth_error (hs s) h) as [hd|]; [|reflexivity]. intros Hne.
  assert (Hn : name <> h_view hd) by (intros C; apply Hne; rewrite C; reflexivity).
  destruct o; cbn [step_h]; try rewrite sofa_read_state; try reflexivity.
  - destruct (memb name0 (akeys (st_views (st s)))); [reflexivity|]. cbn [fst st]. unfold view_index, add_view. cbn [st_views].
    rewrite alookup_app_new. destruct (alookup name (st_views (st s))); [reflexivity|].
    destruct (String.eqb name name0); reflexivity.
  - destruct (memb name0 (akeys (st_views (st s)))); reflexivity.
  - destruct (add_fs ts (st s) hd o keep) as [s'|e|] eqn:E; [|destruct e; reflexivity|reflexivity]. cbn [fst st].
    destruct (add_fs_inv _ _ _ _ _ _ E) as (fs & v & id & _ & _ & _ & Ev & _).
    apply (view_index_amap_other _ _ _ _ _ Ev Hn).
  - destruct (remove_fs (st s) hd o) as [s'|e|] eqn:E; [|destruct e; reflexivity|reflexivity]. cbn [fst st].
    destruct (remove_fs_inv _ _ _ _ E) as (v & idx & _ & _ & ->).
    apply (view_index_amap_other (st s) _ (h_view hd) (fun v => mkView (v_sofa v) idx)); [reflexivity|exact Hn].
  - unfold sofa_write. destruct (cur_sofa (st s) hd); reflexivity.
  - unfold sofa_write. destruct (cur_sofa (st s) hd); reflexivity.
  - unfold sofa_write. destruct (cur_sofa (st s) hd); reflexivity.
  - unfold sofa_write. destruct (cur_sofa (st s) hd); reflexivity.
  - destruct (alookup (h_view hd) (st_views (st s))); reflexivity.
  - destruct (get_docann ts (st s) hd) as [[d s']|e|] eqn:E; [|destruct e; reflexivity|reflexivity]. cbn [fst st].
    destruct (get_docann_shape _ _ _ _ _ E) as (_ & _ & [[_ ->]|(_ & _ & _ & v & id & _ & Ev & _)]); [reflexivity|].
    apply (view_index_amap_other _ _ _ _ _ Ev Hn).
  - destruct (get_docann ts (st s) hd) as [[d s']|e|] eqn:E; [|destruct e; reflexivity|reflexivity]. cbn [fst st].
    unfold view_index. destruct (set_lang_views s' d v) as [-> _]. fold (view_index s' name).
    destruct (get_docann_shape _ _ _ _ _ E) as (_ & _ & [[_ ->]|(_ & _ & _ & v' & id & _ & Ev & _)]); [reflexivity|].
    apply (view_index_amap_other _ _ _ _ _ Ev Hn).
Qed.

(* ... nor its sofa *)
Theorem views_disjoint_sofa ts l s o name x :
  inv l s -> op_view s o <> Some name -> view_sofa (st s) name = Some x ->
  view_sofa (st (fst (step ts s o))) name = Some x.
Proof.
  intros Hi Hne Hx. rewrite (step_view_sofa ts l s o name x Hi Hx). unfold write_to.
  destruct (sofa_setter o) as [[h f]|] eqn:Es; [|reflexivity].
  destruct (nth_error (hs s) h) as [hd|] eqn:Eh; [|reflexivity].
  destruct (String.eqb (h_view hd) name) eqn:E; [|reflexivity]. exfalso. apply Hne.
  apply String.eqb_eq in E. unfold op_view.
  destruct o; cbn [sofa_setter] in Es; try discriminate; injection Es as <- _; cbn [op_handle]; rewrite Eh, E; reflexivity.
Qed.

(* handles are only ever appended *)
Lemma step_hs ts s o : exists extra, hs (fst (step ts s o)) = hs s ++ extra.
Proof.
  assert (N : forall ob : obs, exists extra, hs (fst (s, ob)) = hs s ++ extra).
  { intros ob. exists []. rewrite app_nil_r. reflexivity. }
  unfold step. destruct (op_handle o) as [h|] eqn:Eo; [|destruct o; try discriminate; apply N].
  destruct (nth_error (hs s) h) as [hd|]; [|apply N].
  assert (W : forall f, exists extra, hs (fst (sofa_write s hd f)) = hs s ++ extra).
  { intros f. unfold sofa_write. destruct (cur_sofa (st s) hd); [|apply N]. cbn [fst hs]. exists []. rewrite app_nil_r. reflexivity. }
  assert (N0 : exists extra, hs s = hs s ++ extra) by (exists []; rewrite app_nil_r; reflexivity).
  destruct o; cbn [step_h]; try rewrite sofa_read_state; try apply W; try exact N0; try apply N.
  - destruct (memb name (akeys (st_views (st s)))); [apply N|cbn [fst hs]; eexists; reflexivity].
  - destruct (memb name (akeys (st_views (st s)))); [cbn [fst hs]; eexists; reflexivity|apply N].
  - destruct (add_fs ts (st s) hd o keep) as [s'|e|]; [|destruct e|]; try apply N. cbn [fst hs]. exists []. rewrite app_nil_r. reflexivity.
  - destruct (remove_fs (st s) hd o) as [s'|e|]; [|destruct e|]; try apply N. cbn [fst hs]. exists []. rewrite app_nil_r. reflexivity.
  - destruct (alookup (h_view hd) (st_views (st s))); apply N.
  - destruct (get_docann ts (st s) hd) as [[d s']|e|]; [|destruct e|]; try apply N. cbn [fst hs]. exists []. rewrite app_nil_r. reflexivity.
  - destruct (get_docann ts (st s) hd) as [[d s']|e|]; [|destruct e|]; try apply N. cbn [fst hs]. exists []. rewrite app_nil_r. reflexivity.
Qed.

(* so what select_all returns through a handle of another view is the same before and after *)
Theorem views_disjoint_select ts l s o j b :
  inv l s -> nth_error (hs s) j = Some b -> op_view s o <> Some (h_view b) ->
  snd (step ts (fst (step ts s o)) (OSelectAll j)) = snd (step ts s (OSelectAll j)).
Proof.
  intros Hinv Hb Hne. pose proof (views_disjoint ts s o (h_view b) Hne) as Hi.
  pose proof (step_inv ts l s o Hinv) as [_ Hh'].
  destruct (step_hs ts s o) as [extra He].
  assert (Hb' : nth_error (hs (fst (step ts s o))) j = Some b).
  { rewrite He, nth_error_app1; [exact Hb|]. apply nth_error_Some. rewrite Hb. discriminate. }
  unfold step at 1 3. cbn [op_handle]. rewrite Hb', Hb. cbn [step_h]. unfold view_index in Hi.
  destruct Hinv as [_ Hh]. unfold hinv in Hh, Hh'. rewrite Forall_forall in Hh, Hh'.
  destruct (Hh b (nth_error_In _ _ Hb)) as [_ M]. destruct (Hh' b (nth_error_In _ _ Hb')) as [_ M'].
  apply alookup_memb in M, M'. destruct M as [v2 E2]. destruct M' as [v1 E1].
  rewrite E1, E2 in *. cbn [snd]. rewrite Hi. reflexivity.
Qed.

(* ================================================================ one id space *)

(* what one step does to the generator and its log: whatever it logs is at or above the generator's value before
   the step, and the generator never goes back *)
Lemma set_lang_genlog s d v :
  st_genlog (set_lang s d v) = st_genlog s /\ st_next_id (set_lang s d v) = st_next_id s /\
  st_next_sofa (set_lang s d v) = st_next_sofa s.
Proof. unfold set_lang. destruct (hget d (st_heap s)); repeat split; reflexivity. Qed.

Definition log_grows (s s' : store) : Prop :=
  exists extra, st_genlog s' = extra ++ st_genlog s /\ Forall (fun i => st_next_id s <= i) extra /\
                st_next_id s <= st_next_id s'.

Lemma log_grows_refl s : log_grows s s.
Proof. exists []. split; [reflexivity|]. split; [constructor|lia]. Qed.

Lemma log_grows_trans a b c : log_grows a b -> log_grows b c -> log_grows a c.
Proof.
  intros (e1 & E1 & F1 & L1) (e2 & E2 & F2 & L2). exists (e2 ++ e1). split; [rewrite E2, E1, app_assoc; reflexivity|].
  split; [|lia]. apply Forall_app. split; [|exact F1]. apply Forall_impl with (2 := F2). intros i Hi. lia.
Qed.

Lemma add_fs_log ts s h o keep s' : add_fs ts s h o keep = Ok s' -> log_grows s s'.
Proof.
  intros H. destruct (add_fs_inv _ _ _ _ _ _ H) as (fs & v & id & _ & _ & _ & _ & _ & _ & _ & _ & _ & Eid).
  destruct Eid as [(_ & _ & Eg & En)|(_ & -> & Eg & En)].
  - exists []. split; [exact Eg|]. split; [constructor|]. rewrite En. destruct (id >=? st_next_id s) eqn:E; lia.
  - exists [st_next_id s]. split; [exact Eg|]. split; [constructor; [lia|constructor]|lia].
Qed.

Lemma get_docann_log ts s h d s' : get_docann ts s h = Ok (d, s') -> log_grows s s'.
Proof.
  intros H. destruct (get_docann_inv _ _ _ _ _ H) as [[_ ->]|(_ & _ & Ha)]; [apply log_grows_refl|].
  apply add_fs_log in Ha. exact Ha.
Qed.

Lemma add_view_log name xid num s : log_grows s (add_view name xid num s).
Proof.
  unfold log_grows, add_view. cbn [st_genlog st_next_id]. destruct (view_id_bounds xid s) as [B _].
  unfold view_genlog. destruct xid as [k|]; [destruct (k >=? st_next_id s) eqn:E|].
  - exists [k]. split; [reflexivity|]. split; [constructor; [lia|constructor]|exact B].
  - exists []. split; [reflexivity|]. split; [constructor|exact B].
  - exists [st_next_id s]. split; [reflexivity|]. split; [constructor; [lia|constructor]|exact B].
Qed.

Lemma step_log ts s o : log_grows (st s) (st (fst (step ts s o))).
Proof.
  pose proof (log_grows_refl (st s)) as Same.
  unfold step. destruct (op_handle o) as [h|] eqn:Eo; [|destruct o; try discriminate; exact Same].
  destruct (nth_error (hs s) h) as [hd|]; [|exact Same].
  destruct o; cbn [step_h]; try rewrite sofa_read_state; try exact Same.
  - destruct (memb name (akeys (st_views (st s)))); [exact Same|]. cbn [fst st]. apply add_view_log.
  - destruct (memb name (akeys (st_views (st s)))); exact Same.
  - destruct (add_fs ts (st s) hd o keep) as [s'|e|] eqn:E; [|destruct e; exact Same|exact Same]. cbn [fst st].
    eapply add_fs_log; eassumption.
  - destruct (remove_fs (st s) hd o) as [s'|e|] eqn:E; [|destruct e; exact Same|exact Same]. cbn [fst st].
    destruct (remove_fs_inv _ _ _ _ E) as (v & idx & _ & _ & ->). exact Same.
  - unfold sofa_write. destruct (cur_sofa (st s) hd); exact Same.
  - unfold sofa_write. destruct (cur_sofa (st s) hd); exact Same.
  - unfold sofa_write. destruct (cur_sofa (st s) hd); exact Same.
  - unfold sofa_write. destruct (cur_sofa (st s) hd); exact Same.
  - destruct (alookup (h_view hd) (st_views (st s))); exact Same.
  - destruct (get_docann ts (st s) hd) as [[d s']|e|] eqn:E; [|destruct e; exact Same|exact Same]. cbn [fst st].
    eapply get_docann_log; eassumption.
  - destruct (get_docann ts (st s) hd) as [[d s']|e|] eqn:E; [|destruct e; exact Same|exact Same]. cbn [fst st].
    apply get_docann_log in E. destruct E as (e & E1 & E2 & E3). destruct (set_lang_genlog s' d v) as (G1 & G2 & _).
    exists e. rewrite G1, G2. auto.
Qed.

Lemma run_log ts ops : forall s, log_grows (st s) (st (fst (run ts s ops))).
Proof.
  induction ops as [|o r IH]; intros s; [apply log_grows_refl|].
  cbn [run]. pose proof (step_log ts s o) as H1. destruct (step ts s o) as [s1 ob]. cbn [fst] in H1.
  specialize (IH s1). destruct (run ts s1 r) as [s2 obs]. cbn [fst] in *. eapply log_grows_trans; eassumption.
Qed.

(* all ids handed out by the xmi id generator, through whatever handle, for sofas and feature structures
   alike, are pairwise distinct and below the generator's next value; so is every sofa's id — also one that
   create_view was GIVEN (xmiID=k): the generator is moved past it, whatever handle the view was created through *)
Theorem shared_ids ts l heap s :
  heap0_okb heap = true -> reachable ts l heap s ->
  NoDup (st_genlog (st s)) /\ Forall (fun i => i < st_next_id (st s)) (st_genlog (st s)) /\
  Forall (fun x => s_xid x < st_next_id (st s)) (st_sheap (st s)).
Proof.
  intros H0 Hr. destruct (reachable_inv _ _ _ _ H0 Hr) as [[_ Hd Hsx _ _ _] _].
  split; [eapply desc_NoDup; exact Hd|]. split; [apply desc_below; exact Hd|exact Hsx].
Qed.

(* hence over ANY later history no id the generator hands out (or accepts as a free explicit sofa id) equals the
   id of a sofa that exists now *)
Theorem sofa_id_never_generated ts l s ops x :
  inv l s -> In x (st_sheap (st s)) ->
  exists extra, st_genlog (st (fst (run ts s ops))) = extra ++ st_genlog (st s) /\ ~ In (s_xid x) extra.
Proof.
  intros [[_ _ Hsx _ _ _] _] Hx. destruct (run_log ts ops s) as (extra & E & F & _). exists extra. split; [exact E|].
  intros C. rewrite Forall_forall in Hsx, F. specialize (Hsx _ Hx). specialize (F _ C). cbv beta in *. lia.
Qed.

(* an add that generates an id takes the generator's next value, which no sofa or structure was given before *)
Theorem generated_id_fresh ts l s h o s' :
  inv l s -> step ts s (OAdd h o false) = (s', ObUnit) ->
  let id := st_next_id (st s) in
  st_genlog (st s') = id :: st_genlog (st s) /\ ~ In id (st_genlog (st s)) /\
  (exists fs', hget o (st_heap (st s')) = Some fs' /\ f_xid fs' = Some id).
Proof.
  intros [[_ Hd _ _ _ _] _]. unfold step. cbn [op_handle]. destruct (nth_error (hs s) h) as [hd|]; [|discriminate].
  cbn [step_h]. destruct (add_fs ts (st s) hd o false) as [s1|e|] eqn:E; [|destruct e; discriminate|discriminate].
  intros E'. injection E' as <-. cbn [st]. cbv zeta.
  destruct (add_fs_inv _ _ _ _ _ _ E) as (fs & v & id & _ & _ & _ & _ & _ & _ & _ & _ & Eh & Eid).
  destruct Eid as [(C & _)|(_ & -> & Eg & _)]; [discriminate|].
  split; [exact Eg|]. split.
  - intros C. pose proof (desc_below _ _ Hd) as F. rewrite Forall_forall in F. specialize (F _ C). lia.
  - eexists. rewrite Eh, hget_hput_same. split; reflexivity.
Qed.

(* ... and it is the id of no sofa, however that sofa got its id (generated, or given to create_view) — for every
   add that generates: keep_id off, or on for a structure that has no id yet *)
Theorem generated_id_no_sofa ts l s h o keep s' fs :
  inv l s -> step ts s (OAdd h o keep) = (s', ObUnit) -> hget o (st_heap (st s)) = Some fs ->
  keep = false \/ f_xid fs = None ->
  (exists fs', hget o (st_heap (st s')) = Some fs' /\ f_xid fs' = Some (st_next_id (st s))) /\
  Forall (fun x => s_xid x <> st_next_id (st s)) (st_sheap (st s')).
Proof.
  intros [[_ _ Hsx _ _ _] _]. unfold step. cbn [op_handle]. destruct (nth_error (hs s) h) as [hd|]; [|discriminate].
  cbn [step_h]. destruct (add_fs ts (st s) hd o keep) as [s1|e|] eqn:E; [|destruct e; discriminate|discriminate].
  intros E' Hg Hk. injection E' as <-. cbn [st].
  destruct (add_fs_inv _ _ _ _ _ _ E) as (fs0 & v & id & Hg0 & _ & _ & _ & _ & Esh & _ & _ & Eh & Eid).
  rewrite Hg in Hg0. injection Hg0 as <-. split.
  - eexists. rewrite Eh, hget_hput_same. split; [reflexivity|]. cbn [added_fs f_xid].
    destruct Eid as [(K1 & K2 & _)|(_ & -> & _)]; [|reflexivity].
    destruct Hk as [Hk|Hk]; [rewrite Hk in K1; discriminate|rewrite Hk in K2; discriminate].
  - rewrite Esh. apply Forall_impl with (2 := Hsx). intros x Hx. lia.
Qed.

(* a new view's sofa: the id and number create_view was given, else the next ones of the two shared generators; both
   generators end up past them, and the sofa starts empty under the view's name *)
Theorem create_view_explicit ts l s h name xid num s' n :
  inv l s -> step ts s (OCreateView h name xid num) = (s', ObHandle n) ->
  exists x, view_sofa (st s') name = Some x /\
            s_xid x = (match xid with Some k => k | None => st_next_id (st s) end) /\
            s_num x = (match num with Some k => k | None => st_next_sofa (st s) end) /\
            s_name x = name /\ s_text x = None /\
            s_xid x < st_next_id (st s') /\ s_num x < st_next_sofa (st s') /\
            st_next_id (st s) <= st_next_id (st s') /\ st_next_sofa (st s) <= st_next_sofa (st s') /\
            st_sheap (st s') = st_sheap (st s) ++ [x].
Proof.
  intros [[Hwf _ _ _ _ _] _]. unfold step. cbn [op_handle]. destruct (nth_error (hs s) h) as [hd|]; [|discriminate].
  cbn [step_h]. destruct (memb name (akeys (st_views (st s)))) eqn:M; [discriminate|].
  intros E. injection E as <- _. cbn [st]. unfold view_sofa, add_view. cbn [st_views st_sheap st_next_id st_next_sofa].
  rewrite alookup_app_new.
  assert (L : alookup name (st_views (st s)) = None).
  { destruct (alookup name (st_views (st s))) eqn:L; [|reflexivity].
    assert (C : memb name (akeys (st_views (st s))) = true) by (apply alookup_memb; eauto). rewrite C in M. discriminate. }
  rewrite L, String.eqb_refl. cbn [v_sofa]. rewrite nth_error_app2, Nat.sub_diag by lia. cbn [nth_error].
  destruct (view_id_bounds xid (st s)) as [B1 B2]. destruct (view_num_bounds num (st s)) as [B3 B4].
  eexists. split; [reflexivity|]. cbn [s_xid s_num s_name s_text]. repeat (split; [first [reflexivity|assumption]|]). reflexivity.
Qed.

(* without explicit numbers: the next id of the shared generator and the next sofa number, held by no other sofa *)
Theorem create_view_fresh ts l s h name s' n :
  inv l s -> step ts s (OCreateView h name None None) = (s', ObHandle n) ->
  exists x, view_sofa (st s') name = Some x /\ s_xid x = st_next_id (st s) /\ s_num x = st_next_sofa (st s) /\
            s_name x = name /\ s_text x = None /\
            (forall y, In y (st_sheap (st s)) -> s_xid y <> s_xid x /\ s_num y <> s_num x).
Proof.
  intros Hi H. destruct (create_view_explicit _ _ _ _ _ _ _ _ _ Hi H) as (x & H1 & H2 & H3 & H4 & H5 & _).
  exists x. repeat (split; [assumption|]). destruct Hi as [[_ _ Hsx Hn _ _] _]. rewrite Forall_forall in Hsx, Hn.
  intros y Hy. specialize (Hsx _ Hy). specialize (Hn _ Hy). cbv beta in *. lia.
Qed.

(* ---------------------------------------------------------------- histories whose explicit numbers are free *)

(* create_view(name, xmiID=k, sofaNum=m) is legal for any integers; a caller who passes a number that is already
   below the generator's next value may repeat one in use.  A history is `fresh` when every explicit number was at or
   above the generator's next value when it was passed (in particular every history without explicit numbers). *)
Definition fresh_op (s : state) (o : op) : bool :=
  match o with
  | OCreateView _ _ xid num =>
      match xid with Some k => k >=? st_next_id (st s) | None => true end &&
      match num with Some k => k >=? st_next_sofa (st s) | None => true end
  | _ => true
  end.
Fixpoint fresh_run (ts : tsinfo) (s : state) (ops : list op) : bool :=
  match ops with [] => true | o :: r => fresh_op s o && fresh_run ts (fst (step ts s o)) r end.
Definition reachable_fresh (ts : tsinfo) (l : bool) (heap : list (oid * fsobj)) (s : state) : Prop :=
  exists ops, fresh_run ts (init0 l heap) ops = true /\ s = fst (run ts (init0 l heap) ops).

Definition no_explicit (o : op) : bool :=
  match o with OCreateView _ _ None None => true | OCreateView _ _ _ _ => false | _ => true end.

Lemma no_explicit_fresh ts ops : forall s, forallb no_explicit ops = true -> fresh_run ts s ops = true.
Proof.
  induction ops as [|o r IH]; intros s H; [reflexivity|]. cbn [forallb] in H. apply andb_true_iff in H. destruct H as [H1 H2].
  cbn [fresh_run]. rewrite (IH _ H2), andb_true_r. destruct o; try reflexivity. destruct xid, num; try discriminate. reflexivity.
Qed.

Lemma reachable_fresh_reachable ts l heap s : reachable_fresh ts l heap s -> reachable ts l heap s.
Proof. intros (ops & _ & E). exists ops. exact E. Qed.

(* every sofa id is in the log (generated, or accepted while free); sofa numbers are pairwise distinct *)
Definition pinv (s : store) : Prop :=
  Forall (fun x => In (s_xid x) (st_genlog s)) (st_sheap s) /\ NoDup (map s_num (st_sheap s)).

Lemma map_upd_nth {A B} (g : A -> B) (f : A -> A) n l : (forall x, g (f x) = g x) -> map g (upd_nth n f l) = map g l.
Proof.
  intros Hf. revert n. induction l as [|x r IH]; intros [|n]; cbn [upd_nth map]; try reflexivity.
  - rewrite Hf. reflexivity.
  - rewrite IH. reflexivity.
Qed.

Lemma NoDup_app_new {A} (l : list A) n : NoDup l -> ~ In n l -> NoDup (l ++ [n]).
Proof.
  induction l as [|x r IH]; cbn [app]; intros Hnd Hni.
  - constructor; [intros []|constructor].
  - inversion Hnd as [|? ? Hx Hr]; subst. constructor.
    + rewrite in_app_iff. intros [C|[C|[]]]; [contradiction|]. subst. apply Hni. left. reflexivity.
    + apply IH; [exact Hr|]. intros C. apply Hni. right. exact C.
Qed.

(* a step that is not a successful create_view leaves the ids and numbers of all sofas alone *)
Lemma step_sofa_frame ts s o :
  (forall h name xid num, o <> OCreateView h name xid num) ->
  map s_xid (st_sheap (st (fst (step ts s o)))) = map s_xid (st_sheap (st s)) /\
  map s_num (st_sheap (st (fst (step ts s o)))) = map s_num (st_sheap (st s)).
Proof.
  intros Hno. assert (Same : map s_xid (st_sheap (st s)) = map s_xid (st_sheap (st s)) /\
                             map s_num (st_sheap (st s)) = map s_num (st_sheap (st s))) by (split; reflexivity).
  unfold step. destruct (op_handle o) as [h|] eqn:Eo; [|destruct o; try discriminate; exact Same].
  destruct (nth_error (hs s) h) as [hd|]; [|exact Same].
  assert (W : forall f, (forall x, s_xid (f x) = s_xid x /\ s_num (f x) = s_num x) ->
              map s_xid (st_sheap (st (fst (sofa_write s hd f)))) = map s_xid (st_sheap (st s)) /\
              map s_num (st_sheap (st (fst (sofa_write s hd f)))) = map s_num (st_sheap (st s))).
  { intros f Hf. unfold sofa_write. destruct (cur_sofa (st s) hd) as [a|]; [|exact Same]. cbn [fst st]. unfold upd_sofa, with_sheap.
    cbn [st_sheap]. split; apply map_upd_nth; intros x; apply Hf. }
  destruct o; cbn [step_h]; try rewrite sofa_read_state; try exact Same.
  - exfalso. eapply Hno. reflexivity.
  - destruct (memb name (akeys (st_views (st s)))); exact Same.
  - destruct (add_fs ts (st s) hd o keep) as [s'|e|] eqn:E; [|destruct e; exact Same|exact Same]. cbn [fst st].
    destruct (add_fs_inv _ _ _ _ _ _ E) as (fs & v & id & _ & _ & _ & _ & _ & -> & _). exact Same.
  - destruct (remove_fs (st s) hd o) as [s'|e|] eqn:E; [|destruct e; exact Same|exact Same]. cbn [fst st].
    destruct (remove_fs_inv _ _ _ _ E) as (v & idx & _ & _ & ->). exact Same.
  - apply W. intros x. split; reflexivity.
  - apply W. intros x. split; reflexivity.
  - apply W. intros x. split; reflexivity.
  - apply W. intros x. split; reflexivity.
  - destruct (alookup (h_view hd) (st_views (st s))); exact Same.
  - destruct (get_docann ts (st s) hd) as [[d s']|e|] eqn:E; [|destruct e; exact Same|exact Same]. cbn [fst st].
    destruct (get_docann_shape _ _ _ _ _ E) as (-> & _). exact Same.
  - destruct (get_docann ts (st s) hd) as [[d s']|e|] eqn:E; [|destruct e; exact Same|exact Same]. cbn [fst st].
    destruct (set_lang_views s' d v) as [_ ->]. destruct (get_docann_shape _ _ _ _ _ E) as (-> & _). exact Same.
Qed.

Lemma Forall_map_iff {A B} (g : A -> B) (P : B -> Prop) l : Forall (fun x => P (g x)) l <-> Forall P (map g l).
Proof. rewrite !Forall_forall. split; [intros H y Hy; apply in_map_iff in Hy; destruct Hy as (x & <- & Hx); auto|intros H x Hx; apply H, in_map, Hx]. Qed.

Lemma pinv_step ts l s o : inv l s -> pinv (st s) -> fresh_op s o = true -> pinv (st (fst (step ts s o))).
Proof.
  intros Hi [P1 P2] Hf.
  assert (Frame : (forall h name xid num, o <> OCreateView h name xid num) -> pinv (st (fst (step ts s o)))).
  { intros Hno. destruct (step_sofa_frame ts s o Hno) as [F1 F2]. destruct (step_log ts s o) as (extra & E & _).
    split; [|rewrite F2; exact P2].
    apply (Forall_map_iff s_xid (fun i => In i (st_genlog (st (fst (step ts s o)))))). rewrite F1.
    apply (Forall_map_iff s_xid). apply Forall_impl with (2 := P1). intros x Hx. rewrite E. apply in_or_app. right. exact Hx. }
  destruct o; try (apply Frame; discriminate).
  unfold step. cbn [op_handle]. destruct (nth_error (hs s) h) as [hd|]; [|split; assumption].
  cbn [step_h]. destruct (memb name (akeys (st_views (st s)))); [split; assumption|]. cbn [fst st].
  cbn [fresh_op] in Hf. apply andb_true_iff in Hf. destruct Hf as [Fx Fn].
  destruct Hi as [[_ _ _ Hn _ _] _]. unfold add_view. split; cbn [st_sheap st_genlog].
  - apply Forall_app. split.
    + apply Forall_impl with (2 := P1). intros x Hx. unfold view_genlog.
      destruct xid as [k|]; [destruct (k >=? st_next_id (st s))|]; [right|idtac|right]; exact Hx.
    + constructor; [|constructor]. cbn [s_xid]. unfold view_xid, view_genlog. destruct xid as [k|]; [rewrite Fx|]; left; reflexivity.
  - rewrite map_app. cbn [map s_num]. apply NoDup_app_new; [exact P2|]. intros C. apply in_map_iff in C. destruct C as (y & Ey & Hy).
    rewrite Forall_forall in Hn. specialize (Hn _ Hy). cbv beta in Hn. unfold view_num in Ey. destruct num as [k|]; lia.
Qed.

Lemma pinv_run ts l ops : forall s, inv l s -> pinv (st s) -> fresh_run ts s ops = true -> pinv (st (fst (run ts s ops))).
Proof.
  induction ops as [|o r IH]; intros s Hi Hp Hf; [exact Hp|]. cbn [fresh_run] in Hf. apply andb_true_iff in Hf. destruct Hf as [F1 F2].
  cbn [run]. pose proof (step_inv ts l s o Hi) as Hi1. pose proof (pinv_step ts l s o Hi Hp F1) as Hp1.
  destruct (step ts s o) as [s1 ob]. cbn [fst] in *. specialize (IH s1 Hi1 Hp1 F2). destruct (run ts s1 r) as [s2 obs]. exact IH.
Qed.

Theorem reachable_fresh_pinv ts l heap s : heap0_okb heap = true -> reachable_fresh ts l heap s -> pinv (st s).
Proof.
  intros H0 (ops & Hf & ->). apply (pinv_run ts l); [apply init0_inv; exact H0| |exact Hf].
  unfold init0, add_view. cbn. split; [constructor; [left; reflexivity|constructor]|constructor; [intros []|constructor]].
Qed.

(* when every explicit number was free (e.g. none was passed): every sofa's id is one of the logged ids, which are
   pairwise distinct — so sofa ids are pairwise distinct and differ from every generated id *)
Theorem shared_ids_fresh ts l heap s :
  heap0_okb heap = true -> reachable_fresh ts l heap s ->
  NoDup (st_genlog (st s)) /\ Forall (fun i => i < st_next_id (st s)) (st_genlog (st s)) /\
  Forall (fun x => In (s_xid x) (st_genlog (st s))) (st_sheap (st s)).
Proof.
  intros H0 Hr. destruct (shared_ids ts l heap s H0 (reachable_fresh_reachable _ _ _ _ Hr)) as (A & B & _).
  destruct (reachable_fresh_pinv _ _ _ _ H0 Hr) as [P _]. auto.
Qed.

Theorem sofa_nums_distinct ts l heap s a b x y :
  heap0_okb heap = true -> reachable_fresh ts l heap s ->
  nth_error (st_sheap (st s)) a = Some x -> nth_error (st_sheap (st s)) b = Some y -> s_num x = s_num y -> a = b.
Proof.
  intros H0 Hr Ha Hb E. destruct (reachable_fresh_pinv _ _ _ _ H0 Hr) as [_ P].
  rewrite NoDup_nth_error in P. apply P.
  - rewrite map_length. apply nth_error_Some. rewrite Ha. discriminate.
  - rewrite !nth_error_map, Ha, Hb. cbn [option_map]. rewrite E. reflexivity.
Qed.

(* an explicit number below the generator's next value is taken as it is: two sofas can then carry one id *)
Theorem stale_explicit_id_repeats :
  exists ts heap ops x y, let s := fst (run ts (init0 false heap) ops) in
    nth_error (st_sheap (st s)) 0 = Some x /\ nth_error (st_sheap (st s)) 1 = Some y /\ s_xid x = s_xid y /\ s_num x = s_num y.
Proof.
  exists (mkTs [] []), [], [OCreateView 0 "v2" (Some 1) (Some 1)]. eexists. eexists. cbv zeta. vm_compute. repeat split.
Qed.

(* ================================================================ labels of structures created by the CAS *)

Definition ainv (s : store) : Prop :=
  (forall o fs, hget o (st_heap s) = Some fs -> (o < st_next_auto s)%N) /\
  (forall name o, In o (view_index s name) -> (o < st_next_auto s)%N).

Definition labels_okb (heap : list (oid * fsobj)) : bool := forallb (fun p => N.ltb (fst p) 1000) heap.

Lemma labels_ok heap o fs : labels_okb heap = true -> hget o heap = Some fs -> (o < 1000)%N.
Proof.
  unfold labels_okb. induction heap as [|[o' fs'] r IH]; cbn [forallb hget fst]; [discriminate|].
  intros H. apply andb_true_iff in H. destruct H as [H1 H2].
  destruct (N.eqb o o') eqn:E; [|apply IH; exact H2]. apply N.eqb_eq in E. subst o'. intros _. apply N.ltb_lt. exact H1.
Qed.

Lemma hget_hput_dom o fs h o' fs' : hget o' (hput o fs h) = Some fs' -> o' = o \/ hget o' h = Some fs'.
Proof.
  destruct (N.eq_dec o' o) as [->|Hne]; [left; reflexivity|]. rewrite hget_hput_other by exact Hne. right. assumption.
Qed.

Lemma remove1_In o l l' x : remove1 o l = Some l' -> In x l' -> In x l.
Proof.
  revert l'. induction l as [|y r IH]; cbn [remove1]; intros l' H Hx; [discriminate|].
  destruct (N.eqb o y); [injection H as <-; right; exact Hx|].
  destruct (remove1 o r) as [r'|]; [|discriminate]. injection H as <-.
  destruct Hx as [->|Hx]; [left; reflexivity|right; eapply IH; [reflexivity|exact Hx]].
Qed.

Lemma view_index_amap s s' k f name :
  st_views s' = amap k f (st_views s) ->
  view_index s' name = match alookup name (st_views s) with
                       | Some v => if String.eqb name k then v_index (f v) else v_index v
                       | None => [] end.
Proof.
  intros Ev. unfold view_index. rewrite Ev. destruct (String.eqb name k) eqn:E.
  - apply String.eqb_eq in E. subst k. destruct (alookup name (st_views s)) as [v|] eqn:L.
    + rewrite (alookup_amap_same _ _ _ _ L). reflexivity.
    + assert (N : alookup name (amap name f (st_views s)) = None).
      { clear - L. induction (st_views s) as [|[k v] r IH]; cbn [amap alookup] in *; [reflexivity|].
        destruct (String.eqb name k) eqn:E; [discriminate|]. cbn [alookup]. rewrite E. apply IH. exact L. }
      rewrite N. reflexivity.
  - rewrite alookup_amap_other; [destruct (alookup name (st_views s)); reflexivity|].
    intros C. subst k. rewrite String.eqb_refl in E. discriminate.
Qed.

Lemma ainv_add_fs ts s h o keep s' : ainv s -> add_fs ts s h o keep = Ok s' -> ainv s'.
Proof.
  intros [A1 A2] H.
  destruct (add_fs_inv _ _ _ _ _ _ H) as (fs & v & id & Hg & Hv & _ & Ev & _ & _ & _ & Eau & Eh & _).
  split.
  - intros o' fs' Hg'. rewrite Eau. rewrite Eh in Hg'. destruct (hget_hput_dom _ _ _ _ _ Hg') as [->|Hg2]; eauto.
  - intros name o' Hin. rewrite Eau. rewrite (view_index_amap _ _ _ _ name Ev) in Hin.
    destruct (alookup name (st_views s)) as [w|] eqn:L; [|contradiction].
    destruct (String.eqb name (h_view h)).
    + cbn [v_index] in Hin. apply in_app_or in Hin. destruct Hin as [Hin|[<-|[]]]; [|eauto].
      apply (A2 name). unfold view_index. rewrite L. exact Hin.
    + apply (A2 name). unfold view_index. rewrite L. exact Hin.
Qed.

Lemma ainv_step ts s o : ainv (st s) -> ainv (st (fst (step ts s o))).
Proof.
  intros Ha. pose proof Ha as [A1 A2]. unfold step. destruct (op_handle o) as [h|] eqn:Eo; [|destruct o; try discriminate; exact Ha].
  destruct (nth_error (hs s) h) as [hd|]; [|exact Ha].
  destruct o; cbn [step_h]; try rewrite sofa_read_state; try exact Ha.
  - destruct (memb name (akeys (st_views (st s)))); [exact Ha|]. cbn [fst st]. split; [exact A1|].
    intros nm o Hin. unfold view_index, add_view in Hin. cbn [st_views] in Hin. rewrite alookup_app_new in Hin.
    cbn [add_view st_next_auto]. apply (A2 nm). unfold view_index.
    destruct (alookup nm (st_views (st s))); [exact Hin|]. destruct (String.eqb nm name); contradiction.
  - destruct (memb name (akeys (st_views (st s)))); exact Ha.
  - destruct (add_fs ts (st s) hd o keep) as [s'|e|] eqn:E; [|destruct e; exact Ha|exact Ha]. cbn [fst st].
    eapply ainv_add_fs; eassumption.
  - destruct (remove_fs (st s) hd o) as [s'|e|] eqn:E; [|destruct e; exact Ha|exact Ha]. cbn [fst st].
    destruct (remove_fs_inv _ _ _ _ E) as (v & idx & Hv & Hr & ->). split; [exact A1|].
    intros nm o' Hin. cbn [with_views st_next_auto].
    rewrite (view_index_amap (st s) (with_views (st s) (amap (h_view hd) (fun v => mkView (v_sofa v) idx) (st_views (st s))))
               (h_view hd) (fun v => mkView (v_sofa v) idx) nm eq_refl) in Hin.
    destruct (alookup nm (st_views (st s))) as [w|] eqn:L; [|contradiction].
    destruct (String.eqb nm (h_view hd)) eqn:En.
    + apply String.eqb_eq in En. subst nm. rewrite Hv in L. injection L as <-. cbn [v_index] in Hin.
      apply (A2 (h_view hd)). unfold view_index. rewrite Hv. eapply remove1_In; eassumption.
    + apply (A2 nm). unfold view_index. rewrite L. exact Hin.
  - unfold sofa_write. destruct (cur_sofa (st s) hd); exact Ha.
  - unfold sofa_write. destruct (cur_sofa (st s) hd); exact Ha.
  - unfold sofa_write. destruct (cur_sofa (st s) hd); exact Ha.
  - unfold sofa_write. destruct (cur_sofa (st s) hd); exact Ha.
  - destruct (alookup (h_view hd) (st_views (st s))); exact Ha.
  - destruct (get_docann ts (st s) hd) as [[d s']|e|] eqn:E; [|destruct e; exact Ha|exact Ha]. cbn [fst st].
    destruct (get_docann_inv _ _ _ _ _ E) as [[_ ->]|(_ & -> & Hadd)]; [exact Ha|].
    eapply ainv_add_fs; [|exact Hadd]. split; cbn [st_heap st_next_auto st_views].
    + intros o' fs' Hg. destruct (hget_hput_dom _ _ _ _ _ Hg) as [->|Hg2]; [lia|]. specialize (A1 _ _ Hg2). lia.
    + intros nm o' Hin. specialize (A2 nm o' Hin). lia.
  - destruct (get_docann ts (st s) hd) as [[d s']|e|] eqn:E; [|destruct e; exact Ha|exact Ha]. cbn [fst st].
    assert (Ha' : ainv s').
    { destruct (get_docann_inv _ _ _ _ _ E) as [[_ ->]|(_ & -> & Hadd)]; [exact Ha|].
      eapply ainv_add_fs; [|exact Hadd]. split; cbn [st_heap st_next_auto st_views].
      + intros o' fs' Hg. destruct (hget_hput_dom _ _ _ _ _ Hg) as [->|Hg2]; [lia|]. specialize (A1 _ _ Hg2). lia.
      + intros nm o' Hin. specialize (A2 nm o' Hin). lia. }
    destruct Ha' as [B1 B2]. unfold set_lang. destruct (hget d (st_heap s')) as [fs|] eqn:Hg; [|split; assumption].
    split; cbn [with_heap st_heap st_next_auto].
    + intros o' fs' Hg'. destruct (hget_hput_dom _ _ _ _ _ Hg') as [->|Hg2]; eauto.
    + exact B2.
Qed.

Lemma ainv_run ts ops : forall s, ainv (st s) -> ainv (st (fst (run ts s ops))).
Proof.
  induction ops as [|o r IH]; intros s Ha; [exact Ha|].
  cbn [run]. pose proof (ainv_step ts s o Ha) as H1. destruct (step ts s o) as [s1 ob]. cbn [fst] in H1.
  specialize (IH s1 H1). destruct (run ts s1 r) as [s2 obs]. exact IH.
Qed.

Theorem reachable_ainv ts l heap s : labels_okb heap = true -> reachable ts l heap s -> ainv (st s).
Proof.
  intros H [ops ->]. apply ainv_run. unfold init0. cbn [st]. split; cbn [add_view empty_store st_heap st_next_auto st_views].
  - intros o fs Hg. pose proof (labels_ok _ _ _ H Hg). lia.
  - intros name o Hin. unfold view_index in Hin. cbn in Hin. destruct (String.eqb name "_InitialView"); contradiction.
Qed.

(* ================================================================ the document annotation *)

Definition view_docann (ts : tsinfo) (s : store) (name : string) : option oid :=
  find (is_family ts s) (view_index s name).

Lemma find_docann_view ts s hd : find_docann ts s hd = view_docann ts s (h_view hd).
Proof. unfold find_docann, view_docann, view_index. destruct (alookup (h_view hd) (st_views s)); reflexivity. Qed.

Lemma filter_nil_all {A} (p : A -> bool) l : (forall x, In x l -> p x = false) -> filter p l = [].
Proof.
  induction l as [|a r IH]; cbn [filter]; intros H; [reflexivity|].
  rewrite (H a (or_introl eq_refl)). apply IH. intros x Hx. apply H. right. exact Hx.
Qed.

Lemma find_app_none {A} (p : A -> bool) l1 l2 : find p l1 = None -> find p (l1 ++ l2) = find p l2.
Proof. induction l1 as [|a r IH]; cbn [app find]; [reflexivity|]. destruct (p a); [discriminate|exact IH]. Qed.

Lemma find_ext_in {A} (p q : A -> bool) l : (forall x, In x l -> p x = q x) -> find p l = find q l.
Proof.
  induction l as [|a r IH]; cbn [find]; intros H; [reflexivity|].
  rewrite (H a (or_introl eq_refl)). destruct (q a); [reflexivity|]. apply IH. intros x Hx. apply H. right. exact Hx.
Qed.

Lemma filter_ext_in' {A} (p q : A -> bool) l : (forall x, In x l -> p x = q x) -> filter p l = filter q l.
Proof.
  induction l as [|a r IH]; cbn [filter]; intros H; [reflexivity|].
  rewrite (H a (or_introl eq_refl)). rewrite IH; [reflexivity|]. intros x Hx. apply H. right. exact Hx.
Qed.

Lemma find_some_count {A} (p : A -> bool) l d : find p l = Some d -> List.length (filter p l) <> 0%nat.
Proof.
  intros H. apply find_some in H. destruct H as [Hin Hp].
  assert (Hf : In d (filter p l)) by (apply filter_In; auto).
  destruct (filter p l); [contradiction|discriminate].
Qed.

Lemma find_none_count {A} (p : A -> bool) l : find p l = None -> List.length (filter p l) = 0%nat.
Proof. intros H. rewrite filter_nil_all; [reflexivity|]. apply find_none. exact H. Qed.

Lemma is_family_set_lang ts s d v o : is_family ts (set_lang s d v) o = is_family ts s o.
Proof.
  unfold is_family, set_lang. destruct (hget d (st_heap s)) as [fs|] eqn:Hd; [|reflexivity].
  cbn [with_heap st_heap]. destruct (N.eq_dec o d) as [->|Hne].
  - rewrite hget_hput_same, Hd. reflexivity.
  - rewrite hget_hput_other by exact Hne. reflexivity.
Qed.

Lemma view_index_set_lang s d v name : view_index (set_lang s d v) name = view_index s name.
Proof. unfold view_index. destruct (set_lang_views s d v) as [-> _]. reflexivity. Qed.

Lemma docann_set_lang ts s d v name :
  view_docann ts (set_lang s d v) name = view_docann ts s name /\
  family_count ts (set_lang s d v) name = family_count ts s name.
Proof.
  unfold view_docann, family_count. rewrite view_index_set_lang. split.
  - apply find_ext_in. intros x _. apply is_family_set_lang.
  - f_equal. apply filter_ext_in'. intros x _. apply is_family_set_lang.
Qed.

(* creation: exactly one instance is added to this view's index, and it is the one found afterwards *)
Lemma docann_create ts s hd v :
  ainv s -> alookup (h_view hd) (st_views s) = Some v -> find_docann ts s hd = None ->
  (h_lenient hd = true \/ memb DOCANN (ts_types ts) = true) -> memb DOCANN (ts_family ts) = true ->
  exists s', get_docann ts s hd = Ok (st_next_auto s, s') /\
    family_count ts s (h_view hd) = 0%nat /\ family_count ts s' (h_view hd) = 1%nat /\
    view_docann ts s' (h_view hd) = Some (st_next_auto s).
Proof.
  intros [A1 A2] Hv Hf Hok Hfam. unfold get_docann. rewrite Hf.
  set (d := st_next_auto s).
  set (s1 := mkStore (st_views s) (st_sofas s) (st_sheap s) (st_next_id s) (st_next_sofa s)
                     (hput d new_docann (st_heap s)) (N.succ d) (st_genlog s)).
  assert (Hadd : exists s', add_fs ts s1 hd d true = Ok s').
  { unfold add_fs. subst s1. cbn [st_heap st_views]. rewrite hget_hput_same, Hv.
    assert (C : negb (h_lenient hd) && negb (memb (f_type new_docann) (ts_types ts)) = false).
    { cbn [new_docann f_type]. destruct Hok as [-> | ->]; [reflexivity|apply andb_false_r]. }
    rewrite C. cbn [new_docann f_xid]. eexists. reflexivity. }
  destruct Hadd as [s' Hadd]. rewrite Hadd. exists s'. split; [reflexivity|].
  destruct (add_fs_inv _ _ _ _ _ _ Hadd) as (fs & v' & id & Hg & Hv' & _ & Ev & _ & _ & _ & _ & Eh & _).
  subst s1. cbn [st_heap st_views] in *. rewrite hget_hput_same in Hg. injection Hg as <-.
  rewrite Hv in Hv'. injection Hv' as <-.
  rewrite find_docann_view in Hf. unfold view_docann in Hf.
  assert (Hidx : view_index s (h_view hd) = v_index v) by (unfold view_index; rewrite Hv; reflexivity).
  assert (Hidx' : view_index s' (h_view hd) = v_index v ++ [d]).
  { unfold view_index. rewrite Ev, (alookup_amap_same _ _ _ _ Hv). reflexivity. }
  assert (Hold : forall x, In x (v_index v) -> is_family ts s' x = false).
  { intros x Hx. rewrite Hidx in Hf. rewrite <- (find_none _ _ Hf x Hx). unfold is_family. rewrite Eh.
    assert (x <> d). { specialize (A2 (h_view hd) x). rewrite Hidx in A2. specialize (A2 Hx). subst d. lia. }
    rewrite !hget_hput_other by assumption. reflexivity. }
  assert (Hd : is_family ts s' d = true).
  { unfold is_family. rewrite Eh, hget_hput_same. cbn [added_fs f_type new_docann]. exact Hfam. }
  split; [|split].
  - unfold family_count. apply find_none_count. exact Hf.
  - unfold family_count. rewrite Hidx', filter_app, (filter_nil_all _ _ Hold). cbn [filter app]. rewrite Hd. reflexivity.
  - unfold view_docann. rewrite Hidx', find_app_none.
    + cbn [find]. rewrite Hd. reflexivity.
    + destruct (find (is_family ts s') (v_index v)) as [y|] eqn:Ey; [|reflexivity].
      apply find_some in Ey. destruct Ey as [Hy1 Hy2]. rewrite (Hold y Hy1) in Hy2. discriminate.
Qed.

(* one document_language read or write through a handle on view `name` *)
Theorem docann_once_step ts l s h hd o :
  inv l s -> ainv (st s) -> nth_error (hs s) h = Some hd ->
  (l = true \/ memb DOCANN (ts_types ts) = true) -> memb DOCANN (ts_family ts) = true ->
  (o = OGetLang h \/ exists v, o = OSetLang h v) ->
  let s' := fst (step ts s o) in
  let n := family_count ts (st s) (h_view hd) in
  family_count ts (st s') (h_view hd) = (if Nat.eqb n 0 then 1 else n)%nat /\
  (exists d, view_docann ts (st s') (h_view hd) = Some d /\
             (n <> 0%nat -> view_docann ts (st s) (h_view hd) = Some d)) /\
  hs s' = hs s /\
  (snd (step ts s o) = ObUnit \/ exists v, snd (step ts s o) = ObStr v).
Proof.
  intros Hi Ha Hh Hok Hfam Ho. cbv zeta. pose proof Hi as [_ Hhs]. unfold hinv in Hhs. rewrite Forall_forall in Hhs.
  destruct (Hhs hd (nth_error_In _ _ Hh)) as [Hl Hm]. apply alookup_memb in Hm. destruct Hm as [v Hv].
  assert (Hok' : h_lenient hd = true \/ memb DOCANN (ts_types ts) = true) by (rewrite Hl; exact Hok).
  destruct (find_docann ts (st s) hd) as [d|] eqn:Hf.
  - (* an instance is indexed already *)
    assert (Hg : get_docann ts (st s) hd = Ok (d, st s)) by (unfold get_docann; rewrite Hf; reflexivity).
    pose proof Hf as Hf'. rewrite find_docann_view in Hf'.
    assert (Hn : family_count ts (st s) (h_view hd) <> 0%nat) by (apply (find_some_count _ _ _ Hf')).
    apply Nat.eqb_neq in Hn.
    destruct Ho as [->|[v0 ->]]; unfold step; cbn [op_handle]; rewrite Hh; cbn [step_h]; rewrite Hg; cbn [fst snd st hs].
    + rewrite Hn. split; [reflexivity|]. split; [exists d; auto|]. split; [reflexivity|]. right. eexists. reflexivity.
    + destruct (docann_set_lang ts (st s) d v0 (h_view hd)) as [-> ->]. rewrite Hn.
      split; [reflexivity|]. split; [exists d; auto|]. split; [reflexivity|]. left. reflexivity.
  - (* none yet: one is created and added through this handle *)
    destruct (docann_create ts (st s) hd v Ha Hv Hf Hok' Hfam) as (s1 & Hg & H0 & H1 & Hd).
    destruct Ho as [->|[v0 ->]]; unfold step; cbn [op_handle]; rewrite Hh; cbn [step_h]; rewrite Hg; cbn [fst snd st hs]; rewrite H0; cbn [Nat.eqb].
    + split; [exact H1|]. split; [eexists; split; [exact Hd|intros C; contradiction]|]. split; [reflexivity|]. right. eexists. reflexivity.
    + destruct (docann_set_lang ts s1 (st_next_auto (st s)) v0 (h_view hd)) as [-> ->].
      split; [exact H1|]. split; [eexists; split; [exact Hd|intros C; contradiction]|]. split; [reflexivity|]. left. reflexivity.
Qed.

Definition lang_op_on (s : state) (name : string) (o : op) : Prop :=
  exists h hd, nth_error (hs s) h = Some hd /\ h_view hd = name /\ (o = OGetLang h \/ exists v, o = OSetLang h v).

(* after any number (>= 1) of document_language reads/writes through any handles of one view there is exactly
   one more indexed DocumentAnnotation(-subtype) instance than before iff none was indexed before, and every
   later read finds the same one *)
Theorem docann_once ts l r : forall s name o,
  inv l s -> ainv (st s) -> (l = true \/ memb DOCANN (ts_types ts) = true) -> memb DOCANN (ts_family ts) = true ->
  Forall (lang_op_on s name) (o :: r) ->
  let s' := fst (run ts s (o :: r)) in
  let n := family_count ts (st s) name in
  family_count ts (st s') name = (if Nat.eqb n 0 then 1 else n)%nat /\
  exists d, view_docann ts (st s') name = Some d /\
            view_docann ts (st (fst (step ts s o))) name = Some d /\
            (n <> 0%nat -> view_docann ts (st s) name = Some d).
Proof.
  induction r as [|o2 r IH]; intros s name o Hi Ha Hok Hfam Hall; cbv zeta.
  - inversion Hall as [|? ? (h & hd & Hh & Hn & Ho) _]; subst.
    destruct (docann_once_step ts l s h hd o Hi Ha Hh Hok Hfam Ho) as (Hc & (d & Hd1 & Hd2) & _ & _).
    cbn [run]. destruct (step ts s o) as [s1 ob]. cbn [fst] in *. split; [exact Hc|]. exists d. auto.
  - inversion Hall as [|? ? (h & hd & Hh & Hn & Ho) Hrest]; subst.
    destruct (docann_once_step ts l s h hd o Hi Ha Hh Hok Hfam Ho) as (Hc & (d & Hd1 & Hd2) & Hhs & _).
    pose proof (step_inv ts l s o Hi) as Hi1. pose proof (ainv_step ts s o Ha) as Ha1.
    assert (Hall1 : Forall (lang_op_on (fst (step ts s o)) (h_view hd)) (o2 :: r)).
    { apply Forall_impl with (2 := Hrest). intros x (h' & hd' & A & B & C). exists h', hd'. rewrite Hhs. auto. }
    specialize (IH (fst (step ts s o)) (h_view hd) o2 Hi1 Ha1 Hok Hfam Hall1). cbv zeta in IH.
    destruct IH as (Hc2 & d2 & Hd3 & _ & Hd4).
    change (run ts s (o :: o2 :: r)) with (let '(s1, ob) := step ts s o in let '(s2, obs) := run ts s1 (o2 :: r) in (s2, ob :: obs)).
    destruct (step ts s o) as [s1 ob]. cbn [fst] in *. destruct (run ts s1 (o2 :: r)) as [s2 obs]. cbn [fst] in *.
    assert (Hn1 : family_count ts (st s1) (h_view hd) <> 0%nat).
    { rewrite Hc. destruct (Nat.eqb (family_count ts (st s) (h_view hd)) 0) eqn:E; [discriminate|apply Nat.eqb_neq; exact E]. }
    split.
    + rewrite Hc2, Hc. apply Nat.eqb_neq in Hn1. rewrite Hc in Hn1. rewrite Hn1. reflexivity.
    + specialize (Hd4 Hn1). rewrite Hd1 in Hd4. injection Hd4 as <-. exists d. auto.
Qed.

(* ================================================================ covered text *)

(* for an annotation that points to a sofa: the Python slice [begin:end] of that sofa's current text *)
Theorem covered_text_spec s o fs a :
  sinv s -> hget o (st_heap s) = Some fs -> f_has_sofa fs && f_has_span fs = true -> f_sofa fs = Some a ->
  exists x, nth_error (st_sheap s) a = Some x /\
    covered_text s o = ObText (match s_text x with Some t => Some (pyslice (f_begin fs) (f_end fs) t) | None => None end).
Proof.
  intros [_ _ _ _ Hrefs _] Hg Hk Hs. unfold covered_text. rewrite Hg, Hk, Hs.
  specialize (Hrefs _ _ _ Hg Hs). destruct (nth_error (st_sheap s) a) as [x|] eqn:Hx.
  - exists x. split; reflexivity.
  - apply nth_error_None in Hx. lia.
Qed.

Theorem covered_text_no_sofa s o fs :
  hget o (st_heap s) = Some fs -> f_has_sofa fs && f_has_span fs = true -> f_sofa fs = None ->
  covered_text s o = ObNoSofa.
Proof. intros Hg Hk Hs. unfold covered_text. rewrite Hg, Hk, Hs. reflexivity. Qed.

Theorem covered_text_not_annotation s o fs :
  hget o (st_heap s) = Some fs -> f_has_sofa fs && f_has_span fs = false -> covered_text s o = ObNotImpl.
Proof. intros Hg Hk. unfold covered_text. rewrite Hg, Hk. reflexivity. Qed.

(* what stays fixed of a structure, and where it points *)
Definition same_fs (a b : fsobj) : Prop :=
  f_type a = f_type b /\ f_has_sofa a = f_has_sofa b /\ f_has_span a = f_has_span b /\
  f_begin a = f_begin b /\ f_end a = f_end b /\ f_sofa a = f_sofa b.

Lemma same_fs_refl a : same_fs a a.
Proof. repeat split. Qed.

(* add points the structure at the sofa of the view it was added through *)
Theorem add_sets_sofa ts s h hd o keep s' fs v :
  nth_error (hs s) h = Some hd -> step ts s (OAdd h o keep) = (s', ObUnit) ->
  hget o (st_heap (st s)) = Some fs -> alookup (h_view hd) (st_views (st s)) = Some v ->
  exists fs', hget o (st_heap (st s')) = Some fs' /\
    f_sofa fs' = (if f_has_sofa fs then Some (v_sofa v) else f_sofa fs) /\
    f_type fs' = f_type fs /\ f_has_sofa fs' = f_has_sofa fs /\ f_has_span fs' = f_has_span fs /\
    f_begin fs' = f_begin fs /\ f_end fs' = f_end fs.
Proof.
  intros Hh. unfold step. cbn [op_handle]. rewrite Hh. cbn [step_h].
  destruct (add_fs ts (st s) hd o keep) as [s1|e|] eqn:E; [|destruct e; discriminate|discriminate].
  intros E' Hg Hv. injection E' as <-. cbn [st].
  destruct (add_fs_inv _ _ _ _ _ _ E) as (fs0 & v0 & id & Hg0 & Hv0 & _ & _ & _ & _ & _ & _ & Eh & _).
  rewrite Hg in Hg0. injection Hg0 as <-. rewrite Hv in Hv0. injection Hv0 as <-.
  eexists. rewrite Eh, hget_hput_same. split; [reflexivity|]. cbn. repeat split.
Qed.

(* no other operation moves it: only an add of this very structure changes where it points *)
Lemma step_fs_frame ts s op o fs :
  ainv (st s) -> hget o (st_heap (st s)) = Some fs -> (forall h k, op <> OAdd h o k) ->
  exists fs', hget o (st_heap (st (fst (step ts s op)))) = Some fs' /\ same_fs fs' fs.
Proof.
  intros [A1 A2] Hg Hno.
  assert (Same : exists fs', hget o (st_heap (st s)) = Some fs' /\ same_fs fs' fs) by (exists fs; split; [exact Hg|apply same_fs_refl]).
  unfold step. destruct (op_handle op) as [h|] eqn:Eo; [|destruct op; try discriminate; exact Same].
  destruct (nth_error (hs s) h) as [hd|]; [|exact Same].
  assert (Hdoc : forall d s', get_docann ts (st s) hd = Ok (d, s') -> exists fs', hget o (st_heap s') = Some fs' /\ same_fs fs' fs).
  { intros d s' E. destruct (get_docann_shape _ _ _ _ _ E) as (_ & _ & [[_ ->]|(_ & -> & _ & v & id & _ & _ & Eh & _)]); [exact Same|].
    rewrite Eh. specialize (A1 _ _ Hg). rewrite !hget_hput_other by lia. exact Same. }
  destruct op; cbn [step_h]; try rewrite sofa_read_state; try exact Same.
  - destruct (memb name (akeys (st_views (st s)))); exact Same.
  - destruct (memb name (akeys (st_views (st s)))); exact Same.
  - destruct (add_fs ts (st s) hd o0 keep) as [s'|e|] eqn:E; [|destruct e; exact Same|exact Same]. cbn [fst st].
    destruct (add_fs_inv _ _ _ _ _ _ E) as (fs0 & v & id & _ & _ & _ & _ & _ & _ & _ & _ & Eh & _).
    rewrite Eh. assert (o <> o0) by (intros C; subst o0; apply (Hno h0 keep); reflexivity).
    rewrite hget_hput_other by assumption. exact Same.
  - destruct (remove_fs (st s) hd o0) as [s'|e|] eqn:E; [|destruct e; exact Same|exact Same]. cbn [fst st].
    destruct (remove_fs_inv _ _ _ _ E) as (v & idx & _ & _ & ->). exact Same.
  - unfold sofa_write. destruct (cur_sofa (st s) hd); exact Same.
  - unfold sofa_write. destruct (cur_sofa (st s) hd); exact Same.
  - unfold sofa_write. destruct (cur_sofa (st s) hd); exact Same.
  - unfold sofa_write. destruct (cur_sofa (st s) hd); exact Same.
  - destruct (alookup (h_view hd) (st_views (st s))); exact Same.
  - destruct (get_docann ts (st s) hd) as [[d s']|e|] eqn:E; [|destruct e; exact Same|exact Same]. cbn [fst st]. eapply Hdoc; reflexivity.
  - destruct (get_docann ts (st s) hd) as [[d s']|e|] eqn:E; [|destruct e; exact Same|exact Same]. cbn [fst st].
    destruct (Hdoc d s' eq_refl) as (fs1 & Hg1 & Hs1). unfold set_lang.
    destruct (hget d (st_heap s')) as [fd|] eqn:Hd; [|exists fs1; auto]. cbn [with_heap st_heap].
    destruct (N.eq_dec o d) as [->|Hne].
    + rewrite hget_hput_same. rewrite Hd in Hg1. injection Hg1 as <-. eexists. split; [reflexivity|].
      destruct Hs1 as (H1 & H2 & H3 & H4 & H5 & H6). repeat split; assumption.
    + rewrite hget_hput_other by exact Hne. exists fs1. auto.
Qed.

(* the sofa object of a view never changes *)
Lemma step_view_addr ts s op name v :
  alookup name (st_views (st s)) = Some v ->
  exists v', alookup name (st_views (st (fst (step ts s op)))) = Some v' /\ v_sofa v' = v_sofa v.
Proof.
  intros Hv. assert (Same : exists v', alookup name (st_views (st s)) = Some v' /\ v_sofa v' = v_sofa v) by (exists v; auto).
  assert (Amap : forall s' k f, st_views s' = amap k f (st_views (st s)) -> (forall w, v_sofa (f w) = v_sofa w) ->
                 exists v', alookup name (st_views s') = Some v' /\ v_sofa v' = v_sofa v).
  { intros s' k f Ev Hf. rewrite Ev. destruct (String.eqb name k) eqn:E.
    - apply String.eqb_eq in E. subst k. rewrite (alookup_amap_same _ _ _ _ Hv). eexists. split; [reflexivity|apply Hf].
    - rewrite alookup_amap_other; [exact Same|]. intros C. subst k. rewrite String.eqb_refl in E. discriminate. }
  unfold step. destruct (op_handle op) as [h|] eqn:Eo; [|destruct op; try discriminate; exact Same].
  destruct (nth_error (hs s) h) as [hd|]; [|exact Same].
  assert (Hdoc : forall d s', get_docann ts (st s) hd = Ok (d, s') -> exists v', alookup name (st_views s') = Some v' /\ v_sofa v' = v_sofa v).
  { intros d s' E. destruct (get_docann_shape _ _ _ _ _ E) as (_ & _ & [[_ ->]|(_ & _ & _ & w & id & _ & Ev & _)]); [exact Same|].
    apply (Amap _ _ _ Ev). reflexivity. }
  destruct op; cbn [step_h]; try rewrite sofa_read_state; try exact Same.
  - destruct (memb name0 (akeys (st_views (st s)))); [exact Same|]. cbn [fst st]. unfold add_view. cbn [st_views].
    rewrite alookup_app_new, Hv. exists v. auto.
  - destruct (memb name0 (akeys (st_views (st s)))); exact Same.
  - destruct (add_fs ts (st s) hd o keep) as [s'|e|] eqn:E; [|destruct e; exact Same|exact Same]. cbn [fst st].
    destruct (add_fs_inv _ _ _ _ _ _ E) as (fs0 & w & id & _ & _ & _ & Ev & _). apply (Amap _ _ _ Ev). reflexivity.
  - destruct (remove_fs (st s) hd o) as [s'|e|] eqn:E; [|destruct e; exact Same|exact Same]. cbn [fst st].
    destruct (remove_fs_inv _ _ _ _ E) as (w & idx & _ & _ & ->). apply (Amap _ (h_view hd) (fun v => mkView (v_sofa v) idx)); reflexivity.
  - unfold sofa_write. destruct (cur_sofa (st s) hd); exact Same.
  - unfold sofa_write. destruct (cur_sofa (st s) hd); exact Same.
  - unfold sofa_write. destruct (cur_sofa (st s) hd); exact Same.
  - unfold sofa_write. destruct (cur_sofa (st s) hd); exact Same.
  - destruct (alookup (h_view hd) (st_views (st s))); exact Same.
  - destruct (get_docann ts (st s) hd) as [[d s']|e|] eqn:E; [|destruct e; exact Same|exact Same]. cbn [fst st]. eapply Hdoc; reflexivity.
  - destruct (get_docann ts (st s) hd) as [[d s']|e|] eqn:E; [|destruct e; exact Same|exact Same]. cbn [fst st].
    destruct (set_lang_views s' d v0) as [-> _]. eapply Hdoc; reflexivity.
Qed.

(* over any history that does not add the annotation again: its covered text is the slice of the CURRENT text
   of the view it points to — together with add_sets_sofa: of the view it was most recently added to *)
Theorem covered_text_is_slice ts l ops : forall s o fs name v,
  inv l s -> ainv (st s) -> hget o (st_heap (st s)) = Some fs -> f_has_sofa fs && f_has_span fs = true ->
  alookup name (st_views (st s)) = Some v -> f_sofa fs = Some (v_sofa v) ->
  Forall (fun op => forall h k, op <> OAdd h o k) ops ->
  let s' := fst (run ts s ops) in
  exists x, view_sofa (st s') name = Some x /\
    covered_text (st s') o =
      ObText (match s_text x with Some t => Some (pyslice (f_begin fs) (f_end fs) t) | None => None end).
Proof.
  induction ops as [|op r IH]; intros s o fs name v Hi Ha Hg Hk Hv Hs Hall; cbv zeta.
  - cbn [run fst]. destruct Hi as [Hsi _].
    destruct (covered_text_spec _ _ _ _ Hsi Hg Hk Hs) as (x & Hx & Hc). exists x. split; [|exact Hc].
    unfold view_sofa. rewrite Hv. exact Hx.
  - inversion Hall as [|? ? Hop Hrest]; subst.
    destruct (step_fs_frame ts s op o fs Ha Hg Hop) as (fs1 & Hg1 & (E1 & E2 & E3 & E4 & E5 & E6)).
    destruct (step_view_addr ts s op name v Hv) as (v1 & Hv1 & Ea).
    pose proof (step_inv ts l s op Hi) as Hi1. pose proof (ainv_step ts s op Ha) as Ha1.
    assert (Hk1 : f_has_sofa fs1 && f_has_span fs1 = true) by (rewrite E2, E3; exact Hk).
    assert (Hs1 : f_sofa fs1 = Some (v_sofa v1)) by (rewrite E6, Ea; exact Hs).
    specialize (IH (fst (step ts s op)) o fs1 name v1 Hi1 Ha1 Hg1 Hk1 Hv1 Hs1 Hrest). cbv zeta in IH.
    cbn [run]. destruct (step ts s op) as [s1 ob]. cbn [fst] in *. destruct (run ts s1 r) as [s2 obs]. cbn [fst] in *.
    rewrite E4, E5 in IH. exact IH.
Qed.

(* regression (pre 779cf12): a handle derived from a lenient CAS was strict *)
Theorem lenient_lost_refuted : exists hd name, h_lenient (new_handle_old name hd) <> h_lenient hd.
Proof. exists (mkHandle "_InitialView" true), "v"%string. cbn. discriminate. Qed.

(* ================================================================ the type system grows during the history *)

(* every state reached from a fresh CAS by any history of operations AND type declarations; `ts` is the type system
   as it stands at the end of that history *)
Definition reachable_ev (ts0 : tsinfo) (l : bool) (heap : list (oid * fsobj)) (ts : tsinfo) (s : state) : Prop :=
  exists evs, fst (run_ev ts0 (init0 l heap) evs) = (ts, s).

Lemma step_ev_inv ts l s e : inv l s -> inv l (snd (fst (step_ev ts s e))).
Proof.
  intros Hi. destruct e as [o|n p]; cbn [step_ev].
  - pose proof (step_inv ts l s o Hi) as H. destruct (step ts s o) as [s1 ob]. exact H.
  - destruct (memb n (ts_types ts)); exact Hi.
Qed.

Lemma step_ev_ainv ts s e : ainv (st s) -> ainv (st (snd (fst (step_ev ts s e)))).
Proof.
  intros Ha. destruct e as [o|n p]; cbn [step_ev].
  - pose proof (ainv_step ts s o Ha) as H. destruct (step ts s o) as [s1 ob]. exact H.
  - destruct (memb n (ts_types ts)); exact Ha.
Qed.

Lemma run_ev_inv l evs : forall ts s, inv l s -> inv l (snd (fst (run_ev ts s evs))).
Proof.
  induction evs as [|e r IH]; intros ts s Hi; [exact Hi|].
  cbn [run_ev]. pose proof (step_ev_inv ts l s e Hi) as H1. destruct (step_ev ts s e) as [[ts1 s1] ob]. cbn [fst snd] in H1.
  specialize (IH ts1 s1 H1). destruct (run_ev ts1 s1 r) as [[ts2 s2] obs]. exact IH.
Qed.

Lemma run_ev_ainv evs : forall ts s, ainv (st s) -> ainv (st (snd (fst (run_ev ts s evs)))).
Proof.
  induction evs as [|e r IH]; intros ts s Ha; [exact Ha|].
  cbn [run_ev]. pose proof (step_ev_ainv ts s e Ha) as H1. destruct (step_ev ts s e) as [[ts1 s1] ob]. cbn [fst snd] in H1.
  specialize (IH ts1 s1 H1). destruct (run_ev ts1 s1 r) as [[ts2 s2] obs]. exact IH.
Qed.

Theorem reachable_ev_inv ts0 l heap ts s : heap0_okb heap = true -> reachable_ev ts0 l heap ts s -> inv l s.
Proof.
  intros H [evs E]. pose proof (run_ev_inv l evs ts0 (init0 l heap) (init0_inv l heap H)) as Hi.
  rewrite E in Hi. exact Hi.
Qed.

Theorem reachable_ev_ainv ts0 l heap ts s : labels_okb heap = true -> reachable_ev ts0 l heap ts s -> ainv (st s).
Proof.
  intros H [evs E].
  assert (H0 : ainv (st (init0 l heap))) by (apply (reachable_ainv ts0 l heap); [exact H|exists []; reflexivity]).
  pose proof (run_ev_ainv evs ts0 (init0 l heap) H0) as Ha. rewrite E in Ha. exact Ha.
Qed.

(* histories without declarations are the histories of `reachable` *)
Lemma run_ev_ops ts ops : forall s, run_ev ts s (map EOp ops) = (ts, fst (run ts s ops), snd (run ts s ops)).
Proof.
  induction ops as [|o r IH]; intros s; [reflexivity|].
  cbn [map run_ev step_ev run]. destruct (step ts s o) as [s1 ob]. rewrite IH.
  destruct (run ts s1 r) as [s2 obs]. reflexivity.
Qed.

Theorem reachable_reachable_ev ts l heap s : reachable ts l heap s -> reachable_ev ts l heap ts s.
Proof. intros [ops ->]. exists (map EOp ops). rewrite run_ev_ops. reflexivity. Qed.

Lemma run_ev_app ts a b s :
  fst (run_ev ts s (a ++ b)) = fst (run_ev (fst (fst (run_ev ts s a))) (snd (fst (run_ev ts s a))) b).
Proof.
  revert ts s. induction a as [|e r IH]; intros ts s; [reflexivity|].
  cbn [app run_ev]. destruct (step_ev ts s e) as [[ts1 s1] ob]. specialize (IH ts1 s1).
  destruct (run_ev ts1 s1 (r ++ b)) as [[ts2 s2] obs2]. destruct (run_ev ts1 s1 r) as [[ts3 s3] obs3]. cbn [fst snd] in *. exact IH.
Qed.

Theorem reachable_ev_step ts0 l heap ts s e :
  reachable_ev ts0 l heap ts s -> reachable_ev ts0 l heap (fst (fst (step_ev ts s e))) (snd (fst (step_ev ts s e))).
Proof.
  intros [evs E]. exists (evs ++ [e]). rewrite run_ev_app, E. cbn [fst snd run_ev].
  destruct (step_ev ts s e) as [[ts1 s1] ob]. reflexivity.
Qed.

(* a declaration only adds: what was a contained type / a document-annotation type stays one; the new name is
   contained, and it is a document-annotation type when its parent is one *)
Lemma memb_app_l x a b : memb x a = true -> memb x (a ++ b) = true.
Proof. rewrite !memb_In. intros H. apply in_or_app. left. exact H. Qed.

Lemma memb_app_last x a : memb x (a ++ [x]) = true.
Proof. rewrite memb_In. apply in_or_app. right. left. reflexivity. Qed.

Theorem declare_grows n p ts x :
  (memb x (ts_types ts) = true -> memb x (ts_types (declare n p ts)) = true) /\
  (memb x (ts_family ts) = true -> memb x (ts_family (declare n p ts)) = true).
Proof.
  unfold declare. cbn [ts_types ts_family]. split; intros H; [apply memb_app_l; exact H|].
  destruct (memb p (ts_family ts)); [apply memb_app_l|]; exact H.
Qed.

Theorem declare_subtype n p ts :
  memb n (ts_types (declare n p ts)) = true /\
  (memb p (ts_family ts) = true -> memb n (ts_family (declare n p ts)) = true).
Proof.
  unfold declare. cbn [ts_types ts_family]. split; [apply memb_app_last|].
  intros ->. apply memb_app_last.
Qed.

Theorem declare_step ts s n p :
  memb n (ts_types ts) = false -> step_ev ts s (EDeclare n p) = (declare n p ts, s, ObUnit).
Proof. intros H. cbn [step_ev]. rewrite H. reflexivity. Qed.

(* handles of one view are interchangeable over histories with declarations as well *)
Definition retarget_ev (h' : nat) (e : ev) : ev :=
  match e with EOp o => EOp (retarget h' o) | EDeclare n p => EDeclare n p end.

Inductive hequiv_ev : tsinfo -> state -> list ev -> list ev -> Prop :=
| hee_nil : forall ts s, hequiv_ev ts s [] []
| hee_cons : forall ts s e i j a b r1 r2,
    nth_error (hs s) i = Some a -> nth_error (hs s) j = Some b -> h_view a = h_view b ->
    hequiv_ev (fst (fst (step_ev ts s (retarget_ev i e)))) (snd (fst (step_ev ts s (retarget_ev i e)))) r1 r2 ->
    hequiv_ev ts s (retarget_ev i e :: r1) (retarget_ev j e :: r2).

Theorem handles_equivalent_ev l ts s evs1 evs2 :
  inv l s -> hequiv_ev ts s evs1 evs2 -> run_ev ts s evs1 = run_ev ts s evs2.
Proof.
  intros Hi H. induction H as [ts s|ts s e i j a b r1 r2 Ha Hb Hv Hr IH]; [reflexivity|].
  cbn [run_ev].
  assert (E : step_ev ts s (retarget_ev i e) = step_ev ts s (retarget_ev j e)).
  { destruct e as [o|n p]; cbn [retarget_ev step_ev]; [|reflexivity].
    rewrite (handles_equivalent ts l s i j a b o Hi Ha Hb Hv). reflexivity. }
  rewrite <- E. pose proof (step_ev_inv ts l s (retarget_ev i e) Hi) as Hi'.
  destruct (step_ev ts s (retarget_ev i e)) as [[ts1 s1] ob]. cbn [fst snd] in *. rewrite (IH Hi'). reflexivity.
Qed.

(* an instance of a document-annotation type added to a view that holds none IS that view's document annotation:
   every handle of the view — whenever it was obtained and whatever it was used for before — finds it, and a
   document_language read or write through any of them creates nothing.  `ts` is the type system at the time of the
   calls: with declare_subtype, in particular a type system in which the instance's type was declared after the
   handles were obtained and after they had looked for the document annotation. *)
Theorem added_family_instance_is_docann ts l s h hd o fs keep s1 :
  inv l s -> ainv (st s) -> nth_error (hs s) h = Some hd ->
  hget o (st_heap (st s)) = Some fs -> memb (f_type fs) (ts_family ts) = true ->
  family_count ts (st s) (h_view hd) = 0%nat ->
  step ts s (OAdd h o keep) = (s1, ObUnit) ->
  view_docann ts (st s1) (h_view hd) = Some o /\ family_count ts (st s1) (h_view hd) = 1%nat /\ hs s1 = hs s.
Proof.
  intros Hi Ha Hh Hg Hfam Hc. unfold step. cbn [op_handle]. rewrite Hh. cbn [step_h].
  destruct (add_fs ts (st s) hd o keep) as [s'|e|] eqn:E; [|destruct e; discriminate|discriminate].
  intros Es. injection Es as <-. cbn [st hs].
  destruct (add_fs_inv _ _ _ _ _ _ E) as (fs' & v & id & Hg' & Hv & _ & Ev & _ & _ & _ & _ & Eh & _).
  rewrite Hg in Hg'. injection Hg' as <-.
  assert (Hidx : view_index (st s) (h_view hd) = v_index v) by (unfold view_index; rewrite Hv; reflexivity).
  assert (Hidx' : view_index s' (h_view hd) = v_index v ++ [o]).
  { unfold view_index. rewrite Ev, (alookup_amap_same _ _ _ _ Hv). reflexivity. }
  assert (Hnone : forall x, In x (v_index v) -> is_family ts (st s) x = false).
  { intros x Hx. unfold family_count in Hc. rewrite Hidx in Hc.
    destruct (is_family ts (st s) x) eqn:Ex; [|reflexivity].
    assert (Hin : In x (filter (is_family ts (st s)) (v_index v))) by (apply filter_In; auto).
    destruct (filter (is_family ts (st s)) (v_index v)); [contradiction|discriminate]. }
  assert (Ho : is_family ts (st s) o = true) by (unfold is_family; rewrite Hg; exact Hfam).
  assert (Hold : forall x, In x (v_index v) -> is_family ts s' x = false).
  { intros x Hx. rewrite <- (Hnone x Hx). unfold is_family. rewrite Eh.
    assert (x <> o). { intros ->. rewrite (Hnone o Hx) in Ho. discriminate. }
    rewrite hget_hput_other by assumption. reflexivity. }
  assert (Ho' : is_family ts s' o = true).
  { unfold is_family. rewrite Eh, hget_hput_same. cbn [added_fs f_type]. exact Hfam. }
  split; [|split; [|reflexivity]].
  - unfold view_docann. rewrite Hidx', find_app_none.
    + cbn [find]. rewrite Ho'. reflexivity.
    + destruct (find (is_family ts s') (v_index v)) as [y|] eqn:Ey; [|reflexivity].
      apply find_some in Ey. destruct Ey as [Hy1 Hy2]. rewrite (Hold y Hy1) in Hy2. discriminate.
  - unfold family_count. rewrite Hidx', filter_app, (filter_nil_all _ _ Hold). cbn [filter app]. rewrite Ho'. reflexivity.
Qed.

Theorem late_subtype_found_by_every_handle ts0 l s n p h hd j hb o fs keep s1 op :
  let ts := declare n p ts0 in
  inv l s -> ainv (st s) -> memb p (ts_family ts0) = true ->
  (l = true \/ memb DOCANN (ts_types ts0) = true) -> memb DOCANN (ts_family ts0) = true ->
  nth_error (hs s) h = Some hd -> nth_error (hs s) j = Some hb -> h_view hb = h_view hd ->
  hget o (st_heap (st s)) = Some fs -> f_type fs = n ->
  family_count ts (st s) (h_view hd) = 0%nat ->
  step ts s (OAdd h o keep) = (s1, ObUnit) ->
  (op = OGetLang j \/ exists v, op = OSetLang j v) ->
  let s2 := fst (step ts s1 op) in
  view_docann ts (st s1) (h_view hd) = Some o /\
  view_docann ts (st s2) (h_view hd) = Some o /\ family_count ts (st s2) (h_view hd) = 1%nat /\ hs s2 = hs s.
Proof.
  cbv zeta. intros Hi Ha Hp Hok Hd Hh Hj Hv Hg Ht Hc Hs Hop.
  assert (Hfam : memb (f_type fs) (ts_family (declare n p ts0)) = true).
  { rewrite Ht. apply declare_subtype. exact Hp. }
  destruct (added_family_instance_is_docann _ l s h hd o fs keep s1 Hi Ha Hh Hg Hfam Hc Hs) as (H1 & H2 & H3).
  split; [exact H1|].
  assert (Hi1 : inv l s1). { pose proof (step_inv (declare n p ts0) l s (OAdd h o keep) Hi) as X. rewrite Hs in X. exact X. }
  assert (Ha1 : ainv (st s1)). { pose proof (ainv_step (declare n p ts0) s (OAdd h o keep) Ha) as X. rewrite Hs in X. exact X. }
  assert (Hj1 : nth_error (hs s1) j = Some hb) by (rewrite H3; exact Hj).
  assert (Hok' : l = true \/ memb DOCANN (ts_types (declare n p ts0)) = true).
  { destruct Hok as [Hok|Hok]; [left; exact Hok|right; apply declare_grows; exact Hok]. }
  assert (Hd' : memb DOCANN (ts_family (declare n p ts0)) = true) by (apply declare_grows; exact Hd).
  destruct (docann_once_step (declare n p ts0) l s1 j hb op Hi1 Ha1 Hj1 Hok' Hd' Hop) as (Hc2 & (d & Hd1 & Hd2) & Hhs & _).
  rewrite Hv in *. rewrite H2 in *. cbn [Nat.eqb] in Hc2.
  assert (Hne : 1%nat <> 0%nat) by discriminate. specialize (Hd2 Hne). rewrite H1 in Hd2. injection Hd2 as <-.
  split; [exact Hd1|]. split; [exact Hc2|]. rewrite Hhs. exact H3.
Qed.

(* ================================================================ the constructor's sofa arguments *)

(* Cas(sofa_string = t, sofa_mime = m): the initial view's sofa holds exactly what was given — ANY given MIME type,
   the empty string included; "text/plain" only when none was given — whatever else the constructor does *)
Theorem ctor_sofa_as_given ts k heap t :
  heap0_okb heap = true -> k_text k = Some t ->
  exists x, view_sofa (st (init ts k heap)) "_InitialView" = Some x /\
    s_text x = Some t /\ s_mime x = Some (match k_mime k with Some m => m | None => "text/plain"%string end) /\
    s_uri x = None /\ s_arr x = None.
Proof.
  intros H0 Ht. unfold init.
  pose (x0 := mkSofa "_InitialView" 1 1 None None None None None).
  assert (Hx : view_sofa (st (init0 (k_lenient k) heap)) "_InitialView" = Some x0) by reflexivity.
  rewrite (sofa_is_last_written ts (k_lenient k) (ctor_ops k) _ _ _ (init0_inv _ _ H0) Hx).
  eexists. split; [reflexivity|].
  unfold ctor_ops. rewrite Ht. destruct (k_lang k) as [lg|]; cbn [app apply_writes].
  - repeat split; reflexivity.
  - repeat split; reflexivity.
Qed.
