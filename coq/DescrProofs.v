(* DescrProofs.v — proofs about the descriptor model of Descr.v:
   order on strings, sorting on a unique key, lookups; load_wf (a well-formed descriptor loads, in every admissible
   order, to its declarative reading state_of); round trip, re-emission, permutation invariance; built-ins. *)
From Cassis Require Import Base Descr.
From Coq Require Import Ascii.

(* ------------------------------------------------------------------ order on strings *)
Lemma ascii_compare_refl c : Ascii.compare c c = Eq.
Proof. unfold Ascii.compare. apply N.compare_refl. Qed.

Lemma ascii_compare_lt_trans a b c : Ascii.compare a b = Lt -> Ascii.compare b c = Lt -> Ascii.compare a c = Lt.
Proof. unfold Ascii.compare. rewrite !N.compare_lt_iff. apply N.lt_trans. Qed.

Lemma string_compare_refl s : String.compare s s = Eq.
Proof. induction s as [|c s IH]; cbn; [reflexivity|]. rewrite ascii_compare_refl. exact IH. Qed.

Lemma string_compare_lt_trans : forall a b c,
  String.compare a b = Lt -> String.compare b c = Lt -> String.compare a c = Lt.
Proof.
  induction a as [|x a IH]; intros [|y b] [|z c]; cbn; try discriminate; auto.
  destruct (Ascii.compare x y) eqn:Exy; try discriminate.
  - apply Ascii.compare_eq_iff in Exy. subst y.
    destruct (Ascii.compare x z) eqn:Exz; try discriminate; auto.
    intros H1 H2. eapply IH; eassumption.
  - intros _. destruct (Ascii.compare y z) eqn:Eyz; try discriminate.
    + apply Ascii.compare_eq_iff in Eyz. subst z. rewrite Exy. reflexivity.
    + rewrite (ascii_compare_lt_trans _ _ _ Exy Eyz). reflexivity.
Qed.

Lemma leb_refl s : String.leb s s = true.
Proof. unfold String.leb. rewrite string_compare_refl. reflexivity. Qed.

Lemma leb_trans a b c : String.leb a b = true -> String.leb b c = true -> String.leb a c = true.
Proof.
  unfold String.leb.
  destruct (String.compare a b) eqn:Eab; try discriminate; intros _.
  - apply String.compare_eq_iff in Eab. subst b. auto.
  - destruct (String.compare b c) eqn:Ebc; try discriminate; intros _.
    + apply String.compare_eq_iff in Ebc. subst c. rewrite Eab. reflexivity.
    + rewrite (string_compare_lt_trans _ _ _ Eab Ebc). reflexivity.
Qed.

Lemma leb_false_leb a b : String.leb a b = false -> String.leb b a = true.
Proof. intros H. destruct (String.leb_total a b) as [E|E]; [congruence|exact E]. Qed.

Lemma ltb_leb a b : String.ltb a b = true -> String.leb a b = true.
Proof. unfold String.ltb, String.leb. destruct (String.compare a b); auto; discriminate. Qed.

Lemma ltb_irrefl a : String.ltb a a = false.
Proof. unfold String.ltb. rewrite string_compare_refl. reflexivity. Qed.

Lemma ltb_asym a b : String.ltb a b = true -> String.ltb b a = true -> False.
Proof.
  unfold String.ltb. rewrite (String.compare_antisym b a).
  destruct (String.compare a b); cbn; discriminate.
Qed.

Lemma leb_neq_ltb a b : String.leb a b = true -> a <> b -> String.ltb a b = true.
Proof.
  unfold String.leb, String.ltb. destruct (String.compare a b) eqn:E; try discriminate; auto.
  apply String.compare_eq_iff in E. congruence.
Qed.

(* ------------------------------------------------------------------ sorting *)
Section Sorting.
  Context {A : Type} (key : A -> string).
  Definition kle (a b : A) : Prop := String.leb (key a) (key b) = true.

  Lemma insert_by_perm x l : Permutation (insert_by key x l) (x :: l).
  Proof.
    induction l as [|y r IH]; cbn; [reflexivity|].
    destruct (String.leb (key x) (key y)); [reflexivity|].
    rewrite IH. apply perm_swap.
  Qed.

  Lemma sort_by_perm l : Permutation (sort_by key l) l.
  Proof.
    induction l as [|x r IH]; cbn; [reflexivity|].
    rewrite insert_by_perm. constructor. exact IH.
  Qed.

  Lemma insert_by_sorted x l : StronglySorted kle l -> StronglySorted kle (insert_by key x l).
  Proof.
    induction 1 as [|y r Hs IH Hall]; cbn; [repeat constructor|].
    destruct (String.leb (key x) (key y)) eqn:E.
    - constructor; [constructor; assumption|]. constructor; [exact E|].
      rewrite Forall_forall in *. intros z Hz. unfold kle. eapply leb_trans; [exact E|]. apply Hall. exact Hz.
    - constructor; [exact IH|].
      rewrite Forall_forall in *. intros z Hz.
      apply (Permutation_in _ (insert_by_perm x r)) in Hz. destruct Hz as [<-|Hz].
      + apply leb_false_leb. exact E.
      + apply Hall. exact Hz.
  Qed.

  Lemma sort_by_sorted l : StronglySorted kle (sort_by key l).
  Proof. induction l as [|x r IH]; cbn; [constructor|]. apply insert_by_sorted. exact IH. Qed.

  (* two sorted lists with the same elements are equal when the order is antisymmetric on them *)
  Lemma sorted_perm_unique (R : A -> A -> Prop) : forall l1 l2,
    (forall a b, In a l1 -> In b l1 -> R a b -> R b a -> a = b) ->
    StronglySorted R l1 -> StronglySorted R l2 -> Permutation l1 l2 -> l1 = l2.
  Proof.
    induction l1 as [|a l1 IH]; intros l2 Hanti H1 H2 HP.
    - apply Permutation_nil in HP. subst. reflexivity.
    - destruct l2 as [|b l2]; [apply Permutation_sym, Permutation_nil in HP; discriminate|].
      inversion H1 as [|? ? Hs1 Ha]; subst. inversion H2 as [|? ? Hs2 Hb]; subst.
      rewrite Forall_forall in Ha, Hb.
      assert (a = b) as ->.
      { assert (In a (b :: l2)) as Hin1 by (eapply Permutation_in; [exact HP|left; reflexivity]).
        assert (In b (a :: l1)) as Hin2 by (eapply Permutation_in; [apply Permutation_sym; exact HP|left; reflexivity]).
        destruct Hin1 as [->|Hin1]; [reflexivity|]. destruct Hin2 as [->|Hin2]; [reflexivity|].
        apply Hanti; [left; reflexivity|right; exact Hin2|apply Ha; exact Hin2|apply Hb; exact Hin1]. }
      f_equal. apply IH; auto.
      + intros x y Hx Hy. apply Hanti; right; assumption.
      + eapply Permutation_cons_inv. exact HP.
  Qed.

  Lemma nodup_key_inj l a b : NoDup (map key l) -> In a l -> In b l -> key a = key b -> a = b.
  Proof.
    induction l as [|x r IH]; cbn; intros Hnd Ha Hb E; [contradiction|].
    inversion Hnd as [|? ? Hnot Hnd']; subst.
    destruct Ha as [->|Ha]; destruct Hb as [->|Hb]; auto.
    - exfalso. apply Hnot. rewrite E. apply in_map. exact Hb.
    - exfalso. apply Hnot. rewrite <- E. apply in_map. exact Ha.
  Qed.

  Lemma sort_by_perm_eq l1 l2 : Permutation l1 l2 -> NoDup (map key l1) -> sort_by key l1 = sort_by key l2.
  Proof.
    intros HP Hnd. apply (sorted_perm_unique kle).
    - intros a b Ha Hb Hab Hba.
      apply (Permutation_in _ (sort_by_perm l1)) in Ha. apply (Permutation_in _ (sort_by_perm l1)) in Hb.
      apply (nodup_key_inj l1); auto. apply String.leb_antisym; assumption.
    - apply sort_by_sorted.
    - apply sort_by_sorted.
    - rewrite sort_by_perm, sort_by_perm. exact HP.
  Qed.

  Lemma sort_by_map_key l : Permutation (map key (sort_by key l)) (map key l).
  Proof. apply Permutation_map. apply sort_by_perm. Qed.
End Sorting.

Lemma nodupb_NoDup l : nodupb l = true <-> NoDup l.
Proof.
  induction l as [|x r IH]; cbn; [split; [constructor|reflexivity]|].
  rewrite andb_true_iff, negb_true_iff, IH. split.
  - intros [H1 H2]. constructor; [|exact H2]. intros Hin. apply memb_In in Hin. congruence.
  - intros H. inversion H as [|? ? Hnot Hnd]; subst. split; [|exact Hnd].
    destruct (memb x r) eqn:E; [|reflexivity]. apply memb_In in E. contradiction.
Qed.

Lemma memb_false_notin s l : memb s l = false <-> ~ In s l.
Proof. rewrite <- memb_In. destruct (memb s l); split; congruence. Qed.


(* ------------------------------------------------------------------ lookups by name *)
Section Find.
  Context {A : Type} (key : A -> string).
  Definition findk (n : string) (l : list A) : option A := find (fun t => String.eqb n (key t)) l.

  Lemma findk_some n l t : findk n l = Some t -> In t l /\ key t = n.
  Proof.
    unfold findk. intros H. apply find_some in H. destruct H as [H1 H2].
    apply String.eqb_eq in H2. auto.
  Qed.

  Lemma findk_none n l : findk n l = None <-> ~ In n (map key l).
  Proof.
    unfold findk. induction l as [|x r IH]; cbn; [tauto|].
    destruct (String.eqb n (key x)) eqn:E.
    - apply String.eqb_eq in E. split; [discriminate|]. intros H. exfalso. apply H. left. auto.
    - apply String.eqb_neq in E. rewrite IH. split; [intros H [H1|H1]; [congruence|auto]|tauto].
  Qed.

  Lemma findk_nodup l t : NoDup (map key l) -> In t l -> findk (key t) l = Some t.
  Proof.
    unfold findk. induction l as [|x r IH]; cbn; intros Hnd Hin; [contradiction|].
    inversion Hnd as [|? ? Hnot Hnd']; subst.
    destruct Hin as [->|Hin]; [rewrite String.eqb_refl; reflexivity|].
    destruct (String.eqb (key t) (key x)) eqn:E; [|auto].
    apply String.eqb_eq in E. exfalso. apply Hnot. rewrite <- E. apply in_map. exact Hin.
  Qed.

  Lemma findk_perm n l1 l2 : Permutation l1 l2 -> NoDup (map key l1) -> findk n l1 = findk n l2.
  Proof.
    intros HP Hnd.
    assert (NoDup (map key l2)) as Hnd2 by (eapply Permutation_NoDup; [apply Permutation_map; exact HP|exact Hnd]).
    destruct (findk n l1) as [t|] eqn:E1.
    - apply findk_some in E1. destruct E1 as [Hin <-]. symmetry. apply findk_nodup; auto.
      eapply Permutation_in; eassumption.
    - symmetry. apply findk_none. apply findk_none in E1. intros H. apply E1.
      eapply Permutation_in; [apply Permutation_sym, Permutation_map; exact HP|exact H].
  Qed.

  Lemma findk_app n l1 l2 :
    findk n (l1 ++ l2) = match findk n l1 with Some t => Some t | None => findk n l2 end.
  Proof.
    unfold findk. induction l1 as [|x r IH]; cbn; [reflexivity|].
    destruct (String.eqb n (key x)); auto.
  Qed.
End Find.

Lemma find_decl_findk n d : find_decl n d = findk t_name n d.  Proof. reflexivity. Qed.
Lemma find_st_findk n d : find_st n d = findk st_name n d.      Proof. reflexivity. Qed.
Lemma find_sf_findk n d : find_sf n d = findk sf_name n d.      Proof. reflexivity. Qed.

Lemma has_decl_In n d : has_decl n d = true <-> In n (map t_name d).
Proof.
  unfold has_decl. rewrite find_decl_findk. destruct (findk t_name n d) eqn:E.
  - apply findk_some in E. destruct E as [H1 <-]. split; auto. intros _. apply in_map. exact H1.
  - apply findk_none in E. split; [discriminate|contradiction].
Qed.

Lemma has_decl_memb n d : has_decl n d = memb n (map t_name d).
Proof.
  destruct (has_decl n d) eqn:E1; destruct (memb n (map t_name d)) eqn:E2; auto.
  - apply has_decl_In in E1. apply memb_In in E1. congruence.
  - apply memb_In in E2. apply has_decl_In in E2. congruence.
Qed.

Lemma has_decl_perm n d1 d2 : Permutation d1 d2 -> has_decl n d1 = has_decl n d2.
Proof.
  intros HP. destruct (has_decl n d1) eqn:E1; destruct (has_decl n d2) eqn:E2; auto.
  - apply has_decl_In in E1. assert (In n (map t_name d2)) as H by (eapply Permutation_in; [apply Permutation_map; exact HP|exact E1]).
    apply has_decl_In in H. congruence.
  - apply has_decl_In in E2. assert (In n (map t_name d1)) as H by (eapply Permutation_in; [apply Permutation_sym, Permutation_map; exact HP|exact E2]).
    apply has_decl_In in H. congruence.
Qed.

Lemma memb_app x a b : memb x (a ++ b) = memb x a || memb x b.
Proof. induction a as [|y r IH]; cbn; [reflexivity|]. rewrite IH. apply orb_assoc. Qed.

(* ------------------------------------------------------------------ the reader on well-formed descriptors *)
(* (a) redeclared built-ins *)
Lemma builtin_check1_user t : is_builtin (t_name t) = false -> builtin_check1 t = Ok false.
Proof.
  unfold is_builtin, has_decl, builtin_check1.
  destruct (find_decl (t_name t) builtins); [discriminate|reflexivity].
Qed.

Lemma builtin_check_wf d2 l : forallb (wf_tdeclb d2) l = true ->
  builtin_check l = Ok (map t_name (filter (fun t => is_builtin (t_name t)) l)).
Proof.
  induction l as [|a l IH]; cbn [builtin_check forallb filter map]; intros H; [reflexivity|].
  apply andb_true_iff in H. destruct H as [H1 H2]. rewrite (IH H2). unfold wf_tdeclb in H1.
  destruct (is_builtin (t_name a)) eqn:E.
  - apply andb_true_iff in H1. destruct H1 as [_ H1].
    destruct (builtin_check1 a) as [[|]| |]; try discriminate. reflexivity.
  - rewrite builtin_check1_user by exact E. reflexivity.
Qed.

(* (b) creation in an admissible order *)
Definition sel_decls (d2 : descr) (order : list tname) : descr :=
  flat_map (fun n => if is_builtin n then [] else match find_decl n d2 with Some t => [t] | None => [] end) order.

Lemma create_types_ok d2 :
  (forall t, In t d2 -> is_builtin (t_name t) = false ->
             known d2 (t_super t) = true /\ memb (t_super t) final_types = false) ->
  forall order acc seen,
  (forall n, memb n seen = has_decl n acc) ->
  topo_okb d2 order seen = true ->
  create_types d2 order acc = Ok (acc ++ sel_decls d2 order).
Proof.
  intros Hwf. induction order as [|n r IH]; intros acc seen Hseen Htopo; cbn [create_types sel_decls flat_map].
  - rewrite app_nil_r. reflexivity.
  - cbn [topo_okb] in Htopo. fold (sel_decls d2 r). destruct (is_builtin n) eqn:Eb.
    + cbn [app]. eapply IH; eassumption.
    + destruct (find_decl n d2) as [t|] eqn:Ef; [|discriminate].
      rewrite find_decl_findk in Ef. apply findk_some in Ef. destruct Ef as [Hin Hn]. subst n.
      apply andb_true_iff in Htopo. destruct Htopo as [Htopo H3].
      apply andb_true_iff in Htopo. destruct Htopo as [H1 H2].
      apply negb_true_iff in H1. rewrite Hseen in H1. rewrite H1.
      destruct (Hwf t Hin Eb) as [Hk Hfin]. rewrite Hfin.
      assert (is_builtin (t_super t) || has_decl (t_super t) acc = true) as Hs.
      { rewrite <- Hseen. unfold known in Hk.
        destruct (is_builtin (t_super t)); [reflexivity|]. cbn in Hk, H2 |- *. rewrite Hk in H2. cbn in H2.
        rewrite orb_false_r in H2. exact H2. }
      rewrite Hs. cbn [negb]. rewrite (IH (acc ++ [t]) (t_name t :: seen)).
      * rewrite <- app_assoc. reflexivity.
      * intros x. rewrite has_decl_memb, map_app, memb_app. cbn [memb map]. rewrite orb_false_r.
        rewrite Hseen, has_decl_memb. apply orb_comm.
      * exact H3.
Qed.

Lemma sel_decls_spec d2 order t : In t (sel_decls d2 order) -> In t d2 /\ is_builtin (t_name t) = false /\ In (t_name t) order.
Proof.
  unfold sel_decls. rewrite in_flat_map. intros [n [Hn Ht]].
  destruct (is_builtin n) eqn:Eb; [contradiction|].
  destruct (find_decl n d2) as [t'|] eqn:Ef; [|contradiction].
  destruct Ht as [<-|[]]. rewrite find_decl_findk in Ef. apply findk_some in Ef. destruct Ef as [H1 H2].
  subst n. auto.
Qed.

Lemma topo_nodup d2 : forall order seen, topo_okb d2 order seen = true ->
  NoDup (map t_name (sel_decls d2 order)) /\ (forall x, In x (map t_name (sel_decls d2 order)) -> ~ In x seen).
Proof.
  induction order as [|n r IH]; intros seen H; cbn [sel_decls flat_map map].
  - split; [constructor|intros x []].
  - cbn [topo_okb] in H. fold (sel_decls d2 r). destruct (is_builtin n) eqn:Eb.
    + cbn [app]. apply IH. exact H.
    + destruct (find_decl n d2) as [t|] eqn:Ef; [|discriminate].
      rewrite find_decl_findk in Ef. apply findk_some in Ef. destruct Ef as [Hin Hn]. subst n.
      apply andb_true_iff in H. destruct H as [H H3]. apply andb_true_iff in H. destruct H as [H1 _].
      apply negb_true_iff in H1. apply memb_false_notin in H1.
      destruct (IH _ H3) as [Hnd Hnot]. cbn [app map]. split.
      * constructor; [|exact Hnd]. intros Hx. apply (Hnot _ Hx). left. reflexivity.
      * intros x [<-|Hx]; [exact H1|]. intros Hs. apply (Hnot _ Hx). right. exact Hs.
Qed.

Lemma NoDup_map_inv' {A B} (f : A -> B) l : NoDup (map f l) -> NoDup l.
Proof.
  induction l as [|x r IH]; cbn; intros H; [constructor|].
  inversion H as [|? ? Hnot Hnd]; subst. constructor; [|auto]. intros Hin. apply Hnot. apply in_map. exact Hin.
Qed.

Lemma user_decls_names d2 : NoDup (map t_name d2) -> NoDup (map t_name (user_decls d2)).
Proof.
  unfold user_decls. induction d2 as [|x r IH]; cbn; intros H; [constructor|].
  inversion H as [|? ? Hnot Hnd]; subst. destruct (negb (is_builtin (t_name x))); cbn; [|auto].
  constructor; [|auto]. intros Hin. apply Hnot. apply in_map_iff in Hin. destruct Hin as [y [Hy Hin]].
  apply filter_In in Hin. rewrite <- Hy. apply in_map. tauto.
Qed.

Lemma sel_decls_perm d2 order :
  NoDup (map t_name d2) -> topo_okb d2 order [] = true ->
  forallb (fun t => is_builtin (t_name t) || memb (t_name t) order) d2 = true ->
  Permutation (sel_decls d2 order) (user_decls d2).
Proof.
  intros Hnd Htopo Hcov. apply NoDup_Permutation.
  - apply (NoDup_map_inv' t_name). apply (topo_nodup d2 order []). exact Htopo.
  - apply (NoDup_map_inv' t_name). apply user_decls_names. exact Hnd.
  - intros t. unfold user_decls. rewrite filter_In. split.
    + intros H. apply sel_decls_spec in H. destruct H as [H1 [H2 _]]. rewrite H2. auto.
    + intros [Hin Hb]. apply negb_true_iff in Hb. rewrite forallb_forall in Hcov. specialize (Hcov _ Hin).
      rewrite Hb in Hcov. cbn in Hcov. apply memb_In in Hcov.
      unfold sel_decls. apply in_flat_map. exists (t_name t). split; [exact Hcov|].
      rewrite Hb. rewrite find_decl_findk, (findk_nodup t_name d2 t Hnd Hin). left. reflexivity.
Qed.

(* (c) features, type by type *)
Definition strel (a b : option stype) : Prop :=
  match a, b with
  | None, None => True
  | Some x, Some y => st_super x = st_super y /\ incl (map sf_name (st_feats x)) (map sf_name (st_feats y))
  | _, _ => False
  end.

Lemma all_feats_mono st full : (forall m, strel (find_st m st) (find_st m full)) ->
  forall k n l, all_feats k full n = Some l ->
  exists l', all_feats k st n = Some l' /\ incl (map sf_name l') (map sf_name l).
Proof.
  intros Hrel. induction k as [|k IH]; intros n l H; cbn [all_feats] in *; [discriminate|].
  destruct (is_builtin n).
  - exists l. split; [exact H|apply incl_refl].
  - specialize (Hrel n). destruct (find_st n full) as [y|]; [|discriminate].
    destruct (find_st n st) as [x|]; [|contradiction]. destruct Hrel as [Hs Hi].
    destruct (all_feats k full (st_super y)) as [l0|] eqn:E; [|discriminate].
    injection H as <-. destruct (IH _ _ E) as [l0' [E' Hi']]. rewrite Hs, E'.
    exists (st_feats x ++ l0'). split; [reflexivity|]. rewrite !map_app.
    apply incl_app; [apply incl_appl; exact Hi|apply incl_appr; exact Hi'].
Qed.

Lemma find_sf_none_incl nm l l' : find_sf nm l = None -> incl (map sf_name l') (map sf_name l) -> find_sf nm l' = None.
Proof.
  rewrite !find_sf_findk. intros H Hi. apply findk_none. apply findk_none in H. intros Hin. apply H, Hi, Hin.
Qed.

Lemma add_feats_ok inh : forall fs acc,
  NoDup (map sf_name (acc ++ fs)) -> (forall f, In f fs -> find_sf (sf_name f) inh = None) ->
  fold_left (add_feat inh) fs (Ok acc) = Ok (acc ++ fs).
Proof.
  induction fs as [|f fs IH]; intros acc Hnd Hinh; cbn [fold_left]; [rewrite app_nil_r; reflexivity|].
  assert (find_sf (sf_name f) acc = None) as E1.
  { rewrite find_sf_findk. apply findk_none. rewrite map_app in Hnd. cbn [map] in Hnd.
    apply NoDup_remove_2 in Hnd. intros Hin. apply Hnd. apply in_or_app. left. exact Hin. }
  unfold add_feat at 2. cbn [bind]. rewrite E1, (Hinh f (or_introl eq_refl)).
  rewrite (IH (acc ++ [f])).
  - rewrite <- app_assoc. reflexivity.
  - rewrite <- app_assoc. exact Hnd.
  - intros g Hg. apply Hinh. right. exact Hg.
Qed.

Definition partial (c1 c2 : descr) : list stype := map stype_of_decl c1 ++ map blank c2.

Lemma find_st_map (f : tdecl -> stype) n l : (forall t, st_name (f t) = t_name t) ->
  find_st n (map f l) = option_map f (find_decl n l).
Proof.
  intros Hf. unfold find_st, find_decl. induction l as [|x r IH]; cbn; [reflexivity|].
  rewrite Hf. destruct (String.eqb n (t_name x)); [reflexivity|exact IH].
Qed.

Lemma find_st_app n l1 l2 : find_st n (l1 ++ l2) = match find_st n l1 with Some t => Some t | None => find_st n l2 end.
Proof. apply (findk_app st_name). Qed.
Lemma find_decl_app n l1 l2 : find_decl n (l1 ++ l2) = match find_decl n l1 with Some t => Some t | None => find_decl n l2 end.
Proof. apply (findk_app t_name). Qed.

Lemma find_st_partial c1 c2 n : strel (find_st n (partial c1 c2)) (find_st n (map stype_of_decl (c1 ++ c2))).
Proof.
  unfold partial. rewrite map_app, !find_st_app.
  rewrite !(find_st_map stype_of_decl) by reflexivity. rewrite (find_st_map blank) by reflexivity.
  destruct (find_decl n c1) as [t|]; cbn.
  - split; [reflexivity|apply incl_refl].
  - destruct (find_decl n c2) as [t|]; cbn; [|exact I]. split; [reflexivity|]. apply incl_nil_l.
Qed.

Lemma set_feats_other n fs l : ~ In n (map st_name l) -> set_feats n fs l = l.
Proof.
  unfold set_feats. induction l as [|x r IH]; cbn; intros H; [reflexivity|].
  destruct (String.eqb n (st_name x)) eqn:E.
  - apply String.eqb_eq in E. exfalso. apply H. left. auto.
  - f_equal. apply IH. intros Hin. apply H. right. exact Hin.
Qed.

Lemma map_st_name_stype l : map st_name (map stype_of_decl l) = map t_name l.
Proof. rewrite map_map. reflexivity. Qed.
Lemma map_st_name_blank l : map st_name (map blank l) = map t_name l.
Proof. rewrite map_map. reflexivity. Qed.

Lemma set_feats_partial c1 t c2 : NoDup (map t_name (c1 ++ t :: c2)) ->
  set_feats (t_name t) (map sfeat_of_decl (t_feats t)) (partial c1 (t :: c2)) = partial (c1 ++ [t]) c2.
Proof.
  intros Hnd. unfold partial. rewrite map_app in Hnd. cbn [map] in Hnd.
  assert (~ In (t_name t) (map t_name c1) /\ ~ In (t_name t) (map t_name c2)) as [H1 H2].
  { apply NoDup_remove_2 in Hnd. split; intros H; apply Hnd; apply in_or_app; auto. }
  unfold set_feats. rewrite map_app. fold (set_feats (t_name t) (map sfeat_of_decl (t_feats t)) (map stype_of_decl c1)).
  rewrite set_feats_other by (rewrite map_st_name_stype; exact H1).
  cbn [map]. fold (set_feats (t_name t) (map sfeat_of_decl (t_feats t)) (map blank c2)).
  rewrite set_feats_other by (rewrite map_st_name_blank; exact H2).
  cbn [blank st_name]. rewrite String.eqb_refl. rewrite map_app, <- app_assoc. reflexivity.
Qed.

Lemma add_all_ok fuel full : forall c2 c1,
  NoDup (map t_name (c1 ++ c2)) ->
  (forall m, find_st m (map stype_of_decl (c1 ++ c2)) = find_st m full) ->
  (forall t, In t c2 -> noclash1 fuel full (stype_of_decl t) = true) ->
  add_all fuel c2 (partial c1 c2) = Ok (map stype_of_decl (c1 ++ c2)).
Proof.
  induction c2 as [|t c2 IH]; intros c1 Hnd Hfull Hnc; cbn [add_all].
  - unfold partial. cbn [map]. rewrite !app_nil_r. reflexivity.
  - pose proof (Hnc t (or_introl eq_refl)) as Ht. unfold noclash1 in Ht. cbn [stype_of_decl st_feats st_super] in Ht.
    apply andb_true_iff in Ht. destruct Ht as [Hndf Ht].
    destruct (all_feats fuel full (t_super t)) as [inh|] eqn:Einh; [|discriminate].
    destruct (all_feats_mono (partial c1 (t :: c2)) full) with (k := fuel) (n := t_super t) (l := inh) as [inh' [E' Hi]].
    { intros m. rewrite <- Hfull. apply find_st_partial. }
    { exact Einh. }
    rewrite E'. unfold add_feats. rewrite add_feats_ok.
    + cbn [bind app]. rewrite set_feats_partial by exact Hnd.
      rewrite IH.
      * rewrite <- app_assoc. reflexivity.
      * rewrite <- app_assoc. exact Hnd.
      * rewrite <- app_assoc. exact Hfull.
      * intros u Hu. apply Hnc. right. exact Hu.
    + cbn [app]. apply nodupb_NoDup. exact Hndf.
    + intros f Hf. rewrite forallb_forall in Ht. specialize (Ht f Hf).
      destruct (find_sf (sf_name f) inh) eqn:E; [discriminate|]. eapply find_sf_none_incl; eassumption.
Qed.

(* (d) the whole reader *)
Lemma spec_types_sel order d2 : spec_types order d2 = map stype_of_decl (sel_decls d2 order).
Proof.
  unfold spec_types, sel_decls. induction order as [|n r IH]; cbn [flat_map map]; [reflexivity|].
  rewrite map_app, <- IH. destruct (is_builtin n); [reflexivity|].
  destruct (find_decl n d2); reflexivity.
Qed.

Lemma wf_descr_parts d : wf_descrb d = true ->
  NoDup (map t_name (prep d)) /\ forallb (wf_tdeclb (prep d)) (prep d) = true
  /\ noclashb (map stype_of_decl (user_decls (prep d))) = true.
Proof.
  unfold wf_descrb. cbv zeta. rewrite !andb_true_iff, nodupb_NoDup. tauto.
Qed.

Lemma resolve_of_wf d2 : forallb (wf_tdeclb d2) d2 = true -> resolve_okb d2 = true.
Proof.
  unfold resolve_okb. rewrite !forallb_forall. intros H t Ht. specialize (H t Ht). unfold wf_tdeclb in H.
  apply andb_true_iff in H. destruct H as [H _]. apply andb_true_iff in H. destruct H as [H1 H2].
  rewrite H1. cbn. rewrite forallb_forall in *. intros f Hf. specialize (H2 f Hf). unfold wf_fdeclb in H2.
  apply andb_true_iff in H2. tauto.
Qed.

Lemma wf_user_super d2 : forallb (wf_tdeclb d2) d2 = true ->
  forall t, In t d2 -> is_builtin (t_name t) = false ->
  known d2 (t_super t) = true /\ memb (t_super t) final_types = false.
Proof.
  rewrite forallb_forall. intros H t Ht Hb. specialize (H t Ht). unfold wf_tdeclb in H. rewrite Hb in H.
  apply andb_true_iff in H. destruct H as [H H3]. apply andb_true_iff in H. destruct H as [H1 _].
  apply negb_true_iff in H3. auto.
Qed.

Theorem load_wf d order : wf_descrb d = true -> order_okb order d = true ->
  ts_of_descr order d = Ok (state_of order d).
Proof.
  intros Hwf Hord. apply wf_descr_parts in Hwf. destruct Hwf as [Hnd [Hall Hnc]].
  unfold order_okb in Hord. apply andb_true_iff in Hord. destruct Hord as [Htopo Hcov].
  unfold ts_of_descr. cbv zeta. fold (prep d). set (d2 := prep d) in *.
  rewrite (resolve_of_wf d2 Hall). cbn [negb].
  rewrite (builtin_check_wf d2 d2 Hall). cbn [bind].
  rewrite (create_types_ok d2 (wf_user_super d2 Hall) order [] []); [|reflexivity|exact Htopo]. cbn [bind app].
  set (created := sel_decls d2 order).
  pose proof (sel_decls_perm d2 order Hnd Htopo Hcov) as HP. fold created in HP.
  assert (NoDup (map t_name created)) as Hndc by (apply (topo_nodup d2 order []); exact Htopo).
  change (map blank created) with (partial [] created).
  rewrite (add_all_ok (S (List.length created)) (map stype_of_decl (user_decls d2)) created []).
  - cbn [bind app]. unfold state_of. fold d2. rewrite spec_types_sel. reflexivity.
  - exact Hndc.
  - intros m. cbn [app]. rewrite !find_st_findk. apply findk_perm.
    + apply Permutation_map. exact HP.
    + rewrite map_st_name_stype. exact Hndc.
  - intros t Ht. unfold noclashb in Hnc. rewrite forallb_forall in Hnc.
    rewrite map_length in Hnc. rewrite (Permutation_length HP). apply Hnc. apply in_map.
    eapply Permutation_in; eassumption.
Qed.

(* ------------------------------------------------------------------ permutations of the declarations *)
Lemma filter_perm {A} (f : A -> bool) l l' : Permutation l l' -> Permutation (filter f l) (filter f l').
Proof.
  induction 1 as [|x l l' HP IH|x y l|l l' l'' H1 IH1 H2 IH2]; cbn.
  - constructor.
  - destruct (f x); [constructor|]; exact IH.
  - destruct (f x), (f y); try reflexivity. apply perm_swap.
  - etransitivity; eassumption.
Qed.

Lemma forallb_perm {A} (f : A -> bool) l l' : Permutation l l' -> forallb f l = forallb f l'.
Proof.
  induction 1 as [|x l l' HP IH|x y l|l l' l'' H1 IH1 H2 IH2]; cbn; try congruence.
  destruct (f x), (f y); reflexivity.
Qed.

Lemma forallb_ext' {A} (f g : A -> bool) l : (forall x, In x l -> f x = g x) -> forallb f l = forallb g l.
Proof.
  induction l as [|x r IH]; cbn; intros H; [reflexivity|].
  rewrite (H x (or_introl eq_refl)), IH; [reflexivity|]. intros y Hy. apply H. right. exact Hy.
Qed.

Lemma prep_perm d1 d2 : Permutation d1 d2 -> Permutation (prep d1) (prep d2).
Proof.
  intros HP. unfold prep, with_docann, trim.
  assert (Permutation (map trim_type d1) (map trim_type d2)) as HP' by (apply Permutation_map; exact HP).
  rewrite (has_decl_perm _ _ _ HP'). destruct (has_decl DOCANN (map trim_type d2)); [exact HP'|].
  apply Permutation_app_tail. exact HP'.
Qed.

Lemma known_perm p1 p2 n : Permutation p1 p2 -> known p1 n = known p2 n.
Proof. intros HP. unfold known. rewrite (has_decl_perm _ _ _ HP). reflexivity. Qed.

Lemma wf_tdeclb_perm p1 p2 t : Permutation p1 p2 -> wf_tdeclb p1 t = wf_tdeclb p2 t.
Proof.
  intros HP. unfold wf_tdeclb. rewrite (known_perm _ _ _ HP). f_equal. f_equal.
  apply forallb_ext'. intros f _. unfold wf_fdeclb, feat_refs_ok. rewrite (known_perm _ _ _ HP).
  destruct (f_elem f); [rewrite (known_perm _ _ _ HP)|]; reflexivity.
Qed.

Lemma all_feats_ext st1 st2 : (forall m, find_st m st1 = find_st m st2) ->
  forall k n, all_feats k st1 n = all_feats k st2 n.
Proof.
  intros H. induction k as [|k IH]; intros n; cbn [all_feats]; [reflexivity|].
  rewrite H. destruct (is_builtin n); [reflexivity|]. destruct (find_st n st2); [|reflexivity].
  rewrite IH. reflexivity.
Qed.

Lemma noclashb_perm st1 st2 : Permutation st1 st2 -> NoDup (map st_name st1) -> noclashb st1 = noclashb st2.
Proof.
  intros HP Hnd. unfold noclashb. rewrite (Permutation_length HP). rewrite (forallb_perm _ _ _ HP).
  apply forallb_ext'. intros t _. unfold noclash1. f_equal.
  rewrite (all_feats_ext st1 st2); [reflexivity|].
  intros m. rewrite !find_st_findk. apply findk_perm; assumption.
Qed.

Lemma wf_descrb_perm d1 d2 : Permutation d1 d2 -> wf_descrb d1 = true -> wf_descrb d2 = true.
Proof.
  intros HP H. pose proof (prep_perm _ _ HP) as HPP. apply wf_descr_parts in H. destruct H as [Hnd [Hall Hnc]].
  unfold wf_descrb. cbv zeta. rewrite !andb_true_iff. repeat split.
  - apply nodupb_NoDup. eapply Permutation_NoDup; [apply Permutation_map; exact HPP|exact Hnd].
  - rewrite <- (forallb_perm _ _ _ HPP). rewrite <- Hall. apply forallb_ext'. intros t _.
    symmetry. apply wf_tdeclb_perm. exact HPP.
  - rewrite <- Hnc. symmetry. apply noclashb_perm.
    + apply Permutation_map. unfold user_decls. apply filter_perm. exact HPP.
    + rewrite map_st_name_stype. apply user_decls_names. exact Hnd.
Qed.

Lemma filter_names_nodup (f : tdecl -> bool) d : NoDup (map t_name d) -> NoDup (map t_name (filter f d)).
Proof.
  induction d as [|x r IH]; cbn; intros H; [constructor|].
  inversion H as [|? ? Hnot Hnd]; subst. destruct (f x); cbn; [|auto].
  constructor; [|auto]. intros Hin. apply Hnot. apply in_map_iff in Hin. destruct Hin as [y [Hy Hin]].
  apply filter_In in Hin. rewrite <- Hy. apply in_map. tauto.
Qed.

Lemma docann_not_builtin : is_builtin DOCANN = false.
Proof. reflexivity. Qed.

Lemma spec_redecl_nodup d : NoDup (map t_name (prep d)) -> NoDup (spec_redecl d).
Proof.
  intros Hnd. unfold spec_redecl, redecl_of.
  set (B := map t_name (filter (fun t => is_builtin (t_name t)) (prep d))).
  assert (NoDup B) as HB by (apply filter_names_nodup; exact Hnd).
  destruct (has_decl DOCANN (trim d)); cbn [app]; [|exact HB].
  constructor; [|exact HB]. unfold B. intros Hin. apply in_map_iff in Hin. destruct Hin as [t [Ht Hin]].
  apply filter_In in Hin. destruct Hin as [_ Hb]. rewrite Ht in Hb. rewrite docann_not_builtin in Hb. discriminate.
Qed.

Lemma spec_redecl_perm d1 d2 : Permutation d1 d2 -> Permutation (spec_redecl d1) (spec_redecl d2).
Proof.
  intros HP. unfold spec_redecl, redecl_of.
  assert (Permutation (trim d1) (trim d2)) as HT by (apply Permutation_map; exact HP).
  rewrite (has_decl_perm _ _ _ HT). apply Permutation_app_head. apply Permutation_map. apply filter_perm.
  apply prep_perm. exact HP.
Qed.

Lemma state_of_canon d1 d2 o1 o2 :
  Permutation d1 d2 -> wf_descrb d1 = true -> order_okb o1 d1 = true -> order_okb o2 d2 = true ->
  canon (state_of o1 d1) = canon (state_of o2 d2).
Proof.
  intros HP Hwf H1 H2. pose proof (wf_descrb_perm _ _ HP Hwf) as Hwf2.
  apply wf_descr_parts in Hwf. destruct Hwf as [Hnd1 _]. apply wf_descr_parts in Hwf2. destruct Hwf2 as [Hnd2 _].
  unfold order_okb in H1, H2. apply andb_true_iff in H1. destruct H1 as [Ht1 Hc1].
  apply andb_true_iff in H2. destruct H2 as [Ht2 Hc2].
  unfold canon, content, state_of. cbn [s_types s_redecl]. rewrite !spec_types_sel. f_equal.
  - apply sort_by_perm_eq.
    + apply Permutation_map. rewrite (sel_decls_perm _ _ Hnd1 Ht1 Hc1), (sel_decls_perm _ _ Hnd2 Ht2 Hc2).
      unfold user_decls. apply filter_perm. apply prep_perm. exact HP.
    + rewrite map_st_name_stype. apply (topo_nodup (prep d1) o1 []). exact Ht1.
  - unfold sort_names. apply sort_by_perm_eq.
    + apply spec_redecl_perm. exact HP.
    + rewrite map_id. apply spec_redecl_nodup. exact Hnd1.
Qed.

Theorem permutation_invariant d1 d2 o1 o2 :
  Permutation d1 d2 -> wf_descrb d1 = true -> order_okb o1 d1 = true -> order_okb o2 d2 = true ->
  exists s1 s2, ts_of_descr o1 d1 = Ok s1 /\ ts_of_descr o2 d2 = Ok s2 /\ canon s1 = canon s2.
Proof.
  intros HP Hwf H1 H2. exists (state_of o1 d1), (state_of o2 d2). repeat split.
  - apply load_wf; assumption.
  - apply load_wf; [eapply wf_descrb_perm; eassumption|assumption].
  - apply state_of_canon; assumption.
Qed.

(* ------------------------------------------------------------------ sorted lists, filters *)
Lemma sortedb_sorted {A} (ltb : A -> A -> bool) l :
  sortedb ltb l = true <-> StronglySorted (fun a b => ltb a b = true) l.
Proof.
  induction l as [|x r IH]; cbn; [split; [constructor|reflexivity]|].
  rewrite andb_true_iff, IH, forallb_forall, <- Forall_forall. split.
  - intros [H1 H2]. constructor; assumption.
  - intros H. inversion H; subst. auto.
Qed.

Lemma sorted_filter {A} (R : A -> A -> Prop) (f : A -> bool) l : StronglySorted R l -> StronglySorted R (filter f l).
Proof.
  induction 1 as [|x r Hs IH Hall]; cbn; [constructor|]. destruct (f x); [|exact IH].
  constructor; [exact IH|]. rewrite Forall_forall in *. intros y Hy. apply filter_In in Hy. apply Hall. tauto.
Qed.

Lemma sorted_impl_in {A} (R R' : A -> A -> Prop) l :
  (forall a b, In a l -> In b l -> R a b -> R' a b) -> StronglySorted R l -> StronglySorted R' l.
Proof.
  intros H Hs. induction Hs as [|x r Hs IH Hall]; [constructor|]. constructor.
  - apply IH. intros a b Ha Hb. apply H; right; assumption.
  - rewrite Forall_forall in *. intros y Hy. apply H; [left; reflexivity|right; exact Hy|apply Hall; exact Hy].
Qed.

Lemma sorted_map {A B} (f : A -> B) (R : B -> B -> Prop) l :
  StronglySorted (fun a b => R (f a) (f b)) l -> StronglySorted R (map f l).
Proof.
  induction 1 as [|x r Hs IH Hall]; cbn; constructor; [exact IH|].
  rewrite Forall_forall in *. intros y Hy. apply in_map_iff in Hy. destruct Hy as [z [<- Hz]]. apply Hall. exact Hz.
Qed.

Lemma filter_filter {A} (f g : A -> bool) l : filter f (filter g l) = filter (fun x => g x && f x) l.
Proof.
  induction l as [|x r IH]; cbn; [reflexivity|]. destruct (g x); cbn; [destruct (f x)|]; rewrite IH; reflexivity.
Qed.

Lemma filter_map_comm {A B} (f : A -> B) (p : B -> bool) l : filter p (map f l) = map f (filter (fun x => p (f x)) l).
Proof. induction l as [|x r IH]; cbn; [reflexivity|]. destruct (p (f x)); cbn; rewrite IH; reflexivity. Qed.

Lemma filter_ext' {A} (f g : A -> bool) l : (forall x, In x l -> f x = g x) -> filter f l = filter g l.
Proof.
  induction l as [|x r IH]; cbn; intros H; [reflexivity|].
  rewrite (H x (or_introl eq_refl)), IH; [reflexivity|]. intros y Hy. apply H. right. exact Hy.
Qed.

Lemma flat_map_perm {A B} (f : A -> list B) l l' : Permutation l l' -> Permutation (flat_map f l) (flat_map f l').
Proof.
  induction 1 as [|x l l' HP IH|x y l|l l' l'' H1 IH1 H2 IH2]; cbn.
  - constructor.
  - apply Permutation_app_head. exact IH.
  - rewrite !app_assoc. apply Permutation_app_tail. apply Permutation_app_comm.
  - etransitivity; eassumption.
Qed.

(* ------------------------------------------------------------------ structural equality reflects *)
Lemma opt_eqb_eq a b : opt_eqb a b = true -> a = b.
Proof. destruct a, b; cbn; try discriminate; auto. intros H. apply String.eqb_eq in H. congruence. Qed.
Lemma optb_eqb_eq a b : optb_eqb a b = true -> a = b.
Proof. destruct a as [[|]|], b as [[|]|]; cbn; try discriminate; auto. Qed.
Lemma list_eqb_eq {A} (eqb : A -> A -> bool) : (forall x y, eqb x y = true -> x = y) ->
  forall a b, list_eqb eqb a b = true -> a = b.
Proof.
  intros H. induction a as [|x a IH]; intros [|y b]; cbn; try discriminate; auto.
  intros E. apply andb_true_iff in E. destruct E as [E1 E2]. f_equal; auto.
Qed.
Lemma fdecl_eqb_eq a b : fdecl_eqb a b = true -> a = b.
Proof.
  destruct a, b. unfold fdecl_eqb. cbn. rewrite !andb_true_iff. intros [[[[H1 H2] H3] H4] H5].
  apply String.eqb_eq in H1, H3. apply opt_eqb_eq in H2, H4. apply optb_eqb_eq in H5. congruence.
Qed.
Lemma tdecl_eqb_eq a b : tdecl_eqb a b = true -> a = b.
Proof.
  destruct a, b. unfold tdecl_eqb. cbn. rewrite !andb_true_iff. intros [[[H1 H2] H3] H4].
  apply String.eqb_eq in H1, H3. apply opt_eqb_eq in H2. apply (list_eqb_eq _ fdecl_eqb_eq) in H4. congruence.
Qed.
Lemma sfeat_eqb_eq a b : sfeat_eqb a b = true -> a = b.
Proof.
  destruct a, b. unfold sfeat_eqb. cbn. rewrite !andb_true_iff. intros [[[[[H1 H2] H3] H4] H5] H6].
  apply String.eqb_eq in H1, H4. apply opt_eqb_eq in H3, H5. apply optb_eqb_eq in H6. apply Bool.eqb_prop in H2. congruence.
Qed.
Lemma stype_eqb_eq a b : stype_eqb a b = true -> a = b.
Proof.
  destruct a, b. unfold stype_eqb. cbn. rewrite !andb_true_iff. intros [[[H1 H2] H3] H4].
  apply String.eqb_eq in H1, H3. apply opt_eqb_eq in H2. apply (list_eqb_eq _ sfeat_eqb_eq) in H4. congruence.
Qed.

(* ------------------------------------------------------------------ writer after reader, pointwise *)
Lemma emit_sfeat_of_decl f : emit_feat (sfeat_of_decl f) = renorm_feat f.
Proof.
  unfold emit_feat, sfeat_of_decl, renorm_feat, pyname. cbn [sf_res sf_name sf_descr sf_range sf_elem sf_multi].
  destruct (String.eqb (f_name f) "self") eqn:E1.
  - apply String.eqb_eq in E1. rewrite E1. reflexivity.
  - destruct (String.eqb (f_name f) "type") eqn:E2.
    + apply String.eqb_eq in E2. rewrite E2. reflexivity.
    + reflexivity.
Qed.

Lemma emit_stype_of_decl t : emit_type (stype_of_decl t) = renorm_type t.
Proof.
  unfold emit_type, stype_of_decl, renorm_type. cbn [st_name st_descr st_super st_feats]. f_equal.
  rewrite map_map. apply map_ext. apply emit_sfeat_of_decl.
Qed.

Lemma builtins_renorm : forallb (fun b => tdecl_eqb (renorm_type b) b) builtins = true.
Proof. vm_compute. reflexivity. Qed.
Lemma builtins_trimmed : forallb (fun b => tdecl_eqb (trim_type b) b) builtins = true.
Proof. vm_compute. reflexivity. Qed.

(* ------------------------------------------------------------------ descriptors in written form *)
Definition isRd (t : tdecl) : bool := is_redecl_name (t_name t).
Definition name_le (a b : tdecl) : Prop := String.leb (t_name a) (t_name b) = true.

Lemma split_sorted l : sortedb key_ltb l = true -> l = filter isRd l ++ filter (fun t => negb (isRd t)) l.
Proof.
  induction l as [|x r IH]; cbn [sortedb filter]; intros H; [reflexivity|].
  apply andb_true_iff in H. destruct H as [H1 H2]. destruct (isRd x) eqn:E; cbn [negb app].
  - f_equal. apply IH. exact H2.
  - assert (forall y, In y r -> isRd y = false) as Hn.
    { rewrite forallb_forall in H1. intros y Hy. specialize (H1 y Hy). unfold key_ltb in H1. fold (isRd x) (isRd y) in H1.
      rewrite E in H1. cbn in H1. destruct (isRd y); [discriminate|reflexivity]. }
    assert (filter isRd r = []) as ->.
    { clear -Hn. induction r as [|y r IH]; cbn; [reflexivity|]. rewrite (Hn y (or_introl eq_refl)). apply IH.
      intros z Hz. apply Hn. right. exact Hz. }
    cbn [app]. f_equal.
    clear -Hn. induction r as [|y r IH]; cbn; [reflexivity|]. rewrite (Hn y (or_introl eq_refl)). cbn. f_equal. apply IH.
    intros z Hz. apply Hn. right. exact Hz.
Qed.

Lemma class_sorted (c : bool) l : sortedb key_ltb l = true ->
  StronglySorted name_le (filter (fun t => Bool.eqb (isRd t) c) l).
Proof.
  intros H. apply sortedb_sorted in H. apply (sorted_filter _ (fun t => Bool.eqb (isRd t) c)) in H.
  eapply sorted_impl_in; [|exact H]. intros a b Ha Hb Hab. cbn beta in Hab.
  apply filter_In in Ha. apply filter_In in Hb. destruct Ha as [_ Ha]. destruct Hb as [_ Hb].
  apply Bool.eqb_prop in Ha. apply Bool.eqb_prop in Hb. unfold key_ltb in Hab. fold (isRd a) (isRd b) in Hab.
  rewrite Ha, Hb in Hab. unfold name_le. apply ltb_leb. destruct c; cbn in Hab; exact Hab.
Qed.

Lemma class_sorted_R l : sortedb key_ltb l = true -> StronglySorted name_le (filter isRd l).
Proof.
  intros H. rewrite (filter_ext' isRd (fun t => Bool.eqb (isRd t) true)); [apply class_sorted; exact H|].
  intros x _. destruct (isRd x); reflexivity.
Qed.
Lemma class_sorted_U l : sortedb key_ltb l = true -> StronglySorted name_le (filter (fun t => negb (isRd t)) l).
Proof.
  intros H. rewrite (filter_ext' (fun t => negb (isRd t)) (fun t => Bool.eqb (isRd t) false)); [apply class_sorted; exact H|].
  intros x _. destruct (isRd x); reflexivity.
Qed.

Lemma find_decl_user n l : is_builtin n = false -> find_decl n (user_decls l) = find_decl n l.
Proof.
  intros Hn. unfold user_decls, find_decl. induction l as [|x r IH]; cbn; [reflexivity|].
  destruct (String.eqb n (t_name x)) eqn:E.
  - apply String.eqb_eq in E. rewrite <- E, Hn. cbn. rewrite E, String.eqb_refl. reflexivity.
  - destruct (negb (is_builtin (t_name x))); cbn; [rewrite E|]; exact IH.
Qed.

Lemma is_redecl_docann : is_redecl_name DOCANN = true.
Proof. reflexivity. Qed.

Lemma NoDup_app_l {A} (l l' : list A) : NoDup (l ++ l') -> NoDup l.
Proof.
  induction l as [|x r IH]; cbn; intros H; [constructor|]. inversion H as [|? ? Hnot Hnd]; subst.
  constructor; [|auto]. intros Hin. apply Hnot. apply in_or_app. left. exact Hin.
Qed.

Section Reemit.
  Variable d : descr.
  Variable order : list tname.
  Hypothesis Hwf : wf_descrb d = true.
  Hypothesis Hord : order_okb order d = true.
  Hypothesis Hsorted : sortedb key_ltb (trim d) = true.
  Hypothesis Hexact : forallb exact_builtinb (trim d) = true.

  Let T := trim d.
  Let P := prep d.
  Let s := state_of order d.

  Lemma re_P : P = if has_decl DOCANN T then T else T ++ [default_docann].
  Proof. reflexivity. Qed.

  Lemma re_ndP : NoDup (map t_name P).
  Proof. apply wf_descr_parts in Hwf. tauto. Qed.

  Lemma re_T_in_P t : In t T -> In t P.
  Proof. rewrite re_P. destruct (has_decl DOCANN T); [auto|]. intros H. apply in_or_app. left. exact H. Qed.

  Lemma re_filter_builtin : filter (fun t => is_builtin (t_name t)) P = filter (fun t => is_builtin (t_name t)) T.
  Proof.
    rewrite re_P. destruct (has_decl DOCANN T); [reflexivity|]. rewrite filter_app. cbn. apply app_nil_r.
  Qed.

  Lemma re_filter_user : filter (fun t => negb (isRd t)) P = filter (fun t => negb (isRd t)) T.
  Proof.
    rewrite re_P. destruct (has_decl DOCANN T); [reflexivity|]. rewrite filter_app. cbn. apply app_nil_r.
  Qed.

  Lemma re_redecl : s_redecl s = (if has_decl DOCANN T then [DOCANN] else []) ++ map t_name (filter (fun t => is_builtin (t_name t)) T).
  Proof. unfold s, state_of, spec_redecl, redecl_of. cbn [s_redecl]. fold P T. rewrite re_filter_builtin. reflexivity. Qed.

  Lemma re_sel_perm : Permutation (sel_decls P order) (user_decls P).
  Proof.
    unfold order_okb in Hord. apply andb_true_iff in Hord. destruct Hord as [H1 H2].
    apply sel_decls_perm; [exact re_ndP|exact H1|exact H2].
  Qed.

  Lemma re_sel_nodup : NoDup (map t_name (sel_decls P order)).
  Proof.
    unfold order_okb in Hord. apply andb_true_iff in Hord. destruct Hord as [H1 _].
    apply (topo_nodup P order []). exact H1.
  Qed.

  Lemma re_find_st n : is_builtin n = false -> find_st n (s_types s) = option_map stype_of_decl (find_decl n P).
  Proof.
    intros Hn. unfold s, state_of. cbn [s_types]. fold P. rewrite spec_types_sel.
    rewrite find_st_findk, (findk_perm st_name n _ (map stype_of_decl (user_decls P))).
    - rewrite <- find_st_findk, (find_st_map stype_of_decl) by reflexivity. rewrite find_decl_user by exact Hn. reflexivity.
    - apply Permutation_map. exact re_sel_perm.
    - rewrite map_st_name_stype. exact re_sel_nodup.
  Qed.

  Lemma re_emit_names : emit_names s = s_redecl s.
  Proof.
    unfold emit_names. destruct (memb DOCANN (s_redecl s)) eqn:Em; [rewrite andb_false_r; reflexivity|].
    assert (has_decl DOCANN T = false) as Hda.
    { rewrite re_redecl in Em. destruct (has_decl DOCANN T); [|reflexivity]. cbn in Em. discriminate. }
    unfold docann_extended. rewrite re_find_st by reflexivity. rewrite re_P, Hda.
    rewrite find_decl_app. unfold has_decl in Hda. destruct (find_decl DOCANN T); [discriminate|].
    vm_compute. reflexivity.
  Qed.

  Lemma re_names_R : sort_names (s_redecl s) = map t_name (filter isRd T).
  Proof.
    apply (sorted_perm_unique (fun a b => String.leb a b = true)).
    - intros a b _ _. apply String.leb_antisym.
    - apply (sort_by_sorted (fun x : string => x)).
    - apply sorted_map. apply class_sorted_R. exact Hsorted.
    - unfold sort_names. rewrite sort_by_perm. apply NoDup_Permutation.
      + unfold s, state_of. cbn [s_redecl]. apply spec_redecl_nodup. exact re_ndP.
      + apply filter_names_nodup.
        pose proof re_ndP as H. rewrite re_P in H. destruct (has_decl DOCANN T); [exact H|].
        rewrite map_app in H. apply NoDup_app_l in H. exact H.
      + intros x. rewrite re_redecl, in_app_iff, !in_map_iff. split.
        * intros [H|[t [Hn Ht]]].
          -- destruct (has_decl DOCANN T) eqn:E; [|contradiction]. destruct H as [<-|[]].
             apply has_decl_In in E. apply in_map_iff in E. destruct E as [t [Hn Ht]]. exists t. split; [exact Hn|].
             apply filter_In. split; [exact Ht|]. unfold isRd. rewrite Hn. reflexivity.
          -- exists t. split; [exact Hn|]. apply filter_In in Ht. apply filter_In. split; [tauto|].
             unfold isRd, is_redecl_name. destruct Ht as [_ ->]. reflexivity.
        * intros [t [Hn Ht]]. apply filter_In in Ht. destruct Ht as [Ht Hr]. unfold isRd, is_redecl_name in Hr.
          destruct (is_builtin (t_name t)) eqn:Eb.
          -- right. exists t. split; [exact Hn|]. apply filter_In. auto.
          -- left. cbn in Hr. apply String.eqb_eq in Hr.
             assert (has_decl DOCANN T = true) as ->.
             { apply has_decl_In. rewrite <- Hr. apply in_map. exact Ht. }
             left. congruence.
  Qed.

  Lemma re_emit_redecl t : In t T -> isRd t = true -> emit_redecl s (t_name t) = [renorm_type t].
  Proof.
    intros Ht Hr. unfold emit_redecl. destruct (find_decl (t_name t) builtins) as [b|] eqn:Eb.
    - rewrite forallb_forall in Hexact. specialize (Hexact t Ht). unfold exact_builtinb in Hexact. rewrite Eb in Hexact.
      apply tdecl_eqb_eq in Hexact. subst b.
      rewrite find_decl_findk in Eb. apply findk_some in Eb. destruct Eb as [Hin _].
      pose proof builtins_renorm as H. rewrite forallb_forall in H. specialize (H t Hin). apply tdecl_eqb_eq in H.
      rewrite H. reflexivity.
    - assert (is_builtin (t_name t) = false) as Hnb by (unfold is_builtin, has_decl; rewrite Eb; reflexivity).
      rewrite re_find_st by exact Hnb.
      rewrite find_decl_findk, (findk_nodup t_name P t re_ndP (re_T_in_P t Ht)). cbn.
      rewrite emit_stype_of_decl. reflexivity.
  Qed.

  Lemma re_part_R : flat_map (emit_redecl s) (sort_names (emit_names s)) = map renorm_type (filter isRd T).
  Proof.
    rewrite re_emit_names, re_names_R.
    assert (forall l, (forall t, In t l -> In t T /\ isRd t = true) ->
                      flat_map (emit_redecl s) (map t_name l) = map renorm_type l) as H.
    { induction l as [|x r IH]; intros Hl; cbn [map flat_map]; [reflexivity|].
      destruct (Hl x (or_introl eq_refl)) as [H1 H2]. rewrite (re_emit_redecl x H1 H2). cbn [app]. f_equal.
      apply IH. intros y Hy. apply Hl. right. exact Hy. }
    apply H. intros t Ht. apply filter_In in Ht. exact Ht.
  Qed.

  Lemma re_part_U :
    filter (fun t => negb (String.eqb (st_name t) DOCANN)) (sort_by st_name (s_types s))
    = map stype_of_decl (filter (fun t => negb (isRd t)) T).
  Proof.
    apply (sorted_perm_unique (kle st_name)).
    - intros a b Ha Hb Hab Hba. apply filter_In in Ha. apply filter_In in Hb. destruct Ha as [Ha _]. destruct Hb as [Hb _].
      apply (nodup_key_inj st_name (sort_by st_name (s_types s))); auto.
      + eapply Permutation_NoDup; [apply Permutation_sym, sort_by_map_key|].
        unfold s, state_of. cbn [s_types]. fold P. rewrite spec_types_sel, map_st_name_stype. exact re_sel_nodup.
      + apply String.leb_antisym; assumption.
    - apply sorted_filter. apply sort_by_sorted.
    - apply sorted_map. apply class_sorted_U. exact Hsorted.
    - rewrite (filter_perm _ _ _ (sort_by_perm st_name (s_types s))).
      unfold s, state_of. cbn [s_types]. fold P. rewrite spec_types_sel.
      rewrite (filter_perm _ _ _ (Permutation_map stype_of_decl re_sel_perm)).
      rewrite filter_map_comm. cbn [stype_of_decl st_name]. unfold user_decls. rewrite filter_filter.
      rewrite <- re_filter_user. apply Permutation_map.
      rewrite (filter_ext' (fun x => negb (is_builtin (t_name x)) && negb (String.eqb (t_name x) DOCANN)) (fun t => negb (isRd t))); [reflexivity|].
      intros x _. unfold isRd, is_redecl_name. rewrite negb_orb. reflexivity.
  Qed.

  Lemma reemit_state_of : descr_of_ts s = trimmed d.
  Proof.
    unfold descr_of_ts, trimmed. fold T. rewrite re_part_R, re_part_U.
    rewrite (split_sorted T Hsorted) at 3. rewrite map_app, map_map. f_equal.
    apply map_ext. apply emit_stype_of_decl.
  Qed.
End Reemit.

Theorem reemit_identical d order s :
  wf_descrb d = true -> emitted_formb d = true -> order_okb order d = true ->
  ts_of_descr order d = Ok s -> descr_of_ts s = trimmed d.
Proof.
  intros Hwf Hem Hord Hload. rewrite (load_wf d order Hwf Hord) in Hload. injection Hload as <-.
  unfold emitted_formb in Hem. apply andb_true_iff in Hem. destruct Hem as [H1 H2].
  apply reemit_state_of; assumption.
Qed.

(* ------------------------------------------------------------------ reader after writer, pointwise *)
Definition D (t : stype) : tdecl := trim_type (emit_type t).

Lemma trimmedb_strip x : trimmedb x = true -> strip x = x.
Proof. unfold trimmedb. intros H. apply andb_true_iff in H. destruct H as [H _]. apply String.eqb_eq. exact H. Qed.

Lemma trimmedb_nonempty x : trimmedb x = true -> String.eqb x "" = false.
Proof. unfold trimmedb. intros H. apply andb_true_iff in H. destruct H as [_ H]. apply negb_true_iff. exact H. Qed.

Lemma K_feat st f : wf_sfeatb st f = true -> sfeat_of_decl (trim_feat (emit_feat f)) = norm_feat f.
Proof.
  destruct f as [nm rs ds rg el mu]. unfold wf_sfeatb, reserved_okb. cbn [sf_name sf_res sf_range sf_elem].
  rewrite !andb_true_iff. intros [[[Hres Hrg] _] Hel].
  assert (option_map strip el = el) as Eel.
  { destruct el as [e|]; [|reflexivity]. apply andb_true_iff in Hel. destruct Hel as [Hel _].
    cbn. rewrite (trimmedb_strip _ Hel). reflexivity. }
  unfold sfeat_of_decl, trim_feat, emit_feat, norm_feat, norm_d.
  cbn [sf_name sf_res sf_descr sf_range sf_elem sf_multi f_name f_descr f_range f_elem f_multi].
  rewrite (trimmedb_strip _ Hrg), Eel.
  destruct rs.
  - apply orb_true_iff in Hres. destruct Hres as [H|H]; apply String.eqb_eq in H; subst nm; reflexivity.
  - apply andb_true_iff in Hres. destruct Hres as [Hn Ht]. rewrite (trimmedb_strip _ Ht).
    apply negb_true_iff in Hn. unfold pyname. rewrite Hn. reflexivity.
Qed.

Lemma K_feat_name st f : wf_sfeatb st f = true -> String.eqb (f_name (trim_feat (emit_feat f))) "" = false.
Proof.
  destruct f as [nm rs ds rg el mu]. unfold wf_sfeatb, reserved_okb. cbn [sf_name sf_res sf_range sf_elem].
  rewrite !andb_true_iff. intros [[[Hres _] _] _]. unfold trim_feat, emit_feat. cbn [sf_name sf_res f_name].
  destruct rs.
  - apply orb_true_iff in Hres. destruct Hres as [H|H]; apply String.eqb_eq in H; subst nm; reflexivity.
  - apply andb_true_iff in Hres. destruct Hres as [_ Ht]. rewrite (trimmedb_strip _ Ht). apply trimmedb_nonempty. exact Ht.
Qed.

Lemma wf_stype_parts st t : wf_stypeb st t = true ->
  trimmedb (st_name t) = true /\ is_builtin (st_name t) = false /\ trimmedb (st_super t) = true /\
  knownst st (st_super t) = true /\ memb (st_super t) final_types = false /\ forallb (wf_sfeatb st) (st_feats t) = true.
Proof.
  unfold wf_stypeb. rewrite !andb_true_iff, !negb_true_iff. tauto.
Qed.

Lemma D_name st t : wf_stypeb st t = true -> t_name (D t) = st_name t.
Proof. intros H. apply wf_stype_parts in H. destruct H as [H _]. cbn. apply trimmedb_strip. exact H. Qed.

Lemma D_super st t : wf_stypeb st t = true -> t_super (D t) = st_super t.
Proof. intros H. apply wf_stype_parts in H. destruct H as [_ [_ [H _]]]. cbn. apply trimmedb_strip. exact H. Qed.

Lemma K_type st t : wf_stypeb st t = true -> stype_of_decl (D t) = norm_type t.
Proof.
  intros H. pose proof (D_name st t H) as Hn. pose proof (D_super st t H) as Hs.
  apply wf_stype_parts in H. destruct H as [_ [_ [_ [_ [_ Hf]]]]].
  unfold stype_of_decl, norm_type. rewrite Hn, Hs. f_equal.
  unfold D, trim_type, emit_type. cbn [t_feats st_feats]. rewrite !map_map.
  rewrite forallb_forall in Hf. apply map_ext_in. intros f Hin. apply (K_feat st). apply Hf. exact Hin.
Qed.

Lemma memb_perm x l l' : Permutation l l' -> memb x l = memb x l'.
Proof.
  intros HP. destruct (memb x l) eqn:E1; destruct (memb x l') eqn:E2; auto.
  - apply memb_In in E1. apply (Permutation_in _ HP) in E1. apply memb_In in E1. congruence.
  - apply memb_In in E2. apply (Permutation_in _ (Permutation_sym HP)) in E2. apply memb_In in E2. congruence.
Qed.

Lemma NoDup_app_intro {A} (l l' : list A) : NoDup l -> NoDup l' -> (forall x, In x l -> ~ In x l') -> NoDup (l ++ l').
Proof.
  induction l as [|x r IH]; cbn; intros H1 H2 Hd; [exact H2|].
  inversion H1 as [|? ? Hnot Hnd]; subst. constructor.
  - intros Hin. apply in_app_or in Hin. destruct Hin as [Hin|Hin]; [contradiction|]. apply (Hd x); auto.
  - apply IH; [exact Hnd|exact H2|]. intros y Hy. apply Hd. right. exact Hy.
Qed.

Lemma map_flat_map {A B C} (f : B -> C) (g : A -> list B) l : map f (flat_map g l) = flat_map (fun x => map f (g x)) l.
Proof. induction l as [|x r IH]; cbn; [reflexivity|]. rewrite map_app, IH. reflexivity. Qed.

Lemma flat_map_singleton {A B} (g : A -> list B) (h : A -> B) l :
  (forall x, In x l -> g x = [h x]) -> flat_map g l = map h l.
Proof.
  induction l as [|x r IH]; cbn; intros H; [reflexivity|]. rewrite (H x (or_introl eq_refl)). cbn. f_equal.
  apply IH. intros y Hy. apply H. right. exact Hy.
Qed.

Lemma filter_name_single {A} (key : A -> string) n l t :
  NoDup (map key l) -> findk key n l = Some t -> filter (fun x => String.eqb (key x) n) l = [t].
Proof.
  unfold findk. induction l as [|x r IH]; cbn; intros Hnd H; [discriminate|].
  inversion Hnd as [|? ? Hnot Hnd']; subst. rewrite (String.eqb_sym (key x) n).
  destruct (String.eqb n (key x)) eqn:E.
  - injection H as ->. f_equal. apply String.eqb_eq in E.
    clear -Hnot E. induction r as [|y r IH]; cbn; [reflexivity|].
    destruct (String.eqb (key y) n) eqn:E2.
    + apply String.eqb_eq in E2. exfalso. apply Hnot. left. congruence.
    + apply IH. intros Hin. apply Hnot. right. exact Hin.
  - apply IH; assumption.
Qed.

Lemma filter_partition_perm {A} (f : A -> bool) l : Permutation l (filter f l ++ filter (fun x => negb (f x)) l).
Proof.
  induction l as [|x r IH]; cbn; [constructor|]. destruct (f x); cbn.
  - constructor. exact IH.
  - apply Permutation_cons_app. exact IH.
Qed.

(* ------------------------------------------------------------------ the written descriptor of a well-formed type system *)
(* the sections below only need the well-formedness WITHOUT the fuel bound of the no-clash walk (wf_ts_laxb); the
   theorems for wf_tsb follow through wf_ts_lax_of *)
Lemma noclash_lax_of st : noclashb st = true -> noclash_laxb st = true.
Proof.
  unfold noclashb, noclash_laxb. rewrite !forallb_forall. intros H t Ht. specialize (H t Ht).
  unfold noclash1, noclash1_lax in *. apply andb_true_iff in H. destruct H as [-> H]. cbn [andb].
  destruct (all_feats _ _ (st_super t)); [exact H|reflexivity].
Qed.
Lemma wf_ts_lax_of s : wf_tsb s = true -> wf_ts_laxb s = true.
Proof.
  unfold wf_tsb, wf_ts_laxb. rewrite !andb_true_iff. intros [[[[[H1 H2] H3] H4] H5] H6]. repeat split; auto.
  apply noclash_lax_of. exact H3.
Qed.

Section Roundtrip.
  Variable s : tsys.
  Hypothesis Hwf : wf_ts_laxb s = true.

  Let types := s_types s.
  Let EN := emit_names s.
  Let SN := sort_names EN.
  Let UT := filter (fun t => negb (String.eqb (st_name t) DOCANN)) (sort_by st_name types).
  Let em := memb DOCANN EN.

  Lemma rt_parts :
    NoDup (map st_name types) /\ forallb (wf_stypeb types) types = true /\ noclash_laxb types = true /\
    NoDup (s_redecl s) /\
    forallb (fun n => (is_builtin n && negb (String.eqb n "uima.cas.TOP")) || String.eqb n DOCANN) (s_redecl s) = true /\
    docann_okb s = true.
  Proof. unfold wf_ts_laxb in Hwf. rewrite !andb_true_iff, !nodupb_NoDup in Hwf. tauto. Qed.

  Lemma rt_wf_type t : In t types -> wf_stypeb types t = true.
  Proof. destruct rt_parts as [_ [H _]]. rewrite forallb_forall in H. apply H. Qed.

  Lemma rt_da : exists da, find_st DOCANN types = Some da /\ In da types /\ st_name da = DOCANN /\
                (em = false -> norm_type da = stype_of_decl default_docann).
  Proof.
    destruct rt_parts as [_ [_ [_ [_ [_ H]]]]]. unfold docann_okb in H. fold types in H.
    destruct (find_st DOCANN types) as [da|] eqn:E; [|discriminate]. exists da. split; [reflexivity|].
    pose proof E as E'. rewrite find_st_findk in E'. apply findk_some in E'. destruct E' as [H1 H2]. repeat split; auto.
    intros Hem. unfold em, EN, emit_names in Hem.
    destruct (docann_extended s) eqn:Ex; destruct (memb DOCANN (s_redecl s)) eqn:Em; cbn in Hem;
      try (rewrite Em in Hem); try discriminate.
    unfold docann_extended in Ex. fold types in Ex. rewrite E in Ex. apply negb_false_iff in Ex.
    apply stype_eqb_eq in Ex. rewrite Ex. reflexivity.
  Qed.

  Lemma rt_EN_nodup : NoDup EN.
  Proof.
    destruct rt_parts as [_ [_ [_ [H _]]]]. unfold EN, emit_names.
    destruct (docann_extended s && negb (memb DOCANN (s_redecl s))) eqn:E; [|exact H].
    constructor; [|exact H]. apply andb_true_iff in E. destruct E as [_ E]. apply negb_true_iff in E.
    apply memb_false_notin. exact E.
  Qed.

  Lemma rt_EN_class n : In n EN -> (is_builtin n = true /\ n <> "uima.cas.TOP") \/ n = DOCANN.
  Proof.
    destruct rt_parts as [_ [_ [_ [_ [H _]]]]]. rewrite forallb_forall in H. unfold EN, emit_names.
    intros Hin. assert (n = DOCANN \/ In n (s_redecl s)) as [->|Hn]; [|right; reflexivity|].
    { destruct (docann_extended s && negb (memb DOCANN (s_redecl s))); [destruct Hin; auto|auto]. }
    specialize (H n Hn). apply orb_true_iff in H. destruct H as [H|H].
    - left. apply andb_true_iff in H. destruct H as [H1 H2]. split; [exact H1|].
      apply negb_true_iff in H2. apply String.eqb_neq. exact H2.
    - right. apply String.eqb_eq. exact H.
  Qed.

  Lemma rt_SN_in n : In n SN <-> In n EN.
  Proof.
    unfold SN, sort_names. split; intros H.
    - eapply Permutation_in; [apply sort_by_perm|exact H].
    - eapply Permutation_in; [apply Permutation_sym, sort_by_perm|exact H].
  Qed.

  (* the declaration written for a name of the first loop, after trimming *)
  Definition Rn (da : stype) (n : tname) : tdecl :=
    match find_decl n builtins with Some b => b | None => D da end.

  Lemma rt_trim_redecl da n : find_st DOCANN types = Some da -> In n EN -> trim (emit_redecl s n) = [Rn da n].
  Proof.
    intros Hda Hn. unfold emit_redecl, Rn. destruct (find_decl n builtins) as [b|] eqn:Eb.
    - cbn. f_equal. rewrite find_decl_findk in Eb. apply findk_some in Eb. destruct Eb as [Hin _].
      pose proof builtins_trimmed as H. rewrite forallb_forall in H. apply tdecl_eqb_eq. apply H. exact Hin.
    - destruct (rt_EN_class n Hn) as [[Hb _]| ->].
      + unfold is_builtin, has_decl in Hb. rewrite Eb in Hb. discriminate.
      + fold types. rewrite Hda. reflexivity.
  Qed.

  Lemma rt_Rn_name da n : In da types -> st_name da = DOCANN -> In n EN -> t_name (Rn da n) = n.
  Proof.
    intros Hin Hname Hn. unfold Rn. destruct (find_decl n builtins) as [b|] eqn:Eb.
    - rewrite find_decl_findk in Eb. apply findk_some in Eb. tauto.
    - destruct (rt_EN_class n Hn) as [[Hb _]| ->].
      + unfold is_builtin, has_decl in Hb. rewrite Eb in Hb. discriminate.
      + rewrite (D_name types da (rt_wf_type da Hin)). exact Hname.
  Qed.

  Lemma rt_UT_in t : In t UT <-> In t types /\ st_name t <> DOCANN.
  Proof.
    unfold UT. rewrite filter_In, negb_true_iff, String.eqb_neq. split; intros [H1 H2]; split; auto.
    - eapply Permutation_in; [apply sort_by_perm|exact H1].
    - eapply Permutation_in; [apply Permutation_sym, sort_by_perm|exact H1].
  Qed.

  Lemma rt_D_names l : (forall t, In t l -> In t types) -> map t_name (map D l) = map st_name l.
  Proof.
    intros H. rewrite map_map. apply map_ext_in. intros t Ht. apply (D_name types). apply rt_wf_type. apply H. exact Ht.
  Qed.

  Lemma rt_trim_emitted da : find_st DOCANN types = Some da ->
    trim (descr_of_ts s) = map (Rn da) SN ++ map D UT.
  Proof.
    intros Hda. unfold descr_of_ts, trim. rewrite map_app. fold EN SN types UT. f_equal.
    - rewrite map_flat_map. apply flat_map_singleton. intros n Hn. apply (rt_trim_redecl da n Hda). apply rt_SN_in. exact Hn.
    - rewrite map_map. reflexivity.
  Qed.

  Lemma rt_names_R da : In da types -> st_name da = DOCANN -> map t_name (map (Rn da) SN) = SN.
  Proof.
    intros H1 H2. rewrite map_map. rewrite <- (map_id SN) at 2. apply map_ext_in. intros n Hn.
    apply rt_Rn_name; auto. apply rt_SN_in. exact Hn.
  Qed.

  Lemma rt_UT_names_no_docann : ~ In DOCANN (map st_name UT).
  Proof. intros H. apply in_map_iff in H. destruct H as [t [Hn Ht]]. apply rt_UT_in in Ht. tauto. Qed.

  Lemma rt_has_docann da : find_st DOCANN types = Some da -> In da types -> st_name da = DOCANN ->
    has_decl DOCANN (trim (descr_of_ts s)) = em.
  Proof.
    intros Hda H1 H2. rewrite (rt_trim_emitted da Hda), has_decl_memb, map_app, memb_app.
    rewrite (rt_names_R da H1 H2). rewrite (rt_D_names UT) by (intros t Ht; apply rt_UT_in in Ht; tauto).
    assert (memb DOCANN (map st_name UT) = false) as -> by (apply memb_false_notin; exact rt_UT_names_no_docann).
    rewrite orb_false_r. unfold em, SN, sort_names. apply memb_perm. apply sort_by_perm.
  Qed.

  Definition PE (da : stype) : descr :=
    map (Rn da) SN ++ map D UT ++ (if em then [] else [default_docann]).

  Lemma rt_prep da : find_st DOCANN types = Some da -> In da types -> st_name da = DOCANN ->
    prep (descr_of_ts s) = PE da.
  Proof.
    intros Hda H1 H2. unfold prep, with_docann. rewrite (rt_has_docann da Hda H1 H2), (rt_trim_emitted da Hda).
    unfold PE. destruct em; [rewrite app_nil_r; reflexivity|rewrite app_assoc; reflexivity].
  Qed.
End Roundtrip.

Lemma filter_key_nodup {A} (key : A -> string) (f : A -> bool) l : NoDup (map key l) -> NoDup (map key (filter f l)).
Proof.
  induction l as [|x r IH]; cbn; intros H; [constructor|].
  inversion H as [|? ? Hnot Hnd]; subst. destruct (f x); cbn; [|auto].
  constructor; [|auto]. intros Hin. apply Hnot. apply in_map_iff in Hin. destruct Hin as [y [Hy Hin]].
  apply filter_In in Hin. rewrite <- Hy. apply in_map. tauto.
Qed.

Lemma known_mono d d' : (forall n, known d n = true -> known d' n = true) ->
  forall t, wf_tdeclb d t = true -> wf_tdeclb d' t = true.
Proof.
  intros Hm t. unfold wf_tdeclb. rewrite !andb_true_iff. intros [[H1 H2] H3]. repeat split; auto.
  rewrite forallb_forall in *. intros f Hf. specialize (H2 f Hf). unfold wf_fdeclb, feat_refs_ok in *.
  rewrite !andb_true_iff in *. destruct H2 as [Hn [Hr He]]. repeat split; auto.
  destruct (f_elem f); auto.
Qed.

Lemma known_nil_mono d n : known [] n = true -> known d n = true.
Proof. unfold known. cbn. rewrite orb_false_r. intros ->. reflexivity. Qed.

Lemma builtins_wf : forallb (fun b => String.eqb (t_name b) "uima.cas.TOP" || wf_tdeclb [] b) builtins = true.
Proof. vm_compute. reflexivity. Qed.
Lemma default_docann_wf : wf_tdeclb [] default_docann = true.
Proof. vm_compute. reflexivity. Qed.

Lemma find_st_map_st (f : stype -> stype) n l : (forall t, st_name (f t) = st_name t) ->
  find_st n (map f l) = option_map f (find_st n l).
Proof.
  intros Hf. unfold find_st. induction l as [|x r IH]; cbn; [reflexivity|].
  rewrite Hf. destruct (String.eqb n (st_name x)); [reflexivity|exact IH].
Qed.

Lemma forallb_map {A B} (f : A -> B) (p : B -> bool) l : forallb p (map f l) = forallb (fun x => p (f x)) l.
Proof. induction l as [|x r IH]; cbn; [reflexivity|]. rewrite IH. reflexivity. Qed.

Section Roundtrip2.
  Variable s : tsys.
  Hypothesis Hwf : wf_ts_laxb s = true.
  Variable da : stype.
  Hypothesis Hda : find_st DOCANN (s_types s) = Some da.
  Hypothesis Hin : In da (s_types s).
  Hypothesis Hname : st_name da = DOCANN.
  Hypothesis Hdef : memb DOCANN (emit_names s) = false -> norm_type da = stype_of_decl default_docann.

  Local Notation types := (s_types s).
  Local Notation EN := (emit_names s).
  Local Notation SN := (sort_names (emit_names s)).
  Local Notation UT := (filter (fun t => negb (String.eqb (st_name t) DOCANN)) (sort_by st_name (s_types s))).
  Local Notation em := (memb DOCANN (emit_names s)).
  Local Notation P := (PE s da).

  Lemma r2_P : P = map (Rn da) SN ++ map D UT ++ (if em then [] else [default_docann]).
  Proof. reflexivity. Qed.

  Lemma r2_ndtypes : NoDup (map st_name types).
  Proof. apply (rt_parts s Hwf). Qed.

  Lemma r2_SN_nodup : NoDup SN.
  Proof. unfold sort_names. eapply Permutation_NoDup; [apply Permutation_sym, sort_by_perm|]. apply rt_EN_nodup. exact Hwf. Qed.

  Lemma r2_UT_nodup : NoDup (map st_name UT).
  Proof.
    apply filter_key_nodup. eapply Permutation_NoDup; [apply Permutation_sym, sort_by_map_key|]. exact r2_ndtypes.
  Qed.

  Lemma r2_UT_types t : In t UT -> In t types.
  Proof. intros H. apply (rt_UT_in s) in H. tauto. Qed.

  Lemma r2_names : map t_name P = SN ++ map st_name UT ++ (if em then [] else [DOCANN]).
  Proof.
    rewrite r2_P, !map_app. rewrite (rt_names_R s Hwf da Hin Hname). rewrite (rt_D_names s Hwf UT r2_UT_types).
    destruct em; reflexivity.
  Qed.

  Lemma r2_em_SN : memb DOCANN SN = em.
  Proof. unfold sort_names. apply memb_perm. apply sort_by_perm. Qed.

  Lemma r2_nodup : NoDup (map t_name P).
  Proof.
    rewrite r2_names. apply NoDup_app_intro.
    - exact r2_SN_nodup.
    - apply NoDup_app_intro; [exact r2_UT_nodup|destruct em; repeat constructor; intros []|].
      intros x Hx. destruct em; [intros []|]. intros [<-|[]]. exact (rt_UT_names_no_docann s Hx).
    - intros x Hx Hx2. apply (rt_SN_in s) in Hx. apply in_app_or in Hx2. destruct Hx2 as [Hx2|Hx2].
      + apply in_map_iff in Hx2. destruct Hx2 as [t [Hn Ht]]. apply (rt_UT_in s) in Ht. destruct Ht as [Ht Hnd].
        pose proof (rt_wf_type s Hwf t Ht) as Hw. apply wf_stype_parts in Hw. destruct Hw as [_ [Hnb _]].
        destruct (rt_EN_class s Hwf x Hx) as [[Hb _]|Hd]; [congruence|]. apply Hnd. congruence.
      + destruct em eqn:Eem; [destruct Hx2|]. destruct Hx2 as [<-|[]].
        apply memb_false_notin in Eem. apply Eem. exact Hx.
  Qed.

  Lemma r2_known n : knownst types n = true -> known P n = true.
  Proof.
    unfold knownst, known. destruct (is_builtin n); [reflexivity|]. cbn.
    destruct (find_st n types) as [t|] eqn:E; [|discriminate]. intros _.
    rewrite find_st_findk in E. apply findk_some in E. destruct E as [Ht Hn].
    apply has_decl_In. rewrite r2_names. destruct (String.eqb (st_name t) DOCANN) eqn:Ed.
    - apply String.eqb_eq in Ed. destruct em eqn:Eem.
      + apply in_or_app. left. apply (rt_SN_in s). apply memb_In. rewrite <- Hn, Ed. exact Eem.
      + apply in_or_app. right. apply in_or_app. right. left. congruence.
    - apply in_or_app. right. apply in_or_app. left. rewrite <- Hn. apply in_map. apply (rt_UT_in s). split; [exact Ht|].
      apply String.eqb_neq. exact Ed.
  Qed.

  Lemma r2_wf_D t : In t types -> wf_tdeclb P (D t) = true.
  Proof.
    intros Ht. pose proof (rt_wf_type s Hwf t Ht) as Hw. pose proof (D_name types t Hw) as Hn. pose proof (D_super types t Hw) as Hs.
    apply wf_stype_parts in Hw. destruct Hw as [_ [Hnb [_ [Hk [Hfin Hf]]]]].
    unfold wf_tdeclb. rewrite Hn, Hs, Hnb, Hfin. rewrite (r2_known _ Hk). cbn [negb andb]. rewrite andb_true_r.
    unfold D, trim_type, emit_type. cbn [t_feats st_feats]. rewrite map_map, forallb_map.
    rewrite forallb_forall in *. intros f Hfin'. specialize (Hf f Hfin'). unfold wf_fdeclb.
    rewrite (K_feat_name types f Hf). cbn [negb andb].
    unfold wf_sfeatb in Hf. rewrite !andb_true_iff in Hf. destruct Hf as [[[_ Hrt] Hrk] He].
    unfold feat_refs_ok, trim_feat, emit_feat. cbn [f_range f_elem]. rewrite (trimmedb_strip _ Hrt), (r2_known _ Hrk). cbn [andb].
    destruct (sf_elem f) as [e|]; [|reflexivity]. cbn. apply andb_true_iff in He. destruct He as [He1 He2].
    rewrite (trimmedb_strip _ He1). apply r2_known. exact He2.
  Qed.

  Lemma r2_wf_all : forallb (wf_tdeclb P) P = true.
  Proof.
    rewrite forallb_forall. intros x Hx. rewrite r2_P in Hx. apply in_app_or in Hx. destruct Hx as [Hx|Hx].
    - apply in_map_iff in Hx. destruct Hx as [n [<- Hn]]. apply (rt_SN_in s) in Hn. unfold Rn.
      destruct (find_decl n builtins) as [b|] eqn:Eb; [|apply r2_wf_D; exact Hin].
      rewrite find_decl_findk in Eb. apply findk_some in Eb. destruct Eb as [Hb Hbn].
      pose proof builtins_wf as H. rewrite forallb_forall in H. specialize (H b Hb).
      destruct (rt_EN_class s Hwf n Hn) as [[_ Htop]|Hd].
      + apply orb_true_iff in H. destruct H as [H|H].
        * apply String.eqb_eq in H. congruence.
        * eapply known_mono; [|exact H]. apply known_nil_mono.
      + exfalso. assert (is_builtin DOCANN = true) as Hc by (apply has_decl_In; rewrite <- Hd, <- Hbn; apply in_map; exact Hb).
        rewrite docann_not_builtin in Hc. discriminate.
    - apply in_app_or in Hx. destruct Hx as [Hx|Hx].
      + apply in_map_iff in Hx. destruct Hx as [t [<- Ht]]. apply r2_wf_D. apply r2_UT_types. exact Ht.
      + destruct em; [destruct Hx|]. destruct Hx as [<-|[]].
        eapply known_mono; [|exact default_docann_wf]. apply known_nil_mono.
  Qed.

  Lemma r2_filter_R : forall l, NoDup l -> (forall n, In n l -> In n EN) ->
    user_decls (map (Rn da) l) = if memb DOCANN l then [D da] else [].
  Proof.
    induction l as [|n r IH]; intros Hnd Hl; cbn [map memb]; [reflexivity|].
    inversion Hnd as [|? ? Hnot Hnd']; subst.
    unfold user_decls. cbn [filter]. fold (user_decls (map (Rn da) r)).
    rewrite (rt_Rn_name s Hwf da n Hin Hname (Hl n (or_introl eq_refl))).
    rewrite (IH Hnd' (fun m Hm => Hl m (or_intror Hm))).
    destruct (rt_EN_class s Hwf n (Hl n (or_introl eq_refl))) as [[Hb _]|Hd].
    - rewrite Hb. cbn [negb]. destruct (String.eqb DOCANN n) eqn:E; [|reflexivity].
      apply String.eqb_eq in E. subst n. rewrite docann_not_builtin in Hb. discriminate.
    - subst n. rewrite docann_not_builtin, String.eqb_refl. cbn [negb orb].
      assert (memb DOCANN r = false) as -> by (apply memb_false_notin; exact Hnot).
      unfold Rn. cbn. reflexivity.
  Qed.

  Lemma r2_user_decls : user_decls P = (if em then [D da] else []) ++ map D UT ++ (if em then [] else [default_docann]).
  Proof.
    rewrite r2_P. unfold user_decls. rewrite !filter_app. fold (user_decls (map (Rn da) SN)).
    rewrite (r2_filter_R SN r2_SN_nodup (fun n Hn => proj1 (rt_SN_in s n) Hn)), r2_em_SN. f_equal. f_equal.
    - assert (forall l, (forall t, In t l -> In t types) -> filter (fun t => negb (is_builtin (t_name t))) (map D l) = map D l) as H.
      { induction l as [|x r IH]; intros Hl; cbn [map filter]; [reflexivity|].
        pose proof (rt_wf_type s Hwf x (Hl x (or_introl eq_refl))) as Hw. rewrite (D_name types x Hw).
        apply wf_stype_parts in Hw. destruct Hw as [_ [Hnb _]]. rewrite Hnb. cbn [negb]. f_equal. apply IH.
        intros y Hy. apply Hl. right. exact Hy. }
      apply H. exact r2_UT_types.
    - destruct em; reflexivity.
  Qed.

  Lemma r2_da_UT_perm : Permutation (da :: UT) types.
  Proof.
    apply Permutation_sym.
    eapply Permutation_trans; [apply (filter_partition_perm (fun x => String.eqb (st_name x) DOCANN))|].
    rewrite (filter_name_single st_name DOCANN types da r2_ndtypes Hda). cbn [app]. constructor.
    apply filter_perm. apply Permutation_sym, sort_by_perm.
  Qed.

  Lemma r2_content_perm : Permutation (map stype_of_decl (user_decls P)) (map norm_type types).
  Proof.
    rewrite <- r2_da_UT_perm. rewrite r2_user_decls, !map_app. cbn [map].
    assert (map stype_of_decl (map D UT) = map norm_type UT) as ->.
    { rewrite map_map. apply map_ext_in. intros t Ht. apply (K_type types). apply (rt_wf_type s Hwf). apply r2_UT_types. exact Ht. }
    destruct em eqn:Eem; cbn [map app].
    - rewrite (K_type types da (rt_wf_type s Hwf da Hin)). rewrite app_nil_r. reflexivity.
    - rewrite (Hdef eq_refl). apply Permutation_sym. apply Permutation_cons_append.
  Qed.

  Lemma r2_find_st m : find_st m (map stype_of_decl (user_decls P)) = option_map norm_type (find_st m types).
  Proof.
    rewrite <- (find_st_map_st norm_type) by reflexivity. rewrite !find_st_findk. apply findk_perm.
    - exact r2_content_perm.
    - rewrite map_st_name_stype. apply user_decls_names. exact r2_nodup.
  Qed.

  Lemma r2_noclash : noclashb types = true -> noclashb (map stype_of_decl (user_decls P)) = true.
  Proof.
    intros Hnc. unfold noclashb. rewrite (Permutation_length r2_content_perm), map_length.
    rewrite (forallb_perm _ _ _ r2_content_perm), forallb_map.
    unfold noclashb in Hnc.
    rewrite forallb_forall in *. intros t Ht. specialize (Hnc t Ht). unfold noclash1 in *.
    cbn [norm_type st_feats st_super]. apply andb_true_iff in Hnc. destruct Hnc as [H1 H2].
    assert (map sf_name (map norm_feat (st_feats t)) = map sf_name (st_feats t)) as En by (rewrite map_map; reflexivity).
    rewrite En, H1. cbn [andb].
    destruct (all_feats (S (List.length types)) types (st_super t)) as [inh|] eqn:E; [|discriminate].
    destruct (all_feats_mono (map stype_of_decl (user_decls P)) types) with (k := S (List.length types)) (n := st_super t) (l := inh)
      as [inh' [E' Hi]].
    { intros m. rewrite r2_find_st. destruct (find_st m types) as [x|]; cbn; [|exact I]. split; [reflexivity|].
      rewrite map_map. cbn. apply incl_refl. }
    { exact E. }
    rewrite E', forallb_map. rewrite forallb_forall in *. intros f Hf. specialize (H2 f Hf). cbn [norm_feat sf_name].
    destruct (find_sf (sf_name f) inh) eqn:Ef; [discriminate|]. rewrite (find_sf_none_incl _ _ _ Ef Hi). reflexivity.
  Qed.

  Lemma r2_builtin_names : map t_name (filter (fun t => is_builtin (t_name t)) P) = filter is_builtin SN.
  Proof.
    rewrite r2_P, !filter_app, !map_app.
    assert (filter (fun t => is_builtin (t_name t)) (map D UT) = []) as ->.
    { assert (forall l, (forall t, In t l -> In t types) -> filter (fun t => is_builtin (t_name t)) (map D l) = []) as H.
      { induction l as [|x r IH]; intros Hl; cbn [map filter]; [reflexivity|].
        pose proof (rt_wf_type s Hwf x (Hl x (or_introl eq_refl))) as Hw. rewrite (D_name types x Hw).
        apply wf_stype_parts in Hw. destruct Hw as [_ [Hnb _]]. rewrite Hnb. apply IH. intros y Hy. apply Hl. right. exact Hy. }
      apply H. exact r2_UT_types. }
    assert (filter (fun t => is_builtin (t_name t)) (if em then [] else [default_docann]) = []) as -> by (destruct em; reflexivity).
    cbn [map app]. rewrite app_nil_r.
    assert (forall l, (forall n, In n l -> In n EN) ->
                      map t_name (filter (fun t => is_builtin (t_name t)) (map (Rn da) l)) = filter is_builtin l) as H.
    { induction l as [|n r IH]; intros Hl; cbn [map filter]; [reflexivity|].
      rewrite (rt_Rn_name s Hwf da n Hin Hname (Hl n (or_introl eq_refl))).
      destruct (is_builtin n) eqn:Eb; cbn [map]; rewrite IH; try reflexivity; try (intros y Hy; apply Hl; right; exact Hy).
      rewrite (rt_Rn_name s Hwf da n Hin Hname (Hl n (or_introl eq_refl))). reflexivity. }
    apply H. intros n Hn. apply (rt_SN_in s). exact Hn.
  Qed.

  Lemma r2_redecl_perm : Permutation ((if em then [DOCANN] else []) ++ filter is_builtin SN) EN.
  Proof.
    apply NoDup_Permutation.
    - apply NoDup_app_intro.
      + destruct em; repeat constructor. intros [].
      + apply NoDup_filter. exact r2_SN_nodup.
      + intros x Hx Hx2. apply filter_In in Hx2. destruct Hx2 as [_ Hb]. destruct em; [|destruct Hx].
        destruct Hx as [<-|[]]. rewrite docann_not_builtin in Hb. discriminate.
    - apply rt_EN_nodup. exact Hwf.
    - intros x. rewrite in_app_iff, filter_In, (rt_SN_in s). split.
      + intros [H|[H _]]; [|exact H]. destruct em eqn:E; [|destruct H]. destruct H as [<-|[]]. apply memb_In. exact E.
      + intros H. destruct (rt_EN_class s Hwf x H) as [[Hb _]|Hd]; [right; auto|]. left. subst x.
        assert (em = true) as -> by (apply memb_In; exact H). left. reflexivity.
  Qed.
End Roundtrip2.

Lemma wf_written s : wf_tsb s = true -> wf_descrb (descr_of_ts s) = true.
Proof.
  intros Hwf0. pose proof (wf_ts_lax_of s Hwf0) as Hwf. destruct (rt_da s Hwf) as [da [Hda [Hin [Hname Hdef]]]].
  unfold wf_descrb. cbv zeta. rewrite (rt_prep s Hwf da Hda Hin Hname). rewrite !andb_true_iff. repeat split.
  - apply nodupb_NoDup. apply r2_nodup; assumption.
  - apply r2_wf_all; assumption.
  - apply r2_noclash; try assumption. unfold wf_tsb in Hwf0. rewrite !andb_true_iff in Hwf0. tauto.
Qed.

Theorem roundtrip s order : wf_tsb s = true -> order_okb order (descr_of_ts s) = true ->
  exists s', ts_of_descr order (descr_of_ts s) = Ok s' /\ canon s' = canon (norm_ts s).
Proof.
  intros Hwf0 Hord. exists (state_of order (descr_of_ts s)). split; [apply load_wf; [apply wf_written; exact Hwf0|exact Hord]|].
  pose proof (wf_ts_lax_of s Hwf0) as Hwf. destruct (rt_da s Hwf) as [da [Hda [Hin [Hname Hdef]]]].
  assert (HP : prep (descr_of_ts s) = PE s da) by (apply rt_prep; assumption).
  unfold order_okb in Hord. rewrite HP in Hord. apply andb_true_iff in Hord. destruct Hord as [Htopo Hcov].
  assert (Hnd : NoDup (map t_name (PE s da))) by (apply r2_nodup; assumption).
  assert (Hcp : Permutation (map stype_of_decl (user_decls (PE s da))) (map norm_type (s_types s))) by (apply r2_content_perm; assumption).
  assert (Hhd : has_decl DOCANN (trim (descr_of_ts s)) = memb DOCANN (emit_names s)) by (apply rt_has_docann with (da := da); assumption).
  assert (Hbn : map t_name (filter (fun t => is_builtin (t_name t)) (PE s da)) = filter is_builtin (sort_names (emit_names s)))
    by (apply r2_builtin_names; assumption).
  assert (Hrp : Permutation ((if memb DOCANN (emit_names s) then [DOCANN] else []) ++ filter is_builtin (sort_names (emit_names s))) (emit_names s))
    by (apply r2_redecl_perm with (da := da); assumption).
  unfold canon, content, state_of, norm_ts. cbn [s_types s_redecl]. rewrite HP, spec_types_sel. f_equal.
  - apply sort_by_perm_eq.
    + rewrite (Permutation_map stype_of_decl (sel_decls_perm _ _ Hnd Htopo Hcov)). exact Hcp.
    + rewrite map_st_name_stype. apply (topo_nodup (PE s da) order []). exact Htopo.
  - unfold redecl_after, spec_redecl, redecl_of. rewrite HP, Hhd, Hbn. unfold sort_names at 1 3. apply sort_by_perm_eq.
    + exact Hrp.
    + rewrite map_id. eapply Permutation_NoDup; [apply Permutation_sym; exact Hrp|].
      apply rt_EN_nodup. exact Hwf.
Qed.

(* ------------------------------------------------------------------ redeclared built-ins *)
Lemma list_eqb_full l1 : forall l2,
  list_eqb fd_eqb l1 l2 && list_eqb Bool.eqb (multi_refs l1) (multi_refs l2) = list_eqb fd_full_eqb l1 l2.
Proof.
  induction l1 as [|a l1 IH]; intros [|b l2]; cbn [list_eqb multi_refs map andb]; try reflexivity.
  rewrite <- IH. unfold fd_full_eqb, multi_refs.
    destruct (fd_eqb a b), (list_eqb fd_eqb l1 l2),
      (Bool.eqb (match f_multi a with Some x => x | None => false end) (match f_multi b with Some x => x | None => false end));
      cbn [andb]; reflexivity.
Qed.

Lemma builtin_check1_spec t b : find_decl (t_name t) builtins = Some b ->
  builtin_check1 t = if builtin_same_declb t b then Ok true else Err EValue.
Proof.
  intros H. unfold builtin_check1, builtin_same_declb. rewrite H, list_eqb_full.
  destruct (String.eqb (t_super t) (t_super b)); cbn; [|reflexivity].
  destruct (list_eqb fd_full_eqb _ _); reflexivity.
Qed.

Lemma builtin_check1_res t : builtin_check1 t = Ok true \/ builtin_check1 t = Ok false \/ builtin_check1 t = Err EValue.
Proof.
  unfold builtin_check1. destruct (find_decl (t_name t) builtins); [|auto].
  destruct (negb _); [auto|]. destruct (_ && _); auto.
Qed.

Lemma builtin_check_fails d2 t : In t d2 -> builtin_check1 t = Err EValue -> builtin_check d2 = Err EValue.
Proof.
  induction d2 as [|a r IH]; intros Hin Ht; [destruct Hin|]. cbn [builtin_check].
  destruct Hin as [->|Hin]; [rewrite Ht; reflexivity|].
  destruct (builtin_check1_res a) as [E|[E|E]]; rewrite E; cbn [bind]; try reflexivity; rewrite (IH Hin Ht); reflexivity.
Qed.

Theorem builtin_differently_rejected d order t b :
  In t (prep d) -> find_decl (t_name t) builtins = Some b -> builtin_same_declb t b = false ->
  ts_of_descr order d = Err (if resolve_okb (prep d) then EValue else EKey).
Proof.
  intros Hin Hb Hdiff. unfold ts_of_descr. cbv zeta. fold (prep d).
  destruct (resolve_okb (prep d)); cbn [negb]; [|reflexivity].
  rewrite (builtin_check_fails (prep d) t Hin); [reflexivity|].
  rewrite (builtin_check1_spec t b Hb), Hdiff. reflexivity.
Qed.

Lemma builtins_check_ok :
  forallb (fun b => String.eqb (t_name b) "uima.cas.TOP" || builtin_same_declb b b) builtins = true.
Proof. vm_compute. reflexivity. Qed.

Lemma builtin_identical_check b : In b builtins -> t_name b <> "uima.cas.TOP" -> builtin_check1 b = Ok true.
Proof.
  intros Hin Hn. assert (NoDup (map t_name builtins)) as Hnd by (apply nodupb_NoDup; vm_compute; reflexivity).
  rewrite (builtin_check1_spec b b); [|rewrite find_decl_findk; apply findk_nodup; assumption].
  pose proof builtins_check_ok as H. rewrite forallb_forall in H. specialize (H b Hin).
  apply orb_true_iff in H. destruct H as [H|H]; [apply String.eqb_eq in H; contradiction|]. rewrite H. reflexivity.
Qed.

(* adding the own declaration of a built-in to a well-formed descriptor *)
Section AddBuiltin.
  Variable d : descr.
  Variable b : tdecl.
  Variable order : list tname.
  Hypothesis Hwf : wf_descrb d = true.
  Hypothesis Hb : In b builtins.
  Hypothesis Htop : t_name b <> "uima.cas.TOP".
  Hypothesis Hfresh : ~ In (t_name b) (map t_name (prep d)).
  Hypothesis Hord : order_okb order d = true.

  Lemma ab_builtin : is_builtin (t_name b) = true.
  Proof. apply has_decl_In. apply in_map. exact Hb. Qed.

  Lemma ab_trim : trim_type b = b.
  Proof. pose proof builtins_trimmed as H. rewrite forallb_forall in H. apply tdecl_eqb_eq. apply H. exact Hb. Qed.

  Lemma ab_prep : prep (b :: d) = b :: prep d.
  Proof.
    unfold prep, with_docann, trim. cbn [map]. rewrite ab_trim. fold (trim d).
    assert (has_decl DOCANN (b :: trim d) = has_decl DOCANN (trim d)) as ->.
    { unfold has_decl, find_decl. cbn [find]. destruct (String.eqb DOCANN (t_name b)) eqn:E; [|reflexivity].
      apply String.eqb_eq in E. pose proof ab_builtin as H. rewrite <- E, docann_not_builtin in H. discriminate. }
    destruct (has_decl DOCANN (trim d)); reflexivity.
  Qed.

  Lemma ab_find n : is_builtin n = false -> find_decl n (b :: prep d) = find_decl n (prep d).
  Proof.
    intros Hn. unfold find_decl. cbn [find]. destruct (String.eqb n (t_name b)) eqn:E; [|reflexivity].
    apply String.eqb_eq in E. pose proof ab_builtin as H. rewrite <- E, Hn in H. discriminate.
  Qed.

  Lemma ab_has n : has_decl n (b :: prep d) = String.eqb n (t_name b) || has_decl n (prep d).
  Proof. unfold has_decl, find_decl. cbn [find]. destruct (String.eqb n (t_name b)); reflexivity. Qed.

  Lemma ab_known n : known (prep d) n = true -> known (b :: prep d) n = true.
  Proof. unfold known. rewrite ab_has. intros H. destruct (is_builtin n); [reflexivity|]. cbn in *. rewrite H. apply orb_true_r. Qed.

  Lemma ab_wf : wf_descrb (b :: d) = true.
  Proof.
    apply wf_descr_parts in Hwf. destruct Hwf as [Hnd [Hall Hnc]].
    unfold wf_descrb. cbv zeta. rewrite ab_prep. rewrite !andb_true_iff. repeat split.
    - apply nodupb_NoDup. cbn [map]. constructor; assumption.
    - cbn [forallb]. apply andb_true_iff. split.
      + pose proof builtins_wf as H. rewrite forallb_forall in H. specialize (H b Hb).
        apply orb_true_iff in H. destruct H as [H|H]; [apply String.eqb_eq in H; contradiction|].
        eapply known_mono; [|exact H]. apply known_nil_mono.
      + rewrite forallb_forall in *. intros t Ht. eapply known_mono; [|apply Hall; exact Ht]. exact ab_known.
    - unfold user_decls. cbn [filter]. rewrite ab_builtin. cbn [negb]. exact Hnc.
  Qed.

  Lemma ab_topo : forall ord seen, topo_okb (prep d) ord seen = true -> topo_okb (b :: prep d) ord seen = true.
  Proof.
    induction ord as [|n r IH]; intros seen H; cbn [topo_okb] in *; [reflexivity|].
    destruct (is_builtin n) eqn:En; [apply IH; exact H|]. rewrite (ab_find n En).
    destruct (find_decl n (prep d)) as [t|]; [|discriminate].
    rewrite !andb_true_iff in *. destruct H as [[H1 H2] H3]. repeat split; auto.
    rewrite ab_has. destruct (is_builtin (t_super t)) eqn:Es; [reflexivity|]. cbn in *.
    destruct (memb (t_super t) seen); [reflexivity|]. cbn in *.
    destruct (String.eqb (t_super t) (t_name b)) eqn:E; [|exact H2].
    apply String.eqb_eq in E. pose proof ab_builtin as Hbb. rewrite <- E, Es in Hbb. discriminate.
  Qed.

  Lemma ab_order : order_okb order (b :: d) = true.
  Proof.
    unfold order_okb in *. rewrite ab_prep. apply andb_true_iff in Hord. destruct Hord as [H1 H2].
    apply andb_true_iff. split; [apply ab_topo; exact H1|]. cbn [forallb]. rewrite ab_builtin. exact H2.
  Qed.

  Lemma ab_spec_types : spec_types order (b :: prep d) = spec_types order (prep d).
  Proof.
    unfold spec_types. apply flat_map_ext. intros n. destruct (is_builtin n) eqn:En; [reflexivity|].
    rewrite (ab_find n En). reflexivity.
  Qed.

  Theorem builtin_identical_ok :
    ts_of_descr order d = Ok (state_of order d) /\
    ts_of_descr order (b :: d) = Ok (state_of order (b :: d)) /\
    s_types (state_of order (b :: d)) = s_types (state_of order d) /\
    Permutation (s_redecl (state_of order (b :: d))) (t_name b :: s_redecl (state_of order d)).
  Proof.
    repeat split.
    - apply load_wf; assumption.
    - apply load_wf; [exact ab_wf|exact ab_order].
    - unfold state_of. cbn [s_types]. rewrite ab_prep. apply ab_spec_types.
    - unfold state_of, spec_redecl, redecl_of. cbn [s_redecl]. rewrite ab_prep. unfold trim. cbn [map filter]. rewrite ab_trim.
      fold (trim d). rewrite ab_builtin. cbn [map].
      assert (has_decl DOCANN (b :: trim d) = has_decl DOCANN (trim d)) as ->.
      { unfold has_decl, find_decl. cbn [find]. destruct (String.eqb DOCANN (t_name b)) eqn:E; [|reflexivity].
        apply String.eqb_eq in E. pose proof ab_builtin as H. rewrite <- E, docann_not_builtin in H. discriminate. }
      apply Permutation_sym. apply Permutation_middle.
  Qed.
End AddBuiltin.

(* ------------------------------------------------------------------ the writer writes the written form *)
Lemma sorted_app {A} (R : A -> A -> Prop) l1 l2 :
  StronglySorted R l1 -> StronglySorted R l2 -> (forall a b, In a l1 -> In b l2 -> R a b) -> StronglySorted R (l1 ++ l2).
Proof.
  induction 1 as [|x r Hs IH Hall]; cbn; intros H2 Hc; [exact H2|]. constructor.
  - apply IH; [exact H2|]. intros a b Ha Hb. apply Hc; [right; exact Ha|exact Hb].
  - apply Forall_app. split; [exact Hall|]. rewrite Forall_forall. intros y Hy. apply Hc; [left; reflexivity|exact Hy].
Qed.

Lemma sorted_strict {A} (key : A -> string) l : StronglySorted (kle key) l -> NoDup (map key l) ->
  StronglySorted (fun a b => String.ltb (key a) (key b) = true) l.
Proof.
  induction 1 as [|x r Hs IH Hall]; cbn; intros Hnd; [constructor|].
  inversion Hnd as [|? ? Hnot Hnd']; subst. constructor; [apply IH; exact Hnd'|].
  rewrite Forall_forall in *. intros y Hy. apply leb_neq_ltb; [apply Hall; exact Hy|].
  intros E. apply Hnot. rewrite E. apply in_map. exact Hy.
Qed.

Section Written.
  Variable s : tsys.
  Hypothesis Hwf : wf_ts_laxb s = true.
  Variable da : stype.
  Hypothesis Hda : find_st DOCANN (s_types s) = Some da.
  Hypothesis Hin : In da (s_types s).
  Hypothesis Hname : st_name da = DOCANN.

  Local Notation types := (s_types s).
  Local Notation SN := (sort_names (emit_names s)).
  Local Notation UT := (filter (fun t => negb (String.eqb (st_name t) DOCANN)) (sort_by st_name (s_types s))).

  Lemma wr_R_class n : In n SN -> t_name (Rn da n) = n /\ is_redecl_name n = true.
  Proof.
    intros Hn. apply (rt_SN_in s) in Hn. split; [apply (rt_Rn_name s Hwf); assumption|].
    unfold is_redecl_name. destruct (rt_EN_class s Hwf n Hn) as [[Hb _]| ->]; [rewrite Hb; reflexivity|reflexivity].
  Qed.

  Lemma wr_U_class t : In t UT -> t_name (D t) = st_name t /\ is_redecl_name (st_name t) = false.
  Proof.
    intros Ht. apply (rt_UT_in s) in Ht. destruct Ht as [Ht Hnd]. pose proof (rt_wf_type s Hwf t Ht) as Hw.
    split; [apply (D_name types); exact Hw|]. apply wf_stype_parts in Hw. destruct Hw as [_ [Hnb _]].
    unfold is_redecl_name. rewrite Hnb. cbn. apply String.eqb_neq. exact Hnd.
  Qed.

  Lemma wr_sorted : sortedb key_ltb (map (Rn da) SN ++ map D UT) = true.
  Proof.
    apply sortedb_sorted. apply sorted_app.
    - apply sorted_map. eapply sorted_impl_in; [|apply (sorted_strict (fun x : string => x))].
      + intros a b Ha Hb Hab. cbn beta in Hab. destruct (wr_R_class a Ha) as [Na Ca]. destruct (wr_R_class b Hb) as [Nb Cb].
        unfold key_ltb. rewrite Na, Nb, Ca, Cb, Hab. reflexivity.
      + apply (sort_by_sorted (fun x : string => x)).
      + rewrite map_id. unfold sort_names. eapply Permutation_NoDup; [apply Permutation_sym, sort_by_perm|].
        apply rt_EN_nodup. exact Hwf.
    - apply sorted_map. eapply sorted_impl_in; [|apply (sorted_strict st_name)].
      + intros a b Ha Hb Hab. cbn beta in Hab. destruct (wr_U_class a Ha) as [Na Ca]. destruct (wr_U_class b Hb) as [Nb Cb].
        unfold key_ltb. rewrite Na, Nb, Ca, Cb, Hab. reflexivity.
      + apply sorted_filter. apply sort_by_sorted.
      + apply filter_key_nodup. eapply Permutation_NoDup; [apply Permutation_sym, sort_by_map_key|]. apply (rt_parts s Hwf).
    - intros a b Ha Hb. apply in_map_iff in Ha. destruct Ha as [n [<- Hn]]. apply in_map_iff in Hb. destruct Hb as [t [<- Ht]].
      destruct (wr_R_class n Hn) as [Na Ca]. destruct (wr_U_class t Ht) as [Nb Cb].
      unfold key_ltb. rewrite Na, Nb, Ca, Cb. reflexivity.
  Qed.

  Lemma wr_exact : forallb exact_builtinb (map (Rn da) SN ++ map D UT) = true.
  Proof.
    rewrite forallb_forall. intros x Hx. unfold exact_builtinb. apply in_app_or in Hx. destruct Hx as [Hx|Hx].
    - apply in_map_iff in Hx. destruct Hx as [n [<- Hn]]. destruct (wr_R_class n Hn) as [Na _]. rewrite Na.
      unfold Rn. destruct (find_decl n builtins) as [b|] eqn:Eb; [|reflexivity].
      assert (forall t, tdecl_eqb t t = true) as Hrefl.
      { assert (forall o, opt_eqb o o = true) as Ho by (intros [x|]; cbn; [apply String.eqb_refl|reflexivity]).
        assert (forall o, optb_eqb o o = true) as Hob by (intros [[|]|]; reflexivity).
        assert (forall f, fdecl_eqb f f = true) as Hf by (intros f; unfold fdecl_eqb; rewrite !String.eqb_refl, !Ho, Hob; reflexivity).
        intros t. unfold tdecl_eqb. rewrite !String.eqb_refl, Ho. cbn. induction (t_feats t) as [|f r IH]; cbn; [reflexivity|].
        rewrite Hf. exact IH. }
      apply Hrefl.
    - apply in_map_iff in Hx. destruct Hx as [t [<- Ht]]. destruct (wr_U_class t Ht) as [Na Ca]. rewrite Na.
      unfold is_redecl_name in Ca. apply orb_false_iff in Ca. destruct Ca as [Ca _].
      unfold is_builtin, has_decl in Ca. destruct (find_decl (st_name t) builtins); [discriminate|reflexivity].
  Qed.
End Written.

Lemma written_form s : wf_tsb s = true -> emitted_formb (descr_of_ts s) = true.
Proof.
  intros Hwf0. pose proof (wf_ts_lax_of s Hwf0) as Hwf. destruct (rt_da s Hwf) as [da [Hda [Hin [Hname _]]]].
  unfold emitted_formb. rewrite (rt_trim_emitted s Hwf da Hda). apply andb_true_iff. split.
  - apply wr_sorted; assumption.
  - apply wr_exact; assumption.
Qed.

(* the property for type systems: write, read, write again *)
Theorem write_read_write s order s' : wf_tsb s = true -> order_okb order (descr_of_ts s) = true ->
  ts_of_descr order (descr_of_ts s) = Ok s' -> descr_of_ts s' = trimmed (descr_of_ts s).
Proof.
  intros Hwf Hord Hload. eapply reemit_identical; [apply wf_written; exact Hwf|apply written_form; exact Hwf|exact Hord|exact Hload].
Qed.

(* ------------------------------------------------------------------ regression witnesses for the repaired code *)
Definition ex_docann_ext : tsys := mkTS
  [mkST DOCANN None "uima.tcas.Annotation"
     [mkSF "language" false None "uima.cas.String" None None; mkSF "x" false None "uima.cas.String" None None];
   mkST "a.B" None "uima.tcas.Annotation" []] [].

(* before commit fa385f5 an extended DocumentAnnotation changed its place on re-emission *)
Lemma reemit_docann_position_old_refuted :
  exists s order s', wf_tsb s = true /\ order_okb order (descr_of_ts_old s) = true /\
    ts_of_descr order (descr_of_ts_old s) = Ok s' /\ descr_of_ts_old s' <> trimmed (descr_of_ts_old s).
Proof.
  exists ex_docann_ext, ["a.B"; DOCANN].
  eexists. split; [vm_compute; reflexivity|]. split; [vm_compute; reflexivity|]. split; [vm_compute; reflexivity|].
  intros H. apply (f_equal (map t_name)) in H. vm_compute in H. discriminate.
Qed.

(* before commit 7fd4ee0 a built-in redeclared with another multiple-references flag was accepted *)
Lemma builtin_multi_flag_old_refuted :
  exists t b, find_decl (t_name t) builtins = Some b /\ builtin_same_declb t b = false /\ builtin_check1_old t = Ok true.
Proof.
  exists (mkT "uima.cas.ArrayBase" None "uima.cas.TOP" [mkF "elements" None "uima.cas.TOP" None (Some false)]).
  eexists. split; [vm_compute; reflexivity|]. split; vm_compute; reflexivity.
Qed.

(* before commit b4a91fc the writer decided from the feature NAMES whether DocumentAnnotation is the implicitly added one: a
   DocumentAnnotation of the user's own whose only feature is called language -- here with a description, supertype
   AnnotationBase and language : Integer -- was not written and came back as the default one.  The type system satisfies
   today's wf_tsb (it did not satisfy the old premise docann_okb_names_old, which had to exclude it). *)
Definition ex_docann_own : tsys := mkTS
  [mkST DOCANN (Some "mine") "uima.cas.AnnotationBase" [mkSF "language" false None "uima.cas.Integer" None None];
   mkST "a.B" None DOCANN []] [].
Lemma docann_names_only_old_refuted :
  exists s order s', wf_tsb s = true /\ docann_okb_names_old s = false /\
    order_okb order (descr_of_ts_names_old s) = true /\
    ts_of_descr order (descr_of_ts_names_old s) = Ok s' /\ canon s' <> canon (norm_ts s).
Proof.
  exists ex_docann_own, [DOCANN; "a.B"].
  eexists. split; [vm_compute; reflexivity|]. split; [vm_compute; reflexivity|]. split; [vm_compute; reflexivity|].
  split; [vm_compute; reflexivity|].
  intros H. apply (f_equal (fun x => map st_super (s_types x))) in H. vm_compute in H. discriminate.
Qed.
(* ... and with the whole declaration compared it is written and read back as declared *)
Lemma docann_own_roundtrip_now :
  order_okb [DOCANN; "a.B"] (descr_of_ts ex_docann_own) = true /\
  exists s', ts_of_descr [DOCANN; "a.B"] (descr_of_ts ex_docann_own) = Ok s' /\
             s_types s' = s_types ex_docann_own /\ s_redecl s' = [DOCANN].
Proof. split; [vm_compute; reflexivity|]. eexists. split; [vm_compute; reflexivity|]. split; reflexivity. Qed.
